(* Non-vacuity witnesses and the refuted clauses of C04 (concrete files, decided by vm_compute). *)
From Coq Require Import ZArith NArith List Lia ZifyBool ZifyN ZifyNat Bool.
Require Import ListN Result Bytes Utf8 Utf8S F32 Prog Codec PoseRead PoseReadLemmas WindowLemmas
  C04_Legacy C04_Spec C04_SpecRT C04_V01 C04_V00 C04_Rewrite C04_Unknown.
Import ListNotations.
Open Scope N_scope.

Definition s_ (l : list N) : str := l.
Definition ex_comp : component :=
  {| c_name := [112; 111; 115; 101]; c_format := [88; 89; 67]; c_points := [[97]; [98]]; c_limbs := [(0, 1)]; c_colors := [(255, 0, 0)] |}.
Definition ex_comp2 : component :=
  {| c_name := [104; 233]; c_format := [88; 89; 67]; c_points := [[8364]]; c_limbs := []; c_colors := [] |}.
Definition hdr (v : N) : header := {| h_version := v; h_dims := (640, 480, 0); h_comps := [ex_comp; ex_comp2] |}.
(* float32 words: 1.0, 2.0, 0.5, -1.0, NaN *)
Definition f1 := 1065353216. Definition f2 := 1073741824. Definition fh := 1056964608. Definition fm1 := 3212836864. Definition fnan := 2143289344.

Ltac conjs := repeat match goal with |- _ /\ _ => split end.
(* closed side conditions: never vm_compute a goal in which a word is still bound (Pos.compare_cont recurses on its literal
   second argument and the normal form explodes); decompose with constructors first *)
Ltac wf_strs := repeat constructor; try (eexists; split; [reflexivity|vm_compute; reflexivity]).
Lemma hdr_wf v : v < 4294967296 -> wf_header (hdr v).
Proof. intros Hv. unfold wf_header, hdr. cbn [h_version h_dims h_comps]. split; [exact Hv|]. wf_strs. Qed.

(* ---------- v0.0: three frames with 2, 0 and 1 people; negative and NaN confidences ---------- *)
Definition ex_person (id : Z) (a b c d e f ca cb cc : N) : person00 :=
  {| ps_id := id; ps_comps := [[([a; b], ca); ([c; d], cb)]; [([e; f], cc)]] |}.
Definition ex00 : content00 :=
  {| k0_header := hdr 0; k0_fps := 30;
     k0_frames := [ [ex_person 5 f1 f2 f1 f1 f2 f2 f1 0 fm1; ex_person (-1) fh fh fh fh fh fh f1 f1 f1];
                    [];
                    [ex_person 0 f2 f1 fh fh f1 f1 fnan fh f1] ] |}.
Lemma ex00_wf : wf00 ex00 /\ k0_frames ex00 <> [].
Proof.
  split; [|discriminate]. unfold wf00. cbn [k0_header k0_fps k0_frames ex00].
  split; [apply hdr_wf; reflexivity|]. split; [vm_compute; reflexivity|].
  split; [vm_compute; reflexivity|]. split; [vm_compute; reflexivity|]. split; [discriminate|].
  split; [vm_compute; discriminate|]. split; [repeat constructor|].
  repeat constructor; try (vm_compute; reflexivity).
Qed.
Lemma ex00_decodes :
  fst (read_bytes c04_legacy None (spec00 ex00) no_args) = Ok (first_person_view ex00) /\
  b_shape (p_body (first_person_view ex00)) = [3; 1; 3; 2] /\
  b_data (p_body (first_person_view ex00)) = [f1; f2; f1; f1; f2; f2; 0; 0; 0; 0; 0; 0; f2; f1; fh; fh; f1; f1] /\
  b_conf (p_body (first_person_view ex00)) = [f1; 0; fm1; 0; 0; 0; fnan; fh; f1] /\
  b_mask (p_body (first_person_view ex00)) = [false; true; false; true; true; true; false; false; false].
Proof. split; [vm_compute; reflexivity|]. repeat split. Qed.

(* the window arguments are ignored by the v0.0 decoder: frames [1,2) requested, all three returned *)
Definition ex_win : rargs := {| a_sf := Some 1%Z; a_st := None; a_ef := Some 2%Z; a_et := None |}.
Definition v00_window_view (c : content00) (s0 e0 : Z) : pose :=
  {| p_header := k0_header c; p_body := window_body (p_body (first_person_view c)) s0 e0 |}.
Lemma v00_window_refuted : exists c a,
  wf00 c /\ k0_frames c <> [] /\ a_sf a = Some 1%Z /\ a_ef a = Some 2%Z /\ lenN (k0_frames c) = 3 /\
  fst (read_bytes c04_legacy None (spec00 c) a) <> Ok (v00_window_view c 1 2) /\
  fst (fst (read_stream4 c04_legacy None (spec00 c) a)) <> Ok (v00_window_view c 1 2).
Proof.
  exists ex00, ex_win. destruct ex00_wf as [Hw Hne]. split; [exact Hw|]. split; [exact Hne|].
  split; [reflexivity|]. split; [reflexivity|]. split; [reflexivity|].
  pose proof (v00_read_bytes ex00 None ex_win [] Hw I) as Hb.
  pose proof (v00_read_stream ex00 None ex_win [] Hw I) as Hs. rewrite app_nil_r in Hb, Hs.
  rewrite Hb, Hs. split; intros H; apply (f_equal (fun r => match r with Ok p => b_shape (p_body p) | Err _ => [] end)) in H;
    vm_compute in H; discriminate.
Qed.
(* a file that declares zero frames decodes to the empty pose *)
Definition ex00_empty : content00 := {| k0_header := hdr 0; k0_fps := 30; k0_frames := [] |}.
Lemma ex00_empty_wf : wf00 ex00_empty /\ k0_frames ex00_empty = [].
Proof.
  split; [|reflexivity]. unfold wf00. cbn [k0_header k0_fps k0_frames ex00_empty].
  split; [apply hdr_wf; reflexivity|]. split; [vm_compute; reflexivity|].
  split; [vm_compute; reflexivity|]. split; [vm_compute; reflexivity|]. split; [discriminate|].
  split; [vm_compute; discriminate|]. split; [repeat constructor|constructor].
Qed.
Lemma ex00_empty_decodes :
  fst (read_bytes c04_legacy None (spec00 ex00_empty) no_args) = Ok (first_person_view ex00_empty) /\
  b_shape (p_body (first_person_view ex00_empty)) = [0; 1; 3; 2] /\ b_data (p_body (first_person_view ex00_empty)) = [].
Proof. split; [vm_compute; reflexivity|]. split; reflexivity. Qed.

(* ---------- v0.1 ---------- *)
Definition v01w : N := 1036831949.                (* float32 0.1 *)
Definition ex01 : content01 :=
  {| k1_header := hdr v01w; k1_fps := 25; k1_frames_field := 3; k1_people := 1;
     k1_data := [[f1; f2; f1; f1; f2; f2]; [fh; fh; fh; fh; fh; fh]; [f2; f1; f2; f1; f2; f1]];
     k1_conf := [[f1; 0; fm1]; [f1; f1; f1]; [fnan; fh; 0]] |}.
Lemma ex01_wf : wf01 ex01.
Proof.
  unfold wf01. cbn [k1_header k1_fps k1_frames_field k1_people k1_data k1_conf ex01].
  split; [apply hdr_wf; reflexivity|]. conjs.
  (* never vm_compute a goal with a bound word: Pos.compare_cont recurses on its (literal) second argument *)
  all: try (repeat constructor; vm_compute; reflexivity).
  all: vm_compute; discriminate.
Qed.
Definition ex_win01 : rargs := {| a_sf := Some 1%Z; a_st := None; a_ef := Some 2%Z; a_et := None |}.
Lemma ex01_window : valid_window01 ex01 ex_win01 /\ valid_window01 ex01 no_args /\
  b_shape (p_body (v01_expected ex01 ex_win01)) = [1; 1; 3; 2] /\
  b_data (p_body (v01_expected ex01 ex_win01)) = [fh; fh; fh; fh; fh; fh] /\
  b_shape (p_body (v01_expected ex01 no_args)) = [3; 1; 3; 2].
Proof.
  unfold valid_window01. conjs; try (vm_compute; reflexivity).
  - right. vm_compute. reflexivity.
  - vm_compute. discriminate.
  - left. reflexivity.
  - vm_compute. discriminate.
Qed.

(* a recording of 70 000 frames: the 16-bit field holds 70000 mod 65536 = 4464 *)
Definition ex01_long : content01 :=
  {| k1_header := {| h_version := v01w; h_dims := (640, 480, 0); h_comps := [ex_comp2] |};
     k1_fps := 25; k1_frames_field := 4464; k1_people := 1;
     k1_data := repeat [f1; f2] (N.to_nat 70000); k1_conf := repeat [fh] (N.to_nat 70000) |}.
Lemma Forall_repeat {X} (P : X -> Prop) x n : P x -> Forall P (repeat x n).
Proof. intros H. induction n; cbn [repeat]; constructor; assumption. Qed.
Lemma ex01_long_wf : wf01 ex01_long /\ frames01 ex01_long = 70000%Z /\ (65535 < frames01 ex01_long)%Z.
Proof.
  assert (Hl : lenN (k1_data ex01_long) = 70000) by (cbn [k1_data ex01_long]; unfold lenN; rewrite repeat_length; lia).
  split; [|unfold frames01; rewrite Hl; split; [reflexivity|reflexivity]].
  unfold wf01. rewrite Hl. cbn [k1_header k1_fps k1_frames_field k1_people k1_data k1_conf ex01_long].
  split.
  { unfold wf_header. cbn [h_version h_dims h_comps]. split; [reflexivity|]. wf_strs. }
  split; [vm_compute; reflexivity|].
  do 3 (split; [vm_compute; reflexivity|]). do 3 (split; [vm_compute; discriminate|]).
  split; [now rewrite !repeat_length|]. split; [reflexivity|].
  split; apply Forall_repeat; (split; [vm_compute; reflexivity|repeat constructor; vm_compute; reflexivity]).
Qed.

(* time bounds are swallowed by the v0.1 decoder: [40 ms, 80 ms) at 25 fps is frame [1,2), all three are returned *)
Definition ex_time01 : rargs := {| a_sf := None; a_st := Some 40%Z; a_ef := None; a_et := Some 80%Z |}.
Lemma v01_time_window_refuted : exists c a,
  wf01 c /\ a_sf a = None /\ a_ef a = None /\
  time_to_frame false 40 (fps_value (k1_fps c)) = Ok 1%Z /\ a_st a = Some 40%Z /\
  time_to_frame true 80 (fps_value (k1_fps c)) = Ok 2%Z /\ a_et a = Some 80%Z /\
  fst (read_bytes c04_legacy None (spec01 c) a) <> Ok (v01_view c 1 2) /\
  fst (fst (read_stream4 c04_legacy None (spec01 c) a)) <> Ok (v01_view c 1 2).
Proof.
  exists ex01, ex_time01. split; [exact ex01_wf|]. split; [reflexivity|]. split; [reflexivity|].
  split; [vm_compute; reflexivity|]. split; [reflexivity|]. split; [vm_compute; reflexivity|]. split; [reflexivity|].
  destruct (v01_read_full ex01 None ex_time01 ex01_wf I eq_refl eq_refl) as [Hb Hs]. rewrite Hb, Hs.
  split; intros H; apply (f_equal (fun r => match r with Ok p => b_shape (p_body p) | Err _ => [] end)) in H;
    vm_compute in H; discriminate.
Qed.

(* ---------- versions ---------- *)
Lemma version_examples :
  version_class 0 = V00 /\ version_class 2147483648 = V00 /\ version_class v01w = V01 /\ version_class version_word = V02 /\
  version_class 1036812288 = V01 (* 0.09985 *) /\ version_class 1045236941 = V02 (* 0.20024 *) /\
  version_class 1050253722 = VUnknown (* 0.3 *) /\ version_class 1065353216 = VUnknown (* 1.0 *) /\
  version_class 3184315597 = VUnknown (* -0.1 *) /\ version_class 1 = VUnknown (* 1.4e-45 *) /\
  version_class 2143289344 = VUnknown (* NaN *) /\ version_class 2139095040 = VUnknown (* inf *) /\
  version_class 1036764839 = VUnknown (* 0.09949999302625656: rounds to 0.099 *) /\ version_class 1036764840 = V01 (* 0.09950000047683716 *) /\
  version_class 1036899057 = V01 (* 0.10049999505281448 *) /\ version_class 1036899058 = VUnknown (* 0.10050000250339508: rounds to 0.101 *).
Proof. vm_compute. repeat split. Qed.
Lemma ex_unknown_refused : wf_header (hdr 1050253722) /\ version_class (h_version (hdr 1050253722)) = VUnknown /\
  fst (read_bytes c04_legacy None (spec_header (hdr 1050253722) ++ spec_body01 ex01) no_args) = Err NotImplemented.
Proof. split; [apply hdr_wf; reflexivity|]. split; vm_compute; reflexivity. Qed.

(* rewriting the decoded examples *)
Lemma ex_rewrite :
  (exists bs, write_pose (to_wpose (first_person_view ex00)) = Ok bs /\ lenN bs = 184) /\
  b_mask (p_body (rewrite_view (first_person_view ex00))) = b_mask (p_body (first_person_view ex00)) /\
  b_conf (p_body (rewrite_view (first_person_view ex00))) = b_conf (p_body (first_person_view ex00)).
Proof. split; [eexists; split; vm_compute; reflexivity|]. split; vm_compute; reflexivity. Qed.
