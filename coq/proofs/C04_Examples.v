(* Non-vacuity witnesses of C04: concrete files, windows and refused arguments (decided by vm_compute). *)
From Coq Require Import ZArith NArith List Lia ZifyBool ZifyN ZifyNat Bool.
Require Import ListN Result Bytes Utf8 Utf8S F32 Prog Codec PoseRead PoseReadLemmas WindowLemmas
  C04_Legacy C04_Spec C04_SpecRT C04_V01 C04_V00 C04_Rewrite C04_Unknown.
Import ListNotations.
Open Scope N_scope.

Definition s_ (l : list N) : str := l.
Definition ex_comp : component :=
  {| c_name := [112; 111; 115; 101]; c_format := [88; 89; 67]; c_points := [[97]; [98]]; c_limbs := [(0, 1)]; c_colors := [(255, 0, 0)] |}.
Definition ex_comp2 : component :=
  {| c_name := [104; 233]; c_format := [88; 89; 67]; c_points := [[8364]]; c_limbs := []; c_colors := [] |}.
Definition hdr (v : N) : header := {| h_version := v; h_dims := (640, 480, 0); h_comps := [ex_comp; ex_comp2] |}.
(* float32 words: 1.0, 2.0, 0.5, -1.0, NaN *)
Definition f1 := 1065353216. Definition f2 := 1073741824. Definition fh := 1056964608. Definition fm1 := 3212836864. Definition fnan := 2143289344.

Ltac conjs := repeat match goal with |- _ /\ _ => split end.
(* closed side conditions: never vm_compute a goal in which a word is still bound (Pos.compare_cont recurses on its literal
   second argument and the normal form explodes); decompose with constructors first *)
Ltac wf_strs := repeat constructor; try (eexists; split; [reflexivity|vm_compute; reflexivity]).
Lemma hdr_wf v : v < 4294967296 -> wf_header (hdr v).
Proof. intros Hv. unfold wf_header, hdr. cbn [h_version h_dims h_comps]. split; [exact Hv|]. wf_strs. Qed.

(* ---------- v0.0: three frames with 2, 0 and 1 people; negative and NaN confidences ---------- *)
Definition ex_person (id : Z) (a b c d e f ca cb cc : N) : person00 :=
  {| ps_id := id; ps_comps := [[([a; b], ca); ([c; d], cb)]; [([e; f], cc)]] |}.
Definition ex00 : content00 :=
  {| k0_header := hdr 0; k0_fps := 30;
     k0_frames := [ [ex_person 5 f1 f2 f1 f1 f2 f2 f1 0 fm1; ex_person (-1) fh fh fh fh fh fh f1 f1 f1];
                    [];
                    [ex_person 0 f2 f1 fh fh f1 f1 fnan fh f1] ] |}.
Lemma ex00_wf : wf00 ex00 /\ k0_frames ex00 <> [].
Proof.
  split; [|discriminate]. unfold wf00. cbn [k0_header k0_fps k0_frames ex00].
  split; [apply hdr_wf; reflexivity|]. split; [vm_compute; reflexivity|].
  split; [vm_compute; reflexivity|]. split; [vm_compute; reflexivity|]. split; [discriminate|].
  split; [vm_compute; discriminate|]. split; [repeat constructor|].
  repeat constructor; try (vm_compute; reflexivity).
Qed.
Lemma ex00_decodes :
  fst (read_bytes c04_legacy None (spec00 ex00) no_args) = Ok (first_person_view ex00) /\
  b_shape (p_body (first_person_view ex00)) = [3; 1; 3; 2] /\
  b_data (p_body (first_person_view ex00)) = [f1; f2; f1; f1; f2; f2; 0; 0; 0; 0; 0; 0; f2; f1; fh; fh; f1; f1] /\
  b_conf (p_body (first_person_view ex00)) = [f1; 0; fm1; 0; 0; 0; fnan; fh; f1] /\
  b_mask (p_body (first_person_view ex00)) = [false; true; false; true; true; true; false; false; false].
Proof. split; [vm_compute; reflexivity|]. repeat split. Qed.

(* a frame window: frames [1,2) of the three - the frame without people: zeros, every point missing.  (Until the decoder
   took window arguments this was the witness of C04_v00_window_refuted: all three frames came back.) *)
Definition ex_win : rargs := {| a_sf := Some 1%Z; a_st := None; a_ef := Some 2%Z; a_et := None |}.
(* the same window in milliseconds at 30 fps: floor (34 / 1000 * 30) = 1, ceil (66 / 1000 * 30) = 2 *)
Definition ex_time00 : rargs := {| a_sf := None; a_st := Some 34%Z; a_ef := None; a_et := Some 66%Z |}.
(* frames [2, 3): start by frame, end by time: ceil (100 / 1000 * 30) = 3 *)
Definition ex_mixed00 : rargs := {| a_sf := Some 2%Z; a_st := None; a_ef := None; a_et := Some 100%Z |}.
Lemma ex00_window :
  window00 ex00 ex_win = Ok (1, 2)%Z /\ window00 ex00 ex_time00 = Ok (1, 2)%Z /\ window00 ex00 ex_mixed00 = Ok (2, 3)%Z /\
  time_to_frame true 100 (fps_value (k0_fps ex00)) = Ok 3%Z /\
  valid_window (frames00 ex00) 1 2 /\ valid_window (frames00 ex00) 2 3 /\
  fst (read_bytes c04_legacy None (spec00 ex00) ex_win) = Ok (v00_window_view ex00 1 2) /\
  fst (fst (read_stream4 c04_legacy None (spec00 ex00) ex_win)) = Ok (v00_window_view ex00 1 2) /\
  fst (read_bytes c04_legacy None (spec00 ex00) ex_time00) = Ok (v00_window_view ex00 1 2) /\
  fst (fst (read_stream4 c04_legacy None (spec00 ex00) ex_time00)) = Ok (v00_window_view ex00 1 2) /\
  fst (fst (read_stream4 c04_legacy None (spec00 ex00) ex_mixed00)) = Ok (v00_window_view ex00 2 3) /\
  b_shape (p_body (v00_window_view ex00 1 2)) = [1; 1; 3; 2] /\
  b_data (p_body (v00_window_view ex00 1 2)) = [0; 0; 0; 0; 0; 0] /\
  b_mask (p_body (v00_window_view ex00 1 2)) = [true; true; true] /\
  b_data (p_body (v00_window_view ex00 2 3)) = [f2; f1; fh; fh; f1; f1] /\
  b_conf (p_body (v00_window_view ex00 2 3)) = [fnan; fh; f1].
Proof.
  destruct ex00_wf as [Hw _].
  assert (W1 : window00 ex00 ex_win = Ok (1, 2)%Z) by (vm_compute; reflexivity).
  assert (W2 : window00 ex00 ex_time00 = Ok (1, 2)%Z) by (vm_compute; reflexivity).
  assert (W3 : window00 ex00 ex_mixed00 = Ok (2, 3)%Z) by (vm_compute; reflexivity).
  assert (V1 : valid_window (frames00 ex00) 1 2) by (split; [right|]; vm_compute; [reflexivity|discriminate]).
  assert (V2 : valid_window (frames00 ex00) 2 3) by (split; [right|]; vm_compute; [reflexivity|discriminate]).
  pose proof (v00_read_bytes_window ex00 None ex_win [] 1 2 Hw I W1 V1) as B1.
  pose proof (v00_read_stream_window ex00 None ex_win [] 1 2 Hw I W1 V1) as S1.
  pose proof (v00_read_bytes_window ex00 None ex_time00 [] 1 2 Hw I W2 V1) as B2.
  pose proof (v00_read_stream_window ex00 None ex_time00 [] 1 2 Hw I W2 V1) as S2.
  pose proof (v00_read_stream_window ex00 None ex_mixed00 [] 2 3 Hw I W3 V2) as S3.
  rewrite app_nil_r in B1, S1, B2, S2, S3.
  conjs; try assumption; vm_compute; reflexivity.
Qed.
(* refused: a start at the frame count (by frame, and by time: floor (100 / 1000 * 30) = 3), a frame and a time bound for
   the same end *)
Definition ex_beyond00 : rargs := {| a_sf := Some 3%Z; a_st := None; a_ef := None; a_et := None |}.
Definition ex_beyond_time00 : rargs := {| a_sf := None; a_st := Some 100%Z; a_ef := Some 7%Z; a_et := None |}.
Definition ex_conflict : rargs := {| a_sf := Some 1%Z; a_st := Some 34%Z; a_ef := None; a_et := None |}.
Definition ex_conflict_end : rargs := {| a_sf := None; a_st := None; a_ef := Some 2%Z; a_et := Some 66%Z |}.
Lemma ex00_rejected :
  window00 ex00 ex_beyond00 = Ok (3, 3)%Z /\ window00 ex00 ex_beyond_time00 = Ok (3, 3)%Z /\ frames00 ex00 = 3%Z /\
  fst (read_bytes c04_legacy None (spec00 ex00) ex_beyond00) = Err Value /\
  fst (fst (read_stream4 c04_legacy None (spec00 ex00) ex_beyond_time00)) = Err Value /\
  conflict (a_sf ex_conflict) (a_st ex_conflict) || conflict (a_ef ex_conflict) (a_et ex_conflict) = true /\
  conflict (a_sf ex_conflict_end) (a_st ex_conflict_end) || conflict (a_ef ex_conflict_end) (a_et ex_conflict_end) = true /\
  fst (read_bytes c04_legacy None (spec00 ex00) ex_conflict) = Err Value /\
  fst (fst (read_stream4 c04_legacy None (spec00 ex00) ex_conflict_end)) = Err Value.
Proof. conjs; vm_compute; reflexivity. Qed.
(* a file that declares zero frames decodes to the empty pose *)
Definition ex00_empty : content00 := {| k0_header := hdr 0; k0_fps := 30; k0_frames := [] |}.
Lemma ex00_empty_wf : wf00 ex00_empty /\ k0_frames ex00_empty = [].
Proof.
  split; [|reflexivity]. unfold wf00. cbn [k0_header k0_fps k0_frames ex00_empty].
  split; [apply hdr_wf; reflexivity|]. split; [vm_compute; reflexivity|].
  split; [vm_compute; reflexivity|]. split; [vm_compute; reflexivity|]. split; [discriminate|].
  split; [vm_compute; discriminate|]. split; [repeat constructor|constructor].
Qed.
Lemma ex00_empty_decodes :
  fst (read_bytes c04_legacy None (spec00 ex00_empty) no_args) = Ok (first_person_view ex00_empty) /\
  b_shape (p_body (first_person_view ex00_empty)) = [0; 1; 3; 2] /\ b_data (p_body (first_person_view ex00_empty)) = [].
Proof. split; [vm_compute; reflexivity|]. split; reflexivity. Qed.

(* ---------- v0.1 ---------- *)
Definition v01w : N := 1036831949.                (* float32 0.1 *)
Definition ex01 : content01 :=
  {| k1_header := hdr v01w; k1_fps := 25; k1_frames_field := 3; k1_people := 1;
     k1_data := [[f1; f2; f1; f1; f2; f2]; [fh; fh; fh; fh; fh; fh]; [f2; f1; f2; f1; f2; f1]];
     k1_conf := [[f1; 0; fm1]; [f1; f1; f1]; [fnan; fh; 0]] |}.
Lemma ex01_wf : wf01 ex01.
Proof.
  unfold wf01. cbn [k1_header k1_fps k1_frames_field k1_people k1_data k1_conf ex01].
  split; [apply hdr_wf; reflexivity|]. conjs.
  (* never vm_compute a goal with a bound word: Pos.compare_cont recurses on its (literal) second argument *)
  all: try (repeat constructor; vm_compute; reflexivity).
  all: vm_compute; discriminate.
Qed.
Definition ex_win01 : rargs := {| a_sf := Some 1%Z; a_st := None; a_ef := Some 2%Z; a_et := None |}.
Lemma ex01_window :
  window01 ex01 ex_win01 = Ok (1, 2)%Z /\ valid_window (frames01 ex01) 1 2 /\
  window01 ex01 no_args = Ok (0, 3)%Z /\ valid_window (frames01 ex01) 0 3 /\
  b_shape (p_body (v01_view ex01 1 2)) = [1; 1; 3; 2] /\
  b_data (p_body (v01_view ex01 1 2)) = [fh; fh; fh; fh; fh; fh] /\
  b_shape (p_body (v01_view ex01 0 3)) = [3; 1; 3; 2].
Proof.
  unfold valid_window. conjs; try (vm_compute; reflexivity).
  - right. vm_compute. reflexivity.
  - vm_compute. discriminate.
  - left. reflexivity.
  - vm_compute. discriminate.
Qed.

(* a recording of 70 000 frames: the 16-bit field holds 70000 mod 65536 = 4464 *)
Definition ex01_long : content01 :=
  {| k1_header := {| h_version := v01w; h_dims := (640, 480, 0); h_comps := [ex_comp2] |};
     k1_fps := 25; k1_frames_field := 4464; k1_people := 1;
     k1_data := repeat [f1; f2] (N.to_nat 70000); k1_conf := repeat [fh] (N.to_nat 70000) |}.
Lemma Forall_repeat {X} (P : X -> Prop) x n : P x -> Forall P (repeat x n).
Proof. intros H. induction n; cbn [repeat]; constructor; assumption. Qed.
Lemma ex01_long_wf : wf01 ex01_long /\ frames01 ex01_long = 70000%Z /\ (65535 < frames01 ex01_long)%Z.
Proof.
  assert (Hl : lenN (k1_data ex01_long) = 70000) by (cbn [k1_data ex01_long]; unfold lenN; rewrite repeat_length; lia).
  split; [|unfold frames01; rewrite Hl; split; [reflexivity|reflexivity]].
  unfold wf01. rewrite Hl. cbn [k1_header k1_fps k1_frames_field k1_people k1_data k1_conf ex01_long].
  split.
  { unfold wf_header. cbn [h_version h_dims h_comps]. split; [reflexivity|]. wf_strs. }
  split; [vm_compute; reflexivity|].
  do 3 (split; [vm_compute; reflexivity|]). do 3 (split; [vm_compute; discriminate|]).
  split; [now rewrite !repeat_length|]. split; [reflexivity|].
  split; apply Forall_repeat; (split; [vm_compute; reflexivity|repeat constructor; vm_compute; reflexivity]).
Qed.

(* a time window: [40 ms, 80 ms) at 25 fps is frames [1,2).  (Until the decoder took time bounds this was the witness of
   C04_v01_time_window_refuted: all three frames came back.) *)
Definition ex_time01 : rargs := {| a_sf := None; a_st := Some 40%Z; a_ef := None; a_et := Some 80%Z |}.
Lemma ex01_time_window :
  time_to_frame false 40 (fps_value (k1_fps ex01)) = Ok 1%Z /\ time_to_frame true 80 (fps_value (k1_fps ex01)) = Ok 2%Z /\
  window01 ex01 ex_time01 = Ok (1, 2)%Z /\
  fst (read_bytes c04_legacy None (spec01 ex01) ex_time01) = Ok (v01_view ex01 1 2) /\
  fst (fst (read_stream4 c04_legacy None (spec01 ex01) ex_time01)) = Ok (v01_view ex01 1 2) /\
  b_shape (p_body (v01_view ex01 1 2)) = [1; 1; 3; 2] /\
  b_conf (p_body (v01_view ex01 1 2)) = [f1; f1; f1].
Proof.
  assert (W : window01 ex01 ex_time01 = Ok (1, 2)%Z) by (vm_compute; reflexivity).
  assert (V : valid_window (frames01 ex01) 1 2) by (split; [right|]; vm_compute; [reflexivity|discriminate]).
  pose proof (v01_read_bytes ex01 None ex_time01 1 2 ex01_wf I W V) as B.
  pose proof (v01_read_stream ex01 None ex_time01 1 2 ex01_wf I W V) as S.
  conjs; try assumption; vm_compute; reflexivity.
Qed.
(* refused: a start at the frame count by frame and by time (floor (120 / 1000 * 25) = 3), a frame and a time bound for the
   same end *)
Definition ex_beyond01 : rargs := {| a_sf := Some 3%Z; a_st := None; a_ef := Some 5%Z; a_et := None |}.
Definition ex_beyond_time01 : rargs := {| a_sf := None; a_st := Some 120%Z; a_ef := None; a_et := None |}.
Lemma ex01_rejected :
  window01 ex01 ex_beyond01 = Ok (3, 3)%Z /\ window01 ex01 ex_beyond_time01 = Ok (3, 3)%Z /\ frames01 ex01 = 3%Z /\
  fst (read_bytes c04_legacy None (spec01 ex01) ex_beyond01) = Err Value /\
  fst (fst (read_stream4 c04_legacy None (spec01 ex01) ex_beyond_time01)) = Err Value /\
  fst (read_bytes c04_legacy None (spec01 ex01) ex_conflict) = Err Value /\
  fst (fst (read_stream4 c04_legacy None (spec01 ex01) ex_conflict_end)) = Err Value.
Proof. conjs; vm_compute; reflexivity. Qed.

(* ---------- versions ---------- *)
Lemma version_examples :
  version_class 0 = V00 /\ version_class 2147483648 = V00 /\ version_class v01w = V01 /\ version_class version_word = V02 /\
  version_class 1036812288 = V01 (* 0.09985 *) /\ version_class 1045236941 = V02 (* 0.20024 *) /\
  version_class 1050253722 = VUnknown (* 0.3 *) /\ version_class 1065353216 = VUnknown (* 1.0 *) /\
  version_class 3184315597 = VUnknown (* -0.1 *) /\ version_class 1 = VUnknown (* 1.4e-45 *) /\
  version_class 2143289344 = VUnknown (* NaN *) /\ version_class 2139095040 = VUnknown (* inf *) /\
  version_class 1036764839 = VUnknown (* 0.09949999302625656: rounds to 0.099 *) /\ version_class 1036764840 = V01 (* 0.09950000047683716 *) /\
  version_class 1036899057 = V01 (* 0.10049999505281448 *) /\ version_class 1036899058 = VUnknown (* 0.10050000250339508: rounds to 0.101 *).
Proof. vm_compute. repeat split. Qed.
Lemma ex_unknown_refused : wf_header (hdr 1050253722) /\ version_class (h_version (hdr 1050253722)) = VUnknown /\
  fst (read_bytes c04_legacy None (spec_header (hdr 1050253722) ++ spec_body01 ex01) no_args) = Err NotImplemented.
Proof. split; [apply hdr_wf; reflexivity|]. split; vm_compute; reflexivity. Qed.

(* rewriting the decoded examples *)
Lemma ex_rewrite :
  (exists bs, write_pose (to_wpose (first_person_view ex00)) = Ok bs /\ lenN bs = 184) /\
  b_mask (p_body (rewrite_view (first_person_view ex00))) = b_mask (p_body (first_person_view ex00)) /\
  b_conf (p_body (rewrite_view (first_person_view ex00))) = b_conf (p_body (first_person_view ex00)).
Proof. split; [eexists; split; vm_compute; reflexivity|]. split; vm_compute; reflexivity. Qed.
