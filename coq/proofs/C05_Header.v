(* C05: the JavaScript header parser on the bytes of write_header reports the header the Python reader returns. *)
From Coq Require Import ZArith NArith List Lia ZifyBool ZifyN ZifyNat Bool.
Require Import ListN Result Bytes Utf8 Utf8S F32 Prog Codec ProgLemmas CodecRT C05_JsParser C05_Spec C05_Lemmas.
Import ListNotations.
Open Scope N_scope.

Definition utf8_len (s : str) : N := match enc_utf8 s with Some b => lenN b | None => 0 end.
Definition js_strv (s : str) : value := VStr (strip_bom s).
(* the object componentParser yields for a component as the Python reader returns it *)
Definition js_comp_obj (c : component) : obj :=
  [(k__name, VNum (Z.of_N (utf8_len (c_name c)))); (k_name, js_strv (c_name c));
   (k__format, VNum (Z.of_N (utf8_len (c_format c)))); (k_format, js_strv (c_format c));
   (k__points, VNum (Z.of_N (lenN (c_points c)))); (k__limbs, VNum (Z.of_N (lenN (c_limbs c))));
   (k__colors, VNum (Z.of_N (lenN (c_colors c))));
   (k_points, VArr (map js_strv (c_points c)));
   (k_limbs, VArr (map (fun l => VObj (js_limb_obj l)) (c_limbs c)));
   (k_colors, VArr (map (fun k => VObj (js_color_obj k)) (c_colors c)))].
Definition js_header_obj (h : header) (hl : N) : obj :=
  let '(w, hh, d) := h_dims h in
  [(k_version, VF32 (h_version h)); (k_width, VNum (Z.of_N w)); (k_height, VNum (Z.of_N hh)); (k_depth, VNum (Z.of_N d));
   (k__components, VNum (Z.of_N (lenN (h_comps h))));
   (k_components, VArr (map (fun c => VObj (js_comp_obj c)) (h_comps h)));
   (k_headerLength, VNum (Z.of_N hl))].

Lemma strs_RS (ss : list str) es :
  Forall2 (fun s e' => write_str s = Ok e') ss es ->
  Forall2 (RS str_schema) es (map (fun s => js_str_obj (utf8_len s) s) ss).
Proof.
  induction 1 as [|s e' ss es Hs _ IH]; cbn [map]; constructor; [|exact IH].
  destruct (RS_str _ _ Hs) as [b [Hb HR]]. unfold utf8_len. rewrite Hb. exact HR.
Qed.
Lemma limbs_RS (limbs : list (Z * Z)) es :
  Forall2 (fun l e' => pack_u16s [fst l; snd l] = Ok e') limbs es ->
  Forall2 (RS limb_schema) es (map js_limb_obj (map limbN limbs)).
Proof. induction 1 as [|l e' limbs es Hl _ IH]; cbn [map]; constructor; [|exact IH]. now apply RS_limb. Qed.
Lemma colors_RS (cols : list (Z * Z * Z)) es :
  Forall2 (fun k e' => pack_u16s [fst (fst k); snd (fst k); snd k] = Ok e') cols es ->
  Forall2 (RS color_schema) es (map js_color_obj (map colorN cols)).
Proof. induction 1 as [|k e' cols es Hk _ IH]; cbn [map]; constructor; [|exact IH]. now apply RS_color. Qed.

Lemma lenN_map {X Y} (f : X -> Y) l : lenN (map f l) = lenN l.
Proof. unfold lenN. now rewrite map_length. Qed.

Lemma RS_component c e : write_component c = Ok e -> RS component_schema e (js_comp_obj (canon_comp c)).
Proof.
  unfold write_component. intros H.
  change ([write_str (wc_name c); write_str (wc_format c);
           pack_u16s [Z.of_N (lenN (wc_points c)); Z.of_N (lenN (wc_limbs c)); Z.of_N (lenN (wc_colors c))]] ++ ?x)
    with (write_str (wc_name c) :: write_str (wc_format c) ::
          pack_u16s [Z.of_N (lenN (wc_points c)); Z.of_N (lenN (wc_limbs c)); Z.of_N (lenN (wc_colors c))] :: x) in H.
  apply concat_r_cons in H. destruct H as [e1 [r1 [H1 [H ->]]]].
  apply concat_r_cons in H. destruct H as [e2 [r2 [H2 [H ->]]]].
  apply concat_r_cons in H. destruct H as [e3 [r3 [H3 [H ->]]]].
  apply concat_r_app in H. destruct H as [e4 [r4 [H4 [H ->]]]].
  apply concat_r_app in H. destruct H as [e5 [e6 [H5 [H6 ->]]]].
  apply concat_r_map in H4. destruct H4 as [es4 [HF4 ->]].
  apply concat_r_map in H5. destruct H5 as [es5 [HF5 ->]].
  apply concat_r_map in H6. destruct H6 as [es6 [HF6 ->]].
  apply write_str_ok in H1. destruct H1 as [b1 [Hb1 [Hl1 ->]]].
  apply write_str_ok in H2. destruct H2 as [b2 [Hb2 [Hl2 ->]]].
  apply pack_u16s_ok in H3. destruct H3 as [HF3 ->].
  inversion HF3 as [|? ? Hnp HF3a]; subst. inversion HF3a as [|? ? Hnl HF3b]; subst. inversion HF3b as [|? ? Hnc _]; subst.
  rewrite !ZN_lenN in *.
  intros pre post. unfold component_schema. cbn [flat_map]. rewrite !ZN_lenN. rewrite app_nil_r. rewrite <- !app_assoc.
  rewrite run_u16 by exact Hl1.
  rewrite (run_str _ _ _ _ _ b1 _ (wc_name c)); [|reflexivity|now apply dec_enc_utf8].
  rewrite run_u16 by exact Hl2.
  rewrite (run_str _ _ _ _ _ b2 _ (wc_format c)); [|reflexivity|now apply dec_enc_utf8].
  rewrite run_u16 by exact Hnp. rewrite run_u16 by exact Hnl. rewrite run_u16 by exact Hnc.
  rewrite (run_arr _ _ _ _ _ _ _ es4 _ _ (strs_RS _ _ HF4)); [|rewrite lenN_map; reflexivity].
  rewrite (run_arr _ _ _ _ _ _ _ es5 _ _ (limbs_RS _ _ HF5)); [|rewrite !lenN_map; reflexivity].
  rewrite (run_arr _ _ _ _ _ _ _ es6 _ _ (colors_RS _ _ HF6)); [|rewrite !lenN_map; reflexivity].
  cbn [run]. rewrite <- !app_assoc.
  unfold js_comp_obj, canon_comp, utf8_len. cbn [c_name c_format c_points c_limbs c_colors].
  rewrite Hb1, Hb2. rewrite !lenN_map.
  cbn [apply_fmt]. rewrite !map_map.
  reflexivity.
Qed.

Lemma comps_RS comps es :
  Forall2 (fun c e' => write_component c = Ok e') comps es ->
  Forall2 (RS component_schema) es (map js_comp_obj (map canon_comp comps)).
Proof. induction 1 as [|c e' comps es Hc _ IH]; cbn [map]; constructor; [|exact IH]. now apply RS_component. Qed.

Definition header_of_v (v : N) (dims : Z * Z * Z) (comps : list wcomponent) : header :=
  {| h_version := v;
     h_dims := (Z.to_N (fst (fst dims)), Z.to_N (snd (fst dims)), Z.to_N (snd dims));
     h_comps := map canon_comp comps |}.
Definition header_of := header_of_v version_word.

(* parser.ts:46-61,184,187 : headerParser.parse(buffer) *)
Theorem js_header_obj_eq_v v dims comps h r : (v < 4294967296)%N -> write_header dims comps = Ok h ->
  parse header_schema (with_version v h ++ r) = Some (js_header_obj (header_of_v v dims comps) (lenN h)) /\
  lenN (with_version v h) = lenN h.
Proof.
  unfold write_header. intros Hv H.
  change ([Ok (enc_u32 version_word); write_dims dims; pack_u16s [Z.of_N (lenN comps)]] ++ ?x)
    with (Ok (enc_u32 version_word) :: write_dims dims :: pack_u16s [Z.of_N (lenN comps)] :: x) in H.
  apply concat_r_cons in H. destruct H as [e1 [r1 [H1 [H ->]]]]. injection H1 as <-.
  apply concat_r_cons in H. destruct H as [e2 [r2 [H2 [H ->]]]].
  apply concat_r_cons in H. destruct H as [e3 [r3 [H3 [H ->]]]].
  apply concat_r_map in H. destruct H as [es [HF ->]].
  destruct dims as [[w hh] d]. unfold write_dims in H2.
  destruct (u16_ok w && u16_ok hh && u16_ok d); [|discriminate].
  apply pack_u16s_ok in H2. destruct H2 as [HF2 ->].
  inversion HF2 as [|? ? Hw HF2a]; subst. inversion HF2a as [|? ? Hh HF2b]; subst. inversion HF2b as [|? ? Hd _]; subst.
  apply pack_u16s_ok in H3. destruct H3 as [HF3 ->]. inversion HF3 as [|? ? Hn _]; subst.
  unfold with_version. rewrite drop4_enc_u32.
  split; [|rewrite !lenN_app, !enc_u32_len; reflexivity].
  unfold parse, js_little, header_schema. cbn [flat_map]. rewrite ?ZN_lenN in *. rewrite !app_nil_r.
  set (hbytes := enc_u32 v ++ (enc_u16 (Z.to_N w) ++ enc_u16 (Z.to_N hh) ++ enc_u16 (Z.to_N d)) ++
                 enc_u16 (lenN comps) ++ concat es).
  change (hbytes ++ r) with ([] ++ hbytes ++ r). change 0%N with (lenN (@nil N)).
  unfold hbytes. rewrite <- !app_assoc.
  rewrite run_f32 by exact Hv.
  rewrite run_u16 by exact Hw. rewrite run_u16 by exact Hh. rewrite run_u16 by exact Hd.
  rewrite run_u16 by exact Hn.
  rewrite (run_arr _ _ _ _ _ _ _ es _ _ (comps_RS _ _ HF)); [|rewrite !lenN_map; reflexivity].
  cbn [run app]. rewrite <- !app_assoc.
  unfold js_header_obj, header_of_v. cbn [h_dims h_version h_comps fst snd app].
  rewrite !lenN_map. cbn [apply_fmt]. rewrite !map_map.
  rewrite !lenN_app, !enc_u32_len, !enc_u16_len. reflexivity.
Qed.
Lemma with_version_same dims comps h : write_header dims comps = Ok h -> with_version version_word h = h.
Proof.
  unfold write_header. intros H.
  change ([Ok (enc_u32 version_word); write_dims dims; pack_u16s [Z.of_N (lenN comps)]] ++ ?x)
    with (Ok (enc_u32 version_word) :: write_dims dims :: pack_u16s [Z.of_N (lenN comps)] :: x) in H.
  apply concat_r_cons in H. destruct H as [e1 [r1 [H1 [H ->]]]]. injection H1 as <-.
  unfold with_version. now rewrite drop4_enc_u32.
Qed.
Theorem js_header_obj_eq dims comps h r : write_header dims comps = Ok h ->
  parse header_schema (h ++ r) = Some (js_header_obj (header_of dims comps) (lenN h)).
Proof.
  intros H. rewrite <- (with_version_same _ _ _ H) at 1.
  exact (proj1 (js_header_obj_eq_v version_word dims comps h r version_word_lt H)).
Qed.
