(* C14 - the new frame count: Python's round() is "nearest integer, ties to even" of the binary64 quotient.
   Discrete: integers and the kernel's primitive floats only (no real numbers). *)
From Coq Require Import ZArith Lia PrimFloat SpecFloat FloatOps List Bool.
Require Import Result Num C14_Count.
Local Open Scope Z_scope.
Ltac Zify.zify_post_hook ::= Z.div_mod_to_equations.
Set Warnings "-inexact-float".

(* n is the integer nearest to m * 2^e, the even one of the two when m * 2^e lies half way *)
Definition nearest_even (m : positive) (e : Z) (n : Z) : Prop :=
  match e with
  | Zneg k => let d := 2 ^ Zpos k in
              2 * Z.abs (n * d - Zpos m) <= d /\ (2 * Z.abs (n * d - Zpos m) = d -> Z.even n = true)
  | _ => n = Zpos m * 2 ^ e
  end.
Lemma rhe_pos_nearest_even m e : nearest_even m e (rhe_pos m e).
Proof. unfold nearest_even, rhe_pos. destruct e as [|p|k].
  - rewrite Z.pow_0_r. lia.
  - reflexivity.
  - cbv zeta. set (d := 2 ^ Zpos k).
    assert (Hd : 0 < d) by (unfold d; apply Z.pow_pos_nonneg; lia).
    pose proof (Z.div_mod (Zpos m) d ltac:(lia)) as Hdm.
    pose proof (Z.mod_pos_bound (Zpos m) d Hd) as Hr.
    set (q := Zpos m / d) in *. set (r := Zpos m mod d) in *.
    destruct (Z.ltb_spec (2 * r) d) as [H1|H1].
    + split; [|intros Ht]; nia.
    + destruct (Z.ltb_spec d (2 * r)) as [H2|H2].
      * split; [|intros Ht]; nia.
      * assert (E : 2 * r = d) by lia.
        destruct (Z.even q) eqn:Ev.
        -- split; [nia|intros _; exact Ev].
        -- split; [nia|intros _]. rewrite Z.even_add, Ev. reflexivity. Qed.

(* what a successful count is *)
Lemma new_frame_count_ok F new old n : new_frame_count F new old = Ok n ->
  PrimFloat.eqb old 0 = false /\
  exists z, py_round (count_quotient F new old) = Ok z /\ 0 <= z /\ n = Z.to_nat z.
Proof. unfold new_frame_count. destruct (PrimFloat.eqb old 0); [discriminate|]. intros H. split; [reflexivity|].
  destruct (py_round (count_quotient F new old)) as [z|e]; cbn [rbind] in H; [|discriminate].
  destruct (Z.ltb_spec z 0); [discriminate|]. injection H as <-. exists z. repeat split; try reflexivity. lia. Qed.
Lemma py_round_finite f z : py_round f = Ok z ->
  match Prim2SF f with
  | S754_zero _ => z = 0
  | S754_finite s m e => exists n, nearest_even m e n /\ z = (if s then - n else n)
  | _ => False
  end.
Proof. unfold py_round, sf_round. destruct (Prim2SF f) as [s|s| |s m e]; intros H; try discriminate.
  - injection H as <-. reflexivity.
  - injection H as <-. exists (rhe_pos m e). split; [apply rhe_pos_nearest_even|reflexivity]. Qed.

(* unchanged rate: round(F * r / r) = F, checked for every F in 2..1024 and the usual video rates (the general
   statement needs a rounding-error analysis of binary64 that is not done here; the identity theorem takes
   "the count is F" as its hypothesis) *)
Definition usual_rates : list float :=
  (1 :: 5 :: 7.5 :: 10 :: 12 :: 12.5 :: 15 :: 20 :: 23.976 :: 24 :: 25 :: 29.97 :: 30 :: 48 :: 50 :: 59.94 :: 60 :: 90 :: 100 :: 120
   :: 240 :: 0.1 :: 0.3 :: 1000 :: nil)%float.
Definition same_count_ok (F : nat) (r : float) : bool :=
  match new_frame_count F r r with Ok n => Nat.eqb n F | Err _ => false end.
Lemma same_rate_count_sweep :
  forallb (fun F => forallb (same_count_ok F) usual_rates) (seq 2 1023) = true.
Proof. vm_compute. reflexivity. Qed.
Lemma same_rate_count F r : (2 <= F <= 1024)%nat -> In r usual_rates -> new_frame_count F r r = Ok F.
Proof. intros HF Hr. pose proof same_rate_count_sweep as H. rewrite forallb_forall in H.
  specialize (H F ltac:(apply in_seq; lia)). rewrite forallb_forall in H. specialize (H r Hr).
  unfold same_count_ok in H. destruct (new_frame_count F r r) as [n|e]; [|discriminate].
  apply Nat.eqb_eq in H. now subst. Qed.
