(* C12 - ties between the facts regenerated from /repo on every run (gen/Gen_C12.v) and the literals the
   hand-written model (model/C12_Model.v) was written from.  A source edit that changes one of these
   facts breaks the corresponding lemma, hence props/C12.v. *)
From Coq Require Import String List Arith Bool.
Require Import C12_Model Gen_C12.
Import ListNotations.
Open Scope string_scope.

(* the dispatcher's white-list, and the names under which the model routes operations through it *)
Lemma pass_through_tie : map nm Gen_C12.pass_through_methods = C12_Model.pass_through_methods.
Proof. reflexivity. Qed.
Lemma pass_through_ops_tie :
  map meth_name [M_augment2d; M_flip; M_interpolate; M_slice_step; M_tensorflow; M_torch] = map nm Gen_C12.pass_through_methods.
Proof. reflexivity. Qed.
(* Pose.__getattr__: white-list test, body call, header replaced only if the header has the attribute *)
Lemma getattr_tie : Gen_C12.pose_getattr =
  [ "if attr not in Pose.pass_through_methods:
    raise AttributeError(""Attribute '%s' doesn't exist on class Pose"" % attr)";
    "def func(*args, **kwargs):
    prop = getattr(self.body, attr)
    body_res = prop(*args, **kwargs)
    if isinstance(body_res, PoseBody):
        header = self.header
        if hasattr(header, attr):
            header_res = getattr(header, attr)(*args, **kwargs)
            if isinstance(header_res, PoseHeader):
                header = header_res
        return Pose(header, body_res)
    return body_res";
    "return func" ].
Proof. reflexivity. Qed.
(* the header has no attribute named like a dispatched method: the dispatcher keeps the header *)
Lemma header_attrs_tie : map nm Gen_C12.header_attrs = C12_Model.header_attrs.
Proof. reflexivity. Qed.
Lemma dispatcher_keeps_header :
  forallb (fun m => negb (mem (nm m) (map nm Gen_C12.header_attrs))) Gen_C12.pass_through_methods = true.
Proof. reflexivity. Qed.

(* bounding boxes: two points per component on both sides *)
Lemma box_points_tie : map nm Gen_C12.box_points = C12_Model.box_points.
Proof. reflexivity. Qed.
Lemma bbox_rows_tie : length Gen_C12.bbox_stack = bbox_rows /\ length Gen_C12.box_points = bbox_rows.
Proof. split; reflexivity. Qed.
Lemma bbox_stack_tie : Gen_C12.bbox_stack = ["ma.min(c, axis=0)"; "ma.max(c, axis=0)"].
Proof. reflexivity. Qed.
Lemma header_bbox_tie :
  Gen_C12.header_bbox_component_args = ["c.name"; "box_points"; "box_limbs"; "box_colors"; "c.format"]
  /\ Gen_C12.header_bbox_return = ["return PoseHeader(self.version, self.dimensions, components, True)"].
Proof. split; reflexivity. Qed.
Lemma pose_bbox_tie : Gen_C12.pose_bbox =
  ["body = self.body.bbox(self.header)"; "header = self.header.bbox()"; "return Pose(header=header, body=body)"].
Proof. reflexivity. Qed.

(* header queries *)
Lemma header_queries_tie :
  Gen_C12.header_total_points = ["return sum(map(lambda c: len(c.points), self.components))"]
  /\ Gen_C12.header_num_dims = ["return max([len(c.format) for c in self.components]) - 1"].
Proof. split; reflexivity. Qed.

(* points axis: POINTS_DIMS swaps frames and points, the confidence permutation likewise *)
Lemma points_dims_tie : Gen_C12.points_dims = [2; 1; 0; 3] /\ Gen_C12.confidence_reshape = [2; 1; 0].
Proof. split; reflexivity. Qed.

(* how the three constructors derive the mask of a plain array from the confidence (fixes F7/F8) *)
Lemma numpy_mask_rule_tie :
  Gen_C12.numpy_mask_rule = ["=="; "0"; "data.shape[-1]"] /\ Gen_C12.numpy_body_init_guard = ["isinstance(data, np.ndarray)"].
Proof. split; reflexivity. Qed.
Lemma torch_mask_rule_tie : Gen_C12.torch_mask_rule = ["!="; "0"; "data.shape[-1]"].
Proof. reflexivity. Qed.
Lemma tf_mask_rule_tie : Gen_C12.tf_mask_rule = ["!="; "0"; "data.shape[-1]"].
Proof. reflexivity. Qed.

(* Pose.write's sanity checks, in order (Codec.write_pose is their model) *)
Lemma pose_write_checks_tie :
  Gen_C12.pose_write_checks =
    ["len(self.body.data.shape) != 4"; "header_dims != body_dims"; "header_points != body_points";
     "tuple(self.body.confidence.shape) != tuple(self.body.data.shape[:3])"]
  /\ Gen_C12.pose_write_lets =
    ["header_dims = self.header.num_dims()"; "body_dims = self.body.data.shape[-1]";
     "header_points = self.header.total_points()"; "body_points = self.body.data.shape[2]"].
Proof. split; reflexivity. Qed.

(* small methods transcribed one-to-one *)
Lemma small_methods_tie :
  Gen_C12.pose_copy = ["return self.__class__(deepcopy(self.header), self.body.copy())"]
  /\ Gen_C12.pose_frame_dropout_uniform =
     ["body, selected_indexes = self.body.frame_dropout_uniform(dropout_min=dropout_min, dropout_max=dropout_max)";
      "return (Pose(header=self.header, body=body), selected_indexes)"]
  /\ Gen_C12.pose_frame_dropout_normal =
     ["body, selected_indexes = self.body.frame_dropout_normal(dropout_mean=dropout_mean, dropout_std=dropout_std)";
      "return (Pose(header=self.header, body=body), selected_indexes)"]
  /\ Gen_C12.body_slice_step =
     ["new_data = self.data[::by]"; "new_confidence = self.confidence[::by]"; "new_fps = self.fps / by";
      "return self.__class__(fps=new_fps, data=new_data, confidence=new_confidence)"]
  /\ Gen_C12.body_select_frames =
     ["data = self.data[frame_indexes]"; "confidence = self.confidence[frame_indexes]";
      "return self.__class__(fps=self.fps, data=data, confidence=confidence)"]
  /\ Gen_C12.body_frame_dropout_given_percent =
     ["data_len = len(self.data)"; "dropout_number = min(int(data_len * dropout_percent), int(data_len * CONST))";
      "dropout_indexes = set(sample(range(0, data_len), dropout_number))";
      "select_indexes = [i for i in range(0, data_len) if i not in dropout_indexes]";
      "return (self.select_frames(select_indexes), select_indexes)"]
  /\ Gen_C12.body_frame_dropout_uniform =
     ["dropout_percent = np.random.uniform(low=dropout_min, high=dropout_max, size=1)[0]";
      "return self.frame_dropout_given_percent(dropout_percent)"]
  /\ Gen_C12.body_frame_dropout_normal =
     ["dropout_percent = np.abs(np.random.normal(loc=dropout_mean, scale=dropout_std, size=1))[0]";
      "return self.frame_dropout_given_percent(dropout_percent)"].
Proof. repeat split; reflexivity. Qed.
Lemma numpy_methods_tie :
  Gen_C12.numpy_body_copy = ["return type(self)(fps=self.fps, data=self.data.copy(), confidence=self.confidence.copy())"]
  /\ Gen_C12.numpy_body_flip =
     ["vec = np.ones(self.data.shape[-1])"; "vec[axis] = -1"; "data = self.data * vec"; "return NumPyPoseBody(self.fps, data, self.confidence)"]
  /\ Gen_C12.numpy_body_get_points =
     ["data = ma.transpose(self.data, axes=POINTS_DIMS)"; "new_data = ma.transpose(data[indexes], axes=POINTS_DIMS)";
      "confidence_reshape = (2, 1, 0)"; "confidence = np.transpose(self.confidence, axes=confidence_reshape)";
      "new_confidence = np.transpose(confidence[indexes], axes=confidence_reshape)";
      "return NumPyPoseBody(self.fps, new_data, new_confidence)"]
  /\ Gen_C12.numpy_body_matmul = ["data = ma.dot(self.data, matrix)"; "return NumPyPoseBody(self.fps, data, self.confidence)"]
  /\ Gen_C12.numpy_body_torch =
     ["torch_confidence = torch.from_numpy(self.confidence)"; "torch_data = torch.from_numpy(self.data.data)";
      "return TorchPoseBody(self.fps, torch_data, torch_confidence)"]
  /\ Gen_C12.numpy_body_tensorflow =
     ["tf_confidence = tensorflow.constant(self.confidence)"; "tf_data = tensorflow.constant(self.data.data)";
      "return TensorflowPoseBody(self.fps, tf_data, tf_confidence)"].
Proof. repeat split; reflexivity. Qed.

(* the literal transcriptions, named so that props/C12.v can state the tie in one theorem *)
Definition getattr_literal : list string :=
  [ "if attr not in Pose.pass_through_methods:
    raise AttributeError(""Attribute '%s' doesn't exist on class Pose"" % attr)";
    "def func(*args, **kwargs):
    prop = getattr(self.body, attr)
    body_res = prop(*args, **kwargs)
    if isinstance(body_res, PoseBody):
        header = self.header
        if hasattr(header, attr):
            header_res = getattr(header, attr)(*args, **kwargs)
            if isinstance(header_res, PoseHeader):
                header = header_res
        return Pose(header, body_res)
    return body_res";
    "return func" ].
Definition slice_step_literal : list string :=
  ["new_data = self.data[::by]"; "new_confidence = self.confidence[::by]"; "new_fps = self.fps / by";
   "return self.__class__(fps=new_fps, data=new_data, confidence=new_confidence)"].
Definition select_frames_literal : list string :=
  ["data = self.data[frame_indexes]"; "confidence = self.confidence[frame_indexes]";
   "return self.__class__(fps=self.fps, data=data, confidence=confidence)"].
Definition dropout_literal : list string :=
  ["data_len = len(self.data)"; "dropout_number = min(int(data_len * dropout_percent), int(data_len * CONST))";
   "dropout_indexes = set(sample(range(0, data_len), dropout_number))";
   "select_indexes = [i for i in range(0, data_len) if i not in dropout_indexes]";
   "return (self.select_frames(select_indexes), select_indexes)"].
Definition flip_literal : list string :=
  ["vec = np.ones(self.data.shape[-1])"; "vec[axis] = -1"; "data = self.data * vec"; "return NumPyPoseBody(self.fps, data, self.confidence)"].
Definition get_points_literal : list string :=
  ["data = ma.transpose(self.data, axes=POINTS_DIMS)"; "new_data = ma.transpose(data[indexes], axes=POINTS_DIMS)";
   "confidence_reshape = (2, 1, 0)"; "confidence = np.transpose(self.confidence, axes=confidence_reshape)";
   "new_confidence = np.transpose(confidence[indexes], axes=confidence_reshape)";
   "return NumPyPoseBody(self.fps, new_data, new_confidence)"].
Lemma transcribed_methods_tie :
  Gen_C12.pose_getattr = getattr_literal /\ Gen_C12.bbox_stack = ["ma.min(c, axis=0)"; "ma.max(c, axis=0)"]
  /\ Gen_C12.header_bbox_component_args = ["c.name"; "box_points"; "box_limbs"; "box_colors"; "c.format"]
  /\ Gen_C12.header_total_points = ["return sum(map(lambda c: len(c.points), self.components))"]
  /\ Gen_C12.header_num_dims = ["return max([len(c.format) for c in self.components]) - 1"]
  /\ Gen_C12.pose_copy = ["return self.__class__(deepcopy(self.header), self.body.copy())"]
  /\ Gen_C12.body_slice_step = slice_step_literal /\ Gen_C12.body_select_frames = select_frames_literal
  /\ Gen_C12.body_frame_dropout_given_percent = dropout_literal
  /\ Gen_C12.numpy_body_flip = flip_literal /\ Gen_C12.numpy_body_get_points = get_points_literal
  /\ Gen_C12.numpy_body_matmul = ["data = ma.dot(self.data, matrix)"; "return NumPyPoseBody(self.fps, data, self.confidence)"]
  /\ Gen_C12.numpy_body_copy = ["return type(self)(fps=self.fps, data=self.data.copy(), confidence=self.confidence.copy())"].
Proof. repeat split; reflexivity. Qed.

(* the in-place operations of Pose (their effect on the mask is hand-modelled in normalize / normalize_distribution / focus_np) *)
Definition focus_literal : list string :=
  [ "mins = ma.min(self.body.data, axis=(0, 1, 2))";
    "maxs = ma.max(self.body.data, axis=(0, 1, 2))";
    "if np.count_nonzero(mins) > 0:
    self.body.data = ma.subtract(self.body.data, mins)";
    "dimensions = (maxs - mins).tolist()";
    "self.header.dimensions = PoseHeaderDimensions(*dimensions)" ].
Definition normalize_literal : list string :=
  [ "if info is None:
    from pose_format.utils.generic import pose_normalization_info
    info = pose_normalization_info(self.header)";
    "transposed = self.body.points_perspective()";
    "p1s = transposed[info.p1]";
    "p2s = transposed[info.p2]";
    "center = ((p2s + p1s) / 2).mean(axis=(0, 1))";
    "self.body.data -= center";
    "mean_distance = distance_batch(p1s, p2s).mean()";
    "scale = scale_factor / mean_distance";
    "self.body.data = self.body.data * scale";
    "return self" ].
Definition normalize_distribution_literal : list string :=
  [ "mu = mu if mu is not None else self.body.data.mean(axis=axis)";
    "std = std if std is not None else self.body.data.std(axis=axis)";
    "self.body.data = (self.body.data - mu) / std";
    "return (mu, std)" ].
Lemma in_place_methods_tie :
  Gen_C12.pose_focus = focus_literal /\ Gen_C12.pose_normalize = normalize_literal
  /\ Gen_C12.pose_normalize_distribution = normalize_distribution_literal.
Proof. repeat split; reflexivity. Qed.
