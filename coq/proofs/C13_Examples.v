(* C13 - non-vacuity: the hypotheses of every theorem in props/C13.v are satisfied by concrete, non-trivial
   values; and the rotation witness executed with the binary64 instance (vm_compute). *)
From Coq Require Import Reals List Lra Lia Arith Bool PrimFloat.
Require Import Num C13_Normalize C13_Norm3d C13_RBase C13_NormalizeP C13_DistP C13_Norm3dP C13_Norm3dAlg C13_Norm3dT C13_Norm3dW.
Import ListNotations.
Open Scope R_scope.

(* ---------- Pose.normalize ---------- *)
Definition P (m : bool) (x y : R) : rpt := @mkpt R_ops m [x; y].
(* two (frame, person) rows of three points; the third point of the first row is missing *)
Definition ex_body : list (list rpt) := [[P false 0 0; P false 3 4; P true 7 7]; [P false 1 1; P false 1 3; P false 5 5]].
Example normalize_hyp_ex : nondeg 2 0 1 ex_body /\ wf_body 2 ex_body /\ 0 < 2.
Proof. split; [|split; [|lra]].
  - exists [P false 0 0; P false 3 4; P true 7 7]. split; [left; reflexivity|]. split; [reflexivity|].
    unfold dist, getp, coord, sq, P. cbn [nth seq map pc Num.sum fold_right]. rsimp.
    apply Rgt_not_eq. apply sqrt_lt_R0. lra.
  - intros r p Hr Hp. unfold ex_body in Hr. cbn [In] in Hr.
    destruct Hr as [<-|[<-|[]]]; cbn [In] in Hp; repeat (destruct Hp as [<-|Hp]; [reflexivity|]); destruct Hp. Qed.
Example normalize_mask_hyp_ex : filter (rboth 0 1) ex_body <> [].
Proof. apply (nondeg_valid 2). apply normalize_hyp_ex. Qed.

(* ---------- normalize_distribution ---------- *)
Definition Cc (m : bool) (v : R) : rcell := @mkcell R_ops m v.
(* two groups (cell i belongs to group i mod 2); one missing cell *)
Definition ex_cells : list rcell := [Cc false 1; Cc false 10; Cc false 3; Cc true 99; Cc false 5; Cc false 14].
Definition ex_key (i : nat) : nat := Nat.modulo i 2.
Lemma ex_key_lt i : (ex_key i < 2)%nat.
Proof. apply Nat.mod_upper_bound. lia. Qed.
Lemma ex_std g : observed ex_key ex_cells g -> gstd R_ops ex_key ex_cells g <> 0.
Proof. intros Ho. destruct g as [|[|g]].
  - unfold gstd, gmean, gvals, ex_cells, ex_key, Cc. cbn -[Rplus Rmult Rminus Rdiv R_sqrt.sqrt IZR].
    apply Rgt_not_eq. apply sqrt_lt_R0. lra.
  - unfold gstd, gmean, gvals, ex_cells, ex_key, Cc. cbn -[Rplus Rmult Rminus Rdiv R_sqrt.sqrt IZR].
    apply Rgt_not_eq. apply sqrt_lt_R0. lra.
  - exfalso. apply Ho. reflexivity. Qed.
Example distribution_hyp_ex :
  (forall i, (ex_key i < 2)%nat) /\ observed ex_key ex_cells 0 /\ observed ex_key ex_cells 1 /\
  (forall g, observed ex_key ex_cells g -> gstd R_ops ex_key ex_cells g <> 0).
Proof. split; [exact ex_key_lt|]. split; [discriminate|]. split; [discriminate|]. exact ex_std. Qed.

(* ---------- the 3-D normaliser ---------- *)
Example norm3d_hyp_ex :
  zrot_spec (zrot_closed R_ops) /\ row_ok 0 1 2 0 2 W /\ (forall r, In r [W; W'] -> row_ok 0 1 2 0 2 r) /\
  coplanar (c3 (rget3 W 0)) (c3 (rget3 W 1)) (c3 (rget3 W 2)) (c3 (rget3 W 0)) /\ nth 0 [W; W'] [] = W.
Proof. split; [exact zrot_closed_spec|]. split; [exact W_ok|]. split.
  - intros r [<-|[<-|[]]]; [exact W_ok|exact W'_ok].
  - split; [|reflexivity]. unfold coplanar, get3, W, plane_normal. cbn [nth c3]. vsimp. req. lra. Qed.

Set Warnings "-inexact-float".
(* the rotation witness of norm3d_rotation_invariant_refuted executed in binary64: the off-plane point ends at
   z = 1 for the flat hand and at z = 5/3 for the same hand rotated about the y axis (the implementation gives
   1.0 and 1.66666667: corpus/C13/f12_rotation_witness.json) *)
Definition Pf (x y z : float) : p3 F_ops := @mkp3 F_ops false (@V3 F_ops x y z).
Definition Wf : list (p3 F_ops) := [Pf 0 0 0; Pf 1 0 0; Pf 0 1 0; Pf 0 0 1].
Definition Wf' : list (p3 F_ops) := [Pf 0 0 0; Pf 0.6 0 (-0.8); Pf 0 1 0; Pf 0.8 0 0.6].
Definition zf (r : list (p3 F_ops)) : float :=
  vz (c3 (get3 F_ops (normalize_row F_ops (zrot_closed F_ops) 0 1 2 0 2 1%float r) 3)).
Definition f_lo : float := 1.66%float.
Definition f_hi : float := 1.67%float.
Example rotation_witness_float :
  PrimFloat.eqb (zf Wf) PrimFloat.one = true /\ PrimFloat.ltb f_lo (zf Wf') = true /\ PrimFloat.ltb (zf Wf') f_hi = true.
Proof. vm_compute. repeat split; reflexivity. Qed.
