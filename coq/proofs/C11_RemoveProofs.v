(* C11 - remove_components is the selection of the complement; it is defined for every request. *)
From Coq Require Import List Arith Bool NArith ZArith Lia.
Require Import Result Tensor C11_Str C11_Select C11_Helpers C11_ListLemmas C11_TensorLemmas C11_SelectProofs.
Import ListNotations.
Open Scope str_scope.
Open Scope list_scope.

(* the points that a removal request leaves *)
Definition survives (R : list str) (pts : points_dict) (cn : str * str) : bool :=
  negb (mem (fst cn) R) && negb (truthy pts && mem (snd cn) (dict_get_nil pts (fst cn))).
Definition remaining_points (pts : points_dict) (c : component) : list str :=
  if truthy pts then filter (fun p => negb (mem p (dict_get_nil pts (c_name c)))) (c_points c) else c_points c.
Definition kept_components (R : list str) (cs : list component) : list component :=
  filter (fun c => negb (mem (c_name c) R)) cs.

Lemma remove_request_eq cs R pts : remove_request cs R pts =
  (map c_name (kept_components R cs), map (fun c => (c_name c, remaining_points pts c)) (kept_components R cs)).
Proof. reflexivity. Qed.
(* by definition of the code: removal calls get_components with the complement *)
Theorem remove_is_complement_v tfe cs b R pts :
  remove_components_v tfe cs b R pts =
  get_components_v tfe cs b (map c_name (kept_components R cs))
                   (Some (map (fun c => (c_name c, remaining_points pts c)) (kept_components R cs))).
Proof. reflexivity. Qed.

Lemma NoDup_map_filter {A B} (g : A -> B) (f : A -> bool) l : NoDup (map g l) -> NoDup (map g (filter f l)).
Proof. induction l as [|a l IH]; intros H; cbn [filter map]; [constructor|]. cbn [map] in H. inversion H as [|? ? Ha Hl]; subst.
  destruct (f a); [|now apply IH]. cbn [map]. constructor; [|now apply IH].
  intros Hi. apply Ha. apply in_map_iff in Hi. destruct Hi as [x [Hx Hf]]. apply filter_In in Hf. rewrite <- Hx. apply in_map. tauto. Qed.
Lemma nodup_name_inj cs c1 c2 : NoDup (map c_name cs) -> In c1 cs -> In c2 cs -> c_name c1 = c_name c2 -> c1 = c2.
Proof. induction cs as [|c r IH]; intros Hn H1 H2 E; [destruct H1|]. cbn [map] in Hn. inversion Hn as [|? ? Hc Hr]; subst.
  destruct H1 as [->|H1], H2 as [->|H2]; [reflexivity| | |now apply IH].
  - exfalso. apply Hc. rewrite E. now apply in_map.
  - exfalso. apply Hc. rewrite <- E. now apply in_map. Qed.
Lemma filter_map_pair (f : str * str -> bool) n l : filter f (map (pair n) l) = map (pair n) (filter (fun p => f (n, p)) l).
Proof. induction l as [|a l IH]; cbn [map filter]; [reflexivity|]. destruct (f (n, a)); cbn [map]; now rewrite IH. Qed.
Lemma filter_none {A} (f : A -> bool) l : (forall x, In x l -> f x = false) -> filter f l = [].
Proof. induction l as [|a l IH]; intros H; cbn [filter]; [reflexivity|]. rewrite (H a (or_introl eq_refl)). apply IH. intros; apply H; now right. Qed.

Lemma remaining_flat R pts cs :
  flat_map (fun c => map (pair (c_name c)) (remaining_points pts c)) (kept_components R cs) = filter (survives R pts) (flat_names cs).
Proof. induction cs as [|c r IH]; [reflexivity|]. rewrite flat_names_cons, filter_app, filter_map_pair. unfold kept_components in *.
  cbn [filter]. destruct (mem (c_name c) R) eqn:Em; cbn [negb].
  - rewrite IH. rewrite (filter_none (fun p => survives R pts (c_name c, p))); [reflexivity|]. intros p _. unfold survives. cbn [fst]. now rewrite Em.
  - cbn [flat_map]. rewrite IH. f_equal. f_equal. unfold remaining_points, survives. cbn [fst snd]. rewrite Em. cbn [negb andb].
    destruct (truthy pts); cbn [andb].
    + reflexivity.
    + symmetry. apply filter_all. reflexivity. Qed.

Lemma remove_lookup R pts cs c : NoDup (map c_name cs) -> In c (kept_components R cs) ->
  pts_lookup (Some (map (fun c => (c_name c, remaining_points pts c)) (kept_components R cs))) (c_name c) = Some (remaining_points pts c).
Proof. intros Hn Hc. cbn [pts_lookup]. apply assoc_last_nodup.
  - rewrite map_map. cbn [fst]. unfold kept_components. now apply NoDup_map_filter.
  - apply in_map_iff. exists c. auto. Qed.

(* the component part of a selection (no hypothesis on limbs) *)
Lemma select_shape_v tfe cs b sel pts cs' b' : names_unique cs = true ->
  get_components_v tfe cs b sel pts = Ok (cs', b') ->
  Forall2 (fun name c' => exists c, In c cs /\ c_name c = name /\ c_name c' = name /\
             c_points c' = match pts_lookup pts name with Some np => np | None => c_points c end) sel cs'.
Proof. intros Hu H. destruct (get_components_inv _ _ _ _ _ _ _ H) as [picked [-> [_ Hp]]].
  pose proof (names_unique_spec _ Hu) as [_ Hnd]. clear H.
  induction Hp as [|name x sel picked Hx Hp IH]; cbn [map]; constructor; [|exact IH].
  destruct Hx as [pre [c [post [-> [Hn Hs]]]]]. destruct x as [c' ixs]. cbn [fst].
  assert (Hin : In c (pre ++ c :: post)) by (apply in_or_app; right; now left).
  destruct (sel_component_spec _ _ _ _ _ (Hnd _ Hin) Hs) as [N1 [_ [_ [N4 _]]]].
  exists c. repeat split; try assumption; congruence. Qed.

Theorem remove_names_v tfe cs b R pts cs' b' : names_unique cs = true ->
  remove_components_v tfe cs b R pts = Ok (cs', b') ->
  flat_names cs' = filter (survives R pts) (flat_names cs) /\
  map c_name cs' = filter (fun n => negb (mem n R)) (map c_name cs).
Proof. intros Hu H. rewrite remove_is_complement_v in H. pose proof (select_shape_v _ _ _ _ _ _ _ Hu H) as Hs.
  pose proof (names_unique_spec _ Hu) as [Hn _].
  assert (Hk : Forall2 (fun c c' => c_name c' = c_name c /\ c_points c' = remaining_points pts c) (kept_components R cs) cs').
  { remember (map (fun c => (c_name c, remaining_points pts c)) (kept_components R cs)) as pd eqn:Epd.
    assert (Hl : forall c, In c (kept_components R cs) -> pts_lookup (Some pd) (c_name c) = Some (remaining_points pts c))
      by (intros c Hc; subst pd; now apply remove_lookup).
    assert (Hsub : forall c, In c (kept_components R cs) -> In c cs) by (intros c Hc; apply filter_In in Hc; tauto).
    clear Epd H. revert cs' Hs. induction (kept_components R cs) as [|c k IH]; intros cs' Hs; cbn [map] in Hs; inversion Hs as [|? c' ? l' Hc Hr]; subst; constructor.
    - destruct Hc as [c0 [Hin [En [En' Ep]]]]. assert (c0 = c) by (apply (nodup_name_inj cs); auto; apply Hsub; now left). subst c0.
      rewrite (Hl c (or_introl eq_refl)) in Ep. auto.
    - apply IH; [intros; apply Hl; now right|intros; apply Hsub; now right|exact Hr]. }
  split.
  - rewrite <- remaining_flat. unfold flat_names. clear H Hs. induction Hk as [|c c' k l [E1 E2] Hk IH]; cbn [flat_map]; [reflexivity|].
    now rewrite IH, E1, E2.
  - clear H Hs. unfold kept_components in Hk. revert cs' Hk. induction cs as [|c r IH]; intros cs' Hk; cbn [filter map] in *.
    + inversion Hk; reflexivity.
    + cbn [map] in Hn. inversion Hn; subst. destruct (mem (c_name c) R); cbn [negb] in *.
      * apply IH; [unfold names_unique in *|assumption|assumption].
        apply andb_true_iff in Hu. destruct Hu as [U1 U2]. cbn [map nodupb forallb] in U1, U2. apply andb_true_iff in U1, U2.
        apply andb_true_iff. tauto.
      * inversion Hk as [|? c' ? l' [E _] Hr]; subst. cbn [map]. rewrite E. f_equal. apply IH; [|assumption|assumption].
        unfold names_unique in *. apply andb_true_iff in Hu. destruct Hu as [U1 U2]. cbn [map nodupb forallb] in U1, U2.
        apply andb_true_iff in U1, U2. apply andb_true_iff. tauto. Qed.

Theorem remove_defined_v tfe cs b R pts F P D :
  names_unique cs = true -> body_shape b F P (total_points cs) D -> (tfe = false \/ b_backend b <> TF) ->
  exists r, remove_components_v tfe cs b R pts = Ok r.
Proof. intros Hu Hb Htf. rewrite remove_is_complement_v. pose proof (names_unique_spec _ Hu) as [Hn _].
  assert (Hsub : forall c, In c (kept_components R cs) -> In c cs) by (intros c Hc; apply filter_In in Hc; tauto).
  eapply select_defined_v; try eassumption.
  - intros s Hs. apply in_map_iff in Hs. destruct Hs as [c [<- Hc]]. apply in_map. now apply Hsub.
  - intros c np Hc Hsel Hl p Hp. apply in_map_iff in Hsel. destruct Hsel as [c0 [E Hc0]].
    assert (c0 = c) by (apply (nodup_name_inj cs); auto). subst c0.
    rewrite (remove_lookup R pts cs c Hn Hc0) in Hl. injection Hl as <-. unfold remaining_points in Hp.
    destruct (truthy pts); [apply filter_In in Hp; tauto|exact Hp]. Qed.
