(* C18: what a reader thread's local computations guarantee, whatever it read from the memo at pose.py:60.
   [result_alone j] is the header of j's own file parsed from offset 0 and the offset after it. *)
From Coq Require Import ZArith NArith List Lia ZifyBool ZifyN ZifyNat Bool.
Require Import ListN Result Bytes Prog Codec PoseRead ProgLemmas C18_Threads C18_Bytes.
Import ListNotations.
Open Scope N_scope.

(* a memo entry is sound when every buffer that hits it gets the header and offset of its own parse *)
Definition SoundKey (s e : N) (k : bytes) (h : header) : Prop :=
  forall b, py_slice s e b = k -> parse b = Some (h, e).

Lemma parse_ok b h r : run_plain rd_header {| pbuf := b; poff := 0 |} = Ok (h, r) -> parse b = Some (h, poff r).
Proof. unfold parse. now intros ->. Qed.
Lemma parse_some b h e : parse b = Some (h, e) ->
  run_plain rd_header {| pbuf := b; poff := 0 |} = Ok (h, {| pbuf := b; poff := e |}).
Proof.
  unfold parse. destruct (run_plain rd_header {| pbuf := b; poff := 0 |}) as [[h' r]|] eqn:E; [|discriminate].
  intros [= -> <-]. pose proof (run_plain_buf _ _ _ _ E) as Hb. cbn [pbuf] in Hb. destruct r as [pb po]. cbn [pbuf poff] in *. now subst.
Qed.

(* the key stored by a miss is sound: prefix determinism of the header decoder *)
Lemma key_sound file h e : parse file = Some (h, e) -> SoundKey 0 e (takeN e file) h.
Proof.
  intros Hp b Hb. rewrite py_slice_0 in Hb. apply parse_some in Hp.
  pose proof (run_plain_prefix rd_header noSkip_rd_header _ _ _ Hp b) as H. cbn [pbuf poff] in H.
  specialize (H Hb). unfold parse. now rewrite H.
Qed.

Section Local.
Variable pf : option N -> N.
Variable locked : bool.

Lemma lookup_plain j er : uses_stream j = false -> lookup_buffer pf j er = Ok (j_file j).
Proof. unfold lookup_buffer. now intros ->. Qed.

Lemma SInv_r0 file : SInv file {| buf := []; off := 0; skipped := 0; pulled := 0 |}.
Proof.
  split; [reflexivity|]. split; cbn [buf off].
  - change (lenN (@nil N)) with 0. now rewrite takeN_0.
  - change (lenN (@nil N)) with 0. lia.
Qed.

Lemma lookup_stream j er : uses_stream j = true ->
  match lookup_buffer pf j er with
  | Ok b => b = takeN (lenN b) (j_file j)
  | Err _ => j_file j = []
  end.
Proof.
  unfold lookup_buffer. intros ->.
  pose proof (expect_sim (j_file j) (pf er) _ (SInv_r0 (j_file j))) as H.
  destruct (expect (j_file j) (pf er) _) as [r1|e].
  - destruct H as ((_ & Hb & _) & _). exact Hb.
  - exact (proj1 H).
Qed.

(* L3: a failing prefetch means the file is empty, which fails alone as well *)
Lemma lookup_err j er e : lookup_buffer pf j er = Err e -> result_alone j = RFail.
Proof.
  intros H. destruct (uses_stream j) eqn:U.
  - pose proof (lookup_stream j er U) as L. rewrite H in L. unfold result_alone, parse. rewrite L. reflexivity.
  - rewrite lookup_plain in H by exact U. discriminate.
Qed.

(* L1: a header that parses from the thread's buffer is the header of its file *)
Lemma lookup_parse j er b h e : lookup_buffer pf j er = Ok b -> parse b = Some (h, e) -> result_alone j = ROk h e.
Proof.
  intros H Hp. destruct (uses_stream j) eqn:U.
  - pose proof (lookup_stream j er U) as L. rewrite H in L.
    apply parse_some in Hp.
    pose proof (run_plain_ext rd_header (noSkip_noBL _ noSkip_rd_header) b (dropN (lenN b) (j_file j)) 0 h e Hp) as Hx.
    rewrite L in Hx at 1 3. rewrite take_drop_split in Hx.
    unfold result_alone, parse. rewrite Hx. reflexivity.
  - rewrite lookup_plain in H by exact U. injection H as <-. unfold result_alone. now rewrite Hp.
Qed.

(* L2: the miss path parses the thread's own file; what it hands to set_cache is a sound entry *)
Lemma own_parse j er b : lookup_buffer pf j er = Ok b ->
  match parse_own j b with
  | Ok (h, e, b') => result_alone j = ROk h e /\ SoundKey 0 e (py_slice 0 e b') h
  | Err _ => result_alone j = RFail
  end.
Proof.
  intros H. unfold parse_own. destruct (uses_stream j) eqn:U.
  - pose proof (lookup_stream j er U) as L. rewrite H in L.
    set (r1 := {| buf := b; off := 0; skipped := 0; pulled := lenN b |}).
    assert (Hr1 : SInv (j_file j) r1).
    { unfold SInv; subst r1; cbn [buf off skipped]. split; [reflexivity|split; [exact L|lia]]. }
    pose proof (run_stream_sim rd_header (j_file j) noSkip_rd_header r1 Hr1) as S.
    subst r1. cbn [off buf] in S.
    destruct (run_stream (j_file j) rd_header _) as [[h r2]|e].
    + destruct S as ((_ & Hb2 & Ho2) & _ & Hrun). cbn [off] in Hrun.
      assert (Hp : parse (j_file j) = Some (h, off r2)) by (unfold parse; now rewrite Hrun).
      split; [unfold result_alone; now rewrite Hp|].
      rewrite py_slice_0, Hb2, takeN_takeN_le by exact Ho2. now apply key_sound.
    + destruct S as [e' He']. cbn [off] in He'. unfold result_alone, parse. now rewrite He'.
  - rewrite lookup_plain in H by exact U. injection H as <-.
    destruct (run_plain rd_header {| pbuf := j_file j; poff := 0 |}) as [[h r]|e] eqn:E.
    + apply parse_ok in E. split; [unfold result_alone; now rewrite E|].
      rewrite py_slice_0. now apply key_sound.
    + unfold result_alone, parse. now rewrite E.
Qed.
End Local.

(* the memo a solo read leaves behind is sound *)
Definition Good (m : gmemo) : Prop :=
  g_hash m = None \/
  exists s e k h, m = {| g_start := Some s; g_end := Some e; g_hash := Some k; g_header := Some h |} /\ SoundKey s e k h.
Lemma good_empty : Good g_empty.
Proof. left. reflexivity. Qed.
Lemma good_memo_after file : Good (memo_after file).
Proof.
  unfold memo_after. destruct (parse file) as [[h e]|] eqn:E; [|apply good_empty].
  right. exists 0, e, (py_slice 0 e file), h. split; [reflexivity|]. rewrite py_slice_0. now apply key_sound.
Qed.
