(* C05: parsePose on a file written by Pose.write, against Pose.read of the same bytes. *)
From Coq Require Import ZArith NArith List Lia ZifyBool ZifyN ZifyNat Bool Arith.
Require Import ListN Result Bytes Utf8 Utf8S F32 Prog Tensor Codec ProgLemmas CodecRT
  C05_JsParser C05_Spec C05_View C05_Lemmas C05_Header C05_HeaderView C05_Body C05_Index C05_Cells.
Import ListNotations.
Open Scope nat_scope.

(* ---------- version switch ---------- *)
Lemma js_dispatch_words :
  js_version_class 0 = V00 /\ js_version_class 2147483648 = V00 /\ js_version_class v01_word = V01 /\
  js_version_class version_word = V02 /\
  version_class 0 = V00 /\ version_class 2147483648 = V00 /\ version_class v01_word = V01 /\ version_class version_word = V02.
Proof. vm_compute. repeat split; reflexivity. Qed.
Lemma js_class_v02 : js_version_class version_word = V02.
Proof. vm_compute. reflexivity. Qed.

(* ---------- the whole file ---------- *)
Lemma canon_header_of p : canon_header p = header_of (w_dims p) (w_comps p).
Proof. unfold canon_header, header_of. destruct (w_dims p) as [[w h] d]. reflexivity. Qed.

Definition jbody_of (p : wpose) (F P T D : N) : jbody :=
  {| jb_info := info_obj_v02 (b_fps (canon_body p)) F P;
     jb_frames := Z.of_N F; jb_people := Z.of_N P; jb_points := Z.of_N T; jb_dims := Z.of_N D;
     jb_data := b_data (canon_body p); jb_conf := b_conf (canon_body p) |}.

Theorem js_parse_v02 p bs F P T D : write_pose p = Ok bs -> wf_arrays p -> w_shape p = [F; P; T; D]%N ->
  Forall wcomp_plain (w_comps p) ->
  exists h, write_header (w_dims p) (w_comps p) = Ok h /\
  parse_pose bs = Some {| jp_header := js_header_obj (canon_header p) (lenN h);
                          jp_info := info_obj_v02 (b_fps (canon_body p)) F P;
                          jp_nframes := Z.of_N F;
                          jp_frame := js_frame_rep (comps_of p) (jbody_of p F P T D) |}.
Proof.
  intros H Hwf Hs Hplain.
  destruct (js_body_v02 p bs F P T D H Hwf Hs Hplain) as [h [Hh Hb]]. exists h. split; [exact Hh|].
  destruct (write_pose_ok _ _ H) as [F' [P' [T' [D' [h' [b [_ [_ [_ [_ [Hh' [_ Ebs]]]]]]]]]]]].
  rewrite Hh in Hh'. injection Hh' as <-.
  unfold parse_pose. rewrite Ebs at 1. rewrite (js_header_obj_eq _ _ _ b Hh). rewrite <- canon_header_of.
  assert (Ev : obj_get (js_header_obj (canon_header p) (lenN h)) k_version = Some (VF32 version_word)).
  { unfold js_header_obj. rewrite canon_header_of. cbn [header_of header_of_v h_dims h_version]. kred. reflexivity. }
  assert (Ehl : get_num (js_header_obj (canon_header p) (lenN h)) k_headerLength = Some (Z.of_N (lenN h))).
  { unfold js_header_obj. destruct (h_dims (canon_header p)) as [[w hh] d]. kred. reflexivity. }
  rewrite Ev, header_comps_obj, Ehl, js_class_v02.
  replace (map jcomp_of_comp (h_comps (canon_header p))) with (comps_of p)
    by (unfold comps_of; rewrite canon_header_of; reflexivity).
  rewrite Hb. reflexivity.
Qed.

(* ---------- Python's tensors ---------- *)
Definition nat_shape (b : body) : list nat := map N.to_nat (b_shape b).
Definition py_data (b : body) : tensor N := mkT (nat_shape b) (b_data b).
Definition py_conf (b : body) : tensor N := mkT (firstn 3 (nat_shape b)) (b_conf b).

(* parsePose against Pose.read, every cell.  [full_read_prog] is the Python reader (CodecRT.full_read_rt: it returns
   [canon p]); cells are addressed as an application does: frames[i].people[j][component name][l][letter]. *)
Theorem js_index_eq p bs : write_pose p = Ok bs -> wf_arrays p -> (1 <= nth 3 (w_shape p) 0)%N ->
  Forall wcomp_plain (w_comps p) ->
  exists py jp,
    run_plain full_read_prog {| pbuf := bs; poff := 0 |} = Ok (py, {| pbuf := bs; poff := lenN bs |}) /\
    parse_pose bs = Some jp /\
    forall F P T D, nat_shape (p_body py) = [F; P; T; D] ->
    forall i j n l c, i < F -> j < P -> nth_error (h_comps (p_header py)) n = Some c -> l < length (c_points c) ->
      ~ In (c_name c) (map c_name (skipn (S n) (h_comps (p_header py)))) ->
      let t := point_offset (h_comps (p_header py)) n + l in
      js_cell (jp_frame jp (Z.of_nat i)) j (c_name c) l 67 = Some (VF32 (tget 0%N (py_conf (p_body py)) [i; j; t])) /\
      forall d x, nth_error (c_format c) d = Some x -> x <> 67%N -> coord_index (c_format c) d < D -> ~ In x (skipn (S d) (c_format c)) ->
        js_cell (jp_frame jp (Z.of_nat i)) j (c_name c) l x = Some (VF32 (tget 0%N (py_data (p_body py)) [i; j; t; coord_index (c_format c) d])).
Proof.
  intros H Hwf HD Hplain.
  destruct (write_pose_ok _ _ H) as [F0 [P0 [T0 [D0 [h0 [b0 [Hs [Hcs [Hnd [Htp [Hh0 [Hb0 Ebs]]]]]]]]]]]].
  destruct (js_parse_v02 p bs F0 P0 T0 D0 H Hwf Hs Hplain) as [h [Hh Hparse]].
  exists (canon p). eexists. split; [exact (RTp_run _ _ _ (full_read_rt p bs H Hwf HD))|]. split; [exact Hparse|].
  cbn [jp_frame p_body p_header canon].
  intros F P T D Hshape.
  unfold py_conf, py_data. rewrite Hshape. cbn [firstn].
  unfold nat_shape, canon_body in Hshape. cbn [b_shape] in Hshape. rewrite Hs in Hshape. cbn [map] in Hshape.
  injection Hshape as <- <- <- <-.
  destruct Hwf as [Hld Hlc]. rewrite Hs in Hld. rewrite Hcs in Hlc. cbn [prodN fold_right] in Hld, Hlc.
  assert (Ecomps : comps_of p = map jcomp_of_comp (h_comps (canon_header p))) by (unfold comps_of; now rewrite canon_header_of).
  rewrite Ecomps.
  apply (js_cells_eq (h_comps (canon_header p)) (N.to_nat F0) (N.to_nat P0) (N.to_nat T0) (N.to_nat D0) (jbody_of p F0 P0 T0 D0)).
  - rewrite canon_header_of. cbn [header_of header_of_v h_comps]. apply canon_no_bom.
    eapply Forall_impl; [|exact Hplain]. intros a Ha. exact (proj1 Ha).
  - cbn [jbody_of jb_people]. lia.
  - cbn [jbody_of jb_points]. lia.
  - cbn [jbody_of jb_dims]. lia.
  - rewrite <- sumN_nat. rewrite canon_header_of. cbn [header_of header_of_v h_comps]. rewrite map_map. cbn [canon_comp c_points].
    unfold total_points_w in Htp. now rewrite Htp.
  - cbn [jbody_of jb_data canon_body b_data]. rewrite map_length. unfold lenN in Hld. lia.
  - cbn [jbody_of jb_conf canon_body b_conf]. rewrite map_length. unfold lenN in Hlc. lia.
Qed.

(* fps, frame count and people count *)
Theorem js_body_info_eq p bs : write_pose p = Ok bs -> wf_arrays p -> (1 <= nth 3 (w_shape p) 0)%N ->
  Forall wcomp_plain (w_comps p) ->
  exists py jp,
    run_plain full_read_prog {| pbuf := bs; poff := 0 |} = Ok (py, {| pbuf := bs; poff := lenN bs |}) /\
    parse_pose bs = Some jp /\
    forall F P T D, b_shape (p_body py) = [F; P; T; D]%N ->
      info_view_v02 (jp_info jp) = Some (b_fps (p_body py), F, P) /\ jp_nframes jp = Z.of_N F.
Proof.
  intros H Hwf HD Hplain.
  destruct (write_pose_ok _ _ H) as [F0 [P0 [T0 [D0 [h0 [b0 [Hs [Hcs [Hnd [Htp [Hh0 [Hb0 Ebs]]]]]]]]]]]].
  destruct (js_parse_v02 p bs F0 P0 T0 D0 H Hwf Hs Hplain) as [h [Hh Hparse]].
  exists (canon p). eexists. split; [exact (RTp_run _ _ _ (full_read_rt p bs H Hwf HD))|]. split; [exact Hparse|].
  cbn [jp_info jp_nframes p_body canon canon_body b_shape b_fps].
  intros F P T D Hshape. rewrite Hs in Hshape. injection Hshape as <- <- <- <-.
  split; [|reflexivity]. unfold info_view_v02, info_obj_v02. kred. now rewrite !vnum_of_N.
Qed.
