(* C05: parsePose on a file written by Pose.write, against Pose.read of the same bytes. *)
From Coq Require Import ZArith NArith List Lia ZifyBool ZifyN ZifyNat Bool Arith.
Require Import ListN Result Bytes Utf8 Utf8S F32 Prog Tensor Codec ProgLemmas CodecRT
  C05_JsParser C05_View C05_Lemmas C05_Header C05_HeaderView C05_Body C05_Index.
Import ListNotations.
Open Scope nat_scope.

(* ---------- version switch ---------- *)
Definition v01_word : N := 1036831949%N.     (* struct.pack('<f', 0.1) = cd cc cc 3d *)
Lemma js_dispatch_words :
  js_version_class 0 = V00 /\ js_version_class 2147483648 = V00 /\ js_version_class v01_word = V01 /\
  js_version_class version_word = V02 /\
  version_class 0 = V00 /\ version_class 2147483648 = V00 /\ version_class v01_word = V01 /\ version_class version_word = V02.
Proof. vm_compute. repeat split; reflexivity. Qed.
Lemma js_class_v02 : js_version_class version_word = V02.
Proof. vm_compute. reflexivity. Qed.

(* ---------- the whole file ---------- *)
Lemma canon_header_of p : canon_header p = header_of (w_dims p) (w_comps p).
Proof. unfold canon_header, header_of. destruct (w_dims p) as [[w h] d]. reflexivity. Qed.

Definition jbody_of (p : wpose) (F P T D : N) : jbody :=
  {| jb_info := info_obj_v02 (b_fps (canon_body p)) F P;
     jb_frames := Z.of_N F; jb_people := Z.of_N P; jb_points := Z.of_N T; jb_dims := Z.of_N D;
     jb_data := b_data (canon_body p); jb_conf := b_conf (canon_body p) |}.

Theorem js_parse_v02 p bs F P T D : write_pose p = Ok bs -> wf_arrays p -> w_shape p = [F; P; T; D]%N ->
  Forall wcomp_plain (w_comps p) ->
  exists h, write_header (w_dims p) (w_comps p) = Ok h /\
  parse_pose bs = Some {| jp_header := js_header_obj (canon_header p) (lenN h);
                          jp_info := info_obj_v02 (b_fps (canon_body p)) F P;
                          jp_nframes := Z.of_N F;
                          jp_frame := js_frame_rep (comps_of p) (jbody_of p F P T D) |}.
Proof.
  intros H Hwf Hs Hplain.
  destruct (js_body_v02 p bs F P T D H Hwf Hs Hplain) as [h [Hh Hb]]. exists h. split; [exact Hh|].
  destruct (write_pose_ok _ _ H) as [F' [P' [T' [D' [h' [b [_ [_ [_ [_ [Hh' [_ Ebs]]]]]]]]]]]].
  rewrite Hh in Hh'. injection Hh' as <-.
  unfold parse_pose. rewrite Ebs at 1. rewrite (js_header_obj_eq _ _ _ b Hh). rewrite <- canon_header_of.
  assert (Ev : obj_get (js_header_obj (canon_header p) (lenN h)) k_version = Some (VF32 version_word)).
  { unfold js_header_obj. rewrite canon_header_of. cbn [header_of h_dims h_version]. kred. reflexivity. }
  assert (Ehl : get_num (js_header_obj (canon_header p) (lenN h)) k_headerLength = Some (Z.of_N (lenN h))).
  { unfold js_header_obj. destruct (h_dims (canon_header p)) as [[w hh] d]. kred. reflexivity. }
  rewrite Ev, header_comps_obj, Ehl, js_class_v02.
  replace (map jcomp_of_comp (h_comps (canon_header p))) with (comps_of p)
    by (unfold comps_of; rewrite canon_header_of; reflexivity).
  rewrite Hb. reflexivity.
Qed.

Lemma in_skipn {X} (x : X) n l : In x (skipn n l) -> In x l.
Proof. intros H. rewrite <- (firstn_skipn n l). apply in_or_app. now right. Qed.

(* ---------- Python's tensors ---------- *)
Definition nat_shape (b : body) : list nat := map N.to_nat (b_shape b).
Definition py_data (b : body) : tensor N := mkT (nat_shape b) (b_data b).
Definition py_conf (b : body) : tensor N := mkT (firstn 3 (nat_shape b)) (b_conf b).
(* index of a component's first point among all points (pose_header.py: components are concatenated in order) *)
Definition point_offset (cs : list component) (n : nat) : nat :=
  fold_right Nat.add 0 (map (fun c => length (c_points c)) (firstn n cs)).

Lemma koff_offset cs : forall n, koff (firstn n (map jcomp_of_comp cs)) = Z.of_nat (point_offset cs n).
Proof.
  unfold koff, point_offset. induction cs as [|c cs IH]; intros [|n]; cbn [firstn map fold_right]; try reflexivity.
  rewrite IH. cbn [jc_plen jcomp_of_comp]. unfold lenN. lia.
Qed.
Lemma offset_bound cs : forall n c, nth_error cs n = Some c ->
  point_offset cs n + length (c_points c) <= fold_right Nat.add 0 (map (fun c => length (c_points c)) cs).
Proof.
  unfold point_offset. induction cs as [|c0 cs IH]; intros [|n] c Hn; cbn [nth_error firstn map fold_right] in *; try discriminate.
  - injection Hn as ->. lia.
  - specialize (IH n c Hn). lia.
Qed.
Lemma sumN_nat (cs : list component) :
  N.to_nat (sumN (map (fun c => lenN (c_points c)) cs)) = fold_right Nat.add 0 (map (fun c => length (c_points c)) cs).
Proof. induction cs as [|c cs IH]; [reflexivity|]. cbn [map sumN fold_right] in *. unfold sumN in IH. unfold lenN in *. lia. Qed.

(* parsePose against Pose.read, every cell.  [full_read_prog] is the Python reader (CodecRT.full_read_rt: it returns
   [canon p]); cells are addressed as an application does: frames[i].people[j][component name][l][letter]. *)
Theorem js_index_eq p bs : write_pose p = Ok bs -> wf_arrays p -> (1 <= nth 3 (w_shape p) 0)%N ->
  Forall wcomp_plain (w_comps p) ->
  exists py jp,
    run_plain full_read_prog {| pbuf := bs; poff := 0 |} = Ok (py, {| pbuf := bs; poff := lenN bs |}) /\
    parse_pose bs = Some jp /\
    forall F P T D, nat_shape (p_body py) = [F; P; T; D] ->
    forall i j n l c, i < F -> j < P -> nth_error (h_comps (p_header py)) n = Some c -> l < length (c_points c) ->
      ~ In (c_name c) (map c_name (skipn (S n) (h_comps (p_header py)))) ->
      let t := point_offset (h_comps (p_header py)) n + l in
      js_cell (jp_frame jp (Z.of_nat i)) j (c_name c) l 67 = Some (VF32 (tget 0%N (py_conf (p_body py)) [i; j; t])) /\
      forall d x, nth_error (c_format c) d = Some x -> x <> 67%N -> d < D -> ~ In x (skipn (S d) (c_format c)) ->
        js_cell (jp_frame jp (Z.of_nat i)) j (c_name c) l x = Some (VF32 (tget 0%N (py_data (p_body py)) [i; j; t; d])).
Proof.
  intros H Hwf HD Hplain.
  destruct (write_pose_ok _ _ H) as [F0 [P0 [T0 [D0 [h0 [b0 [Hs [Hcs [Hnd [Htp [Hh0 [Hb0 Ebs]]]]]]]]]]]].
  destruct (js_parse_v02 p bs F0 P0 T0 D0 H Hwf Hs Hplain) as [h [Hh Hparse]].
  exists (canon p). eexists. split; [exact (RTp_run _ _ _ (full_read_rt p bs H Hwf HD))|]. split; [exact Hparse|].
  cbn [jp_frame p_body p_header canon].
  intros F P T D Hshape i j n l c Hi Hj Hn Hl Hlater. set (t := point_offset (h_comps (canon_header p)) n + l).
  unfold nat_shape, canon_body in Hshape. cbn [b_shape] in Hshape. rewrite Hs in Hshape. cbn [map] in Hshape.
  injection Hshape as <- <- <- <-.
  (* the component as the JavaScript side sees it *)
  assert (Hcp : comp_no_bom c).
  { rewrite canon_header_of in Hn. cbn [header_of h_comps] in Hn. apply nth_error_In in Hn. apply in_map_iff in Hn.
    destruct Hn as [wc [<- Hin]]. rewrite Forall_forall in Hplain. exact (proj1 (Hplain wc Hin)). }
  assert (Hname : jc_name (jcomp_of_comp c) = c_name c) by (cbn [jcomp_of_comp jc_name]; apply strip_no_bom, Hcp).
  assert (Hfmt : jc_format (jcomp_of_comp c) = c_format c) by (cbn [jcomp_of_comp jc_format]; apply strip_no_bom, Hcp).
  assert (Hn' : nth_error (comps_of p) n = Some (jcomp_of_comp c)).
  { unfold comps_of. rewrite canon_header_of in Hn. cbn [header_of h_comps] in Hn. now rewrite nth_error_map, Hn. }
  assert (Hlater' : ~ In (jc_name (jcomp_of_comp c)) (map jc_name (skipn (S n) (comps_of p)))).
  { rewrite Hname. intros Hin. apply Hlater. unfold comps_of in Hin. rewrite canon_header_of. cbn [header_of h_comps].
    rewrite skipn_map in Hin. rewrite map_map in Hin. apply in_map_iff in Hin. destruct Hin as [c' [E Hin']].
    apply in_map_iff. exists c'. split; [|exact Hin'].
    rewrite <- E. cbn [jcomp_of_comp jc_name]. symmetry. apply strip_no_bom.
    apply in_skipn in Hin'. rewrite canon_header_of in Hn. 
    assert (Hall : Forall comp_no_bom (map canon_comp (w_comps p))).
    { apply canon_no_bom. eapply Forall_impl; [|exact Hplain]. intros a Ha. exact (proj1 Ha). }
    rewrite Forall_forall in Hall. exact (proj1 (Hall c' Hin')). }
  set (jb := jbody_of p F0 P0 T0 D0).
  assert (Hj' : j < Z.to_nat (jb_people jb)) by (cbn [jb jbody_of jb_people]; lia).
  assert (Hl' : l < Z.to_nat (jc_plen (jcomp_of_comp c))) by (cbn [jcomp_of_comp jc_plen]; unfold lenN; lia).
  pose proof (js_cell_lookup (comps_of p) jb i j n l) as HL.
  (* where the point sits *)
  assert (Hoff : koff (firstn n (comps_of p)) = Z.of_nat (point_offset (h_comps (canon_header p)) n)).
  { unfold comps_of. rewrite canon_header_of. cbn [header_of h_comps]. apply koff_offset. }
  assert (Ht : t < N.to_nat T0).
  { unfold t. pose proof (offset_bound _ _ _ Hn) as Hb. rewrite <- sumN_nat in Hb.
    rewrite canon_header_of in Hb. cbn [header_of h_comps] in Hb. rewrite map_map in Hb.
    unfold total_points_w in Htp. cbn [canon_comp c_points] in Hb. rewrite Htp in Hb.
    rewrite canon_header_of. cbn [header_of h_comps]. lia. }
  destruct Hwf as [Hld Hlc]. rewrite Hs in Hld. rewrite Hcs in Hlc. cbn [prodN fold_right] in Hld, Hlc.
  assert (Eplace : js_place (js_offset (Z.of_nat i) (jb_people jb) (jb_points jb) (Z.of_nat j)) (koff (firstn n (comps_of p))) (Z.of_nat l)
                   = Z.of_nat (ravel [N.to_nat F0; N.to_nat P0; N.to_nat T0] [i; j; t])).
  { rewrite Hoff. unfold t. cbn [jb jbody_of jb_people jb_points]. rewrite <- js_place_ravel. rewrite !N_nat_Z. reflexivity. }
  split.
  - destruct (HL 0 (jcomp_of_comp c) 67%N Hj' Hn' Hl' Hlater') as [HC _]. rewrite Hname in HC. rewrite HC.
    rewrite Eplace. f_equal. rewrite f32_at_nth;
      [unfold tget, py_conf, nat_shape; cbn [shape data canon_body b_shape b_conf]; rewrite Hs; reflexivity|].
    cbn [jb jbody_of jb_conf canon_body b_conf]. rewrite map_length.
    assert (Hr : ravel [N.to_nat F0; N.to_nat P0; N.to_nat T0] [i; j; t] < prod [N.to_nat F0; N.to_nat P0; N.to_nat T0]).
    { apply ravel_lt. repeat constructor; assumption. }
    cbn [prod fold_right] in Hr. unfold lenN in Hlc. lia.
  - intros d x Hd Hx HdD Hxl.
    destruct (HL d (jcomp_of_comp c) x Hj' Hn' Hl' Hlater') as [_ HX]. rewrite Hname, Hfmt in HX.
    rewrite (HX Hd Hx Hxl). rewrite Eplace. f_equal.
    cbn [jb jbody_of jb_dims jb_data].
    replace (Z.of_N D0) with (Z.of_nat (N.to_nat D0)) by lia.
    assert (Eidx : js_data_index (Z.of_nat (ravel [N.to_nat F0; N.to_nat P0; N.to_nat T0] [i; j; t])) (Z.of_nat (N.to_nat D0)) (Z.of_nat d)
                   = Z.of_nat (ravel [N.to_nat F0; N.to_nat P0; N.to_nat T0; N.to_nat D0] [i; j; t; d])).
    { unfold js_data_index. cbn [ravel prod fold_right]. repeat (rewrite Nat2Z.inj_add || rewrite Nat2Z.inj_mul). cbn [Z.of_nat]. ring. }
    rewrite Eidx. rewrite f32_at_nth;
      [unfold tget, py_data, nat_shape; cbn [shape data canon_body b_shape b_data]; rewrite Hs; reflexivity|].
    cbn [canon_body b_data]. rewrite map_length.
    assert (Hr : ravel [N.to_nat F0; N.to_nat P0; N.to_nat T0; N.to_nat D0] [i; j; t; d] < prod [N.to_nat F0; N.to_nat P0; N.to_nat T0; N.to_nat D0]).
    { apply ravel_lt. repeat constructor; assumption. }
    cbn [prod fold_right] in Hr. unfold lenN in Hld. lia.
Qed.
