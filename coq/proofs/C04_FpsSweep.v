(* The frame rate of a legacy file (an unsigned short) survives Pose.write: for every 16-bit n the float32 of n,
   widened to a Python float and packed by struct '<f' again, is itself.  Finite domain: decided by vm_compute. *)
From Coq Require Import ZArith NArith List Lia ZifyBool ZifyN ZifyNat Bool.
Require Import F32 C04_Legacy C04_SpecRT.
Open Scope N_scope.

(* the frame rate survives: for every 16-bit n the float32 of n, widened and packed again, is itself *)
Fixpoint fps_sweep (fuel : nat) (n : N) : bool :=
  match fuel with
  | O => true
  | S k => (match pack_f32 (f32_to_f64 (f32_of_u16 n)) with Some v => v =? f32_of_u16 n | None => false end) && fps_sweep k (n + 1)
  end.
Lemma fps_sweep_ok : fps_sweep (N.to_nat 65536) 0 = true.
Proof. vm_compute. reflexivity. Qed.
Lemma fps_sweep_sound fuel : forall n0 n, fps_sweep fuel n0 = true -> n0 <= n -> n < n0 + N.of_nat fuel ->
  pack_f32 (f32_to_f64 (f32_of_u16 n)) = Some (f32_of_u16 n).
Proof.
  induction fuel as [|k IH]; intros n0 n H Hlo Hhi; [lia|].
  cbn [fps_sweep] in H. apply andb_true_iff in H. destruct H as [H1 H2].
  destruct (N.eq_dec n n0) as [->|Hne].
  - destruct (pack_f32 (f32_to_f64 (f32_of_u16 n0))) as [v|]; [|discriminate]. apply N.eqb_eq in H1. now subst.
  - apply (IH (n0 + 1)); [exact H2|lia|lia].
Qed.
Lemma fps_roundtrip n : u16 n -> pack_f32 (f32_to_f64 (f32_of_u16 n)) = Some (f32_of_u16 n).
Proof. intros Hn. apply (fps_sweep_sound (N.to_nat 65536) 0 n fps_sweep_ok); [lia|]. rewrite N2Nat.id. unfold u16 in Hn. lia. Qed.

