(* C16: 0 <= int(n * CAP) < n for EVERY n >= 1 (no bound), hence the generic dropout always keeps a frame.
   The binary64 computation of the model (Coq's SpecFloat: binary_normalize, SFmul) is connected to Flocq's
   correctly-rounded operations (binary_normalize_correct, Bmult_correct), and the inequality is proved over the reals:
   x = RN(n), y = RN(x * c) with c <= 4095/4096 gives 0 <= y < n, and int(y) = floor(y) < n.
   Depends on the three axioms of Coq's real numbers (through Flocq) and on nothing else; the closed, bounded
   version is proofs/C16_Cap.v.  CAP is the regenerated source constant: [cap_small] is decided by computation. *)
From Coq Require Import ZArith Reals Lia Lra Psatz SpecFloat Bool List.
From Flocq Require Import Core Relative BinarySingleNaN.
From Flocq Require PrimFloat.
Require Import Result F32 C16_Frames C16_Dropout C16_Run.
Local Open Scope R_scope.

Definition fmt := FLT_exp (-1074) 53.
Definition rnd64 (x : R) : R := round radix2 fmt ZnearestE x.
Definition E20 : R := / 1048576.

Lemma rnd64_error x : exists e h, Rabs e <= E20 /\ Rabs h <= E20 /\ rnd64 x = x * (1 + e) + h.
Proof.
  destruct (error_N_FLT radix2 (-1074) 53 ltac:(lia) (fun t => negb (Z.even t)) x) as [e [h [He [Hh [_ Hr]]]]].
  assert (Hb : forall k, (k <= -19)%Z -> bpow radix2 k <= / 524288).
  { intros k Hk. change (/ 524288) with (bpow radix2 (-19)). now apply bpow_le. }
  exists e, h. split; [|split; [|exact Hr]].
  - eapply Rle_trans; [exact He|].
    match goal with |- context [bpow radix2 ?k] => pose proof (Hb k ltac:(discriminate)) as Hk end. unfold E20. lra.
  - eapply Rle_trans; [exact Hh|].
    match goal with |- context [bpow radix2 ?k] => pose proof (Hb k ltac:(discriminate)) as Hk end. unfold E20. lra.
Qed.

Lemma real_cap (n : Z) (c : R) : (1 <= n)%Z -> 0 <= c <= 4095 / 4096 ->
  0 <= rnd64 (IZR n) /\ 0 <= rnd64 (rnd64 (IZR n) * c) < IZR n /\ rnd64 (IZR n) * c <= rnd64 (IZR n).
Proof.
  intros Hn [Hc0 Hc1]. assert (HN : 1 <= IZR n) by (apply IZR_le; exact Hn).
  destruct (rnd64_error (IZR n)) as [e1 [h1 [He1 [Hh1 Hx]]]].
  set (x := rnd64 (IZR n)) in *.
  apply Rabs_le_inv in He1, Hh1. unfold E20 in *.
  assert (Hx0 : 0 <= x) by (rewrite Hx; nra).
  assert (Hx1 : x <= IZR n * (1 + / 1048576) + / 1048576) by (rewrite Hx; nra).
  destruct (rnd64_error (x * c)) as [e2 [h2 [He2 [Hh2 Hy]]]].
  apply Rabs_le_inv in He2, Hh2. unfold E20 in *.
  assert (Hz0 : 0 <= x * c) by nra.
  assert (Hz1 : x * c <= x * (4095 / 4096)) by nra.
  split; [exact Hx0|]. split; [split|nra].
  - unfold rnd64. apply round_ge_generic; [apply FLT_exp_valid; unfold Prec_gt_0; lia|apply valid_rnd_N|apply generic_format_0|exact Hz0].
  - rewrite Hy.
    assert (A1 : x * c * (1 + e2) <= x * c * (1 + / 1048576)) by (apply Rmult_le_compat_l; lra).
    assert (A2 : x * c * (1 + / 1048576) <= x * (4095 / 4096) * (1 + / 1048576)) by (apply Rmult_le_compat_r; lra).
    assert (Hy1 : x * c * (1 + e2) + h2 <= x * (4095 / 4096) * (1 + / 1048576) + / 1048576) by lra.
    eapply Rle_lt_trans; [exact Hy1|].
    assert (x * (4095 / 4096) * (1 + / 1048576) <= (IZR n * (1 + / 1048576) + / 1048576) * (4095 / 4096) * (1 + / 1048576)).
    { apply Rmult_le_compat_r; [lra|]. apply Rmult_le_compat_r; [lra|exact Hx1]. }
    lra.
Qed.

Notation Hp := PrimFloat.Hprec.
Notation Hm := PrimFloat.Hmax.
Notation bf := (binary_float FloatOps.prec FloatOps.emax).

Lemma SFmul_Bmult (x y : bf) :
  SFmul 53 1024 (B2SF x) (B2SF y) = B2SF (Bmult (prec_gt_0_ := Hp) (prec_lt_emax_ := Hm) mode_NE x y).
Proof. destruct x as [sx|sx| |sx mx ex Bx]; destruct y as [sy|sy| |sy my ey By]; try reflexivity.
  simpl. rewrite B2SF_SF2B. apply PrimFloat.binary_round_aux_equiv. Qed.

Lemma trunc_lt (m : positive) (e : Z) (n k : Z) :
  IZR (Zpos m) * bpow radix2 e < IZR n -> sf_trunc (S754_finite false m e) = Some k -> (0 <= k < n)%Z.
Proof. destruct e as [|p|p]; unfold sf_trunc; cbv beta iota zeta; intros H Hk;
  apply (f_equal (fun o => match o with Some z => z | None => 0%Z end)) in Hk; cbv beta iota in Hk; subst k.
  - change (bpow radix2 0) with 1 in H. rewrite Rmult_1_r in H. apply lt_IZR in H. lia.
  - change (bpow radix2 (Z.pos p)) with (IZR (Z.pow_pos 2 p)) in H. rewrite <- mult_IZR in H. apply lt_IZR in H.
    assert (0 < Z.pow_pos 2 p)%Z by (apply Zpower_pos_gt_0; reflexivity).
    assert (0 <= Z.pos m * Z.pow_pos 2 p)%Z by (apply Z.mul_nonneg_nonneg; lia). lia.
  - change (bpow radix2 (Z.neg p)) with (/ IZR (Z.pow_pos 2 p)) in H.
    assert (HD : (0 < Z.pow_pos 2 p)%Z) by (apply Zpower_pos_gt_0; reflexivity). set (D := Z.pow_pos 2 p) in *.
    assert (HDr : 0 < IZR D) by (apply IZR_lt; exact HD).
    pose proof (Z.mul_div_le (Z.pos m) D HD) as H1.
    pose proof (Z.div_pos (Z.pos m) D ltac:(lia) HD) as H3. split; [exact H3|].
    apply lt_IZR. apply IZR_le in H1. rewrite mult_IZR in H1.
    apply Rmult_lt_reg_l with (r := IZR D); [exact HDr|].
    eapply Rle_lt_trans; [exact H1|].
    replace (IZR (Z.pos m)) with (IZR D * (IZR (Z.pos m) * / IZR D)) by (field; lra).
    apply Rmult_lt_compat_l; [exact HDr|exact H]. Qed.

Lemma F2R_int (z : Z) : F2R (Float radix2 z 0) = IZR z.
Proof. unfold F2R. cbn [Fnum Fexp bpow]. ring. Qed.

Lemma cap_safe_all (c : spec_float) (mc : positive) (ec : Z) (Hv : valid_binary FloatOps.prec FloatOps.emax c = true) :
  c = S754_finite false mc ec -> SF2R radix2 c <= 4095 / 4096 ->
  forall n kc, (1 <= n)%nat -> cap_count c n = Ok kc -> (0 <= kc < Z.of_nat n)%Z.
Proof.
  intros Hc Hle n kc Hn. unfold cap_count, int_times_float.
  set (z := Z.of_nat n). assert (Hz : (1 <= z)%Z) by (unfold z; lia).
  unfold sf64_of_Z, sf64_mul.
  change (SpecFloat.binary_normalize 53 1024 z 0 false) with (SpecFloat.binary_normalize FloatOps.prec FloatOps.emax z 0 false).
  rewrite (PrimFloat.binary_normalize_equiv z 0 false).
  set (fB := binary_normalize FloatOps.prec FloatOps.emax Hp Hm mode_NE z 0 false).
  pose proof (binary_normalize_correct FloatOps.prec FloatOps.emax Hp Hm mode_NE z 0 false) as HN.
  cbv zeta in HN. fold fB in HN. rewrite F2R_int in HN.
  change (round radix2 (fexp FloatOps.prec FloatOps.emax) (round_mode mode_NE) (IZR z)) with (rnd64 (IZR z)) in HN.
  assert (Hc0 : 0 <= SF2R radix2 c).
  { rewrite Hc. unfold SF2R. cbn [cond_Zopp]. apply F2R_ge_0. cbn [Fnum]. lia. }
  destruct (real_cap z (SF2R radix2 c) Hz (conj Hc0 Hle)) as [Hx0 [[Hy0 Hy1] Hzc]].
  destruct (Rlt_bool_spec (Rabs (rnd64 (IZR z))) (bpow radix2 FloatOps.emax)) as [Hlt|Hge].
  - destruct HN as [HR [HF HS]].
    assert (Hgt : Rcompare (IZR z) 0 = Gt) by (apply Rcompare_Gt, IZR_lt; lia). rewrite Hgt in HS.
    assert (Hinf : is_inf_sf (B2SF fB) = false) by (destruct fB; try reflexivity; discriminate).
    rewrite Hinf. cbn [rbind].
    set (cB := SF2B c Hv). replace c with (B2SF cB) at 1 by apply B2SF_SF2B.
    assert (HcR : B2R cB = SF2R radix2 c) by apply B2R_SF2B.
    rewrite SFmul_Bmult.
    pose proof (Bmult_correct FloatOps.prec FloatOps.emax Hp Hm mode_NE fB cB) as HM.
    rewrite HR, HcR in HM.
    change (round radix2 (fexp FloatOps.prec FloatOps.emax) (round_mode mode_NE) (rnd64 (IZR z) * SF2R radix2 c))
      with (rnd64 (rnd64 (IZR z) * SF2R radix2 c)) in HM.
    rewrite Rabs_pos_eq in Hlt by exact Hx0.
    rewrite Rlt_bool_true in HM.
    2:{ rewrite Rabs_pos_eq by exact Hy0. eapply Rle_lt_trans; [|exact Hlt].
        unfold rnd64 at 1. apply round_le_generic; [apply FLT_exp_valid; unfold Prec_gt_0; lia|apply valid_rnd_N| |exact Hzc].
        unfold rnd64. apply generic_format_round; [apply FLT_exp_valid; unfold Prec_gt_0; lia|apply valid_rnd_N]. }
    destruct HM as [HyR [HyF HyS]].
    set (yB := Bmult mode_NE fB cB) in *.
    assert (HcB : Bsign cB = false) by (unfold cB; rewrite Bsign_SF2B, Hc; reflexivity).
    rewrite HF in HyF. assert (HcF : is_finite cB = true) by (unfold cB; rewrite is_finite_SF2B, Hc; reflexivity).
    rewrite HcF in HyF. cbn [andb] in HyF.
    assert (Hnan : is_nan yB = false) by (destruct yB; try reflexivity; discriminate).
    specialize (HyS Hnan). rewrite HS, HcB in HyS. cbn [xorb] in HyS.
    unfold py_int. destruct yB as [s|s| |s m e B]; try discriminate.
    + cbn [B2SF sf_trunc]. intros [= <-]. lia.
    + cbn [Bsign] in HyS. subst s. cbn [B2SF]. cbn [B2R cond_Zopp] in HyR.
      destruct (sf_trunc (S754_finite false m e)) as [k|] eqn:Hk; [|discriminate]. intros [= <-].
      apply (trunc_lt m e z k); [|exact Hk]. unfold F2R in HyR. cbn [Fnum Fexp] in HyR. rewrite HyR. exact Hy1.
  - assert (Hinf : is_inf_sf (B2SF fB) = true) by (rewrite HN; reflexivity).
    rewrite Hinf. discriminate.
Qed.

(* c <= 4095/4096, decided on the mantissa / exponent *)
Definition cap_small (c : spec_float) : bool :=
  match c with
  | S754_finite false m e => (e <=? 0)%Z && (Zpos m * 4096 <=? 4095 * 2 ^ (- e))%Z
  | _ => false
  end.
Lemma cap_small_spec m e : cap_small (S754_finite false m e) = true -> SF2R radix2 (S754_finite false m e) <= 4095 / 4096.
Proof. unfold cap_small. intros H. apply andb_true_iff in H. destruct H as [He Hm]. apply Z.leb_le in He, Hm.
  unfold SF2R, F2R. cbn [cond_Zopp Fnum Fexp].
  replace e with (- (- e))%Z by lia. rewrite bpow_opp. rewrite <- IZR_Zpower by lia.
  set (D := (radix2 ^ (- e))%Z) in *.
  assert (HD : (0 < D)%Z) by (unfold D; apply Z.pow_pos_nonneg; [reflexivity|lia]).
  assert (HDr : 0 < IZR D) by (apply IZR_lt; exact HD).
  apply IZR_le in Hm. rewrite !mult_IZR in Hm. change (IZR (2 ^ (- e))) with (IZR D) in Hm.
  apply Rmult_le_reg_r with (r := IZR D); [exact HDr|]. rewrite Rmult_assoc, Rinv_l by lra. lra. Qed.

Lemma cap_c_facts : exists mc ec, cap_c = S754_finite false mc ec /\
  valid_binary FloatOps.prec FloatOps.emax cap_c = true /\ cap_small cap_c = true.
Proof. eexists. eexists. split; [reflexivity|]. split; vm_compute; reflexivity. Qed.
Lemma cap_safe_every_n n kc : (1 <= n)%nat -> cap_count cap_c n = Ok kc -> (0 <= kc < Z.of_nat n)%Z.
Proof. destruct cap_c_facts as [mc [ec [Hc [Hv Hs]]]]. intros Hn.
  apply (cap_safe_all cap_c mc ec Hv Hc); [|exact Hn]. rewrite Hc in Hs |- *. now apply cap_small_spec. Qed.
Lemma keeps_one_every_n {A} be (b : body A) d s r kept :
  (1 <= frames b)%nat -> possible_draw cap_c (frames b) (fraction d) s ->
  dropout cap_c be b d s = Ok (r, kept) -> (1 <= length kept)%nat.
Proof. intros Hn Hp H. destruct (dropped_count _ _ _ _ _ _ _ Hp H) as [a [kc [_ [Hc _]]]].
  apply (keeps_one_if_cap_ok cap_c be b d s r kept); [|exact Hp|exact H].
  exists kc. split; [exact Hc|]. now apply cap_safe_every_n. Qed.
