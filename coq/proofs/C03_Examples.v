(* Non-vacuity of the C03 theorems: a concrete 3-frame file and concrete windows meeting every hypothesis. *)
From Coq Require Import ZArith NArith List Lia Bool.
Require Import ListN Result Bytes Utf8 Utf8S F32 Prog Codec ProgLemmas CodecRT PoseRead PoseReadLemmas WindowLemmas StreamRead C03_Window.
Import ListNotations.
Open Scope N_scope.

Definition ex3 : wpose :=
  {| w_dims := (10, 20, 0)%Z;
     w_comps := [ {| wc_name := [66]; wc_format := [88; 89; 67]; wc_points := [[97]; [98]];
                     wc_limbs := [(0, 1)%Z]; wc_colors := [(1, 2, 3)%Z] |} ];
     w_fps := 4629137466983448576;              (* 30.0 *)
     w_shape := [3; 1; 2; 2];
     w_data := [4607182418800017408; 4611686018427387904; 4613937818241073152; 4616189618054758400;
                4617315517961601024; 4618441417868443648; 4619567317775286272; 4620693217682128896;
                4621256167635550208; 4621819117588971520; 4622382067542392832; 4622945017495814144];
     w_cshape := [3; 1; 2];
     w_conf := [4607182418800017408; 0; 4607182418800017408; 4607182418800017408; 0; 4607182418800017408] |}.
Definition ex3_frames : rargs := {| a_sf := Some 1%Z; a_st := None; a_ef := Some 2%Z; a_et := None |}.
Definition ex3_times : rargs := {| a_sf := None; a_st := Some 34%Z; a_ef := None; a_et := Some 66%Z |}.
Lemma ex3_written : exists bs, write_pose ex3 = Ok bs.
Proof. eexists. vm_compute. reflexivity. Qed.
Lemma ex3_wf : wf_arrays ex3 /\ 1 <= nth 3 (w_shape ex3) 0.
Proof. split; [split; reflexivity|]. cbn. lia. Qed.
Lemma ex3_frames_hyps :
  any_arg ex3_frames = true /\
  conflict (a_sf ex3_frames) (a_st ex3_frames) = false /\ conflict (a_ef ex3_frames) (a_et ex3_frames) = false /\
  resolve_start (fps_word ex3) (a_sf ex3_frames) (a_st ex3_frames) = Ok (Some 1%Z) /\
  resolve_end (fps_word ex3) (a_ef ex3_frames) (a_et ex3_frames) = Ok (Some 2%Z) /\
  valid_window ex3 (Some 1%Z) (Some 2%Z).
Proof.
  split; [reflexivity|]. split; [reflexivity|]. split; [reflexivity|]. split; [reflexivity|]. split; [reflexivity|].
  unfold valid_window. vm_compute. split; [right; reflexivity|intros E; discriminate].
Qed.
(* 34 ms * 30 fps = 1.02 -> floor 1 ; 66 ms * 30 fps = 1.98 -> ceil 2 : the same window given in time *)
Lemma ex3_times_hyps :
  conflict (a_sf ex3_times) (a_st ex3_times) = false /\ conflict (a_ef ex3_times) (a_et ex3_times) = false /\
  resolve_start (fps_word ex3) (a_sf ex3_times) (a_st ex3_times) = Ok (Some 1%Z) /\
  resolve_end (fps_word ex3) (a_ef ex3_times) (a_et ex3_times) = Ok (Some 2%Z).
Proof. repeat split; vm_compute; reflexivity. Qed.
Lemma ex3_conflict : conflict (Some 1%Z) (Some 10%Z) || conflict None None = true.
Proof. reflexivity. Qed.
Lemma ex3_beyond : resolve_start (fps_word ex3) (Some 3%Z) None = Ok (Some 3%Z) /\ (0 < 3)%Z /\ (frames_of ex3 <= 3)%Z.
Proof. repeat split; vm_compute; try reflexivity; intros E; discriminate. Qed.
