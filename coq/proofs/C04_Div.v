(* int(a / b) of Python ints (C04_Legacy.py_int_truediv, i.e. SpecFloat's correctly rounded SFdiv followed by
   truncation) returns the exact quotient when b divides a and the quotient is below 2^53: the frame count of a
   v0.1 file whose payload is a whole number of frames. *)
From Coq Require Import ZArith NArith List Lia ZifyBool Bool SpecFloat.
Require Import Result C04_Legacy.
Open Scope Z_scope.

Lemma digits2_size p : digits2_pos p = Pos.size p.
Proof. induction p as [p IH|p IH|]; cbn [digits2_pos Pos.size]; now rewrite ?IH. Qed.
Lemma Zdigits2_log2 p : Zdigits2 (Z.pos p) = Z.log2 (Z.pos p) + 1.
Proof.
  cbn [Zdigits2]. rewrite digits2_size. destruct p as [p|p|]; cbn [Z.log2 Pos.size]; try lia. 
Qed.

Definition fexp64 := fexp 53 1024.
Lemma fexp64_eq e : fexp64 e = Z.max (e - 53) (-1074).
Proof. reflexivity. Qed.

(* rounding an exact value that already has 53 digits, or 54 digits and is even *)
Lemma bra_exact_53 sx (m : positive) e :
  Zdigits2 (Z.pos m) = 53 -> -1074 <= e <= 971 ->
  binary_round_aux 53 1024 sx (Z.pos m) e loc_Exact = S754_finite sx m e.
Proof.
  intros Hd He. unfold binary_round_aux, shr_fexp. rewrite Hd.
  replace (fexp 53 1024 (53 + e) - e) with 0 by (change (fexp 53 1024) with fexp64; rewrite fexp64_eq; lia).
  cbn [shr shr_record_of_loc shr_m loc_of_shr_record shr_r shr_s round_nearest_even].
  rewrite Hd.
  replace (fexp 53 1024 (53 + e) - e) with 0 by (change (fexp 53 1024) with fexp64; rewrite fexp64_eq; lia).
  cbn [shr shr_record_of_loc shr_m].
  destruct (Zle_bool e (1024 - 53)) eqn:E; [reflexivity|]. apply Z.leb_gt in E. lia.
Qed.
Lemma bra_exact_54 sx (m : positive) e :
  Zdigits2 (Z.pos m~0) = 54 -> -1075 <= e <= 970 ->
  binary_round_aux 53 1024 sx (Z.pos m~0) e loc_Exact = S754_finite sx m (e + 1).
Proof.
  intros Hd He.
  assert (Hd1 : Zdigits2 (Z.pos m) = 53).
  { cbn [Zdigits2 digits2_pos] in Hd |- *. lia. }
  unfold binary_round_aux, shr_fexp. rewrite Hd.
  replace (fexp 53 1024 (54 + e) - e) with 1 by (change (fexp 53 1024) with fexp64; rewrite fexp64_eq; lia).
  cbn [shr shr_record_of_loc iter_pos shr_1 orb shr_m loc_of_shr_record round_nearest_even].
  rewrite Hd1.
  replace (fexp 53 1024 (53 + (e + 1)) - (e + 1)) with 0 by (change (fexp 53 1024) with fexp64; rewrite fexp64_eq; lia).
  cbn [shr shr_record_of_loc shr_m].
  destruct (Zle_bool (e + 1) (1024 - 53)) eqn:E; [reflexivity|]. apply Z.leb_gt in E. lia.
Qed.

Lemma shift_match (a s : Z) : 0 <= s ->
  match s with Z.pos _ => Z.shiftl a s | Z0 => a | Z.neg _ => 0 end = a * 2 ^ s.
Proof. intros Hs. destruct s as [|p|p]; [cbn; lia| |lia]. now rewrite Z.shiftl_mul_pow2 by lia. Qed.

Lemma div_core_exact (f b : positive) :
  Z.pos f < 2 ^ 53 ->
  let s := 53 - (Zdigits2 (Z.pos (f * b)) - Zdigits2 (Z.pos b)) in
  0 <= s /\
  SFdiv_core_binary 53 1024 (Z.pos (f * b)) 0 (Z.pos b) 0 = (Z.pos f * 2 ^ s, - s, loc_Exact).
Proof.
  intros Hf s.
  assert (Hlf : Z.log2 (Z.pos f) < 53) by (apply Z.log2_lt_pow2; lia).
  pose proof (Z.log2_mul_below (Z.pos f) (Z.pos b) ltac:(lia) ltac:(lia)) as Hlo.
  pose proof (Z.log2_mul_above (Z.pos f) (Z.pos b) ltac:(lia) ltac:(lia)) as Hhi.
  pose proof (Z.log2_nonneg (Z.pos f)) as Hf0.
  assert (Hs : 0 <= s).
  { unfold s. rewrite !Zdigits2_log2. rewrite Pos2Z.inj_mul. lia. }
  split; [exact Hs|].
  unfold SFdiv_core_binary.
  replace (Zdigits2 (Z.pos (f * b)) + 0 - (Zdigits2 (Z.pos b) + 0)) with (53 - s) by (unfold s; lia).
  replace (Z.min (fexp 53 1024 (53 - s)) (0 - 0)) with (- s).
  2:{ change (fexp 53 1024) with fexp64. rewrite fexp64_eq.
      assert (s <= 54) by (unfold s; rewrite !Zdigits2_log2, Pos2Z.inj_mul; lia). lia. }
  replace (0 - 0 - - s) with s by lia.
  rewrite shift_match by exact Hs.
  assert (Hq : Z.div_eucl (Z.pos (f * b) * 2 ^ s) (Z.pos b) = (Z.pos f * 2 ^ s, 0)).
  { pose proof (Z.div_eucl_eq (Z.pos (f * b) * 2 ^ s) (Z.pos b) ltac:(lia)) as He.
    pose proof (Z.mod_pos_bound (Z.pos (f * b) * 2 ^ s) (Z.pos b) ltac:(lia)) as Hb.
    unfold Z.modulo in Hb.
    destruct (Z.div_eucl (Z.pos (f * b) * 2 ^ s) (Z.pos b)) as [q r]. cbn [fst snd] in *.
    assert (E : Z.pos (f * b) * 2 ^ s = Z.pos b * (Z.pos f * 2 ^ s)) by (rewrite Pos2Z.inj_mul; ring).
    assert (Hr : r = Z.pos b * (Z.pos f * 2 ^ s - q)) by (rewrite Z.mul_sub_distr_l, <- E; lia).
    assert (Hz : Z.pos f * 2 ^ s - q = 0) by nia.
    f_equal; [lia|]. rewrite Hr, Hz. lia. }
  rewrite Hq. unfold new_location, new_location_even, new_location_odd. cbn [Zeq_bool Z.compare].
  destruct (Z.even (Z.pos b)); reflexivity.
Qed.

Lemma trunc_scaled (m : positive) (F k : Z) : 0 <= k -> Z.pos m = F * 2 ^ k ->
  sf_trunc (S754_finite false m (- k)) = Some F.
Proof.
  intros Hk Hm. unfold sf_trunc.
  destruct k as [|p|p]; [|cbn [Z.opp]|lia].
  - cbn [Z.opp]. f_equal. rewrite Hm. cbn. lia.
  - f_equal. rewrite Hm. rewrite Z.pow_pos_fold. apply Z.div_mul. apply Z.pow_nonzero; lia.
Qed.

Theorem py_int_truediv_exact (F b : Z) : 0 <= F < 2 ^ 53 -> 0 < b -> py_int_truediv (F * b) b = Ok F.
Proof.
  intros HF Hb. unfold py_int_truediv.
  destruct (Z.eqb_spec b 0) as [|_]; [lia|].
  destruct b as [|pb|pb]; try lia.
  destruct F as [|pf|pf]; try lia.
  - reflexivity.
  - change (Z.pos pf * Z.pos pb) with (Z.pos (pf * pb)). cbn [sf_of_int SFdiv xorb].
    destruct (div_core_exact pf pb) as [Hs Hcore]; [lia|]. cbv zeta in Hs, Hcore. rewrite Hcore.
    set (s := 53 - (Zdigits2 (Z.pos (pf * pb)) - Zdigits2 (Z.pos pb))) in *.
    assert (Hlf : Z.log2 (Z.pos pf) < 53) by (apply Z.log2_lt_pow2; lia).
    pose proof (Z.log2_nonneg (Z.pos pf)) as Hf0.
    pose proof (Z.log2_mul_below (Z.pos pf) (Z.pos pb) ltac:(lia) ltac:(lia)) as Hlo.
    pose proof (Z.log2_mul_above (Z.pos pf) (Z.pos pb) ltac:(lia) ltac:(lia)) as Hhi.
    assert (Hsv : s = 53 - (Z.log2 (Z.pos pf * Z.pos pb) - Z.log2 (Z.pos pb)))
      by (unfold s; rewrite !Zdigits2_log2, Pos2Z.inj_mul; lia).
    assert (Hpow : 0 < 2 ^ s) by (apply Z.pow_pos_nonneg; lia).
    destruct (Z.pos pf * 2 ^ s) as [|q|q] eqn:Hq; try lia.
    assert (Hdq : Zdigits2 (Z.pos q) = Z.log2 (Z.pos pf) + 1 + s).
    { rewrite Zdigits2_log2, <- Hq, Z.log2_mul_pow2 by lia. lia. }
    assert (Hcase : s = 53 - (Z.log2 (Z.pos pf) + 1) \/ s = 54 - (Z.log2 (Z.pos pf) + 1)) by lia.
    destruct Hcase as [Hc|Hc].
    + rewrite bra_exact_53 by lia. rewrite (trunc_scaled q (Z.pos pf) s) by (lia || (symmetry; exact Hq)). reflexivity.
    + (* one digit too many: q is even *)
      assert (Hs1 : 1 <= s) by lia.
      assert (Hev : Z.pos q = 2 * (Z.pos pf * 2 ^ (s - 1))).
      { rewrite <- Hq. replace s with (1 + (s - 1)) at 1 by lia. rewrite Z.pow_add_r by lia. ring. }
      destruct q as [q'|q'|]; [lia| |lia].
      rewrite bra_exact_54 by lia.
      replace (- s + 1) with (- (s - 1)) by lia.
      rewrite (trunc_scaled q' (Z.pos pf) (s - 1)); [reflexivity|lia|lia].
Qed.
