(* C18: (a) without the lock the statement is false - two witnesses that switch threads only at line
   boundaries; (b) line-level runs are runs; (c) the reference [result_alone] is what the thread model itself
   returns when it runs alone, and for plain readers the pose built from it is Pose.read of PoseRead.v;
   (d) non-vacuity examples. *)
From Coq Require Import ZArith NArith List Lia Bool.
Require Import ListN Result Bytes Prog Codec PoseRead ProgLemmas C18_Threads C18_Bytes C18_Local C18_Inv.
Import ListNotations.
Open Scope N_scope.

(* three tiny files: version 0.2, dimensions, component count [, one empty component] - headers only *)
Definition fileA : bytes := [205; 204; 76; 62;  1; 0; 1; 0; 0; 0;  0; 0].
Definition fileB : bytes := [205; 204; 76; 62;  2; 0; 1; 0; 0; 0;  0; 0].
Definition fileC : bytes := [205; 204; 76; 62;  1; 0; 1; 0; 0; 0;  1; 0;  0; 0; 0; 0; 0; 0; 0; 0; 0; 0].
Definition jb (f : bytes) : job := {| j_stream := false; j_file := f; j_args := no_args |}.
Definition pf0 := prefetch 10240 100.

(* thread 0 (file A, memo warm with A) passes the hash comparison (pose_header.py:248/241); thread 1 reads
   file B completely, storing B's header; thread 0 resumes at line 249 and returns B's header *)
Definition sched_foreign_header : list nat := [0; 0; 0; 0;  1; 1; 1; 1; 1; 1; 1; 1; 1;  0; 0]%nat.
(* ... or thread 0 is resumed at line 323 after thread 1 stored C's end offset: own header, C's offset *)
Definition sched_foreign_offset : list nat := [0; 0; 0; 0; 0;  1; 1; 1; 1; 1; 1; 1; 1; 1;  0]%nat.

Lemma refuted_foreign_header :
  let st := lrun pf0 false [jb fileA; jb fileB] sched_foreign_header (init [jb fileA; jb fileB] (memo_after fileA)) in
  complete st = true /\ result_of st 0 <> Some (result_alone (jb fileA)) /\
  result_of st 0 = Some (result_alone (jb fileB)).
Proof. vm_compute. split; [reflexivity|]. split; [intros H; discriminate H|reflexivity]. Qed.

Lemma refuted_foreign_offset :
  let st := lrun pf0 false [jb fileA; jb fileC] sched_foreign_offset (init [jb fileA; jb fileC] (memo_after fileA)) in
  complete st = true /\ result_of st 0 <> Some (result_alone (jb fileA)) /\
  (exists h, result_of st 0 = Some (ROk h 22) /\ result_alone (jb fileA) = ROk h 12).
Proof. vm_compute. split; [reflexivity|]. split; [intros H; discriminate H|]. eexists. split; reflexivity. Qed.

Theorem isolated_refuted_unlocked :
  exists pf jobs m0 lsched, Good m0 /\
    let st := lrun pf false jobs lsched (init jobs m0) in
    complete st = true /\ exists t j, nth_error jobs t = Some j /\ result_of st t <> Some (result_alone j).
Proof.
  exists pf0, [jb fileA; jb fileB], (memo_after fileA), sched_foreign_header.
  split; [apply good_memo_after|].
  destruct refuted_foreign_header as (Hc & Hne & _).
  split; [exact Hc|]. exists 0%nat, (jb fileA). split; [reflexivity|exact Hne].
Qed.

(* the very same schedules are harmless with the lock *)
Example locked_same_schedules :
  let st1 := lrun pf0 true [jb fileA; jb fileB] (sched_foreign_header ++ [0; 1; 0; 1; 1; 1; 1; 1; 1; 1; 1; 1; 1; 1; 1; 1]%nat)
               (init [jb fileA; jb fileB] (memo_after fileA)) in
  complete st1 = true /\ result_of st1 0 = Some (result_alone (jb fileA)) /\ result_of st1 1 = Some (result_alone (jb fileB)).
Proof. vm_compute. repeat split. Qed.

(* ---------- (b) a line-level run is a run ---------- *)
Section LineLevel.
Variable pf : option N -> N.
Variable locked : bool.
Variable jobs : list job.

Lemma run_app s1 s2 st : run pf locked jobs (s1 ++ s2) st = run pf locked jobs s2 (run pf locked jobs s1 st).
Proof. unfold run. apply fold_left_app. Qed.

Lemma to_line_run t fuel : forall st, exists k, to_line pf locked fuel jobs t st = run pf locked jobs (repeat t k) st.
Proof.
  induction fuel as [|f IH]; intros st; cbn [to_line]; [exists 0%nat; reflexivity|].
  destruct (nth_error (st_pcs st) t) as [p|]; [|exists 0%nat; reflexivity].
  destruct (line_start p); [exists 0%nat; reflexivity|].
  destruct (IH (step pf locked jobs t st)) as [k Hk]. exists (S k). rewrite Hk. reflexivity.
Qed.

Lemma lrun_is_run lsched : forall st, exists sched, lrun pf locked jobs lsched st = run pf locked jobs sched st.
Proof.
  induction lsched as [|t r IH]; intros st; [exists []; reflexivity|].
  unfold lrun. cbn [fold_left]. fold (lrun pf locked jobs r (lstep pf locked jobs t st)).
  destruct (IH (lstep pf locked jobs t st)) as [s' Hs']. rewrite Hs'.
  unfold lstep. destruct (to_line_run t 3 (step pf locked jobs t st)) as [k Hk]. rewrite Hk.
  exists ((t :: repeat t k) ++ s'). rewrite run_app. reflexivity.
Qed.
End LineLevel.

Theorem isolated_line_level pf jobs m0 lsched : Good m0 ->
  let st := lrun pf true jobs lsched (init jobs m0) in
  complete st = true ->
  forall t j, nth_error jobs t = Some j -> result_of st t = Some (result_alone j).
Proof.
  intros G st. subst st. destruct (lrun_is_run pf true jobs lsched (init jobs m0)) as [sched ->].
  exact (isolated_locked pf jobs m0 sched G).
Qed.

Corollary isolated_refuted_fine_grained :
  exists pf jobs m0 sched, Good m0 /\
    let st := run pf false jobs sched (init jobs m0) in
    complete st = true /\ exists t j, nth_error jobs t = Some j /\ result_of st t <> Some (result_alone j).
Proof.
  destruct isolated_refuted_unlocked as (pf & jobs & m0 & ls & G & H).
  destruct (lrun_is_run pf false jobs ls (init jobs m0)) as [sched E]. cbv zeta in H. rewrite E in H.
  exists pf, jobs, m0, sched. split; [exact G|exact H].
Qed.

(* ---------- (c) the reference is the model's own solo run ---------- *)
Lemma step_single pf j s p :
  step pf true [j] 0 {| st_sh := s; st_pcs := [p] |} =
  {| st_sh := fst (tstep pf true j 0 p s); st_pcs := [snd (tstep pf true j 0 p s)] |}.
Proof. unfold step. cbn [nth_error st_pcs st_sh]. destruct (tstep pf true j 0 p s). reflexivity. Qed.

Theorem alone_run pf j :
  let st := run pf true [j] (repeat 0%nat 13) (init [j] g_empty) in
  complete st = true /\ result_of st 0 = Some (result_alone j).
Proof.
  assert (Hc : complete (run pf true [j] (repeat 0%nat 13) (init [j] g_empty)) = true).
  { unfold run, init. cbn [repeat fold_left map]. rewrite !step_single.
    cbn [tstep fst snd sh_memo sh_lock g_end g_hash g_empty].
    destruct (lookup_buffer pf j None) as [b|e]; cbn [tstep fst snd sh_memo sh_lock g_end g_hash g_empty with_lock miss];
      [|reflexivity].
    unfold after_miss. destruct (parse_own j b) as [[[h e] b']|e]; cbn [tstep fst snd sh_memo sh_lock with_lock with_memo]; reflexivity. }
  cbv zeta. split; [exact Hc|].
  exact (isolated_locked pf [j] g_empty (repeat 0%nat 13) good_empty Hc 0%nat j eq_refl).
Qed.

(* results up to the class of the exception *)
Definition req {A} (a b : result A) : Prop :=
  match a, b with Ok x, Ok y => x = y | Err _, Err _ => True | _, _ => False end.

(* for a plain reader the pose decoded from [result_alone] is Pose.read of the sequential model, empty memo *)
Lemma pose_from_alone j :
  req (pose_from j (result_alone j)) (fst (read_bytes no_legacy None (j_file j) (j_args j))).
Proof.
  unfold result_alone, parse, read_bytes. cbn [check_cache].
  destruct (run_plain rd_header {| pbuf := j_file j; poff := 0 |}) as [[h r]|e] eqn:E; cbn [pose_from fst]; [|exact I].
  pose proof (run_plain_buf _ _ _ _ E) as Hb. cbn [pbuf] in Hb. destruct r as [pb po]. cbn [pbuf poff] in *. subst pb.
  unfold read_body.
  destruct (run_plain (read_body_with no_legacy h (j_args j)) {| pbuf := j_file j; poff := po |}) as [[b r']|e']; cbn [rmap req]; [reflexivity|exact I].
Qed.

Theorem isolated_pose_plain pf jobs m0 sched : Good m0 ->
  let st := run pf true jobs sched (init jobs m0) in
  complete st = true ->
  forall t j, nth_error jobs t = Some j ->
  exists r, result_of st t = Some r /\
            req (pose_from j r) (fst (read_bytes no_legacy None (j_file j) (j_args j))).
Proof.
  intros G st Hc t j Hj. exists (result_alone j). split; [exact (isolated_locked pf jobs m0 sched G Hc t j Hj)|apply pose_from_alone].
Qed.

(* ---------- (d) non-vacuity ---------- *)
Example good_nonempty : Good (memo_after fileA) /\ g_hash (memo_after fileA) <> None.
Proof. split; [apply good_memo_after|]. vm_compute. discriminate. Qed.
Example alone_distinct : result_alone (jb fileA) <> result_alone (jb fileB) /\ result_alone (jb fileA) <> RFail.
Proof. vm_compute. split; intros H; discriminate H. Qed.
(* three threads (a hit, two misses with different header lengths), an interleaved complete schedule *)
Example isolated_nonvacuous :
  let jobs := [jb fileA; jb fileC; jb fileB] in
  let sched := concat (repeat [0; 1; 2; 2; 1; 0; 1] 20)%nat in
  complete (run pf0 true jobs sched (init jobs (memo_after fileA))) = true.
Proof. vm_compute. reflexivity. Qed.
