(* C20 - type dispatch and recursion: tensors reach pad_tensors, integers become one int64 tensor,
   strings pass through in order, dictionaries (nested to any depth) and tuples are collated per field. *)
From Coq Require Import List ZArith Arith Bool Lia.
Require Import Result Tensor C20_Collate C20_Spec C20_Pad C20_Rows.
Import ListNotations.

Lemma rmapM_Forall2 {A B} (f : A -> result B) l : forall l', rmapM f l = Ok l' -> Forall2 (fun x y => f x = Ok y) l l'.
Proof.
  induction l as [|a l IH]; intros l' H; cbn [rmapM] in H.
  - inversion H. constructor.
  - destruct (f a) as [b|e] eqn:Ea; cbn [rbind] in H; [|discriminate].
    destruct (rmapM f l) as [bs|e] eqn:El; cbn [rbind] in H; [|discriminate].
    inversion H; subst. constructor; [exact Ea|now apply IH].
Qed.
Lemma Forall2_rmapM {A B} (f : A -> result B) l l' : Forall2 (fun x y => f x = Ok y) l l' -> rmapM f l = Ok l'.
Proof. induction 1 as [|a b l l' Hab _ IH]; cbn [rmapM]; [reflexivity|]. now rewrite Hab, IH. Qed.
Lemma Forall2_join {A B C} (R : A -> B -> Prop) (S : A -> C -> Prop) (T : B -> C -> Prop) l :
  (forall x y z, R x y -> S x z -> T y z) -> forall a b, Forall2 R l a -> Forall2 S l b -> Forall2 T a b.
Proof.
  intros H. induction l as [|x l IH]; intros a b Ha Hb; inversion Ha; inversion Hb; subst; constructor.
  - eapply H; eassumption.
  - now apply IH.
Qed.

(* ---- tensors *)
Theorem collate_field_tensors d rest pv xs :
  rmapM as_tl (d :: rest) = Ok xs -> collate_t d rest pv = pad_tensors xs pv.
Proof.
  intros H. destruct d; try (cbn [rmapM as_tl rbind] in H; discriminate H); cbn [collate_t]; now rewrite H.
Qed.

(* ---- integers: one int64 tensor of the batch size, values in order *)
Theorem ints_one_integer_tensor z zs pv :
  Forall (fun n => in_i64 n = true) (z :: zs) ->
  collate_t (VInt z) (map VInt zs) pv = Ok (OPlain DI64 (mkT [length (z :: zs)] (z :: zs))).
Proof.
  intros HF. cbn [collate_t].
  change (VInt z :: map VInt zs) with (map VInt (z :: zs)).
  rewrite (rmapM_ok as_int (fun v => match v with VInt n => n | _ => 0%Z end)).
  - cbn [rbind]. rewrite map_map, map_id, !map_length. reflexivity.
  - intros v Hv. apply in_map_iff in Hv. destruct Hv as (n & <- & Hn). rewrite Forall_forall in HF.
    cbn [as_int]. now rewrite (HF n Hn).
Qed.

(* ---- strings: the batch itself, in order (as a field and as the whole example) *)
Theorem strings_passed_through_in_order s rest pv :
  collate_t (VStr s) rest pv = Ok (OList (VStr s :: rest)) /\
  zero_pad_collator (VStr s :: rest) = Ok (OList (VStr s :: rest)).
Proof. split; reflexivity. Qed.

(* ---- dictionaries *)
Lemma collate_dict kvs rest pv :
  collate_t (VDict kvs) rest pv = rmap ODict (collate_fields (fun v vs => collate_t v vs 0%Z) rest kvs).
Proof. reflexivity. Qed.

Lemma fields_assoc f rest kvs : forall os, collate_fields f rest kvs = Ok os ->
  map fst os = map fst kvs /\
  forall k v, assoc k kvs = Some v ->
    exists vs o, rmapM (field k) rest = Ok vs /\ f v vs = Ok o /\ assoc k os = Some o.
Proof.
  induction kvs as [|[k0 v0] kvs IH]; intros os H; cbn [collate_fields] in H.
  - inversion H. split; [reflexivity|]. intros k v Hk. discriminate Hk.
  - destruct (rmapM (field k0) rest) as [vs0|e] eqn:E0; cbn [rbind] in H; [|discriminate].
    destruct (f v0 vs0) as [o0|e] eqn:E1; cbn [rbind] in H; [|discriminate].
    destruct (collate_fields f rest kvs) as [os'|e] eqn:E2; cbn [rbind] in H; [|discriminate].
    inversion H; subst. destruct (IH os' eq_refl) as [IHk IHa]. split.
    + cbn [map fst]. now rewrite IHk.
    + intros k v Hk. cbn [assoc] in Hk |- *. destruct (list_eq_dec Z.eq_dec k k0) as [->|Hne].
      * inversion Hk; subst. exists vs0, o0. repeat split; assumption.
      * now apply IHa.
Qed.

Theorem dict_fields kvs rest pv o :
  collate_t (VDict kvs) rest pv = Ok o ->
  exists os, o = ODict os /\ map fst os = map fst kvs /\
    forall k v, assoc k kvs = Some v ->
      exists vs ok, rmapM (field k) rest = Ok vs /\ collate_t v vs 0%Z = Ok ok /\ assoc k os = Some ok.
Proof.
  rewrite collate_dict. intros H.
  destruct (collate_fields (fun v vs => collate_t v vs 0%Z) rest kvs) as [os|e] eqn:E; cbn [rmap] in H; [|discriminate].
  inversion H; subst. exists os. split; [reflexivity|]. exact (fields_assoc _ _ _ _ E).
Qed.

Theorem nested_dicts p : forall d rest o leaf leaves,
  p <> [] -> collate_t d rest 0%Z = Ok o ->
  get_path p d = Some leaf -> Forall2 (fun b l => get_path p b = Some l) rest leaves ->
  exists o', out_path p o = Some o' /\ collate_t leaf leaves 0%Z = Ok o'.
Proof.
  induction p as [|k p IH]; intros d rest o leaf leaves Hne Hc Hd Hr; [congruence|].
  cbn [get_path] in Hd. destruct d as [| | | |kvs| |]; try discriminate Hd.
  destruct (assoc k kvs) as [v|] eqn:Ek; [|discriminate Hd].
  destruct (dict_fields _ _ _ _ Hc) as (os & -> & _ & Hf).
  destruct (Hf k v Ek) as (vs & ok & Hvs & Hok & Hos).
  cbn [out_path]. rewrite Hos.
  assert (Hleaves : Forall2 (fun x l => get_path p x = Some l) vs leaves).
  { apply rmapM_Forall2 in Hvs. refine (Forall2_join _ _ _ rest _ vs leaves Hvs Hr).
    intros b x l Hb Hl. cbn [get_path] in Hl. unfold field in Hb.
    destruct b as [| | | |kb| |]; try discriminate Hb. destruct (assoc k kb); [|discriminate Hb]. now inversion Hb; subst. }
  destruct p as [|k' p'].
  - cbn [get_path out_path] in *. inversion Hd; subst. exists ok. split; [reflexivity|].
    assert (vs = leaves) as ->; [|exact Hok].
    clear -Hleaves. induction Hleaves as [|x l vs leaves Hx Hrest IHl]; [reflexivity|]. f_equal; [now inversion Hx|exact IHl].
  - apply (IH v vs ok leaf leaves); [congruence|exact Hok|exact Hd|exact Hleaves].
Qed.

(* zero_pad_collator on dictionaries is the dictionary case of collate_tensors with the default pad value *)
Lemma zpc_dict kvs rest : zero_pad_collator (VDict kvs :: rest) = collate_t (VDict kvs) rest 0%Z.
Proof. reflexivity. Qed.

Lemma good_batch_zero masked tail xs : xs <> [] -> Forall (good masked tail) xs -> good_batch masked tail 0%Z xs.
Proof. intros Hne HG. repeat split; [exact Hne|exact HG|]. apply Forall_forall. intros x _. apply pad_zero. Qed.

(* end to end: a tensor field at any depth of a batch of dictionaries is collated to exactly [spec_out] *)
Theorem zpc_nested_tensor_field p d rest o leaf leaves xs masked tail :
  p <> [] -> zero_pad_collator (d :: rest) = Ok o ->
  get_path p d = Some leaf -> Forall2 (fun b l => get_path p b = Some l) rest leaves ->
  rmapM as_tl (leaf :: leaves) = Ok xs -> Forall (good masked tail) xs ->
  out_path p o = Some (spec_out masked tail 0%Z xs).
Proof.
  intros Hne Hz Hd Hr Hxs HG.
  assert (Hc : collate_t d rest 0%Z = Ok o).
  { destruct p as [|k p]; [congruence|]. cbn [get_path] in Hd. destruct d; try discriminate Hd. exact Hz. }
  destruct (nested_dicts p d rest o leaf leaves Hne Hc Hd Hr) as (o' & Ho' & Hl).
  rewrite Ho'. f_equal. rewrite (collate_field_tensors _ _ _ _ Hxs) in Hl.
  apply (pad_tensors_spec masked tail 0%Z xs o'); [|exact Hl].
  apply good_batch_zero; [|exact HG]. intros ->. destruct leaf; cbn [rmapM as_tl rbind] in Hxs; try discriminate Hxs;
    destruct (rmapM as_tl leaves); cbn [rbind] in Hxs; discriminate Hxs.
Qed.

(* ---- tuples *)
Lemma tuple_go_spec rest ds : forall i0 os, tuple_go i0 ds rest = Ok os ->
  length os = length ds /\
  forall i di, nth_error ds i = Some di ->
    exists vs oi, rmapM (tuple_item (i0 + i)) rest = Ok vs /\ collate_t di vs 0%Z = Ok oi /\ nth_error os i = Some oi.
Proof.
  induction ds as [|d0 ds IH]; intros i0 os H; cbn [tuple_go] in H.
  - inversion H. split; [reflexivity|]. intros i di Hi. destruct i; discriminate Hi.
  - destruct (rmapM (tuple_item i0) rest) as [vs0|e] eqn:E0; cbn [rbind] in H; [|discriminate].
    destruct (collate_t d0 vs0 0%Z) as [o0|e] eqn:E1; cbn [rbind] in H; [|discriminate].
    destruct (tuple_go (S i0) ds rest) as [os'|e] eqn:E2; cbn [rbind] in H; [|discriminate].
    inversion H; subst. destruct (IH (S i0) os' E2) as [IHl IHn]. split; [cbn [length]; now rewrite IHl|].
    intros i di Hi. destruct i as [|i]; cbn [nth_error] in Hi |- *.
    + inversion Hi; subst. rewrite Nat.add_0_r. exists vs0, o0. repeat split; assumption.
    + destruct (IHn i di Hi) as (vs & oi & Hv & Hc & Hn). exists vs, oi. rewrite <- Nat.add_succ_comm. repeat split; assumption.
Qed.
Theorem tuple_fields ds rest o :
  zero_pad_collator (VTuple ds :: rest) = Ok o ->
  exists os, o = OTuple os /\ length os = length ds /\
    forall i di, nth_error ds i = Some di ->
      exists vs oi, rmapM (tuple_item i) rest = Ok vs /\ collate_t di vs 0%Z = Ok oi /\ nth_error os i = Some oi.
Proof.
  cbn [zero_pad_collator]. intros H. destruct (tuple_go 0 ds rest) as [os|e] eqn:E; cbn [rmap] in H; [|discriminate].
  inversion H; subst. exists os. split; [reflexivity|]. exact (tuple_go_spec rest ds 0 os E).
Qed.

(* a top-level masked tensor is collated like a field, with the default pad value *)
Theorem zpc_masked dt t m rest : zero_pad_collator (VMasked dt t m :: rest) = collate_t (VMasked dt t m) rest 0%Z.
Proof. reflexivity. Qed.
