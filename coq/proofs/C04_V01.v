(* v0.1: a reference-encoded file decodes to the values stored in it - every frame (the count comes from the
   payload size, the 16-bit field is ignored) or the requested frame window - from bytes and from a stream. *)
From Coq Require Import ZArith NArith List Lia ZifyBool ZifyN ZifyNat Bool.
Require Import ListN Result Bytes Utf8 Utf8S F32 Prog Codec ProgLemmas CodecRT PoseRead PoseReadLemmas StreamLemmas
  WindowLemmas StreamRead C04_Legacy C04_Spec C04_Div C04_Stream C04_Handoff C04_SpecRT.
Import ListNotations.
Open Scope N_scope.

Definition w32ok (w : N) : Prop := w < 4294967296.
Definition wf01 (c : content01) : Prop :=
  let h := k1_header c in
  wf_header h /\ version_class (h_version h) = V01 /\
  u16 (k1_fps c) /\ u16 (k1_frames_field c) /\ u16 (k1_people c) /\
  1 <= k1_people c /\ 1 <= spec_points h /\ 2 <= spec_floats_per_point h /\
  length (k1_conf c) = length (k1_data c) /\
  (Z.of_N (lenN (k1_data c)) < 2 ^ 53)%Z /\
  Forall (fun fr => lenN fr = k1_people c * spec_points h * spec_dims h /\ Forall w32ok fr) (k1_data c) /\
  Forall (fun fr => lenN fr = k1_people c * spec_points h /\ Forall w32ok fr) (k1_conf c).

(* ---------- uniform frames ---------- *)
Lemma lenN_concat_uniform {X} (l : list (list X)) c : Forall (fun fr => lenN fr = c) l -> lenN (concat l) = lenN l * c.
Proof. induction 1 as [|fr l Hf _ IH]; [reflexivity|]. cbn [concat]. rewrite lenN_app, IH, Hf. unfold lenN. cbn [length]. lia. Qed.
Lemma dropN_concat_uniform {X} (l : list (list X)) c : Forall (fun fr => lenN fr = c) l ->
  forall n, dropN (n * c) (concat l) = concat (dropN n l).
Proof.
  induction 1 as [|fr l Hf _ IH]; intros n; [destruct (n * c); reflexivity|].
  destruct (N.eq_dec n 0) as [->|Hn]; [now rewrite N.mul_0_l, !dropN_0|].
  cbn [concat]. replace (n * c) with ((n - 1) * c + c) by (rewrite <- (N.mul_1_l c) at 2; rewrite <- N.mul_add_distr_r; f_equal; lia).
  rewrite <- dropN_dropN.
  rewrite dropN_app_le by lia. rewrite (dropN_all c fr) by lia. cbn [app]. rewrite IH.
  f_equal. cbn [dropN]. destruct (N.eqb_spec n 0); [lia|reflexivity].
Qed.
Lemma takeN_concat_uniform {X} (l : list (list X)) c : Forall (fun fr => lenN fr = c) l ->
  forall n, takeN (n * c) (concat l) = concat (takeN n l).
Proof.
  induction 1 as [|fr l Hf _ IH]; intros n; [destruct (n * c); reflexivity|].
  destruct (N.eq_dec n 0) as [->|Hn]; [now rewrite N.mul_0_l, !takeN_0|].
  cbn [concat]. replace (n * c) with (c + (n - 1) * c) by (rewrite <- (N.mul_1_l c) at 1; rewrite <- N.mul_add_distr_r; f_equal; lia).
  rewrite <- takeN_app_takeN.
  rewrite takeN_app_le by lia. rewrite (takeN_all c fr) by lia.
  rewrite dropN_app_le by lia. rewrite (dropN_all c fr) by lia. cbn [app]. rewrite IH.
  cbn [takeN]. destruct (N.eqb_spec n 0); [lia|reflexivity].
Qed.
Lemma Forall_concat {X} (P : X -> Prop) (l : list (list X)) : Forall (Forall P) l -> Forall P (concat l).
Proof. induction 1 as [|fr l Hf _ IH]; [constructor|]. cbn [concat]. apply Forall_app. now split. Qed.
Lemma Forall_and_l {X} (P Q : X -> Prop) l : Forall (fun x => P x /\ Q x) l -> Forall P l.
Proof. intros H. eapply Forall_impl; [|exact H]. now intros x [Hp _]. Qed.
Lemma Forall_and_r {X} (P Q : X -> Prop) l : Forall (fun x => P x /\ Q x) l -> Forall Q l.
Proof. intros H. eapply Forall_impl; [|exact H]. now intros x [_ Hq]. Qed.

(* ---------- what the header says about counts ---------- *)
Lemma fold_max_ZN (l : list N) :
  fold_right Z.max 0%Z (map Z.of_N l) = Z.of_N (fold_right N.max 0 l).
Proof. induction l as [|x l IH]; [reflexivity|]. cbn [map fold_right]. rewrite IH. lia. Qed.
Lemma num_dims_spec h : h_comps h <> [] -> num_dims h = Ok (Z.of_N (spec_floats_per_point h) - 1)%Z.
Proof.
  intros Hne. unfold num_dims, spec_floats_per_point.
  assert (E : fold_right Z.max 0%Z (map (fun f => Z.of_N (lenN f)) (map c_format (h_comps h))) =
              Z.of_N (fold_right N.max 0 (map (fun c => lenN (c_format c)) (h_comps h))))
    by (rewrite <- fold_max_ZN, !map_map; reflexivity).
  destruct (h_comps h) as [|c l]; [contradiction|].
  unfold num_dims_of. cbn [map] in *. rewrite E. reflexivity.
Qed.

(* ---------- reading back an encoding that is followed by exactly [post] (bytes_left is visible) ---------- *)
Definition RTq {A} (p : prog A) (e post : bytes) (a : A) : Prop :=
  forall pre,
    run_plain p {| pbuf := pre ++ e ++ post; poff := lenN pre |} =
    Ok (a, {| pbuf := pre ++ e ++ post; poff := lenN pre + lenN e |}).
Lemma RTp_RTq {A} (p : prog A) e a post : RTp p e a -> RTq p e post a.
Proof. intros H pre. apply H. Qed.
Lemma RTq_bind {A B} (p : prog A) (f : A -> prog B) e1 e2 post a b :
  RTq p e1 (e2 ++ post) a -> RTq (f a) e2 post b -> RTq (pbind p f) (e1 ++ e2) post b.
Proof.
  intros H1 H2 pre. rewrite run_plain_bind.
  rewrite <- app_assoc. rewrite (H1 pre).
  specialize (H2 (pre ++ e1)). rewrite <- !app_assoc in H2. rewrite lenN_app in H2.
  rewrite H2. rewrite lenN_app. f_equal. f_equal. f_equal. lia.
Qed.
Lemma RTq_bytesleft {A} (k : Z -> prog A) e post a :
  RTq (k (Z.of_N (lenN e + lenN post))) e post a -> RTq (BytesLeft k) e post a.
Proof.
  intros H pre. cbn [run_plain pbuf poff]. rewrite !lenN_app.
  replace (Z.of_N (lenN pre + (lenN e + lenN post)) - Z.of_N (lenN pre))%Z with (Z.of_N (lenN e + lenN post)) by lia.
  apply H.
Qed.
Lemma RTq_run {A} (p : prog A) e a : RTq p e [] a -> forall pre,
  run_plain p {| pbuf := pre ++ e; poff := lenN pre |} = Ok (a, {| pbuf := pre ++ e; poff := lenN pre + lenN e |}).
Proof. intros H pre. specialize (H pre). now rewrite app_nil_r in H. Qed.

(* ---------- the two tensor reads and the constructor ---------- *)
Definition tail01 (fpsw P T : N) (D F : Z) (s e : option Z) : prog body :=
  dop dat <- read_frames F (Z.of_N (P * T) * D) s e;
  dop cnf <- read_frames F (Z.of_N (P * T)) s e;
  plift (mk_body fpsw (Z.to_N (fst dat)) P T D (snd dat) (snd cnf)).
Definition window_words (ws : list N) (s0 e0 cells : Z) : list N :=
  takeN (Z.to_N ((e0 - s0) * cells)) (dropN (Z.to_N (s0 * cells)) ws).
Lemma tail01_rt fpsw P T D F dat cnf s e :
  Forall w32ok dat -> Forall w32ok cnf -> (0 <= F)%Z -> (1 <= D)%Z ->
  Z.of_N (lenN dat) = (F * (Z.of_N (P * T) * D))%Z -> Z.of_N (lenN cnf) = (F * Z.of_N (P * T))%Z ->
  (start0 s = 0 \/ start0 s < F)%Z -> (start0 s <= end0 e F)%Z ->
  RTp (tail01 fpsw P T D F s e) (flat_map enc_u32 dat ++ flat_map enc_u32 cnf)
    {| b_fps := fpsw; b_shape := [Z.to_N (end0 e F - start0 s); P; T; Z.to_N D];
       b_data := window_words dat (start0 s) (end0 e F) (Z.of_N (P * T) * D);
       b_conf := window_words cnf (start0 s) (end0 e F) (Z.of_N (P * T));
       b_mask := map is_zero32 (window_words cnf (start0 s) (end0 e F) (Z.of_N (P * T))) |}.
Proof.
  intros Hd Hc HF HD Hld Hlc Hv1 Hv2. unfold tail01.
  apply RTp_bind with (a := ((end0 e F - start0 s)%Z, window_words dat (start0 s) (end0 e F) (Z.of_N (P * T) * D))).
  { apply frames_window_rt; [exact Hd|lia|lia|exact Hld|exact Hv1|exact Hv2]. }
  rewrite <- (app_nil_r (flat_map enc_u32 cnf)).
  apply RTp_bind with (a := ((end0 e F - start0 s)%Z, window_words cnf (start0 s) (end0 e F) (Z.of_N (P * T)))).
  { apply frames_window_rt; [exact Hc|lia|lia|exact Hlc|exact Hv1|exact Hv2]. }
  cbn [fst snd]. unfold mk_body. destruct (Z.leb_spec D 0) as [|_]; [lia|]. cbn [plift]. apply RTp_ret.
Qed.

Lemma fps_value_eq n : fps_value n = f32_of_u16 n.
Proof. reflexivity. Qed.
Lemma flat_map_enc (ws : list N) : concat (map enc_u32 ws) = flat_map enc_u32 ws.
Proof. symmetry. apply flat_map_concat_map. Qed.

(* ---------- the body ---------- *)
Definition v01_window_body (c : content01) (s0 e0 : Z) : body := p_body (v01_view c (Z.to_N s0) (Z.to_N e0)).

Lemma v01_counts c : wf01 c ->
  h_comps (k1_header c) <> [] /\
  num_dims (k1_header c) = Ok (Z.of_N (spec_dims (k1_header c))) /\ 1 <= spec_dims (k1_header c).
Proof.
  intros [_ [_ [_ [_ [_ [_ [HT [HL _]]]]]]]].
  assert (Hne : h_comps (k1_header c) <> []).
  { intros E. unfold spec_points in HT. rewrite E in HT. cbn in HT. lia. }
  split; [exact Hne|]. rewrite (num_dims_spec _ Hne). unfold spec_dims. split; [f_equal; lia|lia].
Qed.

Theorem v01_body_rt c sf ef : wf01 c ->
  let F := Z.of_N (lenN (k1_data c)) in
  (start0 sf = 0 \/ start0 sf < F)%Z -> (start0 sf <= end0 ef F)%Z ->
  RTq (read_v0_1 (k1_header c) sf ef) (spec_body01 c) [] (v01_window_body c (start0 sf) (end0 ef F)).
Proof.
  intros Hwf F Hv1 Hv2.
  destruct (v01_counts c Hwf) as [Hne [Hnd HD1]].
  destruct Hwf as [Hh [Hver [Hfps [Hff [HP [HP1 [HT1 [HL [Hlen [HF53 [Hdat Hcnf]]]]]]]]]]].
  set (h := k1_header c) in *. set (P := k1_people c) in *. set (T := spec_points h) in *. set (D := spec_dims h) in *.
  pose proof (Forall_and_l _ _ _ Hdat) as Hdl. pose proof (Forall_and_r _ _ _ Hdat) as Hdw.
  pose proof (Forall_and_l _ _ _ Hcnf) as Hcl. pose proof (Forall_and_r _ _ _ Hcnf) as Hcw.
  assert (HlenN : lenN (k1_conf c) = lenN (k1_data c)) by (unfold lenN; now rewrite Hlen).
  assert (Hld : lenN (concat (k1_data c)) = lenN (k1_data c) * (P * T * D)) by (now apply lenN_concat_uniform).
  assert (Hlc : lenN (concat (k1_conf c)) = lenN (k1_data c) * (P * T)) by (rewrite <- HlenN; now apply lenN_concat_uniform).
  unfold spec_body01, read_v0_1. fold h P T.
  replace (enc_u16 (k1_fps c) ++ enc_u16 (k1_frames_field c) ++ enc_u16 P ++
           concat (map enc_u32 (concat (k1_data c))) ++ concat (map enc_u32 (concat (k1_conf c))))
    with ((enc_u16 (k1_fps c) ++ enc_u16 (k1_frames_field c)) ++ enc_u16 P ++
          (flat_map enc_u32 (concat (k1_data c)) ++ flat_map enc_u32 (concat (k1_conf c))))
    by (rewrite !flat_map_enc, <- !app_assoc; reflexivity).
  apply RTq_bind with (a := (k1_fps c, k1_frames_field c)); [apply RTp_RTq; now apply u16x2_rt|].
  apply RTq_bind with (a := P); [apply RTp_RTq; now apply rd_u16_rt|].
  change (total_points h) with T. rewrite Hnd. cbn [plift pbind].
  apply RTq_bytesleft.
  set (payload := flat_map enc_u32 (concat (k1_data c)) ++ flat_map enc_u32 (concat (k1_conf c))).
  assert (Hpay : Z.of_N (lenN payload + lenN (@nil N)) = (F * (Z.of_N P * Z.of_N T * (Z.of_N D + 1) * 4))%Z).
  { unfold payload. rewrite lenN_app, !lenN_flat_enc_u32, Hld, Hlc. unfold F, lenN at 3. cbn [length]. nia. }
  rewrite Hpay.
  rewrite py_int_truediv_exact by (unfold F; nia). cbn [plift pbind].
  apply RTp_RTq.
  pose proof (tail01_rt (f32_of_u16 (k1_fps c)) P T (Z.of_N D) F (concat (k1_data c)) (concat (k1_conf c)) sf ef) as HT.
  unfold tail01 in HT. cbn [fst].
  replace (v01_window_body c (start0 sf) (end0 ef F)) with
    {| b_fps := f32_of_u16 (k1_fps c);
       b_shape := [Z.to_N (end0 ef F - start0 sf); P; T; Z.to_N (Z.of_N D)];
       b_data := window_words (concat (k1_data c)) (start0 sf) (end0 ef F) (Z.of_N (P * T) * Z.of_N D);
       b_conf := window_words (concat (k1_conf c)) (start0 sf) (end0 ef F) (Z.of_N (P * T));
       b_mask := map is_zero32 (window_words (concat (k1_conf c)) (start0 sf) (end0 ef F) (Z.of_N (P * T))) |}.
  - apply HT.
    + apply Forall_concat. exact Hdw.
    + apply Forall_concat. exact Hcw.
    + unfold F. lia.
    + lia.
    + rewrite Hld. unfold F. nia.
    + rewrite Hlc. unfold F. nia.
    + exact Hv1.
    + exact Hv2.
  - (* the window of the flat arrays is the concatenation of the window's frames *)
    assert (He0 : (end0 ef F <= F)%Z) by (unfold end0; destruct ef; lia).
    assert (Hs0 : (0 <= start0 sf)%Z) by (unfold start0; destruct sf as [z|]; [destruct (0 <? z)%Z eqn:E|]; lia).
    set (s0 := start0 sf) in *. set (e0 := end0 ef F) in *.
    unfold v01_window_body, v01_view. cbn [p_body]. fold h P T D.
    assert (Ew : forall (fr : list (list N)) cells, Forall (fun x => lenN x = cells) fr ->
              window_words (concat fr) s0 e0 (Z.of_N cells) = concat (takeN (Z.to_N e0 - Z.to_N s0) (dropN (Z.to_N s0) fr))).
    { intros fr cells Hu. unfold window_words.
      replace (Z.to_N (s0 * Z.of_N cells)) with (Z.to_N s0 * cells) by nia.
      replace (Z.to_N ((e0 - s0) * Z.of_N cells)) with ((Z.to_N e0 - Z.to_N s0) * cells) by nia.
      rewrite dropN_concat_uniform by exact Hu.
      apply takeN_concat_uniform. now apply Forall_dropN. }
    replace (Z.of_N (P * T) * Z.of_N D)%Z with (Z.of_N (P * T * D)) by lia.
    rewrite (Ew _ _ Hdl), (Ew _ _ Hcl). change (fps_value (k1_fps c)) with (f32_of_u16 (k1_fps c)).
    f_equal. f_equal; [lia|]. f_equal. f_equal. f_equal. lia.
Qed.

(* ---------- Pose.read ---------- *)
Lemma spec_header_parsed h body : wf_header h ->
  run_plain rd_header {| pbuf := spec_header h ++ body; poff := 0 |} =
  Ok (h, {| pbuf := spec_header h ++ body; poff := lenN (spec_header h) |}).
Proof. intros Hh. pose proof (spec_header_rt h Hh [] body) as H. cbn [app] in H. exact H. Qed.

Lemma noAdv_plift {A} (r : result A) : noAdv (plift r).
Proof. destruct r; exact I. Qed.
Lemma noAdv_read_v0_1 h sf ef : noAdv (read_v0_1 h sf ef).
Proof.
  unfold read_v0_1.
  apply noAdv_bind; [cbn; auto|]. intros ff.
  apply noAdv_bind; [cbn; auto|]. intros P.
  apply noAdv_bind; [apply noAdv_plift|]. intros D.
  cbn [noAdv]. intros z.
  apply noAdv_bind; [apply noAdv_plift|]. intros F.
  apply noAdv_bind; [apply v2prog_noAdv, v2prog_read_frames|]. intros dat.
  apply noAdv_bind; [apply v2prog_noAdv, v2prog_read_frames|]. intros cnf.
  apply noAdv_plift.
Qed.

Definition frames01 (c : content01) : Z := Z.of_N (lenN (k1_data c)).
Definition valid_window01 (c : content01) (a : rargs) : Prop :=
  (start0 (a_sf a) = 0 \/ start0 (a_sf a) < frames01 c)%Z /\ (start0 (a_sf a) <= end0 (a_ef a) (frames01 c))%Z.
Definition v01_expected (c : content01) (a : rargs) : pose :=
  v01_view c (Z.to_N (start0 (a_sf a))) (Z.to_N (end0 (a_ef a) (frames01 c))).

Theorem v01_read_bytes c m a : wf01 c -> MemoOK m -> valid_window01 c a ->
  fst (read_bytes c04_legacy m (spec01 c) a) = Ok (v01_expected c a).
Proof.
  intros Hwf Hm [Hv1 Hv2].
  pose proof Hwf as [Hh [Hver _]].
  unfold spec01.
  rewrite (bytes_header c04_legacy m _ a _ _ Hm (spec_header_parsed _ (spec_body01 c) Hh)).
  unfold read_body, read_body_with. rewrite Hver. cbn [c04_legacy].
  rewrite (RTq_run _ _ _ (v01_body_rt c (a_sf a) (a_ef a) Hwf Hv1 Hv2) (spec_header (k1_header c))).
  reflexivity.
Qed.

Theorem v01_read_stream c m a : wf01 c -> MemoOK m -> valid_window01 c a ->
  fst (fst (read_stream4 c04_legacy m (spec01 c) a)) = Ok (v01_expected c a).
Proof.
  intros Hwf Hm Hv.
  destruct (any_arg a) eqn:Ha.
  - pose proof Hwf as [Hh [Hver _]].
    apply (stream4_of_bytes_noAdv c04_legacy m (spec01 c) a (k1_header c) (lenN (spec_header (k1_header c)))); try assumption.
    + apply spec_header_parsed. exact Hh.
    + unfold read_body, read_body_with. rewrite Hver. apply noAdv_read_v0_1.
    + now apply v01_read_bytes.
  - rewrite read_stream4_noargs by exact Ha. now apply v01_read_bytes.
Qed.

(* the whole file: no frame bound given (time bounds are swallowed by **unused_kwargs and change nothing) *)
Lemma takeN_all_frames {X} (l : list X) : takeN (lenN l - 0) (dropN 0 l) = l.
Proof. rewrite dropN_0. apply takeN_all. lia. Qed.
Definition v01_full (c : content01) : pose := v01_view c 0 (lenN (k1_data c)).
Corollary v01_read_full c m a : wf01 c -> MemoOK m -> a_sf a = None -> a_ef a = None ->
  fst (read_bytes c04_legacy m (spec01 c) a) = Ok (v01_full c) /\
  fst (fst (read_stream4 c04_legacy m (spec01 c) a)) = Ok (v01_full c).
Proof.
  intros Hwf Hm Hs He.
  assert (Hv : valid_window01 c a).
  { unfold valid_window01, frames01. rewrite Hs, He. cbn [start0 end0]. lia. }
  assert (E : v01_expected c a = v01_full c).
  { unfold v01_expected, v01_full, frames01. rewrite Hs, He. cbn [start0 end0]. f_equal. lia. }
  rewrite <- E. split; [now apply v01_read_bytes|now apply v01_read_stream].
Qed.
