(* v0.1: a reference-encoded file decodes to the values stored in it - every frame (the count comes from the
   payload size, the 16-bit field is ignored) or the requested window, given by frame bounds, time bounds or one of
   each - from bytes and from a stream; a start at or beyond the last frame and a frame and a time bound for the same
   end are refused. *)
From Coq Require Import ZArith NArith List Lia ZifyBool ZifyN ZifyNat Bool.
Require Import ListN Result Bytes Utf8 Utf8S F32 Prog Codec ProgLemmas CodecRT PoseRead PoseReadLemmas StreamLemmas
  WindowLemmas StreamRead C04_Legacy C04_Spec C04_Div C04_Stream C04_Handoff C04_SpecRT.
Import ListNotations.
Open Scope N_scope.

Definition w32ok (w : N) : Prop := w < 4294967296.
Definition wf01 (c : content01) : Prop :=
  let h := k1_header c in
  wf_header h /\ version_class (h_version h) = V01 /\
  u16 (k1_fps c) /\ u16 (k1_frames_field c) /\ u16 (k1_people c) /\
  1 <= k1_people c /\ 1 <= spec_points h /\ 2 <= spec_floats_per_point h /\
  length (k1_conf c) = length (k1_data c) /\
  (Z.of_N (lenN (k1_data c)) < 2 ^ 53)%Z /\
  Forall (fun fr => lenN fr = k1_people c * spec_points h * spec_dims h /\ Forall w32ok fr) (k1_data c) /\
  Forall (fun fr => lenN fr = k1_people c * spec_points h /\ Forall w32ok fr) (k1_conf c).

(* ---------- uniform frames ---------- *)
Lemma lenN_concat_uniform {X} (l : list (list X)) c : Forall (fun fr => lenN fr = c) l -> lenN (concat l) = lenN l * c.
Proof. induction 1 as [|fr l Hf _ IH]; [reflexivity|]. cbn [concat]. rewrite lenN_app, IH, Hf. unfold lenN. cbn [length]. lia. Qed.
Lemma dropN_concat_uniform {X} (l : list (list X)) c : Forall (fun fr => lenN fr = c) l ->
  forall n, dropN (n * c) (concat l) = concat (dropN n l).
Proof.
  induction 1 as [|fr l Hf _ IH]; intros n; [destruct (n * c); reflexivity|].
  destruct (N.eq_dec n 0) as [->|Hn]; [now rewrite N.mul_0_l, !dropN_0|].
  cbn [concat]. replace (n * c) with ((n - 1) * c + c) by (rewrite <- (N.mul_1_l c) at 2; rewrite <- N.mul_add_distr_r; f_equal; lia).
  rewrite <- dropN_dropN.
  rewrite dropN_app_le by lia. rewrite (dropN_all c fr) by lia. cbn [app]. rewrite IH.
  f_equal. cbn [dropN]. destruct (N.eqb_spec n 0); [lia|reflexivity].
Qed.
Lemma takeN_concat_uniform {X} (l : list (list X)) c : Forall (fun fr => lenN fr = c) l ->
  forall n, takeN (n * c) (concat l) = concat (takeN n l).
Proof.
  induction 1 as [|fr l Hf _ IH]; intros n; [destruct (n * c); reflexivity|].
  destruct (N.eq_dec n 0) as [->|Hn]; [now rewrite N.mul_0_l, !takeN_0|].
  cbn [concat]. replace (n * c) with (c + (n - 1) * c) by (rewrite <- (N.mul_1_l c) at 1; rewrite <- N.mul_add_distr_r; f_equal; lia).
  rewrite <- takeN_app_takeN.
  rewrite takeN_app_le by lia. rewrite (takeN_all c fr) by lia.
  rewrite dropN_app_le by lia. rewrite (dropN_all c fr) by lia. cbn [app]. rewrite IH.
  cbn [takeN]. destruct (N.eqb_spec n 0); [lia|reflexivity].
Qed.
Lemma Forall_concat {X} (P : X -> Prop) (l : list (list X)) : Forall (Forall P) l -> Forall P (concat l).
Proof. induction 1 as [|fr l Hf _ IH]; [constructor|]. cbn [concat]. apply Forall_app. now split. Qed.
Lemma Forall_and_l {X} (P Q : X -> Prop) l : Forall (fun x => P x /\ Q x) l -> Forall P l.
Proof. intros H. eapply Forall_impl; [|exact H]. now intros x [Hp _]. Qed.
Lemma Forall_and_r {X} (P Q : X -> Prop) l : Forall (fun x => P x /\ Q x) l -> Forall Q l.
Proof. intros H. eapply Forall_impl; [|exact H]. now intros x [_ Hq]. Qed.

(* ---------- what the header says about counts ---------- *)
Lemma fold_max_ZN (l : list N) :
  fold_right Z.max 0%Z (map Z.of_N l) = Z.of_N (fold_right N.max 0 l).
Proof. induction l as [|x l IH]; [reflexivity|]. cbn [map fold_right]. rewrite IH. lia. Qed.
Lemma num_dims_spec h : h_comps h <> [] -> num_dims h = Ok (Z.of_N (spec_floats_per_point h) - 1)%Z.
Proof.
  intros Hne. unfold num_dims, spec_floats_per_point.
  assert (E : fold_right Z.max 0%Z (map (fun f => Z.of_N (lenN f)) (map c_format (h_comps h))) =
              Z.of_N (fold_right N.max 0 (map (fun c => lenN (c_format c)) (h_comps h))))
    by (rewrite <- fold_max_ZN, !map_map; reflexivity).
  destruct (h_comps h) as [|c l]; [contradiction|].
  unfold num_dims_of. cbn [map] in *. rewrite E. reflexivity.
Qed.

(* ---------- reading back an encoding that is followed by exactly [post] (bytes_left is visible) ---------- *)
Definition RTq {A} (p : prog A) (e post : bytes) (a : A) : Prop :=
  forall pre,
    run_plain p {| pbuf := pre ++ e ++ post; poff := lenN pre |} =
    Ok (a, {| pbuf := pre ++ e ++ post; poff := lenN pre + lenN e |}).
Lemma RTp_RTq {A} (p : prog A) e a post : RTp p e a -> RTq p e post a.
Proof. intros H pre. apply H. Qed.
Lemma RTq_bind {A B} (p : prog A) (f : A -> prog B) e1 e2 post a b :
  RTq p e1 (e2 ++ post) a -> RTq (f a) e2 post b -> RTq (pbind p f) (e1 ++ e2) post b.
Proof.
  intros H1 H2 pre. rewrite run_plain_bind.
  rewrite <- app_assoc. rewrite (H1 pre).
  specialize (H2 (pre ++ e1)). rewrite <- !app_assoc in H2. rewrite lenN_app in H2.
  rewrite H2. rewrite lenN_app. f_equal. f_equal. f_equal. lia.
Qed.
Lemma RTq_bytesleft {A} (k : Z -> prog A) e post a :
  RTq (k (Z.of_N (lenN e + lenN post))) e post a -> RTq (BytesLeft k) e post a.
Proof.
  intros H pre. cbn [run_plain pbuf poff]. rewrite !lenN_app.
  replace (Z.of_N (lenN pre + (lenN e + lenN post)) - Z.of_N (lenN pre))%Z with (Z.of_N (lenN e + lenN post)) by lia.
  apply H.
Qed.
Lemma RTq_run {A} (p : prog A) e a : RTq p e [] a -> forall pre,
  run_plain p {| pbuf := pre ++ e; poff := lenN pre |} = Ok (a, {| pbuf := pre ++ e; poff := lenN pre + lenN e |}).
Proof. intros H pre. specialize (H pre). now rewrite app_nil_r in H. Qed.

(* the same for a run that ends in a raise of the decoder's own (C04_Stream.fails_at) *)
Definition FLq {A} (p : prog A) (e post : bytes) (er : err) : Prop :=
  forall pre, fails_at p {| pbuf := pre ++ e ++ post; poff := lenN pre |} er.
Lemma FLq_bind {A B} (p : prog A) (f : A -> prog B) e1 e2 post a er :
  RTq p e1 (e2 ++ post) a -> FLq (f a) e2 post er -> FLq (pbind p f) (e1 ++ e2) post er.
Proof.
  intros H1 H2 pre. eapply fails_at_bind.
  - rewrite <- app_assoc. apply (H1 pre).
  - specialize (H2 (pre ++ e1)). rewrite <- !app_assoc in H2. rewrite lenN_app in H2. exact H2.
Qed.
Lemma FLq_bytesleft {A} (k : Z -> prog A) e post er :
  FLq (k (Z.of_N (lenN e + lenN post))) e post er -> FLq (BytesLeft k) e post er.
Proof.
  intros H pre. cbn [fails_at pbuf poff]. rewrite !lenN_app.
  replace (Z.of_N (lenN pre + (lenN e + lenN post)) - Z.of_N (lenN pre))%Z with (Z.of_N (lenN e + lenN post)) by lia.
  apply H.
Qed.
Lemma FLq_fail {A} e post er : FLq (@Fail A er) e post er.
Proof. intros pre. reflexivity. Qed.
Lemma FLq_at {A} (p : prog A) e er : FLq p e [] er -> forall pre,
  fails_at p {| pbuf := pre ++ e; poff := lenN pre |} er.
Proof. intros H pre. specialize (H pre). now rewrite app_nil_r in H. Qed.
(* read_v0_1_frames refuses a start at or beyond the frame count before it reads *)
Lemma read_frames_beyond F cells s e : (0 < start0 s)%Z -> (F <= start0 s)%Z -> read_frames F cells s e = Fail Value.
Proof.
  unfold start0, read_frames. destruct s as [z|]; [|lia]. destruct (Z.ltb_spec 0 z) as [Hz|]; [|lia]. intros _ HF.
  destruct (Z.leb_spec F z) as [_|]; [reflexivity|lia].
Qed.

(* ---------- the two tensor reads and the constructor ---------- *)
Definition tail01 (fpsw P T : N) (D F : Z) (s e : option Z) : prog body :=
  dop dat <- read_frames F (Z.of_N (P * T) * D) s e;
  dop cnf <- read_frames F (Z.of_N (P * T)) s e;
  plift (mk_body fpsw (Z.to_N (fst dat)) P T D (snd dat) (snd cnf)).
Definition window_words (ws : list N) (s0 e0 cells : Z) : list N :=
  takeN (Z.to_N ((e0 - s0) * cells)) (dropN (Z.to_N (s0 * cells)) ws).
Lemma tail01_rt fpsw P T D F dat cnf s e :
  Forall w32ok dat -> Forall w32ok cnf -> (0 <= F)%Z -> (1 <= D)%Z ->
  Z.of_N (lenN dat) = (F * (Z.of_N (P * T) * D))%Z -> Z.of_N (lenN cnf) = (F * Z.of_N (P * T))%Z ->
  (start0 s = 0 \/ start0 s < F)%Z -> (start0 s <= end0 e F)%Z ->
  RTp (tail01 fpsw P T D F s e) (flat_map enc_u32 dat ++ flat_map enc_u32 cnf)
    {| b_fps := fpsw; b_shape := [Z.to_N (end0 e F - start0 s); P; T; Z.to_N D];
       b_data := window_words dat (start0 s) (end0 e F) (Z.of_N (P * T) * D);
       b_conf := window_words cnf (start0 s) (end0 e F) (Z.of_N (P * T));
       b_mask := map is_zero32 (window_words cnf (start0 s) (end0 e F) (Z.of_N (P * T))) |}.
Proof.
  intros Hd Hc HF HD Hld Hlc Hv1 Hv2. unfold tail01.
  apply RTp_bind with (a := ((end0 e F - start0 s)%Z, window_words dat (start0 s) (end0 e F) (Z.of_N (P * T) * D))).
  { apply frames_window_rt; [exact Hd|lia|lia|exact Hld|exact Hv1|exact Hv2]. }
  rewrite <- (app_nil_r (flat_map enc_u32 cnf)).
  apply RTp_bind with (a := ((end0 e F - start0 s)%Z, window_words cnf (start0 s) (end0 e F) (Z.of_N (P * T)))).
  { apply frames_window_rt; [exact Hc|lia|lia|exact Hlc|exact Hv1|exact Hv2]. }
  cbn [fst snd]. unfold mk_body. destruct (Z.leb_spec D 0) as [|_]; [lia|]. cbn [plift]. apply RTp_ret.
Qed.

Lemma fps_value_eq n : fps_value n = f32_of_u16 n.
Proof. reflexivity. Qed.
Lemma flat_map_enc (ws : list N) : concat (map enc_u32 ws) = flat_map enc_u32 ws.
Proof. symmetry. apply flat_map_concat_map. Qed.

(* ---------- the window a set of read arguments denotes ---------- *)
(* for a recording of F frames at frame rate fps (a float32 word): frame bounds as given, a time bound of t ms as
   floor (start) / ceil (end) of t / 1000 * fps (WindowLemmas.resolve_start / resolve_end: the rule of the v0.2 reader);
   a start below 0 is 0, an end beyond the recording is its end; a frame and a time bound for the same end: no window *)
Definition window_of (fps : N) (F : Z) (a : rargs) : result (Z * Z) :=
  if conflict (a_sf a) (a_st a) || conflict (a_ef a) (a_et a) then Err Value else
  do s <- resolve_start fps (a_sf a) (a_st a);
  do e <- resolve_end fps (a_ef a) (a_et a);
  Ok (start0 s, end0 e F).
Lemma window_of_inv fps F a s0 e0 : window_of fps F a = Ok (s0, e0) ->
  conflict (a_sf a) (a_st a) = false /\ conflict (a_ef a) (a_et a) = false /\
  exists s e, resolve_start fps (a_sf a) (a_st a) = Ok s /\ resolve_end fps (a_ef a) (a_et a) = Ok e /\
              s0 = start0 s /\ e0 = end0 e F.
Proof.
  unfold window_of. destruct (conflict (a_sf a) (a_st a)); [discriminate|]. destruct (conflict (a_ef a) (a_et a)); [discriminate|].
  cbn [orb]. destruct (resolve_start fps (a_sf a) (a_st a)) as [s|]; [|discriminate].
  destruct (resolve_end fps (a_ef a) (a_et a)) as [e|]; [|discriminate]. cbn [rbind]. intros H. injection H as <- <-.
  split; [reflexivity|]. split; [reflexivity|]. exists s, e. repeat split.
Qed.
(* frame bounds only: the window is the clipped pair *)
Lemma window_of_frames fps F a : a_st a = None -> a_et a = None -> window_of fps F a = Ok (start0 (a_sf a), end0 (a_ef a) F).
Proof. intros Hs He. unfold window_of, conflict, resolve_start, resolve_end. rewrite Hs, He. destruct (a_sf a), (a_ef a); reflexivity. Qed.

(* the decoder after its two argument checks *)
Definition body01 (h : header) (sf st ef et : option Z) : prog body :=
  dop ff <- rd_u16x2;
  dop P <- rd_u16;
  let T := total_points h in
  dop D <- plift (num_dims h);
  BytesLeft (fun left =>
  dop F <- plift (py_int_truediv left (Z.of_N P * Z.of_N T * (D + 1) * 4));
  let fps := f32_of_u16 (fst ff) in
  dop s <- plift (resolve_start fps sf st);
  dop e <- plift (resolve_end fps ef et);
  dop dat <- read_frames F (Z.of_N (P * T) * D) s e;
  dop cnf <- read_frames F (Z.of_N (P * T)) s e;
  plift (mk_body fps (Z.to_N (fst dat)) P T D (snd dat) (snd cnf))).
Lemma read_v0_1_shape h sf st ef et :
  read_v0_1 h sf st ef et = if conflict sf st || conflict ef et then Fail Value else body01 h sf st ef et.
Proof. destruct sf, st, ef, et; reflexivity. Qed.

(* ---------- the body ---------- *)
Definition v01_window_body (c : content01) (s0 e0 : Z) : body := p_body (v01_view c (Z.to_N s0) (Z.to_N e0)).

Lemma v01_counts c : wf01 c ->
  h_comps (k1_header c) <> [] /\
  num_dims (k1_header c) = Ok (Z.of_N (spec_dims (k1_header c))) /\ 1 <= spec_dims (k1_header c).
Proof.
  intros [_ [_ [_ [_ [_ [_ [HT [HL _]]]]]]]].
  assert (Hne : h_comps (k1_header c) <> []).
  { intros E. unfold spec_points in HT. rewrite E in HT. cbn in HT. lia. }
  split; [exact Hne|]. rewrite (num_dims_spec _ Hne). unfold spec_dims. split; [f_equal; lia|lia].
Qed.

Theorem v01_body_rt c sf st ef et s e : wf01 c ->
  let F := Z.of_N (lenN (k1_data c)) in
  conflict sf st = false -> conflict ef et = false ->
  resolve_start (fps_value (k1_fps c)) sf st = Ok s -> resolve_end (fps_value (k1_fps c)) ef et = Ok e ->
  (start0 s = 0 \/ start0 s < F)%Z -> (start0 s <= end0 e F)%Z ->
  RTq (read_v0_1 (k1_header c) sf st ef et) (spec_body01 c) [] (v01_window_body c (start0 s) (end0 e F)).
Proof.
  intros Hwf F Hc1 Hc2 Hrs Hre Hv1 Hv2.
  destruct (v01_counts c Hwf) as [Hne [Hnd HD1]].
  destruct Hwf as [Hh [Hver [Hfps [Hff [HP [HP1 [HT1 [HL [Hlen [HF53 [Hdat Hcnf]]]]]]]]]]].
  set (h := k1_header c) in *. set (P := k1_people c) in *. set (T := spec_points h) in *. set (D := spec_dims h) in *.
  pose proof (Forall_and_l _ _ _ Hdat) as Hdl. pose proof (Forall_and_r _ _ _ Hdat) as Hdw.
  pose proof (Forall_and_l _ _ _ Hcnf) as Hcl. pose proof (Forall_and_r _ _ _ Hcnf) as Hcw.
  assert (HlenN : lenN (k1_conf c) = lenN (k1_data c)) by (unfold lenN; now rewrite Hlen).
  assert (Hld : lenN (concat (k1_data c)) = lenN (k1_data c) * (P * T * D)) by (now apply lenN_concat_uniform).
  assert (Hlc : lenN (concat (k1_conf c)) = lenN (k1_data c) * (P * T)) by (rewrite <- HlenN; now apply lenN_concat_uniform).
  rewrite read_v0_1_shape, Hc1, Hc2. cbn [orb]. unfold spec_body01, body01. fold h P T.
  replace (enc_u16 (k1_fps c) ++ enc_u16 (k1_frames_field c) ++ enc_u16 P ++
           concat (map enc_u32 (concat (k1_data c))) ++ concat (map enc_u32 (concat (k1_conf c))))
    with ((enc_u16 (k1_fps c) ++ enc_u16 (k1_frames_field c)) ++ enc_u16 P ++
          (flat_map enc_u32 (concat (k1_data c)) ++ flat_map enc_u32 (concat (k1_conf c))))
    by (rewrite !flat_map_enc, <- !app_assoc; reflexivity).
  apply RTq_bind with (a := (k1_fps c, k1_frames_field c)); [apply RTp_RTq; now apply u16x2_rt|].
  apply RTq_bind with (a := P); [apply RTp_RTq; now apply rd_u16_rt|].
  change (total_points h) with T. rewrite Hnd. cbn [plift pbind].
  apply RTq_bytesleft.
  set (payload := flat_map enc_u32 (concat (k1_data c)) ++ flat_map enc_u32 (concat (k1_conf c))).
  assert (Hpay : Z.of_N (lenN payload + lenN (@nil N)) = (F * (Z.of_N P * Z.of_N T * (Z.of_N D + 1) * 4))%Z).
  { unfold payload. rewrite lenN_app, !lenN_flat_enc_u32, Hld, Hlc. unfold F, lenN at 3. cbn [length]. nia. }
  rewrite Hpay.
  rewrite py_int_truediv_exact by (unfold F; nia). cbn [plift pbind fst].
  change (f32_of_u16 (k1_fps c)) with (fps_value (k1_fps c)). rewrite Hrs, Hre. cbn [plift pbind].
  change (fps_value (k1_fps c)) with (f32_of_u16 (k1_fps c)).
  apply RTp_RTq.
  pose proof (tail01_rt (f32_of_u16 (k1_fps c)) P T (Z.of_N D) F (concat (k1_data c)) (concat (k1_conf c)) s e) as HT.
  unfold tail01 in HT.
  replace (v01_window_body c (start0 s) (end0 e F)) with
    {| b_fps := f32_of_u16 (k1_fps c);
       b_shape := [Z.to_N (end0 e F - start0 s); P; T; Z.to_N (Z.of_N D)];
       b_data := window_words (concat (k1_data c)) (start0 s) (end0 e F) (Z.of_N (P * T) * Z.of_N D);
       b_conf := window_words (concat (k1_conf c)) (start0 s) (end0 e F) (Z.of_N (P * T));
       b_mask := map is_zero32 (window_words (concat (k1_conf c)) (start0 s) (end0 e F) (Z.of_N (P * T))) |}.
  - apply HT.
    + apply Forall_concat. exact Hdw.
    + apply Forall_concat. exact Hcw.
    + unfold F. lia.
    + lia.
    + rewrite Hld. unfold F. nia.
    + rewrite Hlc. unfold F. nia.
    + exact Hv1.
    + exact Hv2.
  - (* the window of the flat arrays is the concatenation of the window's frames *)
    assert (He0 : (end0 e F <= F)%Z) by (unfold end0; destruct e; lia).
    assert (Hs0 : (0 <= start0 s)%Z) by (unfold start0; destruct s as [z|]; [destruct (0 <? z)%Z eqn:E|]; lia).
    set (s0 := start0 s) in *. set (e0 := end0 e F) in *.
    unfold v01_window_body, v01_view. cbn [p_body]. fold h P T D.
    assert (Ew : forall (fr : list (list N)) cells, Forall (fun x => lenN x = cells) fr ->
              window_words (concat fr) s0 e0 (Z.of_N cells) = concat (takeN (Z.to_N e0 - Z.to_N s0) (dropN (Z.to_N s0) fr))).
    { intros fr cells Hu. unfold window_words.
      replace (Z.to_N (s0 * Z.of_N cells)) with (Z.to_N s0 * cells) by nia.
      replace (Z.to_N ((e0 - s0) * Z.of_N cells)) with ((Z.to_N e0 - Z.to_N s0) * cells) by nia.
      rewrite dropN_concat_uniform by exact Hu.
      apply takeN_concat_uniform. now apply Forall_dropN. }
    replace (Z.of_N (P * T) * Z.of_N D)%Z with (Z.of_N (P * T * D)) by lia.
    rewrite (Ew _ _ Hdl), (Ew _ _ Hcl). change (fps_value (k1_fps c)) with (f32_of_u16 (k1_fps c)).
    f_equal. f_equal; [lia|]. f_equal. f_equal. f_equal. lia.
Qed.

(* a start at or beyond the last frame: ValueError (raised by read_v0_1_frames before the first tensor is read) *)
Theorem v01_body_beyond c sf st ef et s e : wf01 c ->
  let F := Z.of_N (lenN (k1_data c)) in
  conflict sf st = false -> conflict ef et = false ->
  resolve_start (fps_value (k1_fps c)) sf st = Ok s -> resolve_end (fps_value (k1_fps c)) ef et = Ok e ->
  (0 < start0 s)%Z -> (F <= start0 s)%Z ->
  FLq (read_v0_1 (k1_header c) sf st ef et) (spec_body01 c) [] Value.
Proof.
  intros Hwf F Hc1 Hc2 Hrs Hre Hv1 Hv2.
  destruct (v01_counts c Hwf) as [Hne [Hnd HD1]].
  destruct Hwf as [Hh [Hver [Hfps [Hff [HP [HP1 [HT1 [HL [Hlen [HF53 [Hdat Hcnf]]]]]]]]]]].
  set (h := k1_header c) in *. set (P := k1_people c) in *. set (T := spec_points h) in *. set (D := spec_dims h) in *.
  pose proof (Forall_and_l _ _ _ Hdat) as Hdl. pose proof (Forall_and_l _ _ _ Hcnf) as Hcl.
  assert (HlenN : lenN (k1_conf c) = lenN (k1_data c)) by (unfold lenN; now rewrite Hlen).
  assert (Hld : lenN (concat (k1_data c)) = lenN (k1_data c) * (P * T * D)) by (now apply lenN_concat_uniform).
  assert (Hlc : lenN (concat (k1_conf c)) = lenN (k1_data c) * (P * T)) by (rewrite <- HlenN; now apply lenN_concat_uniform).
  rewrite read_v0_1_shape, Hc1, Hc2. cbn [orb]. unfold spec_body01, body01. fold h P T.
  replace (enc_u16 (k1_fps c) ++ enc_u16 (k1_frames_field c) ++ enc_u16 P ++
           concat (map enc_u32 (concat (k1_data c))) ++ concat (map enc_u32 (concat (k1_conf c))))
    with ((enc_u16 (k1_fps c) ++ enc_u16 (k1_frames_field c)) ++ enc_u16 P ++
          (flat_map enc_u32 (concat (k1_data c)) ++ flat_map enc_u32 (concat (k1_conf c))))
    by (rewrite !flat_map_enc, <- !app_assoc; reflexivity).
  apply FLq_bind with (a := (k1_fps c, k1_frames_field c)); [apply RTp_RTq; now apply u16x2_rt|].
  apply FLq_bind with (a := P); [apply RTp_RTq; now apply rd_u16_rt|].
  change (total_points h) with T. rewrite Hnd. cbn [plift pbind].
  apply FLq_bytesleft.
  set (payload := flat_map enc_u32 (concat (k1_data c)) ++ flat_map enc_u32 (concat (k1_conf c))).
  assert (Hpay : Z.of_N (lenN payload + lenN (@nil N)) = (F * (Z.of_N P * Z.of_N T * (Z.of_N D + 1) * 4))%Z).
  { unfold payload. rewrite lenN_app, !lenN_flat_enc_u32, Hld, Hlc. unfold F, lenN at 3. cbn [length]. nia. }
  rewrite Hpay.
  rewrite py_int_truediv_exact by (unfold F; nia). cbn [plift pbind fst].
  change (f32_of_u16 (k1_fps c)) with (fps_value (k1_fps c)). rewrite Hrs, Hre. cbn [plift pbind].
  rewrite read_frames_beyond by assumption. cbn [pbind]. apply FLq_fail.
Qed.

(* ---------- Pose.read ---------- *)
Lemma spec_header_parsed h body : wf_header h ->
  run_plain rd_header {| pbuf := spec_header h ++ body; poff := 0 |} =
  Ok (h, {| pbuf := spec_header h ++ body; poff := lenN (spec_header h) |}).
Proof. intros Hh. pose proof (spec_header_rt h Hh [] body) as H. cbn [app] in H. exact H. Qed.

Lemma noAdv_plift {A} (r : result A) : noAdv (plift r).
Proof. destruct r; exact I. Qed.
Lemma noAdv_read_v0_1 h sf st ef et : noAdv (read_v0_1 h sf st ef et).
Proof.
  rewrite read_v0_1_shape. destruct (conflict sf st || conflict ef et); [exact I|]. unfold body01.
  apply noAdv_bind; [cbn; auto|]. intros ff.
  apply noAdv_bind; [cbn; auto|]. intros P.
  apply noAdv_bind; [apply noAdv_plift|]. intros D.
  cbn [noAdv]. intros z.
  apply noAdv_bind; [apply noAdv_plift|]. intros F.
  apply noAdv_bind; [apply noAdv_plift|]. intros s.
  apply noAdv_bind; [apply noAdv_plift|]. intros e.
  apply noAdv_bind; [apply v2prog_noAdv, v2prog_read_frames|]. intros dat.
  apply noAdv_bind; [apply v2prog_noAdv, v2prog_read_frames|]. intros cnf.
  apply noAdv_plift.
Qed.

Definition frames01 (c : content01) : Z := Z.of_N (lenN (k1_data c)).
(* the window the arguments denote for this recording, and what makes it one the decoder accepts: the start is the first
   frame or lies inside the recording, and the (clipped) end is not before it *)
Definition window01 (c : content01) (a : rargs) : result (Z * Z) := window_of (fps_value (k1_fps c)) (frames01 c) a.
Definition valid_window (F : Z) (s0 e0 : Z) : Prop := (s0 = 0 \/ s0 < F)%Z /\ (s0 <= e0)%Z.

Theorem v01_read_bytes c m a s0 e0 : wf01 c -> MemoOK m -> window01 c a = Ok (s0, e0) -> valid_window (frames01 c) s0 e0 ->
  fst (read_bytes c04_legacy m (spec01 c) a) = Ok (v01_view c (Z.to_N s0) (Z.to_N e0)).
Proof.
  intros Hwf Hm Hw [Hv1 Hv2].
  destruct (window_of_inv _ _ _ _ _ Hw) as [Hc1 [Hc2 [s [e [Hrs [Hre [-> ->]]]]]]].
  pose proof Hwf as [Hh [Hver _]].
  unfold spec01.
  rewrite (bytes_header c04_legacy m _ a _ _ Hm (spec_header_parsed _ (spec_body01 c) Hh)).
  unfold read_body, read_body_with. rewrite Hver. cbn [c04_legacy].
  rewrite (RTq_run _ _ _ (v01_body_rt c _ _ _ _ s e Hwf Hc1 Hc2 Hrs Hre Hv1 Hv2) (spec_header (k1_header c))).
  reflexivity.
Qed.

Theorem v01_read_stream c m a s0 e0 : wf01 c -> MemoOK m -> window01 c a = Ok (s0, e0) -> valid_window (frames01 c) s0 e0 ->
  fst (fst (read_stream4 c04_legacy m (spec01 c) a)) = Ok (v01_view c (Z.to_N s0) (Z.to_N e0)).
Proof.
  intros Hwf Hm Hw Hv.
  destruct (any_arg a) eqn:Ha.
  - pose proof Hwf as [Hh [Hver _]].
    apply (stream4_of_bytes_noAdv c04_legacy m (spec01 c) a (k1_header c) (lenN (spec_header (k1_header c)))); try assumption.
    + apply spec_header_parsed. exact Hh.
    + unfold read_body, read_body_with. rewrite Hver. apply noAdv_read_v0_1.
    + now apply v01_read_bytes.
  - rewrite read_stream4_noargs by exact Ha. now apply v01_read_bytes.
Qed.

(* frame bounds only (the theorem as it stood before the decoder took time bounds) *)
Definition v01_expected (c : content01) (a : rargs) : pose :=
  v01_view c (Z.to_N (start0 (a_sf a))) (Z.to_N (end0 (a_ef a) (frames01 c))).
Corollary v01_read_frames c m a : wf01 c -> MemoOK m -> a_st a = None -> a_et a = None ->
  valid_window (frames01 c) (start0 (a_sf a)) (end0 (a_ef a) (frames01 c)) ->
  fst (read_bytes c04_legacy m (spec01 c) a) = Ok (v01_expected c a) /\
  fst (fst (read_stream4 c04_legacy m (spec01 c) a)) = Ok (v01_expected c a).
Proof.
  intros Hwf Hm Hs He Hv. pose proof (window_of_frames (fps_value (k1_fps c)) (frames01 c) a Hs He) as Hw.
  split; [now apply v01_read_bytes|now apply v01_read_stream].
Qed.

(* the whole file: no bound given *)
Lemma takeN_all_frames {X} (l : list X) : takeN (lenN l - 0) (dropN 0 l) = l.
Proof. rewrite dropN_0. apply takeN_all. lia. Qed.
Definition v01_full (c : content01) : pose := v01_view c 0 (lenN (k1_data c)).
Corollary v01_read_full c m a : wf01 c -> MemoOK m -> any_arg a = false ->
  fst (read_bytes c04_legacy m (spec01 c) a) = Ok (v01_full c) /\
  fst (fst (read_stream4 c04_legacy m (spec01 c) a)) = Ok (v01_full c).
Proof.
  intros Hwf Hm Ha.
  assert (E : a_sf a = None /\ a_st a = None /\ a_ef a = None /\ a_et a = None).
  { unfold any_arg in Ha. destruct (a_sf a), (a_st a), (a_ef a), (a_et a); try discriminate. repeat split. }
  destruct E as [Hsf [Hst [Hef Het]]].
  assert (Hv : valid_window (frames01 c) (start0 (a_sf a)) (end0 (a_ef a) (frames01 c))).
  { unfold valid_window, frames01. rewrite Hsf, Hef. cbn [start0 end0]. lia. }
  assert (E : v01_expected c a = v01_full c).
  { unfold v01_expected, v01_full, frames01. rewrite Hsf, Hef. cbn [start0 end0]. f_equal. lia. }
  rewrite <- E. now apply v01_read_frames.
Qed.

(* ---------- refused arguments ---------- *)
(* a frame and a time bound for the same end: ValueError before the body is touched *)
Theorem v01_conflict_bytes c m a : wf01 c -> MemoOK m ->
  conflict (a_sf a) (a_st a) || conflict (a_ef a) (a_et a) = true ->
  fst (read_bytes c04_legacy m (spec01 c) a) = Err Value.
Proof.
  intros Hwf Hm Hc. pose proof Hwf as [Hh [Hver _]]. unfold spec01.
  rewrite (bytes_header c04_legacy m _ a _ _ Hm (spec_header_parsed _ (spec_body01 c) Hh)).
  unfold read_body, read_body_with. rewrite Hver. cbn [c04_legacy]. rewrite read_v0_1_shape, Hc. reflexivity.
Qed.
Theorem v01_conflict_stream c m a : wf01 c -> MemoOK m ->
  conflict (a_sf a) (a_st a) || conflict (a_ef a) (a_et a) = true ->
  fst (fst (read_stream4 c04_legacy m (spec01 c) a)) = Err Value.
Proof.
  intros Hwf Hm Hc. destruct (any_arg a) eqn:Ha.
  - pose proof Hwf as [Hh [Hver _]].
    apply (stream4_fail_noAdv c04_legacy m (spec01 c) a (k1_header c) (lenN (spec_header (k1_header c)))); try assumption.
    + apply spec_header_parsed. exact Hh.
    + unfold read_body, read_body_with. rewrite Hver. apply noAdv_read_v0_1.
    + unfold read_body, read_body_with. rewrite Hver. cbn [c04_legacy]. rewrite read_v0_1_shape, Hc. reflexivity.
  - rewrite read_stream4_noargs by exact Ha. now apply v01_conflict_bytes.
Qed.
(* a start at or beyond the last frame, given as a frame or as a time: ValueError *)
Lemma v01_beyond_fails c a s0 e0 : wf01 c -> window01 c a = Ok (s0, e0) -> (0 < s0)%Z -> (frames01 c <= s0)%Z ->
  fails_at (read_body c04_legacy (k1_header c) a)
           {| pbuf := spec01 c; poff := lenN (spec_header (k1_header c)) |} Value.
Proof.
  intros Hwf Hw H0 HF.
  destruct (window_of_inv _ _ _ _ _ Hw) as [Hc1 [Hc2 [s [e [Hrs [Hre [-> ->]]]]]]].
  pose proof Hwf as [Hh [Hver _]].
  unfold read_body, read_body_with. rewrite Hver. cbn [c04_legacy]. unfold spec01.
  exact (FLq_at _ _ _ (v01_body_beyond c _ _ _ _ s e Hwf Hc1 Hc2 Hrs Hre H0 HF) (spec_header (k1_header c))).
Qed.
Theorem v01_beyond_bytes c m a s0 e0 : wf01 c -> MemoOK m -> window01 c a = Ok (s0, e0) -> (0 < s0)%Z -> (frames01 c <= s0)%Z ->
  fst (read_bytes c04_legacy m (spec01 c) a) = Err Value.
Proof.
  intros Hwf Hm Hw H0 HF. pose proof Hwf as [Hh _].
  apply (bytes_fail c04_legacy m (spec01 c) a (k1_header c) (lenN (spec_header (k1_header c)))); [exact Hm| |].
  - apply spec_header_parsed. exact Hh.
  - now apply (v01_beyond_fails c a s0 e0).
Qed.
Theorem v01_beyond_stream c m a s0 e0 : wf01 c -> MemoOK m -> window01 c a = Ok (s0, e0) -> (0 < s0)%Z -> (frames01 c <= s0)%Z ->
  fst (fst (read_stream4 c04_legacy m (spec01 c) a)) = Err Value.
Proof.
  intros Hwf Hm Hw H0 HF. destruct (any_arg a) eqn:Ha.
  - pose proof Hwf as [Hh [Hver _]].
    apply (stream4_fail_noAdv c04_legacy m (spec01 c) a (k1_header c) (lenN (spec_header (k1_header c)))); try assumption.
    + apply spec_header_parsed. exact Hh.
    + unfold read_body, read_body_with. rewrite Hver. apply noAdv_read_v0_1.
    + now apply (v01_beyond_fails c a s0 e0).
  - rewrite read_stream4_noargs by exact Ha. now apply (v01_beyond_bytes c m a s0 e0).
Qed.
