(* C16 tie lemmas: the declarative facts regenerated from /repo on every run (coq/gen/Gen_C16.v, written by
   harness/translate_c16.py) equal the literals the hand-written model coq/model/C16_Frames.v was written from.
   An edit of one of the anchored functions changes a generated string and breaks the lemma that quotes it.
   The cap constant is NOT tied to a literal: the theorems use the regenerated value itself (proofs/C16_Cap.v,
   proofs/C16_CapAll.v re-prove 0 <= int(n * CAP) < n for whatever finite constant the source contains). *)
From Coq Require Import String List ZArith NArith Bool.
Require Import Gen_C16.
Import ListNotations.
Open Scope string_scope.

Lemma generic_dropout_stmts_tie : Gen_C16.generic_dropout_stmts =
  [ "data_len = len(self.data)";
    "dropout_number = min(int(data_len * dropout_percent), int(data_len * CAP))";
    "dropout_indexes = set(sample(range(0, data_len), dropout_number))";
    "select_indexes = [i for i in range(0, data_len) if i not in dropout_indexes]";
    "return (self.select_frames(select_indexes), select_indexes)" ].
Proof. reflexivity. Qed.

Lemma generic_select_stmts_tie : Gen_C16.generic_select_stmts =
  [ "data = self.data[frame_indexes]";
    "confidence = self.confidence[frame_indexes]";
    "return self.__class__(fps=self.fps, data=data, confidence=confidence)" ].
Proof. reflexivity. Qed.

Lemma uniform_stmts_tie : Gen_C16.uniform_stmts =
  [ "dropout_percent = np.random.uniform(low=dropout_min, high=dropout_max, size=1)[0]";
    "return self.frame_dropout_given_percent(dropout_percent)" ].
Proof. reflexivity. Qed.

Lemma normal_stmts_tie : Gen_C16.normal_stmts =
  [ "dropout_percent = np.abs(np.random.normal(loc=dropout_mean, scale=dropout_std, size=1))[0]";
    "return self.frame_dropout_given_percent(dropout_percent)" ].
Proof. reflexivity. Qed.

Lemma slice_step_stmts_tie : Gen_C16.slice_step_stmts =
  [ "new_data = self.data[::by]";
    "new_confidence = self.confidence[::by]";
    "new_fps = self.fps / by";
    "return self.__class__(fps=new_fps, data=new_data, confidence=new_confidence)" ].
Proof. reflexivity. Qed.

Lemma tf_dropout_stmts_tie : Gen_C16.tf_dropout_stmts =
  [ "data_len = tf.shape(self.data.tensor)[0]";
    "number_drop = tf.squeeze(tf.cast(data_len, dtype=tf.float32) * dropout_percent)";
    "number_drop = tf.cast(number_drop, dtype=tf.int32)";
    "number_sample = tf.maximum(1, data_len - number_drop)";
    "idxs = tf.range(data_len, dtype=tf.int32)";
    "select_indexes = tf.sort(tf.random.shuffle(idxs)[:number_sample])";
    "select_indexes = tf.cast(select_indexes, dtype=tf.int32)";
    "return (self.select_frames(select_indexes), select_indexes)" ].
Proof. reflexivity. Qed.

Lemma tf_select_stmts_tie : Gen_C16.tf_select_stmts =
  [ "data = self.data.gather(frame_indexes)";
    "confidence = tf.gather(self.confidence, frame_indexes)";
    "return self.__class__(fps=self.fps, data=data, confidence=confidence)" ].
Proof. reflexivity. Qed.

Lemma tf_uniform_stmts_tie : Gen_C16.tf_uniform_stmts =
  [ "dropout_percent = tf.random.uniform([1], minval=dropout_min, maxval=dropout_max)[0]";
    "return self.frame_dropout_given_percent(dropout_percent)" ].
Proof. reflexivity. Qed.

Lemma tf_normal_stmts_tie : Gen_C16.tf_normal_stmts =
  [ "dropout_percent = tf.random.normal([1], mean=dropout_mean, stddev=dropout_std)[0]";
    "dropout_percent = tf.maximum(dropout_percent, tf.constant([0.0]))";
    "return self.frame_dropout_given_percent(dropout_percent)" ].
Proof. reflexivity. Qed.

Lemma tf_gather_stmts_tie : Gen_C16.tf_gather_stmts =
  [ "tensor = tf.gather(self.tensor, indexes)";
    "mask = tf.gather(self.mask, indexes)";
    "return MaskedTensor(tensor=tensor, mask=mask)" ].
Proof. reflexivity. Qed.

Lemma tf_getitem_stmts_tie : Gen_C16.tf_getitem_stmts =
  [ "if isinstance(key, list):\n    key = tf.constant(key, dtype=tf.int32)\n    tensor = tf.gather(self.tensor, key)\n    mask = tf.gather(self.mask, key)\nelse:\n    tensor = self.tensor[key]\n    mask = self.mask[key]";
    "return MaskedTensor(tensor=tensor, mask=mask)" ].
Proof. reflexivity. Qed.

Lemma torch_getitem_stmts_tie : Gen_C16.torch_getitem_stmts =
  [ "tensor = self.tensor[key]";
    "mask = self.mask[key]";
    "return MaskedTensor(tensor=tensor, mask=mask)" ].
Proof. reflexivity. Qed.

Lemma torch_len_stmts_tie : Gen_C16.torch_len_stmts =
  [ "return self.tensor.shape[0]" ].
Proof. reflexivity. Qed.

Lemma pose_uniform_stmts_tie : Gen_C16.pose_uniform_stmts =
  [ "body, selected_indexes = self.body.frame_dropout_uniform(dropout_min=dropout_min, dropout_max=dropout_max)";
    "return (Pose(header=self.header, body=body), selected_indexes)" ].
Proof. reflexivity. Qed.

Lemma pose_normal_stmts_tie : Gen_C16.pose_normal_stmts =
  [ "body, selected_indexes = self.body.frame_dropout_normal(dropout_mean=dropout_mean, dropout_std=dropout_std)";
    "return (Pose(header=self.header, body=body), selected_indexes)" ].
Proof. reflexivity. Qed.

Lemma getattr_stmts_tie : Gen_C16.getattr_stmts =
  [ "if attr not in Pose.pass_through_methods:\n    raise AttributeError(""Attribute '%s' doesn't exist on class Pose"" % attr)";
    "def func(*args, **kwargs):\n    prop = getattr(self.body, attr)\n    body_res = prop(*args, **kwargs)\n    if isinstance(body_res, PoseBody):\n        header = self.header\n        if hasattr(header, attr):\n            header_res = getattr(header, attr)(*args, **kwargs)\n            if isinstance(header_res, PoseHeader):\n                header = header_res\n        return Pose(header, body_res)\n    return body_res";
    "return func" ].
Proof. reflexivity. Qed.

Lemma body_overrides_tie : Gen_C16.body_overrides =
  [ "TensorflowPoseBody.select_frames";
    "TensorflowPoseBody.frame_dropout_given_percent";
    "TensorflowPoseBody.frame_dropout_uniform";
    "TensorflowPoseBody.frame_dropout_normal" ].
Proof. reflexivity. Qed.

(* Pose.__getattr__("slice_step"): the name is listed in pass_through_methods and PoseHeader has no attribute of that
   name, so the header object is passed on unchanged (the model's [pose_slice_step true false]) *)
Definition has (s : string) (l : list string) : bool := existsb (String.eqb s) l.
Lemma slice_step_pass_through_tie :
  Gen_C16.slice_step_listed = true /\ has "slice_step" Gen_C16.pass_through_methods = true /\
  Gen_C16.header_has_slice_step = false /\ has "slice_step" Gen_C16.header_attrs = false.
Proof. repeat split; reflexivity. Qed.
(* the Pose class itself defines the two dropout wrappers (they are not reached through __getattr__) *)
