(* C05: parsePose on a v0.1 file of the reference encoder (docs/specs/v0.1.md). *)
From Coq Require Import ZArith NArith List Lia ZifyBool ZifyN ZifyNat Bool Arith.
Require Import ListN Result Bytes Utf8 Utf8S F32 Prog Tensor Codec ProgLemmas CodecRT
  C05_JsParser C05_Spec C05_View C05_Lemmas C05_Header C05_HeaderView C05_Body C05_Index C05_Cells C05_Main.
Import ListNotations.
Open Scope N_scope.

Definition info_obj_v01 (fps F P : N) : obj :=
  [(k_fps, VNum (Z.of_N fps)); (k__frames, VNum (Z.of_N F)); (k__people, VNum (Z.of_N P))].
Definition lcomps (q : lpose) : list component := map canon_comp (l_comps q).
Definition jbody_v01 (q : lpose) : jbody :=
  {| jb_info := info_obj_v01 (l_fps q) (l_F q) (l_P q);
     jb_frames := Z.of_N (l_F q); jb_people := Z.of_N (l_P q); jb_points := Z.of_N (l_T q); jb_dims := Z.of_N (l_D q);
     jb_data := l_data q; jb_conf := l_conf q |}.
Lemma js_class_v01 : js_version_class v01_word = V01.
Proof. vm_compute. reflexivity. Qed.

Theorem js_parse_v01 q bs : spec_v01 q = Ok bs -> wf_lpose q -> Forall wcomp_plain (l_comps q) ->
  exists h, write_header (l_dims q) (l_comps q) = Ok h /\
  parse_pose bs = Some {| jp_header := js_header_obj (header_of_v v01_word (l_dims q) (l_comps q)) (lenN h);
                          jp_info := info_obj_v01 (l_fps q) (l_F q) (l_P q);
                          jp_nframes := Z.of_N (l_F q);
                          jp_frame := js_frame_rep (map jcomp_of_comp (lcomps q)) (jbody_v01 q) |}.
Proof.
  intros H [Hfps [HF [HP [Hdw [Hcw [HT [Hnd [Hld Hlc]]]]]]]] Hplain.
  unfold spec_v01 in H. apply rbind_ok in H. destruct H as [h [Hh H]]. apply Ok_inj in H. subst bs.
  exists h. split; [exact Hh|].
  assert (Hv : v01_word < 4294967296) by reflexivity.
  destruct (js_header_obj_eq_v v01_word _ _ h
              (enc_u16 (l_fps q) ++ enc_u16 (l_F q) ++ enc_u16 (l_P q) ++ flat_map enc_u32 (l_data q) ++ flat_map enc_u32 (l_conf q))
              Hv Hh) as [Hparse Hlen].
  set (hv := with_version v01_word h) in *.
  set (hd := header_of_v v01_word (l_dims q) (l_comps q)) in *.
  unfold parse_pose. rewrite Hparse.
  assert (Ev : obj_get (js_header_obj hd (lenN h)) k_version = Some (VF32 v01_word)).
  { unfold js_header_obj, hd. cbn [header_of_v h_dims h_version]. kred. reflexivity. }
  assert (Ehl : get_num (js_header_obj hd (lenN h)) k_headerLength = Some (Z.of_N (lenN h))).
  { unfold js_header_obj. destruct (h_dims hd) as [[w hh] d]. kred. reflexivity. }
  rewrite Ev, header_comps_obj, Ehl, js_class_v01.
  replace (h_comps hd) with (lcomps q) by reflexivity.
  (* parseBodyV0_1, version 0.1 *)
  unfold parse_body_v01. rewrite Ehl. unfold lcomps. rewrite (js_dims_eq _ _ Hplain Hnd).
  rewrite js_points_eq. rewrite map_map.
  change (sumN (map (fun x : wcomponent => lenN (c_points (canon_comp x))) (l_comps q))) with (total_points_w (l_comps q)).
  rewrite <- HT. rewrite N2Z.id.
  unfold parse, js_little, info_v01_schema. rewrite run_seek. change (0 + lenN h) with (lenN h). rewrite <- Hlen.
  rewrite (run_u16 _ _ _ hv (l_fps q)) by exact Hfps.
  rewrite run_u16 by exact HF. rewrite run_u16 by exact HP. cbn [run].
  set (info := obj_set _ k__people _).
  assert (Ei : info = info_obj_v01 (l_fps q) (l_F q) (l_P q)) by reflexivity.
  assert (Ef : get_num info k__frames = Some (Z.of_N (l_F q))) by reflexivity.
  assert (Ep : get_num info k__people = Some (Z.of_N (l_P q))) by reflexivity.
  rewrite Ef, Ep.
  unfold js_data_len, js_conf_len, js_data_start, info_size_v01.
  set (dw := l_data q) in *. set (cw := l_conf q) in *.
  set (pre := ((hv ++ enc_u16 (l_fps q)) ++ enc_u16 (l_F q)) ++ enc_u16 (l_P q)).
  replace (Z.of_N (l_F q) * Z.of_N (l_P q) * Z.of_N (l_T q) * Z.of_N (l_D q))%Z with (Z.of_N (lenN dw)) by lia.
  replace (Z.of_N (lenN hv) + 6)%Z with (Z.of_N (lenN pre)) by (unfold pre; rewrite !lenN_app, !enc_u16_len; lia).
  assert (Eb : hv ++ enc_u16 (l_fps q) ++ enc_u16 (l_F q) ++ enc_u16 (l_P q) ++ flat_map enc_u32 dw ++ flat_map enc_u32 cw
               = pre ++ flat_map enc_u32 dw ++ flat_map enc_u32 cw) by (unfold pre; rewrite <- !app_assoc; reflexivity).
  rewrite Eb.
  rewrite (read_f32_array_enc pre dw (flat_map enc_u32 cw)) by exact Hdw.
  replace (Z.of_N (l_F q) * Z.of_N (l_P q) * Z.of_N (l_T q))%Z with (Z.of_N (lenN cw)) by lia.
  replace (Z.of_N (lenN pre) + 4 * Z.of_N (lenN dw))%Z with (Z.of_N (lenN (pre ++ flat_map enc_u32 dw)))
    by (rewrite lenN_app, lenN_flat_enc_u32; lia).
  assert (Eb2 : pre ++ flat_map enc_u32 dw ++ flat_map enc_u32 cw = (pre ++ flat_map enc_u32 dw) ++ flat_map enc_u32 cw ++ [])
    by (rewrite app_nil_r, app_assoc; reflexivity).
  rewrite Eb2.
  rewrite (read_f32_array_enc (pre ++ flat_map enc_u32 dw) cw []) by exact Hcw.
  rewrite Ei. rewrite Hlen. reflexivity.
Qed.

Open Scope nat_scope.
(* the v0.1 file holds header fields, (fps, frames, people) and the two tensors; parsePose reports exactly those.
   (That Pose.read returns the same content for such a file is C04's v01_decodes.) *)
Theorem js_v01_eq q bs : spec_v01 q = Ok bs -> wf_lpose q -> Forall wcomp_plain (l_comps q) ->
  exists h jp, write_header (l_dims q) (l_comps q) = Ok h /\ parse_pose bs = Some jp /\
    header_view (jp_header jp) = Some (header_of_v v01_word (l_dims q) (l_comps q), lenN h) /\
    info_view_v01 (jp_info jp) = Some (l_fps q, l_F q, l_P q) /\ jp_nframes jp = Z.of_N (l_F q) /\
    let F := N.to_nat (l_F q) in let P := N.to_nat (l_P q) in let T := N.to_nat (l_T q) in let D := N.to_nat (l_D q) in
    forall i j n l c, i < F -> j < P -> nth_error (lcomps q) n = Some c -> l < length (c_points c) ->
      ~ In (c_name c) (map c_name (skipn (S n) (lcomps q))) ->
      let t := point_offset (lcomps q) n + l in
      js_cell (jp_frame jp (Z.of_nat i)) j (c_name c) l 67 = Some (VF32 (tget 0%N (mkT [F; P; T] (l_conf q)) [i; j; t])) /\
      forall d x, nth_error (c_format c) d = Some x -> x <> 67%N -> coord_index (c_format c) d < D -> ~ In x (skipn (S d) (c_format c)) ->
        js_cell (jp_frame jp (Z.of_nat i)) j (c_name c) l x = Some (VF32 (tget 0%N (mkT [F; P; T; D] (l_data q)) [i; j; t; coord_index (c_format c) d])).
Proof.
  intros H Hwf Hplain. destruct (js_parse_v01 q bs H Hwf Hplain) as [h [Hh Hparse]].
  destruct Hwf as [Hfps [HF [HP [Hdw [Hcw [HT [Hnd [Hld Hlc]]]]]]]].
  exists h. eexists. split; [exact Hh|]. split; [exact Hparse|]. cbn [jp_header jp_info jp_nframes jp_frame].
  assert (Hnb : Forall comp_no_bom (lcomps q)).
  { apply canon_no_bom. eapply Forall_impl; [|exact Hplain]. intros a Ha. exact (proj1 Ha). }
  split; [apply header_view_obj; exact Hnb|].
  split; [unfold info_view_v01, info_obj_v01; kred; now rewrite !vnum_of_N|].
  split; [reflexivity|].
  set (F := N.to_nat (l_F q)). set (P := N.to_nat (l_P q)). set (T := N.to_nat (l_T q)). set (D := N.to_nat (l_D q)).
  assert (H1 : jb_people (jbody_v01 q) = Z.of_nat P) by (unfold P; cbn [jbody_v01 jb_people]; lia).
  assert (H2 : jb_points (jbody_v01 q) = Z.of_nat T) by (unfold T; cbn [jbody_v01 jb_points]; lia).
  assert (H3 : jb_dims (jbody_v01 q) = Z.of_nat D) by (unfold D; cbn [jbody_v01 jb_dims]; lia).
  assert (H4 : T = total_points_nat (lcomps q)).
  { unfold T. rewrite <- sumN_nat. unfold lcomps. rewrite map_map. cbn [canon_comp c_points]. unfold total_points_w in HT. now rewrite HT. }
  assert (H5 : length (jb_data (jbody_v01 q)) = F * P * T * D) by (unfold F, P, T, D; cbn [jbody_v01 jb_data]; unfold lenN in Hld; lia).
  assert (H6 : length (jb_conf (jbody_v01 q)) = F * P * T) by (unfold F, P, T; cbn [jbody_v01 jb_conf]; unfold lenN in Hlc; lia).
  exact (js_cells_eq (lcomps q) F P T D (jbody_v01 q) Hnb H1 H2 H3 H4 H5 H6).
Qed.
