(* C10 - index arithmetic: in-range multi-indices, broadcasting against a kept (extent 1) axis, slices. *)
From Coq Require Import List Arith ZArith Bool Lia.
Require Import Result Tensor C10_Tensor C10_TensorLemmas.
Import ListNotations.

Lemma in_range_length s ix : in_range s ix -> length ix = length s.
Proof. induction 1; cbn; congruence. Qed.
Lemma unravel_in_range s : forall k, k < prod s -> in_range s (unravel s k).
Proof. induction s as [|d s IH]; intros k Hk; cbn [unravel]; [constructor|].
  cbn [prod fold_right] in Hk. fold (prod s) in Hk.
  assert (Hp : prod s <> 0) by (intros E; rewrite E in Hk; lia).
  constructor.
  - apply Nat.div_lt_upper_bound; [exact Hp|]. lia.
  - apply IH. now apply Nat.mod_upper_bound. Qed.
Lemma bcast_pair_id s ix : in_range s ix -> bcast_pair ix s = ix.
Proof. induction 1 as [|i e ix s Hi _ IH]; cbn; [reflexivity|]. rewrite IH. f_equal.
  destruct (Nat.eqb_spec e 1); lia. Qed.
Lemma bcast_ix_id s ix : in_range s ix -> bcast_ix s ix = ix.
Proof. intros H. unfold bcast_ix. rewrite (in_range_length _ _ H), Nat.sub_diag. cbn [skipn]. now apply bcast_pair_id. Qed.
Lemma bget_same {X} (d : X) (t : tensor X) k : k < prod (shape t) -> bget d (shape t) t k = nth k (data t) d.
Proof. intros Hk. unfold bget. rewrite bcast_ix_id by now apply unravel_in_range. now rewrite ravel_unravel. Qed.
Lemma bzip_same {X Y Z} (dx : X) (dy : Y) (g : X -> Y -> Z) a b : shape a = shape b ->
  bzip dx dy g a b = Ok (tabulate (shape a) (fun k => g (nth k (data a) dx) (nth k (data b) dy))).
Proof. intros Hs. unfold bzip. rewrite <- Hs, broadcast_shapes_same. cbn [rbind]. f_equal. apply tabulate_ext. intros k Hk.
  rewrite bget_same by exact Hk. rewrite Hs. rewrite bget_same by (now rewrite <- Hs). reflexivity. Qed.

Lemma nth_map_seq {X} (c : nat -> X) n k d : k < n -> nth k (map c (seq 0 n)) d = c k.
Proof. intros H. rewrite (nth_indep _ d (c 0)) by (now rewrite map_length, seq_length).
  rewrite (map_nth c (seq 0 n) 0 k). now rewrite seq_nth. Qed.

(* ---- insert / remove / replace at a position *)
Lemma remove_at_S {A} d (x : A) l : remove_at (S d) (x :: l) = x :: remove_at d l.
Proof. reflexivity. Qed.
Lemma insert_at_S {A} d (y x : A) l : insert_at (S d) y (x :: l) = x :: insert_at d y l.
Proof. reflexivity. Qed.
Lemma replace_at_S {A} d (y x : A) l : replace_at (S d) y (x :: l) = x :: replace_at d y l.
Proof. reflexivity. Qed.
Lemma in_range_insert d : forall s j i, d < length s -> in_range (remove_at d s) j -> i < nth d s 0 -> in_range s (insert_at d i j).
Proof. induction d as [|d IH]; intros [|e s] j i Hd Hj Hi; cbn [length] in Hd; try lia.
  - unfold remove_at in Hj; cbn in Hj. unfold insert_at; cbn. constructor; assumption.
  - rewrite remove_at_S in Hj. inversion Hj as [|i0 e0 j' s' Hi0 Hj']; subst. rewrite insert_at_S. constructor; [assumption|].
    apply IH; [lia | assumption | exact Hi]. Qed.
Lemma remove_insert {A} d : forall (i : A) j, d <= length j -> remove_at d (insert_at d i j) = j.
Proof. induction d as [|d IH]; intros i [|x j] H; cbn [length] in H; try lia; try reflexivity.
  rewrite insert_at_S, remove_at_S. f_equal. apply IH. lia. Qed.
Lemma length_remove_at {A} d (l : list A) : d < length l -> length (remove_at d l) = length l - 1.
Proof. intros H. unfold remove_at. rewrite app_length, firstn_length, skipn_length. lia. Qed.
(* a kept axis (extent 1) *)
Lemma bcast_pair_keep d : forall s ix, d < length s -> in_range s ix -> bcast_pair ix (replace_at d 1 s) = replace_at d 0 ix.
Proof. induction d as [|d IH]; intros [|e s] ix Hd Hr; cbn [length] in Hd; try lia; inversion Hr as [|i e' ix' s' Hi Hr']; subst.
  - unfold replace_at; cbn. f_equal. now apply bcast_pair_id.
  - rewrite !replace_at_S. cbn [bcast_pair]. rewrite IH by (assumption || lia). f_equal. destruct (Nat.eqb_spec e 1); lia. Qed.
Lemma ravel_keep d : forall s ix, d < length s -> in_range s ix ->
  ravel (replace_at d 1 s) (replace_at d 0 ix) = ravel (remove_at d s) (remove_at d ix).
Proof. induction d as [|d IH]; intros [|e s] ix Hd Hr; cbn [length] in Hd; try lia; inversion Hr as [|i e' ix' s' Hi Hr']; subst.
  - unfold replace_at, remove_at; cbn. lia.
  - rewrite !replace_at_S, !remove_at_S. cbn [ravel]. rewrite IH by (assumption || lia). f_equal. f_equal.
    clear. revert s. induction d as [|d IHd]; intros [|e s]; try reflexivity.
    + unfold replace_at, remove_at; cbn. lia.
    + rewrite replace_at_S, remove_at_S. cbn [prod fold_right]. fold (prod (replace_at d 1 s)) (prod (remove_at d s)). now rewrite IHd. Qed.
Lemma length_replace_at {A} d (x : A) l : d < length l -> length (replace_at d x l) = length l.
Proof. intros H. unfold replace_at. rewrite app_length, firstn_length. cbn [length]. rewrite skipn_length. lia. Qed.
Lemma bget_keep {Y} (dy : Y) d s (kt : tensor Y) ix : d < length s -> shape kt = replace_at d 1 s -> in_range s ix ->
  nth (ravel (shape kt) (bcast_ix (shape kt) ix)) (data kt) dy = nth (ravel (remove_at d s) (remove_at d ix)) (data kt) dy.
Proof. intros Hd Hs Hr. rewrite Hs. unfold bcast_ix. rewrite length_replace_at by exact Hd.
  rewrite (in_range_length _ _ Hr), Nat.sub_diag. cbn [skipn]. rewrite bcast_pair_keep, ravel_keep by assumption. reflexivity. Qed.

(* ---- slices of an elementwise combination of a tensor with a reduction of itself kept along the axis *)
Lemma slices_nth {X} (dx : X) d (a : tensor X) k : k < prod (remove_at d (shape a)) ->
  nth k (data (slices dx d a)) []
  = map (fun i => nth (ravel (shape a) (insert_at d i (unravel (remove_at d (shape a)) k))) (data a) dx) (seq 0 (nth d (shape a) 0)).
Proof. intros H. unfold slices, tabulate; cbn [data]. now rewrite nth_map_seq. Qed.
Lemma slices_bzip_keep {X Y Z} (dx : X) (dy : Y) (dz : Z) (g : X -> Y -> Z) d (a : tensor X) (kt : tensor Y) :
  d < length (shape a) -> shape kt = replace_at d 1 (shape a) ->
  slices dz d (tabulate (shape a) (fun k => g (bget dx (shape a) a k) (bget dy (shape a) kt k)))
  = tabulate (remove_at d (shape a)) (fun k' => map (fun x => g x (nth k' (data kt) dy)) (nth k' (data (slices dx d a)) [])).
Proof. intros Hd Hs. unfold slices at 1. cbn [shape tabulate]. apply tabulate_ext. intros k' Hk'.
  rewrite slices_nth by exact Hk'. rewrite map_map. apply map_seq_ext. intros i Hi. cbn [data].
  pose proof (unravel_in_range _ _ Hk') as Hj.
  assert (Hix : in_range (shape a) (insert_at d i (unravel (remove_at d (shape a)) k'))) by (apply in_range_insert; [exact Hd | exact Hj | lia]).
  pose proof (ravel_lt _ _ Hix) as Hp.
  unfold tabulate at 1; cbn [data]. rewrite nth_map_seq by exact Hp. f_equal.
  - now apply bget_same.
  - unfold bget. rewrite unravel_ravel by exact Hix. rewrite (bget_keep dy d (shape a)) by assumption.
    rewrite remove_insert by (rewrite (in_range_length _ _ Hj), length_remove_at by exact Hd; lia).
    now rewrite ravel_unravel. Qed.

(* ---- all axes kept (axis = None) *)
Lemma ravel_ones : forall (s ix : list nat), length ix = length s -> ravel (map (fun _ => 1) s) (bcast_pair ix (map (fun _ => 1) s)) = 0.
Proof. induction s as [|e s IH]; intros [|i ix] H; cbn in *; try reflexivity; try discriminate. rewrite IH by lia. lia. Qed.
Lemma bget_ones {Y} (dy : Y) (s : list nat) (kt : tensor Y) k : shape kt = map (fun _ => 1) s -> k < prod s -> bget dy s kt k = nth 0 (data kt) dy.
Proof. intros Hs Hk. unfold bget. rewrite Hs. unfold bcast_ix. rewrite map_length.
  pose proof (in_range_length _ _ (unravel_in_range _ _ Hk)) as Hl. rewrite Hl, Nat.sub_diag. cbn [skipn]. now rewrite ravel_ones. Qed.
