(* Backward transfer for skip-free programs (the header decoder): whatever BytesIOReader returns for such a program
   from a reader that has not skipped yet, BufferReader returns on the whole byte string, at the same offsets.
   Consequences: the header memo a STREAM read leaves behind is sound (MemoOK), and a stream read that got past the
   header did so on bytes whose header the plain reader parses to the same object.
   (For programs WITH skips the converse of StreamLemmas.sim_fwd is false: a zero-length block after a skip past the end
   of the stream is served by BytesIOReader - the slice of the retained buffer is empty but in range - and refused by
   BufferReader; see [bwd_counterexample].) *)
From Coq Require Import ZArith NArith List Lia ZifyBool ZifyN ZifyNat Bool.
Require Import ListN Result Bytes Utf8 Utf8S F32 Prog Codec ProgLemmas CodecRT PoseRead PoseReadLemmas StreamLemmas WindowLemmas StreamRead.
Import ListNotations.
Open Scope N_scope.

Definition HPre (q : bytes) (r : sreader) : Prop := Pre q r /\ off r <= lenN (buf r).

Lemma pre_len q r : Pre q r -> lenN (buf r) <= lenN q.
Proof. intros [_ Hb]. apply (f_equal lenN) in Hb. rewrite lenN_takeN in Hb. lia. Qed.

Lemma expect_pre q n r ra : Pre q r -> expect q n r = Ok ra -> Pre q ra /\ off ra = off r.
Proof.
  intros HP H. unfold expect in H. destruct (_ <? _)%Z.
  - split; [exact (pre_read_chunk q _ r ra HP H)|]. apply read_chunk_ok in H. tauto.
  - injection H as <-. split; [exact HP|reflexivity].
Qed.

Theorem nsk_bwd {A} q (p : prog A) : noSkip p -> forall sr b sr',
  HPre q sr -> run_stream q p sr = Ok (b, sr') ->
  run_plain p {| pbuf := q; poff := off sr |} = Ok (b, {| pbuf := q; poff := off sr' |}) /\ HPre q sr'.
Proof.
  induction p as [a|n k IH|n k IH|n k IH|k IH|e]; intros Hns sr b sr' [HP Ho] Hr;
    cbn [run_stream run_plain noSkip pbuf poff] in *; try contradiction; try discriminate.
  - injection Hr as <- <-. split; [reflexivity|split; assumption].
  - destruct (expect q n sr) as [ra|e] eqn:Hea; [|discriminate].
    destruct (expect_pre q n sr ra HP Hea) as [HPa Hoa].
    destruct (N.leb_spec (off ra - skipped ra + n) (lenN (buf ra))) as [Hfit|]; [|discriminate].
    pose proof (pre_len q ra HPa) as Hlen. destruct HPa as [Hsa Hba]. rewrite Hsa, N.sub_0_r in *.
    destruct (N.leb_spec (off sr + n) (lenN q)) as [_|Hbad]; [|lia].
    assert (Hdat : takeN n (dropN (off ra) (buf ra)) = takeN n (dropN (off sr) q)).
    { rewrite Hba, dropN_takeN, Hoa. apply takeN_takeN_le. lia. }
    rewrite Hdat in Hr.
    specialize (IH (takeN n (dropN (off sr) q)) (Hns _)
                   {| buf := buf ra; off := off ra + n; skipped := 0; pulled := pulled ra |} b sr').
    cbn [off] in IH. rewrite Hoa in IH. rewrite Hoa in Hr. apply IH; [|exact Hr].
    split; [split; cbn [skipped buf]; [reflexivity|assumption]|cbn [off buf]; lia].
Qed.

(* the converse fails with skips: BytesIOReader serves a zero-length block after a skip past the end *)
Example bwd_counterexample :
  let p : prog bytes := Skip 5 (Block 0 (fun b => Ret b)) in
  let sr := {| buf := [1; 2]; off := 0; skipped := 0; pulled := 2 |} in
  fst (match run_stream [1; 2] p sr with Ok x => Ok (fst x) | Err e => Err e end, 0) = Ok [] /\
  run_plain p {| pbuf := [1; 2]; poff := 0 |} = Err StructError.
Proof. vm_compute. split; reflexivity. Qed.

Section WithLegacy.
Variable legacy : vclass -> header -> rargs -> prog body.

(* a stream read that parsed a header (memo miss) parsed what the plain reader parses, and stored a sound memo *)
Lemma stream_header_bwd q m r1 h r2 :
  expect q (prefetch_len m) {| buf := []; off := 0; skipped := 0; pulled := 0 |} = Ok r1 ->
  run_stream q rd_header r1 = Ok (h, r2) ->
  run_plain rd_header {| pbuf := q; poff := 0 |} = Ok (h, {| pbuf := q; poff := off r2 |}) /\
  py_slice 0 (off r2) (buf r2) = py_slice 0 (off r2) q /\
  MemoOK (Some {| m_start := 0; m_end := off r2; m_slice := py_slice 0 (off r2) (buf r2); m_header := h |}).
Proof.
  intros Hex Hrs.
  destruct (prefetch_sim q [] m r1 Hex) as [HS [_ [Hc0 Hbuf]]].
  assert (Ho1 : off r1 = 0).
  { destruct HS as [_ [Ho [Hso _]]]. cbn [poff] in Ho. lia. }
  assert (Hs1 : skipped r1 = 0).
  { destruct HS as [_ [Ho [Hso _]]]. cbn [poff] in Ho. lia. }
  assert (HP1 : HPre q r1).
  { split; [split; [exact Hs1|rewrite Hbuf; apply pre_takeN]|lia]. }
  destruct (nsk_bwd q rd_header noSkip_rd_header r1 h r2 HP1 Hrs) as [Hpl [HP2 Ho2]]. rewrite Ho1 in Hpl.
  split; [exact Hpl|].
  assert (Hsl : py_slice 0 (off r2) (buf r2) = py_slice 0 (off r2) q).
  { unfold py_slice. rewrite !dropN_0, !N.sub_0_r. destruct HP2 as [_ Hb2]. rewrite Hb2. apply takeN_takeN_le. exact Ho2. }
  split; [exact Hsl|]. rewrite Hsl.
  pose proof (read_bytes_memo_ok legacy None q no_args I) as H. unfold read_bytes in H. cbn [check_cache] in H.
  rewrite Hpl in H. cbn [poff] in H. exact H.
Qed.

(* whatever a windowed stream read returns, the memo it leaves is sound *)
Theorem read_stream_memo_ok m q a : MemoOK m -> MemoOK (snd (fst (read_stream legacy m q a))).
Proof.
  intros Hm. unfold read_stream. destruct (negb (any_arg a)) eqn:Ea.
  - pose proof (read_bytes_memo_ok legacy m q a Hm) as H. destruct (read_bytes legacy m q a) as [r m']. exact H.
  - destruct (expect q (prefetch_len m) _) as [r1|e] eqn:Hex; [|exact Hm].
    destruct (check_cache m (buf r1)) as [c|].
    + destruct (run_stream q (read_body legacy (m_header c) a) _) as [[b r3]|e]; exact Hm.
    + destruct (run_stream q rd_header r1) as [[h r2]|e] eqn:Hrs; [|exact Hm].
      destruct (stream_header_bwd q m r1 h r2 Hex Hrs) as [_ [_ Hok]].
      destruct (run_stream q (read_body legacy h a) r2) as [[b r3]|e]; exact Hok.
Qed.
End WithLegacy.
