(* v0.0: a reference-encoded file decodes to the first person of every frame (zeros, all missing, for a frame
   without people), from bytes and from a stream, whatever window arguments are given. *)
From Coq Require Import ZArith NArith List Lia ZifyBool ZifyN ZifyNat Bool.
Require Import ListN Result Bytes Utf8 Utf8S F32 Prog Codec ProgLemmas CodecRT PoseRead PoseReadLemmas StreamLemmas
  WindowLemmas StreamRead C04_Legacy C04_Spec C04_Stream C04_Handoff C04_SpecRT C04_V01.
Import ListNotations.
Open Scope N_scope.

Definition wf_point (L : N) (p : point00) : Prop := lenN (fst p) + 1 = L /\ Forall w32ok (fst p) /\ w32ok (snd p).
Definition wf_person (h : header) (L : N) (p : person00) : Prop :=
  Forall2 (fun comp pts => lenN pts = lenN (c_points comp) /\ Forall (wf_point L) pts) (h_comps h) (ps_comps p).
Definition wf00 (c : content00) : Prop :=
  let h := k0_header c in
  wf_header h /\ version_class (h_version h) = V00 /\ u16 (k0_fps c) /\ u16 (lenN (k0_frames c)) /\
  h_comps h <> [] /\ 2 <= spec_floats_per_point h /\
  Forall (fun comp => lenN (c_format comp) = spec_floats_per_point h) (h_comps h) /\
  Forall (fun people => u16 (lenN people) /\ Forall (wf_person h (spec_floats_per_point h)) people) (k0_frames c).

Lemma RTp_adv {A} n (k : prog A) e1 e2 a : lenN e1 = n -> RTp k e2 a -> RTp (Adv n k) (e1 ++ e2) a.
Proof.
  intros Hn H pre post. cbn [run_plain pbuf poff].
  specialize (H (pre ++ e1) post). rewrite <- !app_assoc in H. rewrite lenN_app in H.
  rewrite <- app_assoc. rewrite <- Hn. rewrite H. rewrite lenN_app. f_equal. f_equal. f_equal. lia.
Qed.

(* ---------- one component of one person ---------- *)
Definition row (p : point00) : list N := fst p ++ [snd p].
Lemma spec_point_row p : spec_point p = flat_map enc_u32 (row p).
Proof. unfold spec_point, row. rewrite flat_map_app, flat_map_enc. cbn [flat_map]. now rewrite app_nil_r. Qed.
Lemma spec_points_rows pts : concat (map spec_point pts) = flat_map enc_u32 (flat_map row pts).
Proof. induction pts as [|p pts IH]; [reflexivity|]. cbn [map concat flat_map]. now rewrite flat_map_app, IH, spec_point_row. Qed.
Lemma rows_flat (L : nat) pts : Forall (fun p => length (row p) = L) pts ->
  rows (length pts) L (flat_map row pts) = map row pts.
Proof.
  induction 1 as [|p pts Hp _ IH]; [reflexivity|]. cbn [length rows flat_map map].
  rewrite <- Hp at 1. rewrite firstn_app, Nat.sub_diag, firstn_all. cbn [firstn]. rewrite app_nil_r. f_equal.
  replace (skipn L (row p ++ flat_map row pts)) with (flat_map row pts); [exact IH|].
  rewrite <- Hp, skipn_app, Nat.sub_diag, skipn_all. reflexivity.
Qed.
Lemma length_flat_rows (L : nat) pts : Forall (fun p => length (row p) = L) pts -> length (flat_map row pts) = (length pts * L)%nat.
Proof. induction 1 as [|p pts Hp _ IH]; [reflexivity|]. cbn [flat_map length]. rewrite app_length, IH, Hp. lia. Qed.
Lemma map_flat_map {X Y Z} (f : Y -> Z) (g : X -> list Y) l : map f (flat_map g l) = flat_map (fun x => map f (g x)) l.
Proof. induction l as [|x l IH]; [reflexivity|]. cbn [flat_map]. now rewrite map_app, IH. Qed.

Definition comp_result (L : N) (pts : list point00) : N * frame00 :=
  (L, (flat_map fst pts, map snd pts, map is_zero32 (map snd pts))).

Lemma comp00_rt comp pts L : lenN (c_format comp) = L -> 2 <= L -> lenN pts = lenN (c_points comp) ->
  Forall (wf_point L) pts ->
  RTp (rd_comp00 comp) (concat (map spec_point pts)) (comp_result L pts).
Proof.
  intros HL HL2 Hn Hw. unfold rd_comp00. rewrite HL, <- Hn.
  assert (Hrow : Forall (fun p => length (row p) = N.to_nat L) pts).
  { eapply Forall_impl; [|exact Hw]. intros p [Hl _]. unfold row. rewrite app_length. cbn [length]. unfold lenN in Hl. lia. }
  assert (Hlt : Forall (fun n => n < 4294967296) (flat_map row pts)).
  { clear - Hw. induction Hw as [|p pts [_ [H1 H2]] _ IH]; [constructor|]. cbn [flat_map]. apply Forall_app. split; [|exact IH].
    unfold row. apply Forall_app. split; [exact H1|]. constructor; [exact H2|constructor]. }
  pose proof (length_flat_rows _ _ Hrow) as Hlen.
  rewrite spec_points_rows. rewrite <- (app_nil_r (flat_map enc_u32 (flat_map row pts))).
  apply RTp_block.
  { rewrite lenN_flat_enc_u32. unfold lenN. rewrite Hlen. lia. }
  destruct (N.ltb_spec L 2) as [|_]; [lia|].
  replace (N.to_nat (lenN pts * L)) with (length (flat_map row pts)) by (rewrite Hlen; unfold lenN; lia).
  rewrite <- (app_nil_r (flat_map enc_u32 (flat_map row pts))), words32_enc by exact Hlt.
  rewrite to_nat_lenN, rows_flat by exact Hrow.
  replace (flat_map (@removelast N) (map row pts)) with (flat_map fst pts).
  2:{ rewrite flat_map_map. apply flat_map_ext. intros p. unfold row. now rewrite removelast_last. }
  replace (map (fun r => last r 0) (map row pts)) with (map snd pts).
  2:{ rewrite map_map. apply map_ext. intros p. unfold row. now rewrite last_last. }
  apply RTp_ret.
Qed.

Lemma comps00_rt L comps pcs :
  Forall2 (fun comp pts => lenN (c_format comp) = L /\ lenN pts = lenN (c_points comp) /\ Forall (wf_point L) pts) comps pcs ->
  2 <= L ->
  RTp (pmapM rd_comp00 comps) (concat (map (fun pts => concat (map spec_point pts)) pcs)) (map (comp_result L) pcs).
Proof.
  intros H HL2. induction H as [|comp pts comps pcs [H1 [H2 H3]] _ IH]; cbn [pmapM map concat]; [apply RTp_ret|].
  apply RTp_bind with (a := comp_result L pts); [now apply comp00_rt|].
  rewrite <- (app_nil_r (concat _)). apply RTp_bind with (a := map (comp_result L) pcs); [exact IH|apply RTp_ret].
Qed.

Lemma all_eq_const {X} (L : N) (l : list X) : all_eq (map (fun _ => L) l) = true.
Proof. induction l as [|x [|y l] IH]; [reflexivity|reflexivity|]. cbn [map all_eq] in *. now rewrite N.eqb_refl, IH. Qed.

(* ---------- one person ---------- *)
Definition person_frame (p : person00) : frame00 := (person_data p, person_conf p, map is_zero32 (person_conf p)).
Lemma enc_i16_len z : lenN (enc_i16 z) = 2.
Proof. reflexivity. Qed.

Lemma person00_rt h L p (first : bool) :
  Forall (fun comp => lenN (c_format comp) = L) (h_comps h) -> 2 <= L -> wf_person h L p ->
  RTp (rd_person00 (h_comps h) first) (spec_person p) (if first then person_frame p else ([], [], [])).
Proof.
  intros HL HL2 Hw. unfold rd_person00, spec_person.
  apply RTp_adv; [apply enc_i16_len|].
  rewrite <- (app_nil_r (concat _)).
  apply RTp_bind with (a := map (comp_result L) (ps_comps p)).
  { apply comps00_rt; [|exact HL2]. unfold wf_person in Hw. clear - HL Hw.
    induction Hw as [|comp pts comps pcs [H1 H2] _ IH]; [constructor|].
    inversion HL; subst. constructor; [auto|]. now apply IH. }
  destruct first; [|apply RTp_ret].
  rewrite map_map. cbn [fst comp_result]. rewrite all_eq_const.
  unfold person_frame, person_data, person_conf. rewrite !flat_map_map. cbn [fst snd comp_result].
  rewrite map_flat_map. apply RTp_ret.
Qed.

(* ---------- one frame ---------- *)
Definition frame_mask (T : N) (people : list person00) : list bool :=
  match people with [] => repeat false (N.to_nat T) | p :: _ => map is_zero32 (person_conf p) end.
Definition frame_result (T D : N) (people : list person00) : frame00 :=
  (frame_data T D people, frame_conf T people, frame_mask T people).

Lemma frame00_rt h L T D people :
  Forall (fun comp => lenN (c_format comp) = L) (h_comps h) -> 2 <= L ->
  u16 (lenN people) -> Forall (wf_person h L) people ->
  RTp (rd_frame00 (h_comps h) T (Z.of_N D)) (spec_frame00 people) (frame_result T D people).
Proof.
  intros HL HL2 Hn Hw. unfold rd_frame00, spec_frame00.
  apply RTp_bind with (a := lenN people); [now apply rd_u16_rt|].
  rewrite to_nat_lenN. destruct people as [|p rest]; cbn [length map concat].
  - unfold zeros_frame. destruct (Z.ltb_spec (Z.of_N D) 0) as [|_]; [lia|]. rewrite N2Z.id. apply RTp_ret.
  - inversion Hw as [|? ? Hp Hrest]; subst.
    apply RTp_bind with (a := person_frame p); [exact (person00_rt h L p true HL HL2 Hp)|].
    rewrite <- (app_nil_r (concat _)).
    apply RTp_bind with (a := map (fun _ : person00 => (@nil N, @nil N, @nil bool)) rest); [|apply RTp_ret].
    rewrite <- (map_length (fun _ : person00 => (@nil N, @nil N, @nil bool)) rest). apply RTp_prep.
    clear - HL HL2 Hrest. induction Hrest as [|q rest Hq _ IH]; cbn [map]; constructor; [|exact IH].
    exact (person00_rt h L q false HL HL2 Hq).
Qed.

(* ---------- the mask of the constructed body ---------- *)
Lemma map_combine_app {X Y Z} (g : X * Y -> Z) (R : X -> Y -> Prop) a1 b1 a2 b2 : Forall2 R a1 b1 ->
  map g (combine (a1 ++ a2) (b1 ++ b2)) = map g (combine a1 b1) ++ map g (combine a2 b2).
Proof. induction 1 as [|x y a1 b1 _ _ IH]; [reflexivity|]. cbn [app combine map]. now rewrite IH. Qed.
Definition mask_or (mc : bool * N) : bool := orb (fst mc) (is_zero32 (snd mc)).
Lemma frame_mask_ok T people :
  Forall2 (fun (_ : bool) (_ : N) => True) (frame_mask T people) (frame_conf T people) /\
  map mask_or (combine (frame_mask T people) (frame_conf T people)) = map is_zero32 (frame_conf T people).
Proof.
  destruct people as [|p rest]; cbn [frame_mask frame_conf].
  - induction (N.to_nat T) as [|n [IH1 IH2]]; cbn [repeat combine map]; [split; [constructor|reflexivity]|].
    split; [constructor; [exact I|exact IH1]|]. now rewrite IH2.
  - induction (person_conf p) as [|c l [IH1 IH2]]; cbn [map combine]; [split; [constructor|reflexivity]|].
    split; [constructor; [exact I|exact IH1]|]. rewrite IH2. unfold mask_or. cbn [fst snd]. now rewrite orb_diag.
Qed.
Lemma frames_mask_ok T (frames : list (list person00)) :
  map mask_or (combine (flat_map (frame_mask T) frames) (flat_map (frame_conf T) frames)) =
  map is_zero32 (flat_map (frame_conf T) frames).
Proof.
  induction frames as [|f frames IH]; [reflexivity|]. cbn [flat_map].
  destruct (frame_mask_ok T f) as [H2 E].
  rewrite (map_combine_app mask_or _ _ _ _ _ H2), E, IH, map_app. reflexivity.
Qed.

(* ---------- the body ---------- *)
Theorem v00_body_rt c : wf00 c ->
  RTp (read_v0_0 (k0_header c)) (spec_body00 c) (p_body (first_person_view c)).
Proof.
  intros [Hh [Hver [Hfps [HF [Hne [HL2 [HL Hfr]]]]]]].
  set (h := k0_header c) in *. set (L := spec_floats_per_point h) in *.
  assert (Hnd : num_dims h = Ok (Z.of_N (spec_dims h))).
  { rewrite (num_dims_spec _ Hne). unfold spec_dims. fold L. f_equal. lia. }
  unfold read_v0_0, spec_body00, first_person_view. cbn [p_body]. fold h.
  replace (enc_u16 (k0_fps c) ++ enc_u16 (lenN (k0_frames c)) ++ concat (map spec_frame00 (k0_frames c)))
    with ((enc_u16 (k0_fps c) ++ enc_u16 (lenN (k0_frames c))) ++ concat (map spec_frame00 (k0_frames c)))
    by (rewrite <- !app_assoc; reflexivity).
  apply RTp_bind with (a := (k0_fps c, lenN (k0_frames c))); [now apply u16x2_rt|].
  rewrite Hnd. cbn [plift pbind fst snd].
  rewrite <- (app_nil_r (concat _)).
  apply RTp_bind with (a := map (frame_result (total_points h) (spec_dims h)) (k0_frames c)).
  { rewrite to_nat_lenN, <- (map_length (frame_result (total_points h) (spec_dims h))). apply RTp_prep.
    clear - HL HL2 Hfr. induction Hfr as [|f frames [Hf1 Hf2] _ IH]; cbn [map]; constructor; [|exact IH].
    now apply (frame00_rt h L). }
  destruct (Z.leb_spec (Z.of_N (spec_dims h)) 0) as [Hbad|_]; [unfold spec_dims in Hbad; fold L in Hbad; lia|].
  rewrite !flat_map_map. cbn [fst snd frame_result].
  fold mask_or. rewrite frames_mask_ok, N2Z.id.
  apply RTp_ret.
Qed.

(* ---------- the decoder only reads and advances ---------- *)
Lemma v0prog_pmapM {X Y} (f : X -> prog Y) l : (forall x, v0prog (f x)) -> v0prog (pmapM f l).
Proof. intros Hf. induction l as [|x l IH]; cbn [pmapM]; [exact I|].
  apply v0prog_bind; [apply Hf|]. intros y. apply v0prog_bind; [exact IH|]. intros ys. exact I. Qed.
Lemma v0prog_rd_comp00 c : v0prog (rd_comp00 c).
Proof. unfold rd_comp00. cbn [v0prog]. intros b. destruct (_ <? 2); exact I. Qed.
Lemma v0prog_rd_person00 comps first : v0prog (rd_person00 comps first).
Proof. unfold rd_person00. cbn [v0prog]. apply v0prog_bind; [apply v0prog_pmapM, v0prog_rd_comp00|].
  intros cs. destruct first; [destruct (all_eq _)|]; exact I. Qed.
Lemma v0prog_rd_frame00 comps T D : v0prog (rd_frame00 comps T D).
Proof.
  unfold rd_frame00. apply v0prog_bind; [cbn; auto|]. intros np. destruct (N.to_nat np) as [|k].
  - unfold zeros_frame. destruct (D <? 0)%Z; exact I.
  - apply v0prog_bind; [apply v0prog_rd_person00|]. intros p0.
    apply v0prog_bind; [apply v0prog_prep, v0prog_rd_person00|]. intros rest. exact I.
Qed.
Lemma v0prog_read_v0_0 h : v0prog (read_v0_0 h).
Proof.
  unfold read_v0_0. apply v0prog_bind; [cbn; auto|]. intros ff.
  apply v0prog_bind; [apply v0prog_plift|]. intros D.
  apply v0prog_bind; [apply v0prog_prep, v0prog_rd_frame00|]. intros frames.
  destruct (D <=? 0)%Z; exact I.
Qed.

(* ---------- Pose.read ---------- *)
Theorem v00_read_bytes c m a x : wf00 c -> MemoOK m ->
  fst (read_bytes c04_legacy m (spec00 c ++ x) a) = Ok (first_person_view c).
Proof.
  intros Hwf Hm. pose proof Hwf as [Hh [Hver _]].
  unfold spec00. rewrite <- app_assoc.
  rewrite (bytes_header c04_legacy m _ a _ _ Hm (spec_header_parsed _ (spec_body00 c ++ x) Hh)).
  unfold read_body, read_body_with. rewrite Hver. cbn [c04_legacy].
  rewrite (v00_body_rt c Hwf (spec_header (k0_header c)) x).
  reflexivity.
Qed.
Theorem v00_read_stream c m a x : wf00 c -> MemoOK m ->
  fst (fst (read_stream4 c04_legacy m (spec00 c ++ x) a)) = Ok (first_person_view c).
Proof.
  intros Hwf Hm.
  destruct (any_arg a) eqn:Ha.
  - pose proof Hwf as [Hh [Hver _]].
    apply (stream4_of_bytes_v0 c04_legacy m (spec00 c ++ x) a (k0_header c) (lenN (spec_header (k0_header c)))); try assumption.
    + unfold spec00. rewrite <- app_assoc. apply spec_header_parsed. exact Hh.
    + unfold read_body, read_body_with. rewrite Hver. apply v0prog_read_v0_0.
    + now apply v00_read_bytes.
  - rewrite read_stream4_noargs by exact Ha. now apply v00_read_bytes.
Qed.

(* a file that declares zero frames decodes to the empty pose of shape (0, 1, points, dims) *)
Corollary v00_zero_frames c m a : wf00 c -> k0_frames c = [] -> MemoOK m ->
  fst (read_bytes c04_legacy m (spec00 c) a) = Ok (first_person_view c) /\
  b_shape (p_body (first_person_view c)) = [0; 1; spec_points (k0_header c); spec_dims (k0_header c)] /\
  b_data (p_body (first_person_view c)) = [] /\ b_conf (p_body (first_person_view c)) = [] /\
  b_mask (p_body (first_person_view c)) = [].
Proof.
  intros Hwf H0 Hm. split.
  - rewrite <- (app_nil_r (spec00 c)). now apply v00_read_bytes.
  - unfold first_person_view. cbn [p_body b_shape b_data b_conf b_mask]. rewrite H0. repeat split.
Qed.
