(* v0.0: a reference-encoded file decodes to the first person of every frame (zeros, all missing, for a frame
   without people), from bytes and from a stream: every frame, or the frames of the requested window (frame bounds,
   time bounds, or one of each); a start at or beyond the last frame and a frame and a time bound for the same end
   are refused. *)
From Coq Require Import ZArith NArith List Lia ZifyBool ZifyN ZifyNat Bool.
Require Import ListN Result Bytes Utf8 Utf8S F32 Prog Codec ProgLemmas CodecRT PoseRead PoseReadLemmas StreamLemmas
  WindowLemmas StreamRead C04_Legacy C04_Spec C04_Stream C04_Handoff C04_SpecRT C04_V01.
Import ListNotations.
Open Scope N_scope.

Definition wf_point (L : N) (p : point00) : Prop := lenN (fst p) + 1 = L /\ Forall w32ok (fst p) /\ w32ok (snd p).
Definition wf_person (h : header) (L : N) (p : person00) : Prop :=
  Forall2 (fun comp pts => lenN pts = lenN (c_points comp) /\ Forall (wf_point L) pts) (h_comps h) (ps_comps p).
Definition wf00 (c : content00) : Prop :=
  let h := k0_header c in
  wf_header h /\ version_class (h_version h) = V00 /\ u16 (k0_fps c) /\ u16 (lenN (k0_frames c)) /\
  h_comps h <> [] /\ 2 <= spec_floats_per_point h /\
  Forall (fun comp => lenN (c_format comp) = spec_floats_per_point h) (h_comps h) /\
  Forall (fun people => u16 (lenN people) /\ Forall (wf_person h (spec_floats_per_point h)) people) (k0_frames c).

Lemma RTp_adv {A} n (k : prog A) e1 e2 a : lenN e1 = n -> RTp k e2 a -> RTp (Adv n k) (e1 ++ e2) a.
Proof.
  intros Hn H pre post. cbn [run_plain pbuf poff].
  specialize (H (pre ++ e1) post). rewrite <- !app_assoc in H. rewrite lenN_app in H.
  rewrite <- app_assoc. rewrite <- Hn. rewrite H. rewrite lenN_app. f_equal. f_equal. f_equal. lia.
Qed.

(* ---------- one component of one person ---------- *)
Definition row (p : point00) : list N := fst p ++ [snd p].
Lemma spec_point_row p : spec_point p = flat_map enc_u32 (row p).
Proof. unfold spec_point, row. rewrite flat_map_app, flat_map_enc. cbn [flat_map]. now rewrite app_nil_r. Qed.
Lemma spec_points_rows pts : concat (map spec_point pts) = flat_map enc_u32 (flat_map row pts).
Proof. induction pts as [|p pts IH]; [reflexivity|]. cbn [map concat flat_map]. now rewrite flat_map_app, IH, spec_point_row. Qed.
Lemma rows_flat (L : nat) pts : Forall (fun p => length (row p) = L) pts ->
  rows (length pts) L (flat_map row pts) = map row pts.
Proof.
  induction 1 as [|p pts Hp _ IH]; [reflexivity|]. cbn [length rows flat_map map].
  rewrite <- Hp at 1. rewrite firstn_app, Nat.sub_diag, firstn_all. cbn [firstn]. rewrite app_nil_r. f_equal.
  replace (skipn L (row p ++ flat_map row pts)) with (flat_map row pts); [exact IH|].
  rewrite <- Hp, skipn_app, Nat.sub_diag, skipn_all. reflexivity.
Qed.
Lemma length_flat_rows (L : nat) pts : Forall (fun p => length (row p) = L) pts -> length (flat_map row pts) = (length pts * L)%nat.
Proof. induction 1 as [|p pts Hp _ IH]; [reflexivity|]. cbn [flat_map length]. rewrite app_length, IH, Hp. lia. Qed.
Lemma map_flat_map {X Y Z} (f : Y -> Z) (g : X -> list Y) l : map f (flat_map g l) = flat_map (fun x => map f (g x)) l.
Proof. induction l as [|x l IH]; [reflexivity|]. cbn [flat_map]. now rewrite map_app, IH. Qed.

Definition comp_result (L : N) (pts : list point00) : N * frame00 :=
  (L, (flat_map fst pts, map snd pts, map is_zero32 (map snd pts))).

Lemma comp00_rt comp pts L : lenN (c_format comp) = L -> 2 <= L -> lenN pts = lenN (c_points comp) ->
  Forall (wf_point L) pts ->
  RTp (rd_comp00 comp) (concat (map spec_point pts)) (comp_result L pts).
Proof.
  intros HL HL2 Hn Hw. unfold rd_comp00. rewrite HL, <- Hn.
  assert (Hrow : Forall (fun p => length (row p) = N.to_nat L) pts).
  { eapply Forall_impl; [|exact Hw]. intros p [Hl _]. unfold row. rewrite app_length. cbn [length]. unfold lenN in Hl. lia. }
  assert (Hlt : Forall (fun n => n < 4294967296) (flat_map row pts)).
  { clear - Hw. induction Hw as [|p pts [_ [H1 H2]] _ IH]; [constructor|]. cbn [flat_map]. apply Forall_app. split; [|exact IH].
    unfold row. apply Forall_app. split; [exact H1|]. constructor; [exact H2|constructor]. }
  pose proof (length_flat_rows _ _ Hrow) as Hlen.
  rewrite spec_points_rows. rewrite <- (app_nil_r (flat_map enc_u32 (flat_map row pts))).
  apply RTp_block.
  { rewrite lenN_flat_enc_u32. unfold lenN. rewrite Hlen. lia. }
  destruct (N.ltb_spec L 2) as [|_]; [lia|].
  replace (N.to_nat (lenN pts * L)) with (length (flat_map row pts)) by (rewrite Hlen; unfold lenN; lia).
  rewrite <- (app_nil_r (flat_map enc_u32 (flat_map row pts))), words32_enc by exact Hlt.
  rewrite to_nat_lenN, rows_flat by exact Hrow.
  replace (flat_map (@removelast N) (map row pts)) with (flat_map fst pts).
  2:{ rewrite flat_map_map. apply flat_map_ext. intros p. unfold row. now rewrite removelast_last. }
  replace (map (fun r => last r 0) (map row pts)) with (map snd pts).
  2:{ rewrite map_map. apply map_ext. intros p. unfold row. now rewrite last_last. }
  apply RTp_ret.
Qed.

Lemma comps00_rt L comps pcs :
  Forall2 (fun comp pts => lenN (c_format comp) = L /\ lenN pts = lenN (c_points comp) /\ Forall (wf_point L) pts) comps pcs ->
  2 <= L ->
  RTp (pmapM rd_comp00 comps) (concat (map (fun pts => concat (map spec_point pts)) pcs)) (map (comp_result L) pcs).
Proof.
  intros H HL2. induction H as [|comp pts comps pcs [H1 [H2 H3]] _ IH]; cbn [pmapM map concat]; [apply RTp_ret|].
  apply RTp_bind with (a := comp_result L pts); [now apply comp00_rt|].
  rewrite <- (app_nil_r (concat _)). apply RTp_bind with (a := map (comp_result L) pcs); [exact IH|apply RTp_ret].
Qed.

Lemma all_eq_const {X} (L : N) (l : list X) : all_eq (map (fun _ => L) l) = true.
Proof. induction l as [|x [|y l] IH]; [reflexivity|reflexivity|]. cbn [map all_eq] in *. now rewrite N.eqb_refl, IH. Qed.

(* ---------- one person ---------- *)
Definition person_frame (p : person00) : frame00 := (person_data p, person_conf p, map is_zero32 (person_conf p)).
Lemma enc_i16_len z : lenN (enc_i16 z) = 2.
Proof. reflexivity. Qed.

Lemma person00_rt h L p (first : bool) :
  Forall (fun comp => lenN (c_format comp) = L) (h_comps h) -> 2 <= L -> wf_person h L p ->
  RTp (rd_person00 (h_comps h) first) (spec_person p) (if first then person_frame p else ([], [], [])).
Proof.
  intros HL HL2 Hw. unfold rd_person00, spec_person.
  apply RTp_adv; [apply enc_i16_len|].
  rewrite <- (app_nil_r (concat _)).
  apply RTp_bind with (a := map (comp_result L) (ps_comps p)).
  { apply comps00_rt; [|exact HL2]. unfold wf_person in Hw. clear - HL Hw.
    induction Hw as [|comp pts comps pcs [H1 H2] _ IH]; [constructor|].
    inversion HL; subst. constructor; [auto|]. now apply IH. }
  destruct first; [|apply RTp_ret].
  rewrite map_map. cbn [fst comp_result]. rewrite all_eq_const.
  unfold person_frame, person_data, person_conf. rewrite !flat_map_map. cbn [fst snd comp_result].
  rewrite map_flat_map. apply RTp_ret.
Qed.

(* ---------- one frame ---------- *)
Definition frame_mask (T : N) (people : list person00) : list bool :=
  match people with [] => repeat false (N.to_nat T) | p :: _ => map is_zero32 (person_conf p) end.
Definition frame_result (T D : N) (people : list person00) : frame00 :=
  (frame_data T D people, frame_conf T people, frame_mask T people).

Lemma frame00_rt h L T D people :
  Forall (fun comp => lenN (c_format comp) = L) (h_comps h) -> 2 <= L ->
  u16 (lenN people) -> Forall (wf_person h L) people ->
  RTp (rd_frame00 (h_comps h) T (Z.of_N D)) (spec_frame00 people) (frame_result T D people).
Proof.
  intros HL HL2 Hn Hw. unfold rd_frame00, spec_frame00.
  apply RTp_bind with (a := lenN people); [now apply rd_u16_rt|].
  rewrite to_nat_lenN. destruct people as [|p rest]; cbn [length map concat].
  - unfold zeros_frame. destruct (Z.ltb_spec (Z.of_N D) 0) as [|_]; [lia|]. rewrite N2Z.id. apply RTp_ret.
  - inversion Hw as [|? ? Hp Hrest]; subst.
    apply RTp_bind with (a := person_frame p); [exact (person00_rt h L p true HL HL2 Hp)|].
    rewrite <- (app_nil_r (concat _)).
    apply RTp_bind with (a := map (fun _ : person00 => (@nil N, @nil N, @nil bool)) rest); [|apply RTp_ret].
    rewrite <- (map_length (fun _ : person00 => (@nil N, @nil N, @nil bool)) rest). apply RTp_prep.
    clear - HL HL2 Hrest. induction Hrest as [|q rest Hq _ IH]; cbn [map]; constructor; [|exact IH].
    exact (person00_rt h L q false HL HL2 Hq).
Qed.

(* ---------- the mask of the constructed body ---------- *)
Lemma map_combine_app {X Y Z} (g : X * Y -> Z) (R : X -> Y -> Prop) a1 b1 a2 b2 : Forall2 R a1 b1 ->
  map g (combine (a1 ++ a2) (b1 ++ b2)) = map g (combine a1 b1) ++ map g (combine a2 b2).
Proof. induction 1 as [|x y a1 b1 _ _ IH]; [reflexivity|]. cbn [app combine map]. now rewrite IH. Qed.
Definition mask_or (mc : bool * N) : bool := orb (fst mc) (is_zero32 (snd mc)).
Lemma frame_mask_ok T people :
  Forall2 (fun (_ : bool) (_ : N) => True) (frame_mask T people) (frame_conf T people) /\
  map mask_or (combine (frame_mask T people) (frame_conf T people)) = map is_zero32 (frame_conf T people).
Proof.
  destruct people as [|p rest]; cbn [frame_mask frame_conf].
  - induction (N.to_nat T) as [|n [IH1 IH2]]; cbn [repeat combine map]; [split; [constructor|reflexivity]|].
    split; [constructor; [exact I|exact IH1]|]. now rewrite IH2.
  - induction (person_conf p) as [|c l [IH1 IH2]]; cbn [map combine]; [split; [constructor|reflexivity]|].
    split; [constructor; [exact I|exact IH1]|]. rewrite IH2. unfold mask_or. cbn [fst snd]. now rewrite orb_diag.
Qed.
Lemma frames_mask_ok T (frames : list (list person00)) :
  map mask_or (combine (flat_map (frame_mask T) frames) (flat_map (frame_conf T) frames)) =
  map is_zero32 (flat_map (frame_conf T) frames).
Proof.
  induction frames as [|f frames IH]; [reflexivity|]. cbn [flat_map].
  destruct (frame_mask_ok T f) as [H2 E].
  rewrite (map_combine_app mask_or _ _ _ _ _ H2), E, IH, map_app. reflexivity.
Qed.

(* ---------- lengths of the decoded frames ---------- *)
Lemma lenN_repeat {X} (x : X) n : lenN (repeat x n) = N.of_nat n.
Proof. unfold lenN. now rewrite repeat_length. Qed.
Lemma lenN_flat_map_uniform {X Y} (f : X -> list Y) l c : Forall (fun x => lenN (f x) = c) l -> lenN (flat_map f l) = lenN l * c.
Proof. induction 1 as [|x l Hx _ IH]; [reflexivity|]. cbn [flat_map]. rewrite lenN_app, IH, Hx. unfold lenN. cbn [length]. lia. Qed.
Lemma comps_lengths L comps pcs : 1 <= L ->
  Forall2 (fun comp pts => lenN pts = lenN (c_points comp) /\ Forall (wf_point L) pts) comps pcs ->
  lenN (flat_map (fun pts : list point00 => flat_map fst pts) pcs) = sumN (map (fun c => lenN (c_points c)) comps) * (L - 1) /\
  lenN (flat_map (fun pts : list point00 => map snd pts) pcs) = sumN (map (fun c => lenN (c_points c)) comps).
Proof.
  intros HL1 Hw. induction Hw as [|comp pts comps pcs [H1 H2] _ [IH1 IH2]]; [split; reflexivity|].
  cbn [flat_map map sumN fold_right]. rewrite !lenN_app, IH1, IH2.
  assert (E1 : lenN (flat_map fst pts) = lenN pts * (L - 1)).
  { apply lenN_flat_map_uniform. eapply Forall_impl; [|exact H2]. intros q [Hq _]. lia. }
  assert (E2 : lenN (map snd pts) = lenN pts) by (unfold lenN; now rewrite map_length).
  rewrite E1, E2, H1. unfold sumN. split; lia.
Qed.
Lemma person_lengths h L p : 1 <= L -> wf_person h L p ->
  lenN (person_data p) = total_points h * (L - 1) /\ lenN (person_conf p) = total_points h.
Proof. intros HL1 Hw. apply (comps_lengths L _ _ HL1 Hw). Qed.
Lemma frame_lengths c : wf00 c ->
  let h := k0_header c in
  Forall (fun f => lenN (frame_data (total_points h) (spec_dims h) f) = total_points h * spec_dims h) (k0_frames c) /\
  Forall (fun f => lenN (frame_conf (total_points h) f) = total_points h) (k0_frames c).
Proof.
  intros [Hh [Hver [Hfps [HF [Hne [HL2 [HL Hfr]]]]]]] h. fold h in HL2, HL, Hfr.
  set (L := spec_floats_per_point h) in *. split.
  - eapply Forall_impl; [|exact Hfr]. intros [|p rest] [_ Hw]; cbn [frame_data]; [rewrite lenN_repeat; lia|].
    inversion Hw; subst. destruct (person_lengths h L p ltac:(lia) ltac:(assumption)) as [E _]. exact E.
  - eapply Forall_impl; [|exact Hfr]. intros [|p rest] [_ Hw]; cbn [frame_conf]; [rewrite lenN_repeat; lia|].
    inversion Hw; subst. destruct (person_lengths h L p ltac:(lia) ltac:(assumption)) as [_ E]. exact E.
Qed.

(* ---------- the kept slice is the window, and the window of the flat arrays is the concatenation of its frames ---------- *)
Lemma start0_max s : Z.max (match s with Some z => z | None => 0%Z end) 0 = start0 s.
Proof. unfold start0. destruct s as [z|]; [destruct (Z.ltb_spec 0 z)|]; lia. Qed.
Lemma slice_window {X} (l : list X) s e :
  let F := Z.of_N (lenN l) in
  (start0 s <= end0 e F)%Z ->
  slice_list (start0 s) (match e with Some z => Some (Z.max z 0) | None => None end) l =
  takeN (Z.to_N (end0 e F) - Z.to_N (start0 s)) (dropN (Z.to_N (start0 s)) l).
Proof.
  intros F Hse. unfold slice_list.
  assert (Hs0 : (0 <= start0 s)%Z) by (unfold start0; destruct s as [z|]; [destruct (0 <? z)%Z eqn:E|]; lia).
  pose proof (lenN_dropN (Z.to_N (start0 s)) l) as Hld.
  destruct e as [z|]; unfold end0 in *.
  - destruct (Z.le_gt_cases z F) as [Hz|Hz].
    + f_equal. lia.
    + rewrite !takeN_all by lia. reflexivity.
  - symmetry. apply takeN_all. lia.
Qed.
Lemma flat_window {X Y} (f : X -> list Y) (l : list X) cells s0 e0 :
  Forall (fun x => lenN (f x) = cells) l -> (0 <= s0 <= e0)%Z ->
  takeN (Z.to_N ((e0 - s0) * Z.of_N cells)) (dropN (Z.to_N (s0 * Z.of_N cells)) (flat_map f l)) =
  flat_map f (takeN (Z.to_N e0 - Z.to_N s0) (dropN (Z.to_N s0) l)).
Proof.
  intros Hu Hse. rewrite !flat_map_concat_map.
  assert (Hu' : Forall (fun fr => lenN fr = cells) (map f l)) by (apply Forall_map; exact Hu).
  replace (Z.to_N (s0 * Z.of_N cells)) with (Z.to_N s0 * cells) by nia.
  replace (Z.to_N ((e0 - s0) * Z.of_N cells)) with ((Z.to_N e0 - Z.to_N s0) * cells) by nia.
  rewrite dropN_concat_uniform by exact Hu'.
  rewrite takeN_concat_uniform by (now apply Forall_dropN).
  now rewrite dropN_map, takeN_map.
Qed.

(* ---------- the body ---------- *)
(* the decoder after its two argument checks *)
Definition body00 (h : header) (sf st ef et : option Z) : prog body :=
  dop ff <- rd_u16x2;
  let fps := f32_of_u16 (fst ff) in
  dop s <- plift (resolve_start fps sf st);
  dop e <- plift (resolve_end fps ef et);
  if (match s with Some z => (0 <? z)%Z && (Z.of_N (snd ff) <=? z)%Z | None => false end) then Fail Value else
  let lo := Z.max (match s with Some z => z | None => 0%Z end) 0 in
  let hi := match e with Some z => Some (Z.max z 0) | None => None end in
  dop D <- plift (num_dims h);
  let T := total_points h in
  dop frames <- prep (N.to_nat (snd ff)) (rd_frame00 (h_comps h) T D);
  let kept := slice_list lo hi frames in
  if (D <=? 0)%Z then Fail Value else
  let conf := flat_map (fun f => snd (fst f)) kept in
  Ret {| b_fps := fps;
         b_shape := [lenN kept; 1; T; Z.to_N D];
         b_data := flat_map (fun f => fst (fst f)) kept;
         b_conf := conf;
         b_mask := map (fun mc => orb (fst mc) (is_zero32 (snd mc))) (combine (flat_map (fun f => snd f) kept) conf) |}.
Lemma read_v0_0_shape h sf st ef et :
  read_v0_0 h sf st ef et = if conflict sf st || conflict ef et then Fail Value else body00 h sf st ef et.
Proof. destruct sf, st, ef, et; reflexivity. Qed.
Lemma not_beyond s F : (start0 s = 0 \/ start0 s < F)%Z ->
  (match s with Some z => (0 <? z)%Z && (F <=? z)%Z | None => false end) = false.
Proof. unfold start0. destruct s as [z|]; [|reflexivity]. destruct (Z.ltb_spec 0 z) as [Hz|Hz]; intros Hv; [|reflexivity]. cbn [andb]. lia. Qed.
Lemma is_beyond s F : (0 < start0 s)%Z -> (F <= start0 s)%Z ->
  (match s with Some z => (0 <? z)%Z && (F <=? z)%Z | None => false end) = true.
Proof. unfold start0. destruct s as [z|]; [|lia]. destruct (Z.ltb_spec 0 z) as [Hz|Hz]; intros H0 HF; [|lia]. cbn [andb]. lia. Qed.

Definition frames00 (c : content00) : Z := Z.of_N (lenN (k0_frames c)).
(* frames [s0, e0) of the first-person view *)
Definition v00_window_view (c : content00) (s0 e0 : Z) : pose :=
  {| p_header := k0_header c; p_body := window_body (p_body (first_person_view c)) s0 e0 |}.

Theorem v00_body_window_rt c sf st ef et s e : wf00 c ->
  conflict sf st = false -> conflict ef et = false ->
  resolve_start (fps_value (k0_fps c)) sf st = Ok s -> resolve_end (fps_value (k0_fps c)) ef et = Ok e ->
  (start0 s = 0 \/ start0 s < frames00 c)%Z -> (start0 s <= end0 e (frames00 c))%Z ->
  RTp (read_v0_0 (k0_header c) sf st ef et) (spec_body00 c)
      (p_body (v00_window_view c (start0 s) (end0 e (frames00 c)))).
Proof.
  intros Hwf Hc1 Hc2 Hrs Hre Hv1 Hv2. destruct (frame_lengths c Hwf) as [Hld Hlc].
  destruct Hwf as [Hh [Hver [Hfps [HF [Hne [HL2 [HL Hfr]]]]]]].
  set (h := k0_header c) in *. set (L := spec_floats_per_point h) in *.
  assert (Hnd : num_dims h = Ok (Z.of_N (spec_dims h))).
  { rewrite (num_dims_spec _ Hne). unfold spec_dims. fold L. f_equal. lia. }
  rewrite read_v0_0_shape, Hc1, Hc2. cbn [orb].
  unfold body00, spec_body00, v00_window_view, first_person_view. cbn [p_body]. fold h.
  replace (enc_u16 (k0_fps c) ++ enc_u16 (lenN (k0_frames c)) ++ concat (map spec_frame00 (k0_frames c)))
    with ((enc_u16 (k0_fps c) ++ enc_u16 (lenN (k0_frames c))) ++ concat (map spec_frame00 (k0_frames c)))
    by (rewrite <- !app_assoc; reflexivity).
  apply RTp_bind with (a := (k0_fps c, lenN (k0_frames c))); [now apply u16x2_rt|].
  cbn [fst snd]. change (f32_of_u16 (k0_fps c)) with (fps_value (k0_fps c)). rewrite Hrs, Hre. cbn [plift pbind].
  fold (frames00 c). rewrite (not_beyond s (frames00 c) Hv1).
  rewrite Hnd. cbn [plift pbind].
  rewrite <- (app_nil_r (concat _)).
  apply RTp_bind with (a := map (frame_result (total_points h) (spec_dims h)) (k0_frames c)).
  { rewrite to_nat_lenN, <- (map_length (frame_result (total_points h) (spec_dims h))). apply RTp_prep.
    clear - HL HL2 Hfr. induction Hfr as [|f frames [Hf1 Hf2] _ IH]; cbn [map]; constructor; [|exact IH].
    now apply (frame00_rt h L). }
  destruct (Z.leb_spec (Z.of_N (spec_dims h)) 0) as [Hbad|_]; [unfold spec_dims in Hbad; fold L in Hbad; lia|].
  (* the kept frames are the window's *)
  set (s0 := start0 s) in *. set (e0 := end0 e (frames00 c)) in *.
  assert (He0 : (e0 <= frames00 c)%Z) by (unfold e0, end0; destruct e; lia).
  assert (Hs0 : (0 <= s0)%Z) by (unfold s0, start0; destruct s as [z|]; [destruct (0 <? z)%Z eqn:E|]; lia).
  rewrite start0_max. fold s0.
  pose proof (slice_window (map (frame_result (total_points h) (spec_dims h)) (k0_frames c)) s e) as Hk.
  cbv zeta in Hk. unfold lenN at 1 2 in Hk. rewrite map_length in Hk. fold (lenN (k0_frames c)) in Hk. fold (frames00 c) in Hk.
  fold s0 e0 in Hk. rewrite (Hk Hv2), dropN_map, takeN_map. clear Hk.
  set (W := takeN (Z.to_N e0 - Z.to_N s0) (dropN (Z.to_N s0) (k0_frames c))).
  rewrite !flat_map_map. cbn [fst snd frame_result].
  fold mask_or. rewrite frames_mask_ok, N2Z.id.
  unfold window_body. cbn [b_shape b_fps b_data b_conf b_mask].
  change (spec_points h) with (total_points h).
  replace (Z.of_N (1 * total_points h)) with (Z.of_N (total_points h)) by lia.
  rewrite (dropN_map is_zero32), (takeN_map is_zero32).
  rewrite (flat_window (frame_conf (total_points h)) (k0_frames c) (total_points h) s0 e0 Hlc) by lia.
  replace (Z.of_N (total_points h) * Z.of_N (spec_dims h))%Z with (Z.of_N (total_points h * spec_dims h)) by lia.
  rewrite (flat_window (frame_data (total_points h) (spec_dims h)) (k0_frames c) _ s0 e0 Hld) by lia.
  fold W.
  replace (lenN (map (frame_result (total_points h) (spec_dims h)) W)) with (Z.to_N (e0 - s0)).
  2:{ unfold lenN. rewrite map_length. fold (lenN W). unfold W. rewrite lenN_takeN, lenN_dropN. unfold frames00 in He0. lia. }
  apply RTp_ret.
Qed.

(* no bound: the window is the whole view *)
Lemma v00_window_full c : wf00 c -> v00_window_view c 0 (frames00 c) = first_person_view c.
Proof.
  intros Hwf. destruct (frame_lengths c Hwf) as [Hld Hlc].
  unfold v00_window_view, first_person_view, window_body, frames00. cbn [p_body p_header b_shape b_fps b_data b_conf b_mask].
  set (h := k0_header c) in *. change (spec_points h) with (total_points h).
  pose proof (lenN_flat_map_uniform _ _ _ Hld) as E1. pose proof (lenN_flat_map_uniform _ _ _ Hlc) as E2.
  rewrite !Z.mul_0_l, !dropN_0, Z.sub_0_r.
  f_equal. f_equal.
  - f_equal. lia.
  - apply takeN_all. rewrite E1. lia.
  - apply takeN_all. rewrite E2. lia.
  - apply takeN_all.
    replace (lenN (map is_zero32 (flat_map (frame_conf (total_points h)) (k0_frames c))))
      with (lenN (flat_map (frame_conf (total_points h)) (k0_frames c))) by (unfold lenN; now rewrite map_length).
    rewrite E2. lia.
Qed.
Theorem v00_body_rt c : wf00 c ->
  RTp (read_v0_0 (k0_header c) None None None None) (spec_body00 c) (p_body (first_person_view c)).
Proof.
  intros Hwf. rewrite <- (v00_window_full c Hwf).
  apply (v00_body_window_rt c None None None None None None Hwf); try reflexivity; cbn [start0 end0]; unfold frames00; lia.
Qed.

(* a start at or beyond the declared frame count: ValueError, raised before the first frame is decoded *)
Theorem v00_body_beyond c sf st ef et s e x : wf00 c ->
  conflict sf st = false -> conflict ef et = false ->
  resolve_start (fps_value (k0_fps c)) sf st = Ok s -> resolve_end (fps_value (k0_fps c)) ef et = Ok e ->
  (0 < start0 s)%Z -> (frames00 c <= start0 s)%Z ->
  FLq (read_v0_0 (k0_header c) sf st ef et) (spec_body00 c) x Value.
Proof.
  intros Hwf Hc1 Hc2 Hrs Hre H0 HF.
  destruct Hwf as [Hh [Hver [Hfps [HFr _]]]].
  rewrite read_v0_0_shape, Hc1, Hc2. cbn [orb]. unfold body00, spec_body00.
  replace (enc_u16 (k0_fps c) ++ enc_u16 (lenN (k0_frames c)) ++ concat (map spec_frame00 (k0_frames c)))
    with ((enc_u16 (k0_fps c) ++ enc_u16 (lenN (k0_frames c))) ++ concat (map spec_frame00 (k0_frames c)))
    by (rewrite <- !app_assoc; reflexivity).
  apply FLq_bind with (a := (k0_fps c, lenN (k0_frames c))); [apply RTp_RTq; now apply u16x2_rt|].
  cbn [fst snd]. change (f32_of_u16 (k0_fps c)) with (fps_value (k0_fps c)). rewrite Hrs, Hre. cbn [plift pbind].
  fold (frames00 c). rewrite (is_beyond s (frames00 c) H0 HF). apply FLq_fail.
Qed.

(* ---------- the decoder only reads and advances ---------- *)
Lemma v0prog_pmapM {X Y} (f : X -> prog Y) l : (forall x, v0prog (f x)) -> v0prog (pmapM f l).
Proof. intros Hf. induction l as [|x l IH]; cbn [pmapM]; [exact I|].
  apply v0prog_bind; [apply Hf|]. intros y. apply v0prog_bind; [exact IH|]. intros ys. exact I. Qed.
Lemma v0prog_rd_comp00 c : v0prog (rd_comp00 c).
Proof. unfold rd_comp00. cbn [v0prog]. intros b. destruct (_ <? 2); exact I. Qed.
Lemma v0prog_rd_person00 comps first : v0prog (rd_person00 comps first).
Proof. unfold rd_person00. cbn [v0prog]. apply v0prog_bind; [apply v0prog_pmapM, v0prog_rd_comp00|].
  intros cs. destruct first; [destruct (all_eq _)|]; exact I. Qed.
Lemma v0prog_rd_frame00 comps T D : v0prog (rd_frame00 comps T D).
Proof.
  unfold rd_frame00. apply v0prog_bind; [cbn; auto|]. intros np. destruct (N.to_nat np) as [|k].
  - unfold zeros_frame. destruct (D <? 0)%Z; exact I.
  - apply v0prog_bind; [apply v0prog_rd_person00|]. intros p0.
    apply v0prog_bind; [apply v0prog_prep, v0prog_rd_person00|]. intros rest. exact I.
Qed.
(* the argument checks raise before anything is read; the slice is a pure post-processing of the decoded frames *)
Lemma v0prog_read_v0_0 h sf st ef et : v0prog (read_v0_0 h sf st ef et).
Proof.
  rewrite read_v0_0_shape. destruct (conflict sf st || conflict ef et); [exact I|]. unfold body00.
  apply v0prog_bind; [cbn; auto|]. intros ff.
  apply v0prog_bind; [apply v0prog_plift|]. intros s.
  apply v0prog_bind; [apply v0prog_plift|]. intros e.
  destruct (match s with Some z => _ | None => false end); [exact I|].
  apply v0prog_bind; [apply v0prog_plift|]. intros D.
  apply v0prog_bind; [apply v0prog_prep, v0prog_rd_frame00|]. intros frames.
  destruct (D <=? 0)%Z; exact I.
Qed.

(* ---------- Pose.read ---------- *)
Definition window00 (c : content00) (a : rargs) : result (Z * Z) := window_of (fps_value (k0_fps c)) (frames00 c) a.

Theorem v00_read_bytes_window c m a x s0 e0 : wf00 c -> MemoOK m ->
  window00 c a = Ok (s0, e0) -> valid_window (frames00 c) s0 e0 ->
  fst (read_bytes c04_legacy m (spec00 c ++ x) a) = Ok (v00_window_view c s0 e0).
Proof.
  intros Hwf Hm Hw [Hv1 Hv2].
  destruct (window_of_inv _ _ _ _ _ Hw) as [Hc1 [Hc2 [s [e [Hrs [Hre [-> ->]]]]]]].
  pose proof Hwf as [Hh [Hver _]].
  unfold spec00. rewrite <- app_assoc.
  rewrite (bytes_header c04_legacy m _ a _ _ Hm (spec_header_parsed _ (spec_body00 c ++ x) Hh)).
  unfold read_body, read_body_with. rewrite Hver. cbn [c04_legacy].
  rewrite (v00_body_window_rt c _ _ _ _ s e Hwf Hc1 Hc2 Hrs Hre Hv1 Hv2 (spec_header (k0_header c)) x).
  reflexivity.
Qed.
Theorem v00_read_stream_window c m a x s0 e0 : wf00 c -> MemoOK m ->
  window00 c a = Ok (s0, e0) -> valid_window (frames00 c) s0 e0 ->
  fst (fst (read_stream4 c04_legacy m (spec00 c ++ x) a)) = Ok (v00_window_view c s0 e0).
Proof.
  intros Hwf Hm Hw Hv.
  destruct (any_arg a) eqn:Ha.
  - pose proof Hwf as [Hh [Hver _]].
    apply (stream4_of_bytes_v0 c04_legacy m (spec00 c ++ x) a (k0_header c) (lenN (spec_header (k0_header c)))); try assumption.
    + unfold spec00. rewrite <- app_assoc. apply spec_header_parsed. exact Hh.
    + unfold read_body, read_body_with. rewrite Hver. apply v0prog_read_v0_0.
    + now apply v00_read_bytes_window.
  - rewrite read_stream4_noargs by exact Ha. now apply v00_read_bytes_window.
Qed.

(* no window argument: every frame *)
Lemma no_args_window fps F a : any_arg a = false -> window_of fps F a = Ok (0%Z, F).
Proof.
  unfold any_arg. intros Ha. destruct (a_sf a) eqn:E1, (a_st a) eqn:E2, (a_ef a) eqn:E3, (a_et a) eqn:E4; try discriminate.
  unfold window_of. rewrite E1, E2, E3, E4. reflexivity.
Qed.
Corollary v00_read_bytes c m a x : wf00 c -> MemoOK m -> any_arg a = false ->
  fst (read_bytes c04_legacy m (spec00 c ++ x) a) = Ok (first_person_view c).
Proof.
  intros Hwf Hm Ha. rewrite <- (v00_window_full c Hwf).
  apply v00_read_bytes_window; [exact Hwf|exact Hm|now apply no_args_window|]. unfold valid_window, frames00. lia.
Qed.
Corollary v00_read_stream c m a x : wf00 c -> MemoOK m -> any_arg a = false ->
  fst (fst (read_stream4 c04_legacy m (spec00 c ++ x) a)) = Ok (first_person_view c).
Proof.
  intros Hwf Hm Ha. rewrite <- (v00_window_full c Hwf).
  apply v00_read_stream_window; [exact Hwf|exact Hm|now apply no_args_window|]. unfold valid_window, frames00. lia.
Qed.

(* a file that declares zero frames decodes to the empty pose of shape (0, 1, points, dims) *)
Corollary v00_zero_frames c m a : wf00 c -> k0_frames c = [] -> MemoOK m -> any_arg a = false ->
  fst (read_bytes c04_legacy m (spec00 c) a) = Ok (first_person_view c) /\
  b_shape (p_body (first_person_view c)) = [0; 1; spec_points (k0_header c); spec_dims (k0_header c)] /\
  b_data (p_body (first_person_view c)) = [] /\ b_conf (p_body (first_person_view c)) = [] /\
  b_mask (p_body (first_person_view c)) = [].
Proof.
  intros Hwf H0 Hm Ha. split.
  - rewrite <- (app_nil_r (spec00 c)). now apply v00_read_bytes.
  - unfold first_person_view. cbn [p_body b_shape b_data b_conf b_mask]. rewrite H0. repeat split.
Qed.

(* ---------- refused arguments ---------- *)
Lemma v00_parsed c x : wf00 c ->
  run_plain rd_header {| pbuf := spec00 c ++ x; poff := 0 |} =
  Ok (k0_header c, {| pbuf := spec00 c ++ x; poff := lenN (spec_header (k0_header c)) |}).
Proof. intros [Hh _]. unfold spec00. rewrite <- app_assoc. apply spec_header_parsed. exact Hh. Qed.
Theorem v00_conflict_bytes c m a x : wf00 c -> MemoOK m ->
  conflict (a_sf a) (a_st a) || conflict (a_ef a) (a_et a) = true ->
  fst (read_bytes c04_legacy m (spec00 c ++ x) a) = Err Value.
Proof.
  intros Hwf Hm Hc. pose proof Hwf as [Hh [Hver _]].
  rewrite (bytes_header c04_legacy m _ a _ _ Hm (v00_parsed c x Hwf)).
  unfold read_body, read_body_with. rewrite Hver. cbn [c04_legacy]. rewrite read_v0_0_shape, Hc. reflexivity.
Qed.
Theorem v00_conflict_stream c m a x : wf00 c -> MemoOK m ->
  conflict (a_sf a) (a_st a) || conflict (a_ef a) (a_et a) = true ->
  fst (fst (read_stream4 c04_legacy m (spec00 c ++ x) a)) = Err Value.
Proof.
  intros Hwf Hm Hc. destruct (any_arg a) eqn:Ha.
  - pose proof Hwf as [Hh [Hver _]].
    apply (stream4_fail_v0 c04_legacy m (spec00 c ++ x) a (k0_header c) (lenN (spec_header (k0_header c)))); try assumption.
    + now apply v00_parsed.
    + unfold read_body, read_body_with. rewrite Hver. apply v0prog_read_v0_0.
    + unfold read_body, read_body_with. rewrite Hver. cbn [c04_legacy]. rewrite read_v0_0_shape, Hc. reflexivity.
  - rewrite read_stream4_noargs by exact Ha. now apply v00_conflict_bytes.
Qed.
Lemma v00_beyond_fails c a x s0 e0 : wf00 c -> window00 c a = Ok (s0, e0) -> (0 < s0)%Z -> (frames00 c <= s0)%Z ->
  fails_at (read_body c04_legacy (k0_header c) a)
           {| pbuf := spec00 c ++ x; poff := lenN (spec_header (k0_header c)) |} Value.
Proof.
  intros Hwf Hw H0 HF.
  destruct (window_of_inv _ _ _ _ _ Hw) as [Hc1 [Hc2 [s [e [Hrs [Hre [-> ->]]]]]]].
  pose proof Hwf as [Hh [Hver _]].
  unfold read_body, read_body_with. rewrite Hver. cbn [c04_legacy]. unfold spec00. rewrite <- app_assoc.
  exact (v00_body_beyond c _ _ _ _ s e x Hwf Hc1 Hc2 Hrs Hre H0 HF (spec_header (k0_header c))).
Qed.
Theorem v00_beyond_bytes c m a x s0 e0 : wf00 c -> MemoOK m -> window00 c a = Ok (s0, e0) ->
  (0 < s0)%Z -> (frames00 c <= s0)%Z ->
  fst (read_bytes c04_legacy m (spec00 c ++ x) a) = Err Value.
Proof.
  intros Hwf Hm Hw H0 HF.
  apply (bytes_fail c04_legacy m (spec00 c ++ x) a (k0_header c) (lenN (spec_header (k0_header c)))); [exact Hm| |].
  - now apply v00_parsed.
  - now apply (v00_beyond_fails c a x s0 e0).
Qed.
Theorem v00_beyond_stream c m a x s0 e0 : wf00 c -> MemoOK m -> window00 c a = Ok (s0, e0) ->
  (0 < s0)%Z -> (frames00 c <= s0)%Z ->
  fst (fst (read_stream4 c04_legacy m (spec00 c ++ x) a)) = Err Value.
Proof.
  intros Hwf Hm Hw H0 HF. destruct (any_arg a) eqn:Ha.
  - pose proof Hwf as [Hh [Hver _]].
    apply (stream4_fail_v0 c04_legacy m (spec00 c ++ x) a (k0_header c) (lenN (spec_header (k0_header c)))); try assumption.
    + now apply v00_parsed.
    + unfold read_body, read_body_with. rewrite Hver. apply v0prog_read_v0_0.
    + now apply (v00_beyond_fails c a x s0 e0).
  - rewrite read_stream4_noargs by exact Ha. now apply (v00_beyond_bytes c m a x s0 e0).
Qed.
