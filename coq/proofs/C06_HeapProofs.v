(* C06: reads are history-independent and results share no mutable state. *)
From Coq Require Import ZArith NArith List Lia ZifyBool ZifyN ZifyNat Bool.
Require Import ListN Result Bytes Utf8 Utf8S F32 Prog Codec ProgLemmas CodecRT PoseRead PoseReadLemmas C06_Heap.
Import ListNotations.
Open Scope N_scope.

(* ---------- value level: the memo never changes what a read returns ---------- *)
Section WithLegacy.
Variable legacy : vclass -> header -> rargs -> prog body.

Theorem read_bytes_memo_independent m buffer a : MemoOK m ->
  fst (read_bytes legacy m buffer a) = fst (read_bytes legacy None buffer a).
Proof.
  intros Hm. unfold read_bytes at 1. destruct (check_cache m buffer) as [c|] eqn:Hc.
  - destruct (check_cache_hit m buffer c Hm Hc) as [_ Hrun].
    unfold read_bytes. cbn [check_cache]. rewrite Hrun. reflexivity.
  - unfold read_bytes. cbn [check_cache].
    destruct (run_plain rd_header {| pbuf := buffer; poff := 0 |}) as [[h r]|e]; reflexivity.
Qed.

(* a whole history of reads, threading the memo: every result is the stateless one *)
Fixpoint run_reads (m : option memo) (ops : list (bytes * rargs)) : list (result pose) :=
  match ops with
  | [] => []
  | (b, a) :: rest => fst (read_bytes legacy m b a) :: run_reads (snd (read_bytes legacy m b a)) rest
  end.
Theorem history_independent_values ops : forall m, MemoOK m ->
  run_reads m ops = map (fun ba => fst (read_bytes legacy None (fst ba) (snd ba))) ops.
Proof.
  induction ops as [|[b a] ops IH]; intros m Hm; [reflexivity|]. cbn [run_reads map fst snd].
  rewrite (read_bytes_memo_independent m b a Hm). f_equal. apply IH. now apply read_bytes_memo_ok.
Qed.

(* ---------- object level ---------- *)
Definition HInv (s : hstate) : Prop :=
  MemoOK (memo_view s) /\
  (forall c, hmem s = Some c -> (hm_addr c < length (heap s))%nat /\ ~ In (hm_addr c) (handed s)) /\
  NoDup (handed s) /\ (forall a, In a (handed s) -> (a < length (heap s))%nat).

Lemma hinv_init : HInv hinit.
Proof. unfold HInv, hinit; cbn. repeat split; try constructor; try discriminate; contradiction. Qed.

Lemma nth_app_old {X} (l : list X) x a d : (a < length l)%nat -> nth a (l ++ [x]) d = nth a l d.
Proof. intros H. now apply app_nth1. Qed.
Lemma nth_app_new {X} (l : list X) x d : nth (length l) (l ++ [x]) d = x.
Proof. rewrite app_nth2 by lia. now rewrite Nat.sub_diag. Qed.
Lemma nth_set_nth_other {X} (l : list X) : forall n m x d, n <> m -> nth m (set_nth n x l) d = nth m l d.
Proof. induction l as [|y l IH]; intros [|n] [|m] x d H; cbn; try reflexivity; try congruence. apply IH. congruence. Qed.
Lemma nth_set_nth_same {X} (l : list X) : forall n x d, (n < length l)%nat -> nth n (set_nth n x l) d = x.
Proof. induction l as [|y l IH]; intros [|n] x d H; cbn in *; try lia; [reflexivity|]. apply IH. lia. Qed.
Lemma length_set_nth {X} (l : list X) : forall n x, length (set_nth n x l) = length l.
Proof. induction l as [|y l IH]; intros [|n] x; cbn; try reflexivity. now rewrite IH. Qed.

Lemma NoDup_app_one {X} (l : list X) x : NoDup l -> ~ In x l -> NoDup (l ++ [x]).
Proof. intros Hn Hx. apply NoDup_rev in Hn. rewrite <- (rev_involutive (l ++ [x])). apply NoDup_rev.
  rewrite rev_app_distr. cbn. constructor; [now rewrite <- in_rev|exact Hn]. Qed.
Lemma memo_view_ext s s' : hmem s' = hmem s ->
  (forall c, hmem s = Some c -> deref s' (hm_addr c) dummy_header = deref s (hm_addr c) dummy_header) ->
  memo_view s' = memo_view s.
Proof. intros Hm Hd. unfold memo_view. rewrite Hm. destruct (hmem s) as [c|]; [|reflexivity]. now rewrite (Hd c eq_refl). Qed.

(* allocation does not disturb existing objects nor the memo's view *)
Lemma memo_view_alloc s h : HInv s -> memo_view (snd (alloc h s)) = memo_view s.
Proof.
  intros [_ [Hm _]]. unfold memo_view, alloc; cbn [snd hmem heap]. destruct (hmem s) as [c|] eqn:E; [|reflexivity].
  destruct (Hm c eq_refl) as [Hlt _]. unfold deref; cbn [heap]. now rewrite nth_app_old.
Qed.

(* what a read returns, as a pose value: header object dereferenced in the state after the read *)
Definition pose_of (s : hstate) (r : result (addr * body)) : result pose :=
  rmap (fun ab => {| p_header := deref s (fst ab) dummy_header; p_body := snd ab |}) r.

Theorem read_h_value s buffer a : HInv s ->
  pose_of (snd (read_h legacy s buffer a)) (fst (read_h legacy s buffer a)) = fst (read_bytes legacy None buffer a).
Proof.
  intros HI. destruct HI as [Hmo HI'].
  rewrite <- (read_bytes_memo_independent (memo_view s) buffer a Hmo).
  unfold read_h, read_bytes.
  destruct (check_cache (memo_view s) buffer) as [c|] eqn:Hc.
  - cbn [alloc fst snd]. unfold pose_of, hand_out, deref; cbn [fst snd heap].
    destruct (run_plain (read_body legacy (m_header c) a) _) as [[b r]|e]; cbn [rmap fst snd]; [|reflexivity].
    now rewrite nth_app_new.
  - destruct (run_plain rd_header _) as [[h r]|e]; [|reflexivity].
    cbn [alloc fst snd]. unfold pose_of, hand_out, deref; cbn [fst snd heap].
    destruct (run_plain (read_body legacy h a) r) as [[b r']|e]; cbn [rmap fst snd]; [|reflexivity].
    rewrite nth_app_old by (rewrite app_length; cbn; lia). now rewrite nth_app_new.
Qed.

(* the object handed out by a read is new: no earlier caller holds it, and it is not the memo's *)
Theorem read_h_fresh s buffer a ad b : HInv s -> fst (read_h legacy s buffer a) = Ok (ad, b) ->
  ~ In ad (handed s) /\ In ad (handed (snd (read_h legacy s buffer a))) /\
  (forall c, hmem (snd (read_h legacy s buffer a)) = Some c -> hm_addr c <> ad).
Proof.
  intros [Hmo [Hm [Hnd Hlt]]] Hr. unfold read_h in *.
  destruct (check_cache (memo_view s) buffer) as [c|] eqn:Hc.
  - cbn [alloc fst snd] in *.
    destruct (run_plain (read_body legacy (m_header c) a) _) as [[b0 r]|e]; cbn [rmap fst snd] in Hr; [|discriminate].
    injection Hr as <- <-. split; [intros Hin; apply Hlt in Hin; lia|]. split; [cbn [hand_out handed]; apply in_or_app; right; now left|].
    intros c' Hc'. cbn [hand_out hmem] in Hc'. destruct (Hm c' Hc') as [Hl _]. lia.
  - destruct (run_plain rd_header _) as [[h r]|e]; [|discriminate]. cbn [alloc fst snd] in *.
    destruct (run_plain (read_body legacy h a) r) as [[b0 r']|e]; cbn [rmap fst snd] in Hr; [|discriminate].
    injection Hr as <- <-. split; [intros Hin; apply Hlt in Hin; lia|]. split; [cbn [hand_out handed]; apply in_or_app; right; now left|].
    intros c' Hc'. cbn [hand_out hmem] in Hc'. injection Hc' as <-. cbn [hm_addr]. rewrite app_length. cbn. lia.
Qed.

Lemma hinv_read s buffer a : HInv s -> HInv (snd (read_h legacy s buffer a)).
Proof.
  intros HI. pose proof HI as [Hmo [Hm [Hnd Hlt]]]. unfold read_h.
  destruct (check_cache (memo_view s) buffer) as [c|] eqn:Hc.
  - cbn [alloc fst snd]. unfold HInv, hand_out; cbn [heap hmem handed].
    split.
    { rewrite (memo_view_ext s); [exact Hmo|reflexivity|].
      intros c' Hc'. destruct (Hm c' Hc') as [Hl _]. unfold deref; cbn [heap]. now rewrite nth_app_old. }
    split.
    { intros c' Hc'. destruct (Hm c' Hc') as [Hl Hni]. rewrite app_length. cbn. split; [lia|].
      intros Hin. apply in_app_or in Hin. destruct Hin as [Hin|[Hin|[]]]; [contradiction|lia]. }
    split.
    { apply NoDup_app_one; [exact Hnd|]. intros Hin. apply Hlt in Hin. lia. }
    intros x Hin. rewrite app_length. cbn. apply in_app_or in Hin. destruct Hin as [Hin|[<-|[]]]; [apply Hlt in Hin; lia|lia].
  - destruct (run_plain rd_header {| pbuf := buffer; poff := 0 |}) as [[h r]|e] eqn:Hr; [|exact HI].
    cbn [alloc fst snd]. unfold HInv, hand_out; cbn [heap hmem handed].
    split.
    { (* the new memo is consistent: it is what read_bytes stores *)
      pose proof (read_bytes_memo_ok legacy None buffer a I) as Hok. unfold read_bytes in Hok. cbn [check_cache] in Hok.
      rewrite Hr in Hok. cbn [snd] in Hok.
      unfold memo_view; cbn [hmem hm_start hm_end hm_slice hm_addr heap]. unfold deref; cbn [heap].
      rewrite nth_app_new. exact Hok. }
    split.
    { intros c' Hc'. injection Hc' as <-. cbn [hm_addr]. rewrite !app_length. cbn. split; [lia|].
      intros Hin. apply in_app_or in Hin. destruct Hin as [Hin|[Hin|[]]]; [apply Hlt in Hin; lia|lia]. }
    split.
    { apply NoDup_app_one; [exact Hnd|]. intros Hin. apply Hlt in Hin. lia. }
    intros x Hin. rewrite !app_length. cbn. apply in_app_or in Hin. destruct Hin as [Hin|[<-|[]]]; [apply Hlt in Hin; lia|lia].
Qed.

(* in-place edits and copies by callers keep the invariant: they cannot reach the memo's object *)
Lemma hinv_step s o : HInv s -> HInv (fst (step_h legacy s o)).
Proof.
  intros HI. destruct o as [buffer a|k f|k]; cbn [step_h].
  - destruct (read_h legacy s buffer a) as [r s'] eqn:E. cbn [fst].
    replace s' with (snd (read_h legacy s buffer a)) by (now rewrite E). now apply hinv_read.
  - destruct (nth_error (handed s) k) as [ad|] eqn:Hk; [|exact HI]. cbn [fst].
    pose proof HI as [Hmo [Hm [Hnd Hlt]]]. apply nth_error_In in Hk.
    unfold HInv; cbn [heap hmem handed]. split.
    { rewrite (memo_view_ext s); [exact Hmo|reflexivity|].
      intros c Hc. destruct (Hm c Hc) as [_ Hni]. unfold deref; cbn [heap].
      apply nth_set_nth_other. intros ->. contradiction. }
    split; [intros c Hc; rewrite length_set_nth; now apply Hm|].
    split; [exact Hnd|]. intros x Hx. rewrite length_set_nth. now apply Hlt.
  - destruct (nth_error (handed s) k) as [ad|] eqn:Hk; [|exact HI]. cbn [alloc fst].
    pose proof HI as [Hmo [Hm [Hnd Hlt]]].
    unfold HInv, hand_out; cbn [heap hmem handed]. split.
    { rewrite (memo_view_ext s); [exact Hmo|reflexivity|].
      intros c Hc. destruct (Hm c Hc) as [Hl _]. unfold deref; cbn [heap]. now rewrite nth_app_old. }
    split.
    { intros c Hc. destruct (Hm c Hc) as [Hl Hni]. rewrite app_length. cbn. split; [lia|].
      intros Hin. apply in_app_or in Hin. destruct Hin as [Hin|[Hin|[]]]; [contradiction|lia]. }
    split; [apply NoDup_app_one; [exact Hnd|]; intros Hin; apply Hlt in Hin; lia|].
    intros x Hin. rewrite app_length. cbn. apply in_app_or in Hin. destruct Hin as [Hin|[<-|[]]]; [apply Hlt in Hin; lia|lia].
Qed.
Lemma hinv_run ops : forall s, HInv s -> HInv (run_h legacy s ops).
Proof. induction ops as [|o ops IH]; intros s HI; [exact HI|]. cbn [run_h]. apply IH. now apply hinv_step. Qed.

(* C06, first sentence: after ANY history of reads, in-place mutations of earlier results and copies, a read
   returns exactly what it returns in a fresh process *)
Theorem read_history_independent ops buffer a :
  let s := run_h legacy hinit ops in
  pose_of (snd (read_h legacy s buffer a)) (fst (read_h legacy s buffer a)) = fst (read_bytes legacy None buffer a).
Proof. cbv zeta. apply read_h_value. apply hinv_run, hinv_init. Qed.

(* C06, second sentence: objects held by callers are pairwise distinct and none is the memo's; an in-place
   edit changes the edited object only *)
Theorem no_sharing ops :
  let s := run_h legacy hinit ops in
  NoDup (handed s) /\ (forall c, hmem s = Some c -> ~ In (hm_addr c) (handed s)).
Proof. cbv zeta. destruct (hinv_run ops hinit hinv_init) as [_ [Hm [Hnd _]]]. split; [exact Hnd|]. intros c Hc. now apply Hm. Qed.
Theorem mutate_changes_only_its_object s k f ad other : HInv s -> nth_error (handed s) k = Some ad -> other <> ad ->
  deref (fst (step_h legacy s (HMutate k f))) other dummy_header = deref s other dummy_header.
Proof. intros HI Hk Hne. cbn [step_h]. rewrite Hk. cbn [fst]. unfold deref; cbn [heap]. apply nth_set_nth_other. congruence. Qed.
Theorem copy_is_a_new_equal_object s k ad : HInv s -> nth_error (handed s) k = Some ad ->
  let s' := fst (step_h legacy s (HCopy k)) in
  exists ad', handed s' = handed s ++ [ad'] /\ ~ In ad' (handed s) /\ ad' <> ad /\
              deref s' ad' dummy_header = deref s ad dummy_header /\
              (forall x, In x (handed s) -> deref s' x dummy_header = deref s x dummy_header).
Proof.
  intros [_ [_ [_ Hlt]]] Hk. cbn [step_h]. rewrite Hk. cbn [alloc fst hand_out handed].
  exists (length (heap s)). split; [reflexivity|].
  pose proof (nth_error_In _ _ Hk) as Hin. split; [intros H; apply Hlt in H; lia|]. split; [apply Hlt in Hin; lia|].
  unfold deref; cbn [heap]. split; [apply nth_app_new|]. intros x Hx. apply nth_app_old. now apply Hlt.
Qed.
End WithLegacy.

(* streams: a windowed stream read returns the stateless bytes result whenever that one succeeds (v0.2 bodies);
   a stream read without window arguments is a bytes read *)
Require Import StreamLemmas WindowLemmas StreamRead C03_Window.
Section Streams.
Variable legacy : vclass -> header -> rargs -> prog body.
Theorem stream_read_memo_independent m q a pose :
  MemoOK m -> any_arg a = true ->
  (forall h r, run_plain rd_header {| pbuf := q; poff := 0 |} = Ok (h, r) -> v2prog (read_body legacy h a)) ->
  fst (read_bytes legacy None q a) = Ok pose ->
  fst (fst (read_stream legacy m q a)) = Ok pose.
Proof.
  intros Hm Ha Hv Hok. rewrite <- (read_bytes_memo_independent legacy m q a Hm) in Hok.
  now destruct (read_stream_as_bytes legacy m q a pose Hm Ha Hv Hok).
Qed.
Theorem stream_read_noargs_memo_independent m q a : MemoOK m -> any_arg a = false ->
  fst (fst (read_stream legacy m q a)) = fst (read_bytes legacy None q a).
Proof. intros Hm Ha. rewrite (read_stream_noargs legacy m q a Ha). apply read_bytes_memo_independent, Hm. Qed.
End Streams.

(* non-vacuity: a history with a read, a renaming of the result's first component, a copy, and a second read *)
Require Import C01_Examples.
Definition ex_rename (h : header) : header :=
  {| h_version := h_version h; h_dims := (1, 2, 3);
     h_comps := match h_comps h with c :: r => {| c_name := [90]; c_format := c_format c; c_points := c_points c; c_limbs := c_limbs c; c_colors := c_colors c |} :: r | [] => [] end |}.
Definition ex_history : list hop :=
  [HRead ex_empty_bytes no_args; HMutate 0 ex_rename; HCopy 0; HRead ex_empty_bytes no_args].
Lemma ex_history_runs :
  let s := run_h no_legacy hinit ex_history in
  handed s = [0; 2; 3]%nat /\ length (heap s) = 4%nat /\
  deref s 0%nat dummy_header <> deref s 3%nat dummy_header /\
  exists c, hmem s = Some c /\ hm_addr c = 1%nat.
Proof. vm_compute. split; [reflexivity|]. split; [reflexivity|]. split; [discriminate|]. eexists. split; reflexivity. Qed.
