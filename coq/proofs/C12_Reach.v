(* C12 - preservation by [step], reachability (any number of operations), executable invariant. *)
From Coq Require Import List Arith Bool ZArith Lia.
Require Import Result Tensor C12_Model C12_Tab C12_Inv.
Import ListNotations.

Ltac binds H :=
  repeat match type of H with
         | rbind _ _ = Ok _ => let x := fresh "x" in let Hx := fresh "Hx" in apply rbind_ok in H; destruct H as [x [Hx H]]
         end.

Theorem inv_preserved st o st' : Inv st -> pre st o = true -> step st o = Ok st' -> Inv st'.
Proof.
  intros [F [P [T [D [Hne [Hfmt [HT HC]]]]]]] Hpre H.
  unfold step in H. rewrite (cons_dims4 _ _ _ _ _ _ HC) in H. cbn [rbind] in H.
  destruct o as [cs pts|cs pts| |newF cz'|by_|ix|sel|sel|axis|ok|i1 i2|pp zs| | |lay| ].
  - (* get_components *)
    binds H. destruct x as [h' idxs]. cbn [fst snd] in *. destruct x0 as [m' c']. injection H as <-.
    destruct (get_components_hdr_ok _ _ _ _ _ D Hfmt Hx) as [A [B C0]].
    exists F, P, (length idxs), D. cbn [s_hdr s_mask s_cz mk_state fst snd].
    split. { intros E. rewrite E in C0. cbn in Hpre. destruct cs; [discriminate|discriminate]. }
    split; [exact A|]. split; [exact B|]. eapply get_points_cons; eassumption.
  - (* remove_components *)
    binds H. destruct x as [h' idxs]. cbn [fst snd] in *. destruct x0 as [m' c']. injection H as <-.
    destruct (get_components_hdr_ok _ _ _ _ _ D Hfmt Hx) as [A [B C0]].
    exists F, P, (length idxs), D. cbn [s_hdr s_mask s_cz mk_state fst snd].
    split. { intros E. rewrite E in C0. cbn [pre] in Hpre. apply (rc_args_keep _ _ pts) in Hpre.
             destruct (fst (rc_args (s_hdr st) cs pts)); [congruence|discriminate]. }
    split; [exact A|]. split; [exact B|]. eapply get_points_cons; eassumption.
  - (* bbox *)
    binds H. destruct x as [m' c']. injection H as <-. apply only_np_ok in Hx. destruct Hx as [_ Hx].
    exists F, P, (bbox_rows * length (s_hdr st)), D. cbn [s_hdr s_mask s_cz mk_state fst snd].
    split. { unfold bbox_hdr. destruct (s_hdr st); [congruence|discriminate]. }
    split. { unfold bbox_hdr. rewrite Forall_map. exact Hfmt. }
    split; [apply total_points_bbox|]. eapply bbox_np_cons; eassumption.
  - (* interpolate *)
    binds H. destruct x as [m' c']. injection H as <-. apply pass_through_ok in Hx. apply only_np_ok in Hx. destruct Hx as [_ Hx].
    exists (Z.to_nat newF), P, T, D. cbn [s_hdr s_mask s_cz mk_state fst snd]. repeat (split; [assumption|]).
    eapply interpolate_np_cons; eassumption.
  - (* slice_step *)
    binds H. destruct x as [m' c']. injection H as <-. apply pass_through_ok in Hx.
    exists (step_count F (Z.abs_nat by_)), P, T, D. cbn [s_hdr s_mask s_cz mk_state fst snd]. repeat (split; [assumption|]).
    eapply slice_step_cons; eassumption.
  - (* select_frames *)
    binds H. destruct x as [m' c']. injection H as <-.
    destruct (select_frames_cons _ _ _ _ _ _ _ _ _ _ HC Hx) as [F' HC'].
    exists F', P, T, D. cbn [s_hdr s_mask s_cz mk_state fst snd]. repeat (split; [assumption|]). exact HC'.
  - (* dropout, uniform *)
    binds H. destruct x as [m' c']. injection H as <-.
    exists (length sel), P, T, D. cbn [s_hdr s_mask s_cz mk_state fst snd]. repeat (split; [assumption|]).
    eapply dropout_cons; eassumption.
  - (* dropout, normal *)
    binds H. destruct x as [m' c']. injection H as <-.
    exists (length sel), P, T, D. cbn [s_hdr s_mask s_cz mk_state fst snd]. repeat (split; [assumption|]).
    eapply dropout_cons; eassumption.
  - (* flip *)
    binds H. destruct x as [m' c']. injection H as <-. apply pass_through_ok in Hx. apply only_np_ok in Hx. destruct Hx as [_ Hx].
    exists F, P, T, D. cbn [s_hdr s_mask s_cz mk_state fst snd]. repeat (split; [assumption|]).
    unfold flip_np in Hx. destruct ((- Z.of_nat D <=? axis) && (axis <? Z.of_nat D))%Z; [|discriminate].
    eapply np_fin_cons; eassumption.
  - (* augment2d *)
    binds H. destruct x as [m' c']. injection H as <-. apply pass_through_ok in Hx.
    exists F, P, T, D. cbn [s_hdr s_mask s_cz mk_state fst snd]. repeat (split; [assumption|]).
    eapply augment2d_cons; eassumption.
  - (* normalize *)
    binds H. destruct x as [m' c']. injection H as <-.
    exists F, P, T, D. cbn [s_hdr s_mask s_cz mk_state fst snd]. repeat (split; [assumption|]).
    eapply normalize_cons; try eassumption.
    cbn [pre] in Hpre. rewrite (cons_dims4 _ _ _ _ _ _ HC) in Hpre.
    apply andb_prop in Hpre. destruct Hpre as [_ Hpre].
    apply ex_lt_spec in Hpre. destruct Hpre as [f0 [Hf0 Hpre]]. apply ex_lt_spec in Hpre. destruct Hpre as [p0 [Hp0 Hpre]].
    apply andb_prop in Hpre. destruct Hpre as [Z1 Z2]. apply negb_true_iff in Z1, Z2.
    exists f0, p0. auto.
  - (* normalize_distribution *)
    binds H. destruct x as [m' c']. injection H as <-.
    exists F, P, T, D. cbn [s_hdr s_mask s_cz mk_state fst snd]. repeat (split; [assumption|]).
    eapply normalize_distribution_cons; try eassumption.
  - (* focus *)
    binds H. destruct x as [m' c']. injection H as <-. apply only_np_ok in Hx. destruct Hx as [_ Hx].
    exists F, P, T, D. cbn [s_hdr s_mask s_cz mk_state fst snd]. repeat (split; [assumption|]).
    unfold focus_np in Hx. destruct (F * P * T =? 0); [discriminate|]. destruct (D <? 2); [discriminate|].
    destruct (ex_lt (Nat.min D 3) _); [discriminate|]. injection Hx as <- <-. exact HC.
  - (* copy *)
    binds H. destruct x as [m' c']. injection H as <-.
    exists F, P, T, D. cbn [s_hdr s_mask s_cz mk_state fst snd]. repeat (split; [assumption|]).
    eapply fin_cons; eassumption.
  - (* torch *)
    binds H. destruct x as [m' c']. injection H as <-. apply pass_through_ok in Hx. apply only_np_ok in Hx. destruct Hx as [_ Hx].
    exists F, P, T, D. cbn [s_hdr s_mask s_cz mk_state fst snd]. repeat (split; [assumption|]).
    destruct (D =? 0); [discriminate|]. destruct lay; [|discriminate]. injection Hx as <- <-.
    destruct HC as [_ [Hc [_ [Wc _]]]]. apply conf_mask_cons; assumption.
  - (* tensorflow *)
    binds H. destruct x as [m' c']. injection H as <-. apply pass_through_ok in Hx. apply only_np_ok in Hx. destruct Hx as [_ Hx].
    exists F, P, T, D. cbn [s_hdr s_mask s_cz mk_state fst snd]. repeat (split; [assumption|]).
    destruct (D =? 0); [discriminate|]. injection Hx as <- <-.
    destruct HC as [_ [Hc [_ [Wc _]]]]. apply conf_mask_cons; assumption.
Qed.

(* every state reachable by operations whose preconditions hold and that do not raise *)
Inductive reachable (s0 : state) : state -> Prop :=
| reach_refl : reachable s0 s0
| reach_step st o st' : reachable s0 st -> pre st o = true -> step st o = Ok st' -> reachable s0 st'.
Theorem reachable_inv s0 st : Inv s0 -> reachable s0 st -> Inv st.
Proof. intros H0 R. induction R as [|st o st' R IH Hp Hs]; [exact H0|]. eapply inv_preserved; eassumption. Qed.
Lemma reachable_trans s0 s1 s2 : reachable s0 s1 -> reachable s1 s2 -> reachable s0 s2.
Proof. intros A B. induction B; [exact A|]. eapply reach_step; eassumption. Qed.
Lemma run_reachable ops : forall st st', run st ops = Ok st' -> reachable st st'.
Proof.
  induction ops as [|o r IH]; intros st st' H; cbn [run] in H.
  - injection H as <-. constructor.
  - destruct (pre st o) eqn:Hp; [|discriminate]. apply rbind_ok in H. destruct H as [s1 [Hs H]].
    eapply reachable_trans; [|apply IH; exact H]. eapply reach_step; [constructor|exact Hp|exact Hs].
Qed.
Theorem run_inv ops st st' : Inv st -> run st ops = Ok st' -> Inv st'.
Proof. intros HI H. eapply reachable_inv; [exact HI|]. eapply run_reachable; exact H. Qed.

(* a pose as the NumPy constructor / Pose.read gives it satisfies the invariant *)
Theorem start_state_inv h F P T D cz st :
  h <> [] -> Forall (fun c => c_fmt c = S D) h -> total_points h = T -> length cz = F * P * T ->
  start_state h F P T D cz = Ok st -> Inv st.
Proof.
  intros Hne Hfmt HT HL H. unfold start_state in H. apply rbind_ok in H. destruct H as [[m' c'] [Hx H]]. injection H as <-.
  exists F, P, T, D. cbn [s_hdr s_mask s_cz mk_state fst snd]. repeat (split; [assumption|]).
  apply np_fin_inv in Hx. destruct Hx as [Hx ->].
  apply (np_ctor_cons _ _ _ F P T D) in Hx; [exact Hx|apply tab4_shape|reflexivity| |].
  - unfold wf; cbn [data shape prod fold_right]. rewrite HL, Nat.mul_1_r, Nat.mul_assoc. reflexivity.
  - intros f p t d Hf Hp Ht Hd E. rewrite get4_tab4 in E by assumption. discriminate.
Qed.

(* the executable invariant implies the stated one *)
Lemma wfb_wf {X} (t : tensor X) : wfb t = true -> wf t.
Proof. unfold wfb, wf. apply Nat.eqb_eq. Qed.
Theorem invb_sound st : invb st = true -> Inv st.
Proof.
  unfold invb. destruct (dims4 (s_mask st) (s_cz st)) as [[[[F P] T] D]|e] eqn:E; [|discriminate].
  intros H. apply andb_prop in H. destruct H as [H HC]. apply andb_prop in H. destruct H as [H HT].
  apply andb_prop in H. destruct H as [Hne Hfmt].
  apply dims4_shapes in E. destruct E as [Hm Hc].
  exists F, P, T, D. split. { intros E0. rewrite E0 in Hne. discriminate. }
  split. { apply Forall_forall. intros c Hin. rewrite forallb_forall in Hfmt. apply Nat.eqb_eq. apply Hfmt. exact Hin. }
  split. { apply Nat.eqb_eq. exact HT. }
  unfold consb in HC. apply andb_prop in HC. destruct HC as [HW Hcell]. apply andb_prop in HW. destruct HW as [Wm Wc].
  split; [exact Hm|]. split; [exact Hc|]. split; [apply wfb_wf; exact Wm|]. split; [apply wfb_wf; exact Wc|].
  intros f p t d Hf Hp Ht Hd.
  rewrite all_lt_spec in Hcell. specialize (Hcell f Hf). rewrite all_lt_spec in Hcell. specialize (Hcell p Hp).
  rewrite all_lt_spec in Hcell. specialize (Hcell t Ht). rewrite all_lt_spec in Hcell. specialize (Hcell d Hd).
  apply eqb_prop. exact Hcell.
Qed.
(* ... and the statement's own reading of it (header dims = max format length - 1) *)
Lemma fold_max_const (l : list nat) n : l <> [] -> Forall (fun x => x = n) l -> fold_right Nat.max 0 l = n.
Proof.
  intros Hne H. induction H as [|x l Hx Hl IH]; [congruence|]. cbn [fold_right]. subst x.
  destruct l as [|y l']; [cbn; lia|]. rewrite IH by discriminate. lia.
Qed.
Theorem inv_num_dims st : Inv st -> exists F P D, num_dims (s_hdr st) = Some (Z.of_nat D) /\
  shape (s_mask st) = [F; P; total_points (s_hdr st); D] /\ shape (s_cz st) = [F; P; total_points (s_hdr st)].
Proof.
  intros [F [P [T [D [Hne [Hfmt [HT [Hm [Hc _]]]]]]]]]. exists F, P, D. subst T. split; [|split; assumption].
  unfold num_dims. destruct (s_hdr st) as [|c0 r] eqn:E; [congruence|]. rewrite <- E in *.
  rewrite (fold_max_const (map c_fmt (s_hdr st)) (S D)).
  - f_equal. lia.
  - rewrite E. discriminate.
  - rewrite Forall_map. exact Hfmt.
Qed.
