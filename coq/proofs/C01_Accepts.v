(* C01: exactly which poses Pose.write accepts.  [representable] is a boolean test on the pose handed to the writer; the writer
   succeeds iff it holds - so every pose outside it is refused with an exception (the "or the write fails loudly" clause made
   explicit), and for every pose inside it the round-trip theorem applies. *)
From Coq Require Import ZArith NArith List Bool Lia ZifyBool ZifyN ZifyNat.
Require Import ListN Result Bytes Utf8 Utf8S F32 Prog Codec.
Import ListNotations.
Open Scope N_scope.

Definition str_ok (s : str) : bool :=
  match enc_utf8 s with Some b => lenN b <? 65536 | None => false end.
Definition comp_ok (c : wcomponent) : bool :=
  str_ok (wc_name c) && str_ok (wc_format c) &&
  forallb u16_ok [Z.of_N (lenN (wc_points c)); Z.of_N (lenN (wc_limbs c)); Z.of_N (lenN (wc_colors c))] &&
  forallb str_ok (wc_points c) &&
  forallb (fun l => forallb u16_ok [fst l; snd l]) (wc_limbs c) &&
  forallb (fun k => forallb u16_ok [fst (fst k); snd (fst k); snd k]) (wc_colors c).
Definition dims_ok (d : Z * Z * Z) : bool := let '(w, h, dp) := d in u16_ok w && u16_ok h && u16_ok dp.
Definition header_ok (dims : Z * Z * Z) (comps : list wcomponent) : bool :=
  dims_ok dims && forallb u16_ok [Z.of_N (lenN comps)] && forallb comp_ok comps.
Definition body_ok (p : wpose) : bool :=
  match w_shape p with
  | [F; P; T; D] => negb (4294967295 <? F) && (match pack_f32 (w_fps p) with Some _ => true | None => false end) && negb (65535 <? P)
  | _ => false
  end.
Definition representable (p : wpose) : bool :=
  match w_shape p with
  | [F; P; T; D] =>
      match num_dims_of (map wc_format (w_comps p)) with
      | Ok hd => (hd =? Z.of_N D)%Z && (total_points_w (w_comps p) =? T) && eq_shape (w_cshape p) [F; P; T]
                 && header_ok (w_dims p) (w_comps p) && body_ok p
      | Err _ => false
      end
  | _ => false
  end.

Definition is_ok {A} (r : result A) : bool := match r with Ok _ => true | Err _ => false end.
Lemma is_ok_bind {A B} (r : result A) (k : A -> result B) : is_ok (rbind r k) = match r with Ok a => is_ok (k a) | Err _ => false end.
Proof. destruct r; reflexivity. Qed.
Lemma concat_r_ok l : is_ok (concat_r l) = forallb is_ok l.
Proof.
  induction l as [|r l IH]; [reflexivity|]. cbn [concat_r forallb]. rewrite is_ok_bind. destruct r as [a|e]; [|reflexivity].
  cbn [is_ok andb]. rewrite is_ok_bind. rewrite <- IH. destruct (concat_r l); reflexivity.
Qed.
Lemma write_str_ok_b s : is_ok (write_str s) = str_ok s.
Proof. unfold write_str, str_ok. destruct (enc_utf8 s) as [b|]; [|reflexivity]. destruct (lenN b <? 65536); reflexivity. Qed.
Lemma pack_u16s_ok_b l : is_ok (pack_u16s l) = forallb u16_ok l.
Proof. unfold pack_u16s. destruct (forallb u16_ok l); reflexivity. Qed.
Lemma forallb_map {X Y} (f : X -> Y) (g : Y -> bool) l : forallb g (map f l) = forallb (fun x => g (f x)) l.
Proof. induction l as [|x l IH]; [reflexivity|]. cbn. now rewrite IH. Qed.
Lemma forallb_ext' {X} (f g : X -> bool) l : (forall x, f x = g x) -> forallb f l = forallb g l.
Proof. intros H. induction l as [|x l IH]; [reflexivity|]. cbn. now rewrite H, IH. Qed.

Lemma write_component_ok_b c : is_ok (write_component c) = comp_ok c.
Proof.
  unfold write_component, comp_ok. rewrite concat_r_ok. rewrite !forallb_app. cbn [forallb].
  rewrite !write_str_ok_b, pack_u16s_ok_b, !forallb_map.
  rewrite (forallb_ext' (fun x => is_ok (write_str x)) str_ok) by apply write_str_ok_b.
  rewrite (forallb_ext' (fun x => is_ok (pack_u16s [fst x; snd x])) (fun l => forallb u16_ok [fst l; snd l])) by (intros; apply pack_u16s_ok_b).
  rewrite (forallb_ext' (fun x => is_ok (pack_u16s [fst (fst x); snd (fst x); snd x])) (fun k => forallb u16_ok [fst (fst k); snd (fst k); snd k]))
    by (intros; apply pack_u16s_ok_b).
  cbn [forallb]. rewrite ?andb_true_r. rewrite ?andb_assoc. reflexivity.
Qed.
Lemma write_dims_ok_b d : is_ok (write_dims d) = dims_ok d.
Proof.
  unfold write_dims, dims_ok. destruct d as [[w h] dp]. destruct (u16_ok w && u16_ok h && u16_ok dp) eqn:E; [|reflexivity].
  rewrite pack_u16s_ok_b. cbn [forallb]. apply andb_true_iff in E. destruct E as [E E3]. apply andb_true_iff in E. destruct E as [E1 E2].
  now rewrite E1, E2, E3.
Qed.
Lemma write_header_ok_b dims comps : is_ok (write_header dims comps) = header_ok dims comps.
Proof.
  unfold write_header, header_ok. rewrite concat_r_ok, forallb_app. cbn [forallb is_ok]. rewrite write_dims_ok_b, pack_u16s_ok_b, forallb_map.
  rewrite (forallb_ext' (fun x => is_ok (write_component x)) comp_ok) by apply write_component_ok_b.
  cbn [forallb andb]. rewrite ?andb_true_r. rewrite ?andb_assoc. reflexivity.
Qed.
Lemma write_body_ok_b p : is_ok (write_body p) = body_ok p.
Proof.
  unfold write_body, body_ok. destruct (w_shape p) as [|F [|P [|T [|D [|? ?]]]]]; try reflexivity.
  destruct (4294967295 <? F); [reflexivity|]. destruct (pack_f32 (w_fps p)); [|reflexivity]. destruct (65535 <? P); reflexivity.
Qed.

Theorem write_accepts_iff p : is_ok (write_pose p) = representable p.
Proof.
  unfold write_pose, representable. destruct (w_shape p) as [|F [|P [|T [|D [|? ?]]]]] eqn:Es; try reflexivity.
  rewrite is_ok_bind. destruct (num_dims_of (map wc_format (w_comps p))) as [hd|e]; [|reflexivity].
  destruct (hd =? Z.of_N D)%Z; [|reflexivity]. destruct (total_points_w (w_comps p) =? T); [|reflexivity].
  destruct (eq_shape (w_cshape p) [F; P; T]); [|reflexivity]. cbn [negb andb].
  rewrite is_ok_bind. rewrite <- write_header_ok_b, <- write_body_ok_b.
  destruct (write_header (w_dims p) (w_comps p)) as [h|e]; [|reflexivity]. cbn [is_ok andb].
  rewrite is_ok_bind. destruct (write_body p); reflexivity.
Qed.
Corollary write_refuses p : representable p = false -> exists e, write_pose p = Err e.
Proof. intros H. pose proof (write_accepts_iff p) as E. rewrite H in E. destruct (write_pose p) as [b|e]; [discriminate|]. now exists e. Qed.
Corollary write_accepts p : representable p = true -> exists bs, write_pose p = Ok bs.
Proof. intros H. pose proof (write_accepts_iff p) as E. rewrite H in E. destruct (write_pose p) as [b|e]; [|discriminate]. now exists b. Qed.

(* non-vacuity, both ways *)
Require Import C01_Examples.
Example representable_examples :
  representable ex_pose = true /\ representable ex_empty = true /\
  representable {| w_dims := (65536, 1, 0)%Z; w_comps := w_comps ex_empty; w_fps := 0; w_shape := [0; 0; 0; 3]; w_data := [];
                   w_cshape := [0; 0; 0]; w_conf := [] |} = false /\
  representable {| w_dims := (1, 1, 0)%Z;
                   w_comps := [ {| wc_name := [65]; wc_format := [88; 67]; wc_points := [[97]]; wc_limbs := [(0, 65536)%Z]; wc_colors := [] |} ];
                   w_fps := 0; w_shape := [1; 1; 1; 1]; w_data := [0]; w_cshape := [1; 1; 1]; w_conf := [0] |} = false.
Proof. repeat split; vm_compute; reflexivity. Qed.
