(* C12 - non-vacuity examples and witnesses that the hypotheses of the theorems are needed. *)
From Coq Require Import List Arith Bool ZArith NArith Lia.
Require Import ListN Result Bytes F32 Tensor Codec.
Require Import C12_Model C12_Tab C12_Inv C12_Reach C12_Ser C12_Progress.
Import ListNotations.
Open Scope nat_scope.

(* completeness of the executable invariant, so that [invb st = false] really is [~ Inv st] *)
Lemma wf_wfb {X} (t : tensor X) : wf t -> wfb t = true.
Proof. unfold wfb, wf. apply Nat.eqb_eq. Qed.
Theorem invb_complete st : Inv st -> invb st = true.
Proof.
  intros [F [P [T [D [Hne [Hfmt [HT HC]]]]]]]. unfold invb. rewrite (cons_dims4 _ _ _ _ _ _ HC).
  destruct HC as [Hm [Hc [Wm [Wc Hcell]]]].
  apply andb_true_intro; split; [apply andb_true_intro; split; [apply andb_true_intro; split|]|].
  - destruct (s_hdr st); [congruence|reflexivity].
  - apply forallb_forall. intros c Hin. apply Nat.eqb_eq. rewrite Forall_forall in Hfmt. apply Hfmt. exact Hin.
  - apply Nat.eqb_eq. exact HT.
  - unfold consb. rewrite (wf_wfb _ Wm), (wf_wfb _ Wc). cbn [andb].
    apply all_lt_spec; intros f Hf. apply all_lt_spec; intros p Hp. apply all_lt_spec; intros t Ht. apply all_lt_spec; intros d Hd.
    rewrite Hcell by assumption. apply eqb_reflx.
Qed.
Corollary invb_false_not_inv st : invb st = false -> ~ Inv st.
Proof. intros H HI. rewrite (invb_complete _ HI) in H. discriminate. Qed.

(* ---- a 2-D pose: components A (2 points) and B (1 point), 3 frames, 1 person ---- *)
Definition nA : name := [65%N].  Definition nB : name := [66%N].
Definition pa0 : name := [97%N; 48%N].  Definition pa1 : name := [97%N; 49%N].  Definition pb0 : name := [98%N; 48%N].
Definition ex_hdr : header := [ {| c_name := nA; c_points := [pa0; pa1]; c_fmt := 3 |}; {| c_name := nB; c_points := [pb0]; c_fmt := 3 |} ].
Definition ex_cz : list bool := [false; false; true;   false; true; false;   false; false; false].
Definition dummy : state := {| s_hdr := []; s_be := Np; s_mask := mkT [] []; s_cz := mkT [] [] |}.
Definition ex_st : state := Eval vm_compute in match start_state ex_hdr 3 1 3 2 ex_cz with Ok s => s | Err _ => dummy end.
Example ex_start : start_state ex_hdr 3 1 3 2 ex_cz = Ok ex_st /\ Inv ex_st.
Proof. split; [vm_compute; reflexivity|]. apply invb_sound. vm_compute. reflexivity. Qed.

(* every kind of operation once, each precondition satisfied, nothing raises: the hypotheses of
   [inv_preserved] / [reachable_inv] are satisfiable along a 20-step sequence ending on a Torch body *)
Definition ex_ops : list op :=
  [ Copy; Normalize 0 1; Flip 1%Z; Augment2d true; SliceStep 1%Z; SelectFrames [0; 2; (-2)]%Z;
    Interpolate 5%Z [false; false; true;  false; false; true;  false; false; false;  false; true; false;  false; false; false];
    NormalizeDistribution true [false; false; false; false; false; false]; Focus;
    DropoutUniform [0; 1; 3; 4]; DropoutNormal [0; 2; 3];
    RemoveComponents [] (Some [(nA, [pa1])]); GetComponents [nB; nA] (Some [(nA, [pa0])]);
    BBox; SliceStep (-2)%Z; Copy; ToTorch true; GetComponents [nA] None; Augment2d true; Copy ].
Example ex_run : exists st', run ex_st ex_ops = Ok st' /\ reachable ex_st st' /\ Inv st' /\ s_be st' = Torch /\ shape (s_mask st') = [2; 1; 2; 2].
Proof.
  destruct (run ex_st ex_ops) as [st'|e] eqn:E; [|vm_compute in E; discriminate].
  exists st'. split; [reflexivity|]. split; [apply (run_reachable ex_ops); exact E|]. split; [eapply run_inv; [apply ex_start|exact E]|].
  vm_compute in E. injection E as <-. split; reflexivity.
Qed.
Example ex_tf : exists st', run ex_st [ToTensorflow; Normalize 0 1; NormalizeDistribution false [false; false]; SliceStep (-1)%Z; DropoutNormal []] = Ok st'
                            /\ Inv st' /\ s_be st' = Tf.
Proof.
  destruct (run ex_st _) as [st'|e] eqn:E; [|vm_compute in E; discriminate].
  exists st'. split; [reflexivity|]. split; [eapply run_inv; [apply ex_start|exact E]|]. vm_compute in E. injection E as <-. reflexivity.
Qed.

(* ---- the preconditions are needed: without them the very same operations break the invariant ---- *)
(* reference points never observed together: the centre is masked and masks everything *)
Definition ex2_st : state :=
  Eval vm_compute in match start_state ex_hdr 3 1 3 2 [false; false; true;  false; true; false;  false; true; true] with Ok s => s | Err _ => dummy end.
Example normalize_needs_observed_points :
  exists st', Inv ex2_st /\ pre ex2_st (Normalize 1 2) = false /\ step ex2_st (Normalize 1 2) = Ok st' /\ ~ Inv st'.
Proof.
  destruct (step ex2_st (Normalize 1 2)) as [st'|e] eqn:E; [|vm_compute in E; discriminate].
  exists st'. split; [apply invb_sound; vm_compute; reflexivity|]. split; [vm_compute; reflexivity|]. split; [reflexivity|].
  apply invb_false_not_inv. vm_compute in E. injection E as <-. vm_compute. reflexivity.
Qed.
(* a coordinate with zero deviation: NumPy's masked division masks it in that dimension only *)
Example normalize_distribution_needs_deviation :
  exists st', Inv ex_st /\ step ex_st (NormalizeDistribution true [false; true; false; false; false; false]) = Ok st' /\ ~ Inv st'.
Proof.
  destruct (step ex_st (NormalizeDistribution true [false; true; false; false; false; false])) as [st'|e] eqn:E; [|vm_compute in E; discriminate].
  exists st'. split; [apply ex_start|]. split; [reflexivity|].
  apply invb_false_not_inv. vm_compute in E. injection E as <-. vm_compute. reflexivity.
Qed.
(* selecting nothing leaves a header without components: num_dims() raises *)
Example selection_needs_a_component :
  exists st', step ex_st (GetComponents [] None) = Ok st' /\ ~ Inv st' /\ num_dims (s_hdr st') = None.
Proof.
  destruct (step ex_st (GetComponents [] None)) as [st'|e] eqn:E; [|vm_compute in E; discriminate].
  exists st'. split; [reflexivity|]. vm_compute in E. injection E as <-. split; [apply invb_false_not_inv; vm_compute; reflexivity|reflexivity].
Qed.

(* ---- mixed format lengths: the invariant exactly as the property states it is NOT preserved by selection ----
   header A "XYZC", B "XYC", body with 3 dims: header and body agree (max format length - 1 = 3); selecting B
   gives a header with 2 dims over a 3-dim body (Pose.write then raises).  This is why [Inv] asks for
   equal format lengths (2-D poses, 3-D poses). *)
Definition mixed_hdr : header := [ {| c_name := nA; c_points := [pa0]; c_fmt := 4 |}; {| c_name := nB; c_points := [pb0]; c_fmt := 3 |} ].
Definition mixed_st : state := Eval vm_compute in match start_state mixed_hdr 1 1 2 3 [false; false] with Ok s => s | Err _ => dummy end.
Theorem selection_mixed_formats_refuted :
  exists st o st', inv_stmt_b st = true /\ pre st o = true /\ step st o = Ok st' /\ inv_stmt_b st' = false
                   /\ num_dims (s_hdr st') = Some 2%Z /\ shape (s_mask st') = [1; 1; 1; 3].
Proof.
  exists mixed_st, (GetComponents [nB] None).
  destruct (step mixed_st (GetComponents [nB] None)) as [st'|e] eqn:E; [|vm_compute in E; discriminate].
  exists st'. split; [vm_compute; reflexivity|]. split; [reflexivity|]. split; [reflexivity|].
  vm_compute in E. injection E as <-. repeat split; vm_compute; reflexivity.
Qed.

(* ---- serialisation: a concrete pose over [ex_st] that Pose.write accepts ---- *)
Definition one64 : N := 4607182418800017408%N.            (* 1.0 *)
Definition ex_wp : wpose :=
  {| w_dims := (640, 480, 0)%Z;
     w_comps := [ {| wc_name := nA; wc_format := [88; 89; 67]%N; wc_points := [pa0; pa1]; wc_limbs := [(0, 1)%Z]; wc_colors := [(255, 0, 0)%Z] |};
                  {| wc_name := nB; wc_format := [88; 89; 67]%N; wc_points := [pb0]; wc_limbs := []; wc_colors := [] |} ];
     w_fps := 4627448617123184640%N;                        (* 24.0 *)
     w_shape := [3; 1; 3; 2]%N; w_data := repeat one64 18;
     w_cshape := [3; 1; 3]%N; w_conf := [one64; one64; 0; one64; 0; one64; one64; one64; one64]%N |}.
Example ex_abstracts : abstracts ex_st ex_wp.
Proof. constructor; try reflexivity. repeat constructor. Qed.
Example ex_serialisable : exists bs, write_pose ex_wp = Ok bs /\ bs <> [].
Proof. destruct (write_pose ex_wp) as [bs|e] eqn:E; [|vm_compute in E; discriminate]. exists bs. split; [reflexivity|]. vm_compute in E. injection E as <-. discriminate. Qed.

(* ---- progress is not vacuous: the bounding box of a 3-D pose (the case of F11) ---- *)
Definition ex3_hdr : header := [ {| c_name := nA; c_points := [pa0; pa1]; c_fmt := 4 |}; {| c_name := nB; c_points := [pb0]; c_fmt := 4 |} ].
Definition ex3_st : state := Eval vm_compute in match start_state ex3_hdr 2 1 3 3 [false; true; true;  false; false; false] with Ok s => s | Err _ => dummy end.
Example bbox_3d_ok : Inv ex3_st /\ s_be ex3_st = Np /\ expects_ok_np ex3_st BBox = true
                     /\ exists st', step ex3_st BBox = Ok st' /\ Inv st' /\ shape (s_mask st') = [2; 1; 4; 3].
Proof.
  split; [apply invb_sound; vm_compute; reflexivity|]. split; [reflexivity|]. split; [vm_compute; reflexivity|].
  destruct (step ex3_st BBox) as [st'|e] eqn:E; [|vm_compute in E; discriminate].
  exists st'. split; [reflexivity|]. vm_compute in E. injection E as <-. split; [apply invb_sound; vm_compute; reflexivity|reflexivity].
Qed.
