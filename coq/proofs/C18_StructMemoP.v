(* C18: the ConstStructs attribute memo does not affect isolation: writes are idempotent per format (every entry
   for format k is [mk k]) and entries are never removed, so under every interleaving of any number of threads each
   unpack_f call hands `unpack` the struct it would build alone. *)
From Coq Require Import NArith List Bool Lia.
Require Import C18_StructMemo.
Import ListNotations.
Open Scope N_scope.

Section P.
Variable S : Type.
Variable mk : N -> S.
Notation find := (@find S).
Notation sstep := (sstep S mk).

(* every entry is the canonical struct of its format *)
Definition Canon (t : table S) : Prop := forall k s, find k t = Some s -> s = mk k.
(* a thread's locals: the structs collected so far are the canonical ones of the formats already served, and
   before a getattr the attribute exists *)
Definition SpcOk (keys : list N) (t : table S) (p : spc S) : Prop :=
  match p with
  | S_has k rest acc | S_set k rest acc => exists pre, keys = pre ++ k :: rest /\ acc = map mk pre
  | S_get k rest acc => (exists pre, keys = pre ++ k :: rest /\ acc = map mk pre) /\ find k t = Some (mk k)
  | S_done r => r = Some (map mk keys)
  end.

Lemma canon_nil : Canon [].
Proof. intros k s H. discriminate. Qed.
Lemma canon_add k t : Canon t -> Canon ((k, mk k) :: t).
Proof. intros C k' s. cbn [C18_StructMemo.find]. destruct (k' =? k) eqn:E; [|apply C]. apply N.eqb_eq in E. now intros [= <-]; subst. Qed.
Lemma find_add_mono k k' t : find k t = Some (mk k) -> find k ((k', mk k') :: t) = Some (mk k).
Proof. intros H. cbn [C18_StructMemo.find]. destruct (k =? k') eqn:E; [apply N.eqb_eq in E; now subst|exact H]. Qed.

Lemma s_next_ok keys t pre rest : keys = pre ++ rest -> SpcOk keys t (s_next S rest (map mk pre)).
Proof.
  intros ->. destruct rest as [|k r]; cbn [s_next SpcOk].
  - now rewrite app_nil_r.
  - exists pre. split; reflexivity.
Qed.

(* the stepping thread *)
Lemma sstep_ok keys t p t' p' : Canon t -> SpcOk keys t p -> sstep p t = (t', p') ->
  Canon t' /\ SpcOk keys t' p' /\ (t' = t \/ exists k, t' = (k, mk k) :: t).
Proof.
  intros C Hp H. destruct p as [k rest acc|k rest acc|k rest acc|r]; cbn [C18_StructMemo.sstep] in H.
  - injection H as <- <-. split; [exact C|]. split; [|now left].
    destruct (find k t) as [s|] eqn:E; cbn [SpcOk]; [|exact Hp]. split; [exact Hp|]. now rewrite (C k s E) in E.
  - injection H as <- <-. split; [now apply canon_add|]. split; [|right; now exists k].
    cbn [SpcOk]. split; [exact Hp|]. cbn [C18_StructMemo.find]. now rewrite N.eqb_refl.
  - destruct Hp as [(pre & -> & ->) Hf]. rewrite Hf in H. injection H as <- <-. split; [exact C|]. split; [|now left].
    replace (map mk pre ++ [mk k]) with (map mk (pre ++ [k])) by (rewrite map_app; reflexivity).
    apply s_next_ok. now rewrite <- app_assoc.
  - injection H as <- <-. split; [exact C|]. split; [exact Hp|now left].
Qed.
(* the other threads: the table only grows by canonical entries *)
Lemma spc_mono keys t k p : SpcOk keys t p -> SpcOk keys ((k, mk k) :: t) p.
Proof. destruct p; cbn [SpcOk]; auto. intros [H Hf]. split; [exact H|now apply find_add_mono]. Qed.

Definition SInv (jobs : list (list N)) (st : sstate S) : Prop :=
  Canon (ss_table st) /\ Forall2 (fun keys p => SpcOk keys (ss_table st) p) jobs (ss_pcs st).

Lemma forall2_impl {A B} (R R' : A -> B -> Prop) (la : list A) (lb : list B) :
  (forall a b, R a b -> R' a b) -> Forall2 R la lb -> Forall2 R' la lb.
Proof. intros Hm H. induction H; constructor; auto. Qed.

Lemma forall2_upd {A B} (R R' : A -> B -> Prop) (la : list A) : forall (lb : list B) i b,
  Forall2 R la lb -> (forall a b0, R a b0 -> R' a b0) ->
  (forall a b0, nth_error la i = Some a -> nth_error lb i = Some b0 -> R a b0 -> R' a b) ->
  Forall2 R' la (supd lb i b).
Proof.
  induction la as [|a la IH]; intros lb i b H Hm Hi; inversion H as [|? b0 ? lb' Hab Hr]; subst; cbn [supd].
  { constructor. }
  destruct i as [|i].
  - constructor; [apply (Hi a b0); auto|]. exact (forall2_impl R R' la lb' Hm Hr).
  - constructor; [now apply Hm|]. apply IH; [exact Hr|exact Hm|]. intros a' b' Ha Hb. apply (Hi a' b'); assumption.
Qed.

Lemma sstep_sys_inv jobs i st : SInv jobs st -> SInv jobs (sstep_sys S mk i st).
Proof.
  intros [C F]. unfold sstep_sys. destruct (nth_error (ss_pcs st) i) as [p|] eqn:Ep; [|split; assumption].
  destruct (sstep p (ss_table st)) as [t' p'] eqn:Es. unfold SInv. cbn [ss_table ss_pcs].
  assert (Hk : exists keys, nth_error jobs i = Some keys /\ SpcOk keys (ss_table st) p).
  { clear -F Ep. revert i Ep. induction F as [|a b la lb Hab _ IH]; intros [|i] Ep; cbn [nth_error] in *; try discriminate.
    - injection Ep as <-. now exists a.
    - now apply IH. }
  destruct Hk as (keys & Hkeys & Hp).
  destruct (sstep_ok keys _ _ _ _ C Hp Es) as (C' & Hp' & Hgrow). split; [exact C'|].
  apply forall2_upd with (R := fun keys p => SpcOk keys (ss_table st) p); [exact F| |].
  - intros a b0 Hab. destruct Hgrow as [->|[k ->]]; [exact Hab|now apply spc_mono].
  - intros a b0 Ha Hb _. rewrite Hkeys in Ha. injection Ha as <-. exact Hp'.
Qed.

Lemma srun_inv jobs sched : forall st, SInv jobs st -> SInv jobs (srun S mk sched st).
Proof. unfold srun. induction sched as [|i r IH]; intros st H; cbn [fold_left]; [exact H|]. apply IH. now apply sstep_sys_inv. Qed.

Lemma sinit_inv jobs t0 : Canon t0 -> SInv jobs (sinit S jobs t0).
Proof.
  intros C. split; [exact C|]. cbn [sinit ss_table ss_pcs]. induction jobs as [|keys r IH]; cbn [map]; constructor; [|exact IH].
  unfold s_init. apply (s_next_ok keys t0 [] keys). reflexivity.
Qed.

(* any number of threads, any schedule, any canonical initial table (empty, or left by earlier reads):
   a thread that has finished was handed exactly the structs it would have built alone, and never met AttributeError *)
Theorem struct_memo_isolated_lemma jobs t0 sched i keys r : Canon t0 ->
  nth_error jobs i = Some keys ->
  nth_error (ss_pcs (srun S mk sched (sinit S jobs t0))) i = Some (S_done r) ->
  r = Some (structs_alone S mk keys).
Proof.
  intros C Hk Hp. destruct (srun_inv jobs sched _ (sinit_inv jobs t0 C)) as [_ F].
  revert i Hk Hp. induction F as [|a b la lb Hab _ IH]; intros [|i] Hk Hp; cbn [nth_error] in *; try discriminate.
  - injection Hk as ->. injection Hp as ->. exact Hab.
  - now apply (IH i).
Qed.
End P.

Example struct_memo_example :
  let st := srun N (fun k => k) [0; 1; 1; 0; 1; 0; 0; 1; 0; 1; 0; 1; 0; 1; 1; 0; 0]%nat (sinit N [[5; 7]; [5; 3; 7]] []) in
  ss_pcs st = [S_done (Some [5; 7]); S_done (Some [5; 3; 7])].
Proof. vm_compute. reflexivity. Qed.
