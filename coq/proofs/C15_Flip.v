(* C15 - flip: negates exactly one coordinate, is an involution, keeps confidences and the missing pattern. *)
From Coq Require Import Reals ZArith List Bool Lia Lra.
Require Import Result Num C15_Spatial C15_Real C15_Lemmas.
Import ListNotations.

(* ---------- well-formed points ---------- *)
Lemma allmasked_masks (p : rpoint) : missing p = forallb (fun b => b) (masks p).
Proof. unfold missing, allmasked, masks. induction (pcs p) as [|c r IH]; cbn [forallb map]; [reflexivity | now rewrite IH]. Qed.
Lemma point_eta {O : ops} (p : point O) : mkP (pcs p) (pc p) = p.
Proof. now destruct p. Qed.
Lemma point_ext {O : ops} (p q : point O) : pcs p = pcs q -> pc p = pc q -> p = q.
Proof. destruct p as [l1 c1], q as [l2 c2]; cbn [pcs pc]; intros -> ->; reflexivity. Qed.
Lemma wf_unmasked_conf D (p : rpoint) c : wf_point D p -> In c (pcs p) -> snd c = false -> Reqb (pc p) 0 = false.
Proof. intros [_ [_ Hinv]] Hin Hc. apply Reqb_false. intros H0. specialize (Hinv H0).
  unfold missing, allmasked in Hinv. rewrite forallb_forall in Hinv. specialize (Hinv _ Hin). congruence. Qed.
(* a well-formed point is a fixed point of the constructor *)
Lemma reinit_map_wf D (p : rpoint) (l : list (R * bool)) :
  wf_point D p -> (forall c, In c l -> snd c = false -> exists c', In c' (pcs p) /\ snd c' = false) ->
  map (fun c : R * bool => (fst c, snd c || Reqb (pc p) 0)) l = l.
Proof. intros Hwf Hl. rewrite <- (map_id l) at 2. apply map_ext_in. intros [x m] Hin. cbn [fst snd].
  destruct m; [reflexivity|]. destruct (Hl _ Hin eq_refl) as [c' [Hc' Hm]]. now rewrite (wf_unmasked_conf D p c' Hwf Hc' Hm). Qed.
Lemma reinit_wf_id D (p : rpoint) : wf_point D p -> reinit R_ops p = p.
Proof. intros Hwf. unfold reinit. rops. rewrite (reinit_map_wf D p (pcs p) Hwf); [apply point_eta|]. intros c Hc Hm. eauto. Qed.
Lemma masks_uniform_mask D (p : rpoint) c : wf_point D p -> In c (pcs p) -> snd c = missing p.
Proof. intros [_ [Hu _]] Hin. unfold masks in Hu. apply (in_map snd) in Hin. rewrite Hu in Hin. now apply repeat_spec in Hin. Qed.
(* a point built from masks / confidence of a well-formed one is well-formed *)
Lemma forallb_repeat (m : bool) K : K <> 0%nat -> forallb (fun b : bool => b) (repeat m K) = m.
Proof. intros HK. destruct K as [|K]; [lia|]. clear HK. cbn [repeat forallb]. destruct m; [|reflexivity].
  cbn [andb]. induction K as [|K IH]; cbn [repeat forallb andb]; [reflexivity | exact IH]. Qed.
Lemma wf_point_of_masks D K (p : rpoint) (l : list (R * bool)) :
  wf_point D p -> length l = K -> map snd l = repeat (missing p) K ->
  wf_point K (@mkP R_ops l (pc p)).
Proof. intros Hwf Hlen Hm. assert (Hmiss : K <> 0%nat -> missing (@mkP R_ops l (pc p)) = missing p).
  { intros HK. rewrite allmasked_masks. unfold masks. cbn [pcs]. rops. rewrite Hm. now apply forallb_repeat. }
  split; [exact Hlen|]. split.
  - unfold masks. cbn [pcs]. rops. rewrite Hm. destruct K as [|K]; [reflexivity|]. now rewrite Hmiss by lia.
  - cbn [pc]. intros H0. destruct K as [|K].
    + destruct l; [reflexivity | discriminate].
    + rewrite Hmiss by lia. destruct Hwf as [_ [_ Hinv]]. now apply Hinv. Qed.

(* ---------- flip on one point ---------- *)
Definition flip_cell (ax : nat) (c : R * bool) (k : nat) : R * bool :=
  if snd c then c else ((if Nat.eqb k ax then - fst c else fst c)%R, false).
Lemma flip_pcs D ax (p : rpoint) : wf_point D p ->
  pcs (flip_point R_ops D ax p) = zipw (flip_cell ax) (pcs p) (seq 0 D).
Proof. intros Hwf. unfold flip_point, reinit, sign_vec. cbn [pcs pc]. rops.
  rewrite zipw_map_r, map_zipw. apply zipw_ext_in. intros [x m] k Hin _. unfold flip_cell. cbn [fst snd].
  destruct m; cbn [fst snd orb]; [reflexivity|].
  rewrite (wf_unmasked_conf D p (x, false) Hwf Hin eq_refl). f_equal.
  destruct (Nat.eqb k ax); ring. Qed.
Lemma flip_pc D ax (p : rpoint) : pc (flip_point R_ops D ax p) = pc p.
Proof. reflexivity. Qed.
Lemma flip_masks D ax (p : rpoint) : wf_point D p -> masks (flip_point R_ops D ax p) = masks p.
Proof. intros Hwf. unfold masks. rewrite (flip_pcs D ax p Hwf), map_zipw.
  rewrite (zipw_ext_in _ (fun c _ => snd c)).
  - rops. apply zipw_fst_only. rewrite seq_length. apply Nat.eq_le_incl. exact (proj1 Hwf).
  - intros [x m] k _ _. unfold flip_cell. cbn [fst snd]. now destruct m. Qed.
Lemma flip_point_wf D ax (p : rpoint) : wf_point D p -> wf_point D (flip_point R_ops D ax p).
Proof. intros Hwf. rewrite <- (point_eta (flip_point R_ops D ax p)). rewrite flip_pc.
  apply (wf_point_of_masks D D p); try exact Hwf.
  - rewrite (flip_pcs D ax p Hwf), zipw_length, seq_length. pose proof (proj1 Hwf) as Hl. rops. rewrite Hl. lia.
  - change (masks (flip_point R_ops D ax p) = repeat (missing p) D). rewrite (flip_masks D ax p Hwf). now destruct Hwf as [_ [-> _]]. Qed.
Lemma observes_lt D (p : rpoint) k x : wf_point D p -> observes p k x -> (k < D)%nat.
Proof. intros Hwf Hk. unfold observes in Hk. pose proof (proj1 Hwf) as Hl. rops. rewrite <- Hl. apply nth_error_Some. congruence. Qed.
Lemma flip_point_observes D ax (p : rpoint) k x : wf_point D p -> observes p k x ->
  observes (flip_point R_ops D ax p) k (if Nat.eqb k ax then - x else x)%R.
Proof. intros Hwf Hk. unfold observes in *. rewrite (flip_pcs D ax p Hwf), zipw_nth_error. rops. rewrite Hk.
  pose proof (observes_lt D p k x Hwf Hk) as Hlt.
  rewrite nth_error_seq by exact Hlt. reflexivity. Qed.
Lemma zipw_flip_twice ax (l : list (R * bool)) (s : list nat) :
  (length l <= length s)%nat -> zipw (flip_cell ax) (zipw (flip_cell ax) l s) s = l.
Proof. revert s; induction l as [|[x m] r IH]; intros [|k s] H; cbn [zipw length] in *; try reflexivity; [lia|].
  f_equal; [|apply IH; lia]. unfold flip_cell. cbn [fst snd]. destruct m; cbn [fst snd]; [reflexivity|].
  f_equal. destruct (Nat.eqb k ax); ring. Qed.
Lemma flip_point_involutive D ax (p : rpoint) : wf_point D p -> flip_point R_ops D ax (flip_point R_ops D ax p) = p.
Proof. intros Hwf. pose proof (flip_point_wf D ax p Hwf) as Hwf'. apply point_ext; [|reflexivity].
  rewrite (flip_pcs D ax _ Hwf'), (flip_pcs D ax p Hwf).
  apply zipw_flip_twice. rewrite seq_length. apply Nat.eq_le_incl. exact (proj1 Hwf). Qed.

(* ---------- axis normalisation ---------- *)
Lemma norm_axis_lt D axis ax : norm_axis D axis = Some ax -> (ax < D)%nat.
Proof. unfold norm_axis. cbn zeta. destruct ((0 <=? axis)%Z && (axis <? Z.of_nat D)%Z) eqn:E1.
  - intros H. injection H as H1. lia.
  - destruct ((- Z.of_nat D <=? axis)%Z && (axis <? 0)%Z) eqn:E2; [|intros H; discriminate H].
    intros H. injection H as H1. lia. Qed.
Lemma norm_axis_nonneg D (k : nat) : (k < D)%nat -> norm_axis D (Z.of_nat k) = Some k.
Proof. intros H. unfold norm_axis. cbn zeta.
  destruct ((0 <=? Z.of_nat k)%Z && (Z.of_nat k <? Z.of_nat D)%Z) eqn:E1; [now rewrite Nat2Z.id | lia]. Qed.
Lemma norm_axis_neg D (k : nat) : (k < D)%nat -> norm_axis D (Z.of_nat k - Z.of_nat D) = Some k.
Proof. intros H. unfold norm_axis. cbn zeta.
  destruct ((0 <=? Z.of_nat k - Z.of_nat D)%Z && (Z.of_nat k - Z.of_nat D <? Z.of_nat D)%Z) eqn:E1; [lia|].
  destruct ((- Z.of_nat D <=? Z.of_nat k - Z.of_nat D)%Z && (Z.of_nat k - Z.of_nat D <? 0)%Z) eqn:E2; [f_equal; lia | lia]. Qed.

(* ---------- bodies ---------- *)
Definition flip_spec (ax : nat) (p p' : rpoint) : Prop :=
  same_conf_mask p p' /\ forall k x, observes p k x -> observes p' k (if Nat.eqb k ax then - x else x)%R.

Lemma flip_negates_only_axis D axis (b b' : rframes) :
  wf_body D b -> flip R_ops D axis b = Ok b' ->
  exists ax, norm_axis D axis = Some ax /\ (ax < D)%nat /\ rel3 (flip_spec ax) b b'.
Proof. intros Hwf Hf. unfold flip in Hf. destruct (norm_axis D axis) as [ax|] eqn:E; [|discriminate].
  injection Hf as <-. exists ax. split; [reflexivity|]. split; [now apply norm_axis_lt in E|].
  apply (all3_rel3_map3 (wf_point D)); [exact Hwf|]. intros p Hp. split; [split|].
  - apply flip_pc.
  - now apply flip_masks.
  - intros k x. now apply flip_point_observes. Qed.
Lemma flip_involutive D axis (b b' : rframes) :
  wf_body D b -> flip R_ops D axis b = Ok b' -> flip R_ops D axis b' = Ok b.
Proof. intros Hwf Hf. unfold flip in *. destruct (norm_axis D axis) as [ax|] eqn:E; [|discriminate].
  injection Hf as <-. f_equal. rewrite map3_map3. rewrite <- (map3_id b) at 2.
  apply (map3_ext_all3 (wf_point D)); [exact Hwf|]. intros p Hp. now apply flip_point_involutive. Qed.
Lemma flip_keeps_conf_mask D axis (b b' : rframes) :
  wf_body D b -> flip R_ops D axis b = Ok b' -> rel3 same_conf_mask b b' /\ wf_body D b'.
Proof. intros Hwf Hf. split.
  - destruct (flip_negates_only_axis D axis b b' Hwf Hf) as [ax [_ [_ Hr]]].
    eapply rel3_weaken; [|exact Hr]. now intros p q [H _].
  - unfold flip in Hf. destruct (norm_axis D axis) as [ax|]; [|discriminate]. injection Hf as <-.
    apply (all3_map3 (wf_point D)); [exact Hwf|]. intros p. apply flip_point_wf. Qed.
Lemma flip_defined D axis (b : rframes) : (- Z.of_nat D <= axis < Z.of_nat D)%Z -> exists b', flip R_ops D axis b = Ok b'.
Proof. intros H. unfold flip, norm_axis. cbn zeta. destruct ((0 <=? axis)%Z && (axis <? Z.of_nat D)%Z) eqn:E1; [eauto|].
  destruct ((- Z.of_nat D <=? axis)%Z && (axis <? 0)%Z) eqn:E2; [eauto | lia]. Qed.

(* ---------- the constructor establishes well-formedness ---------- *)
(* NumPyPoseBody.__init__ applied to a plain array of coordinates and a confidence *)
Lemma constructor_wf (xs : list R) (c : R) :
  wf_point (length xs) (reinit R_ops (@mkP R_ops (map (fun x => (x, false)) xs) c)).
Proof. unfold reinit. cbn [pcs pc]. rops. rewrite map_map. cbn [fst snd orb].
  set (m := Reqb c 0).
  assert (Hmask : masks (@mkP R_ops (map (fun x : R => (x, m)) xs) c) = repeat m (length xs)).
  { unfold masks. cbn [pcs]. rewrite map_map. cbn [snd]. induction xs as [|x xs IH]; cbn [map length repeat]; [reflexivity | now rewrite IH]. }
  assert (Hmiss : xs <> [] -> missing (@mkP R_ops (map (fun x : R => (x, m)) xs) c) = m).
  { intros Hx. rewrite allmasked_masks, Hmask. apply forallb_repeat. destruct xs; [congruence | discriminate]. }
  split; [|split].
  - cbn [pcs]. now rewrite map_length.
  - rewrite Hmask. destruct xs as [|x xs]; [reflexivity|]. now rewrite Hmiss by discriminate.
  - cbn [pc]. intros Hc. destruct xs as [|x xs]; [reflexivity|]. rewrite Hmiss by discriminate. subst m. now apply Reqb_true. Qed.
