(* C11 - get_components / remove_components / _get_point_index: proofs at the value level. *)
From Coq Require Import List Arith Bool NArith ZArith Lia FinFun.
Require Import Result Tensor C11_Str C11_Select C11_Helpers C11_ListLemmas C11_TensorLemmas.
Import ListNotations.
Open Scope str_scope.
Open Scope list_scope.

Lemma flat_names_cons c r : flat_names (c :: r) = map (pair (c_name c)) (c_points c) ++ flat_names r.
Proof. reflexivity. Qed.
Lemma flat_names_app a b : flat_names (a ++ b) = flat_names a ++ flat_names b.
Proof. unfold flat_names. apply flat_map_app. Qed.
Lemma total_points_cons c r : total_points (c :: r) = length (c_points c) + total_points r.
Proof. unfold total_points. rewrite flat_names_cons, app_length, map_length. reflexivity. Qed.
Lemma total_points_app a b : total_points (a ++ b) = total_points a + total_points b.
Proof. unfold total_points. now rewrite flat_names_app, app_length. Qed.

Lemma names_unique_spec cs : names_unique cs = true -> NoDup (map c_name cs) /\ forall c, In c cs -> NoDup (c_points c).
Proof. unfold names_unique. rewrite andb_true_iff, nodupb_NoDup, forallb_forall. intros [H1 H2]. split; [exact H1|].
  intros c Hc. apply nodupb_NoDup. now apply H2. Qed.
Lemma nodup_names_split pre (c : component) post : NoDup (map c_name (pre ++ c :: post)) -> ~ In (c_name c) (map c_name pre).
Proof. rewrite map_app. cbn [map]. intros H Hi. apply NoDup_remove_2 in H. apply H. apply in_or_app. now left. Qed.

(* ---------------------------------------------------------------- _get_point_index *)
Lemma point_index_from_sound cs c p : forall idx k, point_index_from cs c p idx = Ok k ->
  idx <= k /\ nth_error (flat_names cs) (k - idx) = Some (c, p).
Proof. induction cs as [|x r IH]; intros idx k; cbn [point_index_from]; [discriminate|].
  destruct (str_eqb_spec (c_name x) c) as [E|E].
  - destruct (index_of p (c_points x)) as [j|] eqn:Ej; [|discriminate]. intros [= <-]. split; [lia|].
    replace (idx + j - idx) with j by lia. rewrite flat_names_cons.
    rewrite nth_error_app1 by (rewrite map_length; eapply index_of_lt; eassumption).
    rewrite nth_error_map, (index_of_Some _ _ _ Ej), E. reflexivity.
  - intros H. apply IH in H. destruct H as [Hle Hn]. split; [lia|].
    rewrite flat_names_cons, nth_error_app2 by (rewrite map_length; lia). rewrite map_length.
    replace (k - idx - length (c_points x)) with (k - (idx + length (c_points x))) by lia. exact Hn. Qed.
Lemma point_index_from_app pre : forall c post name p idx j,
  ~ In name (map c_name pre) -> c_name c = name -> index_of p (c_points c) = Some j ->
  point_index_from (pre ++ c :: post) name p idx = Ok (idx + total_points pre + j).
Proof. induction pre as [|x pre IH]; intros c post name p idx j Hn Hc Hj; cbn [app point_index_from].
  - rewrite Hc, str_eqb_refl, Hj. unfold total_points. cbn [flat_names flat_map length]. f_equal. lia.
  - rewrite str_eqb_neq by (intros E; apply Hn; left; exact E).
    rewrite (IH c post name p _ j) by (try assumption; intros Hi; apply Hn; right; exact Hi).
    rewrite total_points_cons. f_equal. lia. Qed.
(* the flat index of a named point is its position in the flattened name list; unique names make it the only one *)
Theorem point_index_spec cs c p k : point_index cs c p = Ok k ->
  k < total_points cs /\ nth_error (flat_names cs) k = Some (c, p).
Proof. unfold point_index. intros H. apply point_index_from_sound in H. destruct H as [_ H]. rewrite Nat.sub_0_r in H.
  split; [|exact H]. unfold total_points. apply nth_error_Some. congruence. Qed.
Lemma flat_names_nodup cs : names_unique cs = true -> NoDup (flat_names cs).
Proof. intros H. apply names_unique_spec in H. destruct H as [Hn Hp]. induction cs as [|c r IH]; [constructor|].
  rewrite flat_names_cons. cbn [map] in Hn. inversion Hn as [|? ? Hc Hr]; subst.
  assert (Hm : NoDup (map (pair (c_name c)) (c_points c))).
  { apply FinFun.Injective_map_NoDup; [intros a b [= ->]; reflexivity|apply Hp; now left]. }
  assert (Hd : forall x, In x (map (pair (c_name c)) (c_points c)) -> ~ In x (flat_names r)).
  { intros x Hx Hy. apply in_map_iff in Hx. destruct Hx as [p [<- _]]. unfold flat_names in Hy. apply in_flat_map in Hy.
    destruct Hy as [c2 [Hc2 Hy]]. apply in_map_iff in Hy. destruct Hy as [p2 [[= E _] _]]. apply Hc. rewrite <- E. now apply in_map. }
  clear Hn. revert Hm Hd. generalize (map (pair (c_name c)) (c_points c)). intros l Hm Hd.
  induction l as [|a l IHl]; cbn [app]; [apply IH; [exact Hr|intros; apply Hp; now right]|].
  inversion Hm; subst. constructor.
  - intros Hi. apply in_app_or in Hi. destruct Hi as [Hi|Hi]; [contradiction|]. eapply Hd; [now left|exact Hi].
  - apply IHl; [assumption|intros x Hx; apply Hd; now right]. Qed.
Theorem point_index_unique cs c p k : names_unique cs = true ->
  nth_error (flat_names cs) k = Some (c, p) -> point_index cs c p = Ok k.
Proof. intros Hu Hk. pose proof (names_unique_spec _ Hu) as [Hn Hp]. pose proof (flat_names_nodup _ Hu) as Hnd.
  (* locate the component *)
  assert (Hin : In (c, p) (flat_names cs)) by (eapply nth_error_In; eassumption).
  unfold flat_names in Hin. apply in_flat_map in Hin. destruct Hin as [x [Hx Hin]]. apply in_map_iff in Hin. destruct Hin as [p' [[= Ec <-] Hp']].
  apply in_split in Hx. destruct Hx as [pre [post ->]].
  destruct (index_of_In _ _ Hp') as [j Hj].
  unfold point_index. rewrite (point_index_from_app pre x post c p' 0 j); try assumption; [|rewrite <- Ec; apply (nodup_names_split pre x post); exact Hn].
  f_equal. cbn [Nat.add].
  assert (Hk2 : nth_error (flat_names (pre ++ x :: post)) (total_points pre + j) = Some (c, p')).
  { rewrite flat_names_app, nth_error_app2 by (unfold total_points; lia). unfold total_points at 1.
    replace (length (flat_names pre) + j - length (flat_names pre)) with j by lia.
    rewrite flat_names_cons, nth_error_app1 by (rewrite map_length; eapply index_of_lt; eassumption).
    rewrite nth_error_map, (index_of_Some _ _ _ Hj), Ec. reflexivity. }
  eapply (proj1 (NoDup_nth_error _) Hnd); [apply nth_error_Some; congruence|congruence]. Qed.

(* ---------------------------------------------------------------- one selected component *)
Lemma Forall2_nth_intro {A B} (R : A -> B -> Prop) : forall l1 l2, length l1 = length l2 ->
  (forall i a b, nth_error l1 i = Some a -> nth_error l2 i = Some b -> R a b) -> Forall2 R l1 l2.
Proof. induction l1 as [|x l1 IH]; intros [|y l2] Hl H; try discriminate; constructor.
  - apply (H 0); reflexivity.
  - apply IH; [cbn [length] in Hl; lia|]. intros i a b Ha Hb. apply (H (S i)); assumption. Qed.
Lemma nth_error_seq off n i k : nth_error (seq off n) i = Some k -> k = off + i /\ i < n.
Proof. intros H. assert (Hi : i < n) by (rewrite <- (seq_length n off); apply nth_error_Some; congruence).
  split; [|exact Hi]. apply (nth_error_nth _ _ 0) in H. rewrite seq_nth in H by exact Hi. lia. Qed.
Lemma filter_all {A} (f : A -> bool) l : (forall x, In x l -> f x = true) -> filter f l = l.
Proof. induction l as [|a l IH]; intros H; cbn [filter]; [reflexivity|].
  rewrite (H a (or_introl eq_refl)). f_equal. apply IH. intros; apply H; now right. Qed.

Definition ixs_ok (old : list str) (off : nat) (pts : list str) (ixs : list nat) : Prop :=
  Forall2 (fun p k => exists j, index_of p old = Some j /\ k = off + j) pts ixs.
Lemma flat_indexes_spec old idx : forall new ixs, flat_indexes old new idx = Ok ixs -> ixs_ok old idx new ixs.
Proof. induction new as [|p r IH]; intros ixs; cbn [flat_indexes]; [intros [= <-]; constructor|].
  destruct (index_of p old) as [k|] eqn:Ek; [|discriminate].
  destruct (flat_indexes old r idx) as [l|]; cbn [rbind]; [|discriminate]. intros [= <-].
  constructor; [eauto|now apply IH]. Qed.
Lemma flat_indexes_ok old idx : forall new, (forall p, In p new -> In p old) -> exists ixs, flat_indexes old new idx = Ok ixs.
Proof. induction new as [|p r IH]; intros H; cbn [flat_indexes]; [eexists; reflexivity|].
  destruct (index_of_In p old (H p (or_introl eq_refl))) as [k ->].
  destruct IH as [l ->]; [intros; apply H; now right|]. cbn [rbind]. eexists; reflexivity. Qed.
Lemma seq_ixs_ok pts off : NoDup pts -> ixs_ok pts off pts (seq off (length pts)).
Proof. intros Hn. apply Forall2_nth_intro; [now rewrite seq_length|].
  intros i a k Ha Hk. apply nth_error_seq in Hk. destruct Hk as [-> _]. exists i. split; [|reflexivity].
  now apply index_of_nodup. Qed.

Lemma index_mapping_In old : forall new i m, index_mapping old new i = Ok m ->
  forall k a, In (k, a) m <-> (i <= a /\ exists p, nth_error new (a - i) = Some p /\ index_of p old = Some k).
Proof. induction new as [|p r IH]; intros i m; cbn [index_mapping].
  - intros [= <-] k a. split; [intros []|]. intros [_ [q [Hq _]]]. destruct (a - i); discriminate.
  - destruct (index_of p old) as [kp|] eqn:Ek; [|discriminate].
    destruct (index_mapping old r (S i)) as [m'|] eqn:Em; cbn [rbind]; [|discriminate]. intros [= <-] k a.
    specialize (IH (S i) m' Em k a). cbn [In]. rewrite IH. split.
    + intros [[= <- <-]|[Hle [q [Hq Hk]]]].
      * split; [lia|]. exists p. rewrite Nat.sub_diag. split; [reflexivity|exact Ek].
      * split; [lia|]. exists q. replace (a - i) with (S (a - S i)) by lia. split; assumption.
    + intros [Hle [q [Hq Hk]]]. destruct (Nat.eq_dec a i) as [->|Hne].
      * left. rewrite Nat.sub_diag in Hq. cbn [nth_error] in Hq. injection Hq as <-. congruence.
      * right. split; [lia|]. exists q. replace (a - i) with (S (a - S i)) in Hq by lia. split; assumption. Qed.
Lemma index_mapping_ok old : forall new i, (forall p, In p new -> In p old) -> exists m, index_mapping old new i = Ok m.
Proof. induction new as [|p r IH]; intros i H; cbn [index_mapping]; [eexists; reflexivity|].
  destruct (index_of_In p old (H p (or_introl eq_refl))) as [k ->].
  destruct (IH (S i)) as [m ->]; [intros; apply H; now right|]. cbn [rbind]. eexists; reflexivity. Qed.

Definition kept (pts : list str) (ab : str * str) : bool := mem (fst ab) pts && mem (snd ab) pts.
Definition limb_name (pts : list str) (l : nat * nat) : str * str := (nth (fst l) pts "", nth (snd l) pts "").

Lemma relimb_names old np m : NoDup old -> index_mapping old np 0 = Ok m ->
  forall limbs, forallb (fun l => (fst l <? length old) && (snd l <? length old)) limbs = true ->
  map (limb_name np) (relimb m limbs) = filter (kept np) (map (limb_name old) limbs).
Proof. intros Hn Hm. pose proof (index_mapping_In old np 0 m Hm) as HI.
  assert (M1 : forall l a, nat_assoc_last l m = Some a -> exists p, nth_error np a = Some p /\ index_of p old = Some l).
  { intros l a H. apply nat_assoc_last_In in H. apply HI in H. destruct H as [_ [p [Hp Hk]]]. rewrite Nat.sub_0_r in Hp. eauto. }
  assert (M2 : forall l, l < length old -> nat_assoc_last l m = None -> mem (nth l old "") np = false).
  { intros l Hl H. apply mem_false. intros Hi. apply nat_assoc_last_None in H. apply H.
    apply In_nth_error in Hi. destruct Hi as [a Ha].
    assert (Hk : index_of (nth l old "") old = Some l) by (apply index_of_nodup; [exact Hn|now apply nth_error_nth']).
    change l with (fst (l, a)). apply in_map. apply HI. split; [lia|]. rewrite Nat.sub_0_r. eauto. }
  assert (M3 : forall l a, nat_assoc_last l m = Some a -> nth a np "" = nth l old "" /\ mem (nth l old "") np = true).
  { intros l a H. destruct (M1 l a H) as [p [Hp Hk]]. rewrite (nth_error_nth _ _ _ Hp), (index_of_nth_default _ _ _ _ Hk).
    split; [reflexivity|]. apply mem_In. eapply nth_error_In; eassumption. }
  induction limbs as [|[l1 l2] r IH]; intros Hr; [reflexivity|].
  cbn [forallb fst snd] in Hr. apply andb_true_iff in Hr. destruct Hr as [Hh Hr]. apply andb_true_iff in Hh. destruct Hh as [H1 H2].
  apply Nat.ltb_lt in H1. apply Nat.ltb_lt in H2.
  unfold relimb in *. cbn [flat_map map fst snd]. rewrite map_app, (IH Hr). cbn [filter].
  change (kept np (limb_name old (l1, l2))) with (mem (nth l1 old "") np && mem (nth l2 old "") np).
  change (limb_name old (l1, l2)) with (nth l1 old "", nth l2 old "").
  destruct (nat_assoc_last l1 m) as [a|] eqn:E1.
  - destruct (M3 l1 a E1) as [Na Ma]. rewrite Ma. destruct (nat_assoc_last l2 m) as [b|] eqn:E2.
    + destruct (M3 l2 b E2) as [Nb Mb]. rewrite Mb. cbn [andb map app]. unfold limb_name at 1. cbn [fst snd]. now rewrite Na, Nb.
    + rewrite (M2 l2 H2 E2). reflexivity.
  - rewrite (M2 l1 H1 E1). reflexivity. Qed.

Lemma sel_component_spec c off pts c' ixs : NoDup (c_points c) -> sel_component c off pts = Ok (c', ixs) ->
  c_name c' = c_name c /\ c_colors c' = c_colors c /\ c_format c' = c_format c /\
  c_points c' = match pts with Some np => np | None => c_points c end /\
  ixs_ok (c_points c) off (c_points c') ixs.
Proof. intros Hn. unfold sel_component. destruct pts as [np|].
  - destruct (index_mapping (c_points c) np 0) as [m|]; cbn [rbind]; [|discriminate].
    destruct (flat_indexes (c_points c) np off) as [l|] eqn:El; cbn [rbind]; [|discriminate].
    intros [= <- <-]. cbn [c_name c_colors c_format c_points]. repeat split. now apply flat_indexes_spec.
  - intros [= <- <-]. repeat split. now apply seq_ixs_ok. Qed.
Lemma sel_component_limbs c off pts c' ixs : NoDup (c_points c) -> limbs_in_range c = true ->
  sel_component c off pts = Ok (c', ixs) -> limb_names c' = filter (kept (c_points c')) (limb_names c).
Proof. intros Hn Hr. unfold sel_component. destruct pts as [np|].
  - destruct (index_mapping (c_points c) np 0) as [m|] eqn:Em; cbn [rbind]; [|discriminate].
    destruct (flat_indexes (c_points c) np off) as [l|]; cbn [rbind]; [|discriminate].
    intros [= <- <-]. unfold limb_names. cbn [c_points c_limbs]. apply (relimb_names _ _ _ Hn Em). exact Hr.
  - intros [= <- <-]. symmetry. apply filter_all. intros ab Hab. unfold limb_names in Hab. apply in_map_iff in Hab.
    destruct Hab as [[l1 l2] [<- Hl]]. unfold limbs_in_range in Hr. rewrite forallb_forall in Hr. specialize (Hr _ Hl).
    cbn [fst snd] in Hr. apply andb_true_iff in Hr. destruct Hr as [H1 H2]. apply Nat.ltb_lt in H1. apply Nat.ltb_lt in H2.
    unfold kept. cbn [fst snd]. apply andb_true_iff. split; apply mem_In, nth_In; assumption. Qed.
Lemma sel_component_ok c off pts : (forall np, pts = Some np -> forall p, In p np -> In p (c_points c)) ->
  exists x, sel_component c off pts = Ok x.
Proof. intros H. unfold sel_component. destruct pts as [np|]; [|eexists; reflexivity].
  destruct (index_mapping_ok (c_points c) np 0 (H np eq_refl)) as [m ->].
  destruct (flat_indexes_ok (c_points c) off np (H np eq_refl)) as [l ->]. cbn [rbind]. eexists; reflexivity. Qed.

(* ---------------------------------------------------------------- the loop over the header's components *)
Lemma walk_In : forall comps idx sel pts table name x,
  walk comps idx sel pts = Ok table -> In (name, x) table ->
  exists pre c post, comps = pre ++ c :: post /\ c_name c = name /\ mem name sel = true /\
    sel_component c (idx + total_points pre) (pts_lookup pts name) = Ok x.
Proof. induction comps as [|c r IH]; intros idx sel pts table name x; cbn [walk]; [intros [= <-] []|].
  destruct (mem (c_name c) sel) eqn:Em.
  - destruct (sel_component c idx (pts_lookup pts (c_name c))) as [y|] eqn:Es; cbn [rbind]; [|discriminate].
    destruct (walk r (idx + length (c_points c)) sel pts) as [rest|] eqn:Ew; cbn [rbind]; [|discriminate].
    intros [= <-] Hi. cbn [app] in Hi. destruct Hi as [[= <- <-]|Hi].
    + exists [], c, r. unfold total_points. cbn [flat_names flat_map length]. rewrite Nat.add_0_r. auto.
    + destruct (IH _ _ _ _ _ _ Ew Hi) as [pre [c2 [post [-> [Hn [Hm Hs]]]]]].
      exists (c :: pre), c2, post. rewrite total_points_cons, Nat.add_assoc. auto.
  - cbn [rbind]. destruct (walk r (idx + length (c_points c)) sel pts) as [rest|] eqn:Ew; cbn [rbind]; [|discriminate].
    intros [= <-] Hi. cbn [app] in Hi. destruct (IH _ _ _ _ _ _ Ew Hi) as [pre [c2 [post [-> [Hn [Hm Hs]]]]]].
    exists (c :: pre), c2, post. rewrite total_points_cons, Nat.add_assoc. auto. Qed.
Lemma walk_keys : forall comps idx sel pts table, walk comps idx sel pts = Ok table ->
  map fst table = filter (fun n => mem n sel) (map c_name comps).
Proof. induction comps as [|c r IH]; intros idx sel pts table; cbn [walk]; [intros [= <-]; reflexivity|].
  cbn [map filter]. destruct (mem (c_name c) sel) eqn:Em.
  - destruct (sel_component c idx (pts_lookup pts (c_name c))) as [y|]; cbn [rbind]; [|discriminate].
    destruct (walk r (idx + length (c_points c)) sel pts) as [rest|] eqn:Ew; cbn [rbind]; [|discriminate].
    intros [= <-]. cbn [app map fst]. f_equal. eapply IH; eassumption.
  - cbn [rbind]. destruct (walk r (idx + length (c_points c)) sel pts) as [rest|] eqn:Ew; cbn [rbind]; [|discriminate].
    intros [= <-]. cbn [app]. eapply IH; eassumption. Qed.
Lemma walk_complete : forall comps idx sel pts table pre c post,
  walk comps idx sel pts = Ok table -> comps = pre ++ c :: post -> mem (c_name c) sel = true ->
  exists x, sel_component c (idx + total_points pre) (pts_lookup pts (c_name c)) = Ok x /\ In (c_name c, x) table.
Proof. induction comps as [|c0 r IH]; intros idx sel pts table pre c post; cbn [walk]; [intros _ H; destruct pre; discriminate|].
  intros Hw Hc Hm. destruct pre as [|p0 pre]; cbn [app] in Hc; injection Hc as -> ->.
  - rewrite Hm in Hw. destruct (sel_component c idx (pts_lookup pts (c_name c))) as [y|] eqn:Es; cbn [rbind] in Hw; [|discriminate].
    destruct (walk post (idx + length (c_points c)) sel pts) as [rest|]; cbn [rbind] in Hw; [|discriminate].
    injection Hw as <-. exists y. unfold total_points. cbn [flat_names flat_map length]. rewrite Nat.add_0_r. split; [exact Es|now left].
  - destruct (if mem (c_name p0) sel then do x <- sel_component p0 idx (pts_lookup pts (c_name p0)); Ok [(c_name p0, x)] else Ok [])
      as [here|]; cbn [rbind] in Hw; [|discriminate].
    destruct (walk (pre ++ c :: post) (idx + length (c_points p0)) sel pts) as [rest|] eqn:Ew; cbn [rbind] in Hw; [|discriminate].
    injection Hw as <-. destruct (IH _ _ _ _ _ _ _ Ew eq_refl Hm) as [x [Hs Hi]].
    exists x. rewrite total_points_cons, Nat.add_assoc. split; [exact Hs|]. apply in_or_app. now right. Qed.
Lemma walk_ok : forall comps idx sel pts,
  (forall c, In c comps -> mem (c_name c) sel = true -> forall off, exists x, sel_component c off (pts_lookup pts (c_name c)) = Ok x) ->
  exists table, walk comps idx sel pts = Ok table.
Proof. induction comps as [|c r IH]; intros idx sel pts H; cbn [walk]; [eexists; reflexivity|].
  destruct (IH (idx + length (c_points c)) sel pts) as [rest Er]; [intros c2 Hc2; apply H; now right|].
  destruct (mem (c_name c) sel) eqn:Em.
  - destruct (H c (or_introl eq_refl) Em idx) as [x ->]. cbn [rbind]. rewrite Er. cbn [rbind]. eexists; reflexivity.
  - cbn [rbind]. rewrite Er. cbn [rbind]. eexists; reflexivity. Qed.

(* ---------------------------------------------------------------- get_components, inverted *)
Definition picked_from (cs : list component) (pts : points_dict) (name : str) (x : component * list nat) : Prop :=
  exists pre c post, cs = pre ++ c :: post /\ c_name c = name /\
    sel_component c (total_points pre) (pts_lookup pts name) = Ok x.
Lemma get_components_inv tfe cs b sel pts cs' b' : get_components_v tfe cs b sel pts = Ok (cs', b') ->
  exists picked, cs' = map fst picked /\ get_points tfe (concat (map snd picked)) b = Ok b' /\
    Forall2 (picked_from cs pts) sel picked.
Proof. unfold get_components_v. destruct (walk cs 0 sel pts) as [table|] eqn:Ew; cbn [rbind]; [|discriminate].
  destruct (pick table sel) as [picked|] eqn:Ep; cbn [rbind]; [|discriminate].
  destruct (get_points tfe (concat (map snd picked)) b) as [nb|] eqn:Eg; cbn [rbind]; [|discriminate].
  intros [= <- <-]. exists picked. split; [reflexivity|]. split; [exact Eg|].
  unfold pick in Ep. apply rmapM_Forall2 in Ep. eapply Forall2_impl'; [|exact Ep].
  intros name x _ H. cbn beta in H. destruct (assoc_last name table) as [y|] eqn:Ea; [|discriminate]. injection H as ->.
  apply assoc_last_In in Ea. destruct (walk_In _ _ _ _ _ _ _ Ew Ea) as [pre [c [post [-> [Hn [_ Hs]]]]]].
  exists pre, c, post. cbn [Nat.add] in Hs. auto. Qed.

Lemma picked_from_index cs pts name x : names_unique cs = true -> picked_from cs pts name x ->
  c_name (fst x) = name /\ length (snd x) = length (c_points (fst x)) /\
  Forall2 (fun p k => point_index cs name p = Ok k) (c_points (fst x)) (snd x).
Proof. intros Hu [pre [c [post [-> [Hn Hs]]]]]. destruct x as [c' ixs]. cbn [fst snd].
  pose proof (names_unique_spec _ Hu) as [Hnd Hp].
  assert (Hc : NoDup (c_points c)) by (apply Hp, in_or_app; right; now left).
  destruct (sel_component_spec _ _ _ _ _ Hc Hs) as [N1 [_ [_ [_ Hix]]]].
  split; [congruence|]. split; [symmetry; eapply Forall2_length'; exact Hix|].
  eapply Forall2_impl'; [|exact Hix]. intros p k _ [j [Hj ->]]. unfold point_index.
  rewrite (point_index_from_app pre c post name p 0 j); [reflexivity| |exact Hn|exact Hj].
  rewrite <- Hn. apply (nodup_names_split pre c post). exact Hnd. Qed.

Lemma Forall2_flat {A B} (R : A -> B -> Prop) : forall (l1 : list (list A)) (l2 : list (list B)),
  Forall2 (Forall2 R) l1 l2 -> Forall2 R (concat l1) (concat l2).
Proof. induction 1 as [|x y l1 l2 Hxy H IH]; cbn [concat]; [constructor|]. now apply Forall2_app. Qed.
Lemma flat_names_concat cs : flat_names cs = concat (map (fun c => map (pair (c_name c)) (c_points c)) cs).
Proof. unfold flat_names. now rewrite flat_map_concat_map. Qed.

Lemma picked_flat cs pts sel picked : names_unique cs = true -> Forall2 (picked_from cs pts) sel picked ->
  Forall2 (fun cn k => point_index cs (fst cn) (snd cn) = Ok k) (flat_names (map fst picked)) (concat (map snd picked)).
Proof. intros Hu H. rewrite flat_names_concat, map_map. apply Forall2_flat.
  induction H as [|name x sel picked Hx H IH]; cbn [map]; constructor; [|exact IH].
  destruct (picked_from_index _ _ _ _ Hu Hx) as [Hn [_ Hf]]. apply Forall2_map_l. cbn [fst snd]. now rewrite Hn. Qed.

(* ================================================================ select_points *)
Definition same_column (b b' : body) (F P D i k : nat) : Prop :=
  forall f p, f < F -> p < P ->
    tget 0%Z (b_conf b') [f; p; i] = tget 0%Z (b_conf b) [f; p; k] /\
    forall e, e < D -> tget 0%Z (b_data b') [f; p; i; e] = tget 0%Z (b_data b) [f; p; k; e] /\
                       tget false (b_mask b') [f; p; i; e] = tget false (b_mask b) [f; p; k; e].

Theorem select_points_v tfe cs b sel pts cs' b' F P D :
  names_unique cs = true -> body_shape b F P (total_points cs) D ->
  get_components_v tfe cs b sel pts = Ok (cs', b') ->
  body_shape b' F P (total_points cs') D /\ b_fps b' = b_fps b /\ b_backend b' = b_backend b /\
  forall i c n, nth_error (flat_names cs') i = Some (c, n) ->
    exists k, point_index cs c n = Ok k /\ nth_error (flat_names cs) k = Some (c, n) /\ same_column b b' F P D i k.
Proof. intros Hu Hb H. destruct (get_components_inv _ _ _ _ _ _ _ H) as [picked [-> [Hg Hp]]].
  pose proof (picked_flat _ _ _ _ Hu Hp) as Hf.
  destruct (get_points_spec _ _ _ _ _ _ _ _ Hb Hg) as [[Hs [_ [_ [_ [Hfps [Hbe Hcol]]]]]] _].
  assert (Hlen : length (concat (map snd picked)) = total_points (map fst picked))
    by (unfold total_points; symmetry; eapply Forall2_length'; exact Hf).
  rewrite Hlen in Hs. split; [exact Hs|]. split; [exact Hfps|]. split; [exact Hbe|].
  intros i c n Hi. destruct (Forall2_nth_error _ _ _ Hf _ _ Hi) as [k [Hk Hpi]]. cbn [fst snd] in Hpi.
  exists k. split; [exact Hpi|]. split; [apply (point_index_spec _ _ _ _ Hpi)|].
  assert (Hil : i < length (concat (map snd picked))) by (apply nth_error_Some; congruence).
  intros f p Hf' Hp'. destruct (Hcol f p i Hf' Hp' Hil) as [Hc Hd]. rewrite (nth_error_nth _ _ 0 Hk) in Hc, Hd.
  split; [exact Hc|exact Hd]. Qed.

(* ================================================================ select_limbs *)
Definition selected_component (cs : list component) (pts : points_dict) (name : str) (c' : component) : Prop :=
  exists c, In c cs /\ c_name c = name /\ c_name c' = name /\ c_colors c' = c_colors c /\ c_format c' = c_format c /\
    c_points c' = match pts_lookup pts name with Some np => np | None => c_points c end /\
    limb_names c' = filter (kept (c_points c')) (limb_names c).
Theorem select_limbs_v tfe cs b sel pts cs' b' : header_wf cs = true ->
  get_components_v tfe cs b sel pts = Ok (cs', b') -> Forall2 (selected_component cs pts) sel cs'.
Proof. unfold header_wf. rewrite andb_true_iff. intros [Hu Hr] H.
  destruct (get_components_inv _ _ _ _ _ _ _ H) as [picked [-> [_ Hp]]].
  pose proof (names_unique_spec _ Hu) as [_ Hnd]. rewrite forallb_forall in Hr. clear H.
  induction Hp as [|name x sel picked Hx Hp IH]; cbn [map]; constructor; [|exact IH].
  destruct Hx as [pre [c [post [-> [Hn Hs]]]]]. destruct x as [c' ixs]. cbn [fst].
  assert (Hin : In c (pre ++ c :: post)) by (apply in_or_app; right; now left).
  destruct (sel_component_spec _ _ _ _ _ (Hnd _ Hin) Hs) as [N1 [N2 [N3 [N4 _]]]].
  exists c. repeat split; try assumption; try congruence.
  eapply sel_component_limbs; [apply Hnd, Hin|apply Hr, Hin|exact Hs]. Qed.

(* ================================================================ definedness *)
Theorem select_defined_v tfe cs b sel pts F P D :
  names_unique cs = true -> body_shape b F P (total_points cs) D ->
  (forall s, In s sel -> In s (map c_name cs)) ->
  (forall c np, In c cs -> In (c_name c) sel -> pts_lookup pts (c_name c) = Some np -> forall p, In p np -> In p (c_points c)) ->
  (tfe = false \/ b_backend b <> TF) ->
  exists r, get_components_v tfe cs b sel pts = Ok r.
Proof. intros Hu Hb Hsel Hpts Htf. unfold get_components_v.
  destruct (walk_ok cs 0 sel pts) as [table Ew].
  { intros c Hc Hm off. apply sel_component_ok. intros np Hnp. apply (Hpts c np Hc); [now apply mem_In|exact Hnp]. }
  rewrite Ew. cbn [rbind].
  assert (Hpick : exists picked, pick table sel = Ok picked).
  { unfold pick. apply rmapM_ok. intros s Hs. destruct (assoc_last_some_key s table) as [v ->]; [|eauto].
    rewrite (walk_keys _ _ _ _ _ Ew). apply filter_In. split; [now apply Hsel|now apply mem_In]. }
  destruct Hpick as [picked Ep]. rewrite Ep. cbn [rbind].
  assert (Hp : Forall2 (picked_from cs pts) sel picked).
  { unfold pick in Ep. apply rmapM_Forall2 in Ep. eapply Forall2_impl'; [|exact Ep]. intros name x _ H. cbn beta in H.
    destruct (assoc_last name table) as [y|] eqn:Ea; [|discriminate]. injection H as ->. apply assoc_last_In in Ea.
    destruct (walk_In _ _ _ _ _ _ _ Ew Ea) as [pre [c [post [-> [Hn [_ Hs]]]]]]. exists pre, c, post. cbn [Nat.add] in Hs. auto. }
  pose proof (picked_flat _ _ _ _ Hu Hp) as Hf.
  assert (Hidx : Forall (fun k => k < total_points cs) (concat (map snd picked))).
  { apply Forall_forall. intros k Hk. apply In_nth_error in Hk. destruct Hk as [i Hi].
    assert (Hi2 : i < length (flat_names (map fst picked))) by (rewrite (Forall2_length' _ _ _ Hf); apply nth_error_Some; congruence).
    destruct (nth_error (flat_names (map fst picked)) i) as [cn|] eqn:Ecn; [|apply nth_error_None in Ecn; lia].
    destruct (Forall2_nth_error _ _ _ Hf _ _ Ecn) as [k' [Hk' Hpi]]. assert (k' = k) by congruence. subst k'.
    apply (point_index_spec _ _ _ _ Hpi). }
  destruct (get_points_ok tfe _ _ _ _ _ _ Hb Hidx) as [nb ->]; [destruct Htf; auto|]. cbn [rbind]. eexists; reflexivity. Qed.
