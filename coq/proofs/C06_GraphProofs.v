(* C06, object graph level: poses handed out by separate reads and by copy() share no cell with each other nor with the
   memo; an in-place edit changes exactly one node of its owner's tree and nothing else; every read returns the pose a
   fresh process would return, whatever was read, edited or copied before. *)
From Coq Require Import ZArith NArith List Lia ZifyBool ZifyN ZifyNat Bool.
Require Import ListN Result Bytes Prog Codec PoseRead PoseReadLemmas StreamLemmas StreamRead StreamBack StreamIndep Graph GraphEdit C06_Graph C06_HeapProofs.
Import ListNotations.
Open Scope N_scope.

(* ---------- values <-> payload words ---------- *)
Lemma dec_strs_enc l : forall fuel, (length l <= fuel)%nat -> dec_strs fuel (enc_strs l) = Some l.
Proof.
  induction l as [|s l IH]; intros fuel Hf; [destruct fuel; reflexivity|].
  destruct fuel as [|f]; [cbn in Hf; lia|]. unfold enc_strs. cbn [map concat]. cbn [app dec_strs].
  fold (enc_strs l).
  assert (Ht : takeN (lenN s) (s ++ enc_strs l) = s) by (rewrite takeN_app_le by lia; apply takeN_all; lia).
  assert (Hd : dropN (lenN s) (s ++ enc_strs l) = enc_strs l) by (rewrite dropN_app_le by lia; rewrite dropN_all by lia; reflexivity).
  rewrite Ht, Hd, N.eqb_refl. rewrite IH by (cbn in Hf; lia). reflexivity.
Qed.
Lemma length_enc_strs l : (length l <= length (enc_strs l))%nat.
Proof. induction l as [|s l IH]; [cbn; lia|]. unfold enc_strs in *. cbn [map concat]. cbn [app length]. rewrite app_length. lia. Qed.
Lemma dec_strs_enc_len l : dec_strs (length (enc_strs l)) (enc_strs l) = Some l.
Proof. apply dec_strs_enc. apply length_enc_strs. Qed.
Lemma unflat2_flat l : unflat2 (flat2 l) = Some l.
Proof. induction l as [|[a b] l IH]; [reflexivity|]. unfold flat2 in *. cbn [map concat fst snd app unflat2]. now rewrite IH. Qed.
Lemma unflat3_flat l : unflat3 (flat3 l) = Some l.
Proof. induction l as [|[[a b] c] l IH]; [reflexivity|]. unfold flat3 in *. cbn [map concat fst snd app unflat3]. now rewrite IH. Qed.
Lemma unbits_bits l : unbits (bits l) = l.
Proof. induction l as [|b l IH]; [reflexivity|]. unfold unbits, bits in *. cbn [map]. rewrite IH. destruct b; reflexivity. Qed.

Lemma comp_of_comp_tree c : comp_of_tree (comp_tree c) = Some c.
Proof.
  unfold comp_of_tree, comp_tree, leaf. rewrite !dec_strs_enc_len, unflat2_flat, unflat3_flat. destruct c; reflexivity.
Qed.
Lemma mapM_comp cs : mapM comp_of_tree (map comp_tree cs) = Some cs.
Proof. induction cs as [|c cs IH]; [reflexivity|]. cbn [map mapM]. now rewrite comp_of_comp_tree, IH. Qed.
Lemma header_of_header_tree h : header_of_tree (header_tree h) = Some h.
Proof.
  unfold header_of_tree, header_tree, dims_tree, leaf. destruct h as [v [[w hh] d] cs]. cbn [h_version h_dims h_comps fst snd].
  now rewrite mapM_comp.
Qed.
Lemma body_of_body_tree b : body_of_tree (body_tree b) = Some b.
Proof. unfold body_of_tree, body_tree, leaf. rewrite unbits_bits. destruct b; reflexivity. Qed.
Lemma pose_of_pose_tree p : pose_of_tree (pose_tree p) = Some p.
Proof. unfold pose_of_tree, pose_tree. rewrite header_of_header_tree. cbv beta iota. rewrite body_of_body_tree. destruct p; reflexivity. Qed.

(* ---------- depth of the object trees: FUEL is enough ---------- *)
Lemma depth_header_tree h : (depth (header_tree h) <= 4)%nat.
Proof.
  unfold header_tree. cbn [depth fold_right dims_tree leaf]. 
  assert (H : (fold_right (fun k m => Nat.max (depth k) m) 0%nat (map comp_tree (h_comps h)) <= 2)%nat).
  { induction (h_comps h) as [|c cs IH]; [cbn; lia|]. cbn [map fold_right]. unfold comp_tree at 1. cbn [depth fold_right leaf]. lia. }
  lia.
Qed.
Lemma depth_body_tree b : (depth (body_tree b) <= 2)%nat.
Proof. unfold body_tree, leaf. cbn [depth fold_right]. lia. Qed.
Lemma depth_pose_tree p : (depth (pose_tree p) <= 5)%nat.
Proof. unfold pose_tree. cbn [depth fold_right]. pose proof (depth_header_tree (p_header p)). pose proof (depth_body_tree (p_body p)). lia. Qed.

(* ---------- copy() ---------- *)
Lemma unbits_or_mask m : forall c, unbits (or_mask m c) = or_maskb (unbits m) c.
Proof.
  induction m as [|mb m IH]; intros [|cw c]; try reflexivity. cbn [or_mask unbits map or_maskb]. fold (unbits (or_mask m c)). fold (unbits m).
  rewrite IH. f_equal. destruct (F32.is_zero32 cw); reflexivity.
Qed.
Lemma depth_copy_tree t : depth (copy_tree t) = depth t.
Proof.
  unfold copy_tree.
  repeat match goal with |- context [match ?x with _ => _ end] => destruct x; try reflexivity end.
Qed.
Lemma pose_of_copy_tree t : pose_of_tree (copy_tree t) = option_map copy_pose (pose_of_tree t).
Proof.
  unfold copy_tree, pose_of_tree, body_of_tree.
  repeat (match goal with
          | |- context [match ?x with _ => _ end] => is_var x; destruct x
          | |- context [header_of_tree ?x] => destruct (header_of_tree x)
          end; try reflexivity).
  cbn [option_map]. unfold copy_pose. cbn [p_header p_body b_fps b_shape b_data b_conf b_mask]. rewrite unbits_or_mask. reflexivity.
Qed.
Lemma copy_pose_consistent p :
  or_maskb (b_mask (p_body p)) (b_conf (p_body p)) = b_mask (p_body p) -> copy_pose p = p.
Proof. intros H. unfold copy_pose. rewrite H. destruct p as [h [f sh d c m]]. reflexivity. Qed.

(* ---------- the invariant ---------- *)
Definition MemoG (s : gstate) (Ts : list T) : Prop :=
  match gmem s with
  | None => True
  | Some c => exists hd, nth_error Ts 0 = Some (header_tree hd) /\
              MemoOK (Some {| m_start := gm_start c; m_end := gm_end c; m_slice := gm_slice c; m_header := hd |})
  end.
Definition GInv (s : gstate) : Prop :=
  exists Ts Ss, OwnsL (gheap s) (roots s) Ts Ss /\ NoDup (concat Ss) /\ Forall (fun t => (depth t <= 5)%nat) Ts /\ MemoG s Ts.

Lemma ginv_init : GInv ginit.
Proof. exists [], []. unfold roots, memo_root, MemoG, ginit; cbn. repeat split; constructor. Qed.

Lemma read_enough (h : heap W) a (t : T) S : Owns h a t S -> (depth t <= 5)%nat -> read_tree FUEL h a = Some t /\ footprint FUEL h a = S.
Proof. intros HO Hd. apply (proj1 (owns_read h) a t S HO). unfold FUEL. lia. Qed.

(* under the invariant the memo's objects hold a header whose memo entry is sound *)
Lemma memo_view_g_inv s : GInv s ->
  MemoOK (memo_view_g s) /\
  (forall c, gmem s = Some c -> exists hd Ts Ss St, 
      memo_view_g s = Some {| m_start := gm_start c; m_end := gm_end c; m_slice := gm_slice c; m_header := hd |} /\
      read_tree FUEL (gheap s) (gm_addr c) = Some (header_tree hd) /\
      OwnsL (gheap s) (ghanded s) Ts Ss /\ Owns (gheap s) (gm_addr c) (header_tree hd) St /\ NoDup (concat (St :: Ss)) /\
      Forall (fun t => (depth t <= 5)%nat) Ts).
Proof.
  intros [Ts [Ss [HL [ND [HD HM]]]]]. unfold memo_view_g, header_at, MemoG, roots, memo_root in *.
  destruct (gmem s) as [c|] eqn:E; [|split; [exact I|intros c' Hc'; discriminate]].
  destruct HM as [hd [H0 Hok]]. cbn [app] in HL. inversion HL as [|a t S ptrs kids fps HO HL']; subst.
  cbn in H0. injection H0 as ->.
  destruct (read_enough _ _ _ _ HO ltac:(pose proof (depth_header_tree hd); lia)) as [Hr _].
  rewrite Hr, header_of_header_tree. split; [exact Hok|]. intros c' [= <-].
  exists hd, kids, fps, S. inversion HD; subst. repeat split; try assumption.
Qed.

Lemma nth_error_roots s k : nth_error (roots s) (length (memo_root s) + k) = nth_error (ghanded s) k.
Proof. unfold roots. rewrite nth_error_app2 by lia. f_equal. lia. Qed.

(* ---------- what callers observe ---------- *)
Lemma view_of_owns s k root t S : nth_error (ghanded s) k = Some root -> Owns (gheap s) root t S -> (depth t <= 5)%nat ->
  pose_at s k = pose_of_tree t /\ cells_of s k = S.
Proof.
  intros Hk HO Hd. unfold pose_at, cells_of. rewrite Hk. destruct (read_enough _ _ _ _ HO Hd) as [-> ->]. split; reflexivity.
Qed.
Lemma nth_error_Forall {X} (Q : X -> Prop) l k x : Forall Q l -> nth_error l k = Some x -> Q x.
Proof. intros HF Hk. rewrite Forall_forall in HF. apply HF. eapply nth_error_In; eauto. Qed.
Lemma ginv_pose s : GInv s -> forall k root, nth_error (ghanded s) k = Some root ->
  exists t S, Owns (gheap s) root t S /\ (depth t <= 5)%nat.
Proof.
  intros [Ts [Ss [HL [ND [HD HM]]]]] k root Hk. pose proof (nth_error_roots s k) as Hn. rewrite Hk in Hn.
  destruct (ownsL_nth _ _ _ _ HL _ _ Hn) as [t [S [Ht [_ HO]]]]. exists t, S. split; [exact HO|]. exact (nth_error_Forall (fun t => (depth t <= 5)%nat) _ _ _ HD Ht).
Qed.
(* ---------- structural edits: a newly built object assigned to an attribute, list.pop() ---------- *)
Definition maxd (kids : list (vtree (list N))) : nat := fold_right (fun k m => Nat.max (depth k) m) 0%nat kids.
Lemma depth_ge_1 (t : vtree (list N)) : (1 <= depth t)%nat.
Proof. destruct t. cbn [depth]. lia. Qed.
Lemma maxd_upd_le f kids : (forall k, (depth (f k) <= depth k)%nat) -> forall i, (maxd (upd i f kids) <= maxd kids)%nat.
Proof.
  intros Hf. induction kids as [|k kids IH]; intros [|i]; cbn [upd maxd fold_right]; try lia.
  - specialize (Hf k). fold (maxd kids). lia.
  - specialize (IH i). fold (maxd kids). fold (maxd (upd i f kids)). unfold maxd in *. lia.
Qed.
Lemma depth_node_edit_le p' F : (forall kids, (maxd (F kids) <= maxd kids)%nat) ->
  forall path t, (depth (tmap_at path (node_edit p' F) t) <= depth t)%nat.
Proof.
  intros HF. induction path as [|i r IH]; intros [p kids].
  - cbn [tmap_at node_edit depth]. specialize (HF kids). unfold maxd in HF. lia.
  - cbn [tmap_at depth]. pose proof (maxd_upd_le (tmap_at r (node_edit p' F)) kids IH i) as H. unfold maxd in H. lia.
Qed.
Lemma maxd_assign_leaf i w kids : (maxd (upd i (fun _ => leaf w) kids) <= maxd kids)%nat.
Proof. apply maxd_upd_le. intros k. pose proof (depth_ge_1 k). cbn. lia. Qed.
Lemma maxd_removelast kids : (maxd (removelast kids) <= maxd kids)%nat.
Proof.
  induction kids as [|k kids IH]; [cbn; lia|]. cbn [removelast]. destruct kids as [|k2 kids]; [cbn; lia|].
  change (maxd (k :: removelast (k2 :: kids))) with (Nat.max (depth k) (maxd (removelast (k2 :: kids)))).
  change (maxd (k :: k2 :: kids)) with (Nat.max (depth k) (maxd (k2 :: kids))). lia.
Qed.

Lemma Forall_upd {X} (Q : X -> Prop) f l : Forall Q l -> (forall x, Q x -> Q (f x)) -> forall i, Forall Q (upd i f l).
Proof. intros HF Hf. induction HF as [|x l Hx HF IH]; intros [|i]; cbn [upd]; constructor; auto. Qed.

Lemma NoDup_concat_nth {X} (Ss : list (list X)) : NoDup (concat Ss) -> forall i S, nth_error Ss i = Some S -> NoDup S.
Proof.
  induction Ss as [|S0 Ss IHs]; intros ND [|i] S HS; cbn in HS; try discriminate; cbn [concat] in ND.
  - injection HS as ->. eapply NoDup_app_l; exact ND.
  - eapply IHs; [eapply NoDup_app_r; exact ND|exact HS].
Qed.

(* one node of the k-th pose is edited (heap h -> h'): the invariant survives and nothing else moves *)
Lemma ginv_node_edit s k root path x h' p0 F :
  GInv s -> nth_error (ghanded s) k = Some root -> addr_at (gheap s) root path = Some x ->
  agrees_except (gheap s) h' x ->
  (forall pth a t S, Owns (gheap s) a t S -> NoDup S -> addr_at (gheap s) a pth = Some x ->
     exists S', Owns h' a (tmap_at pth (node_edit p0 F) t) S' /\ NoDup S' /\ fresh_or_old (gheap s) S S') ->
  (forall kids, (maxd (F kids) <= maxd kids)%nat) ->
  let s' := {| gheap := h'; gmem := gmem s; ghanded := ghanded s |} in
  GInv s' /\
  (forall j, j <> k -> pose_at s' j = pose_at s j /\ cells_of s' j = cells_of s j) /\
  memo_view_g s' = memo_view_g s /\ memo_cells s' = memo_cells s /\
  (forall t, (match nth_error (ghanded s) k with Some r => read_tree FUEL (gheap s) r | None => None end) = Some t ->
             read_tree FUEL h' root = Some (tmap_at path (node_edit p0 F) t)).
Proof.
  intros HI Ek Ep Hag Hed HF s'.
  destruct HI as [Ts [Ss [HL [ND [HD HM]]]]].
  set (i0 := (length (memo_root s) + k)%nat).
  assert (Hn : nth_error (roots s) i0 = Some root) by (unfold i0; rewrite nth_error_roots; exact Ek).
  destruct (ownsL_nth _ _ _ _ HL _ _ Hn) as [tk [Sk [Htk [HSk HOk]]]].
  assert (NDk : NoDup Sk) by exact (NoDup_concat_nth Ss ND i0 Sk HSk).
  destruct (Hed path root tk Sk HOk NDk Ep) as [Sk' [HOk' [NDk' Hfo]]].
  assert (Hxk : In x Sk) by (eapply path_in_footprint; eauto).
  destruct (ownsL_edit_child (gheap s) h' x (roots s) Ts Ss Hag HL ND i0 root Sk _ Sk' Hn HSk Hxk HOk' NDk' Hfo) as [HL' [ND' _]].
  rewrite (upd_const_eq (tmap_at path (node_edit p0 F)) Ts i0 tk Htk) in HL'.
  assert (Hdk : (depth tk <= 5)%nat) by exact (nth_error_Forall (fun t => (depth t <= 5)%nat) _ _ _ HD Htk).
  assert (HD' : Forall (fun t => (depth t <= 5)%nat) (upd i0 (tmap_at path (node_edit p0 F)) Ts)).
  { apply Forall_upd; [exact HD|]. intros t Ht. pose proof (depth_node_edit_le p0 F HF path t). lia. }
  assert (HM' : MemoG s' (upd i0 (tmap_at path (node_edit p0 F)) Ts)).
  { unfold MemoG in *. cbn [gmem s']. unfold i0, memo_root. destruct (gmem s) as [c|]; [|exact I].
    destruct HM as [hd [H0 Hok]]. exists hd. split; [|exact Hok]. destruct Ts; [discriminate|]. cbn [length Nat.add upd]. exact H0. }
  assert (HI' : GInv s').
  { exists (upd i0 (tmap_at path (node_edit p0 F)) Ts), (upd i0 (fun _ => Sk') Ss). repeat split; assumption. }
  split; [exact HI'|].
  assert (Hother : forall j rj, nth_error (ghanded s) j = Some rj -> j <> k ->
            exists t S, Owns (gheap s) rj t S /\ Owns h' rj t S /\ (depth t <= 5)%nat).
  { intros j rj Ej Hne. pose proof (nth_error_roots s j) as Hj. rewrite Ej in Hj.
    destruct (ownsL_nth _ _ _ _ HL _ _ Hj) as [t [S [Ht [HS HO]]]].
    destruct (ownsL_nth _ _ _ _ HL' _ _ Hj) as [t' [S' [Ht' [HS' HO']]]].
    rewrite nth_error_upd_other in Ht' by (unfold i0; lia). rewrite nth_error_upd_other in HS' by (unfold i0; lia).
    assert (t' = t) by congruence. assert (S' = S) by congruence. subst. exists t, S. split; [exact HO|]. split; [exact HO'|].
    exact (nth_error_Forall (fun t => (depth t <= 5)%nat) _ _ _ HD Ht). }
  split; [|split; [|split]].
  - intros j Hne. destruct (nth_error (ghanded s) j) as [rj|] eqn:Ej.
    + destruct (Hother j rj Ej Hne) as [t [S [HO [HO' Hd]]]].
      destruct (view_of_owns s j rj t S Ej HO Hd) as [-> ->]. exact (view_of_owns s' j rj t S Ej HO' Hd).
    + unfold pose_at, cells_of. cbn [ghanded s']. rewrite Ej. split; reflexivity.
  - unfold i0 in *. unfold memo_view_g, header_at, MemoG, roots, memo_root in *. unfold s' in *. cbn [gmem gheap ghanded] in *.
    destruct (gmem s) as [c|] eqn:Eg; [|reflexivity]. destruct HM as [hd [H0 _]].
    cbn [app length Nat.add upd] in HL, HL'. inversion HL as [|a0 t0 S0 ptrs kids fps HO HLr]; subst. cbn in H0. injection H0 as ->.
    cbn [upd] in HL'. inversion HL' as [|a1 t1 S1 ptrs1 kids1 fps1 HO1 HLr1]; subst.
    pose proof (depth_header_tree hd) as Hd4.
    destruct (read_enough _ _ _ _ HO ltac:(lia)) as [-> _]. destruct (read_enough _ _ _ _ HO1 ltac:(lia)) as [-> _]. reflexivity.
  - unfold i0 in *. unfold memo_cells, MemoG, roots, memo_root in *. unfold s' in *. cbn [gmem gheap ghanded] in *.
    destruct (gmem s) as [c|] eqn:Eg; [|reflexivity]. destruct HM as [hd [H0 _]].
    cbn [app length Nat.add upd] in HL, HL'. inversion HL as [|a0 t0 S0 ptrs kids fps HO HLr]; subst. cbn in H0. injection H0 as ->.
    cbn [upd] in HL'. inversion HL' as [|a1 t1 S1 ptrs1 kids1 fps1 HO1 HLr1]; subst.
    pose proof (depth_header_tree hd) as Hd4.
    destruct (read_enough _ _ _ _ HO ltac:(lia)) as [_ ->]. destruct (read_enough _ _ _ _ HO1 ltac:(lia)) as [_ ->]. reflexivity.
  - intros t Ht. rewrite Ek in Ht. destruct (read_enough _ _ _ _ HOk Hdk) as [Hr _]. rewrite Hr in Ht. injection Ht as <-.
    apply (read_enough h' root _ Sk' HOk'). pose proof (depth_node_edit_le p0 F HF path tk). lia.
Qed.

Lemma NoDup_concat_disjoint {X} (Ss : list (list X)) : NoDup (concat Ss) ->
  forall i j A B x, nth_error Ss i = Some A -> nth_error Ss j = Some B -> i <> j -> In x A -> ~ In x B.
Proof.
  induction Ss as [|S0 Ss IH]; intros ND i j A B x Hi Hj Hne HA HB; [destruct i; discriminate|].
  cbn [concat] in ND. destruct i as [|i], j as [|j]; cbn in Hi, Hj; try congruence.
  - injection Hi as ->. exact (notin_app_r x A (concat Ss) ND HA (in_concat_nth Ss j B x Hj HB)).
  - injection Hj as ->. exact (notin_app_l x B (concat Ss) ND (in_concat_nth Ss i A x Hi HA) HB).
  - apply NoDup_app_r in ND. eapply (IH ND i j); eauto.
Qed.


Section WithLegacy.
Variable legacy : vclass -> header -> rargs -> prog body.

(* the value a read returns does not depend on the memo (C06_HeapProofs), so neither on the heap *)
Lemma read_value s buffer a : GInv s ->
  fst (read_bytes legacy (memo_view_g s) buffer a) = fst (read_bytes legacy None buffer a).
Proof. intros HI. apply read_bytes_memo_independent. exact (proj1 (memo_view_g_inv s HI)). Qed.

Lemma ginv_append s Ts Ss t a h' :
  OwnsL (gheap s) (roots s) Ts Ss -> NoDup (concat Ss) -> Forall (fun t => (depth t <= 5)%nat) Ts -> MemoG s Ts ->
  (depth t <= 5)%nat -> alloc_tree t (gheap s) = (a, h') ->
  GInv {| gheap := h'; gmem := gmem s; ghanded := ghanded s ++ [a] |} /\
  exists S, Owns h' a t S /\ fresh_in (length (gheap s)) (length h') S.
Proof.
  intros HL ND HD HM Hd Hal.
  destruct (ownsL_alloc _ _ _ _ _ _ _ HL ND Hal) as [S [HL' [HO [NDS [FR [N1 _]]]]]].
  split; [|exists S; split; assumption].
  exists (Ts ++ [t]), (Ss ++ [S]). unfold roots, memo_root in *. cbn [gheap gmem ghanded]. rewrite app_assoc.
  split; [apply ownsL_app; [exact HL'|constructor; [exact HO|constructor]]|]. split; [exact N1|].
  split; [apply Forall_app; split; [exact HD|constructor; [exact Hd|constructor]]|].
  unfold MemoG in *. cbn [gmem]. destruct (gmem s) as [c|]; [|exact I]. destruct HM as [hd [H0 Hok]]. exists hd. split; [|exact Hok].
  destruct Ts; [discriminate|exact H0].
Qed.

Lemma ginv_read s buffer a : GInv s -> GInv (snd (read_g legacy s buffer a)).
Proof.
  intros HI. pose proof (memo_view_g_inv s HI) as [Hok Hm]. unfold read_g.
  destruct (check_cache (memo_view_g s) buffer) as [c|] eqn:Hc.
  - destruct (fst (read_bytes legacy (memo_view_g s) buffer a)) as [p|e]; [|exact HI].
    destruct (gmem s) as [gc|] eqn:Eg; [|exact HI].
    destruct (Hm gc eq_refl) as [hd [Ts [Ss [St [Hv [Hr [HL [HO [ND HD]]]]]]]]]. rewrite Hr.
    destruct (alloc_tree (VNode [] [header_tree hd; body_tree (p_body p)]) (gheap s)) as [ap h1] eqn:Hal. cbn [snd].
    destruct HI as [Ts0 [Ss0 [HL0 [ND0 [HD0 HM0]]]]].
    assert (Hdp : (depth (VNode [] [header_tree hd; body_tree (p_body p)]) <= 5)%nat).
    { cbn [depth fold_right]. pose proof (depth_header_tree hd) as H4. pose proof (depth_body_tree (p_body p)) as H2.
      apply le_n_S. apply Nat.max_lub; [etransitivity; [exact H4|repeat constructor]|apply Nat.max_lub; [etransitivity; [exact H2|repeat constructor]|apply Nat.le_0_l]]. }
    pose proof (ginv_append s Ts0 Ss0 _ ap h1 HL0 ND0 HD0 HM0 Hdp Hal) as [HI' _]. rewrite Eg in HI'. exact HI'.
  - destruct (run_plain rd_header {| pbuf := buffer; poff := 0 |}) as [[h r]|e] eqn:Hr; [|exact HI].
    destruct (alloc_tree (header_tree h) (gheap s)) as [am h1] eqn:Hal1.
    (* the handed-out poses, without the old memo objects *)
    assert (Hh : exists Ts Ss, OwnsL (gheap s) (ghanded s) Ts Ss /\ NoDup (concat Ss) /\ Forall (fun t => (depth t <= 5)%nat) Ts).
    { destruct HI as [Ts0 [Ss0 [HL0 [ND0 [HD0 _]]]]]. unfold roots in HL0.
      destruct (ownsL_app_inv _ _ _ _ _ HL0) as [T1 [T2 [S1 [S2 [-> [-> [_ H2]]]]]]].
      exists T2, S2. split; [exact H2|]. rewrite concat_app in ND0. split; [eapply NoDup_app_r; exact ND0|].
      apply Forall_app in HD0. exact (proj2 HD0). }
    destruct Hh as [Ts [Ss [HL [ND HD]]]].
    destruct (ownsL_alloc _ _ _ _ _ _ _ HL ND Hal1) as [Sm [HL1 [HOm [NDm [FRm [_ N2]]]]]].
    assert (Hmemo : MemoOK (Some {| m_start := 0; m_end := poff r; m_slice := py_slice 0 (poff r) buffer; m_header := h |})).
    { pose proof (read_bytes_memo_ok legacy (memo_view_g s) buffer a Hok) as H. unfold read_bytes in H. rewrite Hc, Hr in H. exact H. }
    set (gm := {| gm_start := 0; gm_end := poff r; gm_slice := py_slice 0 (poff r) buffer; gm_addr := am |}).
    assert (HI1 : GInv {| gheap := h1; gmem := Some gm; ghanded := ghanded s |}).
    { exists (header_tree h :: Ts), (Sm :: Ss). unfold roots, memo_root, MemoG. cbn [gheap gmem ghanded gm_addr gm app].
      split; [constructor; assumption|]. split; [exact N2|].
      split; [constructor; [pose proof (depth_header_tree h); lia|exact HD]|]. exists h. split; [reflexivity|exact Hmemo]. }
    destruct (fst (read_bytes legacy (memo_view_g s) buffer a)) as [p|e].
    + destruct (alloc_tree (pose_tree p) h1) as [ap h2] eqn:Hal2. cbn [snd].
      destruct HI1 as [Ts1 [Ss1 [HLa [NDa [HDa HMa]]]]].
      exact (proj1 (ginv_append {| gheap := h1; gmem := Some gm; ghanded := ghanded s |} Ts1 Ss1 _ ap h2 HLa NDa HDa HMa (depth_pose_tree p) Hal2)).
    + exact HI1.
Qed.

(* the two endings of a read keep the invariant *)
Lemma ginv_hit s res : GInv s -> GInv (snd (hit_g s res)).
Proof.
  intros HI. pose proof (memo_view_g_inv s HI) as [Hok Hm]. unfold hit_g.
  destruct res as [p|e]; [|exact HI].
  destruct (gmem s) as [gc|] eqn:Eg; [|exact HI].
  destruct (Hm gc eq_refl) as [hd [Ts [Ss [St [Hv [Hr [HL [HO [ND HD]]]]]]]]]. rewrite Hr.
  destruct (alloc_tree (VNode [] [header_tree hd; body_tree (p_body p)]) (gheap s)) as [ap h1] eqn:Hal. cbn [snd].
  destruct HI as [Ts0 [Ss0 [HL0 [ND0 [HD0 HM0]]]]].
  assert (Hdp : (depth (VNode [] [header_tree hd; body_tree (p_body p)]) <= 5)%nat).
  { cbn [depth fold_right]. pose proof (depth_header_tree hd) as H4. pose proof (depth_body_tree (p_body p)) as H2.
    apply le_n_S. apply Nat.max_lub; [etransitivity; [exact H4|repeat constructor]|apply Nat.max_lub; [etransitivity; [exact H2|repeat constructor]|apply Nat.le_0_l]]. }
  pose proof (ginv_append s Ts0 Ss0 _ ap h1 HL0 ND0 HD0 HM0 Hdp Hal) as [HI' _]. rewrite Eg in HI'. exact HI'.
Qed.
Lemma ginv_miss s h e slice res : GInv s ->
  MemoOK (Some {| m_start := 0; m_end := e; m_slice := slice; m_header := h |}) -> GInv (snd (miss_g s h e slice res)).
Proof.
  intros HI Hmemo. unfold miss_g.
  destruct (alloc_tree (header_tree h) (gheap s)) as [am h1] eqn:Hal1.
  assert (Hh : exists Ts Ss, OwnsL (gheap s) (ghanded s) Ts Ss /\ NoDup (concat Ss) /\ Forall (fun t => (depth t <= 5)%nat) Ts).
  { destruct HI as [Ts0 [Ss0 [HL0 [ND0 [HD0 _]]]]]. unfold roots in HL0.
    destruct (ownsL_app_inv _ _ _ _ _ HL0) as [T1 [T2 [S1 [S2 [-> [-> [_ H2]]]]]]].
    exists T2, S2. split; [exact H2|]. rewrite concat_app in ND0. split; [eapply NoDup_app_r; exact ND0|].
    apply Forall_app in HD0. exact (proj2 HD0). }
  destruct Hh as [Ts [Ss [HL [ND HD]]]].
  destruct (ownsL_alloc _ _ _ _ _ _ _ HL ND Hal1) as [Sm [HL1 [HOm [NDm [FRm [_ N2]]]]]].
  set (gm := {| gm_start := 0; gm_end := e; gm_slice := slice; gm_addr := am |}).
  assert (HI1 : GInv {| gheap := h1; gmem := Some gm; ghanded := ghanded s |}).
  { exists (header_tree h :: Ts), (Sm :: Ss). unfold roots, memo_root, MemoG. cbn [gheap gmem ghanded gm_addr gm app].
    split; [constructor; assumption|]. split; [exact N2|].
    split; [constructor; [pose proof (depth_header_tree h); lia|exact HD]|]. exists h. split; [reflexivity|exact Hmemo]. }
  destruct res as [p|er].
  - destruct (alloc_tree (pose_tree p) h1) as [ap h2] eqn:Hal2. cbn [snd].
    destruct HI1 as [Ts1 [Ss1 [HLa [NDa [HDa HMa]]]]].
    exact (proj1 (ginv_append {| gheap := h1; gmem := Some gm; ghanded := ghanded s |} Ts1 Ss1 _ ap h2 HLa NDa HDa HMa (depth_pose_tree p) Hal2)).
  - exact HI1.
Qed.
Lemma ginv_read_s s file a : GInv s -> GInv (snd (read_gs legacy s file a)).
Proof.
  intros HI. unfold read_gs. destruct (negb (any_arg a)); [apply ginv_read; exact HI|].
  destruct (expect file _ _) as [r1|e] eqn:Hex; [|exact HI].
  destruct (check_cache (memo_view_g s) (buf r1)) as [c|]; [apply ginv_hit; exact HI|].
  destruct (run_stream file rd_header r1) as [[h r2]|e] eqn:Hrs; [|exact HI].
  apply ginv_miss; [exact HI|]. exact (proj2 (proj2 (stream_header_bwd legacy file (memo_view_g s) r1 h r2 Hex Hrs))).
Qed.

Lemma ginv_step s o : GInv s -> GInv (fst (step_g legacy s o)).
Proof.
  intros HI. destruct o as [buffer a|k path g|k|k path i w|k path|file a]; cbn [step_g].
  6:{ pose proof (ginv_read_s s file a HI). destruct (read_gs legacy s file a). exact H. }
  - pose proof (ginv_read s buffer a HI). destruct (read_g legacy s buffer a). exact H.
  - destruct (nth_error (ghanded s) k) as [root|] eqn:Ek; [|exact HI].
    destruct (addr_at (gheap s) root path) as [x|] eqn:Ep; [|exact HI]. cbn [fst].
    destruct HI as [Ts [Ss [HL [ND [HD HM]]]]].
    exists (upd (length (memo_root s) + k) (tmap_at path (pay g)) Ts), Ss.
    assert (Hroots : roots {| gheap := set_pay x g (gheap s); gmem := gmem s; ghanded := ghanded s |} = roots s) by reflexivity.
    rewrite Hroots. cbn [gheap].
    split.
    { eapply owns_edit_list; [intros; apply owns_edit; assumption|exact HL|exact ND| |exact Ep]. rewrite nth_error_roots. exact Ek. }
    split; [exact ND|]. split.
    { clear -HD. revert Ts HD. generalize (length (memo_root s) + k)%nat as i. intros i Ts. revert i.
      induction Ts as [|t Ts IH]; intros [|i] HD; cbn [upd]; try constructor; inversion HD; subst; try assumption.
      - rewrite depth_tmap_at. assumption.
      - apply IH. assumption. }
    unfold MemoG in *. cbn [gmem]. unfold memo_root. destruct (gmem s) as [c|]; [|exact I].
    destruct HM as [hd [H0 Hok]]. exists hd. split; [|exact Hok]. destruct Ts; [discriminate|]. cbn [length Nat.add upd]. exact H0.
  - destruct (nth_error (ghanded s) k) as [root|] eqn:Ek; [|exact HI].
    destruct (read_tree FUEL (gheap s) root) as [t|] eqn:Er; [|exact HI].
    destruct (alloc_tree (copy_tree t) (gheap s)) as [ap h1] eqn:Hal. cbn [fst].
    destruct HI as [Ts [Ss [HL [ND [HD HM]]]]].
    assert (Hd : (depth (copy_tree t) <= 5)%nat); [rewrite depth_copy_tree|].
    { pose proof (nth_error_roots s k) as Hn. rewrite Ek in Hn.
      destruct (ownsL_nth _ _ _ _ HL _ _ Hn) as [t' [S' [Ht [_ HO]]]].
      assert (Hd' : (depth t' <= 5)%nat) by (rewrite Forall_forall in HD; apply HD; eapply nth_error_In; eauto).
      destruct (read_enough _ _ _ _ HO Hd') as [Hr' _]. congruence. }
    exact (proj1 (ginv_append s Ts Ss (copy_tree t) ap h1 HL ND HD HM Hd Hal)).
  - destruct (nth_error (ghanded s) k) as [root|] eqn:Ek; [|exact HI].
    destruct (addr_at (gheap s) root path) as [x|] eqn:Ep; [|exact HI]. cbn [fst].
    destruct (nth_error (gheap s) x) as [[p0 ptrs0]|] eqn:Ex.
    + destruct (owns_assign_child (gheap s) x i (leaf w) p0 ptrs0 Ex) as [_ [Hag Hed]].
      exact (proj1 (ginv_node_edit s k root path x _ p0 _ HI Ek Ep Hag Hed (maxd_assign_leaf i w))).
    + exfalso. destruct (ginv_pose s HI k root Ek) as [t [S [HO _]]].
      pose proof (proj1 (owns_lt (gheap s)) root t S HO x (path_in_footprint _ _ _ _ _ _ HO Ep)) as Hlt.
      apply nth_error_None in Ex. lia.
  - destruct (nth_error (ghanded s) k) as [root|] eqn:Ek; [|exact HI].
    destruct (addr_at (gheap s) root path) as [x|] eqn:Ep; [|exact HI]. cbn [fst].
    destruct (nth_error (gheap s) x) as [[p0 ptrs0]|] eqn:Ex.
    + destruct (owns_pop_child (gheap s) x p0 ptrs0 Ex) as [_ [Hag Hed]].
      exact (proj1 (ginv_node_edit s k root path x _ p0 _ HI Ek Ep Hag Hed maxd_removelast)).
    + exfalso. destruct (ginv_pose s HI k root Ek) as [t [S [HO _]]].
      pose proof (proj1 (owns_lt (gheap s)) root t S HO x (path_in_footprint _ _ _ _ _ _ HO Ep)) as Hlt.
      apply nth_error_None in Ex. lia.
Qed.
Lemma ginv_run ops : forall s, GInv s -> GInv (run_g legacy s ops).
Proof. induction ops as [|o ops IH]; intros s HI; [exact HI|]. cbn [run_g]. apply IH. now apply ginv_step. Qed.
End WithLegacy.

Section Theorems.
Variable legacy : vclass -> header -> rargs -> prog body.

(* no cell belongs to two poses, or to a pose and the memo *)
Theorem no_sharing_g s : GInv s ->
  (forall i j x, i <> j -> In x (cells_of s i) -> ~ In x (cells_of s j)) /\
  (forall j x, In x (memo_cells s) -> ~ In x (cells_of s j)).
Proof.
  intros [Ts [Ss [HL [ND [HD HM]]]]].
  assert (Hcell : forall k root, nth_error (ghanded s) k = Some root ->
            exists S, nth_error Ss (length (memo_root s) + k) = Some S /\ cells_of s k = S).
  { intros k root Hk. pose proof (nth_error_roots s k) as Hn. rewrite Hk in Hn.
    destruct (ownsL_nth _ _ _ _ HL _ _ Hn) as [t [S [Ht [HS HO]]]]. exists S. split; [exact HS|].
    exact (proj2 (view_of_owns s k root t S Hk HO (nth_error_Forall (fun t => (depth t <= 5)%nat) _ _ _ HD Ht))). }
  split.
  - intros i j x Hne Hi Hj. unfold cells_of in Hi, Hj.
    destruct (nth_error (ghanded s) i) as [ri|] eqn:Ei; [|contradiction].
    destruct (nth_error (ghanded s) j) as [rj|] eqn:Ej; [|contradiction].
    destruct (Hcell i ri Ei) as [Si [HSi Hci]]. destruct (Hcell j rj Ej) as [Sj [HSj Hcj]].
    unfold cells_of in Hci, Hcj. rewrite Ei in Hci. rewrite Ej in Hcj. rewrite Hci in Hi. rewrite Hcj in Hj.
    eapply (NoDup_concat_disjoint Ss ND (length (memo_root s) + i) (length (memo_root s) + j)); eauto. lia.
  - intros j x Hm Hj. unfold memo_cells in Hm. unfold cells_of in Hj. unfold MemoG, roots, memo_root in *.
    destruct (gmem s) as [c|] eqn:Eg; [|contradiction].
    destruct (nth_error (ghanded s) j) as [rj|] eqn:Ej; [|contradiction].
    destruct (Hcell j rj Ej) as [Sj [HSj Hcj]]. unfold cells_of in Hcj. rewrite Ej in Hcj. rewrite Hcj in Hj.
    destruct HM as [hd [H0 _]]. cbn [app] in HL. inversion HL as [|a0 t0 S0 ptrs kids fps HO HL']; subst.
    cbn in H0. injection H0 as ->.
    destruct (read_enough _ _ _ _ HO ltac:(pose proof (depth_header_tree hd); lia)) as [_ Hf]. rewrite Hf in Hm.
    cbn [length Nat.add] in HSj.
    exact (NoDup_concat_disjoint (S0 :: fps) ND 0%nat (S j) S0 _ x eq_refl HSj ltac:(discriminate) Hm Hj).
Qed.

(* a read hands out a new Pose object holding exactly the pose a fresh process reads; everything handed out before keeps its
   value and its cells *)
Theorem read_g_value s buffer a : GInv s ->
  let r := read_g legacy s buffer a in
  match fst (read_bytes legacy None buffer a) with
  | Ok p => exists ap, fst r = Ok ap /\ ghanded (snd r) = ghanded s ++ [ap] /\ pose_at (snd r) (length (ghanded s)) = Some p
  | Err e => fst r = Err e /\ ghanded (snd r) = ghanded s
  end.
Proof.
  intros HI r. subst r. rewrite <- (read_value legacy s buffer a HI).
  pose proof (memo_view_g_inv s HI) as [Hok Hm]. unfold read_g.
  destruct (check_cache (memo_view_g s) buffer) as [c|] eqn:Hc.
  - destruct (fst (read_bytes legacy (memo_view_g s) buffer a)) as [p|e] eqn:Hrb; [|split; reflexivity].
    destruct (check_cache_hit _ _ _ Hok Hc) as [Hmv _].
    assert (Hph : p_header p = m_header c).
    { unfold read_bytes in Hrb. rewrite Hc in Hrb. cbn [fst] in Hrb.
      destruct (run_plain (read_body legacy (m_header c) a) {| pbuf := buffer; poff := m_end c |}) as [[b rr]|e]; cbn in Hrb; [|discriminate].
      injection Hrb as <-. reflexivity. }
    destruct (gmem s) as [gc|] eqn:Eg.
    2:{ unfold memo_view_g in Hmv. rewrite Eg in Hmv. discriminate. }
    destruct (Hm gc eq_refl) as [hd [Ts [Ss [St [Hv [Hr [HL [HO [ND HD]]]]]]]]]. rewrite Hr.
    assert (Hhd : m_header c = hd) by (rewrite Hv in Hmv; injection Hmv as <-; reflexivity).
    destruct (alloc_tree (VNode [] [header_tree hd; body_tree (p_body p)]) (gheap s)) as [ap h1] eqn:Hal. cbn [fst snd ghanded].
    exists ap. split; [reflexivity|]. split; [reflexivity|].
    destruct HI as [Ts0 [Ss0 [HL0 [ND0 [HD0 HM0]]]]].
    assert (Hdp : (depth (VNode [] [header_tree hd; body_tree (p_body p)]) <= 5)%nat).
    { cbn [depth fold_right]. pose proof (depth_header_tree hd) as H4. pose proof (depth_body_tree (p_body p)) as H2.
      apply le_n_S. apply Nat.max_lub; [etransitivity; [exact H4|repeat constructor]|apply Nat.max_lub; [etransitivity; [exact H2|repeat constructor]|apply Nat.le_0_l]]. }
    destruct (ginv_append s Ts0 Ss0 _ ap h1 HL0 ND0 HD0 HM0 Hdp Hal) as [_ [S [HOp _]]].
    assert (Hk : nth_error (ghanded {| gheap := h1; gmem := Some gc; ghanded := ghanded s ++ [ap] |}) (length (ghanded s)) = Some ap).
    { cbn [ghanded]. rewrite nth_error_app2 by lia. rewrite Nat.sub_diag. reflexivity. }
    rewrite (proj1 (view_of_owns _ _ _ _ _ Hk HOp Hdp)).
    replace (VNode [] [header_tree hd; body_tree (p_body p)]) with (pose_tree p) by (unfold pose_tree; rewrite Hph, Hhd; reflexivity).
    apply pose_of_pose_tree.
  - destruct (run_plain rd_header {| pbuf := buffer; poff := 0 |}) as [[h r]|e] eqn:Hr.
    2:{ unfold read_bytes. rewrite Hc, Hr. split; reflexivity. }
    destruct (alloc_tree (header_tree h) (gheap s)) as [am h1] eqn:Hal1.
    destruct (fst (read_bytes legacy (memo_view_g s) buffer a)) as [p|e] eqn:Hrb; [|split; reflexivity].
    destruct (alloc_tree (pose_tree p) h1) as [ap h2] eqn:Hal2. cbn [fst snd ghanded].
    exists ap. split; [reflexivity|]. split; [reflexivity|].
    destruct (alloc_owns _ _ _ _ Hal2) as [e2 [S2 [-> [HO2 _]]]].
    set (s2 := {| gheap := h1 ++ e2; gmem := _; ghanded := ghanded s ++ [ap] |}).
    assert (Hk : nth_error (ghanded s2) (length (ghanded s)) = Some ap).
    { cbn [ghanded s2]. rewrite nth_error_app2 by lia. rewrite Nat.sub_diag. reflexivity. }
    rewrite (proj1 (view_of_owns s2 _ _ _ _ Hk HO2 (depth_pose_tree p))). apply pose_of_pose_tree.
Qed.

Theorem read_g_keeps_others s buffer a : GInv s -> forall j, (j < length (ghanded s))%nat ->
  pose_at (snd (read_g legacy s buffer a)) j = pose_at s j /\ cells_of (snd (read_g legacy s buffer a)) j = cells_of s j.
Proof.
  intros HI j Hj. destruct (nth_error (ghanded s) j) as [root|] eqn:Ej; [|apply nth_error_None in Ej; lia].
  destruct (ginv_pose s HI j root Ej) as [t [S [HO Hd]]].
  destruct (view_of_owns s j root t S Ej HO Hd) as [-> ->].
  assert (Hgen : forall s', (exists e, gheap s' = gheap s ++ e) -> nth_error (ghanded s') j = Some root ->
            pose_at s' j = pose_of_tree t /\ cells_of s' j = S).
  { intros s' [e He] Hk. apply (view_of_owns s' j root t S Hk); [rewrite He; apply owns_ext; exact HO|exact Hd]. }
  unfold read_g.
  destruct (check_cache (memo_view_g s) buffer) as [c|].
  - destruct (fst (read_bytes legacy (memo_view_g s) buffer a)) as [p|e]; [|apply Hgen; [exists []; now rewrite app_nil_r|exact Ej]].
    destruct (gmem s) as [gc|]; [|apply Hgen; [exists []; now rewrite app_nil_r|exact Ej]].
    destruct (read_tree FUEL (gheap s) (gm_addr gc)) as [tm|]; [|apply Hgen; [exists []; now rewrite app_nil_r|exact Ej]].
    destruct (alloc_tree _ (gheap s)) as [ap h1] eqn:Hal. destruct (alloc_owns _ _ _ _ Hal) as [e1 [_ [-> _]]].
    apply Hgen; [exists e1; reflexivity|]. cbn [snd ghanded]. rewrite nth_error_app1 by lia. exact Ej.
  - destruct (run_plain rd_header {| pbuf := buffer; poff := 0 |}) as [[h r]|e]; [|apply Hgen; [exists []; now rewrite app_nil_r|exact Ej]].
    destruct (alloc_tree (header_tree h) (gheap s)) as [am h1] eqn:Hal1. destruct (alloc_owns _ _ _ _ Hal1) as [e1 [_ [-> _]]].
    destruct (fst (read_bytes legacy (memo_view_g s) buffer a)) as [p|e].
    + destruct (alloc_tree (pose_tree p) (gheap s ++ e1)) as [ap h2] eqn:Hal2. destruct (alloc_owns _ _ _ _ Hal2) as [e2 [_ [-> _]]].
      apply Hgen; [exists (e1 ++ e2); cbn [snd gheap]; now rewrite app_assoc|]. cbn [snd ghanded]. rewrite nth_error_app1 by lia. exact Ej.
    + apply Hgen; [exists e1; reflexivity|exact Ej].
Qed.

(* ---- stream reads ---- *)
Lemma hit_value s p c : GInv s -> memo_view_g s = Some c -> p_header p = m_header c ->
  let r := hit_g s (Ok p) in
  exists ap, fst r = Ok ap /\ ghanded (snd r) = ghanded s ++ [ap] /\ pose_at (snd r) (length (ghanded s)) = Some p.
Proof.
  intros HI Hmv Hph r. subst r. pose proof (memo_view_g_inv s HI) as [Hok Hm]. unfold hit_g.
  destruct (gmem s) as [gc|] eqn:Eg.
  2:{ unfold memo_view_g in Hmv. rewrite Eg in Hmv. discriminate. }
  destruct (Hm gc eq_refl) as [hd [Ts [Ss [St [Hv [Hr [HL [HO [ND HD]]]]]]]]]. rewrite Hr.
  assert (Hhd : m_header c = hd) by (rewrite Hv in Hmv; injection Hmv as <-; reflexivity).
  destruct (alloc_tree (VNode [] [header_tree hd; body_tree (p_body p)]) (gheap s)) as [ap h1] eqn:Hal. cbn [fst snd ghanded].
  exists ap. split; [reflexivity|]. split; [reflexivity|].
  destruct HI as [Ts0 [Ss0 [HL0 [ND0 [HD0 HM0]]]]].
  assert (Hdp : (depth (VNode [] [header_tree hd; body_tree (p_body p)]) <= 5)%nat).
  { cbn [depth fold_right]. pose proof (depth_header_tree hd) as H4. pose proof (depth_body_tree (p_body p)) as H2.
    apply le_n_S. apply Nat.max_lub; [etransitivity; [exact H4|repeat constructor]|apply Nat.max_lub; [etransitivity; [exact H2|repeat constructor]|apply Nat.le_0_l]]. }
  destruct (ginv_append s Ts0 Ss0 _ ap h1 HL0 ND0 HD0 HM0 Hdp Hal) as [_ [S [HOp _]]].
  assert (Hk : nth_error (ghanded {| gheap := h1; gmem := Some gc; ghanded := ghanded s ++ [ap] |}) (length (ghanded s)) = Some ap).
  { cbn [ghanded]. rewrite nth_error_app2 by lia. rewrite Nat.sub_diag. reflexivity. }
  rewrite (proj1 (view_of_owns _ _ _ _ _ Hk HOp Hdp)).
  replace (VNode [] [header_tree hd; body_tree (p_body p)]) with (pose_tree p) by (unfold pose_tree; rewrite Hph, Hhd; reflexivity).
  apply pose_of_pose_tree.
Qed.
Lemma miss_value s h e slice p :
  let r := miss_g s h e slice (Ok p) in
  exists ap, fst r = Ok ap /\ ghanded (snd r) = ghanded s ++ [ap] /\ pose_at (snd r) (length (ghanded s)) = Some p.
Proof.
  intros r. subst r. unfold miss_g.
  destruct (alloc_tree (header_tree h) (gheap s)) as [am h1] eqn:Hal1.
  destruct (alloc_tree (pose_tree p) h1) as [ap h2] eqn:Hal2. cbn [fst snd ghanded].
  exists ap. split; [reflexivity|]. split; [reflexivity|].
  destruct (alloc_owns _ _ _ _ Hal2) as [e2 [S2 [-> [HO2 _]]]].
  set (s2 := {| gheap := h1 ++ e2; gmem := _; ghanded := ghanded s ++ [ap] |}).
  assert (Hk : nth_error (ghanded s2) (length (ghanded s)) = Some ap).
  { cbn [ghanded s2]. rewrite nth_error_app2 by lia. rewrite Nat.sub_diag. reflexivity. }
  rewrite (proj1 (view_of_owns s2 _ _ _ _ Hk HO2 (depth_pose_tree p))). apply pose_of_pose_tree.
Qed.
Lemma keeps_gen s j root t S : nth_error (ghanded s) j = Some root -> Owns (gheap s) root t S -> (depth t <= 5)%nat ->
  forall s', (exists e, gheap s' = gheap s ++ e) -> nth_error (ghanded s') j = Some root ->
  pose_at s' j = pose_of_tree t /\ cells_of s' j = S.
Proof. intros Ej HO Hd s' [e He] Hk. apply (view_of_owns s' j root t S Hk); [rewrite He; apply owns_ext; exact HO|exact Hd]. Qed.
Lemma keeps_hit s res j : GInv s -> (j < length (ghanded s))%nat ->
  pose_at (snd (hit_g s res)) j = pose_at s j /\ cells_of (snd (hit_g s res)) j = cells_of s j.
Proof.
  intros HI Hj. destruct (nth_error (ghanded s) j) as [root|] eqn:Ej; [|apply nth_error_None in Ej; lia].
  destruct (ginv_pose s HI j root Ej) as [t [S [HO Hd]]].
  destruct (view_of_owns s j root t S Ej HO Hd) as [-> ->].
  pose proof (keeps_gen s j root t S Ej HO Hd) as Hgen. unfold hit_g.
  destruct res as [p|e]; [|apply Hgen; [exists []; now rewrite app_nil_r|exact Ej]].
  destruct (gmem s) as [gc|]; [|apply Hgen; [exists []; now rewrite app_nil_r|exact Ej]].
  destruct (read_tree FUEL (gheap s) (gm_addr gc)) as [tm|]; [|apply Hgen; [exists []; now rewrite app_nil_r|exact Ej]].
  destruct (alloc_tree _ (gheap s)) as [ap h1] eqn:Hal. destruct (alloc_owns _ _ _ _ Hal) as [e1 [_ [-> _]]].
  apply Hgen; [exists e1; reflexivity|]. cbn [snd ghanded]. rewrite nth_error_app1 by lia. exact Ej.
Qed.
Lemma keeps_miss s h e slice res j : GInv s -> (j < length (ghanded s))%nat ->
  pose_at (snd (miss_g s h e slice res)) j = pose_at s j /\ cells_of (snd (miss_g s h e slice res)) j = cells_of s j.
Proof.
  intros HI Hj. destruct (nth_error (ghanded s) j) as [root|] eqn:Ej; [|apply nth_error_None in Ej; lia].
  destruct (ginv_pose s HI j root Ej) as [t [S [HO Hd]]].
  destruct (view_of_owns s j root t S Ej HO Hd) as [-> ->].
  pose proof (keeps_gen s j root t S Ej HO Hd) as Hgen. unfold miss_g.
  destruct (alloc_tree (header_tree h) (gheap s)) as [am h1] eqn:Hal1. destruct (alloc_owns _ _ _ _ Hal1) as [e1 [_ [-> _]]].
  destruct res as [p|er].
  - destruct (alloc_tree (pose_tree p) (gheap s ++ e1)) as [ap h2] eqn:Hal2. destruct (alloc_owns _ _ _ _ Hal2) as [e2 [_ [-> _]]].
    apply Hgen; [exists (e1 ++ e2); cbn [snd gheap]; now rewrite app_assoc|]. cbn [snd ghanded]. rewrite nth_error_app1 by lia. exact Ej.
  - apply Hgen; [exists e1; reflexivity|exact Ej].
Qed.

(* the branch structure of PoseRead.read_stream, as read_gs follows it *)
Lemma read_stream_shape m file a : any_arg a = true ->
  match expect file (prefetch_len m) {| buf := []; off := 0; skipped := 0; pulled := 0 |} with
  | Err e => fst (fst (read_stream legacy m file a)) = Err e
  | Ok r1 =>
      match check_cache m (buf r1) with
      | Some c => forall p, fst (fst (read_stream legacy m file a)) = Ok p -> p_header p = m_header c
      | None => match run_stream file rd_header r1 with
                | Err e => fst (fst (read_stream legacy m file a)) = Err e
                | Ok _ => True
                end
      end
  end.
Proof.
  intros Ha. unfold read_stream. rewrite Ha. cbn [negb].
  destruct (expect file _ _) as [r1|e]; [|reflexivity].
  destruct (check_cache m (buf r1)) as [c|].
  - intros p. destruct (run_stream file (read_body legacy (m_header c) a) _) as [[b r3]|e]; cbn [fst]; [|discriminate].
    intros [= <-]. reflexivity.
  - destruct (run_stream file rd_header r1) as [[h r2]|e]; [exact I|reflexivity].
Qed.

(* a windowed stream read hands out a new Pose object holding exactly the pose the same read returns in a fresh process (or
   raises where that one raises); everything handed out before keeps its value and its cells *)
Theorem read_gs_value s file a : GInv s -> any_arg a = true -> (forall h, v2prog (read_body legacy h a)) ->
  let r := read_gs legacy s file a in
  match fst (fst (read_stream legacy None file a)) with
  | Ok p => exists ap, fst r = Ok ap /\ ghanded (snd r) = ghanded s ++ [ap] /\ pose_at (snd r) (length (ghanded s)) = Some p
  | Err _ => (exists e, fst r = Err e) /\ ghanded (snd r) = ghanded s
  end.
Proof.
  intros HI Ha Hv r. subst r.
  pose proof (memo_view_g_inv s HI) as [Hok _].
  pose proof (read_stream_memo_independent legacy (memo_view_g s) file a Hok Ha Hv) as Hso.
  pose proof (read_stream_shape (memo_view_g s) file a Ha) as Hsh.
  unfold read_gs. rewrite Ha. cbn [negb].
  set (res := fst (fst (read_stream legacy (memo_view_g s) file a))) in *.
  set (res0 := fst (fst (read_stream legacy None file a))) in *.
  assert (Herr : forall e st, res = Err e -> ghanded st = ghanded s ->
            match res0 with
            | Ok p => exists ap, fst (@Err nat e, st) = Ok ap /\ ghanded (snd (@Err nat e, st)) = ghanded s ++ [ap] /\
                                 pose_at (snd (@Err nat e, st)) (length (ghanded s)) = Some p
            | Err _ => (exists e', fst (@Err nat e, st) = Err e') /\ ghanded (snd (@Err nat e, st)) = ghanded s
            end).
  { intros e st He Hst. rewrite He in Hso. destruct res0 as [p0|e0]; [contradiction|]. split; [exists e; reflexivity|exact Hst]. }
  destruct (expect file _ _) as [r1|e]; [|exact (Herr e s Hsh eq_refl)].
  destruct (check_cache (memo_view_g s) (buf r1)) as [c|] eqn:Hc.
  - destruct res as [p|e] eqn:Er.
    + destruct res0 as [p0|e0]; [|contradiction]. cbn in Hso. subst p0.
      destruct (check_cache_hit _ _ _ Hok Hc) as [Hmv _].
      exact (hit_value s p c HI Hmv (Hsh p eq_refl)).
    + unfold hit_g. exact (Herr e s eq_refl eq_refl).
  - destruct (run_stream file rd_header r1) as [[h r2]|e]; [|exact (Herr e s Hsh eq_refl)].
    destruct res as [p|e] eqn:Er.
    + destruct res0 as [p0|e0]; [|contradiction]. cbn in Hso. subst p0. apply miss_value.
    + unfold miss_g. destruct (alloc_tree (header_tree h) (gheap s)) as [am h1]. apply (Herr e); reflexivity.
Qed.
Theorem read_gs_keeps_others s file a : GInv s -> forall j, (j < length (ghanded s))%nat ->
  pose_at (snd (read_gs legacy s file a)) j = pose_at s j /\ cells_of (snd (read_gs legacy s file a)) j = cells_of s j.
Proof.
  intros HI j Hj. unfold read_gs. destruct (negb (any_arg a)); [apply read_g_keeps_others; assumption|].
  destruct (expect file _ _) as [r1|e]; [|split; reflexivity].
  destruct (check_cache (memo_view_g s) (buf r1)) as [c|]; [apply keeps_hit; assumption|].
  destruct (run_stream file rd_header r1) as [[h r2]|e]; [|split; reflexivity].
  apply keeps_miss; assumption.
Qed.

(* an in-place edit through the k-th pose changes one node of that pose's tree; every other pose handed out, and what the
   memo holds, stay exactly what they were *)
Theorem edit_is_local s k path g : GInv s ->
  let s' := fst (step_g legacy s (GEdit k path g)) in
  (forall j, j <> k -> pose_at s' j = pose_at s j /\ cells_of s' j = cells_of s j) /\
  memo_view_g s' = memo_view_g s /\ memo_cells s' = memo_cells s /\ cells_of s' k = cells_of s k.
Proof.
  intros HI s'. subst s'. cbn [step_g].
  destruct (nth_error (ghanded s) k) as [root|] eqn:Ek; [|repeat split; reflexivity].
  destruct (addr_at (gheap s) root path) as [x|] eqn:Ep; [|repeat split; reflexivity]. cbn [fst].
  set (s' := {| gheap := set_pay x g (gheap s); gmem := gmem s; ghanded := ghanded s |}).
  destruct HI as [Ts [Ss [HL [ND [HD HM]]]]].
  assert (HL' : OwnsL (gheap s') (roots s) (upd (length (memo_root s) + k) (tmap_at path (pay g)) Ts) Ss).
  { eapply owns_edit_list; [intros; apply owns_edit; assumption|exact HL|exact ND| |exact Ep]. rewrite nth_error_roots. exact Ek. }
  assert (Hpose : forall j root_j, nth_error (ghanded s) j = Some root_j ->
            exists t S, nth_error Ts (length (memo_root s) + j) = Some t /\ Owns (gheap s) root_j t S /\
                        Owns (gheap s') root_j (if Nat.eqb j k then tmap_at path (pay g) t else t) S /\ (depth t <= 5)%nat).
  { intros j rj Ej. pose proof (nth_error_roots s j) as Hn. rewrite Ej in Hn.
    destruct (ownsL_nth _ _ _ _ HL _ _ Hn) as [t [S [Ht [HS HO]]]].
    destruct (ownsL_nth _ _ _ _ HL' _ _ Hn) as [t' [S' [Ht' [HS' HO']]]].
    assert (S' = S) by congruence. subst S'. exists t, S. split; [exact Ht|]. split; [exact HO|]. split; [|exact (nth_error_Forall (fun t => (depth t <= 5)%nat) _ _ _ HD Ht)].
    destruct (Nat.eqb_spec j k) as [->|Hne].
    - rewrite nth_error_upd_map, Ht in Ht'. cbn in Ht'. injection Ht' as <-. exact HO'.
    - rewrite nth_error_upd_other in Ht' by lia. assert (t' = t) by congruence. subst t'. exact HO'. }
  split; [|split; [|split]].
  - intros j Hne. destruct (nth_error (ghanded s) j) as [rj|] eqn:Ej.
    + destruct (Hpose j rj Ej) as [t [S [_ [HO [HO' Hd]]]]]. apply Nat.eqb_neq in Hne. rewrite Hne in HO'.
      destruct (view_of_owns s j rj t S Ej HO Hd) as [-> ->]. exact (view_of_owns s' j rj t S Ej HO' Hd).
    + unfold pose_at, cells_of. cbn [ghanded s']. rewrite Ej. split; reflexivity.
  - unfold memo_view_g, header_at, MemoG, roots, memo_root in *. unfold s' in *. cbn [gmem gheap ghanded] in *.
    destruct (gmem s) as [c|] eqn:Eg; [|reflexivity]. destruct HM as [hd [H0 _]].
    cbn [app length Nat.add upd] in HL, HL'. inversion HL as [|a0 t0 S0 ptrs kids fps HO HLr]; subst. cbn in H0. injection H0 as ->.
    cbn [upd] in HL'. inversion HL' as [|a1 t1 S1 ptrs1 kids1 fps1 HO1 HLr1]; subst.
    pose proof (depth_header_tree hd) as Hd4.
    destruct (read_enough _ _ _ _ HO ltac:(lia)) as [-> _]. destruct (read_enough _ _ _ _ HO1 ltac:(lia)) as [-> _]. reflexivity.
  - unfold memo_cells, MemoG, roots, memo_root in *. unfold s' in *. cbn [gmem gheap ghanded] in *.
    destruct (gmem s) as [c|] eqn:Eg; [|reflexivity]. destruct HM as [hd [H0 _]].
    cbn [app length Nat.add upd] in HL, HL'. inversion HL as [|a0 t0 S0 ptrs kids fps HO HLr]; subst. cbn in H0. injection H0 as ->.
    cbn [upd] in HL'. inversion HL' as [|a1 t1 S1 ptrs1 kids1 fps1 HO1 HLr1]; subst.
    pose proof (depth_header_tree hd) as Hd4.
    destruct (read_enough _ _ _ _ HO ltac:(lia)) as [_ ->]. destruct (read_enough _ _ _ _ HO1 ltac:(lia)) as [_ ->]. reflexivity.
  - destruct (Hpose k root Ek) as [t [S [_ [HO [HO' Hd]]]]]. rewrite Nat.eqb_refl in HO'.
    rewrite (proj2 (view_of_owns s k root t S Ek HO Hd)).
    apply (view_of_owns s' k root _ S Ek HO'). rewrite depth_tmap_at. exact Hd.
Qed.

(* copy(): a new Pose object holding the source's header and values, the mask re-derived as the body constructor does (equal to
   the source's whenever the source marks its zero-confidence points missing); by no_sharing_g it shares no cell with its source *)
Theorem copy_is_equal s k root : GInv s -> nth_error (ghanded s) k = Some root ->
  let s' := fst (step_g legacy s (GCopy k)) in
  ghanded s' = ghanded s ++ [length (gheap s') - 1]%nat /\ pose_at s' (length (ghanded s)) = option_map copy_pose (pose_at s k) /\
  (forall j, (j < length (ghanded s))%nat -> pose_at s' j = pose_at s j /\ cells_of s' j = cells_of s j).
Proof.
  intros HI Ek s'. subst s'. cbn [step_g]. rewrite Ek.
  destruct (ginv_pose s HI k root Ek) as [t [S [HO Hd]]]. destruct (read_enough _ _ _ _ HO Hd) as [Hr _]. rewrite Hr.
  destruct (alloc_tree (copy_tree t) (gheap s)) as [ap h1] eqn:Hal. cbn [fst ghanded gheap].
  destruct (alloc_owns _ _ _ _ Hal) as [e1 [S1 [-> [HO1 [_ FR]]]]].
  set (s' := {| gheap := gheap s ++ e1; gmem := gmem s; ghanded := ghanded s ++ [ap] |}).
  assert (Hap : ap = (length (gheap s ++ e1) - 1)%nat).
  { destruct (copy_tree t) as [p kids]. rewrite alloc_tree_node in Hal. destruct (alloc_list kids (gheap s)) as [ptrs h0]. injection Hal as <- Hh.
    rewrite <- Hh, app_length. cbn [length]. lia. }
  split; [rewrite Hap; reflexivity|]. split.
  - assert (Hk : nth_error (ghanded s') (length (ghanded s)) = Some ap).
    { cbn [ghanded s']. rewrite nth_error_app2 by lia. rewrite Nat.sub_diag. reflexivity. }
    assert (Hdc : (depth (copy_tree t) <= 5)%nat) by (rewrite depth_copy_tree; exact Hd).
    rewrite (proj1 (view_of_owns s' _ _ _ _ Hk HO1 Hdc)). rewrite (proj1 (view_of_owns s k root t S Ek HO Hd)). apply pose_of_copy_tree.
  - intros j Hj. destruct (nth_error (ghanded s) j) as [rj|] eqn:Ej; [|apply nth_error_None in Ej; lia].
    destruct (ginv_pose s HI j rj Ej) as [tj [Sj [HOj Hdj]]].
    destruct (view_of_owns s j rj tj Sj Ej HOj Hdj) as [-> ->].
    apply (view_of_owns s' j rj tj Sj); [cbn [ghanded s']; rewrite nth_error_app1 by lia; exact Ej|apply owns_ext; exact HOj|exact Hdj].
Qed.

(* the whole statement: after ANY history of reads, in-place edits of earlier results and copies, a read returns the pose of a
   fresh process, and no two results (nor a result and the memo) share a cell *)
Theorem history_independent_g ops buffer a :
  let s := run_g legacy ginit ops in
  let r := read_g legacy s buffer a in
  match fst (read_bytes legacy None buffer a) with
  | Ok p => exists ap, fst r = Ok ap /\ pose_at (snd r) (length (ghanded s)) = Some p
  | Err e => fst r = Err e
  end.
Proof.
  intros s r. pose proof (read_g_value s buffer a (ginv_run legacy ops ginit ginv_init)) as H. cbv zeta in H.
  destruct (fst (read_bytes legacy None buffer a)) as [p|e].
  - destruct H as [ap [H1 [_ H3]]]. exists ap. split; assumption.
  - exact (proj1 H).
Qed.
(* ... and the same for a windowed read of a seekable stream, after ANY history (which may itself contain stream reads): the
   pose the same stream read returns in a fresh process, or an exception where that one raises *)
Theorem history_independent_gs ops file a : any_arg a = true -> (forall h, v2prog (read_body legacy h a)) ->
  let s := run_g legacy ginit ops in
  let r := read_gs legacy s file a in
  match fst (fst (read_stream legacy None file a)) with
  | Ok p => exists ap, fst r = Ok ap /\ pose_at (snd r) (length (ghanded s)) = Some p
  | Err _ => exists e, fst r = Err e
  end.
Proof.
  intros Ha Hv s r. pose proof (read_gs_value s file a (ginv_run legacy ops ginit ginv_init) Ha Hv) as H. cbv zeta in H.
  destruct (fst (fst (read_stream legacy None file a))) as [p|e].
  - destruct H as [ap [H1 [_ H3]]]. exists ap. split; assumption.
  - exact (proj1 H).
Qed.
Theorem reachable_no_sharing ops :
  let s := run_g legacy ginit ops in
  (forall i j x, i <> j -> In x (cells_of s i) -> ~ In x (cells_of s j)) /\ (forall j x, In x (memo_cells s) -> ~ In x (cells_of s j)).
Proof. intros s. apply no_sharing_g. apply ginv_run. apply ginv_init. Qed.

(* structural edits are local as well: a newly built object assigned to an attribute of the k-th pose, or the last element popped
   from one of its lists, changes that node of that pose's tree and leaves every other pose and the memo exactly as they were *)
Theorem structural_edit_is_local s o : GInv s ->
  match o with GAssign _ _ _ _ | GPop _ _ => True | _ => False end ->
  let k := match o with GAssign k _ _ _ | GPop k _ => k | _ => 0%nat end in
  let s' := fst (step_g legacy s o) in
  (forall j, j <> k -> pose_at s' j = pose_at s j /\ cells_of s' j = cells_of s j) /\
  memo_view_g s' = memo_view_g s /\ memo_cells s' = memo_cells s.
Proof.
  intros HI Ho k s'. subst k s'. destruct o as [b a|k path g|k|k path i w|k path|f a]; try contradiction; cbn [step_g].
  - destruct (nth_error (ghanded s) k) as [root|] eqn:Ek; [|repeat split; reflexivity].
    destruct (addr_at (gheap s) root path) as [x|] eqn:Ep; [|repeat split; reflexivity]. cbn [fst].
    destruct (nth_error (gheap s) x) as [[p0 ptrs0]|] eqn:Ex.
    + destruct (owns_assign_child (gheap s) x i (leaf w) p0 ptrs0 Ex) as [_ [Hag Hed]].
      destruct (ginv_node_edit s k root path x _ p0 _ HI Ek Ep Hag Hed (maxd_assign_leaf i w)) as [_ [H1 [H2 [H3 _]]]].
      split; [exact H1|]. split; assumption.
    + exfalso. destruct (ginv_pose s HI k root Ek) as [t [S [HO _]]].
      pose proof (proj1 (owns_lt (gheap s)) root t S HO x (path_in_footprint _ _ _ _ _ _ HO Ep)) as Hlt.
      apply nth_error_None in Ex. lia.
  - destruct (nth_error (ghanded s) k) as [root|] eqn:Ek; [|repeat split; reflexivity].
    destruct (addr_at (gheap s) root path) as [x|] eqn:Ep; [|repeat split; reflexivity]. cbn [fst].
    destruct (nth_error (gheap s) x) as [[p0 ptrs0]|] eqn:Ex.
    + destruct (owns_pop_child (gheap s) x p0 ptrs0 Ex) as [_ [Hag Hed]].
      destruct (ginv_node_edit s k root path x _ p0 _ HI Ek Ep Hag Hed maxd_removelast) as [_ [H1 [H2 [H3 _]]]].
      split; [exact H1|]. split; assumption.
    + exfalso. destruct (ginv_pose s HI k root Ek) as [t [S [HO _]]].
      pose proof (proj1 (owns_lt (gheap s)) root t S HO x (path_in_footprint _ _ _ _ _ _ HO Ep)) as Hlt.
      apply nth_error_None in Ex. lia.
Qed.
End Theorems.

(* non-vacuity: a read, an in-place edit of the result's dimensions, a copy of the edited pose, a second read of the same bytes *)
Require Import C01_Examples.
Definition ex_file : bytes := match write_pose ex_pose with Ok b => b | Err _ => [] end.
Definition ex_ghistory : list gop :=
  [GRead ex_file no_args; GEdit 0 [0; 0]%nat (fun _ => [1; 2; 3]); GCopy 0; GRead ex_file no_args].
Definition ex_ghistory2 : list gop :=
  [GRead ex_file no_args; GAssign 0 [0]%nat 0 [9; 9; 9]; GPop 0 [0; 1]%nat; GCopy 0; GRead ex_file no_args].
Lemma ex_ghistory2_runs :
  let s := run_g no_legacy ginit ex_ghistory2 in
  length (ghanded s) = 3%nat /\
  option_map (fun p => (h_dims (p_header p), length (h_comps (p_header p)))) (pose_at s 0) = Some ((9, 9, 9), 1%nat) /\
  option_map (fun p => (h_dims (p_header p), length (h_comps (p_header p)))) (pose_at s 1) = Some ((9, 9, 9), 1%nat) /\
  pose_at s 2 = match fst (read_bytes no_legacy None ex_file no_args) with Ok p => Some p | Err _ => None end /\
  option_map (fun p => length (h_comps (p_header p))) (pose_at s 2) = Some 2%nat /\
  NoDup (memo_cells s ++ cells_of s 0 ++ cells_of s 1 ++ cells_of s 2).
Proof.
  vm_compute. repeat split; try reflexivity.
  repeat (constructor; [cbn; intuition discriminate|]). constructor.
Qed.
Lemma ex_ghistory_runs :
  let s := run_g no_legacy ginit ex_ghistory in
  length (ghanded s) = 3%nat /\
  option_map (fun p => h_dims (p_header p)) (pose_at s 0) = Some (1, 2, 3) /\          (* the edited pose *)
  option_map (fun p => h_dims (p_header p)) (pose_at s 1) = Some (1, 2, 3) /\          (* its copy *)
  pose_at s 2 = match fst (read_bytes no_legacy None ex_file no_args) with Ok p => Some p | Err _ => None end /\
  pose_at s 2 <> None /\ pose_at s 2 <> pose_at s 0 /\
  (length (cells_of s 0) = length (cells_of s 1) /\ length (cells_of s 1) = length (cells_of s 2) /\ (10 <= length (cells_of s 2))%nat) /\
  NoDup (memo_cells s ++ cells_of s 0 ++ cells_of s 1 ++ cells_of s 2).
Proof.
  vm_compute. repeat split; try reflexivity; try discriminate; try lia.
  repeat (constructor; [cbn; intuition discriminate|]). constructor.
Qed.

(* stream reads in a history: a windowed stream read, an in-place edit of its header, the same stream read again, a bytes read *)
Definition ex_win : rargs := {| a_sf := Some 0%Z; a_st := None; a_ef := Some 1%Z; a_et := None |}.
Definition ex_ghistory3 : list gop :=
  [GReadS ex_file ex_win; GEdit 0 [0; 0]%nat (fun _ => [1; 2; 3]); GReadS ex_file ex_win; GRead ex_file no_args].
Lemma ex_ghistory3_runs :
  let s := run_g no_legacy ginit ex_ghistory3 in
  length (ghanded s) = 3%nat /\
  option_map (fun p => h_dims (p_header p)) (pose_at s 0) = Some (1, 2, 3) /\
  pose_at s 1 = match fst (fst (read_stream no_legacy None ex_file ex_win)) with Ok p => Some p | Err _ => None end /\
  pose_at s 1 <> None /\ pose_at s 1 <> pose_at s 0 /\
  pose_at s 2 = match fst (read_bytes no_legacy None ex_file no_args) with Ok p => Some p | Err _ => None end /\
  NoDup (memo_cells s ++ cells_of s 0 ++ cells_of s 1 ++ cells_of s 2).
Proof.
  vm_compute. repeat split; try reflexivity; try discriminate.
  repeat (constructor; [cbn; intuition discriminate|]). constructor.
Qed.

(* the extracted runner threads exactly run_g's states: the theorems above speak about what it prints *)
Require Import Tree CodecTree C06_GraphRun.
Lemma run_flags_state legacy ops : forall s, snd (run_flags legacy s ops) = run_g legacy s ops.
Proof.
  induction ops as [|o ops IH]; intros s; [reflexivity|]. cbn [run_flags run_g].
  destruct (step_g legacy s o) as [s' r] eqn:E. cbn [fst]. specialize (IH s'). destruct (run_flags legacy s' ops) as [fl s'']. exact IH.
Qed.
