(* C09 - non-interference, continued: normalisation on a TensorFlow body (model/C09_TfNorm.v).
   MaskedTensor.mean / variance / std read the stored values only through zero_filled() and the mask, so they are
   functions of the visible part; everything else is arithmetic whose result is missing wherever an operand is. *)
From Coq Require Import List Arith Bool Lia.
Require Import Tensor Num Result C09_Masked C09_Ops C09_TfNorm C09_Core C09_NI C09_NI2.
Import ListNotations.

Section NI3.
Variable O : ops.
Notation T := (Num.T O).
Notation cell := (cell O).
Notation vis1 := (vis1 O).
Notation rd := (rd O).
Notation rdT := (rdT O).
Notation dcell := (dcell O).
Notation agree := (agree O).
Notation agree_l := (agree_l O).
Notation body := (body O).
Ltac split_body H := apply agree_body_iff in H; destruct H as [?Hd ?Hc].

(* ---- the masked tensor's statistics ------------------------------------------------------------------------ *)
Lemma VC1_tffixnan : VC1 O (tffixnan O).
Proof. intros c c' H. apply vis1_eq in H. destruct H as [Hm Hv]. apply vis1_eq. unfold tffixnan; cbn [fst snd].
  split; [exact Hm|]. intros Hf. now rewrite (Hv Hf). Qed.
(* mean: the sum runs over the zero-filled values, the count over the mask *)
Lemma VIL_tfmean : VIL O (tfmean O).
Proof. intros l l' H. unfold tfmean. now rewrite (map_VI1 O _ _ _ (VI1_tzero O) H), (VIL_count O _ _ H). Qed.
Lemma VIL_tfvariance : VIL O (tfvariance O).
Proof. intros l l' H. unfold tfvariance. rewrite (VIL_tfmean _ _ H). apply VIL_tfmean.
  apply agree_l_map; [apply VC1_tun|]. apply agree_l_map; [apply VC1_left, VC2_tbin|exact H]. Qed.
Lemma VIL_tfstd : VIL O (tfstd O).
Proof. intros l l' H. unfold tfstd. now rewrite (VIL_tfvariance _ _ H). Qed.
(* a statistic is missing exactly when its lane holds no valid cell *)
Lemma tfmean_missing l : snd (tfmean O l) = Nat.eqb (count O l) 0.
Proof. reflexivity. Qed.
Lemma count_deviations m l :
  count O (map (tun O (sqr O)) (map (fun c => tbin O (sub O) c m) l)) = if snd m then 0 else count O l.
Proof. unfold count. induction l as [|c l IH]; [now destruct (snd m)|]. cbn [map filter].
  change (snd (tun O (sqr O) (tbin O (sub O) c m))) with (snd c || snd m).
  destruct (snd c), (snd m); cbn [orb negb length] in *; now rewrite IH. Qed.
Lemma tfstd_missing l : snd (tfstd O l) = Nat.eqb (count O l) 0.
Proof. unfold tfstd, tfvariance, tun; cbn [snd]. rewrite tfmean_missing, count_deviations, tfmean_missing.
  destruct (Nat.eqb (count O l) 0) eqn:En; [reflexivity|exact En]. Qed.

(* ---- Pose.normalize ------------------------------------------------------------------------------------------ *)
Lemma tf_normalize_ni p1 p2 sf b b' : agree_body O b b' ->
  agree_body O (tf_normalize O p1 p2 sf b) (tf_normalize O p1 p2 sf b').
Proof. intros H. split_body H. unfold tf_normalize. rewrite <- (agree_shape O _ _ Hd), <- Hc.
  set (s := shape (bdat b)). set (D := dimn s 3). set (PF := dimn s 1 * dimn s 0).
  pose proof (point_block_agree O _ _ p1 Hd) as H1. pose proof (point_block_agree O _ _ p2 Hd) as H2.
  (* the centre is a function of the visible part *)
  assert (Hcen : red_lead O PF D (tfmean O) (ew1 O (tun O (fun x => div O x (two O)))
                   (ew O (tbin O (add O)) (point_block O (bdat b) p2) (point_block O (bdat b) p1))) =
                 red_lead O PF D (tfmean O) (ew1 O (tun O (fun x => div O x (two O)))
                   (ew O (tbin O (add O)) (point_block O (bdat b') p2) (point_block O (bdat b') p1)))).
  { apply red_lead_VIL; [apply VIL_tfmean|]. apply ew1_agree; [apply VC1_tun|].
    apply ew_agree; [apply VC2_tbin|exact H2|exact H1]. }
  rewrite <- Hcen. set (center := red_lead O PF D _ _).
  (* so is the mean distance *)
  assert (Hmd : tfmean O (ew1 O (tun O (sqrt O)) (red_last O PF D (tsum O)
                   (ew1 O (tun O (sqr O)) (ew O (tbin O (sub O)) (point_block O (bdat b) p1) (point_block O (bdat b) p2))))) =
                tfmean O (ew1 O (tun O (sqrt O)) (red_last O PF D (tsum O)
                   (ew1 O (tun O (sqr O)) (ew O (tbin O (sub O)) (point_block O (bdat b') p1) (point_block O (bdat b') p2)))))).
  { apply VIL_tfmean. apply ew1_agree; [apply VC1_tun|]. apply red_last_VCL; [apply VCL_tsum|].
    apply ew1_agree; [apply VC1_tun|]. apply ew_agree; [apply VC2_tbin|exact H1|exact H2]. }
  rewrite <- Hmd. apply agree_body_iff; cbn [bdat bconf]. split; [|reflexivity].
  apply agree_mkT. apply ew_scalar_agree; [apply VC2_tbin| |reflexivity].
  apply ew_trail_agree; [apply VC2_tbin|now apply agree_data|apply agree_l_refl]. Qed.

(* ---- Pose.normalize_distribution, with the returned (mu, std) ------------------------------------------------ *)
Lemma tf_normalize_distribution_ni lead b b' : agree_body O b b' ->
  agree_body O (fst (tf_normalize_distribution O lead b)) (fst (tf_normalize_distribution O lead b')) /\
  snd (tf_normalize_distribution O lead b) = snd (tf_normalize_distribution O lead b').
Proof. intros H. split_body H. unfold tf_normalize_distribution; cbn [fst snd]. rewrite <- (agree_shape O _ _ Hd), <- Hc.
  pose proof (agree_data O _ _ Hd) as Hl.
  rewrite <- (red_lead_VIL O _ _ _ _ _ VIL_tfmean Hl), <- (red_lead_VIL O _ _ _ _ _ VIL_tfstd Hl).
  split; [|reflexivity]. apply agree_body_iff; cbn [bdat bconf]. split; [|reflexivity]. apply agree_mkT.
  apply ew_trail_agree; [apply VC2_tbin| |apply agree_l_refl].
  apply ew_trail_agree; [apply VC2_tbin|exact Hl|apply agree_l_refl]. Qed.

(* ---- Pose.unnormalize_distribution ---------------------------------------------------------------------------- *)
Lemma t_unnormalize_distribution_ni mu sd b b' : agree_body O b b' ->
  agree_body O (t_unnormalize_distribution O mu sd b) (t_unnormalize_distribution O mu sd b').
Proof. intros H. split_body H. unfold t_unnormalize_distribution. rewrite <- (agree_shape O _ _ Hd), <- Hc.
  apply agree_body_iff; cbn [bdat bconf]. split; [|reflexivity]. apply agree_mkT.
  apply ew_trail_agree; [apply VC2_tbin| |apply agree_l_refl].
  apply ew_trail_agree; [apply VC2_tbin|now apply agree_data|apply agree_l_refl]. Qed.
(* masked operands: they may themselves carry garbage under their masks *)
Lemma t_unnormalize_distribution_masked_ni mu mu' sd sd' b b' : agree_l mu mu' -> agree_l sd sd' -> agree_body O b b' ->
  agree_body O (t_unnormalize_distribution_masked O mu sd b) (t_unnormalize_distribution_masked O mu' sd' b').
Proof. intros Hmu Hsd H. split_body H. unfold t_unnormalize_distribution_masked.
  rewrite <- (agree_shape O _ _ Hd), <- Hc, <- (agree_l_len O _ _ Hmu).
  apply agree_body_iff; cbn [bdat bconf]. split; [|reflexivity]. apply agree_mkT.
  apply ew_trail_agree; [apply VC2_tbin| |exact Hmu].
  apply ew_trail_agree; [apply VC2_tbin|now apply agree_data|exact Hsd]. Qed.

End NI3.
