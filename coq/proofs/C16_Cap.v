(* C16: the cap int(n * CAP) of the generic dropout leaves at least one frame, 0 <= cap n < n.
   CAP is the constant regenerated from pose_body.py (Gen_C16.dropout_cap_bits), so the sweep is re-run whenever
   the source constant changes.  Proved here for every n in 1 .. 2^16 by computation in the kernel's VM
   (binary64 arithmetic of Coq's SpecFloat, bit-exact); proofs/C16_CapAll.v removes the bound using Flocq. *)
From Coq Require Import ZArith List Bool Arith Lia SpecFloat.
Require Import Result F32 C16_Frames C16_Dropout C16_Run.
Local Open Scope Z_scope.

Definition cap_okZ (c : spec_float) (z : Z) : bool :=
  let f := sf64_of_Z z in
  if is_inf_sf f then false
  else match sf_trunc (sf64_mul f c) with Some k => (0 <=? k) && (k <? z) | None => false end.
Lemma cap_okZ_spec c n : cap_okb c n = cap_okZ c (Z.of_nat n).
Proof. unfold cap_okb, cap_okZ, cap_count, int_times_float. destruct (is_inf_sf _); cbn [rbind]; [reflexivity|].
  unfold py_int. destruct (sf_trunc _); reflexivity. Qed.
(* base .. base + 2^k - 1 *)
Fixpoint sweep (c : spec_float) (k : nat) (base : Z) : bool :=
  match k with
  | O => cap_okZ c base
  | S k' => sweep c k' base && sweep c k' (base + 2 ^ Z.of_nat k')
  end.
Lemma sweep_sound c k : forall base z, sweep c k base = true -> base <= z < base + 2 ^ Z.of_nat k -> cap_okZ c z = true.
Proof. induction k as [|k IH]; intros base z; cbn [sweep].
  - intros H Hz. replace z with base by (cbn in Hz; lia). exact H.
  - intros H Hz. apply andb_true_iff in H. destruct H as [H1 H2].
    rewrite Nat2Z.inj_succ, Z.pow_succ_r in Hz by lia.
    destruct (Z.lt_ge_cases z (base + 2 ^ Z.of_nat k)) as [Hlt|Hge].
    + apply (IH base); [exact H1|lia].
    + apply (IH (base + 2 ^ Z.of_nat k)); [exact H2|lia]. Qed.

Definition CAP_BOUND : Z := 65536.
Lemma cap_sweep : sweep cap_c 16 1 = true.
Proof. vm_cast_no_check (eq_refl true). Qed.
Lemma cap_ok_upto_bound n : (1 <= n)%nat -> Z.of_nat n <= CAP_BOUND -> cap_ok cap_c n.
Proof. intros H1 H2. apply cap_okb_spec. rewrite cap_okZ_spec.
  apply (sweep_sound cap_c 16 1); [exact cap_sweep|]. unfold CAP_BOUND in H2. cbn. lia. Qed.
Lemma keeps_one_upto_bound {A} be (b : body A) d s r kept :
  (1 <= frames b)%nat -> Z.of_nat (frames b) <= CAP_BOUND ->
  possible_draw cap_c (frames b) (fraction d) s -> dropout cap_c be b d s = Ok (r, kept) -> (1 <= length kept)%nat.
Proof. intros H1 H2. apply keeps_one_if_cap_ok. now apply cap_ok_upto_bound. Qed.
