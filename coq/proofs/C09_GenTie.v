(* C09 - ties between the facts regenerated from the source (gen/Gen_C09.v) and what the model was written from.
   Each lemma is a proof obligation of props/C09.v: an edit of the source that changes a fact breaks it.
   The src_* literals were produced by `translate_c09.py tie` from the tree the model transcribes. *)
From Coq Require Import String List ZArith Bool.
Require Import Num C09_Masked C09_Ops C09_Facts C09_Src Gen_C09.
Import ListNotations.
Open Scope string_scope.

Lemma points_dims_tie : Gen_C09.points_dims = POINTS_DIMS.
Proof. reflexivity. Qed.
Lemma conf_reshape_tie : Gen_C09.np_conf_reshape = CONF_RESHAPE /\ Gen_C09.torch_conf_reshape = CONF_RESHAPE /\ Gen_C09.tf_conf_reshape = CONF_RESHAPE.
Proof. repeat split; reflexivity. Qed.
(* constructor mask rules: numpy masks confidence == 0; torch / tf hold validity = confidence != 0 (F8), stacked D times (F7) *)
Lemma ctor_rule_tie : forall (O : ops) (c : T O),
  missing_sem O Gen_C09.np_mask_rule false c = is0 O c /\
  missing_sem O Gen_C09.torch_mask_rule true c = is0 O c /\ missing_sem O Gen_C09.tf_mask_rule true c = is0 O c.
Proof. intros O c. unfold missing_sem; cbn. rewrite !negb_involutive. repeat split; reflexivity. Qed.
Lemma ctor_stack_tie : Gen_C09.np_stack = StackLastDim /\ Gen_C09.torch_stack = StackLastDim /\ Gen_C09.tf_stack = StackLastDim.
Proof. repeat split; reflexivity. Qed.
(* zero_filled of both masked tensors is the selection the model uses (F9) *)
Lemma zero_filled_tie : forall O : ops, zf_sem O Gen_C09.torch_zero_filled = tzero O /\ zf_sem O Gen_C09.tf_zero_filled = tzero O.
Proof. intros O. split; reflexivity. Qed.
Lemma mask_rules_tie : Gen_C09.torch_arith_mask = MAnd /\ Gen_C09.tf_arith_mask = MAnd /\ Gen_C09.torch_sum_mask = MProd /\ Gen_C09.tf_sum_mask = MProd /\
  Gen_C09.torch_matmul_mask = MProd /\ Gen_C09.tf_matmul_mask = MProd.
Proof. repeat split; reflexivity. Qed.
(* the fall-backs the representations use keep the mask *)
Lemma whitelist_tie : forallb (fun s => existsb (String.eqb s) Gen_C09.torch_whitelist) ["sqrt"; "square"; "acos"] = true.
Proof. reflexivity. Qed.
Lemma rep_zero_filled_tie : Gen_C09.torch_rep_zero_filled =
  [("distance", true); ("angle", true); ("inner_angle", true); ("point_line_distance", true); ("points", true)].
Proof. reflexivity. Qed.
Lemma constants_tie : Gen_C09.np_fill_const = 0%Z /\ Gen_C09.flip_const = (-1)%Z.
Proof. split; reflexivity. Qed.

(* the statement lists of the small methods the model transcribes (literals: model/C09_Src.v) *)
Lemma sources_tie :
  Gen_C09.src_torch_masked_tensor_MaskedTensor = C09_Src.torch_masked_tensor_MaskedTensor /\
  Gen_C09.src_tensorflow_masked_tensor_MaskedTensor = C09_Src.tensorflow_masked_tensor_MaskedTensor /\
  Gen_C09.src_torch_pose_body_TorchPoseBody = C09_Src.torch_pose_body_TorchPoseBody /\
  Gen_C09.src_tensorflow_pose_body_TensorflowPoseBody = C09_Src.tensorflow_pose_body_TensorflowPoseBody /\
  Gen_C09.src_numpy_pose_body_NumPyPoseBody = C09_Src.numpy_pose_body_NumPyPoseBody /\
  Gen_C09.src_numpy_representation_distance_DistanceRepresentation = C09_Src.numpy_representation_distance_DistanceRepresentation /\
  Gen_C09.src_torch_representation_distance_DistanceRepresentation = C09_Src.torch_representation_distance_DistanceRepresentation /\
  Gen_C09.src_torch_representation_angle_AngleRepresentation = C09_Src.torch_representation_angle_AngleRepresentation /\
  Gen_C09.src_torch_representation_inner_angle_InnerAngleRepresentation = C09_Src.torch_representation_inner_angle_InnerAngleRepresentation /\
  Gen_C09.src_torch_representation_point_line_distance_PointLineDistanceRepresentation = C09_Src.torch_representation_point_line_distance_PointLineDistanceRepresentation /\
  Gen_C09.src_torch_representation_points_PointsRepresentation = C09_Src.torch_representation_points_PointsRepresentation /\
  Gen_C09.src_utils_fast_math = C09_Src.utils_fast_math.
Proof. repeat split; reflexivity. Qed.
(* the statistics of the TensorFlow masked tensor and the distance helper, method by method: what model/C09_TfNorm.v
   transcribes ([tfmean], [tfvariance], [tfstd], [tffixnan], the distance lines of [tf_normalize]) *)
Lemma tf_statistics_tie :
  src_of "mean" Gen_C09.src_tensorflow_masked_tensor_MaskedTensor =
    ["mt_sum = tf.math.reduce_sum(self.zero_filled(), axis=axis, keepdims=keepdims)"; "mt_count = tf.math.reduce_sum(tf.cast(self.mask, mt_sum.dtype), axis=axis, keepdims=keepdims)"; "tensor = tf.math.divide(mt_sum, mt_count)"; "mask = tf.cast(mt_count, tf.bool)"; "mt = MaskedTensor(tensor=tensor, mask=mask)"; "return mt.fix_nan()"] /\
  src_of "variance" Gen_C09.src_tensorflow_masked_tensor_MaskedTensor =
    ["means = self.mean(axis=axis, keepdims=True)"; "diff = self - means"; "squared_deviations = diff.square()"; "return squared_deviations.mean(axis=axis)"] /\
  src_of "std" Gen_C09.src_tensorflow_masked_tensor_MaskedTensor =
    ["variance = self.variance(axis=axis)"; "return variance.sqrt()"] /\
  src_of "fix_nan" Gen_C09.src_tensorflow_masked_tensor_MaskedTensor =
    ["self.tensor = tf.where(tf.math.is_finite(self.tensor), self.tensor, tf.zeros_like(self.tensor))"; "return self"] /\
  src_of "distance_batch" Gen_C09.src_utils_fast_math =
    ["squared = (p1s - p2s) ** 2"; "summed = squared.sum(axis=-1)"; "return summed ** 0.5"].
Proof. repeat split; reflexivity. Qed.
