(* C05: frameRepresentation over two flat arrays that are row-major tensors of shape (F,P,T,D) / (F,P,T):
   every cell looked up by component name and letter is the tensor cell the Python body holds. *)
From Coq Require Import ZArith NArith List Lia ZifyBool ZifyN ZifyNat Bool Arith.
Require Import ListN Result Bytes Tensor Codec C05_JsParser C05_View C05_Lemmas C05_Header C05_HeaderView C05_Body C05_Index.
Import ListNotations.
Open Scope nat_scope.

Lemma in_skipn {X} (x : X) n l : In x (skipn n l) -> In x l.
Proof. intros H. rewrite <- (firstn_skipn n l). apply in_or_app. now right. Qed.

(* index of a component's first point among all points (components are concatenated in header order) *)
Definition point_offset (cs : list component) (n : nat) : nat :=
  fold_right Nat.add 0 (map (fun c => length (c_points c)) (firstn n cs)).
Definition total_points_nat (cs : list component) : nat := fold_right Nat.add 0 (map (fun c => length (c_points c)) cs).
Lemma koff_offset cs : forall n, koff (firstn n (map jcomp_of_comp cs)) = Z.of_nat (point_offset cs n).
Proof.
  unfold koff, point_offset. induction cs as [|c cs IH]; intros [|n]; cbn [firstn map fold_right]; try reflexivity.
  rewrite IH. cbn [jc_plen jcomp_of_comp]. unfold lenN. lia.
Qed.
Lemma offset_bound cs : forall n c, nth_error cs n = Some c ->
  point_offset cs n + length (c_points c) <= total_points_nat cs.
Proof.
  unfold point_offset, total_points_nat. induction cs as [|c0 cs IH]; intros [|n] c Hn; cbn [nth_error firstn map fold_right] in *; try discriminate.
  - injection Hn as ->. lia.
  - specialize (IH n c Hn). lia.
Qed.
Lemma sumN_nat (cs : list component) : N.to_nat (sumN (map (fun c => lenN (c_points c)) cs)) = total_points_nat cs.
Proof. unfold total_points_nat. induction cs as [|c cs IH]; [reflexivity|]. cbn [map sumN fold_right] in *. unfold sumN in IH. unfold lenN in *. lia. Qed.

Theorem js_cells_eq (cs : list component) (F P T D : nat) (jb : jbody) :
  Forall comp_no_bom cs ->
  jb_people jb = Z.of_nat P -> jb_points jb = Z.of_nat T -> jb_dims jb = Z.of_nat D ->
  T = total_points_nat cs -> length (jb_data jb) = F * P * T * D -> length (jb_conf jb) = F * P * T ->
  forall i j n l c, i < F -> j < P -> nth_error cs n = Some c -> l < length (c_points c) ->
    ~ In (c_name c) (map c_name (skipn (S n) cs)) ->
    let t := point_offset cs n + l in
    js_cell (js_frame_rep (map jcomp_of_comp cs) jb (Z.of_nat i)) j (c_name c) l 67
      = Some (VF32 (tget 0%N (mkT [F; P; T] (jb_conf jb)) [i; j; t])) /\
    forall d x, nth_error (c_format c) d = Some x -> x <> 67%N -> coord_index (c_format c) d < D -> ~ In x (skipn (S d) (c_format c)) ->
      js_cell (js_frame_rep (map jcomp_of_comp cs) jb (Z.of_nat i)) j (c_name c) l x
      = Some (VF32 (tget 0%N (mkT [F; P; T; D] (jb_data jb)) [i; j; t; coord_index (c_format c) d])).
Proof.
  intros Hplain HP HT HD ET Hld Hlc i j n l c Hi Hj Hn Hl Hlater t.
  assert (Hall : forall c', In c' cs -> comp_no_bom c') by (now apply Forall_forall).
  assert (Hcp : comp_no_bom c) by (apply Hall; eapply nth_error_In; exact Hn).
  assert (Hname : jc_name (jcomp_of_comp c) = c_name c) by (cbn [jcomp_of_comp jc_name]; apply strip_no_bom, Hcp).
  assert (Hfmt : jc_format (jcomp_of_comp c) = c_format c) by (cbn [jcomp_of_comp jc_format]; apply strip_no_bom, Hcp).
  assert (Hn' : nth_error (map jcomp_of_comp cs) n = Some (jcomp_of_comp c)) by (now rewrite nth_error_map, Hn).
  assert (Hlater' : ~ In (jc_name (jcomp_of_comp c)) (map jc_name (skipn (S n) (map jcomp_of_comp cs)))).
  { rewrite Hname. intros Hin. apply Hlater. rewrite skipn_map, map_map in Hin. apply in_map_iff in Hin.
    destruct Hin as [c' [E Hin']]. apply in_map_iff. exists c'. split; [|exact Hin'].
    rewrite <- E. cbn [jcomp_of_comp jc_name]. symmetry. apply strip_no_bom. apply Hall. now apply in_skipn in Hin'. }
  assert (Hj' : j < Z.to_nat (jb_people jb)) by lia.
  assert (Hl' : l < Z.to_nat (jc_plen (jcomp_of_comp c))) by (cbn [jcomp_of_comp jc_plen]; unfold lenN; lia).
  pose proof (js_cell_lookup (map jcomp_of_comp cs) jb i j n l) as HL.
  assert (Ht : t < T).
  { unfold t. pose proof (offset_bound _ _ _ Hn). lia. }
  assert (Eplace : js_place (js_offset (Z.of_nat i) (jb_people jb) (jb_points jb) (Z.of_nat j))
                            (koff (firstn n (map jcomp_of_comp cs))) (Z.of_nat l)
                   = Z.of_nat (ravel [F; P; T] [i; j; t])).
  { rewrite koff_offset, HP, HT. unfold t. now rewrite <- js_place_ravel. }
  split.
  - destruct (HL 0 (jcomp_of_comp c) 67%N Hj' Hn' Hl' Hlater') as [HC _]. rewrite Hname in HC. rewrite HC.
    rewrite Eplace. f_equal. rewrite f32_at_nth; [reflexivity|].
    assert (Hr : ravel [F; P; T] [i; j; t] < prod [F; P; T]) by (apply ravel_lt; repeat constructor; assumption).
    cbn [prod fold_right] in Hr. lia.
  - intros d x Hd Hx HdD Hxl.
    destruct (HL d (jcomp_of_comp c) x Hj' Hn' Hl' Hlater') as [_ HX]. rewrite Hname, Hfmt in HX.
    rewrite (HX Hd Hx Hxl). rewrite Eplace, HD. f_equal.
    set (k := coord_index (c_format c) d) in *.
    assert (Eidx : js_data_index (Z.of_nat (ravel [F; P; T] [i; j; t])) (Z.of_nat D) (Z.of_nat k)
                   = Z.of_nat (ravel [F; P; T; D] [i; j; t; k])).
    { unfold js_data_index. cbn [ravel prod fold_right]. repeat (rewrite Nat2Z.inj_add || rewrite Nat2Z.inj_mul). cbn [Z.of_nat]. ring. }
    rewrite Eidx. rewrite f32_at_nth; [reflexivity|].
    assert (Hr : ravel [F; P; T; D] [i; j; t; k] < prod [F; P; T; D]) by (apply ravel_lt; repeat constructor; assumption).
    cbn [prod fold_right] in Hr. lia.
Qed.
