(* C03: a window read of a written file equals the slice of the full read (plain reader). *)
From Coq Require Import ZArith NArith List Lia ZifyBool ZifyN ZifyNat Bool.
Require Import ListN Result Bytes Utf8 Utf8S F32 Prog Codec ProgLemmas CodecRT PoseRead PoseReadLemmas.
Import ListNotations.
Open Scope N_scope.

Lemma RTp_skip {A} n (k : prog A) e1 e2 a : lenN e1 = n -> RTp k e2 a -> RTp (Skip n k) (e1 ++ e2) a.
Proof.
  intros Hn H pre post. cbn [run_plain pbuf poff].
  specialize (H (pre ++ e1) post). rewrite <- !app_assoc in H. rewrite lenN_app in H.
  rewrite <- app_assoc. rewrite <- Hn. rewrite H. rewrite lenN_app. f_equal. f_equal. f_equal. lia.
Qed.

Definition start0 (s : option Z) : Z := match s with Some z => if (0 <? z)%Z then z else 0%Z | None => 0%Z end.
Definition end0 (e : option Z) (frames : Z) : Z := match e with Some z => Z.min z frames | None => frames end.

Lemma takeN_map {X Y} (f : X -> Y) n l : takeN n (map f l) = map f (takeN n l).
Proof. rewrite !takeN_firstn. apply firstn_map. Qed.
Lemma dropN_map {X Y} (f : X -> Y) n l : dropN n (map f l) = map f (dropN n l).
Proof. rewrite !dropN_skipn. apply skipn_map. Qed.
Lemma Forall_takeN {X} (P : X -> Prop) n l : Forall P l -> Forall P (takeN n l).
Proof. intros H. rewrite <- (take_drop_split n l) in H. apply Forall_app in H. tauto. Qed.
Lemma Forall_dropN {X} (P : X -> Prop) n l : Forall P l -> Forall P (dropN n l).
Proof. intros H. rewrite <- (take_drop_split n l) in H. apply Forall_app in H. tauto. Qed.

Lemma split3 {X} (a b : N) (ws : list X) : ws = takeN a ws ++ takeN b (dropN a ws) ++ dropN (a + b) ws.
Proof. replace (a + b) with (b + a) by lia. rewrite <- (dropN_dropN b a ws).
  rewrite (take_drop_split b (dropN a ws)). symmetry. apply take_drop_split. Qed.

Lemma frames_window_rt ws frames cells s e :
  Forall (fun n => n < 4294967296) ws ->
  (0 <= frames)%Z -> (0 <= cells)%Z -> Z.of_N (lenN ws) = (frames * cells)%Z ->
  (start0 s = 0 \/ start0 s < frames)%Z -> (start0 s <= end0 e frames)%Z ->
  RTp (read_frames frames cells s e) (flat_map enc_u32 ws)
      ((end0 e frames - start0 s)%Z,
       takeN (Z.to_N ((end0 e frames - start0 s) * cells)) (dropN (Z.to_N (start0 s * cells)) ws)).
Proof.
  intros Hlt Hf Hc Hlen Hs Hse.
  remember (start0 s) as s0 eqn:Es0. remember (end0 e frames) as e0 eqn:Ee0.
  assert (He0 : (e0 <= frames)%Z) by (rewrite Ee0; unfold end0; destruct e; lia).
  assert (Hs0 : (0 <= s0)%Z) by (rewrite Es0; unfold start0; destruct s as [z|]; [destruct (0 <? z)%Z eqn:E|]; lia).
  remember (Z.to_N (s0 * cells)) as a eqn:Ea. remember (Z.to_N ((e0 - s0) * cells)) as b eqn:Eb.
  assert (Hm1 : (0 <= s0 * cells)%Z) by (apply Z.mul_nonneg_nonneg; lia).
  assert (Hm2 : (0 <= (e0 - s0) * cells)%Z) by (apply Z.mul_nonneg_nonneg; lia).
  assert (Hm3 : (e0 * cells <= frames * cells)%Z) by (apply Z.mul_le_mono_nonneg_r; lia).
  assert (Hm4 : ((e0 - s0) * cells = e0 * cells - s0 * cells)%Z) by ring.
  assert (Hm5 : (4 * s0 * cells = 4 * (s0 * cells))%Z) by ring.
  assert (Hm6 : (4 * (e0 - s0) * cells = 4 * ((e0 - s0) * cells))%Z) by ring.
  assert (Hm7 : (4 * (frames - e0) * cells = 4 * (frames * cells) - 4 * (e0 * cells))%Z) by ring.
  assert (Hab : a + b <= lenN ws) by lia.
  rewrite (split3 a b ws) at 1. rewrite !flat_map_app.
  set (A := flat_map enc_u32 (takeN a ws)). set (B := flat_map enc_u32 (takeN b (dropN a ws))).
  set (C := flat_map enc_u32 (dropN (a + b) ws)).
  assert (HlA : lenN A = 4 * a) by (unfold A; rewrite lenN_flat_enc_u32, lenN_takeN; lia).
  assert (HlB : lenN B = 4 * b) by (unfold B; rewrite lenN_flat_enc_u32, lenN_takeN, lenN_dropN; lia).
  assert (HlC : lenN C = 4 * (lenN ws - (a + b))) by (unfold C; rewrite lenN_flat_enc_u32, lenN_dropN; lia).
  (* the tensor read itself *)
  assert (Hrd : RTp (zblock (4 * (e0 - s0) * cells) (fun bts => Ret (words32 (Z.to_nat ((e0 - s0) * cells)) bts))) B
                    (takeN b (dropN a ws))).
  { unfold zblock. destruct (Z.ltb_spec (4 * (e0 - s0) * cells) 0) as [Hneg|_]; [lia|].
    assert (Hg : words32 (Z.to_nat ((e0 - s0) * cells)) B = takeN b (dropN a ws)).
    { replace (Z.to_nat ((e0 - s0) * cells)) with (length (takeN b (dropN a ws))).
      - unfold B. rewrite <- (app_nil_r (flat_map enc_u32 _)). apply words32_enc.
        apply Forall_takeN, Forall_dropN, Hlt.
      - assert (Hl : lenN (takeN b (dropN a ws)) = b) by (rewrite lenN_takeN, lenN_dropN; lia).
        unfold lenN in Hl. lia. }
    pose proof (RTp_block_ret (Z.to_N (4 * (e0 - s0) * cells)) (fun bts => words32 (Z.to_nat ((e0 - s0) * cells)) bts) B) as HB.
    cbv beta in HB. rewrite Hg in HB. apply HB. rewrite HlB. lia. }
  (* the skips around it *)
  assert (Htail_some : forall r, r = (frames - e0)%Z ->
            RTp (dop t <- zblock (4 * (e0 - s0) * cells) (fun bts => Ret (words32 (Z.to_nat ((e0 - s0) * cells)) bts));
                 Skip (Z.to_N (4 * r * cells)) (Ret ((e0 - s0)%Z, t))) (B ++ C) ((e0 - s0)%Z, takeN b (dropN a ws))).
  { intros r ->. apply (RTp_bind _ _ _ _ (takeN b (dropN a ws))); [exact Hrd|].
    rewrite <- (app_nil_r C). apply RTp_skip; [rewrite HlC; lia|]. apply RTp_ret. }
  assert (Htail_none : e0 = frames ->
            RTp (dop t <- zblock (4 * (e0 - s0) * cells) (fun bts => Ret (words32 (Z.to_nat ((e0 - s0) * cells)) bts));
                 Ret ((e0 - s0)%Z, t)) (B ++ C) ((e0 - s0)%Z, takeN b (dropN a ws))).
  { intros Hef. assert (EC : C = []) by (unfold C; rewrite dropN_all; [reflexivity|lia]).
    rewrite EC, app_nil_r. rewrite <- (app_nil_r B).
    apply (RTp_bind _ _ _ _ (takeN b (dropN a ws))); [exact Hrd|]. apply RTp_ret. }
  unfold read_frames.
  destruct s as [s'|]; [destruct (Z.ltb_spec 0 s') as [Hpos|Hnp]|]; unfold start0 in Es0.
  - (* started *)
    destruct (Z.ltb_spec 0 s'); [|lia]. subst s0. cbn [andb].
    destruct (Z.leb_spec frames s') as [Hbad|_]; [lia|]. cbv iota.
    apply RTp_skip; [rewrite HlA; lia|].
    destruct e as [e'|]; unfold end0 in Ee0.
    + replace (frames - s' - (frames - Z.min e' frames))%Z with (e0 - s')%Z by lia.
      apply Htail_some. lia.
    + replace (frames - s')%Z with (e0 - s')%Z by lia. apply Htail_none. lia.
  - (* start <= 0: no skip *)
    destruct (Z.ltb_spec 0 s'); [lia|]. subst s0. cbn [andb]. cbv iota.
    assert (EA : A = []) by (unfold A; replace a with 0 by lia; now rewrite takeN_0).
    rewrite EA. cbn [app].
    destruct e as [e'|]; unfold end0 in Ee0.
    + rewrite Z.sub_0_r in *. replace (frames - (frames - Z.min e' frames))%Z with e0 by lia. apply Htail_some. lia.
    + rewrite Z.sub_0_r in *. rewrite <- Ee0. apply Htail_none. lia.
  - subst s0. cbn [andb]. cbv iota.
    assert (EA : A = []) by (unfold A; replace a with 0 by lia; now rewrite takeN_0).
    rewrite EA. cbn [app].
    destruct e as [e'|]; unfold end0 in Ee0.
    + rewrite Z.sub_0_r in *. replace (frames - (frames - Z.min e' frames))%Z with e0 by lia. apply Htail_some. lia.
    + rewrite Z.sub_0_r in *. rewrite <- Ee0. apply Htail_none. lia.
Qed.

(* ---------- windowed v0.2 body read ---------- *)
Definition conflict (a b : option Z) : bool := match a, b with Some _, Some _ => true | _, _ => false end.
Definition resolve_start (fps : N) (sf st : option Z) : result (option Z) :=
  match st with Some ms => rmap Some (time_to_frame false ms fps) | None => Ok sf end.
Definition resolve_end (fps : N) (ef et : option Z) : result (option Z) :=
  match et with Some ms => rmap Some (time_to_frame true ms fps) | None => Ok ef end.
Definition body_prog (h : header) (sf st ef et : option Z) : prog body :=
  dop fps <- rd_u32;
  dop F <- rd_u32;
  dop P <- rd_u16;
  let T := total_points h in
  dop D <- plift (num_dims h);
  dop s <- plift (resolve_start fps sf st);
  dop e <- plift (resolve_end fps ef et);
  dop dat <- read_frames (Z.of_N F) (Z.of_N (P * T) * D) s e;
  dop cnf <- read_frames (Z.of_N F) (Z.of_N (P * T)) s e;
  plift (mk_body fps (Z.to_N (fst dat)) P T D (snd dat) (snd cnf)).
Lemma read_v0_2_shape h sf st ef et :
  read_v0_2 h sf st ef et = if conflict sf st || conflict ef et then Fail Value else body_prog h sf st ef et.
Proof. destruct sf, st, ef, et; reflexivity. Qed.

(* frames [s0, e0) of a body *)
Definition window_body (b : body) (s0 e0 : Z) : body :=
  match b_shape b with
  | [F; P; T; D] =>
      let cc := Z.of_N (P * T) in
      let dc := (cc * Z.of_N D)%Z in
      {| b_fps := b_fps b; b_shape := [Z.to_N (e0 - s0); P; T; D];
         b_data := takeN (Z.to_N ((e0 - s0) * dc)) (dropN (Z.to_N (s0 * dc)) (b_data b));
         b_conf := takeN (Z.to_N ((e0 - s0) * cc)) (dropN (Z.to_N (s0 * cc)) (b_conf b));
         b_mask := takeN (Z.to_N ((e0 - s0) * cc)) (dropN (Z.to_N (s0 * cc)) (b_mask b)) |}
  | _ => b
  end.

Definition fps_word (p : wpose) : N := match pack_f32 (w_fps p) with Some v => v | None => 0 end.

Theorem read_body_window_rt p e F P T D sf st ef et s e' :
  w_shape p = [F; P; T; D] -> w_cshape p = [F; P; T] -> wf_arrays p ->
  num_dims_of (map wc_format (w_comps p)) = Ok (Z.of_N D) -> total_points_w (w_comps p) = T -> 1 <= D ->
  write_body p = Ok e ->
  conflict sf st = false -> conflict ef et = false ->
  resolve_start (fps_word p) sf st = Ok s -> resolve_end (fps_word p) ef et = Ok e' ->
  (start0 s = 0 \/ start0 s < Z.of_N F)%Z -> (start0 s <= end0 e' (Z.of_N F))%Z ->
  RTp (read_v0_2 (canon_header p) sf st ef et) e (window_body (canon_body p) (start0 s) (end0 e' (Z.of_N F))).
Proof.
  intros Hs Hcs [Hld Hlc] Hnd Htp HD H Hc1 Hc2 Hrs Hre Hv1 Hv2.
  rewrite read_v0_2_shape, Hc1, Hc2. cbn [orb].
  unfold write_body in H. rewrite Hs in H.
  destruct (N.ltb_spec 4294967295 F) as [|HF]; [discriminate|].
  unfold fps_word in Hrs, Hre.
  destruct (pack_f32 (w_fps p)) as [fw|] eqn:Hfps; [|discriminate].
  destruct (N.ltb_spec 65535 P) as [|HP]; [discriminate|]. apply Ok_inj in H. subst e.
  rewrite Hs in Hld. rewrite Hcs in Hlc. cbn [prodN fold_right] in Hld, Hlc.
  unfold body_prog.
  apply RTp_bind with (a := fw); [apply rd_u32_rt; now apply pack_f32_lt in Hfps|].
  apply RTp_bind with (a := F); [apply rd_u32_rt; lia|].
  apply RTp_bind with (a := P); [apply rd_u16_rt; lia|].
  rewrite num_dims_canon, Hnd, total_points_canon, Htp, Hrs, Hre. cbn [plift pbind].
  rewrite <- (flat_map_map f64_to_f32 enc_u32 (w_data p)), <- (flat_map_map f64_to_f32 enc_u32 (w_conf p)).
  set (s0 := start0 s) in *. set (e0 := end0 e' (Z.of_N F)) in *.
  apply RTp_bind with (a := ((e0 - s0)%Z,
      takeN (Z.to_N ((e0 - s0) * (Z.of_N (P * T) * Z.of_N D))) (dropN (Z.to_N (s0 * (Z.of_N (P * T) * Z.of_N D))) (map f64_to_f32 (w_data p))))).
  { apply frames_window_rt; [apply words_lt|lia|lia| |exact Hv1|exact Hv2]. unfold lenN in *. rewrite map_length. lia. }
  rewrite <- (app_nil_r (flat_map enc_u32 (map f64_to_f32 (w_conf p)))).
  apply RTp_bind with (a := ((e0 - s0)%Z,
      takeN (Z.to_N ((e0 - s0) * Z.of_N (P * T))) (dropN (Z.to_N (s0 * Z.of_N (P * T))) (map f64_to_f32 (w_conf p))))).
  { apply frames_window_rt; [apply words_lt|lia|lia| |exact Hv1|exact Hv2]. unfold lenN in *. rewrite map_length. lia. }
  cbn [fst snd]. unfold mk_body. destruct (Z.leb_spec (Z.of_N D) 0) as [|_]; [lia|]. cbn [plift].
  unfold window_body, canon_body. cbn [b_shape b_fps b_data b_conf b_mask]. rewrite Hfps, Hs.
  replace (Z.to_N (Z.of_N D)) with D by lia.
  rewrite <- takeN_map, <- dropN_map.
  apply RTp_ret.
Qed.
