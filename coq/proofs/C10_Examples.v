(* C10 - an exact numeric instance (integers) for non-vacuity examples, and the witnesses that refute the
   statement for the pinned source (DESIGN section 7, F16), found with vm_compute and replayed on the implementation
   (corpus/C10/f16_*.json). *)
From Coq Require Import List Arith ZArith Bool Lia.
Require Import Result Tensor Num C10_Tensor C10_Masked C10_Aligned C10_RefBase C10_Refines.
Import ListNotations.

Definition Z_ops : ops :=
  {| T := Z; zero := 0%Z; one := 1%Z; add := Z.add; sub := Z.sub; mul := Z.mul; div := Z.div; opp := Z.opp;
     sqrt := Z.sqrt; abs := Z.abs; leb := Z.leb; ltb := Z.ltb; eqb := Z.eqb; of_Z := fun z => z |}.
Definition z_trig (u : uname) (x : Z) : Z := x.

Lemma Z_add_0_r : forall x : T Z_ops, add Z_ops x (zero Z_ops) = x.
Proof. intros x. cbn. apply Z.add_0_r. Qed.
Lemma Z_fold_count (l : list Z) acc : fold_left Z.add (map (fun _ => 1%Z) l) acc = (acc + Z.of_nat (length l))%Z.
Proof. revert acc. induction l as [|x l IH]; intros acc; cbn [map fold_left length]; [lia|]. rewrite IH. lia. Qed.
Lemma Z_count_faithful : forall l : list (T Z_ops), nonzero Z_ops (count Z_ops l) = false -> l = [].
Proof. intros l. unfold nonzero, count, fsum; cbn [add zero one eqb Z_ops T]. rewrite Z_fold_count.
  destruct l as [|x l]; [reflexivity|]. cbn [length]. intros H. apply negb_false_iff, Z.eqb_eq in H. lia. Qed.
Lemma Z_eqb_zero : eqb Z_ops (zero Z_ops) (zero Z_ops) = true.
Proof. reflexivity. Qed.

Definition zt (s : list nat) (l : list Z) : tensor Z := mkT s l.
Definition bt (s : list nat) (l : list bool) : tensor bool := mkT s l.
Definition m23 : mt Z_ops := (zt [2; 3] [1; 2; 3; 4; 5; 6]%Z, bt [2; 3] [true; false; true; true; true; false]).
Definition m33 : mt Z_ops := (zt [3; 3] [0; 0; 0; 3; 3; 3; 6; 6; 6]%Z, bt [3; 3] [true; true; true; true; true; true; true; true; true]).
Definition ones32 : tensor Z := zt [3; 2] [1; 1; 1; 1; 1; 1]%Z.

(* a program touching every rule: matmul (non-square), split, arithmetic, cat, strict sum, mean, variance, zero-fill *)
Definition demo : list (instr Z_ops) :=
  [ IMatmul Z_ops 0 ones32;                         (* 1 : (2,2) *)
    ISplit Z_ops 0 (inr [2; 1]) 1;                     (* 2 : (2,2)   3 : (2,1) *)
    IArith Z_ops Add 2 (OReg Z_ops 3);              (* 4 : (2,2) broadcast *)
    IArith Z_ops Mul 3 (OPlain Z_ops (zt [3] [1; 2; 3]%Z));   (* 5 : (2,3) value and mask broadcast *)
    ICat Z_ops [OReg Z_ops 0; OPlain Z_ops (zt [1; 3] [7; 8; 9]%Z)] 0;  (* 6 : (3,3) *)
    ISum Z_ops 6 (Some (-1)%Z);                     (* 7 : (3) *)
    IStat Z_ops Mean 6 (Some 1%Z);                  (* 8 *)
    IStat Z_ops Var 6 (Some 1%Z);                   (* 9 *)
    IZeroFill Z_ops 0 ].                            (* 10 *)
Lemma demo_wf : prog_wf Z_ops demo.
Proof. repeat constructor. Qed.
Lemma m23_ok : Forall (ok Z_ops) [m23].
Proof. repeat constructor. Qed.
Example demo_runs : exists env', run Z_ops z_trig repaired TF demo [m23] = Ok env' /\ length env' = 11.
Proof. eexists. split; [vm_compute; reflexivity | reflexivity]. Qed.
Example demo_torch_prefix_runs : exists env', run Z_ops z_trig repaired Torch (firstn 6 demo) [m23] = Ok env' /\ length env' = 8.
Proof. eexists. split; [vm_compute; reflexivity | reflexivity]. Qed.
(* mean over the valid elements only: rows (1,_,3) (4,5,_) (7,8,9) -> 2, 4 (integer division), 8; all valid *)
Example demo_mean : exists env', run Z_ops z_trig repaired TF demo [m23] = Ok env'
  /\ nth 8 env' m23 = (zt [3] [2; 4; 8]%Z, bt [3] [true; true; true]).
Proof. eexists. split; vm_compute; reflexivity. Qed.

(* ---- the pinned source violates the statement *)
Definition misaligned (m : mt Z_ops) : Prop := shape (fst m) <> shape (snd m).
(* (a) non-square matmul: values (2,2), mask still (2,3) *)
Theorem aligned_refuted_matmul : exists f p env env' m, Forall (ok Z_ops) env /\ run Z_ops z_trig pinned f p env = Ok env' /\ In m env' /\ misaligned m.
Proof. exists Torch, [IMatmul Z_ops 0 ones32], [m23]. eexists. eexists. split; [exact m23_ok|]. split; [vm_compute; reflexivity|].
  split; [right; left; reflexivity|]. unfold misaligned; cbn. discriminate. Qed.
(* (b) arithmetic with a plain tensor that broadcasts the value: (3,) + (2,3) -> values (2,3), mask (3,) *)
Definition m3 : mt Z_ops := (zt [3] [1; 2; 3]%Z, bt [3] [true; false; true]).
Theorem aligned_refuted_plain_broadcast : exists f p env env' m, Forall (ok Z_ops) env /\ run Z_ops z_trig pinned f p env = Ok env' /\ In m env' /\ misaligned m.
Proof. exists TF, [IArith Z_ops Add 0 (OPlain Z_ops (zt [2; 3] [1; 1; 1; 1; 1; 1]%Z))], [m3]. eexists. eexists.
  split; [repeat constructor|]. split; [vm_compute; reflexivity|]. split; [right; left; reflexivity|]. unfold misaligned; cbn. discriminate. Qed.
(* (c) MaskedTorch.unsqueeze through the white-list: values (1,2,3), mask (2,3) *)
Theorem aligned_refuted_unsqueeze : exists p env env' m, Forall (ok Z_ops) env /\ run Z_ops z_trig pinned Torch p env = Ok env' /\ In m env' /\ misaligned m.
Proof. exists [IUnsqueeze Z_ops 0 0%Z], [m23]. eexists. eexists. split; [exact m23_ok|]. split; [vm_compute; reflexivity|].
  split; [right; left; reflexivity|]. unfold misaligned; cbn. discriminate. Qed.
(* (d) TF variance along axis 1 of a square tensor: aligned, but not what the reference computes (15, 6, 15 instead of 0, 0, 0) *)
Theorem refines_refuted_variance : exists p env env', Forall (ok Z_ops) env /\ run Z_ops z_trig pinned TF p env = Ok env' /\
  rrun Z_ops z_trig TF p (map (pair_of Z_ops) env) <> Ok (map (pair_of Z_ops) env').
Proof. exists [IStat Z_ops Var 0 (Some 1%Z)], [m33]. eexists. split; [repeat constructor|]. split; [vm_compute; reflexivity|].
  vm_compute. discriminate. Qed.
(* with the repaired switches the same four programs are aligned and refine the reference *)
Example repaired_variance : run Z_ops z_trig repaired TF [IStat Z_ops Var 0 (Some 1%Z)] [m33]
  = Ok [m33; (zt [3] [0; 0; 0]%Z, bt [3] [true; true; true])].
Proof. vm_compute. reflexivity. Qed.
Example repaired_matmul : run Z_ops z_trig repaired Torch [IMatmul Z_ops 0 ones32] [m23]
  = Ok [m23; (zt [2; 2] [6; 6; 15; 15]%Z, bt [2; 2] [false; false; false; false])].
Proof. vm_compute. reflexivity. Qed.

(* ---- one concrete instance per rule lemma (their hypotheses are satisfiable by non-trivial values) *)
Definition env3 : list (mt Z_ops) :=
  [m23; (zt [2; 2] [1; 2; 4; 5]%Z, bt [2; 2] [true; false; true; true]); (zt [2; 1] [3; 6]%Z, bt [2; 1] [true; false])].
Lemma env3_ok : Forall (ok Z_ops) env3.
Proof. repeat constructor. Qed.
Example ex_structural : exists r p outs, plans_of Z_ops TF (ISplit Z_ops 0 (inr [2; 1]) 1%Z) = Some (r, p) /\
  exec Z_ops z_trig pinned TF (ISplit Z_ops 0 (inr [2; 1]) 1%Z) env3 = Ok outs /\ length outs = 2.
Proof. eexists. eexists. eexists. split; [reflexivity|]. split; [vm_compute; reflexivity | reflexivity]. Qed.
Example ex_cat : exists outs, exec Z_ops z_trig pinned Torch (ICat Z_ops [OReg Z_ops 0; OPlain Z_ops (zt [1; 3] [7; 8; 9]%Z)] 0%Z) env3 = Ok outs /\ length outs = 1.
Proof. eexists. split; [vm_compute; reflexivity | reflexivity]. Qed.
Example ex_elementwise : exec Z_ops z_trig pinned TF (IArith Z_ops Add 1 (OReg Z_ops 2)) env3
  = Ok [(zt [2; 2] [4; 5; 10; 11]%Z, bt [2; 2] [true; false; false; false])].
Proof. vm_compute. reflexivity. Qed.
Example ex_plain : exec Z_ops z_trig repaired Torch (IArith Z_ops Mul 2 (OPlain Z_ops (zt [3] [1; 2; 3]%Z))) env3
  = Ok [(zt [2; 3] [3; 6; 9; 6; 12; 18]%Z, bt [2; 3] [true; true; true; false; false; false])].
Proof. vm_compute. reflexivity. Qed.
Example ex_sum : exec Z_ops z_trig pinned Torch (ISum Z_ops 1 (Some (-1)%Z)) env3 = Ok [(zt [2] [3; 9]%Z, bt [2] [false; true])].
Proof. vm_compute. reflexivity. Qed.
Example ex_statistics : valid_values Z_ops [(1, true); (5, false); (3, true)]%Z = valid_values Z_ops [(1, true); (-7, false); (3, true)]%Z
  /\ mean_ref Z_ops [(1, true); (5, false); (3, true)]%Z = (2%Z, true) /\ var_ref Z_ops [(1, true); (5, false); (3, true)]%Z = (1%Z, true)
  /\ mean_ref Z_ops [(5, false)]%Z = (0%Z, false).
Proof. repeat split. Qed.
