(* C18, the body of a window read of a stream: a BytesIOReader that holds ANY prefix of the file (whatever
   prefetch length it took from the memo at pose.py:60), positioned at the proved (header, offset), decodes the
   body that the plain reader decodes from the whole file at that offset.  Instance of the reader
   simulation of C03 (proofs/StreamLemmas.v, sim_fwd); forward direction only (the plain read succeeds). *)
From Coq Require Import ZArith NArith List Lia ZifyBool ZifyN ZifyNat Bool.
Require Import ListN Result Bytes Prog Codec PoseRead ProgLemmas StreamLemmas StreamRead StreamBack StreamIndep C18_Threads C18_Bytes.
Import ListNotations.
Open Scope N_scope.

Lemma v2prog_read_body h a : v2prog (read_body no_legacy h a).
Proof.
  unfold read_body, read_body_with, no_legacy. destruct (version_class (h_version h)); try exact I.
  apply v2prog_read_v0_2.
Qed.

Theorem stream_body_any_prefetch file h a e L pl b pr' :
  e <= lenN (takeN L file) ->
  run_plain (read_body no_legacy h a) {| pbuf := file; poff := e |} = Ok (b, pr') ->
  exists sr', run_stream file (read_body no_legacy h a)
                {| buf := takeN L file; off := e; skipped := 0; pulled := pl |} = Ok (b, sr').
Proof.
  intros He Hrun.
  set (sr := {| buf := takeN L file; off := e; skipped := 0; pulled := pl |}).
  assert (HS : Sim file [] {| pbuf := file; poff := e |} sr).
  { unfold Sim, StreamLemmas.Inv. subst sr. cbn [pbuf poff buf off skipped].
    split; [now rewrite app_nil_r|]. split; [reflexivity|]. split; [lia|].
    exists 0. split; [lia|]. split; [lia|].
    rewrite N.sub_0_r, N.add_0_l, !C18_Bytes.dropN_0, lenN_takeN. apply takeN_clip. }
  pose proof (sim_fwd file [] _ (v2prog_read_body h a) _ _ _ _ HS Hrun) as H.
  destruct (run_stream file (read_body no_legacy h a) sr) as [[b' sr']|e'].
  - destruct H as [<- _]. now exists sr'.
  - now contradiction H.
Qed.

(* with the result a finished thread holds ([result_alone]): the pose of a BytesIOReader thread is the pose
   of the same file read as bytes, alone, on an empty memo *)
Corollary stream_pose_of_alone j h e L pl pose :
  result_alone j = ROk h e -> e <= lenN (takeN L (j_file j)) ->
  fst (read_bytes no_legacy None (j_file j) (j_args j)) = Ok pose ->
  exists b sr', run_stream (j_file j) (read_body no_legacy h (j_args j))
                  {| buf := takeN L (j_file j); off := e; skipped := 0; pulled := pl |} = Ok (b, sr') /\
                pose = {| p_header := h; p_body := b |}.
Proof.
  unfold result_alone, parse, read_bytes. cbn [check_cache].
  destruct (run_plain rd_header {| pbuf := j_file j; poff := 0 |}) as [[h' r]|e0] eqn:E; [|discriminate].
  intros [= -> <-] He. cbn [fst].
  pose proof (run_plain_buf _ _ _ _ E) as Hb. cbn [pbuf] in Hb. destruct r as [pb po]. cbn [pbuf poff] in *. subst pb.
  destruct (run_plain (read_body no_legacy h (j_args j)) {| pbuf := j_file j; poff := po |}) as [[b r']|e1] eqn:Eb; [|discriminate].
  cbn [rmap fst]. intros [= <-].
  destruct (stream_body_any_prefetch _ _ _ _ L pl _ _ He Eb) as [sr' Hs]. exists b, sr'. split; [exact Hs|reflexivity].
Qed.

(* Full strength (no hypothesis that the bytes read succeeds): whatever prefetch lengths two BytesIOReaders took - the thread's,
   from a memo another thread may just have replaced, and the solo read's - positioned at the same (header, offset) they decode
   the same body, or both raise.  With [isolated] (header and offset are those of the solo run) this is the isolation of the whole
   pose for window reads of streams.  Instance of StreamIndep.amount_indep. *)
Lemma prefix_reader_inv file L e pl : e <= lenN (takeN L file) ->
  StreamLemmas.Inv file {| buf := takeN L file; off := e; skipped := 0; pulled := pl |}.
Proof.
  intros He. unfold StreamLemmas.Inv. cbn [buf off skipped]. split; [lia|]. exists 0. split; [lia|]. split; [lia|].
  rewrite N.sub_0_r, N.add_0_l, !C18_Bytes.dropN_0, lenN_takeN. apply takeN_clip.
Qed.
Theorem stream_body_prefetch_irrelevant file h a e L L' pl pl' :
  e <= lenN (takeN L file) -> e <= lenN (takeN L' file) ->
  match run_stream file (read_body no_legacy h a) {| buf := takeN L file; off := e; skipped := 0; pulled := pl |},
        run_stream file (read_body no_legacy h a) {| buf := takeN L' file; off := e; skipped := 0; pulled := pl' |} with
  | Ok (b, _), Ok (b', _) => b = b'
  | Err _, Err _ => True
  | _, _ => False
  end.
Proof.
  intros H1 H2.
  pose proof (amount_indep file _ (v2prog_read_body h a)
                {| buf := takeN L file; off := e; skipped := 0; pulled := pl |}
                {| buf := takeN L' file; off := e; skipped := 0; pulled := pl' |}) as H.
  assert (HT : Twin file {| buf := takeN L file; off := e; skipped := 0; pulled := pl |}
                         {| buf := takeN L' file; off := e; skipped := 0; pulled := pl' |}).
  { split; [apply prefix_reader_inv; exact H1|]. split; [apply prefix_reader_inv; exact H2|]. split; reflexivity. }
  specialize (H HT). unfold twin_result in H.
  destruct (run_stream file (read_body no_legacy h a) {| buf := takeN L file; off := e; skipped := 0; pulled := pl |}) as [[b s1]|e1];
    destruct (run_stream file (read_body no_legacy h a) {| buf := takeN L' file; off := e; skipped := 0; pulled := pl' |}) as [[b' s2]|e2];
    try exact H; try exact I. exact (proj1 H).
Qed.
