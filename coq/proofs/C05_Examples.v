(* C05: concrete witnesses - the hypotheses of the theorems are satisfiable, and the inputs outside them on which
   the JavaScript reader really differs from the Python reader (by vm_compute on the models). *)
From Coq Require Import ZArith NArith List Lia Bool Arith.
Require Import ListN Result Bytes Utf8 Utf8S F32 Prog Tensor Codec ProgLemmas CodecRT C01_Examples
  C05_JsParser C05_Spec C05_View C05_Lemmas C05_Header C05_HeaderView C05_Body C05_Index C05_Cells C05_Main C05_V01 C05_V00.
Import ListNotations.
Open Scope N_scope.

(* ---- non-vacuity: C01's example pose (two components "e-acute euro" / "", formats XYC / XC, 1 frame, 2 people) ---- *)
Lemma ex_pose_plain : Forall wcomp_plain (w_comps ex_pose).
Proof. repeat constructor; cbn; lia. Qed.
Lemma ex_pose_hyps : (exists bs, write_pose ex_pose = Ok bs) /\ wf_arrays ex_pose /\ 1 <= nth 3 (w_shape ex_pose) 0 /\
  Forall wcomp_plain (w_comps ex_pose).
Proof. split; [destruct ex_pose_written as [bs [H _]]; eauto|]. split; [exact (proj1 ex_pose_wf)|]. split; [exact (proj2 ex_pose_wf)|exact ex_pose_plain]. Qed.
(* second person, second component (its name is the empty string), its only point: X is data[0][1][2][0] = 0.0 (word 0),
   C is confidence[0][1][2] = 1.0 *)
Lemma ex_pose_cell : exists bs jp, write_pose ex_pose = Ok bs /\ parse_pose bs = Some jp /\
  js_cell (jp_frame jp 0%Z) 1 [] 0 88 = Some (VF32 0) /\ js_cell (jp_frame jp 0%Z) 1 [] 0 67 = Some (VF32 1065353216) /\
  jp_nframes jp = 1%Z.
Proof. eexists. eexists. split; [vm_compute; reflexivity|]. split; [vm_compute; reflexivity|]. vm_compute. repeat split; reflexivity. Qed.

(* ---- v0.1 example: one component "ab" XYC with 2 points, 2 frames, 1 person ---- *)
Definition ex_v01 : lpose :=
  {| l_dims := (3, 4, 0)%Z;
     l_comps := [ {| wc_name := [97; 98]; wc_format := [88; 89; 67]; wc_points := [[112]; [113]]; wc_limbs := [(0, 1)%Z]; wc_colors := [(1, 2, 3)%Z] |} ];
     l_fps := 25; l_F := 2; l_P := 1; l_T := 2; l_D := 2;
     l_data := [1065353216; 1073741824; 1077936128; 1082130432; 1084227584; 1086324736; 1088421888; 1090519040];
     l_conf := [1065353216; 0; 1056964608; 1048576000] |}.
Lemma ex_v01_hyps : (exists bs, spec_v01 ex_v01 = Ok bs) /\ wf_lpose ex_v01 /\ Forall wcomp_plain (l_comps ex_v01).
Proof.
  split; [eexists; vm_compute; reflexivity|]. split.
  - unfold wf_lpose, word32. cbn [ex_v01 l_fps l_F l_P l_T l_D l_data l_conf l_comps].
    repeat split; try reflexivity; try lia; repeat constructor.
  - repeat constructor; cbn; lia.
Qed.
(* frame 1, point q: Y = 8.0, C = 0.25 *)
Lemma ex_v01_cell : exists bs jp, spec_v01 ex_v01 = Ok bs /\ parse_pose bs = Some jp /\
  js_cell (jp_frame jp 1%Z) 0 [97; 98] 1 89 = Some (VF32 1090519040) /\ js_cell (jp_frame jp 1%Z) 0 [97; 98] 1 67 = Some (VF32 1048576000).
Proof. eexists. eexists. split; [vm_compute; reflexivity|]. split; [vm_compute; reflexivity|]. vm_compute. split; reflexivity. Qed.

(* ---- v0.0 example: the same component; frame 0 has two people, frame 1 nobody ---- *)
Definition ex_v00 : lpose0 :=
  {| z_dims := (3, 4, 0)%Z;
     z_comps := [ {| wc_name := [97; 98]; wc_format := [88; 89; 67]; wc_points := [[112]; [113]]; wc_limbs := []; wc_colors := [] |} ];
     z_fps := 24;
     z_frames := [ [ (7%Z, [[[1065353216; 1073741824; 1056964608]; [1077936128; 1082130432; 0]]]);
                     ((-1)%Z, [[[1084227584; 1086324736; 1048576000]; [1088421888; 1090519040; 1065353216]]]) ];
                   [] ] |}.
Lemma ex_v00_hyps : (exists bs, spec_v00 ex_v00 = Ok bs) /\ wf_lpose0 ex_v00 /\ Forall wcomp_plain (z_comps ex_v00).
Proof.
  split; [eexists; vm_compute; reflexivity|]. split.
  - unfold wf_lpose0, wf_person, word32. cbn [ex_v00 z_fps z_frames z_comps].
    split; [reflexivity|]. split; [reflexivity|].
    repeat (constructor || split || cbn [fst snd length wc_points wc_format] || lia).
  - repeat constructor; cbn; lia.
Qed.
(* frame 0, first person, point q: X = 3.0, C = 0.0; second person, point p: Y = 6.0 *)
Lemma ex_v00_cell : exists bs jp, spec_v00 ex_v00 = Ok bs /\ parse_pose bs = Some jp /\
  js_cell (jp_frame jp 0%Z) 0 [97; 98] 1 88 = Some (VF32 1077936128) /\ js_cell (jp_frame jp 0%Z) 0 [97; 98] 1 67 = Some (VF32 0) /\
  js_cell (jp_frame jp 0%Z) 1 [97; 98] 0 89 = Some (VF32 1086324736) /\ jp_nframes jp = 2%Z.
Proof. eexists. eexists. split; [vm_compute; reflexivity|]. split; [vm_compute; reflexivity|]. vm_compute. repeat split; reflexivity. Qed.

(* ---- a format whose confidence letter is not the last one ("CXY"), written by Pose.write (F5, fixed) ---- *)
Definition ex_cxy : wpose :=
  {| w_dims := (1, 1, 1)%Z;
     w_comps := [ {| wc_name := [99]; wc_format := [67; 88; 89]; wc_points := [[97]; [98]]; wc_limbs := []; wc_colors := [] |} ];
     w_fps := 4607182418800017408;
     w_shape := [1; 1; 2; 2];
     w_data := [4607182418800017408; 4611686018427387904; 4613937818241073152; 4616189618054758400];   (* 1 2 / 3 4 *)
     w_cshape := [1; 1; 2];
     w_conf := [4602678819172646912; 4598175219545276416] |}.                                           (* 0.5 0.25 *)
(* Python: point a = (1.0, 2.0) confidence 0.5, point b = (3.0, 4.0) confidence 0.25.  JavaScript (after fix F5): the
   letter "X" at position 1 is the coordinate of index 0, "Y" at position 2 the coordinate of index 1, "C" the confidence -
   the hypotheses of js_index_eq are met by a format whose confidence letter comes first. *)
Lemma js_format_cxy_example : exists p bs py jp c,
  write_pose p = Ok bs /\ wf_arrays p /\ 1 <= nth 3 (w_shape p) 0 /\ Forall wcomp_plain (w_comps p) /\
  run_plain full_read_prog {| pbuf := bs; poff := 0 |} = Ok (py, {| pbuf := bs; poff := lenN bs |}) /\
  parse_pose bs = Some jp /\ nth_error (h_comps (p_header py)) 0 = Some c /\
  c_format c = [67; 88; 89] /\ coord_index (c_format c) 1 = 0%nat /\ coord_index (c_format c) 2 = 1%nat /\
  tget 0 (py_data (p_body py)) [0; 0; 0; 0]%nat = 1065353216 /\ tget 0 (py_data (p_body py)) [0; 0; 0; 1]%nat = 1073741824 /\
  js_cell (jp_frame jp 0%Z) 0 (c_name c) 0 67 = Some (VF32 1056964608) /\
  js_cell (jp_frame jp 0%Z) 0 (c_name c) 0 88 = Some (VF32 1065353216) /\
  js_cell (jp_frame jp 0%Z) 0 (c_name c) 0 89 = Some (VF32 1073741824) /\
  js_cell (jp_frame jp 0%Z) 0 (c_name c) 1 88 = Some (VF32 (tget 0 (py_data (p_body py)) [0; 0; 1; 0]%nat)) /\
  js_cell (jp_frame jp 0%Z) 0 (c_name c) 1 67 = Some (VF32 1048576000).
Proof.
  exists ex_cxy. eexists. eexists. eexists. eexists.
  split; [vm_compute; reflexivity|]. split; [split; reflexivity|]. split; [cbn; lia|].
  split; [repeat constructor; cbn; lia|].
  split; [vm_compute; reflexivity|]. split; [vm_compute; reflexivity|]. split; [vm_compute; reflexivity|].
  vm_compute. repeat split; reflexivity.
Qed.

(* ---- a name that starts with U+FEFF: TextDecoder drops it, bytes.decode('utf-8') keeps it ---- *)
Definition ex_bom : wpose :=
  {| w_dims := (1, 1, 1)%Z;
     w_comps := [ {| wc_name := [65279; 97]; wc_format := [88; 67]; wc_points := [[112]]; wc_limbs := []; wc_colors := [] |} ];
     w_fps := 4607182418800017408; w_shape := [1; 1; 1; 1]; w_data := [4607182418800017408]; w_cshape := [1; 1; 1];
     w_conf := [4607182418800017408] |}.
Lemma js_bom_refuted_w : exists p bs py jp hd hl c,
  write_pose p = Ok bs /\ run_plain full_read_prog {| pbuf := bs; poff := 0 |} = Ok (py, {| pbuf := bs; poff := lenN bs |}) /\
  parse_pose bs = Some jp /\ header_view (jp_header jp) = Some (hd, hl) /\
  nth_error (h_comps (p_header py)) 0 = Some c /\ c_name c = [65279; 97] /\
  map c_name (h_comps hd) = [[97]].
Proof.
  exists ex_bom. eexists. eexists. eexists. eexists. eexists. eexists.
  split; [vm_compute; reflexivity|]. split; [vm_compute; reflexivity|]. split; [vm_compute; reflexivity|].
  split; [vm_compute; reflexivity|]. vm_compute. repeat split; reflexivity.
Qed.

(* ---- two components with one name: the object keyed by name keeps only the last one ---- *)
Definition ex_dup : wpose :=
  {| w_dims := (1, 1, 1)%Z;
     w_comps := [ {| wc_name := [97]; wc_format := [88; 67]; wc_points := [[112]]; wc_limbs := []; wc_colors := [] |};
                  {| wc_name := [97]; wc_format := [88; 67]; wc_points := [[113]]; wc_limbs := []; wc_colors := [] |} ];
     w_fps := 4607182418800017408; w_shape := [1; 1; 2; 1]; w_data := [4607182418800017408; 4611686018427387904];
     w_cshape := [1; 1; 2]; w_conf := [4607182418800017408; 4607182418800017408] |}.
Lemma js_duplicate_names_w : exists bs jp, write_pose ex_dup = Ok bs /\ parse_pose bs = Some jp /\
  js_cell (jp_frame jp 0%Z) 0 [97] 0 88 = Some (VF32 1073741824).      (* 2.0: the second component's point *)
Proof. eexists. eexists. split; [vm_compute; reflexivity|]. split; [vm_compute; reflexivity|]. vm_compute. reflexivity. Qed.
