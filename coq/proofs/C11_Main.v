(* C11 - the statements of props/C11.v, assembled from the value-level and object-level lemmas. *)
From Coq Require Import List Arith Bool NArith ZArith Lia.
Require Import Result Tensor C11_Str C11_Select C11_Helpers C11_Heap C11_ListLemmas C11_TensorLemmas C11_SelectProofs
  C11_RemoveProofs C11_HeapProofs C11_HelperProofs C11_HelperHeapProofs.
Import ListNotations.
Open Scope list_scope.

Lemma get_components_h_value tfe h p v sel pts h' p' : deref h p = Ok v -> get_components_h tfe h p sel pts = Ok (h', p') ->
  exists cs' b', get_components_v tfe (v_comps v) (v_body v) sel pts = Ok (cs', b') /\
    deref h' p' = Ok (mkV (v_version v) (v_dims v) false cs' b').
Proof. intros Hd H. pose proof (get_components_h_refines tfe h p v sel pts Hd) as R. rewrite H in R.
  destruct (get_components_v tfe (v_comps v) (v_body v) sel pts) as [[cs' b']|]; [|contradiction]. exists cs', b'. tauto. Qed.
Lemma get_components_h_defined tfe h p v sel pts r : deref h p = Ok v ->
  get_components_v tfe (v_comps v) (v_body v) sel pts = Ok r -> exists r', get_components_h tfe h p sel pts = Ok r'.
Proof. intros Hd H. pose proof (get_components_h_refines tfe h p v sel pts Hd) as R. rewrite H in R. destruct r as [cs' b'].
  destruct (get_components_h tfe h p sel pts) as [r'|]; [eauto|contradiction]. Qed.
Lemma remove_components_h_value tfe h p v R pts h' p' : deref h p = Ok v -> remove_components_h tfe h p R pts = Ok (h', p') ->
  exists cs' b', remove_components_v tfe (v_comps v) (v_body v) R pts = Ok (cs', b') /\
    deref h' p' = Ok (mkV (v_version v) (v_dims v) false cs' b') /\ exists ext, h' = h ++ ext.
Proof. intros Hd H. pose proof (remove_components_h_refines tfe h p v R pts Hd) as Rf. rewrite H in Rf.
  destruct (remove_components_v tfe (v_comps v) (v_body v) R pts) as [[cs' b']|]; [|contradiction]. exists cs', b'. tauto. Qed.

(* a well-formed source: unique names, body of F x P x (all points) x D *)
Definition source_ok (v : vpose) (F P D : nat) : Prop :=
  names_unique (v_comps v) = true /\ body_shape (v_body v) F P (total_points (v_comps v)) D.
(* point i of [v'] carries, for every frame and person, coordinates / confidence / missing flag of the source point with
   the same component and name *)
Definition carries_named_points (v v' : vpose) (F P D : nat) : Prop :=
  body_shape (v_body v') F P (total_points (v_comps v')) D /\
  b_fps (v_body v') = b_fps (v_body v) /\ b_backend (v_body v') = b_backend (v_body v) /\
  v_version v' = v_version v /\ v_dims v' = v_dims v /\
  forall i c n, nth_error (flat_names (v_comps v')) i = Some (c, n) ->
    exists k, point_index (v_comps v) c n = Ok k /\ nth_error (flat_names (v_comps v)) k = Some (c, n) /\
      same_column (v_body v) (v_body v') F P D i k.

Theorem select_points tfe h p sel pts h' p' v F P D :
  deref h p = Ok v -> source_ok v F P D -> get_components_h tfe h p sel pts = Ok (h', p') ->
  exists v', deref h' p' = Ok v' /\ carries_named_points v v' F P D.
Proof. intros Hd [Hu Hb] H. destruct (get_components_h_value _ _ _ _ _ _ _ _ Hd H) as [cs' [b' [Hv Hd']]].
  exists (mkV (v_version v) (v_dims v) false cs' b'). split; [exact Hd'|].
  destruct (select_points_v _ _ _ _ _ _ _ _ _ _ Hu Hb Hv) as [S1 [S2 [S3 S4]]].
  unfold carries_named_points. cbn [v_comps v_body v_version v_dims]. auto 10. Qed.

Theorem select_limbs tfe h p sel pts h' p' v :
  deref h p = Ok v -> header_wf (v_comps v) = true -> get_components_h tfe h p sel pts = Ok (h', p') ->
  exists v', deref h' p' = Ok v' /\ Forall2 (selected_component (v_comps v) pts) sel (v_comps v').
Proof. intros Hd Hw H. destruct (get_components_h_value _ _ _ _ _ _ _ _ Hd H) as [cs' [b' [Hv Hd']]].
  exists (mkV (v_version v) (v_dims v) false cs' b'). split; [exact Hd'|]. cbn [v_comps]. eapply select_limbs_v; eassumption. Qed.

(* a request that names existing components and, for each, existing points *)
Definition request_ok (cs : list component) (sel : list str) (pts : points_dict) : Prop :=
  (forall s, In s sel -> In s (map c_name cs)) /\
  (forall c np, In c cs -> In (c_name c) sel -> pts_lookup pts (c_name c) = Some np -> forall p, In p np -> In p (c_points c)).
Theorem select_defined tfe h p sel pts v F P D :
  deref h p = Ok v -> source_ok v F P D -> request_ok (v_comps v) sel pts ->
  (tfe = false \/ b_backend (v_body v) <> TF) -> exists r, get_components_h tfe h p sel pts = Ok r.
Proof. intros Hd [Hu Hb] [R1 R2] Htf. destruct (select_defined_v tfe _ _ sel pts _ _ _ Hu Hb R1 R2 Htf) as [r Hr].
  eapply get_components_h_defined; eassumption. Qed.

(* the TensorFlow gather as it stands raises on an empty selection (finding F17); [tfe = false] is the repaired behaviour *)
Theorem tf_empty_selection_raises b : b_backend b = TF -> get_points true [] b = Err Value.
Proof. intros H. unfold get_points. rewrite H. reflexivity. Qed.

Theorem remove_is_complement tfe h p R pts h' p' v F P D :
  deref h p = Ok v -> source_ok v F P D -> remove_components_h tfe h p R pts = Ok (h', p') ->
  exists v', deref h' p' = Ok v' /\
    (* it is the selection of the complement *)
    get_components_v tfe (v_comps v) (v_body v) (map c_name (kept_components R (v_comps v)))
       (Some (map (fun c => (c_name c, remaining_points pts c)) (kept_components R (v_comps v)))) = Ok (v_comps v', v_body v') /\
    (* exactly the surviving points, in the source order, each with its own column *)
    flat_names (v_comps v') = filter (survives R pts) (flat_names (v_comps v)) /\
    map c_name (v_comps v') = filter (fun n => negb (mem n R)) (map c_name (v_comps v)) /\
    carries_named_points v v' F P D /\
    (exists ext, h' = h ++ ext) /\ deref h' p = Ok v.
Proof. intros Hd [Hu Hb] H. destruct (remove_components_h_value _ _ _ _ _ _ _ _ Hd H) as [cs' [b' [Hv [Hd' [ext ->]]]]].
  exists (mkV (v_version v) (v_dims v) false cs' b'). split; [exact Hd'|]. cbn [v_comps v_body].
  split; [rewrite <- remove_is_complement_v; exact Hv|].
  destruct (remove_names_v _ _ _ _ _ _ _ Hu Hv) as [N1 N2]. split; [exact N1|]. split; [exact N2|].
  rewrite remove_is_complement_v in Hv. destruct (select_points_v _ _ _ _ _ _ _ _ _ _ Hu Hb Hv) as [S1 [S2 [S3 S4]]].
  split; [unfold carries_named_points; cbn [v_comps v_body v_version v_dims]; auto 10|].
  split; [eauto|now apply deref_ext]. Qed.
Theorem remove_defined tfe h p R pts v F P D :
  deref h p = Ok v -> source_ok v F P D -> (tfe = false \/ b_backend (v_body v) <> TF) ->
  exists r, remove_components_h tfe h p R pts = Ok r.
Proof. intros Hd [Hu Hb] Htf. destruct (remove_defined_v tfe _ _ R pts _ _ _ Hu Hb Htf) as [[cs' b'] Hr].
  pose proof (remove_components_h_refines tfe h p v R pts Hd) as Rf. rewrite Hr in Rf.
  destruct (remove_components_h tfe h p R pts) as [r'|]; [eauto|contradiction]. Qed.

(* ---------------------------------------------------------------- helpers *)
Theorem hide_legs_hides_only_named T tfe h p h' p' v F P D :
  hide_legs_h T tfe h p false = Ok (h', p') -> deref h p = Ok v -> body_shape (v_body v) F P (total_points (v_comps v)) D ->
  p' = p /\ exists f tbl b', detect T (map c_name (v_comps v)) = Ok f /\ hide_table T f = Ok tbl /\
    deref h' p = Ok (mkV (v_version v) (v_dims v) (v_bbox v) (v_comps v) b') /\
    hidden_columns (hide_indices (v_comps v) tbl) (v_body v) b' F P (total_points (v_comps v)) D /\
    (forall k, In k (hide_indices (v_comps v) tbl) <-> named_index (v_comps v) tbl k) /\
    length h' = length h /\ forall a, a <> p_body p -> nth_error h' a = nth_error h a.
Proof. intros H Hd Hb. destruct (hide_legs_inplace_h _ _ _ _ _ _ _ _ _ _ _ H Hd Hb) as [E [f [tbl [b' [A1 [A2 [A3 [A4 [A5 A6]]]]]]]]].
  split; [exact E|]. exists f, tbl, b'. split; [exact A1|]. split; [exact A2|]. split; [exact A3|]. split; [exact A4|].
  split; [intros k; apply hide_indices_spec|]. split; [exact A5|exact A6]. Qed.

Theorem hide_legs_removes_only_named T tfe h p h' p' v F P D :
  hide_legs_h T tfe h p true = Ok (h', p') -> deref h p = Ok v -> source_ok v F P D ->
  exists f tbl v', detect T (map c_name (v_comps v)) = Ok f /\ hide_table T f = Ok tbl /\ deref h' p' = Ok v' /\
    flat_names (v_comps v') = filter (survives [] (Some tbl)) (flat_names (v_comps v)) /\
    map c_name (v_comps v') = map c_name (v_comps v) /\
    carries_named_points v v' F P D /\ (exists ext, h' = h ++ ext) /\ deref h' p = Ok v.
Proof. intros H Hd Hs. destruct (hide_legs_remove_h _ _ _ _ _ _ H Hd) as [f [tbl [A1 [A2 A3]]]].
  destruct (remove_is_complement _ _ _ _ _ _ _ _ _ _ _ Hd Hs A3) as [v' [B1 [_ [B3 [B4 [B5 [B6 B7]]]]]]].
  exists f, tbl, v'. split; [exact A1|]. split; [exact A2|]. split; [exact B1|]. split; [exact B3|].
  split; [rewrite B4; apply filter_all; reflexivity|]. split; [exact B5|]. split; [exact B6|exact B7]. Qed.

Theorem correct_wrist_changes_only_body_wrist T h p hand h' p' v F P D :
  correct_wrist_h T h p hand = Ok (h', p') -> deref h p = Ok v -> body_shape (v_body v) F P (total_points (v_comps v)) D ->
  (forall a, a < length h -> nth_error h' a = nth_error h a) /\ deref h' p = Ok v /\
  exists b' f hw bw wi bi, deref h' p' = Ok (mkV (v_version v) (v_dims v) (v_bbox v) (v_comps v) b') /\
    detect T (map c_name (v_comps v)) = Ok f /\ wrist_entry T f hand = Ok (hw, bw) /\
    point_index (v_comps v) (fst hw) (snd hw) = Ok wi /\ point_index (v_comps v) (fst bw) (snd bw) = Ok bi /\
    wrist_corrected wi bi (v_body v) b' F P (total_points (v_comps v)) D.
Proof. intros H Hd Hb. destruct (correct_wrist_h_spec _ _ _ _ _ _ _ H Hd) as [A1 [A2 [b' [A3 A4]]]].
  split; [exact A1|]. split; [exact A2|].
  destruct (correct_wrist_body_spec _ _ _ _ _ _ _ _ _ Hb A3) as [f [hw [bw [wi [bi [B1 [B2 [B3 [B4 [_ [_ B7]]]]]]]]]]].
  exists b', f, hw, bw, wi, bi. auto 10. Qed.

Theorem correct_wrists_is_left_then_right T h p l r h' p' v F P D :
  correct_wrists_h T h p l r = Ok (h', p') -> deref h p = Ok v -> body_shape (v_body v) F P (total_points (v_comps v)) D ->
  (forall a, a < length h -> nth_error h' a = nth_error h a) /\ deref h' p = Ok v /\
  exists b1 b2 f hw1 bw1 w1 i1 hw2 bw2 w2 i2,
    deref h' p' = Ok (mkV (v_version v) (v_dims v) (v_bbox v) (v_comps v) b2) /\
    detect T (map c_name (v_comps v)) = Ok f /\
    wrist_entry T f l = Ok (hw1, bw1) /\ point_index (v_comps v) (fst hw1) (snd hw1) = Ok w1 /\ point_index (v_comps v) (fst bw1) (snd bw1) = Ok i1 /\
    wrist_entry T f r = Ok (hw2, bw2) /\ point_index (v_comps v) (fst hw2) (snd hw2) = Ok w2 /\ point_index (v_comps v) (fst bw2) (snd bw2) = Ok i2 /\
    wrist_corrected w1 i1 (v_body v) b1 F P (total_points (v_comps v)) D /\
    wrist_corrected w2 i2 b1 b2 F P (total_points (v_comps v)) D.
Proof. intros H Hd Hb. destruct (correct_wrists_h_spec _ _ _ _ _ _ _ _ H Hd) as [A1 [A2 [b1 [b2 [A3 [A4 A5]]]]]].
  split; [exact A1|]. split; [exact A2|].
  destruct (correct_wrist_body_spec _ _ _ _ _ _ _ _ _ Hb A3) as [f [hw1 [bw1 [w1 [i1 [B1 [B2 [B3 [B4 [_ [_ B7]]]]]]]]]]].
  assert (Hb1 : body_shape b1 F P (total_points (v_comps v)) D) by (destruct B7; assumption).
  destruct (correct_wrist_body_spec _ _ _ _ _ _ _ _ _ Hb1 A4) as [f' [hw2 [bw2 [w2 [i2 [C1 [C2 [C3 [C4 [_ [_ C7]]]]]]]]]]].
  assert (f' = f) by congruence. subst f'.
  exists b1, b2, f, hw1, bw1, w1, i1, hw2, bw2, w2, i2. auto 15. Qed.

Theorem reduce_holistic_selects_named T tfe h p h' p' v F P D :
  reduce_holistic_h T tfe h p = Ok (h', p') -> deref h p = Ok v -> source_ok v F P D ->
  (exists f, detect T (map c_name (v_comps v)) = Ok f /\ f <> Holistic /\ h' = h /\ p' = p) \/
  (detect T (map c_name (v_comps v)) = Ok Holistic /\
   exists bc v', In bc (v_comps v) /\ c_name bc = t_body_comp T /\ deref h' p' = Ok v' /\
     get_components_v tfe (v_comps v) (v_body v)
       (filter (fun n => negb (str_eqb n (t_world_comp T))) (map c_name (v_comps v)))
       (Some [(t_face_comp T, t_face_contours T);
              (t_body_comp T, filter (fun q => forallb (fun i => negb (substrb i q)) (t_ignore_names T)) (c_points bc))])
     = Ok (v_comps v', v_body v') /\
     carries_named_points v v' F P D /\ (exists ext, h' = h ++ ext) /\ deref h' p = Ok v).
Proof. intros H Hd Hs. destruct (reduce_holistic_h_spec _ _ _ _ _ _ _ H Hd) as [A|[A1 [names [pd [A2 A3]]]]]; [left; exact A|right].
  split; [exact A1|]. destruct (reduce_request_spec _ _ _ _ A2) as [bc [B1 [B2 [-> ->]]]].
  destruct (get_components_h_value _ _ _ _ _ _ _ _ Hd A3) as [cs' [b' [Hv Hd']]].
  destruct (select_points _ _ _ _ _ _ _ _ _ _ _ Hd Hs A3) as [v' [Hd2 Hc]]. assert (v' = mkV (v_version v) (v_dims v) false cs' b') by congruence. subst v'.
  destruct (select_pure_h _ _ _ _ _ _ _ _ A3 Hd) as [P1 [P2 _]].
  exists bc, (mkV (v_version v) (v_dims v) false cs' b'). cbn [v_comps v_body]. auto 10. Qed.
