(* C17 - vector algebra over lists of reals (dot products, Lagrange / Cauchy-Schwarz, the expansion
   of |u - t w|^2) used by the formula theorems of proofs/C17_Real.v. *)
From Coq Require Import Reals List Lra Lia.
Require Import Num C17_Repr C17_Spec.
Import ListNotations.
Local Open Scope R_scope.

Lemma list_ind2 {A B} (P : list A -> list B -> Prop) :
  P [] [] -> (forall x y a b, length a = length b -> P a b -> P (x :: a) (y :: b)) ->
  forall a b, length a = length b -> P a b.
Proof.
  intros H0 Hs a. induction a as [|x a IH]; intros [|y b] Hl; try discriminate; [exact H0|].
  apply Hs; [now injection Hl|]. apply IH. now injection Hl.
Qed.

Lemma map2_cons {A B C} (f : A -> B -> C) x y a b : map2 f (x :: a) (y :: b) = f x y :: map2 f a b.
Proof. reflexivity. Qed.
Lemma map2_nil_l {A B C} (f : A -> B -> C) b : map2 f [] b = [].
Proof. reflexivity. Qed.
Lemma map2_nil_r {A B C} (f : A -> B -> C) a : map2 f a [] = [].
Proof. destruct a; reflexivity. Qed.
Lemma map2_length {A B C} (f : A -> B -> C) a b : length a = length b -> length (map2 f a b) = length a.
Proof. intros H. unfold map2. rewrite map_length, combine_length, <- H. apply Nat.min_id. Qed.

Lemma dot_cons x y a b : dot (x :: a) (y :: b) = x * y + dot a b.
Proof. reflexivity. Qed.
Lemma dot_nil_l b : dot [] b = 0. Proof. reflexivity. Qed.
Lemma dot_nil_r a : dot a [] = 0. Proof. destruct a; reflexivity. Qed.
Lemma dot_comm a : forall b, dot a b = dot b a.
Proof.
  induction a as [|x a IH]; intros [|y b]; try reflexivity. rewrite !dot_cons, IH. ring.
Qed.
Lemma dot_self_nonneg a : 0 <= dot a a.
Proof. induction a as [|x a IH]; [unfold dot; cbn; lra|]. rewrite dot_cons. nra. Qed.

(* the model's "square then sum" is the dot product with itself *)
Lemma sum_sq_dot (v : vec) : sum R_ops (map (sq R_ops) v) = dot v v.
Proof. induction v as [|x v IH]; [reflexivity|]. cbn [map]. rewrite dot_cons, <- IH. reflexivity. Qed.
Lemma sum_map2_mul_dot (a b : vec) : sum R_ops (map2 Rmult a b) = dot a b.
Proof. reflexivity. Qed.

(* |u - t w|^2 = |u|^2 - 2 t <u,w> + t^2 |w|^2 *)
Lemma dot_axpy t : forall u w, length u = length w ->
  dot (vaxpy t u w) (vaxpy t u w) = dot u u - 2 * t * dot u w + t * t * dot w w.
Proof.
  apply list_ind2; [unfold vaxpy, dot; cbn; ring|].
  intros x y a b _ IH. unfold vaxpy in *. rewrite map2_cons, !dot_cons, IH. ring.
Qed.
Lemma dot_axpy_w t : forall u w, length u = length w -> dot (vaxpy t u w) w = dot u w - t * dot w w.
Proof.
  apply list_ind2; [unfold vaxpy, dot; cbn; ring|].
  intros x y a b _ IH. unfold vaxpy in *. rewrite map2_cons, !dot_cons, IH. ring.
Qed.
(* |u - w|^2 = |u|^2 + |w|^2 - 2 <u,w> *)
Lemma dot_vsub : forall u w, length u = length w ->
  dot (vsub u w) (vsub u w) = dot u u + dot w w - 2 * dot u w.
Proof.
  apply list_ind2; [unfold vsub, dot; cbn; ring|].
  intros x y a b _ IH. unfold vsub in *. rewrite map2_cons, !dot_cons, IH. ring.
Qed.
Lemma vsub_swap_dot : forall a b, dot (vsub a b) (vsub a b) = dot (vsub b a) (vsub b a).
Proof.
  induction a as [|x a IH]; intros [|y b]; try reflexivity. unfold vsub in *. rewrite !map2_cons, !dot_cons, IH. ring.
Qed.
(* (p1 - p3) = (p1 - p2) - (p3 - p2) *)
Lemma vsub_via : forall p1 p2 p3, length p1 = length p2 -> length p2 = length p3 ->
  vsub p1 p3 = vsub (vsub p1 p2) (vsub p3 p2).
Proof.
  induction p1 as [|x a IH]; intros [|y b] [|z c] H1 H2; try discriminate; [reflexivity|].
  unfold vsub in *. rewrite !map2_cons. f_equal; [ring|]. apply IH; [now injection H1|now injection H2].
Qed.
Lemma vsub_length a b : length a = length b -> length (vsub a b) = length a.
Proof. apply map2_length. Qed.

(* Cauchy-Schwarz (the Lagrange identity's sign): <u,w>^2 <= |u|^2 |w|^2 *)
Lemma cauchy_schwarz u w : length u = length w -> dot u w * dot u w <= dot u u * dot w w.
Proof.
  intros Hl. set (A := dot u u). set (B := dot w w). set (G := dot u w).
  assert (Hpoly : forall t, 0 <= A - 2 * t * G + t * t * B).
  { intros t. unfold A, B, G. rewrite <- (dot_axpy t u w Hl). apply dot_self_nonneg. }
  pose proof (dot_self_nonneg w) as HB. fold B in HB.
  destruct (Req_dec B 0) as [E|NE].
  - (* B = 0: the polynomial is affine and non-negative, so G = 0 *)
    rewrite E in *. destruct (Req_dec G 0) as [EG|NG]; [rewrite EG; lra|].
    exfalso. specialize (Hpoly ((A + 1) / (2 * G))).
    replace (A - 2 * ((A + 1) / (2 * G)) * G + (A + 1) / (2 * G) * ((A + 1) / (2 * G)) * 0) with (-1) in Hpoly by (field; exact NG).
    lra.
  - specialize (Hpoly (G / B)).
    replace (A - 2 * (G / B) * G + G / B * (G / B) * B) with ((A * B - G * G) / B) in Hpoly by (field; exact NE).
    assert (HBpos : 0 < B) by lra.
    assert (0 <= (A * B - G * G) / B * B) by (apply Rmult_le_pos; lra).
    replace ((A * B - G * G) / B * B) with (A * B - G * G) in H by (field; exact NE). lra.
Qed.
Lemma dot_self_zero_eq : forall a b, length a = length b -> dot (vsub a b) (vsub a b) = 0 -> a = b.
Proof.
  apply (list_ind2 (fun a b => dot (vsub a b) (vsub a b) = 0 -> a = b)); [reflexivity|].
  intros x y a b _ IH H. unfold vsub in *. rewrite map2_cons, dot_cons in H.
  pose proof (dot_self_nonneg (map2 Rminus a b)) as Hn.
  pose proof (Rle_0_sqr (x - y)) as Hs. unfold Rsqr in Hs.
  assert (Hx : (x - y) * (x - y) = 0) by lra. assert (Hr : dot (map2 Rminus a b) (map2 Rminus a b) = 0) by lra.
  f_equal; [|apply IH; exact Hr]. apply Rmult_integral in Hx. lra.
Qed.
