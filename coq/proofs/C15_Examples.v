(* C15 - non-vacuity: the hypotheses of the theorems in props/C15.v are satisfied by concrete, non-trivial poses. *)
From Coq Require Import Reals ZArith List Bool Lia Lra.
Require Import Result Num C15_Spatial C15_Real C15_Lemmas C15_Flip C15_Matmul C15_Augment C15_Focus C15_Bbox.
Import ListNotations.
Local Open Scope R_scope.

(* a 3-D pose: one frame, one person, two components (2 + 1 points); the last point of the first component and the
   whole second component are missing *)
Definition ex_p (x y z : R) : rpoint := @mkP R_ops [(x, false); (y, false); (z, false)] 1.
Definition ex_m (x y z : R) : rpoint := @mkP R_ops [(x, true); (y, true); (z, true)] 0.
Definition ex_body : rframes := [[[ex_p 1 2 3; ex_m 5 6 7; ex_m (-9) 0 9]]].
Definition ex_body2 : rframes := [[[ex_p 4 (-1) (1/2); ex_m 0 0 0; ex_m 1 1 1]]].
Definition ex_matrix : list (list R) := [[1; 2]; [0; -1]; [1/2; 3]].

Lemma ex_p_wf x y z : wf_point 3 (ex_p x y z).
Proof. split; [reflexivity|]. split; [reflexivity|]. cbn [pc ex_p]. intros H. exfalso. lra. Qed.
Lemma ex_m_wf x y z : wf_point 3 (ex_m x y z).
Proof. split; [reflexivity|]. split; reflexivity. Qed.
Lemma ex_wf : wf_body 3 ex_body.
Proof. repeat constructor; first [apply ex_p_wf | apply ex_m_wf]. Qed.
Lemma ex_wf2 : wf_body 3 ex_body2.
Proof. repeat constructor; first [apply ex_p_wf | apply ex_m_wf]. Qed.
Lemma ex_same : rel3 same_conf_mask ex_body ex_body2.
Proof. repeat constructor. Qed.

Lemma ex_flip : wf_body 3 ex_body /\ exists b', flip R_ops 3 (-2)%Z ex_body = Ok b'.
Proof. split; [exact ex_wf|]. apply flip_defined. lia. Qed.
Lemma ex_matmul : wf_body 3 ex_body /\ wf_body 3 ex_body2 /\ rel3 same_conf_mask ex_body ex_body2 /\ matrix_ok R_ops 3 2 ex_matrix = true /\
  exists b', matmul R_ops 3 3 2 ex_matrix ex_body = Ok b'.
Proof. split; [exact ex_wf|]. split; [exact ex_wf2|]. split; [exact ex_same|]. split; [reflexivity|]. now apply matmul_defined. Qed.
Lemma ex_augment : (2 <= 3)%nat /\ wf_body 3 ex_body /\ (0 <= 0 /\ -1 <= 0) /\
  exists b', augment2d R_ops 3 (1/5) (1/5) (1/5) (@mkD R_ops (1/10) 1 0 (-1/4)) ex_body = Ok b'.
Proof. split; [lia|]. split; [exact ex_wf|]. split; [lra|]. rewrite augment_as_matmul by lia. eauto. Qed.
Lemma ex_focus : wf_body 3 ex_body /\ exists r, focus R_ops R_ceil 3 ex_body = Ok r.
Proof. split; [exact ex_wf|]. apply focus_defined; [lia | exact ex_wf | reflexivity]. Qed.
Lemma ex_bbox : wf_body 3 ex_body /\ exists b', bbox R_ops 3 3 [2; 1]%nat ex_body = Ok b'.
Proof. split; [exact ex_wf|]. apply bbox_defined; cbn; lia. Qed.
(* both kinds of box occur in the example: the first component has an observed point, the second has none *)
Lemma ex_bbox_kinds : all_missing [ex_p 1 2 3; ex_m 5 6 7] = false /\ all_missing [ex_m (-9) 0 9] = true.
Proof. split; reflexivity. Qed.
