(* C03, rejection clauses on the stream reader: an argument conflict is detected before any body byte is read;
   a start at or beyond the last frame right after the three info fields of the body. *)
From Coq Require Import ZArith NArith List Lia ZifyBool ZifyN ZifyNat Bool.
Require Import ListN Result Bytes Utf8 Utf8S F32 Prog Codec ProgLemmas CodecRT PoseRead PoseReadLemmas StreamLemmas WindowLemmas StreamRead C03_Window C03_Consume.
Import ListNotations.
Open Scope N_scope.

(* one decoder step on both readers: when the plain reader succeeds on the stream's own bytes, the stream
   reader continues in a corresponding state with the same value *)
Lemma sim_bind q {A} (p : prog A) pr sr a pr' :
  v2prog p -> Sim q [] pr sr -> run_plain p pr = Ok (a, pr') ->
  exists sr', Sim q [] pr' sr' /\
    forall B (f : A -> prog B), run_stream q (pbind p f) sr = run_stream q (f a) sr'.
Proof.
  intros Hv HS Hr.
  pose proof (sim_fwd q [] p Hv _ _ _ _ HS Hr) as Hsim.
  destruct (run_stream q p sr) as [[a' sr']|e] eqn:Hrs; [|now contradiction Hsim].
  destruct Hsim as [<- [HS' _]]. exists sr'. split; [exact HS'|].
  intros B f. rewrite run_stream_bind, Hrs. reflexivity.
Qed.

(* the three info fields of a v0.2 body *)
Definition info3 : prog (N * N * N) := dop fps <- rd_u32; dop F <- rd_u32; dop P <- rd_u16; Ret (fps, F, P).
Lemma v2prog_info3 : v2prog info3.
Proof. cbn. auto. Qed.
Lemma info3_rt fw F P : fw < 4294967296 -> F < 4294967296 -> P < 65536 ->
  RTp info3 (enc_u32 fw ++ enc_u32 F ++ enc_u16 P ++ []) (fw, F, P).
Proof.
  intros H1 H2 H3. unfold info3.
  apply RTp_bind with (a := fw); [now apply rd_u32_rt|].
  apply RTp_bind with (a := F); [now apply rd_u32_rt|].
  apply RTp_bind with (a := P); [now apply rd_u16_rt|]. apply RTp_ret.
Qed.
Lemma body_prog_info3 h sf st ef et :
  body_prog h sf st ef et =
  dop x <- info3;
  (let '(fps, F, P) := x in
   let T := total_points h in
   dop D <- plift (num_dims h);
   dop s <- plift (resolve_start fps sf st);
   dop e <- plift (resolve_end fps ef et);
   dop dat <- read_frames (Z.of_N F) (Z.of_N (P * T) * D) s e;
   dop cnf <- read_frames (Z.of_N F) (Z.of_N (P * T)) s e;
   plift (mk_body fps (Z.to_N (fst dat)) P T D (snd dat) (snd cnf))).
Proof. reflexivity. Qed.

Section WithLegacy.
Variable legacy : vclass -> header -> rargs -> prog body.

Theorem conflict_rejected_stream m p bs a :
  MemoOK m -> write_pose p = Ok bs ->
  conflict (a_sf a) (a_st a) || conflict (a_ef a) (a_et a) = true ->
  exists e, fst (fst (read_stream legacy m bs a)) = Err e.
Proof.
  intros Hm H Hc.
  assert (Ha : any_arg a = true).
  { unfold any_arg, conflict in *. destruct (a_sf a), (a_st a), (a_ef a), (a_et a); try reflexivity; discriminate. }
  destruct (write_pose_ok _ _ H) as [F [P [T [D [h [b [Hs [Hcs [Hnd [Htp [Hh [Hb Hbs]]]]]]]]]]]].
  pose proof (header_of_written p bs h b Hh Hbs) as Hhead.
  destruct (stream_handoff legacy m bs a _ _ Hm Ha Hhead) as [sr [m' [_ [_ Heq]]]].
  rewrite Heq, read_body_dispatch, read_v0_2_shape, Hc. cbn. eexists; reflexivity.
Qed.

Theorem start_beyond_rejected_stream m p bs a s :
  MemoOK m -> write_pose p = Ok bs -> wf_arrays p ->
  conflict (a_sf a) (a_st a) = false -> conflict (a_ef a) (a_et a) = false ->
  resolve_start (fps_word p) (a_sf a) (a_st a) = Ok (Some s) ->
  (0 < s)%Z -> (frames_of p <= s)%Z ->
  exists e, fst (fst (read_stream legacy m bs a)) = Err e.
Proof.
  intros Hm H Hwf Hc1 Hc2 Hrs Hpos Hbey.
  assert (Ha : any_arg a = true).
  { unfold any_arg, resolve_start in *. destruct (a_sf a), (a_st a), (a_ef a), (a_et a); try reflexivity; discriminate. }
  destruct (write_pose_ok _ _ H) as [F [P [T [D [h [b [Hs [Hcs [Hnd [Htp [Hh [Hb Hbs]]]]]]]]]]]].
  unfold frames_of in Hbey. rewrite Hs in Hbey. cbn [nth] in Hbey.
  pose proof (header_of_written p bs h b Hh Hbs) as Hhead.
  destruct (stream_handoff legacy m bs a _ _ Hm Ha Hhead) as [sr [m' [HH [_ Heq]]]].
  rewrite Heq, read_body_dispatch, read_v0_2_shape, Hc1, Hc2. cbn [orb].
  (* the stream reader decodes the same three info fields, then the body decoder fails *)
  unfold write_body in Hb. rewrite Hs in Hb.
  destruct (N.ltb_spec 4294967295 F) as [|HF]; [discriminate|].
  unfold fps_word in Hrs.
  destruct (pack_f32 (w_fps p)) as [fw|] eqn:Hfps; [|discriminate].
  destruct (N.ltb_spec 65535 P) as [|HP]; [discriminate|]. apply Ok_inj in Hb.
  assert (Hinfo : run_plain info3 {| pbuf := bs; poff := lenN h |} =
                  Ok ((fw, F, P), {| pbuf := bs; poff := lenN h + lenN (enc_u32 fw ++ enc_u32 F ++ enc_u16 P ++ []) |})).
  { pose proof (info3_rt fw F P (pack_f32_lt _ _ Hfps) ltac:(lia) ltac:(lia) h
                  (flat_map (fun w => enc_u32 (f64_to_f32 w)) (w_data p) ++ flat_map (fun w => enc_u32 (f64_to_f32 w)) (w_conf p))) as HR.
    replace (h ++ (enc_u32 fw ++ enc_u32 F ++ enc_u16 P ++ []) ++ _) with bs in HR; [exact HR|].
    rewrite Hbs, <- Hb, app_nil_r, <- !app_assoc. reflexivity. }
  rewrite body_prog_info3.
  destruct (sim_bind bs info3 _ _ _ _ v2prog_info3 (body_start_sim _ _ _ HH) Hinfo) as [sr' [_ Hstep]]. rewrite Hstep.
  cbv beta iota. rewrite num_dims_canon, Hnd, total_points_canon, Htp, Hrs. cbn [plift pbind].
  destruct (resolve_end fw (a_ef a) (a_et a)) as [e'|er]; cbn [plift pbind run_stream]; [|eexists; reflexivity].
  unfold read_frames.
  destruct (Z.ltb_spec 0 s) as [_|]; [|lia]. destruct (Z.leb_spec (Z.of_N F) s) as [_|]; [|lia].
  cbn [andb pbind run_stream]. eexists; reflexivity.
Qed.
End WithLegacy.
