(* C11 - the format helpers change only the points they name (value level). *)
From Coq Require Import List Arith Bool NArith ZArith Lia.
Require Import Result Tensor C11_Str C11_Select C11_Helpers C11_ListLemmas C11_TensorLemmas C11_SelectProofs.
Import ListNotations.
Open Scope list_scope.

Lemma in_list_In k l : in_list k l = true <-> In k l.
Proof. unfold in_list. rewrite existsb_exists. split.
  - intros [y [Hy He]]. apply Nat.eqb_eq in He. now subst.
  - intros H. exists k. split; [exact H|apply Nat.eqb_refl]. Qed.

(* ---------------------------------------------------------------- pose_hide_legs(remove=False) *)
(* the named points that exist, by flat index *)
Definition named_index (cs : list component) (tbl : list (str * list str)) (k : nat) : Prop :=
  exists c pts n, In (c, pts) tbl /\ In n pts /\ point_index cs c n = Ok k.
Lemma hide_indices_spec cs tbl k : In k (hide_indices cs tbl) <-> named_index cs tbl k.
Proof. unfold hide_indices, named_index. rewrite in_flat_map. split.
  - intros [[c pts] [He Hk]]. cbn [fst snd] in Hk. apply in_flat_map in Hk. destruct Hk as [n [Hn Hk]].
    destruct (point_index cs c n) as [j|] eqn:E; [|destruct Hk]. destruct Hk as [<-|[]]. exists c, pts, n. auto.
  - intros [c [pts [n [He [Hn Hk]]]]]. exists (c, pts). split; [exact He|]. cbn [fst snd]. apply in_flat_map. exists n. split; [exact Hn|].
    rewrite Hk. now left. Qed.

(* b' is b with the columns in [idxs] zeroed (value 0, confidence 0, not missing) and every other column untouched *)
Definition hidden_columns (idxs : list nat) (b b' : body) (F P N D : nat) : Prop :=
  body_shape b' F P N D /\ b_fps b' = b_fps b /\ b_backend b' = b_backend b /\
  forall f p k, f < F -> p < P -> k < N ->
    (In k idxs ->
       tget 0%Z (b_conf b') [f; p; k] = 0%Z /\
       forall e, e < D -> tget 0%Z (b_data b') [f; p; k; e] = 0%Z /\ tget false (b_mask b') [f; p; k; e] = false) /\
    (~ In k idxs ->
       tget 0%Z (b_conf b') [f; p; k] = tget 0%Z (b_conf b) [f; p; k] /\
       forall e, e < D -> tget 0%Z (b_data b') [f; p; k; e] = tget 0%Z (b_data b) [f; p; k; e] /\
                          tget false (b_mask b') [f; p; k; e] = tget false (b_mask b) [f; p; k; e]).
Lemma hide_cols_get {X} (d z : X) idxs t ix : in_range (shape t) ix ->
  tget d (hide_cols d z idxs t) ix = if in_list (nth 2 ix 0) idxs then z else tget d t ix.
Proof. intros H. unfold hide_cols. now rewrite tget_tbuild. Qed.
Theorem hide_body_spec idxs b b' F P N D : body_shape b F P N D -> hide_body idxs b = Ok b' ->
  hidden_columns idxs b b' F P N D /\ Forall (fun k => k < N) idxs.
Proof. intros [Sd [Sm Sc]] H. unfold hide_body in H. destruct (b_backend b) eqn:Ebe; try discriminate.
  rewrite Sd, Sm, Sc in H. cbn [length Nat.eqb andb] in H.
  destruct (forallb (fun k => axis2_lt k [F; P; N; D] && axis2_lt k [F; P; N; D] && axis2_lt k [F; P; N]) idxs) eqn:Ef; [|discriminate].
  injection H as <-. split.
  - unfold hidden_columns, body_shape. cbn [b_data b_conf b_mask b_fps b_backend]. unfold hide_cols at 1 2 3. cbn [shape tbuild].
    split; [auto|]. split; [reflexivity|]. split; [auto|]. intros f p k Hf Hp Hk. split; intros Hi.
    + apply in_list_In in Hi. split.
      * rewrite hide_cols_get by (rewrite Sc; in_range_tac). cbn [nth]. now rewrite Hi.
      * intros e He. rewrite !hide_cols_get by (rewrite ?Sd, ?Sm; in_range_tac). cbn [nth]. now rewrite Hi.
    + assert (Hn : in_list k idxs = false) by (destruct (in_list k idxs) eqn:E; [apply in_list_In in E; contradiction|reflexivity]). split.
      * rewrite hide_cols_get by (rewrite Sc; in_range_tac). cbn [nth]. now rewrite Hn.
      * intros e He. rewrite !hide_cols_get by (rewrite ?Sd, ?Sm; in_range_tac). cbn [nth]. now rewrite Hn.
  - apply Forall_forall. intros k Hk. rewrite forallb_forall in Ef. specialize (Ef k Hk). unfold axis2_lt in Ef. cbn [nth] in Ef.
    apply andb_true_iff in Ef. destruct Ef as [_ Ef]. now apply Nat.ltb_lt. Qed.

(* ---------------------------------------------------------------- correct_wrist *)
Definition wrist_corrected (wi bi : nat) (b b' : body) (F P N D : nat) : Prop :=
  body_shape b' F P N D /\ b_fps b' = b_fps b /\ b_backend b' = b_backend b /\
  forall f p k, f < F -> p < P -> k < N ->
    let src := if Nat.eqb k bi then (if is_zero32 (tget 0%Z (b_conf b) [f; p; wi]) then bi else wi) else k in
    tget 0%Z (b_conf b') [f; p; k] = tget 0%Z (b_conf b) [f; p; src] /\
    forall e, e < D -> tget 0%Z (b_data b') [f; p; k; e] = tget 0%Z (b_data b) [f; p; src; e] /\
                       tget false (b_mask b') [f; p; k; e] = tget false (b_mask b) [f; p; src; e].
Lemma wrist_fix_get {X} (d : X) conf wi bi t ix : in_range (shape t) ix ->
  tget d (wrist_fix d conf wi bi t) ix =
  if Nat.eqb (nth 2 ix 0) bi
  then if is_zero32 (tget 0%Z conf [nth 0 ix 0; nth 1 ix 0; wi]) then tget d t ix else tget d t (at_col ix wi)
  else tget d t ix.
Proof. intros H. unfold wrist_fix. now rewrite tget_tbuild. Qed.
Theorem correct_wrist_body_spec T cs b hand b' F P N D : body_shape b F P N D ->
  correct_wrist_body T cs b hand = Ok b' ->
  exists f hw bw wi bi, detect T (map c_name cs) = Ok f /\ wrist_entry T f hand = Ok (hw, bw) /\
    point_index cs (fst hw) (snd hw) = Ok wi /\ point_index cs (fst bw) (snd bw) = Ok bi /\ wi < N /\ bi < N /\
    wrist_corrected wi bi b b' F P N D.
Proof. intros [Sd [Sm Sc]] H. unfold correct_wrist_body in H.
  destruct (detect T (map c_name cs)) as [f|] eqn:Ef; cbn [rbind] in H; [|discriminate].
  destruct (wrist_entry T f hand) as [[[hc hp] [bc bp]]|] eqn:Ee; cbn [rbind] in H; [|discriminate].
  destruct (point_index cs hc hp) as [wi|] eqn:Ew; cbn [rbind] in H; [|discriminate].
  destruct (point_index cs bc bp) as [bi|] eqn:Eb; cbn [rbind] in H; [|discriminate].
  destruct (b_backend b) eqn:Ebe; try discriminate. rewrite Sd, Sm, Sc in H.
  match type of H with (if ?c then _ else _) = _ => destruct c eqn:Ec end; [|discriminate]. injection H as <-.
  repeat (apply andb_true_iff in Ec; destruct Ec as [Ec ?]).
  repeat match goal with H : (_ <? _) = true |- _ => apply Nat.ltb_lt in H end.
  exists f, (hc, hp), (bc, bp), wi, bi. cbn [fst snd].
  split; [first [exact Ef|reflexivity]|]. split; [first [exact Ee|reflexivity]|]. split; [first [exact Ew|reflexivity]|]. split; [first [exact Eb|reflexivity]|]. split; [assumption|]. split; [assumption|].
  unfold wrist_corrected, body_shape. cbn [b_data b_conf b_mask b_fps b_backend].
  split; [unfold wrist_fix; cbn [shape tbuild]; auto|]. split; [reflexivity|]. split; [now rewrite Ebe|].
  intros f0 p k Hf Hp Hk. cbn zeta. split; [|intros e He; split].
  - rewrite wrist_fix_get by (rewrite Sc; in_range_tac). cbn [nth at_col].
    destruct (Nat.eqb_spec k bi) as [->|Hne]; [|reflexivity]. destruct (is_zero32 (tget 0%Z (b_conf b) [f0; p; wi])); reflexivity.
  - rewrite wrist_fix_get by (rewrite Sd; in_range_tac). cbn [nth at_col].
    destruct (Nat.eqb_spec k bi) as [->|Hne]; [|reflexivity]. destruct (is_zero32 (tget 0%Z (b_conf b) [f0; p; wi])); reflexivity.
  - rewrite wrist_fix_get by (rewrite Sm; in_range_tac). cbn [nth at_col].
    destruct (Nat.eqb_spec k bi) as [->|Hne]; [|reflexivity]. destruct (is_zero32 (tget 0%Z (b_conf b) [f0; p; wi])); reflexivity. Qed.

(* ---------------------------------------------------------------- reduce_holistic: what it asks get_components for *)
Theorem reduce_request_spec T cs names pd : reduce_request T cs = Ok (names, pd) ->
  exists bc, In bc cs /\ c_name bc = t_body_comp T /\
    names = filter (fun n => negb (str_eqb n (t_world_comp T))) (map c_name cs) /\
    pd = [(t_face_comp T, t_face_contours T);
          (t_body_comp T, filter (fun p => forallb (fun i => negb (substrb i p)) (t_ignore_names T)) (c_points bc))].
Proof. unfold reduce_request. destruct (find (fun c => str_eqb (c_name c) (t_body_comp T)) cs) as [bc|] eqn:Ef; [|discriminate].
  intros [= <- <-]. apply find_some in Ef. destruct Ef as [Hin He]. exists bc. split; [exact Hin|]. split; [|auto].
  destruct (str_eqb_spec (c_name bc) (t_body_comp T)); [assumption|discriminate]. Qed.
