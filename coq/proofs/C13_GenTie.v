(* C13 - ties between the constants regenerated from /repo (coq/gen/Gen_C13.v, harness/translate_c13.py) and
   the literals the hand-written model was written from.  A source edit that changes a table or the statement
   sequence of a modelled function makes one of these [reflexivity] proofs fail. *)
From Coq Require Import String List ZArith NArith.
Require Import Result C13_Lookup Gen_C13.
Import ListNotations.
Open Scope string_scope.

(* ---------- name tables ---------- *)
Lemma mediapipe_components_tie : map of_string Gen_C13.list_mediapipe_components = C13_Lookup.mediapipe_components.
Proof. reflexivity. Qed.
Lemma openpose_components_tie : map of_string Gen_C13.list_openpose_components = C13_Lookup.openpose_components.
Proof. reflexivity. Qed.
Lemma openpose_135_components_tie : map of_string Gen_C13.list_openpose_135_components = C13_Lookup.openpose_135_components.
Proof. reflexivity. Qed.
Lemma detect_order_tie :
  Gen_C13.detect_order = map (fun x => (fst x, fmt_name (snd x))) C13_Lookup.detect_order.
Proof. reflexivity. Qed.
(* classify tests the three lists in the order of detect_order *)
Lemma classify_follows_detect_order n :
  classify n =
  match find (fun x => mem n (snd x))
             [(Holistic, mediapipe_components); (OpenPose, openpose_components); (OpenPose135, openpose_135_components)] with
  | Some x => Some (fst x) | None => None end
  /\ map snd C13_Lookup.detect_order = [Holistic; OpenPose; OpenPose135].
Proof. split; [|reflexivity]. unfold classify, find, fst, snd.
  destruct (mem n mediapipe_components); [reflexivity|].
  destruct (mem n openpose_components); [reflexivity|].
  destruct (mem n openpose_135_components); reflexivity. Qed.
Lemma pose_shoulders_tie :
  Gen_C13.pose_shoulders = map (fun f => (fmt_name f, shoulders_s f)) [Holistic; OpenPose135; OpenPose]
  /\ forall f, shoulders f = (n2 (fst (shoulders_s f)), n2 (snd (shoulders_s f))).
Proof. split; [reflexivity|]. intros f; destruct f; reflexivity. Qed.
Lemma hands_components_tie :
  map (fun p => (fst p, Some (snd p))) Gen_C13.hands_components = map (fun f => (fmt_name f, hands_s f)) [Holistic; OpenPose]
  /\ hands_s OpenPose135 = None
  /\ forall f, hands f = conv_hands (hands_s f).
Proof. split; [reflexivity|]. split; [reflexivity|]. intros f; destruct f; reflexivity. Qed.

(* ---------- statement sequences of the modelled functions (docstrings and comments dropped) ---------- *)

Definition lit_get_component_names_body : list string :=
  [ "if isinstance(pose_or_header_or_components, Pose):
    return [c.name for c in pose_or_header_or_components.header.components]";
    "if isinstance(pose_or_header_or_components, PoseHeader):
    return [c.name for c in pose_or_header_or_components.components]";
    "raise ValueError(f'Could not get component_names from {pose_or_header_or_components}')" ].

Definition lit_pose_normalization_info_body : list string :=
  [ "(c1, p1), (c2, p2) = pose_shoulders(pose_header)";
    "return pose_header.normalization_info(p1=(c1, p1), p2=(c2, p2))" ].

Definition lit_normalize_component_3d_body : list string :=
  [ "hand_pose = pose.get_components([component_name])";
    "plane_info = hand_pose.header.normalization_info(p1=(component_name, plane[0]), p2=(component_name, plane[1]), p3=(component_name, plane[2]))";
    "line_info = hand_pose.header.normalization_info(p1=(component_name, line[0]), p2=(component_name, line[1]))";
    "normalizer = PoseNormalizer(plane=plane_info, line=line_info)";
    "normalized_hand = normalizer(hand_pose.body.data)";
    "pose.body.data = ma.concatenate([pose.body.data, normalized_hand], axis=2).astype(np.float32)";
    "pose.body.confidence = np.concatenate([pose.body.confidence, hand_pose.body.confidence], axis=2)" ].

Definition lit_normalize_hands_3d_body : list string :=
  [ "(left_hand_component, right_hand_component), plane, line = hands_components(pose.header)";
    "if left_hand:
    normalize_component_3d(pose, left_hand_component, plane, line)";
    "if right_hand:
    normalize_component_3d(pose, right_hand_component, plane, line)" ].

Definition lit_get_point_index_body : list string :=
  [ "idx = 0";
    "for c in self.components:
    if c.name == component:
        idx += c.points.index(point)
        return idx
    else:
        idx += len(c.points)";
    "raise ValueError(""Couldn't find component"")";
    "--";
    "return self._get_point_index(component, point)" ].

Definition lit_normalization_info_body : list string :=
  [ "return PoseNormalizationInfo(p1=self.get_point_index(*p1), p2=self.get_point_index(*p2), p3=None if p3 is None else self.get_point_index(*p3))" ].

Lemma lookup_code_tie :
  Gen_C13.get_component_names_body = lit_get_component_names_body
  /\ Gen_C13.pose_normalization_info_body = lit_pose_normalization_info_body
  /\ Gen_C13.normalize_component_3d_body = lit_normalize_component_3d_body
  /\ Gen_C13.normalize_hands_3d_body = lit_normalize_hands_3d_body
  /\ Gen_C13.get_point_index_body = lit_get_point_index_body
  /\ Gen_C13.normalization_info_body = lit_normalization_info_body.
Proof. repeat split; reflexivity. Qed.

Definition lit_pose_normalize_body : list string :=
  [ "if info is None:
    from pose_format.utils.generic import pose_normalization_info
    info = pose_normalization_info(self.header)";
    "transposed = self.body.points_perspective()";
    "p1s = transposed[info.p1]";
    "p2s = transposed[info.p2]";
    "center = ((p2s + p1s) / 2).mean(axis=(0, 1))";
    "self.body.data -= center";
    "mean_distance = distance_batch(p1s, p2s).mean()";
    "scale = scale_factor / mean_distance";
    "self.body.data = self.body.data * scale";
    "return self" ].

Definition lit_distance_batch_body : list string :=
  [ "squared = (p1s - p2s) ** 2";
    "summed = squared.sum(axis=-1)";
    "return summed ** 0.5" ].

Definition lit_np_points_perspective_body : list string :=
  [ "return ma.transpose(self.data, axes=POINTS_DIMS)" ].

Definition lit_tf_points_perspective_body : list string :=
  [ "return self.data.transpose(perm=POINTS_DIMS)" ].

Definition lit_points_dims : string :=
  "(2, 1, 0, 3)".

Lemma normalize_code_tie :
  Gen_C13.pose_normalize_body = lit_pose_normalize_body
  /\ Gen_C13.distance_batch_body = lit_distance_batch_body
  /\ Gen_C13.np_points_perspective_body = lit_np_points_perspective_body
  /\ Gen_C13.tf_points_perspective_body = lit_tf_points_perspective_body
  /\ Gen_C13.points_dims = lit_points_dims.
Proof. repeat split; reflexivity. Qed.

Definition lit_pose_normalize_distribution_body : list string :=
  [ "mu = mu if mu is not None else self.body.data.mean(axis=axis)";
    "std = std if std is not None else self.body.data.std(axis=axis)";
    "self.body.data = (self.body.data - mu) / std";
    "return (mu, std)" ].

Definition lit_pose_unnormalize_distribution_body : list string :=
  [ "self.body.data = self.body.data * std + mu" ].

Definition lit_tf_mean_body : list string :=
  [ "mt_sum = tf.math.reduce_sum(self.zero_filled(), axis=axis, keepdims=keepdims)";
    "mt_count = tf.math.reduce_sum(tf.cast(self.mask, mt_sum.dtype), axis=axis, keepdims=keepdims)";
    "tensor = tf.math.divide(mt_sum, mt_count)";
    "mask = tf.cast(mt_count, tf.bool)";
    "mt = MaskedTensor(tensor=tensor, mask=mask)";
    "return mt.fix_nan()" ].

Definition lit_tf_variance_body : list string :=
  [ "means = self.mean(axis=axis, keepdims=True)";
    "diff = self - means";
    "squared_deviations = diff.square()";
    "return squared_deviations.mean(axis=axis)" ].

Definition lit_tf_std_body : list string :=
  [ "variance = self.variance(axis=axis)";
    "return variance.sqrt()" ].

Lemma distribution_code_tie :
  Gen_C13.pose_normalize_distribution_body = lit_pose_normalize_distribution_body
  /\ Gen_C13.pose_unnormalize_distribution_body = lit_pose_unnormalize_distribution_body
  /\ Gen_C13.tf_mean_body = lit_tf_mean_body
  /\ Gen_C13.tf_variance_body = lit_tf_variance_body
  /\ Gen_C13.tf_std_body = lit_tf_std_body.
Proof. repeat split; reflexivity. Qed.

Definition lit_pn_init_body : list string :=
  [ "self.size = size";
    "self.plane = plane";
    "self.line = line" ].

Definition lit_pn_rotate_to_normal_body : list string :=
  [ "pose = pose - around[:, np.newaxis]";
    "old_x_axis = np.array([1, 0, 0])";
    "z_axis = normal";
    "y_axis = np.cross(old_x_axis, z_axis, axis=-1)";
    "x_axis = np.cross(z_axis, y_axis, axis=-1)";
    "axis = np.stack([x_axis, y_axis, z_axis], axis=1)";
    "rotated = np.einsum('...ij,...kj->...ik', pose, axis)";
    "return ma.masked_array(rotated, pose.mask)" ].

Definition lit_pn_get_normal_body : list string :=
  [ "triangle = pose[:, [self.plane.p1, self.plane.p2, self.plane.p3]]";
    "v1 = triangle[:, 1] - triangle[:, 0]";
    "v2 = triangle[:, 2] - triangle[:, 0]";
    "normal = np.cross(v1, v2, axisa=-1)";
    "normal /= np.linalg.norm(normal, axis=-1, keepdims=True)";
    "normal = ma.masked_array(normal, pose[:, 0].mask)";
    "return (normal, triangle[:, 0])" ].

Definition lit_pn_get_rotation_angle_body : list string :=
  [ "p1 = pose[:, self.line.p1]";
    "p2 = pose[:, self.line.p2]";
    "vec = p2 - p1";
    "return 90 + np.degrees(np.arctan2(vec[..., 1], vec[..., 0]))" ].

Definition lit_pn_rotate_body : list string :=
  [ "r = Rotation.from_euler('z', -angle[..., np.newaxis], degrees=True)";
    "rotated = np.einsum('...ij,...kj->...ik', pose, r.as_matrix()).reshape(pose.shape)";
    "return ma.masked_array(rotated, pose.mask)" ].

Definition lit_pn_scale_body : list string :=
  [ "p1 = pose[:, self.line.p1]";
    "p2 = pose[:, self.line.p2]";
    "current_size = ma.sqrt(ma.power(p2 - p1, 2).sum(axis=-1))";
    "scale = self.size / current_size";
    "pose *= scale.reshape(-1, 1, 1)";
    "pose -= pose[:, [self.line.p1]]";
    "return pose" ].

Definition lit_pn_normalize_pose_body : list string :=
  [ "normal, base = self.get_normal(pose)";
    "pose = self.rotate_to_normal(pose, normal, base)";
    "angle = self.get_rotation_angle(pose)";
    "pose = self.rotate(pose, angle)";
    "pose = self.scale(pose)";
    "pose = ma.array(pose.filled(0), mask=pose.mask)";
    "return pose" ].

Definition lit_pn_call_body : list string :=
  [ "frames, people, joints, dims = poses.shape";
    "poses = poses.reshape(-1, joints, dims)";
    "poses = self.normalize_pose(poses)";
    "return poses.reshape(frames, people, joints, dims)" ].

Lemma norm3d_code_tie :
  Gen_C13.pn_init_body = lit_pn_init_body
  /\ Gen_C13.pn_rotate_to_normal_body = lit_pn_rotate_to_normal_body
  /\ Gen_C13.pn_get_normal_body = lit_pn_get_normal_body
  /\ Gen_C13.pn_get_rotation_angle_body = lit_pn_get_rotation_angle_body
  /\ Gen_C13.pn_rotate_body = lit_pn_rotate_body
  /\ Gen_C13.pn_scale_body = lit_pn_scale_body
  /\ Gen_C13.pn_normalize_pose_body = lit_pn_normalize_pose_body
  /\ Gen_C13.pn_call_body = lit_pn_call_body.
Proof. repeat split; reflexivity. Qed.
