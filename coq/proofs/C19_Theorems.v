(* C19 - the theorems behind props/C19.v, in the vocabulary of model/C19_Spec.v. *)
From Coq Require Import List Arith NArith ZArith Bool Lia.
Require Import Result F32 C19_Layout C19_FrameId C19_OpenPose C19_Spec C19_ArrayLemmas C19_LoopLemmas C19_LoadProofs C19_FrameIdProofs.
Import ListNotations.
Local Open Scope nat_scope.

(* ---- facts about the 137-point table, by computation ---- *)
Lemma comps137_xyc : formats_xyc comps137.
Proof. unfold formats_xyc, comps137. repeat constructor. Qed.
Lemma comps137_total : total_points comps137 = 137.
Proof. reflexivity. Qed.
Lemma comps137_fields : map c_name comps137 =
  [ [112;111;115;101;95;107;101;121;112;111;105;110;116;115;95;50;100];
    [102;97;99;101;95;107;101;121;112;111;105;110;116;115;95;50;100];
    [104;97;110;100;95;108;101;102;116;95;107;101;121;112;111;105;110;116;115;95;50;100];
    [104;97;110;100;95;114;105;103;104;116;95;107;101;121;112;111;105;110;116;115;95;50;100] ]%N
  /\ map (fun c => length (c_points c)) comps137 = [25; 70; 21; 21].
Proof. split; reflexivity. Qed.

(* ---- any result: what is recorded, and the mask ---- *)
Lemma load_inv cs (fs : frames) fps w h d nf ps : load_openpose cs fs fps w h d nf = Ok ps ->
  exists a F P, ps = mkPose cs (w, h, d) fps (F, P, total_points cs) (a_data a)
                     (map (map (map (fun c => let m := is_zero32 c in [m; m]))) (a_conf a)) (a_conf a).
Proof.
  unfold load_openpose. intros H.
  destruct (match nf with Some n => Ok n | None => match fs with [] => Err Value | _ :: _ => Ok (list_max (map fst fs) + 1) end end) as [F|]; [|discriminate].
  cbn [rbind] in H.
  destruct (match fs with [] => Err Value | _ :: _ => Ok (list_max (map (fun x => length (snd x)) fs)) end) as [P|]; [|discriminate].
  cbn [rbind] in H.
  destruct (frame_loop cs fs _) as [a|]; [|discriminate]. cbn [rbind] in H. injection H as <-. eauto.
Qed.
Theorem recorded cs (fs : frames) fps w h d nf ps : load_openpose cs fs fps w h d nf = Ok ps ->
  p_dims ps = (w, h, d) /\ p_fps ps = fps /\ p_comps ps = cs.
Proof. intros H. destruct (load_inv _ _ _ _ _ _ _ _ H) as (a & F & P & ->). auto. Qed.
Theorem mask_is_conf_zero cs (fs : frames) fps w h d nf ps : load_openpose cs fs fps w h d nf = Ok ps ->
  forall f p k c, conf_at ps f p k = Some c ->
    mask_at ps f p k 0 = Some (is_zero32 c) /\ mask_at ps f p k 1 = Some (is_zero32 c).
Proof.
  intros H f p k c Hc. destruct (load_inv _ _ _ _ _ _ _ _ H) as (a & F & P & ->).
  unfold conf_at in Hc. unfold mask_at, get4. cbn [p_conf p_mask] in *. rewrite get3_map, Hc. cbn. auto.
Qed.

(* ---- the 137 layout ---- *)
Section L137.
Variables (fs : frames) (fps : num) (w h d : Z) (nf : option nat) (ps : pose).
Hypothesis Hload : load_openpose comps137 fs fps w h d nf = Ok ps.
Hypothesis Hdict : dict_ok fs.
Hypothesis Hcount : count_ok fs nf.

Lemma load_nonempty : fs <> [].
Proof. intros ->. unfold load_openpose in Hload. destruct nf; discriminate. Qed.

Section Fit.
Hypothesis Hfit : frames_fit comps137 fs.
Lemma general_137 :
  p_shape ps = (frame_count fs nf, max_people fs, 137) /\ pose_shape_ok ps /\
  forall f p k, f < frame_count fs nf -> p < max_people fs -> k < 137 ->
    cell_at ps f p k = Some (expected_cell comps137 fs f p k) /\
    forall x y c, expected_cell comps137 fs f p k = (x, y, c) ->
      mask_at ps f p k 0 = Some (is_zero32 c) /\ mask_at ps f p k 1 = Some (is_zero32 c).
Proof.
  destruct (load_general comps137 fs fps w h d nf comps137_xyc load_nonempty Hdict Hcount Hfit)
    as (ps' & E & _ & _ & _ & Hsh & Hok & Hcell).
  rewrite Hload in E. injection E as <-. rewrite comps137_total in *. auto.
Qed.
End Fit.

Hypothesis Hconf : frames_conform comps137 fs.

Theorem cell_exact_137 f p k per c i :
  json_person fs f p = Some per -> locate comps137 k = Some (c, i) ->
  let stride := length (c_format c) in
  exists numbers x y cf, lookup (c_name c) per = Some numbers /\
    nth_error numbers (stride * i + 0) = Some x /\ nth_error numbers (stride * i + 1) = Some y /\
    nth_error numbers (stride * i + 2) = Some cf /\
    data_at ps f p k 0 = Some (cast32 x) /\ data_at ps f p k 1 = Some (cast32 y) /\ conf_at ps f p k = Some (cast32 cf) /\
    mask_at ps f p k 0 = Some (is_zero32 (cast32 cf)) /\ mask_at ps f p k 1 = Some (is_zero32 (cast32 cf)).
Proof.
  intros Hper Hloc stride.
  destruct (json_person_lt _ _ _ _ Hper) as [Hf Hp].
  destruct (locate_lt _ _ _ _ Hloc) as (Hk & Hi & Hin). rewrite comps137_total in Hk.
  assert (Hst : stride = 3) by (pose proof comps137_xyc as X; unfold formats_xyc in X; rewrite Forall_forall in X; exact (X c Hin)).
  destruct (json_person_in _ _ _ _ Hper) as (x0 & Hx0 & Hper0).
  assert (Hpc : person_conforms comps137 per).
  { unfold frames_conform in Hconf. rewrite Forall_forall in Hconf. specialize (Hconf x0 Hx0). cbv beta in Hconf.
    rewrite Forall_forall in Hconf. exact (Hconf per Hper0). }
  destruct (conforming_triples comps137 per Hpc) as (ts & Ets & _ & Hts).
  destruct (Hts k c i Hloc) as (ns & x & y & cf & El & N0 & N1 & N2 & Nk).
  destruct (general_137 (conforms_fits _ _ Hconf)) as (_ & _ & Hcell).
  assert (Hf' : f < frame_count fs nf) by (unfold frame_count; unfold count_ok in Hcount; destruct nf; lia).
  destruct (Hcell f p k Hf' Hp Hk) as [Hc Hm].
  assert (Hexp : expected_cell comps137 fs f p k = (cast32 x, cast32 y, cast32 cf)).
  { unfold expected_cell. rewrite Hper, Ets, Nk. reflexivity. }
  rewrite Hexp in Hc. destruct (cell_at_inv _ _ _ _ _ _ _ Hc) as (D0 & D1 & C0).
  destruct (Hm _ _ _ Hexp) as [M0 M1].
  exists ns, x, y, cf. rewrite Hst, Nat.add_0_r. repeat split; assumption.
Qed.

Theorem absent_missing_137 f p k :
  f < frame_count fs nf -> p < max_people fs -> k < 137 -> json_person fs f p = None ->
  data_at ps f p k 0 = Some 0%N /\ data_at ps f p k 1 = Some 0%N /\ conf_at ps f p k = Some 0%N /\
  mask_at ps f p k 0 = Some true /\ mask_at ps f p k 1 = Some true.
Proof.
  intros Hf Hp Hk Hnone.
  destruct (general_137 (conforms_fits _ _ Hconf)) as (_ & _ & Hcell).
  destruct (Hcell f p k Hf Hp Hk) as [Hc Hm].
  assert (Hexp : expected_cell comps137 fs f p k = (0%N, 0%N, 0%N)) by (unfold expected_cell; now rewrite Hnone).
  rewrite Hexp in Hc. destruct (cell_at_inv _ _ _ _ _ _ _ Hc) as (D0 & D1 & C0).
  destruct (Hm _ _ _ Hexp) as [M0 M1]. repeat split; assumption.
Qed.

Theorem shape_137 : p_shape ps = (frame_count fs nf, max_people fs, 137) /\ pose_shape_ok ps.
Proof. destruct (general_137 (conforms_fits _ _ Hconf)) as (A & B & _). auto. Qed.
End L137.

(* an id that is not a key, a person index beyond the frame's list, a frame beyond the last id: absent *)
Lemma json_person_absent_frame (fs : frames) f p : ~ In f (map fst fs) -> json_person fs f p = None.
Proof. intros H. unfold json_person. now rewrite (find_frame_none f fs H). Qed.
Lemma json_person_absent_person (fs : frames) f p fr : find_frame f fs = Some fr -> length fr <= p -> json_person fs f p = None.
Proof. intros H Hl. unfold json_person. rewrite H. now apply nth_error_None. Qed.
Lemma json_person_beyond_last (fs : frames) f p : last_id fs < f -> json_person fs f p = None.
Proof.
  intros H. apply json_person_absent_frame. intros Hin. apply (list_max_ge (map fst fs) f) in Hin. unfold last_id in H. lia.
Qed.

Theorem load_total_137 (fs : frames) fps w h d nf :
  fs <> [] -> dict_ok fs -> count_ok fs nf -> frames_conform comps137 fs ->
  exists ps, load_openpose comps137 fs fps w h d nf = Ok ps.
Proof.
  intros Hne Hd Hc Hconf.
  destruct (load_general comps137 fs fps w h d nf comps137_xyc Hne Hd Hc (conforms_fits _ _ Hconf)) as (ps & E & _). eauto.
Qed.

(* ---- directory loading ---- *)
Lemma dict_set_keys {V} k (v : V) dct : map fst (dict_set k v dct) = if existsb (Nat.eqb k) (map fst dct) then map fst dct else map fst dct ++ [k].
Proof.
  induction dct as [|[k' v'] r IH]; [reflexivity|]. cbn [dict_set map fst existsb].
  destruct (Nat.eqb_spec k k') as [->|N]; cbn [orb map fst]; [reflexivity|]. rewrite IH.
  destruct (existsb (Nat.eqb k) (map fst r)); reflexivity.
Qed.
Lemma NoDup_snoc {A} (l : list A) x : NoDup l -> ~ In x l -> NoDup (l ++ [x]).
Proof.
  induction l as [|a l IH]; intros Hn Hx; cbn [app]; [constructor; [intros []|constructor]|].
  inversion Hn as [|a' l' Ha Hl]; subst. constructor.
  - rewrite in_app_iff. intros [H|[H|[]]]; [contradiction|]. subst. apply Hx. now left.
  - apply IH; [exact Hl|]. intros H. apply Hx. now right.
Qed.
Lemma dict_set_nodup {V} k (v : V) dct : NoDup (map fst dct) -> NoDup (map fst (dict_set k v dct)).
Proof.
  intros H. rewrite dict_set_keys. destruct (existsb (Nat.eqb k) (map fst dct)) eqn:E; [exact H|].
  apply NoDup_snoc; [exact H|].
  intros Hin. assert (existsb (Nat.eqb k) (map fst dct) = true); [|congruence].
  apply existsb_exists. exists k. split; [exact Hin|apply Nat.eqb_refl].
Qed.

Lemma dir_frames_nodup : forall entries acc fs, dir_frames entries acc = Ok fs -> NoDup (map fst acc) -> NoDup (map fst fs).
Proof.
  induction entries as [|[name fr] rest IH]; intros acc fs H Hn; cbn [dir_frames] in H.
  - injection H as <-. exact Hn.
  - destruct (get_frame_id name) as [id|]; [|discriminate]. cbn [rbind] in H. eapply IH; [exact H|]. now apply dict_set_nodup.
Qed.
(* files with distinct frame ids: the dictionary is the list of (id, frame) in scan order *)
Theorem dir_frames_distinct : forall entries ids acc,
  Forall2 (fun e id => get_frame_id (fst e) = Ok (N.of_nat id)) entries ids -> NoDup (map fst acc ++ ids) ->
  dir_frames entries acc = Ok (acc ++ combine ids (map snd entries)).
Proof.
  induction entries as [|[name fr] rest IH]; intros ids acc H2 Hn; inversion H2 as [|e id r ids' He Hr]; subst.
  - cbn. now rewrite app_nil_r.
  - cbn [dir_frames fst] in *. rewrite He. cbn [rbind]. rewrite Nat2N.id.
    assert (Hset : dict_set id fr acc = acc ++ [(id, fr)]).
    { assert (Hnot : ~ In id (map fst acc)).
      { intros Hin. apply NoDup_remove_2 in Hn. apply Hn. rewrite in_app_iff. now left. }
      clear - Hnot. induction acc as [|[k v] acc IHa]; [reflexivity|]. cbn [dict_set app]. cbn [map fst In] in Hnot.
      destruct (Nat.eqb_spec id k) as [->|N]; [tauto|]. rewrite IHa by tauto. reflexivity. }
    rewrite Hset, IH with (ids := ids').
    + cbn [map snd combine]. now rewrite <- app_assoc.
    + exact Hr.
    + rewrite map_app. cbn [map fst]. rewrite <- app_assoc. exact Hn.
Qed.

(* ---- the 135 layout (openpose_135.py) ---- *)
Lemma nth_error_firstn {A} n (l : list A) k : nth_error (firstn n l) k = if k <? n then nth_error l k else None.
Proof.
  revert l k; induction n as [|n IH]; intros l k; [destruct k; reflexivity|].
  destruct l as [|x l]; [cbn [firstn]; destruct k; cbn [nth_error]; destruct (_ <? S n); reflexivity|].
  destruct k as [|k]; [reflexivity|]. cbn [firstn nth_error]. rewrite IH.
  destruct (Nat.ltb_spec k n), (Nat.ltb_spec (S k) (S n)); try reflexivity; lia.
Qed.
Lemma get3_firstn {A} n (a : list (list (list A))) f p k :
  get3 (map (map (firstn n)) a) f p k = if k <? n then get3 a f p k else None.
Proof.
  unfold get3. rewrite nth_error_map. destruct (nth_error a f) as [x|]; cbn [option_map]; [|destruct (k <? n); reflexivity].
  rewrite nth_error_map. destruct (nth_error x p) as [y|]; cbn [option_map]; [|destruct (k <? n); reflexivity].
  apply nth_error_firstn.
Qed.
Lemma empty_rest_triples cs per : Forall (fun c => lookup (c_name c) per = Some []) cs -> person_triples cs per = Some [].
Proof. induction 1 as [|c cs Hc _ IH]; [reflexivity|]. cbn [person_triples]. rewrite Hc, IH. reflexivity. Qed.
Lemma conforms_135_triples per : person_conforms_135 per ->
  exists ns ts, lookup (c_name (nth 0 comps137 ([], [], [], []))) per = Some ns /\ person_triples comps137 per = Some ts /\ length ts = 135 /\
    forall k, k < 135 -> exists x y c, nth_error ns (3 * k) = Some x /\ nth_error ns (3 * k + 1) = Some y /\
                                     nth_error ns (3 * k + 2) = Some c /\ nth_error ts k = Some (x, y, c).
Proof.
  intros (ns & El & Ln & Hrest). destruct (chunk3_len 135 ns Ln) as (t & Et & Lt & Ht).
  exists ns, t. split; [exact El|].
  change comps137 with (nth 0 comps137 ([], [], [], []) :: tl comps137). cbn [person_triples].
  rewrite El, Et, (empty_rest_triples _ _ Hrest), app_nil_r. auto.
Qed.

Theorem cell_exact_135 entries (fs : frames) fps w h d nf ps :
  dir_frames entries [] = Ok fs -> load_openpose_135_directory entries fps w h d nf = Ok ps ->
  count_ok fs nf -> Forall (fun x => Forall person_conforms_135 (snd x)) fs ->
  p_comps ps = comps135 /\ p_dims ps = (w, h, d) /\ p_fps ps = fps /\ p_shape ps = (frame_count fs nf, max_people fs, 135) /\
  forall f p k, k < 135 ->
    (forall per, json_person fs f p = Some per ->
       exists numbers x y cf, lookup (c_name (nth 0 comps137 ([], [], [], []))) per = Some numbers /\
         nth_error numbers (3 * k + 0) = Some x /\ nth_error numbers (3 * k + 1) = Some y /\ nth_error numbers (3 * k + 2) = Some cf /\
         data_at ps f p k 0 = Some (cast32 x) /\ data_at ps f p k 1 = Some (cast32 y) /\ conf_at ps f p k = Some (cast32 cf) /\
         mask_at ps f p k 0 = Some (is_zero32 (cast32 cf)) /\ mask_at ps f p k 1 = Some (is_zero32 (cast32 cf))) /\
    (json_person fs f p = None -> f < frame_count fs nf -> p < max_people fs ->
       data_at ps f p k 0 = Some 0%N /\ data_at ps f p k 1 = Some 0%N /\ conf_at ps f p k = Some 0%N /\
       mask_at ps f p k 0 = Some true /\ mask_at ps f p k 1 = Some true).
Proof.
  intros Hdir H135 Hcount Hconf.
  unfold load_openpose_135_directory, load_openpose_directory in H135. rewrite Hdir in H135. cbn [rbind] in H135.
  destruct (load_openpose comps137 fs fps w h d nf) as [ps0|] eqn:Hload; [|discriminate]. cbn [rbind] in H135.
  injection H135 as <-.
  assert (Hdict : dict_ok fs) by (eapply dir_frames_nodup; [exact Hdir|constructor]).
  assert (Hfit : frames_fit comps137 fs).
  { unfold frames_fit. eapply Forall_impl; [|exact Hconf]. intros x Hx. cbv beta in Hx. eapply Forall_impl; [|exact Hx].
    intros per Hper. destruct (conforms_135_triples per Hper) as (ns & ts & _ & E & L & _). exists ts. split; [exact E|].
    rewrite comps137_total. lia. }
  destruct (recorded _ _ _ _ _ _ _ _ Hload) as (Rd & Rf & _).
  destruct (general_137 fs fps w h d nf ps0 Hload Hdict Hcount Hfit) as (Hsh & _ & Hcell).
  cbn [p_comps p_dims p_fps p_shape]. rewrite Hsh. split; [reflexivity|]. split; [exact Rd|]. split; [exact Rf|]. split; [reflexivity|].
  intros f p k Hk.
  assert (Hslice : forall x y c, cell_at ps0 f p k = Some (x, y, c) ->
            get4 (map (map (firstn 135)) (p_data ps0)) f p k 0 = Some x /\ get4 (map (map (firstn 135)) (p_data ps0)) f p k 1 = Some y /\
            get3 (map (map (firstn 135)) (p_conf ps0)) f p k = Some c /\
            get4 (map (map (firstn 135)) (p_mask ps0)) f p k 0 = mask_at ps0 f p k 0 /\
            get4 (map (map (firstn 135)) (p_mask ps0)) f p k 1 = mask_at ps0 f p k 1).
  { intros x y c Hc. destruct (cell_at_inv _ _ _ _ _ _ _ Hc) as (D0 & D1 & C0).
    unfold data_at, conf_at, mask_at, get4 in *. rewrite !get3_firstn.
    destruct (Nat.ltb_spec k 135); [|lia]. auto. }
  split.
  - intros per Hper. destruct (json_person_lt _ _ _ _ Hper) as [Hf Hp].
    assert (Hf' : f < frame_count fs nf) by (unfold frame_count; unfold count_ok in Hcount; destruct nf; lia).
    destruct (Hcell f p k Hf' Hp ltac:(lia)) as [Hc Hm].
    destruct (json_person_in _ _ _ _ Hper) as (x0 & Hx0 & Hper0).
    rewrite Forall_forall in Hconf. specialize (Hconf x0 Hx0). cbv beta in Hconf. rewrite Forall_forall in Hconf.
    destruct (conforms_135_triples per (Hconf per Hper0)) as (ns & ts & El & Ets & Lts & Hts).
    destruct (Hts k Hk) as (x & y & cf & N0 & N1 & N2 & Nk).
    assert (Hexp : expected_cell comps137 fs f p k = (cast32 x, cast32 y, cast32 cf)).
    { unfold expected_cell. rewrite Hper, Ets, Nk. reflexivity. }
    rewrite Hexp in Hc. destruct (Hslice _ _ _ Hc) as (D0 & D1 & C0 & M0 & M1). destruct (Hm _ _ _ Hexp) as [M0' M1'].
    exists ns, x, y, cf. rewrite Nat.add_0_r. split; [exact El|]. split; [exact N0|]. split; [exact N1|]. split; [exact N2|].
    split; [exact D0|]. split; [exact D1|]. split; [exact C0|]. split; [exact (eq_trans M0 M0')|exact (eq_trans M1 M1')].
  - intros Hnone Hf Hp. destruct (Hcell f p k Hf Hp ltac:(lia)) as [Hc Hm].
    assert (Hexp : expected_cell comps137 fs f p k = (0%N, 0%N, 0%N)) by (unfold expected_cell; now rewrite Hnone).
    rewrite Hexp in Hc. destruct (Hslice _ _ _ Hc) as (D0 & D1 & C0 & M0 & M1). destruct (Hm _ _ _ Hexp) as [M0' M1'].
    split; [exact D0|]. split; [exact D1|]. split; [exact C0|]. split; [exact (eq_trans M0 M0')|exact (eq_trans M1 M1')].
Qed.
