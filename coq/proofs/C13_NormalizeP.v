(* C13 - Pose.normalize over the reals: post-condition, invariance under translation and uniform positive
   scaling, mask unchanged. *)
From Coq Require Import Reals List Lra Lia Arith Bool.
Require Import Num C13_Normalize C13_RBase.
Import ListNotations.
Open Scope R_scope.

Notation rpt := (C13_Normalize.pt R_ops).
Notation rgetp := (getp R_ops).
Notation rcoord := (coord R_ops).
Notation rboth := (both R_ops).
Notation rdist := (dist R_ops).
Notation rmid := (mid R_ops).

(* ---------- structure ---------- *)
Lemma getp_map (f : rpt -> rpt) r i : pm (rgetp r i) = false -> rgetp (map f r) i = f (rgetp r i).
Proof. unfold getp. revert i. induction r as [|p r IH]; intros [|i] H; cbn [nth map] in *; try discriminate; [reflexivity|].
  apply IH. exact H. Qed.
Lemma pm_getp_map (f : rpt -> rpt) r i : (forall p, pm (f p) = pm p) -> pm (rgetp (map f r) i) = pm (rgetp r i).
Proof. intros Hf. unfold getp. revert i. induction r as [|p r IH]; intros [|i]; cbn [nth map]; try reflexivity; [apply Hf|apply IH]. Qed.
Lemma both_map (f : rpt -> rpt) r i j : (forall p, pm (f p) = pm p) -> rboth i j (map f r) = rboth i j r.
Proof. intros Hf. unfold both. rewrite !(pm_getp_map f) by exact Hf. reflexivity. Qed.
Lemma filter_both_map (f : rpt -> rpt) b i j : (forall p, pm (f p) = pm p) ->
  filter (rboth i j) (map (map f) b) = map (map f) (filter (rboth i j) b).
Proof. intros Hf. induction b as [|r b IH]; [reflexivity|]. cbn [map filter]. rewrite both_map by exact Hf.
  destruct (rboth i j r); cbn [map]; rewrite IH; reflexivity. Qed.
Lemma both_true r i j : rboth i j r = true -> pm (rgetp r i) = false /\ pm (rgetp r j) = false.
Proof. unfold both. destruct (pm (rgetp r i)), (pm (rgetp r j)); cbn; intros H; try discriminate; split; reflexivity. Qed.
Lemma pm_shift D c (p : rpt) : pm (shift R_ops D c p) = pm p.
Proof. unfold shift. destruct (pm p) eqn:E; [exact E|reflexivity]. Qed.
Lemma pm_scalept s (p : rpt) : pm (scalept R_ops s p) = pm p.
Proof. unfold scalept. destruct (pm p) eqn:E; [exact E|reflexivity]. Qed.
Lemma nth_map_default {A B} (f : A -> B) l d a a' : f a = a' -> nth d (map f l) a' = f (nth d l a).
Proof. intros <-. apply map_nth. Qed.

(* ---------- coordinates ---------- *)
Lemma coord_shift D c (p : rpt) d : pm p = false -> (d < D)%nat ->
  rcoord (shift R_ops D c p) d = rcoord p d - nth d c 0.
Proof. intros Hp Hd. unfold shift. rewrite Hp. unfold coord at 1. cbn [pc].
  exact (nth_map_seq (fun d => rcoord p d - nth d c 0) D d 0 Hd). Qed.
Lemma coord_scalept s (p : rpt) d : pm p = false -> rcoord (scalept R_ops s p) d = rcoord p d * s.
Proof. intros Hp. unfold scalept. rewrite Hp. unfold coord. cbn [pc]. exact (nth_map_default (fun x : R => x * s) (pc p) d 0 0 (Rmult_0_l s)). Qed.
Lemma in_seq0 d D : In d (seq 0 D) -> (d < D)%nat.
Proof. intros H. apply in_seq in H. lia. Qed.

Lemma mid_shift D c r i j d : rboth i j r = true -> (d < D)%nat ->
  rmid i j d (map (shift R_ops D c) r) = rmid i j d r - nth d c 0.
Proof. intros Hb Hd. destruct (both_true _ _ _ Hb) as [Hi Hj]. unfold mid.
  rewrite !getp_map by assumption. rewrite !coord_shift by assumption. unfold two. rsimp. lra. Qed.
Lemma mid_scale s r i j d : rboth i j r = true -> rmid i j d (map (scalept R_ops s) r) = rmid i j d r * s.
Proof. intros Hb. destruct (both_true _ _ _ Hb) as [Hi Hj]. unfold mid.
  rewrite !getp_map by assumption. rewrite !coord_scalept by assumption. unfold two. rsimp. lra. Qed.
Lemma dist_shift D c r i j : rboth i j r = true -> rdist D i j (map (shift R_ops D c) r) = rdist D i j r.
Proof. intros Hb. destruct (both_true _ _ _ Hb) as [Hi Hj]. unfold dist.
  rewrite !getp_map by assumption. f_equal. apply rsum_map_ext. intros d Hd. apply in_seq0 in Hd.
  rewrite !coord_shift by assumption. unfold sq. rsimp. ring. Qed.
Definition sqsum D (p q : rpt) : R := rsum (map (fun d => sq R_ops (sub R_ops (rcoord p d) (rcoord q d))) (seq 0 D)).
Lemma sqsum_nonneg D p q : 0 <= sqsum D p q.
Proof. apply rsum_nonneg. intros x Hx. apply in_map_iff in Hx. destruct Hx as [d [<- _]]. unfold sq. rsimp. apply Rle_0_sqr. Qed.
Lemma dist_nonneg D i j r : 0 <= rdist D i j r.
Proof. unfold dist. rsimp. apply sqrt_pos. Qed.
Lemma dist_scale D s r i j : rboth i j r = true -> rdist D i j (map (scalept R_ops s) r) = rdist D i j r * Rabs s.
Proof. intros Hb. destruct (both_true _ _ _ Hb) as [Hi Hj]. unfold dist.
  rewrite !getp_map by assumption. fold (sqsum D (rgetp r i) (rgetp r j)).
  replace (rsum (map (fun d => sq R_ops (sub R_ops (rcoord (scalept R_ops s (rgetp r i)) d) (rcoord (scalept R_ops s (rgetp r j)) d))) (seq 0 D)))
    with (s * s * sqsum D (rgetp r i) (rgetp r j)).
  - rsimp. rewrite sqrt_sq_scal by apply sqsum_nonneg. ring.
  - unfold sqsum. rewrite Rmult_comm. rewrite <- rsum_map_scal. apply rsum_map_ext. intros d _.
    rewrite !coord_scalept by assumption. unfold sq. rsimp. ring. Qed.

(* ---------- the two reductions ---------- *)
Definition nondeg (D i j : nat) (b : list (list rpt)) : Prop :=
  exists r, In r b /\ rboth i j r = true /\ rdist D i j r <> 0.
Lemma nondeg_valid D i j b : nondeg D i j b -> filter (rboth i j) b <> [].
Proof. intros [r [Hin [Hb _]]] E. assert (H : In r (filter (rboth i j) b)) by (apply filter_In; split; assumption).
  rewrite E in H. destruct H. Qed.
Lemma mean_distance_pos D i j b : nondeg D i j b -> 0 < mean_distance R_ops D i j b.
Proof. intros [r [Hin [Hb Hd]]]. unfold mean_distance. apply (rmean_pos _ (rdist D i j r)).
  - intros y Hy. apply in_map_iff in Hy. destruct Hy as [r' [<- _]]. apply dist_nonneg.
  - apply in_map. apply filter_In. split; assumption.
  - pose proof (dist_nonneg D i j r). lra. Qed.
Lemma rmean_map_minus {A} (f : A -> R) c l : l <> [] -> rmean (map (fun x => f x - c) l) = rmean (map f l) - c.
Proof. intros Hl. rewrite (rmean_map_ext _ (fun x => (f x - c) * 1)) by (intros; ring).
  rewrite rmean_map_affine by exact Hl. req. ring. Qed.
Lemma mean_distance_shift D c i j b :
  mean_distance R_ops D i j (map (map (shift R_ops D c)) b) = mean_distance R_ops D i j b.
Proof. unfold mean_distance. rewrite filter_both_map by apply pm_shift. rewrite map_map.
  apply rmean_map_ext. intros r Hr. apply filter_In in Hr. apply dist_shift. apply Hr. Qed.
Lemma mean_distance_scale D s i j b :
  mean_distance R_ops D i j (map (map (scalept R_ops s)) b) = mean_distance R_ops D i j b * Rabs s.
Proof. unfold mean_distance. rewrite filter_both_map by apply pm_scalept. rewrite map_map.
  rewrite <- rmean_map_scal. apply rmean_map_ext. intros r Hr. apply filter_In in Hr. apply dist_scale. apply Hr. Qed.
Lemma center_nth D i j b d : (d < D)%nat ->
  nth d (center R_ops D i j b) 0 = rmean (map (rmid i j d) (filter (rboth i j) b)).
Proof. intros Hd. unfold center.
  exact (nth_map_seq (fun d => rmean (map (rmid i j d) (filter (rboth i j) b))) D d 0 Hd). Qed.
Lemma center_shift D c i j b d : (d < D)%nat -> filter (rboth i j) b <> [] ->
  nth d (center R_ops D i j (map (map (shift R_ops D c)) b)) 0 = nth d (center R_ops D i j b) 0 - nth d c 0.
Proof. intros Hd Hne. rewrite !center_nth by exact Hd. rewrite filter_both_map by apply pm_shift. rewrite map_map.
  rewrite <- rmean_map_minus by exact Hne. apply rmean_map_ext. intros r Hr. apply filter_In in Hr. apply mid_shift; [apply Hr|exact Hd]. Qed.
Lemma center_scale D s i j b d : (d < D)%nat ->
  nth d (center R_ops D i j (map (map (scalept R_ops s)) b)) 0 = nth d (center R_ops D i j b) 0 * s.
Proof. intros Hd. rewrite !center_nth by exact Hd. rewrite filter_both_map by apply pm_scalept. rewrite map_map.
  rewrite <- rmean_map_scal. apply rmean_map_ext. intros r Hr. apply filter_In in Hr. apply mid_scale. apply Hr. Qed.

Lemma normalize_eq D i j sf b : filter (rboth i j) b <> [] ->
  normalize R_ops D i j sf b =
  map (map (scalept R_ops (sf / mean_distance R_ops D i j b))) (map (map (shift R_ops D (center R_ops D i j b))) b).
Proof. intros Hne. unfold normalize. destruct (filter (rboth i j) b) eqn:E; [congruence|].
  cbv zeta. rewrite mean_distance_shift. reflexivity. Qed.

(* ---------- normalize_post ---------- *)
Theorem normalize_post D i j sf b : nondeg D i j b ->
  mean_distance R_ops D i j (normalize R_ops D i j sf b) = Rabs sf
  /\ forall d, (d < D)%nat -> nth d (center R_ops D i j (normalize R_ops D i j sf b)) 0 = 0.
Proof. intros Hn. pose proof (nondeg_valid _ _ _ _ Hn) as Hne. pose proof (mean_distance_pos _ _ _ _ Hn) as Hpos.
  rewrite normalize_eq by exact Hne. split.
  - rewrite mean_distance_scale, mean_distance_shift. unfold Rdiv. rewrite Rabs_mult, Rabs_inv.
    rewrite (Rabs_right (mean_distance R_ops D i j b)) by lra. req. field. lra.
  - intros d Hd. rewrite center_scale by exact Hd. rewrite center_shift by assumption. req. lra. Qed.

(* ---------- mask ---------- *)
Theorem normalize_mask_unchanged D i j sf b : filter (rboth i j) b <> [] ->
  map (map pm) (normalize R_ops D i j sf b) = map (map pm) b.
Proof. intros Hne. rewrite normalize_eq by exact Hne. rewrite !map_map. apply map_ext. intros r.
  rewrite !map_map. apply map_ext. intros p. rewrite pm_scalept, pm_shift. reflexivity. Qed.

(* ---------- invariance ---------- *)
(* the input translated by t (per coordinate) and scaled by a: x |-> a * x + t_d, applied to the raw data of every point *)
Definition sim_pt (a : R) (t : list R) (p : rpt) : rpt :=
  @mkpt R_ops (pm p) (map (fun d => a * rcoord p d + nth d t 0) (seq 0 (length (pc p)))).
Definition sim (a : R) (t : list R) (b : list (list rpt)) : list (list rpt) := map (map (sim_pt a t)) b.
Definition wf_body (D : nat) (b : list (list rpt)) : Prop := forall r p, In r b -> In p r -> length (pc p) = D.

Lemma pm_sim a t p : pm (sim_pt a t p) = pm p.
Proof. reflexivity. Qed.
Lemma coord_sim a t (p : rpt) d : (d < length (pc p))%nat -> rcoord (sim_pt a t p) d = a * rcoord p d + nth d t 0.
Proof. intros Hd. unfold sim_pt, coord at 1. cbn [pc].
  exact (nth_map_seq (fun d => a * rcoord p d + nth d t 0) (length (pc p)) d 0 Hd). Qed.
Lemma getp_in r i : pm (rgetp r i) = false -> In (rgetp r i) r.
Proof. unfold getp. intros H. destruct (Nat.lt_ge_cases i (length r)) as [Hlt|Hge]; [apply nth_In; exact Hlt|].
  rewrite nth_overflow in H by exact Hge. discriminate. Qed.
Section Sim.
Variables (D i j : nat) (a : R) (t : list R) (b : list (list rpt)).
Hypothesis Ha : 0 < a.
Hypothesis Hwf : wf_body D b.
Lemma wf_ref r k : In r b -> pm (rgetp r k) = false -> length (pc (rgetp r k)) = D.
Proof. intros Hr Hk. apply (Hwf r); [exact Hr|]. apply getp_in. exact Hk. Qed.
Lemma mid_sim r d : In r b -> rboth i j r = true -> (d < D)%nat ->
  rmid i j d (map (sim_pt a t) r) = a * rmid i j d r + nth d t 0.
Proof. intros Hr Hb Hd. destruct (both_true _ _ _ Hb) as [Hi Hj]. unfold mid.
  rewrite !getp_map by assumption. rewrite !coord_sim by (rewrite wf_ref by assumption; exact Hd). unfold two. rsimp. lra. Qed.
Lemma dist_sim r : In r b -> rboth i j r = true -> rdist D i j (map (sim_pt a t) r) = rdist D i j r * a.
Proof. intros Hr Hb. destruct (both_true _ _ _ Hb) as [Hi Hj]. unfold dist.
  rewrite !getp_map by assumption. fold (sqsum D (rgetp r i) (rgetp r j)).
  replace (rsum (map (fun d => sq R_ops (sub R_ops (rcoord (sim_pt a t (rgetp r i)) d) (rcoord (sim_pt a t (rgetp r j)) d))) (seq 0 D)))
    with (a * a * sqsum D (rgetp r i) (rgetp r j)).
  - rsimp. rewrite sqrt_sq_scal_pos by (try apply sqsum_nonneg; lra). ring.
  - unfold sqsum. rewrite Rmult_comm. rewrite <- rsum_map_scal. apply rsum_map_ext. intros d Hd. apply in_seq0 in Hd.
    rewrite !coord_sim by (rewrite wf_ref by assumption; exact Hd). unfold sq. rsimp. ring. Qed.
Lemma filter_sim : filter (rboth i j) (sim a t b) = map (map (sim_pt a t)) (filter (rboth i j) b).
Proof. apply filter_both_map. apply pm_sim. Qed.
Lemma mean_distance_sim : mean_distance R_ops D i j (sim a t b) = mean_distance R_ops D i j b * a.
Proof. unfold mean_distance. rewrite filter_sim, map_map. rewrite <- rmean_map_scal. apply rmean_map_ext.
  intros r Hr. apply filter_In in Hr. apply dist_sim; apply Hr. Qed.
Lemma center_sim d : (d < D)%nat -> filter (rboth i j) b <> [] ->
  nth d (center R_ops D i j (sim a t b)) 0 = a * nth d (center R_ops D i j b) 0 + nth d t 0.
Proof. intros Hd Hne. rewrite !center_nth by exact Hd. rewrite filter_sim, map_map.
  rewrite (rmean_map_ext _ (fun r => (rmid i j d r - (- nth d t 0 / a)) * a)).
  - rewrite rmean_map_affine by exact Hne. req. field. lra.
  - intros r Hr. apply filter_In in Hr. rewrite mid_sim by (try apply Hr; exact Hd). field. lra. Qed.
Lemma nondeg_sim : nondeg D i j b -> nondeg D i j (sim a t b).
Proof. intros [r [Hin [Hb Hd]]]. exists (map (sim_pt a t) r). split; [apply in_map; exact Hin|]. split.
  - rewrite both_map by apply pm_sim. exact Hb.
  - rewrite dist_sim by assumption. intros E. apply Rmult_integral in E. destruct E; [contradiction|lra]. Qed.

Theorem normalize_invariant sf : nondeg D i j b ->
  filled R_ops D (normalize R_ops D i j sf (sim a t b)) = filled R_ops D (normalize R_ops D i j sf b).
Proof. intros Hn. pose proof (nondeg_valid _ _ _ _ Hn) as Hne. pose proof (nondeg_valid _ _ _ _ (nondeg_sim Hn)) as Hne'.
  pose proof (mean_distance_pos _ _ _ _ Hn) as Hpos.
  rewrite !normalize_eq by assumption. unfold filled, sim. rewrite !map_map.
  apply map_ext_in. intros r Hr. rewrite !map_map. apply map_ext_in. intros p Hp.
  rewrite !pm_scalept, !pm_shift, pm_sim. destruct (pm p) eqn:Epm; [reflexivity|].
  unfold scalept. rewrite !pm_shift, pm_sim, Epm. unfold shift. rewrite pm_sim, Epm. cbn [pc].
  f_equal. rewrite !map_map. apply map_ext_in. intros d Hd. apply in_seq0 in Hd.
  rewrite coord_sim by (rewrite (Hwf r p) by assumption; exact Hd).
  fold (sim a t b). rewrite center_sim by assumption. rewrite mean_distance_sim. rsimp. field. lra. Qed.
End Sim.
