(* Writing a decoded legacy pose: Pose.write accepts it, and the v0.2 bytes read back (C01) to the same header
   (version 0.2), frame rate, shape, values and missing-point mask. *)
From Coq Require Import ZArith NArith List Lia ZifyBool ZifyN ZifyNat Bool.
Require Import ListN Result Bytes Utf8 Utf8S F32 Prog Codec ProgLemmas CodecRT PoseRead PoseReadLemmas WindowLemmas
  C04_Legacy C04_Spec C04_SpecRT C04_V01 C04_V00 C04_FpsSweep.
Import ListNotations.
Open Scope N_scope.

(* the decoded pose as the argument of Pose.write: float32 arrays widen exactly; fps is the number decoded *)
Definition to_wcomp (c : component) : wcomponent :=
  {| wc_name := c_name c; wc_format := c_format c; wc_points := c_points c;
     wc_limbs := map (fun l => (Z.of_N (fst l), Z.of_N (snd l))) (c_limbs c);
     wc_colors := map (fun k => (Z.of_N (fst (fst k)), Z.of_N (snd (fst k)), Z.of_N (snd k))) (c_colors c) |}.
Definition to_wpose (p : pose) : wpose :=
  let h := p_header p in let b := p_body p in
  {| w_dims := (Z.of_N (fst (fst (h_dims h))), Z.of_N (snd (fst (h_dims h))), Z.of_N (snd (h_dims h)));
     w_comps := map to_wcomp (h_comps h);
     w_fps := f32_to_f64 (b_fps b);
     w_shape := b_shape b;
     w_data := map f32_to_f64 (b_data b);
     w_cshape := firstn 3 (b_shape b);
     w_conf := map f32_to_f64 (b_conf b) |}.
(* float32 -> Python float / float64 array -> float32 again *)
Definition rt32 (w : N) : N := f64_to_f32 (f32_to_f64 w).
Definition rewrite_view (p : pose) : pose :=
  let b := p_body p in
  {| p_header := {| h_version := version_word; h_dims := h_dims (p_header p); h_comps := h_comps (p_header p) |};
     p_body := {| b_fps := b_fps b; b_shape := b_shape b; b_data := map rt32 (b_data b); b_conf := map rt32 (b_conf b);
                  b_mask := map is_zero32 (map rt32 (b_conf b)) |} |}.

(* a decoded legacy pose *)
Definition legacy_pose_ok (p : pose) : Prop :=
  let h := p_header p in let b := p_body p in
  wf_header h /\ (exists n, u16 n /\ b_fps b = f32_of_u16 n) /\
  exists F P D, b_shape b = [F; P; total_points h; D] /\ num_dims h = Ok (Z.of_N D) /\ 1 <= D /\
                F < 4294967296 /\ u16 P /\
                lenN (b_data b) = F * (P * (total_points h * D)) /\ lenN (b_conf b) = F * (P * total_points h).

(* ---------- the writer accepts ---------- *)
Lemma concat_r_ok_map {X} (f : X -> result bytes) (g : X -> bytes) xs :
  Forall (fun x => f x = Ok (g x)) xs -> concat_r (map f xs) = Ok (concat (map g xs)).
Proof. induction 1 as [|x xs Hx _ IH]; [reflexivity|]. cbn [map concat_r concat]. now rewrite Hx, IH. Qed.
Lemma concat_r_ok_app l1 l2 a b : concat_r l1 = Ok a -> concat_r l2 = Ok b -> concat_r (l1 ++ l2) = Ok (a ++ b).
Proof. revert a. induction l1 as [|r l1 IH]; intros a H1 H2; cbn [app concat_r] in *.
  - injection H1 as <-. exact H2.
  - destruct r as [x|e]; [|discriminate]. cbn [rbind] in *. destruct (concat_r l1) as [y|e]; [|discriminate].
    cbn [rbind] in *. injection H1 as <-. rewrite (IH y eq_refl H2). cbn [rbind]. now rewrite app_assoc. Qed.
Lemma pack_u16s_N (l : list N) : Forall u16 l -> pack_u16s (map Z.of_N l) = Ok (flat_map enc_u16 l).
Proof.
  intros H. unfold pack_u16s.
  assert (E : forallb u16_ok (map Z.of_N l) = true).
  { apply forallb_forall. intros z Hz. apply in_map_iff in Hz. destruct Hz as [n [<- Hn]].
    rewrite Forall_forall in H. specialize (H n Hn). unfold u16 in H. unfold u16_ok. lia. }
  rewrite E. f_equal. rewrite flat_map_map. apply flat_map_ext. intros n. now rewrite N2Z.id.
Qed.

Lemma write_component_spec c : wf_component c -> write_component (to_wcomp c) = Ok (spec_component c).
Proof.
  intros [Hn [Hf [Hp [Hnp [Hnl [Hnc [Hl Hc]]]]]]]. unfold write_component, to_wcomp, spec_component.
  cbn [wc_name wc_format wc_points wc_limbs wc_colors].
  assert (H3 : pack_u16s [Z.of_N (lenN (c_points c));
                          Z.of_N (lenN (map (fun l => (Z.of_N (fst l), Z.of_N (snd l))) (c_limbs c)));
                          Z.of_N (lenN (map (fun k => (Z.of_N (fst (fst k)), Z.of_N (snd (fst k)), Z.of_N (snd k))) (c_colors c)))]
               = Ok (enc_u16 (lenN (c_points c)) ++ enc_u16 (lenN (c_limbs c)) ++ enc_u16 (lenN (c_colors c)))).
  { unfold lenN at 2 3. rewrite !map_length. fold (lenN (c_limbs c)). fold (lenN (c_colors c)).
    pose proof (pack_u16s_N [lenN (c_points c); lenN (c_limbs c); lenN (c_colors c)]) as H. cbn [map flat_map] in H.
    rewrite app_nil_r in H. apply H. repeat (constructor; [assumption|]). constructor. }
  assert (H4 : concat_r (map write_str (c_points c)) = Ok (concat (map spec_str (c_points c)))).
  { apply concat_r_ok_map. eapply Forall_impl; [|exact Hp]. intros s. apply spec_str_written. }
  assert (H5 : concat_r (map (fun l : Z * Z => pack_u16s [fst l; snd l]) (map (fun l => (Z.of_N (fst l), Z.of_N (snd l))) (c_limbs c)))
               = Ok (concat (map spec_limb (c_limbs c)))).
  { rewrite map_map. apply concat_r_ok_map. eapply Forall_impl; [|exact Hl]. intros [a b] [Ha Hb]. cbn [fst snd] in *.
    pose proof (pack_u16s_N [a; b]) as H. cbn [map flat_map] in H. rewrite app_nil_r in H. unfold spec_limb. cbn [fst snd].
    apply H. repeat (constructor; [assumption|]). constructor. }
  assert (H6 : concat_r (map (fun k : Z * Z * Z => pack_u16s [fst (fst k); snd (fst k); snd k])
                             (map (fun k => (Z.of_N (fst (fst k)), Z.of_N (snd (fst k)), Z.of_N (snd k))) (c_colors c)))
               = Ok (concat (map spec_color (c_colors c)))).
  { rewrite map_map. apply concat_r_ok_map. eapply Forall_impl; [|exact Hc]. intros [[a b] d] [Ha [Hb Hd]]. cbn [fst snd] in *.
    pose proof (pack_u16s_N [a; b; d]) as H. cbn [map flat_map] in H. rewrite app_nil_r in H. unfold spec_color. cbn [fst snd].
    apply H. repeat (constructor; [assumption|]). constructor. }
  cbn [app concat_r]. rewrite (spec_str_written _ Hn), (spec_str_written _ Hf), H3. cbn [rbind].
  rewrite (concat_r_ok_app _ _ _ _ H4 (concat_r_ok_app _ _ _ _ H5 H6)). cbn [rbind].
  rewrite <- !app_assoc. reflexivity.
Qed.

(* everything of the reference header after the version word *)
Definition spec_header_tail (h : header) : bytes :=
  enc_u16 (fst (fst (h_dims h))) ++ enc_u16 (snd (fst (h_dims h))) ++ enc_u16 (snd (h_dims h)) ++
  enc_u16 (lenN (h_comps h)) ++ concat (map spec_component (h_comps h)).
Lemma write_header_spec h : wf_header h ->
  write_header (Z.of_N (fst (fst (h_dims h))), Z.of_N (snd (fst (h_dims h))), Z.of_N (snd (h_dims h))) (map to_wcomp (h_comps h))
  = Ok (enc_u32 version_word ++ spec_header_tail h).
Proof.
  intros [_ [Hw [Hh [Hd [Hn Hc]]]]]. unfold write_header, spec_header_tail.
  assert (H2 : write_dims (Z.of_N (fst (fst (h_dims h))), Z.of_N (snd (fst (h_dims h))), Z.of_N (snd (h_dims h)))
               = Ok (enc_u16 (fst (fst (h_dims h))) ++ enc_u16 (snd (fst (h_dims h))) ++ enc_u16 (snd (h_dims h)))).
  { unfold write_dims, u16_ok. unfold u16 in *.
    replace ((0 <=? Z.of_N (fst (fst (h_dims h))))%Z && (Z.of_N (fst (fst (h_dims h))) <? 65536)%Z) with true by lia.
    replace ((0 <=? Z.of_N (snd (fst (h_dims h))))%Z && (Z.of_N (snd (fst (h_dims h))) <? 65536)%Z) with true by lia.
    replace ((0 <=? Z.of_N (snd (h_dims h)))%Z && (Z.of_N (snd (h_dims h)) <? 65536)%Z) with true by lia.
    cbn [andb].
    pose proof (pack_u16s_N [fst (fst (h_dims h)); snd (fst (h_dims h)); snd (h_dims h)]) as H. cbn [map flat_map] in H.
    rewrite app_nil_r in H. apply H. repeat (constructor; [assumption|]). constructor. }
  assert (H3 : pack_u16s [Z.of_N (lenN (map to_wcomp (h_comps h)))] = Ok (enc_u16 (lenN (h_comps h)))).
  { unfold lenN at 1. rewrite map_length. fold (lenN (h_comps h)).
    pose proof (pack_u16s_N [lenN (h_comps h)]) as H. cbn [map flat_map] in H. rewrite app_nil_r in H. apply H.
    constructor; [assumption|constructor]. }
  assert (H4 : concat_r (map write_component (map to_wcomp (h_comps h))) = Ok (concat (map spec_component (h_comps h)))).
  { rewrite map_map. apply concat_r_ok_map. eapply Forall_impl; [|exact Hc]. intros c. apply write_component_spec. }
  cbn [app concat_r]. rewrite H2, H3, H4. cbn [rbind]. rewrite <- !app_assoc. reflexivity.
Qed.

Lemma eq_shape_refl l : eq_shape l l = true.
Proof. unfold eq_shape. rewrite Nat.eqb_refl. cbn [andb]. induction l as [|x l IH]; [reflexivity|].
  cbn [combine forallb fst snd]. now rewrite N.eqb_refl, IH. Qed.

Lemma canon_to_wcomp c : canon_comp (to_wcomp c) = c.
Proof.
  destruct c as [nm fm pts limbs cols]. unfold canon_comp, to_wcomp. cbn [wc_name wc_format wc_points wc_limbs wc_colors]. f_equal.
  - rewrite map_map. rewrite <- (map_id limbs) at 2. apply map_ext. intros [a b]. cbn [fst snd]. now rewrite !N2Z.id.
  - rewrite map_map. rewrite <- (map_id cols) at 2. apply map_ext. intros [[a b] d]. cbn [fst snd]. now rewrite !N2Z.id.
Qed.

Theorem rewrite_ok p : legacy_pose_ok p ->
  exists bs, write_pose (to_wpose p) = Ok bs /\
    forall legacy m, MemoOK m -> fst (read_bytes legacy m bs no_args) = Ok (rewrite_view p).
Proof.
  intros [Hh [[n [Hn Hfps]] [F [P [D [Hs [Hnd [HD [HF [HP [Hld Hlc]]]]]]]]]]].
  set (h := p_header p) in *. set (b := p_body p) in *.
  assert (Hwh := write_header_spec h Hh).
  assert (Hfw : pack_f32 (f32_to_f64 (b_fps b)) = Some (b_fps b)) by (rewrite Hfps; now apply fps_roundtrip).
  assert (Hw : write_pose (to_wpose p) =
               Ok ((enc_u32 version_word ++ spec_header_tail h) ++
                   enc_u32 (b_fps b) ++ enc_u32 F ++ enc_u16 P ++
                   flat_map (fun w => enc_u32 (f64_to_f32 w)) (map f32_to_f64 (b_data b)) ++
                   flat_map (fun w => enc_u32 (f64_to_f32 w)) (map f32_to_f64 (b_conf b)))).
  { unfold write_pose, to_wpose. fold h b. cbn [w_shape w_comps w_cshape w_dims]. rewrite Hs.
    replace (num_dims_of (map wc_format (map to_wcomp (h_comps h)))) with (num_dims h)
      by (unfold num_dims; now rewrite map_map).
    rewrite Hnd. cbn [rbind]. rewrite Z.eqb_refl. cbn [negb].
    replace (total_points_w (map to_wcomp (h_comps h))) with (total_points h)
      by (unfold total_points_w, total_points; now rewrite map_map).
    rewrite N.eqb_refl. cbn [negb firstn]. rewrite eq_shape_refl. cbn [negb].
    rewrite Hwh. cbn [rbind]. unfold write_body. cbn [w_shape w_fps w_data w_conf].
    destruct (N.ltb_spec 4294967295 F) as [|_]; [lia|]. rewrite Hfw.
    destruct (N.ltb_spec 65535 P) as [|_]; [unfold u16 in HP; lia|]. reflexivity. }
  eexists. split; [exact Hw|].
  intros legacy m Hm.
  assert (Hwf : wf_arrays (to_wpose p)).
  { unfold wf_arrays, to_wpose. fold h b. cbn [w_data w_shape w_conf w_cshape]. rewrite Hs. cbn [firstn prodN fold_right].
    unfold lenN in *. rewrite !map_length. lia. }
  assert (HD1 : 1 <= nth 3 (w_shape (to_wpose p)) 0) by (change (w_shape (to_wpose p)) with (b_shape b); rewrite Hs; exact HD).
  rewrite (read_bytes_written legacy m _ _ Hm Hw Hwf HD1).
  f_equal. unfold canon, rewrite_view, canon_header, canon_body, to_wpose. fold h b.
  cbn [w_dims w_comps w_fps w_shape w_data w_conf]. rewrite Hfw, !N2Z.id, !map_map.
  f_equal.
  - f_equal; [now destruct (h_dims h) as [[? ?] ?]|]. rewrite <- (map_id (h_comps h)) at 2. apply map_ext. apply canon_to_wcomp.
Qed.

Lemma window_len (F K : N) s0 e0 : (0 <= s0 <= e0)%Z -> (e0 <= Z.of_N F)%Z ->
  N.min (Z.to_N ((e0 - s0) * Z.of_N K)) (F * K - Z.to_N (s0 * Z.of_N K)) = Z.to_N (e0 - s0) * K.
Proof.
  intros Hse He.
  replace (Z.to_N ((e0 - s0) * Z.of_N K)) with (Z.to_N (e0 - s0) * K) by (rewrite Z2N.inj_mul by lia; now rewrite N2Z.id).
  replace (Z.to_N (s0 * Z.of_N K)) with (Z.to_N s0 * K) by (rewrite Z2N.inj_mul by lia; now rewrite N2Z.id).
  assert (H : Z.to_N (e0 - s0) * K <= (F - Z.to_N s0) * K) by (apply N.mul_le_mono_r; lia).
  rewrite N.mul_sub_distr_r in H. lia.
Qed.
(* ---------- the decoded legacy poses are such poses ---------- *)
(* v0.0: any window [s0, e0) of the first-person view (C04_V00.v00_window_view), in particular the whole view *)
Lemma v00_window_pose_ok c s0 e0 : wf00 c -> (0 <= s0 <= e0)%Z -> (e0 <= frames00 c)%Z ->
  legacy_pose_ok (v00_window_view c s0 e0).
Proof.
  intros Hwf Hse He. destruct (frame_lengths c Hwf) as [Hd Hc].
  destruct Hwf as [Hh [Hver [Hfps [HF [Hne [HL2 [HL Hfr]]]]]]].
  unfold legacy_pose_ok, v00_window_view, first_person_view, window_body, frames00 in *.
  cbn [p_header p_body b_fps b_shape b_data b_conf] in *.
  set (h := k0_header c) in *. set (L := spec_floats_per_point h) in *.
  split; [exact Hh|]. split; [exists (k0_fps c); split; [exact Hfps|reflexivity]|].
  exists (Z.to_N (e0 - s0)), 1, (spec_dims h).
  change (spec_points h) with (total_points h).
  split; [reflexivity|]. split; [rewrite (num_dims_spec _ Hne); unfold spec_dims; fold L; f_equal; lia|].
  split; [unfold spec_dims; fold L; lia|]. split; [unfold u16 in HF; lia|]. split; [unfold u16; lia|].
  rewrite !lenN_takeN, !lenN_dropN.
  rewrite (lenN_flat_map_uniform _ _ _ Hd), (lenN_flat_map_uniform _ _ _ Hc).
  replace (Z.of_N (1 * total_points h) * Z.of_N (spec_dims h))%Z with (Z.of_N (total_points h * spec_dims h)) by lia.
  replace (1 * total_points h) with (total_points h) by lia. rewrite !N.mul_1_l.
  split; apply window_len; lia.
Qed.
Lemma v00_pose_ok c : wf00 c -> legacy_pose_ok (first_person_view c).
Proof.
  intros Hwf. rewrite <- (v00_window_full c Hwf). apply v00_window_pose_ok; [exact Hwf| |]; unfold frames00; lia.
Qed.

(* v0.1: any window [s0, e0) of the recording *)
Lemma v01_pose_ok c s0 e0 : wf01 c -> (0 <= s0 <= e0)%Z -> (e0 <= frames01 c)%Z -> (e0 - s0 < 4294967296)%Z ->
  legacy_pose_ok (v01_view c (Z.to_N s0) (Z.to_N e0)).
Proof.
  intros Hwf Hse He0 Hbig. destruct (v01_counts c Hwf) as [Hne [Hnd HD1]].
  destruct Hwf as [Hh [Hver [Hfps [Hff [HP [HP1 [HT1 [HL [Hlen [HF53 [Hdat Hcnf]]]]]]]]]]].
  unfold legacy_pose_ok, v01_view. cbn [p_header p_body b_fps b_shape b_data b_conf].
  set (h := k1_header c) in *. unfold frames01 in *.
  assert (HlenN : lenN (k1_conf c) = lenN (k1_data c)) by (unfold lenN; now rewrite Hlen).
  split; [exact Hh|]. split; [exists (k1_fps c); split; [exact Hfps|reflexivity]|].
  exists (Z.to_N e0 - Z.to_N s0), (k1_people c), (spec_dims h).
  split; [reflexivity|]. split; [exact Hnd|]. split; [exact HD1|]. split; [lia|]. split; [exact HP|].
  change (spec_points h) with (total_points h) in *.
  pose proof (Forall_and_l _ _ _ Hdat) as Hdl. pose proof (Forall_and_l _ _ _ Hcnf) as Hcl.
  rewrite (lenN_concat_uniform _ _ (Forall_takeN _ _ _ (Forall_dropN _ _ _ Hdl))).
  rewrite (lenN_concat_uniform _ _ (Forall_takeN _ _ _ (Forall_dropN _ _ _ Hcl))).
  rewrite !lenN_takeN, !lenN_dropN, HlenN.
  replace (N.min (Z.to_N e0 - Z.to_N s0) (lenN (k1_data c) - Z.to_N s0)) with (Z.to_N e0 - Z.to_N s0) by lia.
  split; lia.
Qed.

Theorem legacy_rewrite_v00_window c s0 e0 : wf00 c -> (0 <= s0 <= e0)%Z -> (e0 <= frames00 c)%Z ->
  exists bs, write_pose (to_wpose (v00_window_view c s0 e0)) = Ok bs /\
    forall legacy m, MemoOK m -> fst (read_bytes legacy m bs no_args) = Ok (rewrite_view (v00_window_view c s0 e0)).
Proof. intros H Hs He. apply rewrite_ok. now apply v00_window_pose_ok. Qed.
Theorem legacy_rewrite_v00 c : wf00 c ->
  exists bs, write_pose (to_wpose (first_person_view c)) = Ok bs /\
    forall legacy m, MemoOK m -> fst (read_bytes legacy m bs no_args) = Ok (rewrite_view (first_person_view c)).
Proof. intros H. apply rewrite_ok, v00_pose_ok, H. Qed.
Theorem legacy_rewrite_v01 c s0 e0 : wf01 c -> (0 <= s0 <= e0)%Z -> (e0 <= frames01 c)%Z -> (e0 - s0 < 4294967296)%Z ->
  exists bs, write_pose (to_wpose (v01_view c (Z.to_N s0) (Z.to_N e0))) = Ok bs /\
    forall legacy m, MemoOK m -> fst (read_bytes legacy m bs no_args) = Ok (rewrite_view (v01_view c (Z.to_N s0) (Z.to_N e0))).
Proof. intros H Hs He Hb. apply rewrite_ok. now apply v01_pose_ok. Qed.
