(* C08 - constructors, representation and observation; reading and converting. *)
From Coq Require Import ZArith NArith List Bool Lia.
Require Import Result F32 Codec C08_Body C08_Read C08_Spec C08_Lemmas.
Import ListNotations.
Local Open Scope nat_scope.

Section Cfg.
Variables (mm : mmkind) (eo : bool).

Lemma stack3_fst {X} (g : N -> X) d (pts : t3 point) : stack3 g d (map3 fst pts) = rows g d pts.
Proof. unfold stack3, rows. apply map3_map3. Qed.
Lemma stack2_fst {X} (g : N -> X) d (pts : t2 point) :
  stack2 g d (map2n fst pts) = map2n (fun x : point => repeat (g (fst x)) d) pts.
Proof. unfold stack2, map2n. rewrite map_map. apply map_ext; intros l. apply map_map. Qed.
Lemma or_rows g d (pts : t3 point) : zip4 orb (rows g d pts) (rows g d pts) = rows g d pts.
Proof. unfold rows. rewrite zip4_map3. apply map3_ext. intros x. apply zipw_same. apply orb_diag. Qed.

(* a bare tensor handed to any constructor gives the representation of the same content *)
Lemma plain_rep b k : kD k <> 0 ->
  ctor (cfg_repaired mm eo) b (k_fps k) (Plain (kshape k) (map3 snd (k_pts k))) (kcshape k) (map3 fst (k_pts k)) = Ok (rep b k).
Proof. intros HD. apply Nat.eqb_neq in HD. destruct b; unfold ctor, np_init, mt_init, rep, kshape, kcshape;
  cbn [dshape dval last_dim last app cfg_repaired torch_rule tf_rule tf_stack valid_by valid_by_tf]; rewrite HD.
  - rewrite shape_eqb_refl. cbn [negb]. now rewrite stack3_fst.
  - now rewrite stack3_fst.
  - now rewrite stack3_fst. Qed.
(* a body that already is a representation is kept by every constructor (NumPy re-derives the same mask) *)
Lemma masked_rep b k : kD k <> 0 ->
  ctor (cfg_repaired mm eo) b (k_fps k) (g_data (rep b k)) (kcshape k) (map3 fst (k_pts k)) = Ok (rep b k).
Proof. intros HD. apply Nat.eqb_neq in HD. destruct b; unfold ctor, np_init, mt_init, rep, kshape, kcshape;
  cbn [g_data dshape dval last_dim last app stored]; try reflexivity.
  rewrite HD, shape_eqb_refl. cbn [negb]. now rewrite stack3_fst, or_rows. Qed.

Lemma tf_rows (pts : t3 point) d : tf_safe_pts pts ->
  rows (fun w => negb (is_zero32_daz w)) d pts = rows (fun w => negb (is_zero32 w)) d pts.
Proof. intros H. unfold tf_safe_pts in H. unfold rows.
  transitivity (map3 (fun z : bool => repeat (negb z) d) (map3 (fun x : point => is_zero32_daz (fst x)) pts)).
  - now rewrite map3_map3.
  - rewrite H. now rewrite map3_map3. Qed.
Lemma obs_rep b k : ok_for b (k_pts k) -> observe b (rep b k) = obs_core k.
Proof. intros H. unfold observe, gobserve, rep, obs_core. cbn [g_fps g_data g_cs g_conf dshape dval]. f_equal.
  destruct b; cbn [stored].
  - unfold rows. rewrite map4_map3. do 2 f_equal. apply map3_ext. intros x. apply map_repeat'.
  - reflexivity.
  - cbn [ok_for] in H. now rewrite tf_rows. Qed.

(* one frame *)
Lemma masked_frep b q : qD q <> 0 ->
  ctor3 (cfg_repaired mm eo) b (q_fps q) (g_data (frep b q)) [qP q; qT q] (map2n fst (q_pts q)) = Ok (frep b q).
Proof. intros HD. apply Nat.eqb_neq in HD. destruct b; unfold ctor3, np_init3, mt_init3, frep;
  cbn [g_data dshape dval last_dim last app stored cfg_repaired np_axis]; try reflexivity.
  rewrite HD, shape_eqb_refl. cbn [negb]. rewrite stack2_fst, zip3_map2. do 3 f_equal.
  apply map2n_ext. intros x. apply zipw_same. apply orb_diag. Qed.
Definition tf_safe_pts2 (pts : t2 point) : Prop :=
  map2n (fun x : point => is_zero32_daz (fst x)) pts = map2n (fun x : point => is_zero32 (fst x)) pts.
Definition ok_for2 (b : bk) (pts : t2 point) : Prop := match b with Tf => tf_safe_pts2 pts | _ => True end.
Lemma fobs_rep b q : ok_for2 b (q_pts q) -> observe3 b (frep b q) = fobs_core q.
Proof. intros H. unfold observe3, gobserve, frep, fobs_core. cbn [g_fps g_data g_cs g_conf dshape dval]. f_equal.
  destruct b; cbn [stored].
  - rewrite map3_map2n. do 2 f_equal. apply map2n_ext. intros x. apply map_repeat'.
  - reflexivity.
  - cbn [ok_for2] in H. unfold tf_safe_pts2 in H. do 2 f_equal.
    transitivity (map2n (fun z : bool => repeat (negb z) (qD q)) (map2n (fun x : point => is_zero32_daz (fst x)) (q_pts q))).
    + unfold map2n. rewrite map_map. apply map_ext; intros l. now rewrite map_map.
    + rewrite H. unfold map2n. rewrite map_map. apply map_ext; intros l. now rewrite map_map. Qed.

(* ---- reading: every backend holds the representation of the same content ---- *)
Lemma body_of_raw_rep b r :
  body_of_raw (cfg_repaired mm eo) b r = if Nat.eqb (r_D r) 0 then Err Value else Ok (rep b (core_of_raw r)).
Proof. destruct (Nat.eqb_spec (r_D r) 0) as [E|NE].
  - unfold body_of_raw. destruct b; unfold ctor, np_init, mt_init; cbn [dshape last_dim last cfg_repaired tf_stack];
      rewrite E; reflexivity.
  - apply (plain_rep b (core_of_raw r)). exact NE. Qed.
Lemma read_body_rep b buffer a : read_body (cfg_repaired mm eo) b buffer a = rmap (rep b) (read_core buffer a).
Proof. unfold read_body, read_core. destruct (read_raw_file buffer a) as [r|e]; cbn [rbind rmap]; [|reflexivity].
  rewrite body_of_raw_rep. now destruct (Nat.eqb (r_D r) 0). Qed.
Lemma read_core_D buffer a k : read_core buffer a = Ok k -> kD k <> 0.
Proof. unfold read_core. destruct (read_raw_file buffer a) as [r|e]; cbn [rbind]; [|discriminate].
  destruct (Nat.eqb_spec (r_D r) 0) as [E|NE]; [discriminate|]. intros [= <-]. exact NE. Qed.
Lemma np_to_rep b k : kD k <> 0 -> np_to (cfg_repaired mm eo) b (rep Np k) = Ok (rep b k).
Proof. intros HD. unfold np_to. cbn [rep g_fps g_data g_cs g_conf dshape dval]. now apply plain_rep. Qed.
Lemma read_convert_rep b buffer a : read_convert (cfg_repaired mm eo) b buffer a = rmap (rep b) (read_core buffer a).
Proof. unfold read_convert. rewrite read_body_rep. destruct (read_core buffer a) as [k|e] eqn:E; cbn [rmap rbind]; [|reflexivity].
  apply np_to_rep. now apply (read_core_D buffer a). Qed.
End Cfg.
