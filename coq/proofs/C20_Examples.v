(* C20 - concrete instances: the hypotheses of the theorems are satisfiable by non-trivial values, the F15
   witness collates under the repaired shortcut and is rejected under the pinned one. *)
From Coq Require Import List ZArith Arith Bool Lia.
Require Import Result Tensor C20_Collate C20_Spec C20_Pad C20_Rows C20_Dispatch.
Import ListNotations.
Local Open Scope Z_scope.

Definition ex_a : tl := TM DF32 (mkT [1;2]%nat [1;2]) (mkT [1;2]%nat [true;false]).
Definition ex_b : tl := TM DF32 (mkT [0;2]%nat []) (mkT [0;2]%nat []).
Definition ex_c : tl := TM DF32 (mkT [2;2]%nat [3;4;5;6]) (mkT [2;2]%nat [true;true;false;true]).
Definition ex_p1 : tl := TP DI64 (mkT [0]%nat []).
Definition ex_p2 : tl := TP DI64 (mkT [1]%nat [5]).

Lemma good_batch_f15 : good_batch true [2]%nat 0 [ex_a; ex_b].
Proof. split; [discriminate|]. split; repeat constructor. Qed.
Lemma good_batch_three : good_batch true [2]%nat 7 [ex_c; ex_b; ex_a].
Proof. split; [discriminate|]. split; repeat constructor. Qed.
Lemma good_batch_plain : good_batch false []%nat 7 [ex_p1; ex_p2; ex_p1].
Proof. split; [discriminate|]. split; repeat constructor; discriminate. Qed.

(* F15: lengths 1 and 0 *)
Lemma f15_repaired_collates :
  pad_tensors [ex_a; ex_b] 0 =
  Ok (OMasked DF32 (mkT [2;1;2]%nat [1;2;0;0]) (mkT [2;1;2]%nat [true;false;false;false])).
Proof. vm_compute. reflexivity. Qed.
Lemma f15_pinned_shortcut_refuted :
  exists batch, good_batch true [2]%nat 0 batch /\ pad_tensors_with sc_pinned batch 0 = Err Value.
Proof. exists [ex_a; ex_b]. split; [exact good_batch_f15|]. vm_compute. reflexivity. Qed.
Lemma f15_plain_repaired_collates :
  pad_tensors [ex_p1; ex_p2; ex_p1] 7 = Ok (OPlain DI64 (mkT [3;1]%nat [7;5;7])).
Proof. vm_compute. reflexivity. Qed.

Lemma collate_three :
  pad_tensors [ex_c; ex_b; ex_a] 7 =
  Ok (OMasked DF32 (mkT [3;2;2]%nat [3;4;5;6; 7;7;7;7; 1;2;7;7])
        (mkT [3;2;2]%nat [true;true;false;true; false;false;false;false; true;false;false;false])).
Proof. vm_compute. reflexivity. Qed.
(* hypotheses of collate_rows / padding_invalid_and_pad_value at a concrete cell *)
Lemma rows_hyps_example : nth_error [ex_c; ex_b; ex_a] 2 = Some ex_a /\ (0 < len_of ex_a)%nat /\ in_range [2]%nat [1]%nat.
Proof. split; [reflexivity|]. split; [cbn; lia|]. repeat constructor. Qed.
Lemma padding_hyps_example :
  nth_error [ex_c; ex_b; ex_a] 2 = Some ex_a /\ (len_of ex_a <= 1)%nat /\ (1 < Lmax [ex_c; ex_b; ex_a])%nat /\ in_range [2]%nat [0]%nat.
Proof. split; [reflexivity|]. split; [cbn; lia|]. split; [cbn; lia|]. repeat constructor. Qed.

(* dispatch: nested dictionaries, integers, strings *)
Definition k_a : key := [97]. Definition k_b : key := [98]. Definition k_n : key := [110]. Definition k_s : key := [115].
Definition v_of (x : tl) : value := match x with TM dt t m => VMasked dt t m | TP dt t => VPlain dt t end.
Definition ex_d1 : value := VDict [(k_a, VDict [(k_b, v_of ex_a)]); (k_n, VInt 5); (k_s, VStr [120])].
Definition ex_d2 : value := VDict [(k_a, VDict [(k_b, v_of ex_b)]); (k_n, VInt 6); (k_s, VStr [121])].
Lemma nested_example :
  zero_pad_collator [ex_d1; ex_d2] =
  Ok (ODict [(k_a, ODict [(k_b, OMasked DF32 (mkT [2;1;2]%nat [1;2;0;0]) (mkT [2;1;2]%nat [true;false;false;false]))]);
             (k_n, OPlain DI64 (mkT [2]%nat [5;6]));
             (k_s, OList [VStr [120]; VStr [121]])]).
Proof. vm_compute. reflexivity. Qed.
Lemma nested_hyps_example :
  [k_a; k_b] <> [] /\ get_path [k_a; k_b] ex_d1 = Some (v_of ex_a) /\
  Forall2 (fun b l => get_path [k_a; k_b] b = Some l) [ex_d2] [v_of ex_b] /\
  rmapM as_tl [v_of ex_a; v_of ex_b] = Ok [ex_a; ex_b] /\ Forall (good true [2]%nat) [ex_a; ex_b].
Proof. split; [discriminate|]. split; [reflexivity|]. split; [repeat constructor|]. split; [reflexivity|]. repeat constructor. Qed.
Lemma ints_hyps_example : Forall (fun n => in_i64 n = true) [5; -2147483648; 9223372036854775807].
Proof. repeat constructor. Qed.
Lemma tuple_example :
  zero_pad_collator [VTuple [v_of ex_p1; VInt 1; VStr [120]]; VTuple [v_of ex_p2; VInt 0; VStr []]] =
  Ok (OTuple [OPlain DI64 (mkT [2;1]%nat [0;5]); OPlain DI64 (mkT [2]%nat [1;0]); OList [VStr [120]; VStr []]]).
Proof. vm_compute. reflexivity. Qed.

(* outside the property (a field mixing masked and plain tensors; the first element decides the dispatch):
   the plain example is padded with a plain tensor that MaskedTorch.cat wraps in an all-True mask *)
Lemma heterogeneous_field_first_masked :
  pad_tensors [TM DF32 (mkT [2]%nat [1;2]) (mkT [2]%nat [true;false]); TP DF32 (mkT [1]%nat [3])] 0 =
  Ok (OMasked DF32 (mkT [2;2]%nat [1;2;3;0]) (mkT [2;2]%nat [true;false;true;true])).
Proof. vm_compute. reflexivity. Qed.
