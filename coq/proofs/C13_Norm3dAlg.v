(* C13 - the 3-D normaliser over the reals, part 2: algebra of the closed form [out_pt]
   (post-conditions, invariance under translation and uniform positive scaling). *)
From Coq Require Import Reals List Lra Lia Arith Bool Nsatz.
Require Import Num C13_Normalize C13_Norm3d C13_RBase C13_Norm3dP.
Import ListNotations.
Open Scope R_scope.

(* what the 3-D theorems assume of Rotation.from_euler('z', -(90 + degrees(arctan2(y, x))), degrees=True):
   its matrix is [[c, -s, 0], [s, c, 0], [0, 0, 1]] with (c, s) = (-y, -x) / sqrt(x^2 + y^2) *)
Definition zrot_spec (zrot : R -> R -> R * R) : Prop :=
  forall x y, x * x + y * y <> 0 ->
  zrot x y = (- y / rsqrt (x * x + y * y), - x / rsqrt (x * x + y * y)).

Definition plane_normal (A B C : rv) : rv := rcross (rvsub B A) (rvsub C A).
Definition sqn (v : rv) : R := rdot v v.
(* plane points not collinear *)
Definition noncollinear (A B C : rv) : Prop := sqn (plane_normal A B C) <> 0.
(* the plane normal is not along the x axis (then the coded basis [1,0,0] x n vanishes) *)
Definition normal_not_x (A B C : rv) : Prop :=
  vy (plane_normal A B C) * vy (plane_normal A B C) + vz (plane_normal A B C) * vz (plane_normal A B C) <> 0.
(* the line is not perpendicular to the plane (in particular its points are distinct) *)
Definition line_not_perp (A B C L1 L2 : rv) : Prop := sqn (rcross (rvsub L2 L1) (plane_normal A B C)) <> 0.
Definition coplanar (A B C P : rv) : Prop := rdot (rvsub P A) (plane_normal A B C) = 0.
Lemma normal_not_x_noncollinear A B C : normal_not_x A B C -> noncollinear A B C.
Proof. unfold normal_not_x, noncollinear, sqn. set (n := plane_normal A B C). intros H E. apply H. vsimp.
  pose proof (Rle_0_sqr (vx n)). pose proof (Rle_0_sqr (vy n)). pose proof (Rle_0_sqr (vz n)). unfold Rsqr in *. nra. Qed.

Lemma sqrt_nz x : 0 < x -> rsqrt x <> 0.
Proof. intros H. pose proof (sqrt_lt_R0 x H). lra. Qed.
Lemma sq_sum_pos x y : x * x + y * y <> 0 -> 0 < x * x + y * y.
Proof. intros H. pose proof (Rle_0_sqr x). pose proof (Rle_0_sqr y). unfold Rsqr in *. lra. Qed.
Lemma sqn_nonneg v : 0 <= sqn v.
Proof. unfold sqn. vsimp. pose proof (Rle_0_sqr (vx v)). pose proof (Rle_0_sqr (vy v)). pose proof (Rle_0_sqr (vz v)). unfold Rsqr in *. lra. Qed.

Lemma zrot_closed_spec : zrot_spec (zrot_closed R_ops).
Proof. intros x y H. unfold zrot_closed. rsimp. rewrite Reqb_false; [reflexivity|]. apply sqrt_nz. apply sq_sum_pos. exact H. Qed.

Section Abstract.
Variable zrot : R -> R -> R * R.
Hypothesis Hz : zrot_spec zrot.
Variable size : R.

(* the output for a given normal *)
Definition out_n (A n L1 L2 p : rv) : rv :=
  let q1 := frame A n L1 in
  let q2 := frame A n L2 in
  let vec := rvsub q2 q1 in
  let cs := zrot (vx vec) (vy vec) in
  let d := rvsub (rotp cs q2) (rotp cs q1) in
  rescale (size / rsqrt (rdot d d)) (rotp cs q1) (rotp cs (frame A n p)).
Lemma out_pt_n A B C L1 L2 p : out_pt zrot size A B C L1 L2 p = out_n A (normal3 A B C) L1 L2 p.
Proof. reflexivity. Qed.
Definition vec_of (A n L1 L2 : rv) : rv := rvsub (frame A n L2) (frame A n L1).
Definition d_of (A n L1 L2 : rv) : rv :=
  let vec := vec_of A n L1 L2 in let cs := zrot (vx vec) (vy vec) in
  rvsub (rotp cs (frame A n L2)) (rotp cs (frame A n L1)).
Lemma line_image_d A B C L1 L2 : line_image zrot A B C L1 L2 = d_of A (normal3 A B C) L1 L2.
Proof. reflexivity. Qed.

(* first line point at the origin: no hypothesis at all *)
Lemma out_n_L1 A n L1 L2 : out_n A n L1 L2 L1 = v0.
Proof. unfold out_n, rescale, v0. cbv zeta. vsimp. f_equal; ring. Qed.

Section Unit.
Variables A n L1 L2 : rv.
Hypothesis Hunit : rdot n n = 1.
Hypothesis Hu : vy n * vy n + vz n * vz n <> 0.
Hypothesis Hl : sqn (rcross (rvsub L2 L1) n) <> 0.
Let vec := vec_of A n L1 L2.

Lemma vec_xy : vx vec * vx vec + vy vec * vy vec = (vy n * vy n + vz n * vz n) * sqn (rcross (rvsub L2 L1) n).
Proof. unfold vec, vec_of, frame, sqn. destruct A as [ax ay az], n as [nx ny nz], L1 as [x1 y1 z1], L2 as [x2 y2 z2].
  vsimp. nsatz. Qed.
Lemma vec_xy_nz : vx vec * vx vec + vy vec * vy vec <> 0.
Proof. rewrite vec_xy. intros E. apply Rmult_integral in E. destruct E; contradiction. Qed.
Let r := rsqrt (vx vec * vx vec + vy vec * vy vec).
Lemma r_pos : 0 < r.
Proof. apply sqrt_lt_R0. apply sq_sum_pos. exact vec_xy_nz. Qed.
Lemma r_sq : r * r = vx vec * vx vec + vy vec * vy vec.
Proof. apply sqrt_sqrt. left. apply sq_sum_pos. exact vec_xy_nz. Qed.
Lemma zrot_vec : zrot (vx vec) (vy vec) = (- vy vec / r, - vx vec / r).
Proof. apply Hz. exact vec_xy_nz. Qed.
Lemma d_eq : d_of A n L1 L2 = rV3 0 (- r) (vz vec).
Proof. unfold d_of. cbv zeta. fold vec. rewrite zrot_vec. pose proof r_pos as Hr. pose proof r_sq as Hr2.
  unfold rotp. cbn [fst snd]. unfold vec, vec_of in *. set (q1 := frame A n L1) in *. set (q2 := frame A n L2) in *.
  vsimp. f_equal.
  - field. lra.
  - replace (- r) with (- (r * r) / r) by (field; lra). rewrite Hr2. field. lra.
  - ring. Qed.
Let cur := rsqrt (rdot (d_of A n L1 L2) (d_of A n L1 L2)).
Lemma cur_arg : rdot (d_of A n L1 L2) (d_of A n L1 L2) = r * r + vz vec * vz vec.
Proof. rewrite d_eq. vsimp. ring. Qed.
Lemma cur_pos : 0 < cur.
Proof. unfold cur. rewrite cur_arg. apply sqrt_lt_R0. pose proof r_pos. pose proof (Rle_0_sqr (vz vec)). unfold Rsqr in *. nra. Qed.
Lemma cur_sq : cur * cur = r * r + vz vec * vz vec.
Proof. unfold cur. rewrite cur_arg. apply sqrt_sqrt. pose proof r_pos. pose proof (Rle_0_sqr (vz vec)). unfold Rsqr in *. nra. Qed.

(* line end: on the negative y axis (x = 0, y < 0), at distance size from the origin *)
Lemma out_n_L2 : out_n A n L1 L2 L2 = rvscale (d_of A n L1 L2) (size / cur).
Proof. unfold out_n, cur, d_of, vec_of. cbv zeta.
  set (cs := zrot _ _). set (sc := size / rsqrt _). set (o := rotp cs (frame A n L1)). set (w := rotp cs (frame A n L2)).
  clearbody sc o w. unfold rescale. vsimp. f_equal; ring. Qed.
Lemma out_n_L2_post : 0 < size ->
  vx (out_n A n L1 L2 L2) = 0 /\ vy (out_n A n L1 L2 L2) < 0 /\ rnorm (out_n A n L1 L2 L2) = size.
Proof. intros Hs. rewrite out_n_L2, d_eq. pose proof cur_pos as Hc. pose proof r_pos as Hr. pose proof cur_sq as Hc2.
  set (sc := size / cur). assert (Hsc : 0 < sc) by (apply Rdiv_lt_0_compat; lra).
  unfold vscale, norm, dot; cbn [vx vy vz]; rsimp. split; [ring|]. split; [nra|].
  replace (0 * sc * (0 * sc) + - r * sc * (- r * sc) + vz vec * sc * (vz vec * sc))
    with (sc * sc * (r * r + vz vec * vz vec)) by ring.
  rewrite <- Hc2. replace (sc * sc * (cur * cur)) with (size * size) by (unfold sc; field; lra).
  apply sqrt_square. lra. Qed.
(* z of any point: its signed distance to the plane through L1, times the scale *)
Lemma out_n_z p : vz (out_n A n L1 L2 p) = rdot (rvsub p L1) n * (size / cur).
Proof. unfold out_n, cur, d_of, vec_of. cbv zeta.
  set (cs := zrot _ _). set (sc := size / rsqrt _). clearbody sc cs.
  unfold rescale, rotp, frame. vsimp. ring. Qed.
End Unit.

(* ---------- translation and uniform positive scaling ---------- *)
Definition simv (a : R) (t v : rv) : rv := rV3 (a * vx v + vx t) (a * vy v + vy t) (a * vz v + vz t).
Lemma frame_sim a t A n q : frame (simv a t A) n (simv a t q) = rvscale (frame A n q) a.
Proof. unfold frame, simv. vsimp. f_equal; ring. Qed.
Lemma vsub_scale u w a : rvsub (rvscale u a) (rvscale w a) = rvscale (rvsub u w) a.
Proof. vsimp. f_equal; ring. Qed.
Lemma rotp_scale cs q a : rotp cs (rvscale q a) = rvscale (rotp cs q) a.
Proof. unfold rotp. vsimp. f_equal; ring. Qed.
Lemma dot_scale u a : rdot (rvscale u a) (rvscale u a) = a * a * rdot u u.
Proof. vsimp. ring. Qed.
Lemma zrot_scale a x y : 0 < a -> x * x + y * y <> 0 -> zrot (x * a) (y * a) = zrot x y.
Proof. intros Ha Hxy. pose proof (sq_sum_pos _ _ Hxy) as Hp.
  assert (Hxy' : x * a * (x * a) + y * a * (y * a) <> 0) by (replace (x * a * (x * a) + y * a * (y * a)) with (a * a * (x * x + y * y)) by ring; apply Rgt_not_eq; apply Rmult_lt_0_compat; [nra|exact Hp]).
  rewrite (Hz _ _ Hxy'), (Hz _ _ Hxy).
  replace (x * a * (x * a) + y * a * (y * a)) with (a * a * (x * x + y * y)) by ring.
  rewrite sqrt_sq_scal_pos by lra. pose proof (sqrt_nz _ Hp) as Hq. f_equal; field; split; (exact Hq || lra). Qed.

Lemma out_n_sim a t A n L1 L2 p : 0 < a ->
  vx (vec_of A n L1 L2) * vx (vec_of A n L1 L2) + vy (vec_of A n L1 L2) * vy (vec_of A n L1 L2) <> 0 ->
  rsqrt (rdot (d_of A n L1 L2) (d_of A n L1 L2)) <> 0 ->
  out_n (simv a t A) n (simv a t L1) (simv a t L2) (simv a t p) = out_n A n L1 L2 p.
Proof. intros Ha Hv Hc. unfold out_n, d_of, vec_of in *. cbv zeta in *. rewrite !frame_sim.
  set (q1 := frame A n L1) in *. set (q2 := frame A n L2) in *. set (q := frame A n p).
  rewrite vsub_scale. cbn [vx vy vscale]. rsimp. rewrite zrot_scale by assumption.
  set (cs := zrot (vx (rvsub q2 q1)) (vy (rvsub q2 q1))) in *.
  rewrite !rotp_scale, vsub_scale, dot_scale. set (d := rvsub (rotp cs q2) (rotp cs q1)) in *.
  rewrite sqrt_sq_scal_pos by (try apply (sqn_nonneg d); lra).
  set (c := rsqrt (rdot d d)) in *. set (o := rotp cs q1). set (w := rotp cs q).
  clearbody c o w. clear - Ha Hc. unfold rescale. vsimp. f_equal; field; split; lra. Qed.
End Abstract.
