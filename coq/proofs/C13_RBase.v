(* C13 - real-number list lemmas shared by the normaliser proofs (sums, means, square roots). *)
From Coq Require Import Reals List Lra Lia Arith ZArith.
Require Import Num.
Import ListNotations.
Open Scope R_scope.

Ltac rsimp := cbn [T zero one add sub mul div opp Num.sqrt Num.abs leb ltb eqb of_Z R_ops] in *.
(* equations between terms of type [T R_ops] are equations between reals *)
Ltac req := change (T R_ops) with R in *.

Notation rsum := (Num.sum R_ops).
Notation rmean := (Num.mean R_ops).

Lemma rsum_nil : rsum [] = 0.
Proof. reflexivity. Qed.
Lemma rsum_cons x l : rsum (x :: l) = x + rsum l.
Proof. reflexivity. Qed.
Lemma of_nat_INR n : Num.of_nat R_ops n = INR n.
Proof. unfold Num.of_nat; rsimp. symmetry. apply INR_IZR_INZ. Qed.
Lemma rmean_eq l : rmean l = rsum l / INR (length l).
Proof. unfold Num.mean. rewrite of_nat_INR. reflexivity. Qed.

Lemma rsum_map_ext {A} (f g : A -> R) l : (forall x, In x l -> f x = g x) -> rsum (map f l) = rsum (map g l).
Proof. intros H. f_equal. apply map_ext_in. exact H. Qed.
Lemma rsum_map_plus {A} (f g : A -> R) l : rsum (map (fun x => f x + g x) l) = rsum (map f l) + rsum (map g l).
Proof. unfold Num.sum; rsimp. induction l as [|x l IH]; cbn [map fold_right]; [lra|]. rewrite IH. lra. Qed.
Lemma rsum_map_scal {A} (f : A -> R) k l : rsum (map (fun x => f x * k) l) = rsum (map f l) * k.
Proof. unfold Num.sum; rsimp. induction l as [|x l IH]; cbn [map fold_right]; [lra|]. rewrite IH. lra. Qed.
Lemma rsum_map_const {A} (c : R) (l : list A) : rsum (map (fun _ => c) l) = INR (length l) * c.
Proof. unfold Num.sum; rsimp. induction l as [|x l IH]; [cbn; lra|]. cbn [map fold_right]. rewrite IH.
  change (length (x :: l)) with (S (length l)). rewrite S_INR. lra. Qed.
Lemma rsum_map_affine {A} (f : A -> R) c k l :
  rsum (map (fun x => (f x - c) * k) l) = (rsum (map f l) - INR (length l) * c) * k.
Proof. rewrite (rsum_map_scal (fun x => f x - c)). f_equal.
  unfold Num.sum; rsimp. induction l as [|x l IH]; [cbn; lra|]. cbn [map fold_right]. rewrite IH.
  change (length (x :: l)) with (S (length l)). rewrite S_INR. lra. Qed.
Lemma rsum_nonneg l : (forall x, In x l -> 0 <= x) -> 0 <= rsum l.
Proof. induction l as [|x l IH]; intros H; [cbn; lra|]. change (0 <= x + rsum l).
  assert (0 <= x) by (apply H; left; reflexivity).
  assert (0 <= rsum l) by (apply IH; intros y Hy; apply H; right; exact Hy). lra. Qed.
Lemma rsum_pos l x : (forall y, In y l -> 0 <= y) -> In x l -> 0 < x -> 0 < rsum l.
Proof. induction l as [|a l IH]; intros Hn Hin Hx; [destruct Hin|]. change (0 < a + rsum l).
  assert (Ha : 0 <= a) by (apply Hn; left; reflexivity).
  assert (Hl : forall y, In y l -> 0 <= y) by (intros y Hy; apply Hn; right; exact Hy).
  destruct Hin as [->|Hin]; [pose proof (rsum_nonneg l Hl); lra|].
  pose proof (IH Hl Hin Hx). lra. Qed.

Lemma INR_len_pos {A} (l : list A) : l <> [] -> 0 < INR (length l).
Proof. destruct l; [congruence|]. intros _. apply lt_0_INR. cbn [length]. lia. Qed.
Lemma rmean_map_affine {A} (f : A -> R) c k l : l <> [] ->
  rmean (map (fun x => (f x - c) * k) l) = (rmean (map f l) - c) * k.
Proof. intros Hl. rewrite !rmean_eq, !map_length, rsum_map_affine.
  pose proof (INR_len_pos l Hl) as Hp. req. field. apply Rgt_not_eq. exact Hp. Qed.
Lemma rmean_map_scal {A} (f : A -> R) k l : rmean (map (fun x => f x * k) l) = rmean (map f l) * k.
Proof. rewrite !rmean_eq, !map_length, rsum_map_scal. req. unfold Rdiv. ring. Qed.
Lemma rmean_map_ext {A} (f g : A -> R) l : (forall x, In x l -> f x = g x) -> rmean (map f l) = rmean (map g l).
Proof. intros H. rewrite !rmean_eq, !map_length. f_equal. apply rsum_map_ext. exact H. Qed.
Lemma rmean_pos l x : (forall y, In y l -> 0 <= y) -> In x l -> 0 < x -> 0 < rmean l.
Proof. intros Hn Hin Hx. rewrite rmean_eq. apply Rdiv_lt_0_compat; [exact (rsum_pos l x Hn Hin Hx)|].
  apply INR_len_pos. intros ->. destruct Hin. Qed.

Lemma nth_map_seq {B} (g : nat -> B) D d dflt : (d < D)%nat -> nth d (map g (seq 0 D)) dflt = g d.
Proof. intros H. rewrite (nth_indep _ dflt (g 0%nat)) by (rewrite map_length, seq_length; exact H).
  rewrite (map_nth g (seq 0 D) 0%nat d). rewrite seq_nth by exact H. reflexivity. Qed.

(* square roots *)
Notation rsqrt := R_sqrt.sqrt.
Lemma sqrt_sq_scal k x : 0 <= x -> rsqrt (k * k * x) = Rabs k * rsqrt x.
Proof. intros Hx. rewrite sqrt_mult_alt by (apply Rle_0_sqr || nra).
  f_equal. replace (k * k) with (Rsqr k) by reflexivity. apply sqrt_Rsqr_abs. Qed.
Lemma sqrt_sq_scal_pos k x : 0 <= k -> 0 <= x -> rsqrt (k * k * x) = k * rsqrt x.
Proof. intros Hk Hx. rewrite sqrt_sq_scal by exact Hx. rewrite Rabs_right by lra. reflexivity. Qed.
Lemma sqrt_sqr_eq x : 0 <= x -> rsqrt x * rsqrt x = x.
Proof. apply sqrt_sqrt. Qed.
Lemma sqrt_pos_lt x : 0 < x -> 0 < rsqrt x.
Proof. apply sqrt_lt_R0. Qed.
Lemma sqrt_of_square k : 0 <= k -> rsqrt (k * k) = k.
Proof. apply sqrt_square. Qed.
