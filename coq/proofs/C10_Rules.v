(* C10 - the four mask-propagation rules named in the property statement. *)
From Coq Require Import List Arith ZArith Bool Lia.
Require Import Result Tensor Num C10_Tensor C10_Masked C10_TensorLemmas C10_IndexLemmas C10_Aligned C10_RefBase C10_Stats C10_Refines.
Import ListNotations.

Section Rules.
Variable O : ops.
Variable trig : uname -> T O -> T O.
Notation A := (T O).
Notation mt := (mt O).
Notation pair_of := (pair_of O).
Notation ok := (ok O).
Notation exec := (exec O trig).
Notation rexec := (rexec O trig).

(* 1. structural operations (indexing, list indexing, transpose, permute, squeeze, split, reshape) move values and validity
      together: whatever the switches, the results are exactly the re-indexed tensor of (value, validity) pairs *)
Theorem structural_moves_together c f i r p env outs : plans_of O f i = Some (r, p) -> Forall ok env ->
  exec c f i env = Ok outs -> rexec f i (map pair_of env) = Ok (map pair_of outs) /\ Forall ok outs.
Proof. intros Hp He H. unfold C10_Masked.exec in H. unfold C10_Masked.rexec. rewrite Hp in *.
  binv H. rewrite get_map, E. cbn [rmap rbind]. apply struct_refines; [|exact H]. eapply (get_P ok); eauto. Qed.
(* ... and so do concatenation and stacking *)
Theorem cat_stack_move_together c f i env outs : (exists os d, i = ICat O os d /\ Forall (operand_wf O) os) \/ (exists rs d, i = IStack O rs d) ->
  Forall ok env -> exec c f i env = Ok outs -> rexec f i (map pair_of env) = Ok (map pair_of outs) /\ Forall ok outs.
Proof. intros [[os [d [-> Hw]]] | [rs [d ->]]] He H; unfold C10_Masked.exec in H; unfold C10_Masked.rexec; cbn [plans_of] in *.
  - binv H. rename x into ms. destruct (operands_refine O env os ms Hw He E) as [R1 R2]. rewrite R1. cbn [rbind].
    binv H. binv H. injection H as <-. destruct (multi_refines O (cat_planZ d) ms _ _ R2 E0 E1) as [M1 M2].
    rewrite M1. cbn [rbind map]. split; [reflexivity|]. constructor; [exact M2|constructor].
  - binv H. rename x into ms. rewrite gets_map, E. cbn [rmap rbind]. pose proof (gets_P ok _ _ _ He E) as R2.
    binv H. binv H. injection H as <-. destruct (multi_refines O (stack_planZ d) ms _ _ R2 E0 E1) as [M1 M2].
    rewrite M1. cbn [rbind map]. split; [reflexivity|]. constructor; [exact M2|constructor]. Qed.

(* 2. an elementwise result is valid exactly when all its operands are (cell j of the result against the broadcast operands) *)
Theorem elementwise_valid_iff_all c f op r r2 env v k : exec c f (IArith O op r (OReg O r2)) env = Ok [(v, k)] ->
  exists m m2, get env r = Ok m /\ get env r2 = Ok m2 /\
    forall j, j < prod (shape k) ->
      (nth j (data k) false = true <-> bget false (shape k) (snd m) j = true /\ bget false (shape k) (snd m2) j = true).
Proof. unfold C10_Masked.exec; cbn [plans_of]. destruct (arith_ok O f op (OReg O r2)); [|discriminate]. intros H.
  binv H. binv H. binv H. binv H. injection H as <- <-. exists x, x0. split; [reflexivity|]. split; [reflexivity|].
  apply bzip_ok in E2. destruct E2 as [ns [_ ->]]. intros j Hj. cbn [shape tabulate] in *. unfold tabulate; cbn [data].
  rewrite nth_map_seq by exact Hj. apply andb_true_iff. Qed.
Theorem elementwise_plain_keeps_validity f op r t env v k : exec repaired f (IArith O op r (OPlain O t)) env = Ok [(v, k)] ->
  exists m, get env r = Ok m /\ shape k = shape v /\ forall j, j < prod (shape k) -> nth j (data k) false = bget false (shape k) (snd m) j.
Proof. unfold C10_Masked.exec; cbn [plans_of]. destruct (arith_ok O f op (OPlain O t)); [|discriminate]. intros H.
  binv H. binv H. cbn [plain_bcast repaired] in H. binv H. injection H as <- <-. exists x. split; [reflexivity|].
  apply bcast_tabulate in E1. subst x1. split; [reflexivity|]. intros j Hj. cbn [shape tabulate] in *. unfold tabulate; cbn [data].
  now rewrite nth_map_seq. Qed.

(* 3. a strict sum is valid only when every summed element is (and exactly then) *)
Theorem strict_sum_valid_iff_all c f r d env v k : exec c f (ISum O r d) env = Ok [(v, k)] ->
  exists m dd, get env r = Ok m /\ norm_opt d (length (shape (snd m))) = Ok dd /\
    forall j, nth j (data k) false = true <->
              (j < length (data k) /\ forall b, In b (nth j (data (slices_opt false dd (snd m))) []) -> b = true).
Proof. unfold C10_Masked.exec; cbn [plans_of]. destruct (sum_ok f d); [|discriminate]. intros H.
  binv H. binv H. binv H. injection H as <- <-. exists x, x1. split; [reflexivity|]. split; [exact E1|].
  intros j. unfold tmap; cbn [data]. rewrite map_length.
  destruct (Nat.lt_ge_cases j (length (data (slices_opt false x1 (snd x))))) as [Hj|Hj].
  - rewrite (nth_map_in _ _ j [] false Hj). rewrite forallb_forall. split; [intros H; split; [exact Hj | exact H] | intros [_ H]; exact H].
  - rewrite nth_overflow by (now rewrite map_length). split; [discriminate | intros [Hj' _]; lia]. Qed.

(* 4. mask-aware statistics use only valid elements, and are valid where at least one exists *)
Theorem statistics_use_only_valid (l l' : list (A * bool)) : valid_values O l = valid_values O l' ->
  mean_ref O l = mean_ref O l' /\ var_ref O l = var_ref O l'.
Proof. unfold C10_Masked.mean_ref, var_ref. now intros ->. Qed.
Lemma count_map {X} (g : X -> A) (h : X -> A) l : count O (map g l) = count O (map h l).
Proof. unfold count. now rewrite !map_map. Qed.
Section Count.
Hypothesis count_faithful : forall l : list A, nonzero O (count O l) = false -> l = [].
Hypothesis eqb_zero : eqb O (zero O) (zero O) = true.
Lemma nonzero_count (l : list A) : nonzero O (count O l) = true <-> l <> [].
Proof. split.
  - intros H ->. unfold nonzero, count, fsum in H; cbn in H. now rewrite eqb_zero in H.
  - intros H. destruct (nonzero O (count O l)) eqn:E; [reflexivity|]. now apply count_faithful in E. Qed.
Lemma valid_nonempty (l : list (A * bool)) : valid_values O l <> [] <-> exists v, In (v, true) l.
Proof. unfold valid_values. split.
  - intros H. destruct (filter snd l) as [|[v b] r] eqn:E; [now elim H|]. exists v.
    assert (Hin : In (v, b) (filter snd l)) by (rewrite E; now left). apply filter_In in Hin. destruct Hin as [Hin Hb]. cbn in Hb. now subst b.
  - intros [v Hv] E. assert (Hin : In (v, true) (filter snd l)) by (apply filter_In; now split).
    destruct (filter snd l); [exact Hin | discriminate]. Qed.
Theorem statistics_valid_iff_exists (l : list (A * bool)) :
  (snd (mean_ref O l) = true <-> exists v, In (v, true) l) /\ (snd (var_ref O l) = true <-> exists v, In (v, true) l).
Proof. unfold C10_Masked.mean_ref, var_ref, mean_of; cbn [fst snd]. split.
  - rewrite nonzero_count. apply valid_nonempty.
  - rewrite (count_map _ (fun v => v)), map_id. rewrite nonzero_count. apply valid_nonempty. Qed.
End Count.
End Rules.
