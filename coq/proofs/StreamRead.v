(* Pose.read on a stream agrees with Pose.read on the bytes (C03 stream clause, C07 stream clause). *)
From Coq Require Import ZArith NArith List Lia ZifyBool ZifyN ZifyNat Bool.
Require Import ListN Result Bytes Utf8 Utf8S F32 Prog Codec ProgLemmas CodecRT PoseRead PoseReadLemmas StreamLemmas WindowLemmas.
Import ListNotations.
Open Scope N_scope.

Lemma v2prog_rd_u16 : v2prog rd_u16. Proof. cbn. auto. Qed.
Lemma v2prog_rd_str : v2prog rd_str.
Proof. unfold rd_str. apply v2prog_bind; [apply v2prog_rd_u16|]. intros n. cbn [v2prog]. intros b. destruct (dec_utf8 b); exact I. Qed.
Lemma v2prog_rd_component : v2prog rd_component.
Proof.
  unfold rd_component.
  apply v2prog_bind; [apply v2prog_rd_str|]. intros name.
  apply v2prog_bind; [apply v2prog_rd_str|]. intros fmt.
  apply v2prog_bind; [cbn; auto|]. intros [[np nl] nc].
  apply v2prog_bind; [apply v2prog_prep, v2prog_rd_str|]. intros pts.
  apply v2prog_bind; [apply v2prog_prep; cbn; auto|]. intros limbs.
  apply v2prog_bind; [cbn; auto|]. intros cols. exact I.
Qed.
Lemma v2prog_rd_header : v2prog rd_header.
Proof.
  unfold rd_header.
  apply v2prog_bind; [cbn; auto|]. intros v.
  apply v2prog_bind; [cbn; auto|]. intros dims.
  apply v2prog_bind; [apply v2prog_rd_u16|]. intros n.
  apply v2prog_bind; [apply v2prog_prep, v2prog_rd_component|]. intros comps. exact I.
Qed.
Lemma v2prog_read_frames frames cells s e : v2prog (read_frames frames cells s e).
Proof.
  unfold read_frames.
  destruct (_ && _); [exact I|].
  assert (Hz : forall n k, v2prog (zblock n (fun b => Ret (k b)))).
  { intros n k. unfold zblock. destruct (n <? 0)%Z; cbn; auto. }
  destruct (match s with Some s' => (0 <? s')%Z | None => false end);
    destruct e as [e'|]; cbn [v2prog]; (apply v2prog_bind; [apply Hz|intros t; cbn; auto]).
Qed.
Lemma v2prog_read_v0_2 h sf st ef et : v2prog (read_v0_2 h sf st ef et).
Proof.
  rewrite read_v0_2_shape. destruct (_ || _); [exact I|]. unfold body_prog.
  apply v2prog_bind; [cbn; auto|]. intros fps.
  apply v2prog_bind; [cbn; auto|]. intros F.
  apply v2prog_bind; [apply v2prog_rd_u16|]. intros P.
  apply v2prog_bind; [apply v2prog_plift|]. intros D.
  apply v2prog_bind; [apply v2prog_plift|]. intros s.
  apply v2prog_bind; [apply v2prog_plift|]. intros e.
  apply v2prog_bind; [apply v2prog_read_frames|]. intros dat.
  apply v2prog_bind; [apply v2prog_read_frames|]. intros cnf.
  apply v2prog_plift.
Qed.

Lemma inv_init q : Inv q {| buf := []; off := 0; skipped := 0; pulled := 0 |}.
Proof. unfold Inv; cbn [buf off skipped]. split; [lia|]. exists 0. split; [lia|]. split; [unfold lenN; cbn; lia|].
  replace (lenN (@nil N) - 0) with 0 by reflexivity. now rewrite takeN_0. Qed.

(* the initial prefetch: expect_to_read((end_offset or 10240) + 100) on an empty reader *)
Lemma prefetch_sim q s m r1 : expect q (prefetch_len m) {| buf := []; off := 0; skipped := 0; pulled := 0 |} = Ok r1 ->
  Sim q s {| pbuf := q ++ s; poff := 0 |} r1 /\ pulled r1 <= prefetch_len m /\ consumed r1 = 0 /\
  buf r1 = takeN (prefetch_len m) q.
Proof.
  intros H.
  pose proof (inv_init q) as HI0.
  assert (Hpos : 0 < prefetch_len m) by (unfold prefetch_len; destruct m as [c|]; [destruct (m_end c =? 0)|]; lia).
  pose proof (inv_expect q _ (prefetch_len m) HI0 Hpos) as Hex. rewrite H in Hex.
  destruct Hex as [HI1 [Ho1 [Hs1 [_ [Hp1 _]]]]]. cbn [off skipped pulled] in *.
  split; [unfold Sim; cbn [pbuf poff]; auto|]. split; [lia|]. split; [unfold consumed; lia|].
  unfold expect, bytes_left in H. cbn [buf off skipped] in H.
  destruct (Z.ltb_spec (Z.of_N (lenN (@nil N)) - Z.of_N 0 + Z.of_N 0) (Z.of_N (prefetch_len m))) as [_|Hge];
    [|unfold lenN in Hge; cbn [length] in Hge; lia].
  apply read_chunk_ok in H. destruct H as [Hb _]. rewrite Hb. unfold chunk. cbn [buf skipped app].
  replace (Z.to_N (Z.of_N (prefetch_len m) - (Z.of_N (lenN (@nil N)) - Z.of_N 0 + Z.of_N 0))) with (prefetch_len m)
    by (unfold lenN; cbn [length]; lia).
  replace (0 + lenN (@nil N)) with 0 by reflexivity. now rewrite dropN_0.
Qed.

(* the memo lookup sees the same slice in the prefetched buffer as in the whole file *)
Lemma check_cache_prefetch m q : MemoOK m -> check_cache m (takeN (prefetch_len m) q) = check_cache m q.
Proof.
  unfold check_cache. destruct m as [c|]; [|reflexivity]. intros [Hs [Hl _]].
  unfold py_slice, prefetch_len. rewrite Hs, !dropN_0, N.sub_0_r.
  rewrite takeN_takeN_le; [reflexivity|]. destruct (m_end c =? 0) eqn:E; lia.
Qed.

Section WithLegacy.
Variable legacy : vclass -> header -> rargs -> prog body.

(* before any skip the buffer is a prefix of the file; a skip-free run keeps it so *)
Definition Pre (q : bytes) (r : sreader) : Prop := skipped r = 0 /\ buf r = takeN (lenN (buf r)) q.
Lemma pre_takeN (q : bytes) n : takeN n q = takeN (lenN (takeN n q)) q.
Proof. rewrite lenN_takeN. apply takeN_clip. Qed.
Lemma pre_read_chunk q k r r1 : Pre q r -> read_chunk q k r = Ok r1 -> Pre q r1.
Proof.
  intros [Hs Hb] H. apply read_chunk_ok in H. destruct H as [Hb1 [_ [Hs1 _]]]. unfold chunk in Hb1. rewrite Hs in Hb1.
  split; [lia|]. replace (0 + lenN (buf r)) with (lenN (buf r)) in Hb1 by lia.
  assert (E : buf r1 = takeN (lenN (buf r) + k) q) by (rewrite Hb1; rewrite Hb at 1; apply takeN_app_takeN).
  rewrite E. apply pre_takeN.
Qed.
Lemma pre_run q {A} (p : prog A) : noSkip p -> forall r x r', Pre q r -> run_stream q p r = Ok (x, r') -> Pre q r'.
Proof.
  induction p as [x0|n k IH|n k IH|n k IH|k IH|e]; intros Hns r x r' HP Hr; cbn [run_stream noSkip] in *; try contradiction; try discriminate.
  - now injection Hr as _ <-.
  - destruct (expect q n r) as [ra|e] eqn:Hea; [|discriminate].
    destruct (off ra - skipped ra + n <=? lenN (buf ra)); [|discriminate].
    assert (HPa : Pre q ra).
    { unfold expect in Hea. destruct (_ <? _)%Z; [exact (pre_read_chunk q _ r ra HP Hea)|now injection Hea as <-]. }
    apply IH in Hr; [exact Hr|apply Hns|].
    destruct HPa as [Hsa Hba]. split; cbn [skipped buf]; assumption.
Qed.

(* forward transfer: whenever the read of the bytes succeeds on a v0.2 file, the stream read returns the same
   pose and leaves the same memo *)
Theorem read_stream_as_bytes m q a pose :
  MemoOK m -> any_arg a = true ->
  (forall h r, run_plain rd_header {| pbuf := q; poff := 0 |} = Ok (h, r) -> v2prog (read_body legacy h a)) ->
  fst (read_bytes legacy m q a) = Ok pose ->
  fst (fst (read_stream legacy m q a)) = Ok pose /\ snd (fst (read_stream legacy m q a)) = snd (read_bytes legacy m q a).
Proof.
  intros Hm Ha Hv Hok. unfold read_stream. rewrite Ha. cbn [negb].
  destruct (expect q (prefetch_len m) _) as [r1|e] eqn:Hex.
  2:{ (* EOFError: the file is empty, so the bytes read fails too *)
      exfalso.
      unfold expect, bytes_left in Hex. cbn [buf off skipped] in Hex.
      destruct (Z.ltb_spec (Z.of_N (lenN (@nil N)) - Z.of_N 0 + Z.of_N 0) (Z.of_N (prefetch_len m))); [|discriminate].
      unfold read_chunk in Hex. cbn [buf skipped app] in Hex.
      destruct (takeN _ (dropN (0 + lenN (@nil N)) q)) as [|x l] eqn:E; [|discriminate].
      assert (Hpos : 0 < prefetch_len m) by (unfold prefetch_len; destruct m as [c|]; [destruct (m_end c =? 0)|]; lia).
      assert (Hq : q = []).
      { replace (0 + lenN (@nil N)) with 0 in E by reflexivity. rewrite dropN_0 in E.
        destruct q as [|y q']; [reflexivity|]. apply (f_equal lenN) in E. rewrite lenN_takeN in E. unfold lenN in E. cbn [length] in E. lia. }
      subst q. unfold read_bytes in Hok.
      assert (Hc : check_cache m [] = None).
      { destruct (check_cache m []) as [c|] eqn:Hc; [|reflexivity]. exfalso.
        destruct (check_cache_hit m [] c Hm Hc) as [_ Hr]. cbn in Hr. discriminate. }
      rewrite Hc in Hok. cbn in Hok. discriminate. }
  destruct (prefetch_sim q [] m r1 Hex) as [HS [Hp [Hc0 Hbuf]]]. rewrite app_nil_r in HS.
  rewrite Hbuf, (check_cache_prefetch m q Hm).
  unfold read_bytes in Hok |- *.
  destruct (check_cache m q) as [c|] eqn:Hc.
  - (* hit *)
    destruct (check_cache_hit m q c Hm Hc) as [-> Hhd].
    destruct (run_plain (read_body legacy (m_header c) a) {| pbuf := q; poff := m_end c |}) as [[b pr']|e] eqn:Hb; [|discriminate].
    cbn [fst rmap] in Hok. injection Hok as <-.
    assert (HS2 : Sim q [] {| pbuf := q; poff := m_end c |}
                      {| buf := takeN (prefetch_len (Some c)) q; off := m_end c; skipped := skipped r1; pulled := pulled r1 |}).
    { destruct HS as [_ [Ho HI]]. cbn [poff] in Ho.
      unfold Sim; cbn [pbuf poff off]. split; [now rewrite app_nil_r|]. split; [reflexivity|].
      destruct HI as [Hso [j [Hj [Hi Heq]]]]. rewrite Hbuf in *.
      assert (Hsk : skipped r1 = 0) by lia. assert (Hj0 : j = 0) by lia. subst j.
      unfold Inv; cbn [buf off skipped]. rewrite Hsk in *. split; [lia|]. exists 0. split; [lia|]. split; [|exact Heq].
      destruct Hm as [Hst [Hl _]]. unfold check_cache in Hc.
      destruct (bytes_eqb (m_slice c) (py_slice (m_start c) (m_end c) q)) eqn:E; [|discriminate].
      apply bytes_eqb_eq in E. unfold py_slice in E. rewrite Hst, dropN_0, N.sub_0_r in E.
      apply (f_equal lenN) in E. rewrite Hl, lenN_takeN in E.
      rewrite lenN_takeN. unfold prefetch_len. destruct (m_end c =? 0) eqn:E0; lia. }
    pose proof (sim_fwd q [] _ (Hv (m_header c) _ Hhd) _ _ _ _ HS2 Hb) as Hsim.
    destruct (run_stream q (read_body legacy (m_header c) a) _) as [[b' sr']|e]; [|now contradiction Hsim].
    destruct Hsim as [<- _]. cbn [fst snd]. split; reflexivity.
  - (* miss *)
    destruct (run_plain rd_header {| pbuf := q; poff := 0 |}) as [[h pr1]|e] eqn:Hh; [|discriminate].
    destruct (run_plain (read_body legacy h a) pr1) as [[b pr']|e] eqn:Hb; [|discriminate].
    cbn [fst rmap] in Hok. injection Hok as <-.
    pose proof (sim_fwd q [] _ v2prog_rd_header _ _ _ _ HS Hh) as Hsim1.
    destruct (run_stream q rd_header r1) as [[h' r2]|e] eqn:Hrs; [|now contradiction Hsim1].
    destruct Hsim1 as [<- [HS2 _]].
    pose proof (sim_fwd q [] _ (Hv h _ eq_refl) _ _ _ _ HS2 Hb) as Hsim2.
    destruct (run_stream q (read_body legacy h a) r2) as [[b' sr']|e]; [|now contradiction Hsim2].
    destruct Hsim2 as [<- _]. cbn [fst snd].
    split; [reflexivity|].
    (* the memo stores the same slice: no skip has happened while the header was parsed *)
    destruct HS2 as [Hb2 [Ho2 HI2]]. rewrite app_nil_r in Hb2.
    pose proof (run_plain_buf _ _ _ _ Hh) as Hpb. cbn [pbuf] in Hpb. destruct pr1 as [pb1 po1]. cbn [pbuf poff] in *. subst pb1.
    f_equal. rewrite <- Ho2. f_equal.
    assert (HP1 : Pre q r1) by (split; [destruct HS as [_ [Ho1 [Hso1 _]]]; cbn [poff] in Ho1; lia|rewrite Hbuf; apply pre_takeN]).
    destruct (pre_run q _ noSkip_rd_header _ _ _ HP1 Hrs) as [Hsk2 Hpre].
    unfold py_slice. rewrite !dropN_0, !N.sub_0_r. rewrite Hpre.
    destruct HI2 as [_ [j [_ [Hi _]]]].
    apply takeN_takeN_le. pose proof (run_plain_bound _ noSkip_rd_header _ _ _ _ Hh). lia.
Qed.
End WithLegacy.
