(* General facts about decoder programs and the plain reader: sequencing, reading back an encoding
   ([RTp]), extension of the buffer (prefix determinism), truncation. *)
From Coq Require Import ZArith NArith List Lia ZifyBool ZifyN ZifyNat Bool.
Require Import ListN Result Bytes Prog.
Import ListNotations.
Open Scope N_scope.

Lemma run_plain_bind {A B} (p : prog A) (f : A -> prog B) : forall r,
  run_plain (pbind p f) r =
  match run_plain p r with Ok (a, r') => run_plain (f a) r' | Err e => Err e end.
Proof.
  induction p as [a|n k IH|n k IH|n k IH|k IH|e]; intros r; cbn [pbind run_plain]; try reflexivity.
  - destruct (poff r + n <=? lenN (pbuf r)); [apply IH|reflexivity].
  - apply IH.
  - apply IH.
  - apply IH.
Qed.

(* the buffer never changes *)
Lemma run_plain_buf {A} (p : prog A) : forall r a r', run_plain p r = Ok (a, r') -> pbuf r' = pbuf r.
Proof.
  induction p as [a|n k IH|n k IH|n k IH|k IH|e]; intros r a' r' H; cbn [run_plain] in H.
  - now injection H as _ <-.
  - destruct (poff r + n <=? lenN (pbuf r)); [|discriminate]. now apply IH in H.
  - now apply IH in H.
  - now apply IH in H.
  - now apply IH in H.
  - discriminate.
Qed.

(* [RTp p e a]: wherever the bytes [e] sit in a buffer, running [p] at their start returns [a] and stops
   right after them *)
Definition RTp {A} (p : prog A) (e : bytes) (a : A) : Prop :=
  forall pre post,
    run_plain p {| pbuf := pre ++ e ++ post; poff := lenN pre |} =
    Ok (a, {| pbuf := pre ++ e ++ post; poff := lenN pre + lenN e |}).

Lemma RTp_ret {A} (a : A) : RTp (Ret a) [] a.
Proof. intros pre post. cbn [run_plain app]. unfold lenN at 3. cbn [length]. now rewrite N.add_0_r. Qed.

Lemma RTp_bind {A B} (p : prog A) (f : A -> prog B) e1 e2 a b :
  RTp p e1 a -> RTp (f a) e2 b -> RTp (pbind p f) (e1 ++ e2) b.
Proof.
  intros H1 H2 pre post. rewrite run_plain_bind.
  rewrite <- app_assoc. rewrite (H1 pre (e2 ++ post)).
  specialize (H2 (pre ++ e1) post). rewrite <- !app_assoc in H2. rewrite lenN_app in H2.
  rewrite H2. rewrite lenN_app. f_equal. f_equal. f_equal. lia.
Qed.

Lemma take_mid {X} (pre e post : list X) : takeN (lenN e) (dropN (lenN pre) (pre ++ e ++ post)) = e.
Proof. rewrite dropN_app_le by lia. rewrite dropN_all by lia. cbn [app].
  rewrite takeN_app_le by lia. apply takeN_all. lia. Qed.

Lemma RTp_block {A} n (k : bytes -> prog A) e1 e2 a :
  lenN e1 = n -> RTp (k e1) e2 a -> RTp (Block n k) (e1 ++ e2) a.
Proof.
  intros Hn H pre post. cbn [run_plain pbuf poff].
  destruct (N.leb_spec (lenN pre + n) (lenN (pre ++ (e1 ++ e2) ++ post))) as [_|Hlt];
    [|rewrite !lenN_app in Hlt; lia].
  rewrite <- Hn. rewrite <- app_assoc. rewrite take_mid.
  specialize (H (pre ++ e1) post). rewrite <- !app_assoc in H. rewrite lenN_app in H.
  rewrite H. rewrite lenN_app. f_equal. f_equal. f_equal. lia.
Qed.

Lemma RTp_block_ret {A} n (g : bytes -> A) e : lenN e = n -> RTp (Block n (fun b => Ret (g b))) e (g e).
Proof. intros Hn. rewrite <- (app_nil_r e) at 1. apply RTp_block; [exact Hn|apply RTp_ret]. Qed.

Lemma RTp_prep {A} (p : prog A) (es : list bytes) (xs : list A) :
  Forall2 (fun e x => RTp p e x) es xs -> RTp (prep (length xs) p) (concat es) xs.
Proof.
  induction 1 as [|e x es xs Hex _ IH]; cbn [prep length concat]; [apply RTp_ret|].
  apply RTp_bind with (a := x); [exact Hex|].
  rewrite <- (app_nil_r (concat es)). apply RTp_bind with (a := xs); [exact IH|apply RTp_ret].
Qed.

(* running from offset 0 on exactly the encoding *)
Lemma RTp_run {A} (p : prog A) e a : RTp p e a ->
  run_plain p {| pbuf := e; poff := 0 |} = Ok (a, {| pbuf := e; poff := lenN e |}).
Proof. intros H. specialize (H [] []). cbn [app] in H. rewrite app_nil_r in H. exact H. Qed.

(* ---- extension of the buffer (prefix determinism): programs that never ask bytes_left() ---- *)
Fixpoint noBL {A} (p : prog A) : Prop :=
  match p with
  | Block _ k => forall b, noBL (k b)
  | Skip _ k | Adv _ k => noBL k
  | BytesLeft _ => False
  | _ => True
  end.
Lemma noBL_bind {A B} (p : prog A) (f : A -> prog B) : noBL p -> (forall a, noBL (f a)) -> noBL (pbind p f).
Proof. induction p as [a|n k IH|n k IH|n k IH|k IH|e]; cbn [pbind noBL]; intros Hp Hf; auto; try contradiction. Qed.
Lemma noBL_prep {A} n (p : prog A) : noBL p -> noBL (prep n p).
Proof. intros Hp. induction n as [|n IH]; cbn [prep]; [exact I|].
  apply noBL_bind; [exact Hp|]. intros a. apply noBL_bind; [exact IH|]. intros l. exact I. Qed.

Lemma run_plain_ext {A} (p : prog A) : noBL p -> forall b x o a o',
  run_plain p {| pbuf := b; poff := o |} = Ok (a, {| pbuf := b; poff := o' |}) ->
  run_plain p {| pbuf := b ++ x; poff := o |} = Ok (a, {| pbuf := b ++ x; poff := o' |}).
Proof.
  induction p as [a|n k IH|n k IH|n k IH|k IH|e]; intros Hn b x o a' o' H; cbn [run_plain pbuf poff noBL] in *.
  - injection H as <- <-. reflexivity.
  - destruct (N.leb_spec (o + n) (lenN b)) as [Hfit|]; [|discriminate].
    destruct (N.leb_spec (o + n) (lenN (b ++ x))) as [_|Hlt]; [|rewrite lenN_app in Hlt; lia].
    assert (E : takeN n (dropN o (b ++ x)) = takeN n (dropN o b)).
    { rewrite dropN_app_le by lia. apply takeN_app_le. rewrite lenN_dropN. lia. }
    rewrite E. apply IH; [apply Hn|exact H].
  - apply IH; assumption.
  - apply IH; assumption.
  - contradiction.
  - discriminate.
Qed.

(* ---- truncation: a skip-free program that consumed the whole buffer fails on every proper prefix ---- *)
Fixpoint noSkip {A} (p : prog A) : Prop :=
  match p with
  | Block _ k => forall b, noSkip (k b)
  | Skip _ _ | Adv _ _ | BytesLeft _ => False
  | _ => True
  end.
Lemma noSkip_bind {A B} (p : prog A) (f : A -> prog B) : noSkip p -> (forall a, noSkip (f a)) -> noSkip (pbind p f).
Proof. induction p as [a|n k IH|n k IH|n k IH|k IH|e]; cbn [pbind noSkip]; intros Hp Hf; auto; try contradiction. Qed.
Lemma noSkip_prep {A} n (p : prog A) : noSkip p -> noSkip (prep n p).
Proof. intros Hp. induction n as [|n IH]; cbn [prep]; [exact I|].
  apply noSkip_bind; [exact Hp|]. intros a. apply noSkip_bind; [exact IH|]. intros l. exact I. Qed.

Lemma run_plain_trunc {A} (p : prog A) : noSkip p -> forall q s o a o',
  run_plain p {| pbuf := q ++ s; poff := o |} = Ok (a, {| pbuf := q ++ s; poff := o' |}) ->
  o <= lenN q -> lenN q < o' ->
  exists e, run_plain p {| pbuf := q; poff := o |} = Err e.
Proof.
  induction p as [a|n k IH|n k IH|n k IH|k IH|e]; intros Hn q s o a' o' H Ho Ho'; cbn [run_plain pbuf poff noSkip] in *;
    try contradiction.
  - injection H as <- <-. lia.
  - destruct (N.leb_spec (o + n) (lenN (q ++ s))) as [Hfit|]; [|discriminate].
    destruct (N.leb_spec (o + n) (lenN q)) as [Hq|Hq]; [|eexists; reflexivity].
    assert (E : takeN n (dropN o (q ++ s)) = takeN n (dropN o q)).
    { rewrite dropN_app_le by lia. apply takeN_app_le. rewrite lenN_dropN. lia. }
    rewrite E in H. apply (IH _ (Hn _) q s (o + n) a' o' H); lia.
  - discriminate.
Qed.

(* ---- monotonicity, bound and restriction for skip-free programs ---- *)
Lemma run_plain_mono {A} (p : prog A) : noSkip p -> forall b o a o',
  run_plain p {| pbuf := b; poff := o |} = Ok (a, {| pbuf := b; poff := o' |}) -> o <= o'.
Proof.
  induction p as [a|n k IH|n k IH|n k IH|k IH|e]; intros Hn b o a' o' H; cbn [run_plain pbuf poff noSkip] in *;
    try contradiction.
  - injection H as _ <-. lia.
  - destruct (N.leb_spec (o + n) (lenN b)); [|discriminate]. apply IH in H; [lia|apply Hn].
  - discriminate.
Qed.
Lemma run_plain_bound {A} (p : prog A) : noSkip p -> forall b o a o',
  run_plain p {| pbuf := b; poff := o |} = Ok (a, {| pbuf := b; poff := o' |}) -> o <= lenN b -> o' <= lenN b.
Proof.
  induction p as [a|n k IH|n k IH|n k IH|k IH|e]; intros Hn b o a' o' H Ho; cbn [run_plain pbuf poff noSkip] in *;
    try contradiction.
  - injection H as _ <-. lia.
  - destruct (N.leb_spec (o + n) (lenN b)); [|discriminate]. apply IH in H; [lia|apply Hn|lia].
  - discriminate.
Qed.
Lemma run_plain_restrict {A} (p : prog A) : noSkip p -> forall b o a o',
  run_plain p {| pbuf := b; poff := o |} = Ok (a, {| pbuf := b; poff := o' |}) ->
  run_plain p {| pbuf := takeN o' b; poff := o |} = Ok (a, {| pbuf := takeN o' b; poff := o' |}).
Proof.
  induction p as [a|n k IH|n k IH|n k IH|k IH|e]; intros Hn b o a' o' H; cbn [run_plain pbuf poff noSkip] in *;
    try contradiction.
  - injection H as <- <-. reflexivity.
  - destruct (N.leb_spec (o + n) (lenN b)) as [Hfit|]; [|discriminate].
    pose proof (run_plain_mono _ (Hn _) _ _ _ _ H) as Hmono.
    destruct (N.leb_spec (o + n) (lenN (takeN o' b))) as [_|Hlt]; [|rewrite lenN_takeN in Hlt; lia].
    assert (E : takeN n (dropN o (takeN o' b)) = takeN n (dropN o b)).
    { rewrite dropN_takeN. apply takeN_takeN_le. lia. }
    rewrite E. apply IH; [apply Hn|exact H].
  - discriminate.
Qed.
