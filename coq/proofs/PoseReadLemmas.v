(* Pose.read with the header memo: the memo is neutral (C01, C06, C07). *)
From Coq Require Import ZArith NArith List Lia ZifyBool ZifyN ZifyNat Bool.
Require Import ListN Result Bytes Utf8 Utf8S F32 Prog Codec ProgLemmas CodecRT PoseRead.
Import ListNotations.
Open Scope N_scope.

Lemma bytes_eqb_eq a : forall b, bytes_eqb a b = true -> a = b.
Proof. induction a as [|x a IH]; intros [|y b] H; cbn [bytes_eqb] in H; try discriminate; [reflexivity|].
  apply andb_true_iff in H. destruct H as [Hx H]. apply N.eqb_eq in Hx. subst. f_equal. now apply IH. Qed.
Lemma bytes_eqb_refl a : bytes_eqb a a = true.
Proof. induction a as [|x a IH]; [reflexivity|]. cbn [bytes_eqb]. now rewrite N.eqb_refl, IH. Qed.
Lemma dropN_0 {X} (l : list X) : dropN 0 l = l.
Proof. destruct l; reflexivity. Qed.

(* the header decoder never asks bytes_left() *)
Lemma noBL_rd_u16 : noBL rd_u16. Proof. cbn. auto. Qed.
Lemma noBL_rd_str : noBL rd_str.
Proof. unfold rd_str. apply noBL_bind; [apply noBL_rd_u16|]. intros n. cbn [noBL]. intros b. destruct (dec_utf8 b); exact I. Qed.
Lemma noBL_rd_component : noBL rd_component.
Proof.
  unfold rd_component.
  apply noBL_bind; [apply noBL_rd_str|]. intros name.
  apply noBL_bind; [apply noBL_rd_str|]. intros fmt.
  apply noBL_bind; [cbn; auto|]. intros [[np nl] nc].
  apply noBL_bind; [apply noBL_prep, noBL_rd_str|]. intros pts.
  apply noBL_bind; [apply noBL_prep; cbn; auto|]. intros limbs.
  apply noBL_bind; [cbn; auto|]. intros cols. exact I.
Qed.
Lemma noBL_rd_header : noBL rd_header.
Proof.
  unfold rd_header.
  apply noBL_bind; [cbn; auto|]. intros v.
  apply noBL_bind; [cbn; auto|]. intros dims.
  apply noBL_bind; [apply noBL_rd_u16|]. intros n.
  apply noBL_bind; [apply noBL_prep, noBL_rd_component|]. intros comps. exact I.
Qed.

Lemma noSkip_rd_u16 : noSkip rd_u16. Proof. cbn. auto. Qed.
Lemma noSkip_rd_str : noSkip rd_str.
Proof. unfold rd_str. apply noSkip_bind; [apply noSkip_rd_u16|]. intros n. cbn [noSkip]. intros b. destruct (dec_utf8 b); exact I. Qed.
Lemma noSkip_rd_component : noSkip rd_component.
Proof.
  unfold rd_component.
  apply noSkip_bind; [apply noSkip_rd_str|]. intros name.
  apply noSkip_bind; [apply noSkip_rd_str|]. intros fmt.
  apply noSkip_bind; [cbn; auto|]. intros [[np nl] nc].
  apply noSkip_bind; [apply noSkip_prep, noSkip_rd_str|]. intros pts.
  apply noSkip_bind; [apply noSkip_prep; cbn; auto|]. intros limbs.
  apply noSkip_bind; [cbn; auto|]. intros cols. exact I.
Qed.
Lemma noSkip_rd_header : noSkip rd_header.
Proof.
  unfold rd_header.
  apply noSkip_bind; [cbn; auto|]. intros v.
  apply noSkip_bind; [cbn; auto|]. intros dims.
  apply noSkip_bind; [apply noSkip_rd_u16|]. intros n.
  apply noSkip_bind; [apply noSkip_prep, noSkip_rd_component|]. intros comps. exact I.
Qed.

(* a memo is consistent when its header is the parse of exactly the bytes it hashed *)
Definition MemoOK (m : option memo) : Prop :=
  match m with
  | None => True
  | Some c => m_start c = 0 /\ lenN (m_slice c) = m_end c /\
              run_plain rd_header {| pbuf := m_slice c; poff := 0 |} =
              Ok (m_header c, {| pbuf := m_slice c; poff := m_end c |})
  end.

(* a hit means: the buffer starts with the hashed slice, so parsing the buffer gives the memoised header *)
Lemma check_cache_hit m buffer c : MemoOK m -> check_cache m buffer = Some c ->
  m = Some c /\
  run_plain rd_header {| pbuf := buffer; poff := 0 |} = Ok (m_header c, {| pbuf := buffer; poff := m_end c |}).
Proof.
  unfold check_cache. destruct m as [c'|]; [|discriminate]. intros [Hs [Hl Hrun]].
  destruct (bytes_eqb (m_slice c') (py_slice (m_start c') (m_end c') buffer)) eqn:E; [|discriminate].
  intros [= <-]. split; [reflexivity|].
  apply bytes_eqb_eq in E. unfold py_slice in E. rewrite Hs, dropN_0, N.sub_0_r in E.
  assert (Hb : buffer = m_slice c' ++ dropN (m_end c') buffer) by (rewrite E at 1; symmetry; apply take_drop_split).
  rewrite Hb. apply run_plain_ext; [apply noBL_rd_header|exact Hrun].
Qed.

Section WithLegacy.
Variable legacy : vclass -> header -> rargs -> prog body.

Lemma version_word_class : version_class version_word = V02.
Proof. vm_compute. reflexivity. Qed.

(* header part of a written file, read at offset 0 of the whole file *)
Lemma header_of_written p bs h b : write_header (w_dims p) (w_comps p) = Ok h -> bs = h ++ b ->
  run_plain rd_header {| pbuf := bs; poff := 0 |} = Ok (canon_header p, {| pbuf := bs; poff := lenN h |}).
Proof.
  intros Hh ->. pose proof (rd_header_rt _ _ _ Hh [] b) as HR. cbn [app] in HR.
  unfold canon_header. destruct (w_dims p) as [[w hh] d]. cbn [fst snd] in HR. exact HR.
Qed.

Lemma header_of_written_x p bs h b x : write_header (w_dims p) (w_comps p) = Ok h -> bs = h ++ b ->
  run_plain rd_header {| pbuf := bs ++ x; poff := 0 |} = Ok (canon_header p, {| pbuf := bs ++ x; poff := lenN h |}).
Proof. intros Hh Hbs. apply run_plain_ext; [apply noBL_rd_header|]. now apply (header_of_written p bs h b). Qed.

Lemma read_body_dispatch p a : read_body legacy (canon_header p) a = read_v0_2 (canon_header p) (a_sf a) (a_st a) (a_ef a) (a_et a).
Proof. unfold read_body, read_body_with, canon_header. destruct (w_dims p) as [[w hh] d]. cbn [h_version].
  rewrite version_word_class. reflexivity. Qed.

(* C01 + C07 (trailing bytes): whatever follows a complete file, and whatever the memo holds, the read
   returns the canonical image of the written pose *)
Theorem read_bytes_written_trailing m p bs x :
  MemoOK m -> write_pose p = Ok bs -> wf_arrays p -> 1 <= nth 3 (w_shape p) 0 ->
  fst (read_bytes legacy m (bs ++ x) no_args) = Ok (canon p).
Proof.
  intros Hm H Hwf HD.
  destruct (write_pose_ok _ _ H) as [F [P [T [D [h [b [Hs [Hcs [Hnd [Htp [Hh [Hb Hbs]]]]]]]]]]]].
  rewrite Hs in HD. cbn [nth] in HD.
  pose proof (header_of_written_x p bs h b x Hh Hbs) as Hhead.
  pose proof (read_body_rt p b F P T D Hs Hcs Hwf Hnd Htp HD Hb h x) as Hbody.
  rewrite app_assoc, <- Hbs in Hbody.
  pose proof (read_body_dispatch p no_args) as Hdisp. cbn [a_sf a_st a_ef a_et no_args] in Hdisp.
  unfold read_bytes. destruct (check_cache m (bs ++ x)) as [c|] eqn:Hc.
  - destruct (check_cache_hit m (bs ++ x) c Hm Hc) as [_ Hrun]. rewrite Hhead in Hrun.
    injection Hrun as Hhd Hend. rewrite <- Hhd, <- Hend, Hdisp, Hbody. reflexivity.
  - rewrite Hhead. cbn [fst poff]. rewrite Hdisp, Hbody. reflexivity.
Qed.
Theorem read_bytes_written m p bs : MemoOK m -> write_pose p = Ok bs -> wf_arrays p -> 1 <= nth 3 (w_shape p) 0 ->
  fst (read_bytes legacy m bs no_args) = Ok (canon p).
Proof. intros. rewrite <- (app_nil_r bs). now apply read_bytes_written_trailing. Qed.

(* C07: every proper prefix of a written file is rejected by a full read, whatever the memo holds *)
Lemma noSkip_read_frames_full frames cells : noSkip (read_frames frames cells None None).
Proof. unfold read_frames. cbn [andb]. cbv iota beta. apply noSkip_bind; [|intros t; exact I].
  unfold zblock. destruct (4 * frames * cells <? 0)%Z; cbn; auto. Qed.
Lemma noSkip_plift {A} (r : result A) : noSkip (plift r).
Proof. destruct r; exact I. Qed.
Lemma noSkip_read_v0_2_full h : noSkip (read_v0_2 h None None None None).
Proof.
  unfold read_v0_2.
  apply noSkip_bind; [cbn; auto|]. intros fps.
  apply noSkip_bind; [cbn; auto|]. intros F.
  apply noSkip_bind; [apply noSkip_rd_u16|]. intros P.
  destruct (num_dims h) as [D|e]; cbn [plift pbind]; [|exact I].
  apply noSkip_bind; [apply noSkip_read_frames_full|]. intros dat.
  apply noSkip_bind; [apply noSkip_read_frames_full|]. intros cnf.
  apply noSkip_plift.
Qed.

Theorem read_bytes_truncated m p bs q s :
  MemoOK m -> write_pose p = Ok bs -> wf_arrays p -> 1 <= nth 3 (w_shape p) 0 ->
  bs = q ++ s -> s <> [] ->
  exists e, fst (read_bytes legacy m q no_args) = Err e.
Proof.
  intros Hm H Hwf HD Hq Hs.
  destruct (write_pose_ok _ _ H) as [F [P [T [D [h [b [Hsh [Hcs [Hnd [Htp [Hh [Hb Hbs]]]]]]]]]]]].
  rewrite Hsh in HD. cbn [nth] in HD.
  pose proof (header_of_written p bs h b Hh Hbs) as Hhead.
  pose proof (read_body_rt p b F P T D Hsh Hcs Hwf Hnd Htp HD Hb h []) as Hbody.
  rewrite app_nil_r, <- Hbs in Hbody.
  pose proof (read_body_dispatch p no_args) as Hdisp. cbn [a_sf a_st a_ef a_et no_args] in Hdisp.
  assert (Hlen : lenN q < lenN bs).
  { rewrite Hq, lenN_app. destruct s; [contradiction|]. unfold lenN. cbn [length]. lia. }
  assert (Hlb : lenN bs = lenN h + lenN b) by (rewrite Hbs; apply lenN_app).
  (* whenever the header parses on the prefix, it is the written header and the body read fails *)
  assert (Hcore : forall hd o, run_plain rd_header {| pbuf := q; poff := 0 |} = Ok (hd, {| pbuf := q; poff := o |}) ->
                  exists e, rmap (fun br : body * preader => {| p_header := hd; p_body := fst br |})
                                 (run_plain (read_body legacy hd no_args) {| pbuf := q; poff := o |}) = Err e).
  { intros hd o Hr.
    pose proof (run_plain_ext _ noBL_rd_header q s 0 hd o Hr) as Hx. rewrite <- Hq, Hhead in Hx.
    injection Hx as <- <-.
    pose proof (run_plain_bound _ noSkip_rd_header _ _ _ _ Hr) as Hob.
    rewrite Hdisp. rewrite Hq in Hbody.
    destruct (run_plain_trunc _ (noSkip_read_v0_2_full _) q s (lenN h) _ _ Hbody) as [e He]; [lia|lia|].
    rewrite He. eexists; reflexivity. }
  unfold read_bytes. destruct (check_cache m q) as [c|] eqn:Hc.
  - destruct (check_cache_hit m q c Hm Hc) as [_ Hrun]. cbn [fst]. apply (Hcore _ _ Hrun).
  - destruct (run_plain rd_header {| pbuf := q; poff := 0 |}) as [[hd r]|e] eqn:Hr; [|eexists; reflexivity].
    pose proof (run_plain_buf _ _ _ _ Hr) as Hbuf. destruct r as [rb ro]. cbn [pbuf] in Hbuf. subst rb.
    cbn [fst]. apply (Hcore hd ro eq_refl).
Qed.

(* every read leaves a consistent memo *)
Theorem read_bytes_memo_ok m buffer a : MemoOK m -> MemoOK (snd (read_bytes legacy m buffer a)).
Proof.
  intros Hm. unfold read_bytes. destruct (check_cache m buffer) as [c|]; [exact Hm|].
  destruct (run_plain rd_header {| pbuf := buffer; poff := 0 |}) as [[h r]|e] eqn:Hr; [|exact Hm].
  cbn [snd MemoOK m_start m_end m_slice m_header].
  pose proof (run_plain_buf _ _ _ _ Hr) as Hbuf. cbn [pbuf] in Hbuf. destruct r as [rb ro]. cbn [pbuf poff] in *. subst rb.
  pose proof (run_plain_bound _ noSkip_rd_header _ _ _ _ Hr) as Hle.
  unfold py_slice. rewrite dropN_0, N.sub_0_r.
  split; [reflexivity|]. split; [rewrite lenN_takeN; lia|].
  apply run_plain_restrict; [apply noSkip_rd_header|exact Hr].
Qed.
End WithLegacy.
