(* The stream reader (BytesIOReader) simulates the plain reader (BufferReader) on the same bytes:
   invariant of the buffer / offsets, forward simulation for programs without bytes_left()/advance(),
   and the consumption bound (bytes pulled from the stream). *)
From Coq Require Import ZArith NArith List Lia ZifyBool ZifyN ZifyNat Bool.
Require Import ListN Result Bytes Prog ProgLemmas.
Import ListNotations.
Open Scope N_scope.

Lemma run_stream_bind {A B} file (p : prog A) (f : A -> prog B) : forall r,
  run_stream file (pbind p f) r =
  match run_stream file p r with Ok (a, r') => run_stream file (f a) r' | Err e => Err e end.
Proof.
  induction p as [a|n k IH|n k IH|n k IH|k IH|e]; intros r; cbn [pbind run_stream]; try reflexivity.
  - destruct (expect file n r) as [r1|e]; [|reflexivity].
    destruct (off r1 - skipped r1 + n <=? lenN (buf r1)); [apply IH|reflexivity].
  - apply IH.
  - apply IH.
  - apply IH.
Qed.

(* invariant: the buffer is file[0..j) followed by file[j+skipped ..), and the read position is past j *)
Definition Inv (file : bytes) (r : sreader) : Prop :=
  skipped r <= off r /\
  exists j, j <= off r - skipped r /\ off r - skipped r <= lenN (buf r) /\
    dropN j (buf r) = takeN (lenN (buf r) - j) (dropN (j + skipped r) file).

Lemma inv_len file r j : j <= lenN (buf r) ->
  dropN j (buf r) = takeN (lenN (buf r) - j) (dropN (j + skipped r) file) ->
  lenN (buf r) = j \/ skipped r + lenN (buf r) <= lenN file.
Proof. intros Hj H. apply (f_equal lenN) in H. rewrite lenN_dropN, lenN_takeN, lenN_dropN in H. lia. Qed.

Ltac open_inv H j := let Hso := fresh "Hso" in let Hj := fresh "Hj" in let Hi := fresh "Hi" in let Heq := fresh "Heq" in let Hl := fresh "Hl" in
  destruct H as [Hso [j [Hj [Hi Heq]]]];
  match type of Heq with dropN _ (buf ?r) = takeN _ (dropN _ ?file) =>
    assert (Hl : lenN (buf r) = j \/ skipped r + lenN (buf r) <= lenN file) by (apply (inv_len file r j); [lia|exact Heq]) end.

Definition chunk (file : bytes) (k : N) (r : sreader) : bytes := takeN k (dropN (skipped r + lenN (buf r)) file).
Lemma read_chunk_ok file k r r1 : read_chunk file k r = Ok r1 ->
  buf r1 = buf r ++ chunk file k r /\ off r1 = off r /\ skipped r1 = skipped r /\
  pulled r1 = pulled r + lenN (chunk file k r).
Proof. unfold read_chunk, chunk. destruct (buf r ++ _) eqn:E; [discriminate|]. intros [= <-]. cbn [buf off skipped pulled].
  rewrite <- E. auto. Qed.

Lemma inv_read_chunk file k r r1 : Inv file r -> read_chunk file k r = Ok r1 -> Inv file r1.
Proof.
  intros H Hrc. destruct (read_chunk_ok _ _ _ _ Hrc) as [Hb [Ho [Hs _]]]. unfold chunk in Hb.
  open_inv H j. unfold Inv. rewrite Hb, Ho, Hs.
  split; [assumption|]. exists j.
  remember (buf r) as B. remember (skipped r) as s.
  assert (Hdrop : dropN (s + lenN B) file = dropN (lenN B - j) (dropN (j + s) file))
    by (rewrite dropN_dropN; f_equal; lia).
  assert (Hd : lenN (takeN k (dropN (s + lenN B) file)) = N.min k (lenN file - (s + lenN B)))
    by (now rewrite lenN_takeN, lenN_dropN).
  rewrite lenN_app. split; [lia|]. split; [lia|].
  rewrite dropN_app_le by lia. rewrite Heq, Hd, Hdrop, takeN_app_takeN.
  rewrite (takeN_clip (lenN B - j + k)), (takeN_clip (lenN B + _ - j)). f_equal. rewrite lenN_dropN. lia.
Qed.

Lemma inv_data file r n : Inv file r -> 0 < n -> off r - skipped r + n <= lenN (buf r) ->
  takeN n (dropN (off r - skipped r) (buf r)) = takeN n (dropN (off r) file) /\ off r + n <= lenN file.
Proof.
  intros H Hn Hfit. open_inv H j. split; [|lia].
  replace (dropN (off r - skipped r) (buf r)) with (dropN (off r - skipped r - j) (dropN j (buf r)))
    by (rewrite dropN_dropN; f_equal; lia).
  rewrite Heq, dropN_takeN, dropN_dropN.
  replace (off r - skipped r - j + (j + skipped r)) with (off r) by lia.
  apply takeN_takeN_le. lia.
Qed.

(* expect_to_read(n) for n > 0: never EOFError when the bytes exist; afterwards the block fits iff it fits in the file *)
Lemma inv_expect file r n : Inv file r -> 0 < n ->
  match expect file n r with
  | Ok r1 => Inv file r1 /\ off r1 = off r /\ skipped r1 = skipped r /\
             ((off r1 - skipped r1 + n <=? lenN (buf r1)) = (off r + n <=? lenN file)) /\
             pulled r1 <= pulled r + n /\ pulled r <= pulled r1
  | Err _ => lenN file < off r + n
  end.
Proof.
  intros HI Hn. unfold expect, bytes_left.
  destruct (Z.ltb_spec (Z.of_N (lenN (buf r)) - Z.of_N (off r) + Z.of_N (skipped r)) (Z.of_N n)) as [Hlt|Hge].
  - remember (Z.to_N (Z.of_N n - (Z.of_N (lenN (buf r)) - Z.of_N (off r) + Z.of_N (skipped r)))) as k eqn:Hk.
    destruct (read_chunk file k r) as [r1|e] eqn:Hrc.
    + pose proof (inv_read_chunk _ _ _ _ HI Hrc) as HI1.
      destruct (read_chunk_ok _ _ _ _ Hrc) as [Hb [Ho [Hs Hp]]].
      pose proof HI as H. open_inv H j.
      assert (Hc : lenN (chunk file k r) = N.min k (lenN file - (skipped r + lenN (buf r))))
        by (unfold chunk; now rewrite lenN_takeN, lenN_dropN).
      split; [exact HI1|]. split; [exact Ho|]. split; [exact Hs|]. rewrite Ho, Hs, Hb, lenN_app, Hc, Hp, Hc.
      split; [apply eq_true_iff_eq; rewrite !N.leb_le; lia|]. split; lia.
    + unfold read_chunk in Hrc. fold (chunk file k r) in Hrc.
      destruct (buf r ++ chunk file k r) eqn:E; [|discriminate].
      apply app_eq_nil in E. destruct E as [Eb Ec].
      pose proof HI as H. open_inv H j. apply (f_equal lenN) in Ec. unfold chunk in Ec.
      rewrite lenN_takeN, lenN_dropN, Eb in Ec. rewrite Eb in *. unfold lenN in *. cbn [length] in *. lia.
  - pose proof HI as H. open_inv H j.
    split; [exact HI|]. split; [reflexivity|]. split; [reflexivity|].
    split; [apply eq_true_iff_eq; rewrite !N.leb_le; lia|]. split; lia.
Qed.

Lemma inv_skip file r n : Inv file r -> Inv file (sskip n r).
Proof.
  intros H. open_inv H j. unfold sskip, Inv; cbn [buf off skipped]. split; [lia|].
  exists (off r - skipped r). rewrite lenN_takeN.
  split; [lia|]. split; [lia|].
  rewrite dropN_all by (rewrite lenN_takeN; lia).
  replace (N.min (off r - skipped r) (lenN (buf r)) - (off r - skipped r)) with 0 by lia.
  now rewrite takeN_0.
Qed.

(* programs of the v0.2 reader: no bytes_left(), no advance() *)
Fixpoint v2prog {A} (p : prog A) : Prop :=
  match p with
  | Block _ k => forall b, v2prog (k b)
  | Skip _ k => v2prog k
  | Adv _ _ | BytesLeft _ => False
  | _ => True
  end.
Lemma v2prog_bind {A B} (p : prog A) (f : A -> prog B) : v2prog p -> (forall a, v2prog (f a)) -> v2prog (pbind p f).
Proof. induction p as [a|n k IH|n k IH|n k IH|k IH|e]; cbn [pbind v2prog]; intros Hp Hf; auto; contradiction. Qed.
Lemma v2prog_prep {A} n (p : prog A) : v2prog p -> v2prog (prep n p).
Proof. intros Hp. induction n as [|n IH]; cbn [prep]; [exact I|].
  apply v2prog_bind; [exact Hp|]. intros a. apply v2prog_bind; [exact IH|]. intros l. exact I. Qed.
Lemma v2prog_plift {A} (r : result A) : v2prog (plift r).
Proof. destruct r; exact I. Qed.

(* the stream holds [q]; the plain reader holds [q ++ s] (s = [] : the same bytes; s <> [] : the stream is a
   truncation of the plain reader's file) *)
Definition Sim (q s : bytes) (p : preader) (r : sreader) : Prop :=
  pbuf p = q ++ s /\ poff p = off r /\ Inv q r.
(* consumed r = bytes handed to the decoder so far *)
Definition consumed (r : sreader) : N := off r - skipped r.

Theorem sim_fwd {A} q s (p : prog A) : v2prog p -> forall pr sr a pr',
  Sim q s pr sr -> run_plain p pr = Ok (a, pr') ->
  match run_stream q p sr with
  | Ok (b, sr') => a = b /\ Sim q s pr' sr' /\
                   pulled sr' + consumed sr <= pulled sr + consumed sr' /\ pulled sr <= pulled sr'
  | Err _ => s <> []
  end.
Proof.
  induction p as [a|n k IH|n k IH|n k IH|k IH|e]; intros Hv pr sr a' pr' [Hb [Ho HI]] Hrun;
    cbn [run_plain run_stream v2prog] in *; try contradiction; try discriminate.
  - injection Hrun as <- <-. split; [reflexivity|]. split; [exact (conj Hb (conj Ho HI))|]. lia.
  - (* Block *)
    destruct (N.leb_spec (poff pr + n) (lenN (pbuf pr))) as [Hfit|]; [|discriminate].
    destruct (N.eq_dec n 0) as [->|Hn0].
    + (* zero-size read: expect is a no-op, the (empty) slice always fits the buffer *)
      assert (He : expect q 0 sr = Ok sr).
      { unfold expect, bytes_left. pose proof HI as H. open_inv H j.
        destruct (Z.ltb_spec (Z.of_N (lenN (buf sr)) - Z.of_N (off sr) + Z.of_N (skipped sr)) (Z.of_N 0)); [lia|reflexivity]. }
      rewrite He. pose proof HI as H. open_inv H j.
      destruct (N.leb_spec (off sr - skipped sr + 0) (lenN (buf sr))) as [_|Hbad]; [|lia].
      rewrite !takeN_0 in *.
      specialize (IH [] (Hv []) {| pbuf := pbuf pr; poff := poff pr + 0 |}
                     {| buf := buf sr; off := off sr + 0; skipped := skipped sr; pulled := pulled sr |} a' pr').
      assert (HS : Sim q s {| pbuf := pbuf pr; poff := poff pr + 0 |}
                       {| buf := buf sr; off := off sr + 0; skipped := skipped sr; pulled := pulled sr |}).
      { unfold Sim, Inv; cbn [pbuf poff buf off skipped]. split; [exact Hb|]. split; [lia|]. split; [lia|].
        exists j. split; [lia|]. split; [lia|exact Heq]. }
      specialize (IH HS Hrun).
      destruct (run_stream q (k []) _) as [[b sr']|e]; [|exact IH].
      destruct IH as [E [HS' [Hp1 Hp2]]]. split; [exact E|]. split; [exact HS'|].
      unfold consumed in *. cbn [off skipped pulled] in *. lia.
    + assert (Hn : 0 < n) by lia.
      pose proof (inv_expect q sr n HI Hn) as Hex.
      destruct (expect q n sr) as [r1|e].
      * destruct Hex as [HI1 [Ho1 [Hs1 [Hlen [Hp1 Hp2]]]]]. rewrite Hlen.
        destruct (N.leb_spec (off sr + n) (lenN q)) as [Hq|Hq].
        -- assert (Hdat : takeN n (dropN (off r1 - skipped r1) (buf r1)) = takeN n (dropN (poff pr) (pbuf pr))).
           { destruct (inv_data q r1 n HI1 Hn) as [Hd _]; [apply N.leb_le; exact Hlen|].
             rewrite Hd, Ho1, Hb, Ho. rewrite dropN_app_le by lia. symmetry. apply takeN_app_le. rewrite lenN_dropN. lia. }
           rewrite Hdat.
           specialize (IH (takeN n (dropN (poff pr) (pbuf pr))) (Hv _) {| pbuf := pbuf pr; poff := poff pr + n |}
                          {| buf := buf r1; off := off r1 + n; skipped := skipped r1; pulled := pulled r1 |} a' pr').
           assert (HS : Sim q s {| pbuf := pbuf pr; poff := poff pr + n |}
                            {| buf := buf r1; off := off r1 + n; skipped := skipped r1; pulled := pulled r1 |}).
           { unfold Sim; cbn [pbuf poff off]. split; [exact Hb|]. split; [lia|].
             destruct HI1 as [Hso [j [Hj [Hi Heq]]]]. unfold Inv; cbn [buf off skipped]. split; [lia|]. exists j.
             split; [lia|]. split; [|exact Heq].
             assert (Hle : off r1 - skipped r1 + n <= lenN (buf r1)) by (apply N.leb_le; exact Hlen).
             lia. }
           specialize (IH HS Hrun).
           destruct (run_stream q (k _) _) as [[b sr']|e]; [|exact IH].
           destruct IH as [E [HS' [Hc1 Hc2]]]. split; [exact E|]. split; [exact HS'|].
           unfold consumed in *. cbn [off skipped pulled] in *.
           destruct HI as [Hso _]. lia.
        -- (* the stream's bytes end before the block: only possible when it is a truncation *)
           intros ->. rewrite app_nil_r in Hb. rewrite Hb, Ho in Hfit. lia.
      * intros ->. rewrite app_nil_r in Hb. rewrite Hb, Ho in Hfit. lia.
  - (* Skip *)
    specialize (IH Hv {| pbuf := pbuf pr; poff := poff pr + n |} (sskip n sr) a' pr').
    assert (HS : Sim q s {| pbuf := pbuf pr; poff := poff pr + n |} (sskip n sr)).
    { unfold Sim; cbn [pbuf poff]. split; [exact Hb|]. split; [cbn [sskip off]; lia|]. apply inv_skip; exact HI. }
    specialize (IH HS Hrun).
    destruct (run_stream q k (sskip n sr)) as [[b sr']|e]; [|exact IH].
    destruct IH as [E [HS' [Hc1 Hc2]]]. split; [exact E|]. split; [exact HS'|].
    unfold consumed in *. cbn [sskip off skipped pulled] in *. destruct HI as [Hso _]. lia.
Qed.
