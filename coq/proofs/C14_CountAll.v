(* C14: at an unchanged rate the new frame count is the old one, round(F * r / r) = F, for EVERY F below 2^50 and every
   positive finite rate r = m * 2^e with -553 <= e <= 447 (so 2^-553 <= r < 2^500) - no enumeration.
   The kernel's primitive binary64 operations are connected to Flocq's correctly rounded ones (Flocq.IEEE754.PrimFloat:
   mul_equiv, div_equiv, of_int63_equiv - these rest on the standard library's FloatAxioms) and the inequality
   |RN(RN(F r) / r) - F| < 1/2 is proved over the reals from the standard relative-error model of rounding to nearest.
   The closed, enumerated version (F <= 1024, 24 usual rates) is C14_CountP.same_rate_count. *)
From Coq Require Import ZArith Reals Lia Lra Psatz PrimFloat SpecFloat FloatOps FloatAxioms Uint63 Bool List.
Set Warnings "-inexact-float".
From Flocq Require Import Core Relative BinarySingleNaN.
From Flocq Require PrimFloat.
Require Import Result Num C14_Count C14_CountP.
Local Open Scope R_scope.

Lemma real_core (n r u eta e1 e2 h1 h2 : R) :
  1 <= n -> 0 < u -> n * u <= / 8 -> 0 < r -> 0 <= eta -> eta <= / 64 -> eta / r <= / 64 ->
  Rabs e1 <= u -> Rabs e2 <= u -> Rabs h1 <= eta -> Rabs h2 <= eta ->
  let y := n * r * (1 + e1) + h1 in
  let q := y / r * (1 + e2) + h2 in
  Rabs (q - n) < / 2 /\ / 2 <= y / r.
Proof.
  intros Hn Hu Hnu Hr Heta0 Heta Hetar He1 He2 Hh1 Hh2 y q.
  apply Rabs_le_inv in He1, He2, Hh1, Hh2.
  assert (Hu8 : u <= / 8) by nra.
  set (t := h1 / r).
  assert (Ht : - / 64 <= t <= / 64).
  { unfold t, Rdiv. assert (Hir : 0 < / r) by (apply Rinv_0_lt_compat; exact Hr).
    unfold Rdiv in Hetar.
    assert (A1 : h1 * / r <= eta * / r) by (apply Rmult_le_compat_r; lra).
    assert (A2 : - (eta * / r) <= h1 * / r) by (rewrite Ropp_mult_distr_l; apply Rmult_le_compat_r; lra).
    split; lra. }
  assert (Hy : y / r = n * (1 + e1) + t).
  { unfold y, t. field. lra. }
  assert (A : - / 8 <= n * e1 <= / 8) by (split; nra).
  assert (B : - / 8 <= n * e2 <= / 8) by (split; nra).
  assert (C : - / 64 <= n * e1 * e2 <= / 64) by (split; nra).
  assert (D : - / 512 <= t * e2 <= / 512) by (split; nra).
  split.
  - unfold q. rewrite Hy.
    replace ((n * (1 + e1) + t) * (1 + e2) + h2 - n) with (n * e1 + n * e2 + n * e1 * e2 + t + t * e2 + h2) by ring.
    apply Rabs_def1; lra.
  - rewrite Hy. lra.
Qed.

Definition fmt := FLT_exp (-1074) 53.
Definition rnd64 (x : R) : R := round radix2 fmt ZnearestE x.
Definition U : R := bpow radix2 (-53).
Definition ETA : R := bpow radix2 (-1075).
Lemma fmt_valid : Valid_exp fmt. Proof. apply FLT_exp_valid. unfold Prec_gt_0. lia. Qed.
Lemma rnd64_err x : exists e h, Rabs e <= U /\ Rabs h <= ETA /\ rnd64 x = x * (1 + e) + h.
Proof.
  destruct (error_N_FLT radix2 (-1074) 53 ltac:(lia) (fun t => negb (Z.even t)) x) as [e [h [He [Hh [_ Hr]]]]].
  exists e, h. split; [|split; [|exact Hr]].
  - eapply Rle_trans; [exact He|]. unfold u_ro, U. change (/ 2) with (bpow radix2 (-1)). rewrite <- bpow_plus. apply bpow_le. lia.
  - eapply Rle_trans; [exact Hh|]. unfold ETA. change (/ 2) with (bpow radix2 (-1)). rewrite <- bpow_plus. apply bpow_le. lia.
Qed.
Lemma rnd64_bpow k : (-1074 <= k)%Z -> rnd64 (bpow radix2 k) = bpow radix2 k.
Proof. intros Hk. apply round_generic; [apply valid_rnd_N|]. apply generic_format_bpow. unfold fmt, FLT_exp. lia. Qed.
Lemma rnd64_le x y : x <= y -> rnd64 x <= rnd64 y.
Proof. apply round_le; [apply fmt_valid|apply valid_rnd_N]. Qed.
Lemma rnd64_int (n : Z) : (Z.abs n < 2 ^ 53)%Z -> rnd64 (IZR n) = IZR n.
Proof.
  intros Hn. apply round_generic; [apply valid_rnd_N|]. apply generic_format_FLT.
  exists (Float radix2 n 0); [unfold F2R; cbn [Fnum Fexp bpow]; ring|cbn [Fnum]; exact Hn|cbn [Fexp]; lia].
Qed.

(* the real statement: n below 2^50, r in [2^-553, 2^500] *)
Lemma real_same_rate (n : Z) (r : R) : (1 <= n < 2 ^ 50)%Z -> bpow radix2 (-553) <= r <= bpow radix2 500 ->
  let y := rnd64 (IZR n * r) in
  let q := rnd64 (y / r) in
  Rabs (q - IZR n) < / 2 /\ 0 <= y <= bpow radix2 550 /\ / 2 <= y / r.
Proof.
  intros Hn [Hr0 Hr1] y q.
  assert (Hrp : 0 < r) by (eapply Rlt_le_trans; [apply (bpow_gt_0 radix2 (-553))|exact Hr0]).
  assert (Hn1 : 1 <= IZR n) by (apply IZR_le; lia).
  assert (Hn50 : IZR n <= bpow radix2 50) by (change (bpow radix2 50) with (IZR (2 ^ 50)); apply IZR_le; lia).
  destruct (rnd64_err (IZR n * r)) as [e1 [h1 [He1 [Hh1 Hy]]]].
  destruct (rnd64_err (y / r)) as [e2 [h2 [He2 [Hh2 Hq]]]].
  assert (HU : 0 < U) by apply bpow_gt_0.
  assert (HnU : IZR n * U <= / 8).
  { change (/ 8) with (bpow radix2 (-3)). replace (bpow radix2 (-3)) with (bpow radix2 50 * U) by (unfold U; rewrite <- bpow_plus; reflexivity).
    apply Rmult_le_compat_r; [lra|exact Hn50]. }
  assert (HE0 : 0 <= ETA) by (apply bpow_ge_0).
  assert (HE1 : ETA <= / 64) by (change (/ 64) with (bpow radix2 (-6)); apply bpow_le; lia).
  assert (HE2 : ETA / r <= / 64).
  { unfold Rdiv. apply Rle_trans with (ETA * / bpow radix2 (-553)).
    - apply Rmult_le_compat_l; [exact HE0|]. apply Rinv_le_contravar; [apply bpow_gt_0|exact Hr0].
    - rewrite <- bpow_opp. unfold ETA. rewrite <- bpow_plus. change (/ 64) with (bpow radix2 (-6)). apply bpow_le. lia. }
  pose proof (real_core (IZR n) r U ETA e1 e2 h1 h2 Hn1 HU HnU Hrp HE0 HE1 HE2 He1 He2 Hh1 Hh2) as [Hc1 Hc2].
  cbv zeta in Hc1, Hc2. rewrite <- Hy in Hc1, Hc2. fold y in Hc1, Hc2. rewrite <- Hq in Hc1.
  split; [exact Hc1|]. split; [|exact Hc2]. split.
  - unfold y, rnd64. apply round_ge_generic; [apply fmt_valid|apply valid_rnd_N|apply generic_format_0|]. nra.
  - unfold y. rewrite <- (rnd64_bpow 550) by lia. apply rnd64_le.
    replace (bpow radix2 550) with (bpow radix2 50 * bpow radix2 500) by (rewrite <- bpow_plus; reflexivity).
    apply Rmult_le_compat; lra.
Qed.

(* ---- the kernel's primitive floats through Flocq ---- *)
Notation Hp := PrimFloat.Hprec.
Notation Hm := PrimFloat.Hmax.
Notation bf := (binary_float FloatOps.prec FloatOps.emax).
Notation P2B := PrimFloat.Prim2B.

Definition rate_ok (r : Coq.Floats.PrimFloat.float) : bool :=
  match Prim2SF r with
  | S754_finite false m e => (Zpos m <? 2 ^ 53)%Z && (-553 <=? e)%Z && (e <=? 447)%Z
  | _ => false
  end.

Lemma rate_facts r : rate_ok r = true ->
  is_finite (P2B r) = true /\ Bsign (P2B r) = false /\ bpow radix2 (-553) <= B2R (P2B r) <= bpow radix2 500.
Proof.
  unfold rate_ok. rewrite <- PrimFloat.B2SF_Prim2B. destruct (P2B r) as [s|s| |s m e B]; cbn [B2SF]; try discriminate.
  destruct s; [discriminate|]. intros H. apply andb_true_iff in H. destruct H as [H H3]. apply andb_true_iff in H. destruct H as [H1 H2].
  apply Z.ltb_lt in H1. apply Z.leb_le in H2, H3. split; [reflexivity|]. split; [reflexivity|].
  cbn [B2R cond_Zopp]. unfold F2R. cbn [Fnum Fexp].
  assert (Hm1 : 1 <= IZR (Zpos m)) by (apply IZR_le; lia).
  assert (Hm2 : IZR (Zpos m) <= bpow radix2 53) by (change (bpow radix2 53) with (IZR (2 ^ 53)); apply IZR_le; lia).
  pose proof (bpow_gt_0 radix2 e) as He0.
  split.
  - apply Rle_trans with (1 * bpow radix2 e); [rewrite Rmult_1_l; apply bpow_le; lia|]. apply Rmult_le_compat_r; lra.
  - replace (bpow radix2 500) with (bpow radix2 53 * bpow radix2 447) by (rewrite <- bpow_plus; reflexivity).
    apply Rmult_le_compat; try lra. apply bpow_le. lia.
Qed.

Lemma of_nat_float (n : Z) : (1 <= n < 2 ^ 50)%Z ->
  is_finite (P2B (f_of_Z n)) = true /\ Bsign (P2B (f_of_Z n)) = false /\ B2R (P2B (f_of_Z n)) = IZR n.
Proof.
  intros Hn. unfold f_of_Z. destruct n as [|p|p]; try lia.
  rewrite PrimFloat.of_int63_equiv.
  assert (Hto : Uint63.to_Z (Uint63.of_Z (Zpos p)) = Zpos p).
  { rewrite Uint63.of_Z_spec. apply Z.mod_small. unfold Uint63.wB, Uint63.size. cbn. lia. }
  rewrite Hto.
  pose proof (binary_normalize_correct FloatOps.prec FloatOps.emax Hp Hm mode_NE (Zpos p) 0 false) as HN.
  cbv zeta in HN.
  assert (HF : F2R (Float radix2 (Zpos p) 0) = IZR (Zpos p)) by (unfold F2R; cbn [Fnum Fexp bpow]; ring).
  rewrite HF in HN.
  change (round radix2 (fexp FloatOps.prec FloatOps.emax) (round_mode mode_NE) (IZR (Zpos p))) with (rnd64 (IZR (Zpos p))) in HN.
  rewrite rnd64_int in HN by lia.
  rewrite Rlt_bool_true in HN.
  2:{ rewrite Rabs_pos_eq by (apply IZR_le; lia). change (bpow radix2 FloatOps.emax) with (IZR (2 ^ 1024)). apply IZR_lt.
      apply Z.lt_trans with (2 ^ 50)%Z; [lia|]. apply Z.pow_lt_mono_r; lia. }
  destruct HN as [HR [HFi HS]]. split; [exact HFi|]. split; [|exact HR].
  rewrite HS. assert (Hgt : Rcompare (IZR (Zpos p)) 0 = Gt) by (apply Rcompare_Gt, IZR_lt; lia). rewrite Hgt. reflexivity.
Qed.

(* the integer nearest (ties to even) to a value within 1/2 of the integer n is n *)
Lemma nearest_even_unique (m : positive) (e n z : Z) :
  nearest_even m e z -> Rabs (IZR (Zpos m) * bpow radix2 e - IZR n) < / 2 -> z = n.
Proof.
  unfold nearest_even. destruct e as [|p|k]; intros Hz Hq.
  - subst z. rewrite Z.pow_0_r, Z.mul_1_r. change (bpow radix2 0) with 1 in Hq. rewrite Rmult_1_r, <- minus_IZR in Hq.
    apply Rabs_def2 in Hq. destruct Hq as [H1 H2]. 
    assert (H1' : IZR (Zpos m - n) < 1) by lra. assert (H2' : -1 < IZR (Zpos m - n)) by lra.
    apply lt_IZR in H1'. change (-1) with (IZR (-1)) in H2'. apply lt_IZR in H2'. lia.
  - subst z. change (bpow radix2 (Z.pos p)) with (IZR (Z.pow_pos 2 p)) in Hq. rewrite <- mult_IZR, <- minus_IZR in Hq.
    rewrite Z.pow_pos_fold in Hq.
    apply Rabs_def2 in Hq. destruct Hq as [H1 H2].
    assert (H1' : IZR (Zpos m * 2 ^ Zpos p - n) < 1) by lra. assert (H2' : -1 < IZR (Zpos m * 2 ^ Zpos p - n)) by lra.
    apply lt_IZR in H1'. change (-1) with (IZR (-1)) in H2'. apply lt_IZR in H2'. lia.
  - cbv zeta in Hz. destruct Hz as [Hz _]. set (d := (2 ^ Zpos k)%Z) in *.
    assert (Hd : (0 < d)%Z) by (unfold d; apply Z.pow_pos_nonneg; lia).
    assert (HdR : 0 < IZR d) by (apply IZR_lt; exact Hd).
    change (bpow radix2 (Z.neg k)) with (/ IZR (Z.pow_pos 2 k)) in Hq. rewrite Z.pow_pos_fold in Hq. fold d in Hq.
    (* |z d - m| <= d/2 and |m/d - n| < 1/2  ==>  |z - n| < 1 *)
    apply IZR_le in Hz. rewrite mult_IZR, abs_IZR, minus_IZR, mult_IZR in Hz. change (IZR 2) with 2 in Hz.
    apply Rabs_def2 in Hq. destruct Hq as [Hq1 Hq2].
    assert (Hzle : Rabs (IZR z * IZR d - IZR (Zpos m)) <= IZR d / 2) by lra.
    apply Rabs_le_inv in Hzle. destruct Hzle as [Hz1 Hz2].
    assert (Hmd : IZR (Zpos m) * / IZR d * IZR d = IZR (Zpos m)) by (field; lra).
    assert (A1 : (IZR (Zpos m) * / IZR d - IZR n) * IZR d < / 2 * IZR d) by (apply Rmult_lt_compat_r; lra).
    assert (A2 : - / 2 * IZR d < (IZR (Zpos m) * / IZR d - IZR n) * IZR d) by (apply Rmult_lt_compat_r; lra).
    assert (B1 : (IZR z - IZR n) * IZR d < 1 * IZR d) by nra.
    assert (B2 : -1 * IZR d < (IZR z - IZR n) * IZR d) by nra.
    apply Rmult_lt_reg_r in B1; [|exact HdR]. apply Rmult_lt_reg_r in B2; [|exact HdR].
    rewrite <- minus_IZR in B1, B2. apply lt_IZR in B1. change (-1) with (IZR (-1)) in B2. apply lt_IZR in B2. lia.
Qed.

Theorem same_rate_count_all (F : nat) (r : Coq.Floats.PrimFloat.float) :
  (1 <= F)%nat -> (Z.of_nat F < 2 ^ 50)%Z -> rate_ok r = true -> new_frame_count F r r = Ok F.
Proof.
  intros HF1 HF2 Hr. set (n := Z.of_nat F). assert (Hn : (1 <= n < 2 ^ 50)%Z) by (unfold n; lia).
  destruct (rate_facts r Hr) as [HrF [HrS [Hr0 Hr1]]].
  destruct (of_nat_float n Hn) as [HxF [HxS HxR]].
  assert (Hrpos : 0 < B2R (P2B r)) by (eapply Rlt_le_trans; [apply (bpow_gt_0 radix2 (-553))|exact Hr0]).
  pose proof (real_same_rate n (B2R (P2B r)) Hn (conj Hr0 Hr1)) as [Hq [[Hy0 Hy1] Hyr]]. cbv zeta in Hq, Hy0, Hy1, Hyr.
  unfold new_frame_count.
  (* old_fps is not 0 *)
  assert (He : Coq.Floats.PrimFloat.eqb r 0 = false).
  { rewrite PrimFloat.eqb_equiv. unfold Beqb. rewrite !PrimFloat.B2SF_Prim2B.
    replace (Prim2SF 0) with (S754_zero false) by reflexivity. rewrite <- PrimFloat.B2SF_Prim2B.
    destruct (P2B r) as [s|s| |s m e B]; cbn [is_finite] in HrF; try discriminate.
    - cbn [B2R] in Hrpos. lra.
    - cbn [Bsign] in HrS. subst s. reflexivity. }
  rewrite He.
  (* the product *)
  unfold count_quotient. fold n.
  pose proof (Bmult_correct FloatOps.prec FloatOps.emax Hp Hm mode_NE (P2B (f_of_Z n)) (P2B r)) as HM.
  rewrite HxR in HM.
  change (round radix2 (fexp FloatOps.prec FloatOps.emax) (round_mode mode_NE) (IZR n * B2R (P2B r))) with (rnd64 (IZR n * B2R (P2B r))) in HM.
  rewrite Rlt_bool_true in HM.
  2:{ rewrite Rabs_pos_eq by exact Hy0. eapply Rle_lt_trans; [exact Hy1|]. apply bpow_lt. reflexivity. }
  destruct HM as [HyR [HyF HyS]]. rewrite <- PrimFloat.mul_equiv in HyR, HyF, HyS.
  set (y := Coq.Floats.PrimFloat.mul (f_of_Z n) r) in *.
  rewrite HxF, HrF in HyF. cbn [andb] in HyF.
  (* the quotient *)
  pose proof (Bdiv_correct FloatOps.prec FloatOps.emax Hp Hm mode_NE (P2B y) (P2B r) ltac:(lra)) as HD.
  rewrite HyR in HD.
  change (round radix2 (fexp FloatOps.prec FloatOps.emax) (round_mode mode_NE) (rnd64 (IZR n * B2R (P2B r)) / B2R (P2B r)))
    with (rnd64 (rnd64 (IZR n * B2R (P2B r)) / B2R (P2B r))) in HD.
  set (q := rnd64 (rnd64 (IZR n * B2R (P2B r)) / B2R (P2B r))) in *.
  assert (Hn50 : IZR n <= bpow radix2 50) by (change (bpow radix2 50) with (IZR (2 ^ 50)); apply IZR_le; lia).
  assert (Hn1 : 1 <= IZR n) by (apply IZR_le; lia).
  apply Rabs_def2 in Hq. destruct Hq as [Hq1 Hq2].
  assert (Hqpos : / 2 <= q) by lra.
  rewrite Rlt_bool_true in HD.
  2:{ rewrite Rabs_pos_eq by lra. apply Rlt_trans with (bpow radix2 51); [|apply bpow_lt; reflexivity].
      replace (bpow radix2 51) with (bpow radix2 50 + bpow radix2 50) by (change (bpow radix2 51) with (IZR (2 ^ 51)); change (bpow radix2 50) with (IZR (2 ^ 50)); rewrite <- plus_IZR; reflexivity).
      assert (1 <= bpow radix2 50) by (change 1 with (bpow radix2 0); apply bpow_le; lia). lra. }
  destruct HD as [HqR [HqF HqS]]. rewrite <- PrimFloat.div_equiv in HqR, HqF, HqS.
  set (qf := Coq.Floats.PrimFloat.div y r) in *.
  (* rounding the quotient to the nearest integer *)
  unfold py_round. rewrite <- PrimFloat.B2SF_Prim2B.
  destruct (P2B qf) as [s|s| |s m e B] eqn:Eq; cbn [is_finite] in HqF; rewrite HyF in HqF; try discriminate.
  - cbn [B2R] in HqR. lra.
  - cbn [B2SF sf_round rbind].
    assert (Hs : s = false).
    { destruct s; [|reflexivity]. cbn [B2R cond_Zopp] in HqR. 
      assert (F2R (Float radix2 (Z.opp (Zpos m)) e) <= 0) by (apply F2R_le_0; cbn [Fnum]; lia). lra. }
    subst s. cbn [B2R cond_Zopp] in HqR. unfold F2R in HqR. cbn [Fnum Fexp] in HqR.
    pose proof (rhe_pos_nearest_even m e) as Hne.
    assert (Hz : rhe_pos m e = n).
    { apply (nearest_even_unique m e n _ Hne). rewrite HqR. apply Rabs_def1; lra. }
    rewrite Hz. destruct (Z.ltb_spec n 0); [lia|]. unfold n. rewrite Nat2Z.id. reflexivity.
Qed.

(* non-vacuity: every usual video rate is in the theorem's range *)
Lemma usual_rates_ok : forallb rate_ok usual_rates = true.
Proof. vm_compute. reflexivity. Qed.
Example same_rate_count_all_example :
  new_frame_count (Z.to_nat 123456789) 29.97%float 29.97%float = Ok (Z.to_nat 123456789).
Proof. apply same_rate_count_all; [lia|rewrite Z2Nat.id by lia; reflexivity|vm_compute; reflexivity]. Qed.
