(* C17 - the real-number instance (R_ops, Ratan.atan, Ratan.acos) of the representation models equals
   the textbook formulas of model/C17_Spec.v, and the backends agree on non-degenerate inputs.
   Axioms: only the three of the standard library's Reals. *)
From Coq Require Import Reals List Lra Bool.
Require Import Num C17_Repr C17_Spec C17_Vec.
Import ListNotations.
Local Open Scope R_scope.

Local Notation RO := R_ops.
Local Notation sqrt := R_sqrt.sqrt.

Section WithTranscendentals.
Variables atan acos : R -> R.
Local Notation rvals := (@vals R_ops).

Lemma Reqb_refl x : Reqb x x = true.
Proof. unfold Reqb. destruct (Req_EM_T x x) as [_|N]; [reflexivity|exfalso; apply N; reflexivity]. Qed.
Lemma Reqb_neq x y : x <> y -> Reqb x y = false.
Proof. intros H. unfold Reqb. destruct (Req_EM_T x y) as [E|_]; [contradiction|reflexivity]. Qed.
Lemma Rltb_ge x y : y <= x -> Rltb x y = false.
Proof. intros H. unfold Rltb. destruct (Rlt_dec x y) as [L|_]; [lra|reflexivity]. Qed.
Lemma nan_to_zero_R (x : R) : nan_to_zero RO x = x.
Proof. unfold nan_to_zero. cbn [eqb RO]. rewrite Reqb_refl. reflexivity. Qed.

(* ---- all-valid masked tensors behave like plain ones ------------------------------------------ *)
Lemma marith_vals (f : R -> R -> R) : forall a b : vec, map2 (m_arith RO f) (rvals a) (rvals b) = rvals (map2 f a b).
Proof.
  induction a as [|x a IH]; intros [|y b]; try reflexivity.
  unfold vals in *. cbn [map]. rewrite !map2_cons. cbn [map]. rewrite IH. reflexivity.
Qed.
Lemma mun_vals (f : R -> R) (v : vec) : map (m_un RO f) (rvals v) = rvals (map f v).
Proof. unfold vals. rewrite !map_map. reflexivity. Qed.
Lemma fst_vals (v : vec) : map fst (rvals v) = v.
Proof. unfold vals. rewrite map_map. cbn [fst]. apply map_id. Qed.
Lemma snd_vals (v : vec) : forallb snd (rvals v) = true.
Proof. induction v as [|x v IH]; [reflexivity|exact IH]. Qed.
Lemma msum_vals (v : vec) : m_sum RO (rvals v) = (sum RO v, true).
Proof. unfold m_sum. rewrite fst_vals, snd_vals. reflexivity. Qed.
Lemma dist_m_vals a b : torch_dist_m RO (rvals a) (rvals b) = (euclid a b, true).
Proof.
  unfold torch_dist_m. rewrite marith_vals, mun_vals, msum_vals. unfold m_un. cbn [fst snd].
  rewrite sum_sq_dot. reflexivity.
Qed.

(* ---- distance ---------------------------------------------------------------------------------- *)
Lemma distance_def_torch a b : torch_distance RO (rvals a) (rvals b) = euclid a b.
Proof. unfold torch_distance. rewrite dist_m_vals. reflexivity. Qed.
Lemma distance_def_tf a b : tf_distance RO a b = euclid a b.
Proof. unfold tf_distance. change (map2 (sub RO) a b) with (vsub a b). rewrite sum_sq_dot. reflexivity. Qed.
Lemma zf_vals {O : ops} (v : list (T O)) : map (fun c : mv O => if snd c then fst c else zero O) (vals v) = v.
Proof. unfold vals. rewrite map_map. cbn [fst snd]. apply map_id. Qed.
Lemma allmasked_vals {O : ops} (v : list (T O)) : v <> [] -> forallb (fun c : mv O => negb (snd c)) (vals v) = false.
Proof. destruct v; [contradiction|reflexivity]. Qed.
Lemma distance_def_np a b : a <> [] -> b <> [] -> np_distance RO (rvals a) (rvals b) = euclid a b.
Proof.
  intros Ha Hb. unfold np_distance. rewrite marith_vals, mun_vals. rewrite zf_vals.
  rewrite allmasked_vals by (destruct a; [contradiction|]; destruct b; [contradiction|]; discriminate).
  change (map2 (sub RO) a b) with (vsub a b). rewrite sum_sq_dot.
  cbn [ltb RO zero]. rewrite Rltb_ge by apply dot_self_nonneg. reflexivity.
Qed.
Lemma euclid_nonneg a b : 0 <= euclid a b.
Proof. apply sqrt_pos. Qed.
Lemma euclid_sqr a b : euclid a b * euclid a b = dot (vsub a b) (vsub a b).
Proof. unfold euclid, norm. apply sqrt_sqrt, dot_self_nonneg. Qed.
Lemma euclid_zero_iff a b : length a = length b -> (euclid a b = 0 <-> a = b).
Proof.
  intros Hl. split.
  - intros H. apply dot_self_zero_eq; [exact Hl|]. rewrite <- euclid_sqr, H. ring.
  - intros <-. unfold euclid, norm. replace (dot (vsub a a) (vsub a a)) with 0; [apply sqrt_0|].
    clear. induction a as [|x a IH]; [reflexivity|]. unfold vsub in *. rewrite map2_cons, dot_cons, <- IH. ring.
Qed.

(* ---- X/Y angle ---------------------------------------------------------------------------------- *)
Lemma angle_def_torch x1 y1 r1 x2 y2 r2 :
  torch_angle RO atan (rvals (x1 :: y1 :: r1)) (rvals (x2 :: y2 :: r2)) = xy_angle atan (x1 :: y1 :: r1) (x2 :: y2 :: r2).
Proof.
  unfold torch_angle, torch_angle_with. rewrite marith_vals. rewrite !map2_cons. cbn [rvals map].
  unfold m_div, m_arith, fix_nan, zero_filled. cbn [fst snd andb]. rewrite nan_to_zero_R. reflexivity.
Qed.
Lemma angle_def_tf x1 y1 r1 x2 y2 r2 : x2 <> x1 ->
  tf_angle RO atan (x1 :: y1 :: r1) (x2 :: y2 :: r2) = xy_angle atan (x1 :: y1 :: r1) (x2 :: y2 :: r2).
Proof.
  intros H. unfold tf_angle. rewrite !map2_cons. unfold div_no_nan. cbn [eqb RO zero sub div].
  rewrite Reqb_neq by lra. reflexivity.
Qed.
(* meaning of the arctangent of the slope: the direction (cos t, sin t), -pi/2 < t < pi/2, is parallel to p2 - p1 *)
Lemma xy_angle_direction x1 y1 r1 x2 y2 r2 :
  (forall x, - PI / 2 < atan x < PI / 2) -> (forall x, tan (atan x) = x) -> x2 <> x1 ->
  let t := xy_angle atan (x1 :: y1 :: r1) (x2 :: y2 :: r2) in
  - PI / 2 < t < PI / 2 /\ (y2 - y1) * cos t = (x2 - x1) * sin t.
Proof.
  intros atan_bound tan_atan H t. unfold t, xy_angle. set (s := (y2 - y1) / (x2 - x1)).
  pose proof (atan_bound s) as Hb. split; [lra|].
  assert (Hc : 0 < cos (atan s)) by (apply cos_gt_0; lra).
  pose proof (tan_atan s) as Ht. unfold tan in Ht.
  set (S := sin (atan s)) in *. set (C := cos (atan s)) in *.
  assert (Hsin : S = s * C) by (rewrite <- Ht; field; lra).
  rewrite Hsin. unfold s. field. lra.
Qed.

(* ---- inner angle -------------------------------------------------------------------------------- *)
Lemma vnorm_vals (v : vec) : torch_vnorm RO (rvals v) = rvals (map (fun x => x / norm v) v).
Proof.
  unfold torch_vnorm. rewrite mun_vals, msum_vals. unfold m_un. cbn [fst snd]. rewrite sum_sq_dot.
  unfold vals. rewrite !map_map. apply map_ext. intros x. reflexivity.
Qed.
Lemma tf_vnorm_eq (v : vec) : norm v <> 0 -> tf_vnorm RO v = map (fun x => x / norm v) v.
Proof.
  intros H. unfold tf_vnorm. rewrite sum_sq_dot. apply map_ext. intros x. unfold div_no_nan.
  cbn [eqb RO zero div]. fold (norm v). rewrite Reqb_neq by exact H. reflexivity.
Qed.
Lemma dot_scaled m n : m <> 0 -> n <> 0 -> forall a b : vec,
  dot (map (fun x => x / m) a) (map (fun x => x / n) b) = dot a b / (m * n).
Proof.
  intros Hm Hn. induction a as [|x a IH]; intros [|y b]; cbn [map]; rewrite ?dot_nil_l, ?dot_nil_r; try (field; split; assumption).
  rewrite !dot_cons, IH. field. split; assumption.
Qed.
Lemma inner_angle_def_torch p1 p2 p3 : norm (vsub p1 p2) <> 0 -> norm (vsub p3 p2) <> 0 ->
  torch_inner_angle RO acos (rvals p1) (rvals p2) (rvals p3) = inner_angle acos p1 p2 p3.
Proof.
  intros H1 H2. unfold torch_inner_angle, torch_inner_slopes. rewrite !marith_vals.
  change (map2 (sub RO) p1 p2) with (vsub p1 p2). change (map2 (sub RO) p3 p2) with (vsub p3 p2).
  rewrite !vnorm_vals, marith_vals, msum_vals. unfold m_un, zero_filled. cbn [fst snd]. rewrite nan_to_zero_R.
  unfold inner_angle. f_equal. change (sum RO (map2 (mul RO) ?a ?b)) with (dot a b).
  apply dot_scaled; assumption.
Qed.
Lemma inner_angle_def_tf p1 p2 p3 : norm (vsub p1 p2) <> 0 -> norm (vsub p3 p2) <> 0 ->
  tf_inner_angle RO acos p1 p2 p3 = inner_angle acos p1 p2 p3.
Proof.
  intros H1 H2. unfold tf_inner_angle, tf_inner_slopes. rewrite nan_to_zero_R.
  change (map2 (sub RO) p1 p2) with (vsub p1 p2). change (map2 (sub RO) p3 p2) with (vsub p3 p2).
  rewrite !tf_vnorm_eq by assumption. unfold inner_angle. f_equal.
  change (sum RO (map2 (mul RO) ?a ?b)) with (dot a b). apply dot_scaled; assumption.
Qed.
(* meaning: the angle t in [0, pi] with |v1| |v2| cos t = <v1, v2> *)
Lemma inner_angle_cos p1 p2 p3 :
  (forall x, 0 <= acos x <= PI) -> (forall x, -1 <= x <= 1 -> cos (acos x) = x) ->
  length p1 = length p2 -> length p3 = length p2 ->
  norm (vsub p1 p2) <> 0 -> norm (vsub p3 p2) <> 0 ->
  let t := inner_angle acos p1 p2 p3 in
  0 <= t <= PI /\ cos t * (norm (vsub p1 p2) * norm (vsub p3 p2)) = dot (vsub p1 p2) (vsub p3 p2).
Proof.
  intros acos_bound cos_acos L1 L3 H1 H2 t. unfold t, inner_angle.
  set (u := vsub p1 p2) in *. set (w := vsub p3 p2) in *.
  assert (Hl : length u = length w) by (unfold u, w; rewrite !vsub_length by assumption; congruence).
  pose proof (cauchy_schwarz u w Hl) as CS.
  pose proof (sqrt_sqrt _ (dot_self_nonneg u)) as Su. pose proof (sqrt_sqrt _ (dot_self_nonneg w)) as Sw.
  fold (norm u) in Su. fold (norm w) in Sw.
  pose proof (sqrt_pos (dot u u)) as Pu. pose proof (sqrt_pos (dot w w)) as Pw. fold (norm u) in Pu. fold (norm w) in Pw.
  set (m := norm u) in *. set (n := norm w) in *. set (G := dot u w) in *.
  assert (Hmn : 0 < m * n) by (apply Rmult_lt_0_compat; lra).
  set (q := G / (m * n)).
  assert (Hq : q * q <= 1).
  { unfold q. replace (G / (m * n) * (G / (m * n))) with ((G * G) / ((m * m) * (n * n))) by (field; lra).
    rewrite Su, Sw. apply Rmult_le_reg_r with (dot u u * dot w w); [rewrite <- Su, <- Sw; nra|].
    replace (G * G / (dot u u * dot w w) * (dot u u * dot w w)) with (G * G) by (field; rewrite <- Su, <- Sw; nra). lra. }
  assert (Hb : -1 <= q <= 1) by nra.
  split; [apply acos_bound|]. rewrite cos_acos by exact Hb. unfold q. field. lra.
Qed.

(* ---- point-line distance (Heron) ---------------------------------------------------------------- *)
Definition heron (a b c : R) : R :=
  let s := (a + b + c) / 2 in sqrt (s * (s - a) * (s - b) * (s - c)) * 2 / b.
Lemma pld_torch_heron p1 p2 p3 :
  torch_pld RO (rvals p1) (rvals p2) (rvals p3) = heron (euclid p1 p2) (euclid p2 p3) (euclid p1 p3).
Proof.
  unfold torch_pld, torch_pld_m. rewrite !dist_m_vals. unfold m_scalar, m_arith, m_un, fix_nan, zero_filled. cbn [fst snd andb].
  rewrite nan_to_zero_R. reflexivity.
Qed.
Lemma pld_tf_heron p1 p2 p3 : euclid p2 p3 <> 0 ->
  tf_pld RO p1 p2 p3 = heron (euclid p1 p2) (euclid p2 p3) (euclid p1 p3).
Proof.
  intros H. unfold tf_pld. rewrite !distance_def_tf. unfold div_no_nan. cbn [eqb RO zero]. rewrite Reqb_neq by exact H. reflexivity.
Qed.
Lemma heron_core a b c A B G : a * a = A -> b * b = B -> c * c = A + B - 2 * G ->
  (a + b + c) / 2 * ((a + b + c) / 2 - a) * ((a + b + c) / 2 - b) * ((a + b + c) / 2 - c) = (A * B - G * G) / 4.
Proof.
  intros Ha Hb Hc.
  replace ((a + b + c) / 2 * ((a + b + c) / 2 - a) * ((a + b + c) / 2 - b) * ((a + b + c) / 2 - c))
    with ((4 * (a * a) * (b * b) - ((a * a) + (b * b) - (c * c)) * ((a * a) + (b * b) - (c * c))) / 16) by field.
  rewrite Ha, Hb, Hc. field.
Qed.
Lemma heron_geom p1 p2 p3 : length p1 = length p2 -> length p2 = length p3 -> p2 <> p3 ->
  heron (euclid p1 p2) (euclid p2 p3) (euclid p1 p3) = point_line_distance p1 p2 p3.
Proof.
  intros L1 L2 Hne. unfold point_line_distance, foot_param, norm at 1.
  set (u := vsub p1 p2). set (w := vsub p3 p2).
  assert (Hl : length u = length w) by (unfold u, w; rewrite !vsub_length by congruence; congruence).
  set (A := dot u u). set (B := dot w w). set (G := dot u w).
  pose proof (dot_self_nonneg u) as HA. fold A in HA. pose proof (dot_self_nonneg w) as HB. fold B in HB.
  assert (HBne : B <> 0).
  { intros E. apply Hne. symmetry. apply dot_self_zero_eq; [congruence|exact E]. }
  assert (Ha : euclid p1 p2 * euclid p1 p2 = A) by apply euclid_sqr.
  assert (Hb : euclid p2 p3 * euclid p2 p3 = B) by (rewrite euclid_sqr, vsub_swap_dot; reflexivity).
  assert (Hc : euclid p1 p3 * euclid p1 p3 = A + B - 2 * G).
  { rewrite euclid_sqr, (vsub_via p1 p2 p3 L1 L2). fold u w. apply dot_vsub. exact Hl. }
  pose proof (euclid_nonneg p2 p3) as Pb.
  assert (Hbpos : 0 < euclid p2 p3) by (destruct Pb as [P|E]; [exact P|exfalso; rewrite <- E in Hb; lra]).
  pose proof (cauchy_schwarz u w Hl) as CS. fold A B G in CS.
  unfold heron. rewrite (heron_core _ _ _ A B G Ha Hb Hc).
  rewrite (dot_axpy _ u w Hl). fold A B G.
  symmetry. apply sqrt_lem_1.
  - replace (A - 2 * (G / B) * G + G / B * (G / B) * B) with ((A * B - G * G) / B) by (field; exact HBne).
    apply Rmult_le_pos; [lra|]. left. apply Rinv_0_lt_compat. lra.
  - apply Rmult_le_pos; [apply Rmult_le_pos; [apply sqrt_pos|lra]|]. left. apply Rinv_0_lt_compat. exact Hbpos.
  - set (e := euclid p2 p3) in *.
    replace (sqrt ((A * B - G * G) / 4) * 2 / e * (sqrt ((A * B - G * G) / 4) * 2 / e))
      with (sqrt ((A * B - G * G) / 4) * sqrt ((A * B - G * G) / 4) * 4 / (e * e)) by (field; lra).
    rewrite sqrt_sqrt by lra. rewrite Hb. field. exact HBne.
Qed.
Lemma heron_is_point_line_distance_torch p1 p2 p3 : length p1 = length p2 -> length p2 = length p3 -> p2 <> p3 ->
  torch_pld RO (rvals p1) (rvals p2) (rvals p3) = point_line_distance p1 p2 p3.
Proof. intros. rewrite pld_torch_heron. apply heron_geom; assumption. Qed.
Lemma heron_is_point_line_distance_tf p1 p2 p3 : length p1 = length p2 -> length p2 = length p3 -> p2 <> p3 ->
  tf_pld RO p1 p2 p3 = point_line_distance p1 p2 p3.
Proof.
  intros L1 L2 Hne. rewrite pld_tf_heron; [apply heron_geom; assumption|].
  intros E. apply Hne. apply euclid_zero_iff; assumption.
Qed.
(* the textbook definition: least distance from p1 to a point of the line, attained at the foot of
   the perpendicular *)
Lemma pld_is_minimum p1 p2 p3 t : length p1 = length p2 -> length p2 = length p3 -> p2 <> p3 ->
  point_line_distance p1 p2 p3 <= dist_to_line_point t p1 p2 p3.
Proof.
  intros L1 L2 Hne. unfold point_line_distance, dist_to_line_point, foot_param, norm.
  set (u := vsub p1 p2). set (w := vsub p3 p2).
  assert (Hl : length u = length w) by (unfold u, w; rewrite !vsub_length by congruence; congruence).
  assert (HBne : dot w w <> 0) by (intros E; apply Hne; symmetry; apply dot_self_zero_eq; [congruence|exact E]).
  pose proof (dot_self_nonneg w) as HB.
  apply sqrt_le_1; try apply dot_self_nonneg. rewrite !(dot_axpy _ u w Hl).
  set (A := dot u u) in *. set (B := dot w w) in *. set (G := dot u w) in *.
  assert (E : A - 2 * t * G + t * t * B - (A - 2 * (G / B) * G + G / B * (G / B) * B) = B * ((t - G / B) * (t - G / B))) by (field; exact HBne).
  pose proof (Rle_0_sqr (t - G / B)) as Hs. unfold Rsqr in Hs.
  assert (0 <= B * ((t - G / B) * (t - G / B))) by (apply Rmult_le_pos; lra). lra.
Qed.
Lemma pld_perpendicular p1 p2 p3 : length p1 = length p2 -> length p2 = length p3 -> p2 <> p3 ->
  dot (vaxpy (foot_param p1 p2 p3) (vsub p1 p2) (vsub p3 p2)) (vsub p3 p2) = 0.
Proof.
  intros L1 L2 Hne. unfold foot_param. set (u := vsub p1 p2). set (w := vsub p3 p2).
  assert (Hl : length u = length w) by (unfold u, w; rewrite !vsub_length by congruence; congruence).
  assert (HBne : dot w w <> 0) by (intros E; apply Hne; symmetry; apply dot_self_zero_eq; [congruence|exact E]).
  rewrite (dot_axpy_w _ u w Hl). field. exact HBne.
Qed.

(* ---- cross-backend equality of the real-valued models ------------------------------------------ *)
Lemma cross_distance a b : torch_distance RO (rvals a) (rvals b) = tf_distance RO a b /\
  (a <> [] -> b <> [] -> np_distance RO (rvals a) (rvals b) = tf_distance RO a b).
Proof. split; [now rewrite distance_def_torch, distance_def_tf|]. intros. now rewrite distance_def_np, distance_def_tf. Qed.
Lemma cross_angle x1 y1 r1 x2 y2 r2 : x2 <> x1 ->
  torch_angle RO atan (rvals (x1 :: y1 :: r1)) (rvals (x2 :: y2 :: r2)) = tf_angle RO atan (x1 :: y1 :: r1) (x2 :: y2 :: r2).
Proof. intros H. now rewrite angle_def_torch, angle_def_tf. Qed.
Lemma cross_inner_angle p1 p2 p3 : norm (vsub p1 p2) <> 0 -> norm (vsub p3 p2) <> 0 ->
  torch_inner_angle RO acos (rvals p1) (rvals p2) (rvals p3) = tf_inner_angle RO acos p1 p2 p3.
Proof. intros. now rewrite inner_angle_def_torch, inner_angle_def_tf. Qed.
Lemma cross_pld p1 p2 p3 : euclid p2 p3 <> 0 ->
  torch_pld RO (rvals p1) (rvals p2) (rvals p3) = tf_pld RO p1 p2 p3.
Proof. intros. now rewrite pld_torch_heron, pld_tf_heron. Qed.
End WithTranscendentals.
