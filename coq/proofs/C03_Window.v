(* C03 assembled: window reads of written files, from bytes and from streams, under every consistent memo. *)
From Coq Require Import ZArith NArith List Lia ZifyBool ZifyN ZifyNat Bool.
Require Import ListN Result Bytes Utf8 Utf8S F32 Prog Codec ProgLemmas CodecRT PoseRead PoseReadLemmas StreamLemmas WindowLemmas StreamRead.
Import ListNotations.
Open Scope N_scope.

Section WithLegacy.
Variable legacy : vclass -> header -> rargs -> prog body.

(* reading a written file (possibly followed by other bytes) with any arguments: the header is the canonical
   one and the body is whatever the v0.2 body decoder returns on the body bytes *)
Lemma read_bytes_of_body_rt m p bs h b x a v :
  MemoOK m -> write_header (w_dims p) (w_comps p) = Ok h -> bs = h ++ b ->
  RTp (read_v0_2 (canon_header p) (a_sf a) (a_st a) (a_ef a) (a_et a)) b v ->
  fst (read_bytes legacy m (bs ++ x) a) = Ok {| p_header := canon_header p; p_body := v |}.
Proof.
  intros Hm Hh Hbs Hrt.
  pose proof (header_of_written_x p bs h b x Hh Hbs) as Hhead.
  pose proof (Hrt h x) as Hbody. rewrite app_assoc, <- Hbs in Hbody.
  pose proof (read_body_dispatch legacy p a) as Hdisp.
  unfold read_bytes. destruct (check_cache m (bs ++ x)) as [c|] eqn:Hc.
  - destruct (check_cache_hit m (bs ++ x) c Hm Hc) as [_ Hrun]. rewrite Hhead in Hrun.
    injection Hrun as Hhd Hend. rewrite <- Hhd, <- Hend, Hdisp, Hbody. reflexivity.
  - rewrite Hhead. cbn [fst poff]. rewrite Hdisp, Hbody. reflexivity.
Qed.

Definition frames_of (p : wpose) : Z := Z.of_N (nth 0 (w_shape p) 0).
Definition valid_window (p : wpose) (s e : option Z) : Prop :=
  (start0 s = 0 \/ start0 s < frames_of p)%Z /\ (start0 s <= end0 e (frames_of p))%Z.
Definition window_pose (p : wpose) (s e : option Z) : pose :=
  {| p_header := canon_header p;
     p_body := window_body (canon_body p) (start0 s) (end0 e (frames_of p)) |}.

Theorem read_bytes_window m p bs a s e :
  MemoOK m -> write_pose p = Ok bs -> wf_arrays p -> 1 <= nth 3 (w_shape p) 0 ->
  conflict (a_sf a) (a_st a) = false -> conflict (a_ef a) (a_et a) = false ->
  resolve_start (fps_word p) (a_sf a) (a_st a) = Ok s -> resolve_end (fps_word p) (a_ef a) (a_et a) = Ok e ->
  valid_window p s e ->
  fst (read_bytes legacy m bs a) = Ok (window_pose p s e).
Proof.
  intros Hm H Hwf HD Hc1 Hc2 Hrs Hre [Hv1 Hv2].
  destruct (write_pose_ok _ _ H) as [F [P [T [D [h [b [Hs [Hcs [Hnd [Htp [Hh [Hb Hbs]]]]]]]]]]]].
  unfold frames_of in *. rewrite Hs in HD, Hv1, Hv2. cbn [nth] in HD, Hv1, Hv2.
  rewrite <- (app_nil_r bs). unfold window_pose, frames_of. rewrite Hs. cbn [nth].
  apply (read_bytes_of_body_rt m p bs h b [] a); try assumption.
  now apply (read_body_window_rt p b F P T D _ _ _ _ s e).
Qed.

(* the same from a seekable stream *)
Theorem read_stream_window m p bs a s e :
  MemoOK m -> write_pose p = Ok bs -> wf_arrays p -> 1 <= nth 3 (w_shape p) 0 ->
  any_arg a = true ->
  conflict (a_sf a) (a_st a) = false -> conflict (a_ef a) (a_et a) = false ->
  resolve_start (fps_word p) (a_sf a) (a_st a) = Ok s -> resolve_end (fps_word p) (a_ef a) (a_et a) = Ok e ->
  valid_window p s e ->
  fst (fst (read_stream legacy m bs a)) = Ok (window_pose p s e) /\
  snd (fst (read_stream legacy m bs a)) = snd (read_bytes legacy m bs a).
Proof.
  intros Hm H Hwf HD Ha Hc1 Hc2 Hrs Hre Hv.
  apply read_stream_as_bytes; try assumption.
  - intros h r Hr.
    destruct (write_pose_ok _ _ H) as [F [P [T [D [hb [b [Hs [Hcs [Hnd [Htp [Hh [Hb Hbs]]]]]]]]]]]].
    rewrite (header_of_written p bs hb b Hh Hbs) in Hr. injection Hr as <- _.
    rewrite read_body_dispatch. apply v2prog_read_v0_2.
  - now apply (read_bytes_window m p bs a s e).
Qed.
(* a stream read without any window argument reads the whole stream and decodes it as bytes *)
Theorem read_stream_noargs m file a : any_arg a = false ->
  fst (read_stream legacy m file a) = read_bytes legacy m file a.
Proof. intros Ha. unfold read_stream. rewrite Ha. cbn [negb]. destruct (read_bytes legacy m file a); reflexivity. Qed.

(* giving both a time and a frame bound for the same end is rejected, from bytes and from streams, for every
   file whatsoever of version 0.2 - in particular for every written file *)
Theorem conflict_rejected_bytes m p bs a :
  MemoOK m -> write_pose p = Ok bs ->
  conflict (a_sf a) (a_st a) || conflict (a_ef a) (a_et a) = true ->
  exists e, fst (read_bytes legacy m bs a) = Err e.
Proof.
  intros Hm H Hc.
  destruct (write_pose_ok _ _ H) as [F [P [T [D [h [b [Hs [Hcs [Hnd [Htp [Hh [Hb Hbs]]]]]]]]]]]].
  pose proof (header_of_written p bs h b Hh Hbs) as Hhead.
  pose proof (read_body_dispatch legacy p a) as Hdisp. rewrite read_v0_2_shape, Hc in Hdisp.
  unfold read_bytes. destruct (check_cache m bs) as [c|] eqn:Hcc.
  - destruct (check_cache_hit m bs c Hm Hcc) as [_ Hrun]. rewrite Hhead in Hrun. injection Hrun as Hhd Hend.
    rewrite <- Hhd, Hdisp. cbn. eexists; reflexivity.
  - rewrite Hhead. cbn [fst]. rewrite Hdisp. cbn. eexists; reflexivity.
Qed.

Lemma RTp_prefix {A B} (p : prog A) (f : A -> prog B) e a pre post : RTp p e a ->
  run_plain (pbind p f) {| pbuf := pre ++ e ++ post; poff := lenN pre |} =
  run_plain (f a) {| pbuf := pre ++ e ++ post; poff := lenN pre + lenN e |}.
Proof. intros H. rewrite run_plain_bind, (H pre post). reflexivity. Qed.

(* a start at or beyond the last frame (and > 0) is rejected *)
Theorem start_beyond_rejected_bytes m p bs a s :
  MemoOK m -> write_pose p = Ok bs -> wf_arrays p ->
  conflict (a_sf a) (a_st a) = false -> conflict (a_ef a) (a_et a) = false ->
  resolve_start (fps_word p) (a_sf a) (a_st a) = Ok (Some s) ->
  (0 < s)%Z -> (frames_of p <= s)%Z ->
  exists e, fst (read_bytes legacy m bs a) = Err e.
Proof.
  intros Hm H Hwf Hc1 Hc2 Hrs Hpos Hbey.
  destruct (write_pose_ok _ _ H) as [F [P [T [D [h [b [Hs [Hcs [Hnd [Htp [Hh [Hb Hbs]]]]]]]]]]]].
  unfold frames_of in Hbey. rewrite Hs in Hbey. cbn [nth] in Hbey.
  pose proof (header_of_written p bs h b Hh Hbs) as Hhead.
  pose proof (read_body_dispatch legacy p a) as Hdisp. rewrite read_v0_2_shape, Hc1, Hc2 in Hdisp. cbn [orb] in Hdisp.
  (* the body program fails after the three info fields *)
  assert (Hfail : exists e, run_plain (body_prog (canon_header p) (a_sf a) (a_st a) (a_ef a) (a_et a))
                              {| pbuf := bs; poff := lenN h |} = Err e).
  { unfold write_body in Hb. rewrite Hs in Hb.
    destruct (N.ltb_spec 4294967295 F) as [|HF]; [discriminate|].
    unfold fps_word in Hrs.
    destruct (pack_f32 (w_fps p)) as [fw|] eqn:Hfps; [|discriminate].
    destruct (N.ltb_spec 65535 P) as [|HP]; [discriminate|]. apply Ok_inj in Hb. subst b.
    unfold body_prog. rewrite Hbs.
    rewrite <- (app_nil_r (h ++ _)), <- !app_assoc.
    rewrite (RTp_prefix rd_u32 _ (enc_u32 fw) fw h _ (rd_u32_rt fw (pack_f32_lt _ _ Hfps))).
    change (h ++ enc_u32 fw ++ ?x) with (h ++ enc_u32 fw ++ x). rewrite (app_assoc h (enc_u32 fw)).
    replace (lenN h + lenN (enc_u32 fw)) with (lenN (h ++ enc_u32 fw)) by (now rewrite lenN_app).
    rewrite (RTp_prefix rd_u32 _ (enc_u32 F) F (h ++ enc_u32 fw) _ (rd_u32_rt F ltac:(lia))).
    rewrite (app_assoc (h ++ enc_u32 fw) (enc_u32 F)).
    replace (lenN (h ++ enc_u32 fw) + lenN (enc_u32 F)) with (lenN ((h ++ enc_u32 fw) ++ enc_u32 F)) by (now rewrite lenN_app).
    rewrite (RTp_prefix rd_u16 _ (enc_u16 P) P ((h ++ enc_u32 fw) ++ enc_u32 F) _ (rd_u16_rt P ltac:(lia))).
    rewrite num_dims_canon, Hnd, total_points_canon, Htp, Hrs. cbn [plift pbind].
    destruct (resolve_end fw (a_ef a) (a_et a)) as [e'|er]; cbn [plift pbind]; [|eexists; reflexivity].
    unfold read_frames.
    destruct (Z.ltb_spec 0 s) as [_|]; [|lia]. destruct (Z.leb_spec (Z.of_N F) s) as [_|]; [|lia].
    cbn [andb pbind run_plain]. eexists; reflexivity. }
  destruct Hfail as [e He].
  unfold read_bytes. destruct (check_cache m bs) as [c|] eqn:Hcc.
  - destruct (check_cache_hit m bs c Hm Hcc) as [_ Hrun]. rewrite Hhead in Hrun. injection Hrun as Hhd Hend.
    rewrite <- Hhd, <- Hend, Hdisp, He. cbn. eexists; reflexivity.
  - rewrite Hhead. cbn [fst poff]. rewrite Hdisp, He. cbn. eexists; reflexivity.
Qed.
End WithLegacy.
