(* Decoders are programs over the reader interface of utils/reader.py; BufferReader and BytesIOReader
   are two interpreters of the same program (DESIGN appendix A). *)
From Coq Require Import ZArith NArith List Lia ZifyBool ZifyN ZifyNat Bool.
Require Import ListN Result Bytes.
Import ListNotations.
Open Scope N_scope.

Inductive prog (A : Type) :=
| Ret (a : A)
| Block (n : N) (k : bytes -> prog A)     (* unpack / unpack_numpy / unpack_str payload of n bytes *)
| Skip (n : N) (k : prog A)               (* reader.skip(struct, times) *)
| Adv (n : N) (k : prog A)                (* reader.advance(struct, times): moves read_offset only *)
| BytesLeft (k : Z -> prog A)             (* reader.bytes_left() *)
| Fail (e : err).
Arguments Ret {A}. Arguments Block {A}. Arguments Skip {A}. Arguments Adv {A}. Arguments BytesLeft {A}. Arguments Fail {A}.

Fixpoint pbind {A B} (p : prog A) (f : A -> prog B) : prog B :=
  match p with
  | Ret a => f a
  | Block n k => Block n (fun b => pbind (k b) f)
  | Skip n k => Skip n (pbind k f)
  | Adv n k => Adv n (pbind k f)
  | BytesLeft k => BytesLeft (fun z => pbind (k z) f)
  | Fail e => Fail e
  end.
Notation "'dop' x <- p ; k" := (pbind p (fun x => k)) (at level 200, x pattern, p at level 100, k at level 200).
Definition plift {A} (r : result A) : prog A := match r with Ok a => Ret a | Err e => Fail e end.
Fixpoint prep {A} (n : nat) (p : prog A) : prog (list A) :=
  match n with O => Ret [] | S k => dop a <- p; dop l <- prep k p; Ret (a :: l) end.

(* ---- BufferReader (utils/reader.py:41-205): buffer, read_offset; read_skipped stays 0 ---- *)
Record preader := { pbuf : bytes; poff : N }.
Fixpoint run_plain {A} (p : prog A) (r : preader) : result (A * preader) :=
  match p with
  | Ret a => Ok (a, r)
  | Fail e => Err e
  | Block n k => if poff r + n <=? lenN (pbuf r)
                 then run_plain (k (takeN n (dropN (poff r) (pbuf r)))) {| pbuf := pbuf r; poff := poff r + n |}
                 else Err StructError
  | Skip n k => run_plain k {| pbuf := pbuf r; poff := poff r + n |}
  | Adv n k => run_plain k {| pbuf := pbuf r; poff := poff r + n |}
  | BytesLeft k => run_plain (k (Z.of_N (lenN (pbuf r)) - Z.of_N (poff r))%Z) r
  end.

(* ---- BytesIOReader (utils/reader.py:208-229) over a seekable stream holding [file] ----
   buf/off/skipped = buffer/read_offset/read_skipped; pulled = bytes the stream has delivered. *)
Record sreader := { buf : bytes; off : N; skipped : N; pulled : N }.
Definition bytes_left (r : sreader) : Z := Z.of_N (lenN (buf r)) - Z.of_N (off r) + Z.of_N (skipped r).
(* read_chunk: seek(read_skipped + len(buffer)); buffer.extend(read(k)); EOFError iff buffer stays empty *)
Definition read_chunk (file : bytes) (k : N) (r : sreader) : result sreader :=
  let p := skipped r + lenN (buf r) in
  let d := takeN k (dropN p file) in
  let b := buf r ++ d in
  match b with
  | [] => Err EOF
  | _ => Ok {| buf := b; off := off r; skipped := skipped r; pulled := pulled r + lenN d |}
  end.
Definition expect (file : bytes) (n : N) (r : sreader) : result sreader :=
  if (bytes_left r <? Z.of_N n)%Z then read_chunk file (Z.to_N (Z.of_N n - bytes_left r)) r else Ok r.
(* skip: buffer = buffer[: read_offset - read_skipped]; read_skipped += n; read_offset += n *)
Definition sskip (n : N) (r : sreader) : sreader :=
  {| buf := takeN (off r - skipped r) (buf r); off := off r + n; skipped := skipped r + n; pulled := pulled r |}.
Fixpoint run_stream {A} (file : bytes) (p : prog A) (r : sreader) : result (A * sreader) :=
  match p with
  | Ret a => Ok (a, r)
  | Fail e => Err e
  | Block n k =>
      match expect file n r with
      | Err e => Err e
      | Ok r1 =>
        let i := off r1 - skipped r1 in
        if i + n <=? lenN (buf r1)
        then run_stream file (k (takeN n (dropN i (buf r1))))
               {| buf := buf r1; off := off r1 + n; skipped := skipped r1; pulled := pulled r1 |}
        else Err StructError
      end
  | Skip n k => run_stream file k (sskip n r)
  | Adv n k => run_stream file k {| buf := buf r; off := off r + n; skipped := skipped r; pulled := pulled r |}
  | BytesLeft k => run_stream file (k (bytes_left r)) r
  end.
