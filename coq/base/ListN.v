From Coq Require Import ZArith NArith List Lia ZifyBool ZifyN ZifyNat.
Import ListNotations.
Open Scope N_scope.
(* N-indexed list helpers (extraction-friendly), with bridges to the nat-indexed stdlib ones *)
Section L.
Context {A : Type}.
Fixpoint dropN (n : N) (l : list A) {struct l} : list A :=
  match l with [] => [] | x :: r => if n =? 0 then l else dropN (n - 1) r end.
Fixpoint takeN (n : N) (l : list A) {struct l} : list A :=
  match l with [] => [] | x :: r => if n =? 0 then [] else x :: takeN (n - 1) r end.
Definition lenN (l : list A) : N := N.of_nat (length l).
Lemma dropN_skipn n l : dropN n l = skipn (N.to_nat n) l.
Proof. revert n; induction l as [|x r IH]; intros n; cbn [dropN].
  - now rewrite skipn_nil.
  - destruct (N.eqb_spec n 0) as [->|Hn]; [reflexivity|].
    replace (N.to_nat n) with (S (N.to_nat (n - 1))) by lia. cbn [skipn]. apply IH. Qed.
Lemma takeN_firstn n l : takeN n l = firstn (N.to_nat n) l.
Proof. revert n; induction l as [|x r IH]; intros n; cbn [takeN].
  - now rewrite firstn_nil.
  - destruct (N.eqb_spec n 0) as [->|Hn]; [reflexivity|].
    replace (N.to_nat n) with (S (N.to_nat (n - 1))) by lia. cbn [firstn]. f_equal. apply IH. Qed.
Lemma lenN_app l1 l2 : lenN (l1 ++ l2) = lenN l1 + lenN l2.
Proof. unfold lenN. rewrite app_length. lia. Qed.
Lemma lenN_takeN n l : lenN (takeN n l) = N.min n (lenN l).
Proof. unfold lenN. rewrite takeN_firstn, firstn_length. lia. Qed.
Lemma lenN_dropN n l : lenN (dropN n l) = lenN l - n.
Proof. unfold lenN. rewrite dropN_skipn, skipn_length. lia. Qed.
Lemma takeN_all n l : lenN l <= n -> takeN n l = l.
Proof. unfold lenN. intros. rewrite takeN_firstn. apply firstn_all2. lia. Qed.
Lemma dropN_app_le n l1 l2 : n <= lenN l1 -> dropN n (l1 ++ l2) = dropN n l1 ++ l2.
Proof. unfold lenN; intros. rewrite !dropN_skipn, skipn_app. replace (N.to_nat n - length l1)%nat with 0%nat by lia. reflexivity. Qed.
Lemma skipn_skipn' (a b : nat) (l : list A) : skipn a (skipn b l) = skipn (a + b) l.
Proof. revert l; induction b as [|b IH]; intros l; [now rewrite Nat.add_0_r|].
  destruct l as [|x l]; [now rewrite !skipn_nil|]. rewrite Nat.add_succ_r. cbn [skipn]. apply IH. Qed.
Lemma dropN_dropN a b l : dropN a (dropN b l) = dropN (a + b) l.
Proof. rewrite !dropN_skipn, skipn_skipn'. f_equal. lia. Qed.
Lemma takeN_takeN_le a b l : a <= b -> takeN a (takeN b l) = takeN a l.
Proof. intros. rewrite !takeN_firstn, firstn_firstn. f_equal. lia. Qed.
Lemma take_drop_split n l : takeN n l ++ dropN n l = l.
Proof. rewrite takeN_firstn, dropN_skipn. apply firstn_skipn. Qed.
Lemma takeN_app_le n l1 l2 : n <= lenN l1 -> takeN n (l1 ++ l2) = takeN n l1.
Proof. unfold lenN; intros. rewrite !takeN_firstn, firstn_app. replace (N.to_nat n - length l1)%nat with 0%nat by lia. cbn. apply app_nil_r. Qed.
Lemma dropN_all n l : lenN l <= n -> dropN n l = [].
Proof. unfold lenN; intros. rewrite dropN_skipn. apply skipn_all2. lia. Qed.
Lemma takeN_dropN_comm a b l : takeN a (dropN b l) = dropN b (takeN (a + b) l).
Proof. rewrite !takeN_firstn, !dropN_skipn. rewrite skipn_firstn_comm. f_equal. lia. Qed.
Lemma dropN_takeN a b l : dropN a (takeN b l) = takeN (b - a) (dropN a l).
Proof. rewrite !takeN_firstn, !dropN_skipn, skipn_firstn_comm. f_equal. lia. Qed.
Lemma firstn_app_firstn (a b : nat) (l : list A) : firstn a l ++ firstn b (skipn a l) = firstn (a + b) l.
Proof. revert l; induction a as [|a IH]; intros l; [reflexivity|].
  destruct l as [|x r]; [now rewrite skipn_nil, !firstn_nil|]. cbn [firstn skipn Nat.add app]. f_equal. apply IH. Qed.
Lemma takeN_app_takeN a b l : takeN a l ++ takeN b (dropN a l) = takeN (a + b) l.
Proof. rewrite !takeN_firstn, dropN_skipn, firstn_app_firstn. f_equal. lia. Qed.
Lemma takeN_over a b l : lenN l <= a -> lenN l <= b -> takeN a l = takeN b l.
Proof. intros. now rewrite !takeN_all. Qed.
Lemma takeN_clip n l : takeN n l = takeN (N.min n (lenN l)) l.
Proof. destruct (N.le_gt_cases n (lenN l)); [f_equal; lia|]. rewrite !takeN_all by lia. reflexivity. Qed.
Lemma takeN_0 l : takeN 0 l = [].
Proof. destruct l; reflexivity. Qed.
End L.
