(* Object graphs.  A heap is a list of cells; a cell has a payload (the object's own immutable-valued fields) and an
   ordered list of pointer fields (addresses of the mutable objects it refers to).  A value tree [vtree] is what an
   object denotes when its pointers are followed.  [Owns h a t S]: the heap contains the tree [t] at address [a] and
   [S] lists the addresses of the cells that make it up (the object's footprint).

   Used by C06 (objects handed out by separate reads / copy() share no cell, an in-place edit is local to its owner).
   Everything is generic in the payload type; nothing here knows about poses.  Definitions and lemmas; no axioms. *)
From Coq Require Import List Arith Lia Bool.
Import ListNotations.

Section Graph.
Context {P : Type}.

Inductive vtree := VNode (p : P) (kids : list vtree).

Section VInd.
  Variable Q : vtree -> Prop.
  Hypothesis HQ : forall p kids, Forall Q kids -> Q (VNode p kids).
  Fixpoint vtree_ind' (t : vtree) : Q t :=
    match t with
    | VNode p kids =>
        HQ p kids ((fix go (l : list vtree) : Forall Q l :=
                      match l with [] => Forall_nil Q | k :: r => Forall_cons k (vtree_ind' k) (go r) end) kids)
    end.
End VInd.

Fixpoint depth (t : vtree) : nat :=
  match t with VNode _ kids => S (fold_right (fun k m => Nat.max (depth k) m) 0 kids) end.

Record cell := { c_pay : P; c_ptrs : list nat }.
Definition heap := list cell.

(* ---- allocation: children first, left to right, then the node (copy.deepcopy / building a parsed object) ---- *)
Fixpoint alloc_tree (t : vtree) (h : heap) : nat * heap :=
  match t with
  | VNode p kids =>
      let '(ptrs, h1) :=
        (fix go (ks : list vtree) (h : heap) {struct ks} : list nat * heap :=
           match ks with
           | [] => ([], h)
           | k :: r => let '(a, h1) := alloc_tree k h in let '(l, h2) := go r h1 in (a :: l, h2)
           end) kids h in
      (length h1, h1 ++ [{| c_pay := p; c_ptrs := ptrs |}])
  end.
Fixpoint alloc_list (ks : list vtree) (h : heap) : list nat * heap :=
  match ks with
  | [] => ([], h)
  | k :: r => let '(a, h1) := alloc_tree k h in let '(l, h2) := alloc_list r h1 in (a :: l, h2)
  end.
Lemma alloc_tree_node p kids h :
  alloc_tree (VNode p kids) h =
  let '(ptrs, h1) := alloc_list kids h in (length h1, h1 ++ [{| c_pay := p; c_ptrs := ptrs |}]).
Proof. reflexivity. Qed.

(* ---- reading a tree back (executable; fuel bounds the depth) ---- *)
Fixpoint mapM {A B} (f : A -> option B) (l : list A) : option (list B) :=
  match l with
  | [] => Some []
  | x :: r => match f x, mapM f r with Some y, Some ys => Some (y :: ys) | _, _ => None end
  end.
Fixpoint read_tree (fuel : nat) (h : heap) (a : nat) : option vtree :=
  match fuel with
  | O => None
  | S f => match nth_error h a with
           | None => None
           | Some c => match mapM (read_tree f h) (c_ptrs c) with Some ks => Some (VNode (c_pay c) ks) | None => None end
           end
  end.
(* the addresses an object is made of (executable) *)
Fixpoint footprint (fuel : nat) (h : heap) (a : nat) : list nat :=
  match fuel with
  | O => []
  | S f => match nth_error h a with
           | None => []
           | Some c => a :: concat (map (footprint f h) (c_ptrs c))
           end
  end.

(* ---- ownership ---- *)
Inductive Owns (h : heap) : nat -> vtree -> list nat -> Prop :=
| Owns_node a p ptrs kids fps :
    nth_error h a = Some {| c_pay := p; c_ptrs := ptrs |} ->
    OwnsL h ptrs kids fps ->
    Owns h a (VNode p kids) (a :: concat fps)
with OwnsL (h : heap) : list nat -> list vtree -> list (list nat) -> Prop :=
| OwnsL_nil : OwnsL h [] [] []
| OwnsL_cons a t S ptrs kids fps :
    Owns h a t S -> OwnsL h ptrs kids fps -> OwnsL h (a :: ptrs) (t :: kids) (S :: fps).
Scheme Owns_mut := Induction for Owns Sort Prop
  with OwnsL_mut := Induction for OwnsL Sort Prop.
Combined Scheme Owns_both from Owns_mut, OwnsL_mut.

(* frame: a derivation looks only at the cells of its footprint *)
Lemma owns_agree h h' :
  (forall a t S, Owns h a t S -> (forall x, In x S -> nth_error h' x = nth_error h x) -> Owns h' a t S) /\
  (forall ptrs kids fps, OwnsL h ptrs kids fps -> (forall x, In x (concat fps) -> nth_error h' x = nth_error h x) ->
                         OwnsL h' ptrs kids fps).
Proof.
  apply Owns_both.
  - intros a p ptrs kids fps Hc HL IH Hag. apply Owns_node with (ptrs := ptrs).
    + rewrite (Hag a (or_introl eq_refl)). exact Hc.
    + apply IH. intros x Hx. apply Hag. right. exact Hx.
  - intros _. constructor.
  - intros a t S ptrs kids fps HO IH1 HL IH2 Hag. constructor.
    + apply IH1. intros x Hx. apply Hag. cbn [concat]. apply in_or_app. left. exact Hx.
    + apply IH2. intros x Hx. apply Hag. cbn [concat]. apply in_or_app. right. exact Hx.
Qed.

Lemma owns_lt h :
  (forall a t S, Owns h a t S -> forall x, In x S -> x < length h) /\
  (forall ptrs kids fps, OwnsL h ptrs kids fps -> forall x, In x (concat fps) -> x < length h).
Proof.
  apply Owns_both.
  - intros a p ptrs kids fps Hc HL IH x [<-|Hx].
    + apply nth_error_Some. rewrite Hc. discriminate.
    + apply IH. exact Hx.
  - intros x [].
  - intros a t S ptrs kids fps HO IH1 HL IH2 x Hx. cbn [concat] in Hx. apply in_app_or in Hx. destruct Hx; auto.
Qed.

Lemma owns_ext h e a t S : Owns h a t S -> Owns (h ++ e) a t S.
Proof.
  intros H. apply (proj1 (owns_agree h (h ++ e)) a t S H). intros x Hx.
  apply nth_error_app1. exact (proj1 (owns_lt h) a t S H x Hx).
Qed.
Lemma ownsL_ext h e ptrs kids fps : OwnsL h ptrs kids fps -> OwnsL (h ++ e) ptrs kids fps.
Proof.
  intros H. apply (proj2 (owns_agree h (h ++ e)) ptrs kids fps H). intros x Hx.
  apply nth_error_app1. exact (proj2 (owns_lt h) ptrs kids fps H x Hx).
Qed.

(* the root is the head of the footprint; a tree and its footprint are determined by heap and address *)
Lemma owns_head h a t S : Owns h a t S -> exists S', S = a :: S'.
Proof. intros H. inversion H; subst. eexists. reflexivity. Qed.
Lemma owns_fun h :
  (forall a t S, Owns h a t S -> forall t' S', Owns h a t' S' -> t = t' /\ S = S') /\
  (forall ptrs kids fps, OwnsL h ptrs kids fps -> forall kids' fps', OwnsL h ptrs kids' fps' -> kids = kids' /\ fps = fps').
Proof.
  apply Owns_both.
  - intros a p ptrs kids fps Hc HL IH t' S' H'. inversion H'; subst.
    match goal with Hx : nth_error h a = Some _ |- _ => rewrite Hc in Hx; injection Hx as <- <- end.
    match goal with Hx : OwnsL h ptrs _ _ |- _ => destruct (IH _ _ Hx) as [<- <-] end. split; reflexivity.
  - intros kids' fps' H'. inversion H'; subst. split; reflexivity.
  - intros a t S ptrs kids fps HO IH1 HL IH2 kids' fps' H'. inversion H'; subst.
    match goal with Hx : Owns h a _ _ |- _ => destruct (IH1 _ _ Hx) as [<- <-] end.
    match goal with Hx : OwnsL h ptrs _ _ |- _ => destruct (IH2 _ _ Hx) as [<- <-] end. split; reflexivity.
Qed.

(* ---- allocation builds an owned tree out of fresh cells only ---- *)
Definition fresh_in (lo hi : nat) (S : list nat) : Prop := forall x, In x S -> lo <= x < hi.
Lemma NoDup_app_ranges (A B : list nat) lo mid hi :
  NoDup A -> NoDup B -> fresh_in lo mid A -> fresh_in mid hi B -> NoDup (A ++ B).
Proof.
  intros HA HB FA FB. induction A as [|x A IH]; [exact HB|]. cbn. inversion HA; subst. constructor.
  - intros Hin. apply in_app_or in Hin. destruct Hin as [Hin|Hin]; [contradiction|].
    specialize (FA x (or_introl eq_refl)). specialize (FB x Hin). lia.
  - apply IH; [assumption|]. intros y Hy. apply FA. right. exact Hy.
Qed.

Lemma alloc_owns : forall t h a h', alloc_tree t h = (a, h') ->
  exists e S, h' = h ++ e /\ Owns h' a t S /\ NoDup S /\ fresh_in (length h) (length h') S.
Proof.
  intros t. induction t as [p kids IHk] using vtree_ind'. intros h a h' Hal.
  rewrite alloc_tree_node in Hal.
  assert (HL : forall h ptrs h1, alloc_list kids h = (ptrs, h1) ->
            exists e fps, h1 = h ++ e /\ OwnsL h1 ptrs kids fps /\ NoDup (concat fps) /\ fresh_in (length h) (length h1) (concat fps)).
  { clear Hal h a h'. induction IHk as [|k r Hk Hr IHr]; intros h ptrs h1 Hl.
    - cbn in Hl. injection Hl as <- <-. exists [], []. rewrite app_nil_r.
      split; [reflexivity|]. split; [constructor|]. split; [constructor|]. intros x [].
    - cbn [alloc_list] in Hl. destruct (alloc_tree k h) as [a0 h0] eqn:E0. destruct (alloc_list r h0) as [l h2] eqn:E1.
      injection Hl as <- <-.
      destruct (Hk _ _ _ E0) as [e0 [S0 [-> [HO0 [ND0 FR0]]]]].
      destruct (IHr _ _ _ E1) as [e1 [fps [-> [HL1 [ND1 FR1]]]]].
      exists (e0 ++ e1), (S0 :: fps). rewrite app_assoc. split; [reflexivity|]. split; [|split].
      + constructor; [apply owns_ext; exact HO0|exact HL1].
      + cbn [concat]. eapply NoDup_app_ranges; eauto.
      + cbn [concat]. intros x Hx. apply in_app_or in Hx. destruct Hx as [Hx|Hx].
        * specialize (FR0 x Hx). rewrite ?app_length in *. lia.
        * specialize (FR1 x Hx). rewrite ?app_length in *. lia. }
  destruct (alloc_list kids h) as [ptrs h1] eqn:E. injection Hal as <- <-.
  destruct (HL _ _ _ E) as [e [fps [-> [HO [ND FR]]]]].
  exists (e ++ [{| c_pay := p; c_ptrs := ptrs |}]), (length (h ++ e) :: concat fps). rewrite app_assoc.
  split; [reflexivity|]. split; [|split].
  - apply Owns_node with (ptrs := ptrs); [|apply ownsL_ext; exact HO]. rewrite nth_error_app2 by lia. rewrite Nat.sub_diag. reflexivity.
  - constructor; [|exact ND]. intros Hin. specialize (FR _ Hin). lia.
  - intros x [<-|Hx]; [|specialize (FR x Hx)]; rewrite ?app_length in *; cbn [length]; lia.
Qed.

(* ---- an owned tree is what read_tree returns, and its footprint what footprint returns, given enough fuel ---- *)
Lemma owns_read h :
  (forall a t S, Owns h a t S -> forall f, depth t <= f -> read_tree f h a = Some t /\ footprint f h a = S) /\
  (forall ptrs kids fps, OwnsL h ptrs kids fps -> forall f, Forall (fun k => depth k <= f) kids ->
                         mapM (read_tree f h) ptrs = Some kids /\ map (footprint f h) ptrs = fps).
Proof.
  apply Owns_both.
  - intros a p ptrs kids fps Hc HL IH f Hf. destruct f as [|f]; [cbn in Hf; lia|]. cbn [read_tree footprint]. rewrite Hc. cbn [c_ptrs c_pay].
    assert (Hk : Forall (fun k => depth k <= f) kids).
    { cbn [depth] in Hf. apply le_S_n in Hf. clear -Hf. induction kids as [|k r IHr]; constructor; cbn in Hf; [lia|apply IHr; lia]. }
    destruct (IH f Hk) as [-> ->]. split; reflexivity.
  - intros f _. split; reflexivity.
  - intros a t S ptrs kids fps HO IH1 HL IH2 f Hf. inversion Hf; subst. cbn [mapM map].
    destruct (IH1 f H1) as [-> ->]. destruct (IH2 f H2) as [-> ->]. split; reflexivity.
Qed.

(* ---- in-place edits ---- *)
Fixpoint upd {X} (n : nat) (g : X -> X) (l : list X) : list X :=
  match l, n with
  | [], _ => []
  | y :: r, O => g y :: r
  | y :: r, S m => y :: upd m g r
  end.
Lemma nth_error_upd_other {X} (l : list X) : forall n m g, n <> m -> nth_error (upd n g l) m = nth_error l m.
Proof. induction l as [|y l IH]; intros [|n] [|m] g H; cbn; try reflexivity; try congruence. apply IH. congruence. Qed.
Lemma nth_error_upd_same {X} (l : list X) : forall n g x, nth_error l n = Some x -> nth_error (upd n g l) n = Some (g x).
Proof. induction l as [|y l IH]; intros [|n] g x H; cbn in *; try discriminate; [congruence|]. apply IH. exact H. Qed.
Lemma length_upd {X} (l : list X) : forall n g, length (upd n g l) = length l.
Proof. induction l as [|y l IH]; intros [|n] g; cbn; try reflexivity. now rewrite IH. Qed.

Definition set_pay (x : nat) (g : P -> P) (h : heap) : heap :=
  upd x (fun c => {| c_pay := g (c_pay c); c_ptrs := c_ptrs c |}) h.

(* following pointer fields from an object *)
Fixpoint addr_at (h : heap) (a : nat) (path : list nat) : option nat :=
  match path with
  | [] => Some a
  | i :: r => match nth_error h a with
              | Some c => match nth_error (c_ptrs c) i with Some b => addr_at h b r | None => None end
              | None => None
              end
  end.
Fixpoint tmap_at (path : list nat) (f : vtree -> vtree) (t : vtree) : vtree :=
  match path with
  | [] => f t
  | i :: r => match t with VNode p kids => VNode p (upd i (tmap_at r f) kids) end
  end.
Definition pay (g : P -> P) (t : vtree) : vtree := match t with VNode p kids => VNode (g p) kids end.

Lemma owns_frame h x g a t S : Owns h a t S -> ~ In x S -> Owns (set_pay x g h) a t S.
Proof.
  intros H Hx. apply (proj1 (owns_agree h _) a t S H). intros y Hy. unfold set_pay.
  apply nth_error_upd_other. intros ->. contradiction.
Qed.
Lemma ownsL_frame h x g ptrs kids fps : OwnsL h ptrs kids fps -> ~ In x (concat fps) -> OwnsL (set_pay x g h) ptrs kids fps.
Proof.
  intros H Hx. apply (proj2 (owns_agree h _) ptrs kids fps H). intros y Hy. unfold set_pay.
  apply nth_error_upd_other. intros ->. contradiction.
Qed.

(* an address reached by following pointer fields lies in the footprint *)
Lemma path_list_aux h r x (IH : forall a t S, Owns h a t S -> addr_at h a r = Some x -> In x S) :
  forall ptrs kids fps, OwnsL h ptrs kids fps -> forall i b, nth_error ptrs i = Some b -> addr_at h b r = Some x -> In x (concat fps).
Proof.
  intros ptrs kids fps HL. induction HL as [|a0 t0 S0 ptrs0 kids0 fps0 H0 HL0 IHL]; intros i b Eb Hp.
  - destruct i; discriminate.
  - cbn [concat]. apply in_or_app. destruct i as [|i]; cbn in Eb.
    + injection Eb as ->. left. eapply IH; eauto.
    + right. eapply IHL; eauto.
Qed.
Lemma path_in_footprint h : forall path a t S x, Owns h a t S -> addr_at h a path = Some x -> In x S.
Proof.
  induction path as [|i r IH]; intros a t S x HO Hp.
  - cbn in Hp. injection Hp as <-. destruct (owns_head _ _ _ _ HO) as [S' ->]. left. reflexivity.
  - inversion HO as [a' p ptrs kids fps Hcell HLs]; subst. cbn [addr_at] in Hp. rewrite Hcell in Hp. cbn [c_ptrs] in Hp.
    destruct (nth_error ptrs i) as [b|] eqn:Eb; [|discriminate]. right.
    eapply (path_list_aux h r x); eauto.
Qed.
Lemma path_in_concat h r x ptrs kids fps i b :
  OwnsL h ptrs kids fps -> nth_error ptrs i = Some b -> addr_at h b r = Some x -> In x (concat fps).
Proof. intros HL Eb Hp. eapply (path_list_aux h r x); eauto. intros a t S HO Ha. eapply path_in_footprint; eauto. Qed.

Lemma NoDup_app_l {X} (A B : list X) : NoDup (A ++ B) -> NoDup A.
Proof. induction A as [|y A IH]; intros H; [constructor|]. cbn in H. inversion H; subst. constructor; [|auto]. intros Hy. apply H2. apply in_or_app. left. exact Hy. Qed.
Lemma NoDup_app_r {X} (A B : list X) : NoDup (A ++ B) -> NoDup B.
Proof. induction A as [|y A IH]; intros H; [exact H|]. cbn in H. inversion H; subst. auto. Qed.
Lemma notin_app_l {X} (x : X) (A B : list X) : NoDup (A ++ B) -> In x B -> ~ In x A.
Proof.
  intros ND HB HA. induction A as [|y A IH]; [contradiction|]. cbn in ND. inversion ND; subst.
  destruct HA as [->|HA]; [apply H1; apply in_or_app; right; exact HB|]. apply IH; assumption.
Qed.
Lemma notin_app_r {X} (x : X) (A B : list X) : NoDup (A ++ B) -> In x A -> ~ In x B.
Proof. intros ND HA HB. exact (notin_app_l x A B ND HB HA). Qed.

(* editing the payload of the object at the end of a path edits exactly that node of the owner's tree *)
Lemma owns_edit_list h g x r
  (IH : forall a t S, Owns h a t S -> NoDup S -> addr_at h a r = Some x -> Owns (set_pay x g h) a (tmap_at r (pay g) t) S) :
  forall ptrs kids fps, OwnsL h ptrs kids fps -> NoDup (concat fps) ->
  forall i b, nth_error ptrs i = Some b -> addr_at h b r = Some x ->
  OwnsL (set_pay x g h) ptrs (upd i (tmap_at r (pay g)) kids) fps.
Proof.
  intros ptrs kids fps HL. induction HL as [|a0 t0 S0 ptrs0 kids0 fps0 H0 HL0 IHL]; intros NDf i b Eb Hp.
  - destruct i; discriminate.
  - cbn [concat] in NDf. destruct i as [|i]; cbn in Eb; cbn [upd].
    + injection Eb as ->. constructor.
      * apply IH; [exact H0| |exact Hp]. apply NoDup_app_l in NDf. exact NDf.
      * apply ownsL_frame; [exact HL0|]. apply (notin_app_r x S0 (concat fps0) NDf). eapply path_in_footprint; eauto.
    + constructor.
      * apply owns_frame; [exact H0|]. apply (notin_app_l x S0 (concat fps0) NDf). eapply path_in_concat; eauto.
      * eapply IHL; eauto. apply NoDup_app_r in NDf. exact NDf.
Qed.
Lemma owns_edit h g x : forall path a t S, Owns h a t S -> NoDup S -> addr_at h a path = Some x ->
  Owns (set_pay x g h) a (tmap_at path (pay g) t) S.
Proof.
  induction path as [|i r IH]; intros a t S HO ND Hp.
  - cbn in Hp. injection Hp as <-. inversion HO as [a' p ptrs kids fps Hcell HLs]; subst. cbn [tmap_at pay]. inversion ND; subst.
    apply Owns_node with (ptrs := ptrs).
    + unfold set_pay. erewrite nth_error_upd_same by eassumption. reflexivity.
    + apply ownsL_frame; assumption.
  - inversion HO as [a' p ptrs kids fps Hcell HLs]; subst. cbn [addr_at] in Hp. rewrite Hcell in Hp. cbn [c_ptrs] in Hp.
    destruct (nth_error ptrs i) as [b|] eqn:Eb; [|discriminate]. cbn [tmap_at]. inversion ND as [|? ? Hna NDf]; subst.
    assert (Hxin : In x (concat fps)) by (eapply path_in_concat; eauto).
    apply Owns_node with (ptrs := ptrs).
    + unfold set_pay. rewrite nth_error_upd_other; [exact Hcell|]. intros ->. contradiction.
    + eapply owns_edit_list; eauto.
Qed.

(* ---- lists of roots ---- *)
Lemma ownsL_app h l1 T1 S1 : OwnsL h l1 T1 S1 -> forall l2 T2 S2, OwnsL h l2 T2 S2 -> OwnsL h (l1 ++ l2) (T1 ++ T2) (S1 ++ S2).
Proof. induction 1 as [|a t S ptrs kids fps HO HL IH]; intros l2 T2 S2 H2; [exact H2|]. cbn [app]. constructor; [exact HO|apply IH; exact H2]. Qed.
Lemma ownsL_app_inv h l1 : forall l2 Ts Ss, OwnsL h (l1 ++ l2) Ts Ss ->
  exists T1 T2 S1 S2, Ts = T1 ++ T2 /\ Ss = S1 ++ S2 /\ OwnsL h l1 T1 S1 /\ OwnsL h l2 T2 S2.
Proof.
  induction l1 as [|a l1 IH]; intros l2 Ts Ss H.
  - exists [], Ts, [], Ss. repeat split; try reflexivity; [constructor|exact H].
  - cbn [app] in H. inversion H as [|a' t S ptrs kids fps HO HL]; subst.
    destruct (IH _ _ _ HL) as [T1 [T2 [S1 [S2 [-> [-> [H1 H2]]]]]]].
    exists (t :: T1), T2, (S :: S1), S2. repeat split; try reflexivity; [constructor; assumption|exact H2].
Qed.
Lemma ownsL_length h l Ts Ss : OwnsL h l Ts Ss -> length Ts = length l /\ length Ss = length l.
Proof. induction 1 as [|a t S ptrs kids fps HO HL [IH1 IH2]]; [split; reflexivity|]. cbn [length]. split; congruence. Qed.
Lemma ownsL_nth h l Ts Ss : OwnsL h l Ts Ss -> forall k a, nth_error l k = Some a ->
  exists t S, nth_error Ts k = Some t /\ nth_error Ss k = Some S /\ Owns h a t S.
Proof.
  induction 1 as [|a0 t0 S0 ptrs kids fps HO HL IH]; intros k a Hk; [destruct k; discriminate|].
  destruct k as [|k]; cbn in Hk.
  - injection Hk as <-. exists t0, S0. repeat split; assumption.
  - destruct (IH _ _ Hk) as [t [S [H1 [H2 H3]]]]. exists t, S. repeat split; assumption.
Qed.
Lemma in_concat_nth {X} (Ss : list (list X)) k S x : nth_error Ss k = Some S -> In x S -> In x (concat Ss).
Proof.
  revert k. induction Ss as [|S0 Ss IH]; intros [|k] H Hx; cbn in H; try discriminate; cbn [concat]; apply in_or_app.
  - injection H as ->. left. exact Hx.
  - right. eapply IH; eauto.
Qed.
Lemma concat_snoc {X} (Ss : list (list X)) S : concat (Ss ++ [S]) = concat Ss ++ S.
Proof. rewrite concat_app. cbn [concat]. now rewrite app_nil_r. Qed.
Lemma NoDup_old_new (A B : list nat) n n' : NoDup A -> (forall x, In x A -> x < n) -> NoDup B -> fresh_in n n' B -> NoDup (A ++ B) /\ NoDup (B ++ A).
Proof.
  intros HA LA HB FB. split.
  - induction A as [|x A IH]; [exact HB|]. cbn. inversion HA; subst. constructor.
    + intros Hin. apply in_app_or in Hin. destruct Hin as [Hin|Hin]; [contradiction|].
      specialize (LA x (or_introl eq_refl)). specialize (FB x Hin). lia.
    + apply IH; [assumption|]. intros y Hy. apply LA. right. exact Hy.
  - induction B as [|x B IH]; [exact HA|]. cbn. inversion HB; subst. constructor.
    + intros Hin. apply in_app_or in Hin. destruct Hin as [Hin|Hin]; [contradiction|].
      specialize (LA x Hin). specialize (FB x (or_introl eq_refl)). lia.
    + apply IH; [assumption|]. intros y Hy. apply FB. right. exact Hy.
Qed.

(* a new object tree next to existing roots: old roots keep their trees and footprints, the new footprint is fresh *)
Lemma ownsL_alloc h l Ts Ss t a h' : OwnsL h l Ts Ss -> NoDup (concat Ss) -> alloc_tree t h = (a, h') ->
  exists S, OwnsL h' l Ts Ss /\ Owns h' a t S /\ NoDup S /\ fresh_in (length h) (length h') S /\ NoDup (concat (Ss ++ [S])) /\ NoDup (concat (S :: Ss)).
Proof.
  intros HL ND Hal. destruct (alloc_owns t h a h' Hal) as [e [S [-> [HO [NDS FR]]]]].
  exists S. split; [apply ownsL_ext; exact HL|]. split; [exact HO|]. split; [exact NDS|]. split; [exact FR|].
  destruct (NoDup_old_new (concat Ss) S (length h) (length (h ++ e)) ND (proj2 (owns_lt h) l Ts Ss HL) NDS FR) as [N1 N2].
  split; [rewrite concat_snoc; exact N1|cbn [concat]; exact N2].
Qed.

(* edits keep the shape of a tree *)
Lemma depth_upd_same (f : vtree -> vtree) kids : forall i, (forall k, depth (f k) = depth k) ->
  fold_right (fun k m => Nat.max (depth k) m) 0 (upd i f kids) = fold_right (fun k m => Nat.max (depth k) m) 0 kids.
Proof. induction kids as [|k kids IH]; intros [|i] Hf; cbn [upd fold_right]; try reflexivity; [now rewrite Hf|now rewrite IH]. Qed.
Lemma depth_tmap_at g : forall path t, depth (tmap_at path (pay g) t) = depth t.
Proof.
  induction path as [|i r IH]; intros [p kids]; [reflexivity|]. cbn [tmap_at depth]. f_equal. apply depth_upd_same. exact (IH).
Qed.
Lemma nth_error_upd_map {X} (l : list X) : forall n g, nth_error (upd n g l) n = option_map g (nth_error l n).
Proof. induction l as [|y l IH]; intros [|n] g; cbn; try reflexivity. apply IH. Qed.
End Graph.

Arguments vtree : clear implicits.
Arguments cell : clear implicits.
Arguments heap : clear implicits.
