(* IEEE-754 bit patterns.  The codec never does arithmetic on float32 words; it needs (i) the
   double -> float32 conversion of struct.pack('<f') / ndarray.astype(float32), (ii) three predicates on
   the bit pattern, (iii) binary64 arithmetic for time -> frame conversion.  All are pure functions
   of Coq's SpecFloat (no primitive floats, closed under the global context). *)
From Coq Require Import ZArith NArith List Bool Lia SpecFloat.
Import ListNotations.
Open Scope N_scope.

Definition sign_of (w bits : N) : bool := N.testbit w (bits - 1).
(* binary64 word -> spec_float *)
Definition sf_of_b64 (w : N) : spec_float :=
  let s := N.testbit w 63 in
  let e := (w / 4503599627370496) mod 2048 in
  let m := w mod 4503599627370496 in
  if e =? 0 then (match m with N0 => S754_zero s | Npos p => S754_finite s p (-1074) end)
  else if e =? 2047 then (match m with N0 => S754_infinity s | _ => S754_nan end)
  else match m + 4503599627370496 with N0 => S754_nan | Npos p => S754_finite s p (Z.of_N e - 1075) end.
(* binary32 word -> spec_float *)
Definition sf_of_b32 (w : N) : spec_float :=
  let s := N.testbit w 31 in
  let e := (w / 8388608) mod 256 in
  let m := w mod 8388608 in
  if e =? 0 then (match m with N0 => S754_zero s | Npos p => S754_finite s p (-149) end)
  else if e =? 255 then (match m with N0 => S754_infinity s | _ => S754_nan end)
  else match m + 8388608 with N0 => S754_nan | Npos p => S754_finite s p (Z.of_N e - 150) end.
Definition sbit (s : bool) (k : N) : N := if s then k else 0.
(* spec_float already in binary32 format -> word; NaN is canonical *)
Definition b32_of_sf (x : spec_float) : N :=
  match x with
  | S754_zero s => sbit s 2147483648
  | S754_infinity s => sbit s 2147483648 + 2139095040
  | S754_nan => 2143289344
  | S754_finite s m e =>
      if N.pos m <? 8388608 then sbit s 2147483648 + N.pos m
      else sbit s 2147483648 + Z.to_N (e + 150) * 8388608 + (N.pos m - 8388608)
  end.
Definition b64_of_sf (x : spec_float) : N :=
  match x with
  | S754_zero s => sbit s 9223372036854775808
  | S754_infinity s => sbit s 9223372036854775808 + 9218868437227405312
  | S754_nan => 9221120237041090560
  | S754_finite s m e =>
      if N.pos m <? 4503599627370496 then sbit s 9223372036854775808 + N.pos m
      else sbit s 9223372036854775808 + Z.to_N (e + 1075) * 4503599627370496 + (N.pos m - 4503599627370496)
  end.
Definition round32 (x : spec_float) : spec_float :=
  match x with S754_finite s m e => binary_round 24 128 s m e | _ => x end.
Definition is_finite_sf (x : spec_float) : bool :=
  match x with S754_finite _ _ _ | S754_zero _ => true | _ => false end.
(* ndarray.astype(float32) / np.array(x, dtype=float32): overflow gives +-inf *)
(* [w32] is the identity on every word b32_of_sf produces from a rounded value (mantissa < 2^24, exponent
   <= 104); it is applied so that "the result is a 32-bit word" holds by construction *)
Definition w32 (n : N) : N := n mod 4294967296.
Definition f64_to_f32 (w : N) : N := w32 (b32_of_sf (round32 (sf_of_b64 w))).
(* struct.pack('<f', x): OverflowError when a finite double rounds to infinity *)
Definition pack_f32 (w : N) : option N :=
  let x := sf_of_b64 w in let y := round32 x in
  if is_finite_sf x && negb (is_finite_sf y) then None else Some (w32 (b32_of_sf y)).
(* widening is exact *)
Definition f32_to_f64 (w : N) : N :=
  match sf_of_b32 w with
  | S754_finite s m e => b64_of_sf (binary_round 53 1024 s m e)
  | x => b64_of_sf x
  end.
(* predicates on float32 words *)
Definition is_zero32 (w : N) : bool := (w mod 2147483648 =? 0).
Definition is_nan32 (w : N) : bool := (2139095040 <? w mod 2147483648).
Definition is_pos32 (w : N) : bool := (w <? 2147483648) && negb (is_zero32 w) && negb (is_nan32 w).
Definition canon_nan32 (w : N) : N := if is_nan32 w then 2143289344 else w.

(* ---- binary64 arithmetic used by time -> frame conversion (pose_body.py:236-239) ---- *)
Definition sf64_of_Z (z : Z) : spec_float := binary_normalize 53 1024 z 0 false.
Definition sf64_mul := SFmul 53 1024.
Definition sf64_div := SFdiv 53 1024.
(* floor / ceil of a finite spec_float; None on inf/nan (math.floor raises) *)
Definition sf_floor (x : spec_float) : option Z :=
  match x with
  | S754_zero _ => Some 0%Z
  | S754_finite s m e =>
      let v := if s then Z.neg m else Z.pos m in
      Some (match e with Z0 => v | Zpos p => (v * Z.pow_pos 2 p)%Z | Zneg p => (v / Z.pow_pos 2 p)%Z end)
  | _ => None
  end.
Definition sf_ceil (x : spec_float) : option Z :=
  match sf_floor (SFopp x) with Some z => Some (- z)%Z | None => None end.

Lemma w32_lt n : w32 n < 4294967296.
Proof. unfold w32. apply N.mod_lt. discriminate. Qed.
Lemma f64_to_f32_lt w : f64_to_f32 w < 4294967296.
Proof. apply w32_lt. Qed.
Lemma pack_f32_lt w v : pack_f32 w = Some v -> v < 4294967296.
Proof. unfold pack_f32. destruct (_ && _); [discriminate|]. intros [= <-]. apply w32_lt. Qed.
