(* UTF-8 as CPython's bytes(s,'utf8') / bytes.decode('utf-8') (strict): code points are N.
   enc_cp fails on surrogates and values >= 0x110000 (UnicodeEncodeError); the decoder rejects
   overlong forms, surrogates, > U+10FFFF and stray continuation bytes. *)
From Coq Require Import ZArith NArith List Bool Lia ZifyBool ZifyN ZifyNat.
Require Import ListN Bytes.
Import ListNotations.
Open Scope N_scope.

Definition valid_scalar (c : N) : bool := (c <? 0x110000) && negb ((0xD800 <=? c) && (c <? 0xE000)).
Definition enc_cp_raw (c : N) : bytes :=
  if c <? 0x80 then [c]
  else if c <? 0x800 then [0xC0 + c / 64; 0x80 + c mod 64]
  else if c <? 0x10000 then [0xE0 + c / 4096; 0x80 + (c / 64) mod 64; 0x80 + c mod 64]
  else [0xF0 + c / 262144; 0x80 + (c / 4096) mod 64; 0x80 + (c / 64) mod 64; 0x80 + c mod 64].
Definition enc_cp (c : N) : option bytes := if valid_scalar c then Some (enc_cp_raw c) else None.
Definition cont (b : N) : bool := (0x80 <=? b) && (b <? 0xC0).
Definition width (b0 : N) : N :=
  if b0 <? 0x80 then 1 else if b0 <? 0xC2 then 0 else if b0 <? 0xE0 then 2
  else if b0 <? 0xF0 then 3 else if b0 <? 0xF5 then 4 else 0.
(* decode exactly one code point from exactly its bytes *)
Definition dec_cp (l : bytes) : option N :=
  match l with
  | [b0] => if b0 <? 0x80 then Some b0 else None
  | [b0; b1] => if cont b1 then Some ((b0 - 0xC0) * 64 + (b1 - 0x80)) else None
  | [b0; b1; b2] =>
      let c := (b0 - 0xE0) * 4096 + (b1 - 0x80) * 64 + (b2 - 0x80) in
      if cont b1 && cont b2 && (0x800 <=? c) && valid_scalar c then Some c else None
  | [b0; b1; b2; b3] =>
      let c := (b0 - 0xF0) * 262144 + (b1 - 0x80) * 4096 + (b2 - 0x80) * 64 + (b3 - 0x80) in
      if cont b1 && cont b2 && cont b3 && (0x10000 <=? c) && valid_scalar c then Some c else None
  | _ => None
  end.
(* ---- dec_cp (enc_cp_raw c) = c for every scalar value: case analysis on the four length classes, linear
   arithmetic with euclidean division (no enumeration of code points) ---- *)
Definition cp_ok (c : N) : bool :=
  negb (valid_scalar c) ||
  match enc_cp_raw c with
  | [] => false
  | (b0 :: _) as e => (width b0 =? lenN e) && all_bytes e &&
                    match dec_cp e with Some c' => c' =? c | None => false end
  end.
Local Ltac Zify.zify_post_hook ::= Z.div_mod_to_equations.
Lemma cp_ok_all c : cp_ok c = true.
Proof.
  unfold cp_ok. destruct (valid_scalar c) eqn:Hv; [|reflexivity]. cbn [negb orb].
  unfold valid_scalar in Hv. unfold enc_cp_raw.
  destruct (c <? 0x80) eqn:H1.
  { unfold width, all_bytes, is_byte, lenN, dec_cp; cbn [forallb length]. rewrite H1.
    repeat (apply andb_true_iff; split); lia. }
  destruct (c <? 0x800) eqn:H2.
  { set (b0 := 0xC0 + c / 64). set (b1 := 0x80 + c mod 64).
    assert (Hb0 : 0xC2 <= b0 < 0xE0) by (subst b0; lia).
    assert (Hb1 : 0x80 <= b1 < 0xC0) by (subst b1; lia).
    assert (Hc : (b0 - 0xC0) * 64 + (b1 - 0x80) = c) by (subst b0 b1; lia).
    unfold width, all_bytes, is_byte, lenN, dec_cp, cont; cbn [forallb length].
    destruct (b0 <? 0x80) eqn:?; [lia|]. destruct (b0 <? 0xC2) eqn:?; [lia|]. destruct (b0 <? 0xE0) eqn:?; [|lia].
    destruct ((0x80 <=? b1) && (b1 <? 0xC0)) eqn:?; [|lia]. rewrite Hc.
    repeat (apply andb_true_iff; split); lia. }
  destruct (c <? 0x10000) eqn:H3.
  { set (b0 := 0xE0 + c / 4096). set (b1 := 0x80 + (c / 64) mod 64). set (b2 := 0x80 + c mod 64).
    assert (Hb0 : 0xE0 <= b0 < 0xF0) by (subst b0; lia).
    assert (Hb1 : 0x80 <= b1 < 0xC0) by (subst b1; lia).
    assert (Hb2 : 0x80 <= b2 < 0xC0) by (subst b2; lia).
    assert (Hc : (b0 - 0xE0) * 4096 + (b1 - 0x80) * 64 + (b2 - 0x80) = c) by (subst b0 b1 b2; lia).
    unfold width, all_bytes, is_byte, lenN, dec_cp, cont; cbn [forallb length].
    destruct (b0 <? 0x80) eqn:?; [lia|]. destruct (b0 <? 0xC2) eqn:?; [lia|]. destruct (b0 <? 0xE0) eqn:?; [lia|].
    destruct (b0 <? 0xF0) eqn:?; [|lia].
    rewrite Hc. unfold valid_scalar.
    destruct ((0x80 <=? b1) && (b1 <? 0xC0) && ((0x80 <=? b2) && (b2 <? 0xC0)) && (0x800 <=? c) && ((c <? 0x110000) && negb ((0xD800 <=? c) && (c <? 0xE000)))) eqn:?; [|lia].
    repeat (apply andb_true_iff; split); lia. }
  { set (b0 := 0xF0 + c / 262144). set (b1 := 0x80 + (c / 4096) mod 64). set (b2 := 0x80 + (c / 64) mod 64). set (b3 := 0x80 + c mod 64).
    assert (Hb0 : 0xF0 <= b0 < 0xF5) by (subst b0; lia).
    assert (Hb1 : 0x80 <= b1 < 0xC0) by (subst b1; lia).
    assert (Hb2 : 0x80 <= b2 < 0xC0) by (subst b2; lia).
    assert (Hb3 : 0x80 <= b3 < 0xC0) by (subst b3; lia).
    assert (Hc : (b0 - 0xF0) * 262144 + (b1 - 0x80) * 4096 + (b2 - 0x80) * 64 + (b3 - 0x80) = c) by (subst b0 b1 b2 b3; lia).
    unfold width, all_bytes, is_byte, lenN, dec_cp, cont; cbn [forallb length].
    destruct (b0 <? 0x80) eqn:?; [lia|]. destruct (b0 <? 0xC2) eqn:?; [lia|]. destruct (b0 <? 0xE0) eqn:?; [lia|].
    destruct (b0 <? 0xF0) eqn:?; [lia|]. destruct (b0 <? 0xF5) eqn:?; [|lia].
    rewrite Hc. unfold valid_scalar.
    destruct ((0x80 <=? b1) && (b1 <? 0xC0) && ((0x80 <=? b2) && (b2 <? 0xC0)) && ((0x80 <=? b3) && (b3 <? 0xC0)) && (0x10000 <=? c) && ((c <? 0x110000) && negb ((0xD800 <=? c) && (c <? 0xE000)))) eqn:?; [|lia].
    repeat (apply andb_true_iff; split); lia. }
Qed.

Lemma enc_cp_facts c e : enc_cp c = Some e ->
  exists b0 r, e = b0 :: r /\ width b0 = lenN e /\ all_bytes e = true /\ dec_cp e = Some c.
Proof.
  unfold enc_cp. destruct (valid_scalar c) eqn:Hv; [|discriminate]. intros [= <-].
  pose proof (cp_ok_all c) as H. unfold cp_ok in H. rewrite Hv in H. cbn [negb orb] in H.
  destruct (enc_cp_raw c) as [|b0 r] eqn:He; [discriminate|].
  apply andb_true_iff in H. destruct H as [H H3]. apply andb_true_iff in H. destruct H as [H1 H2].
  exists b0, r. split; [reflexivity|]. split; [apply N.eqb_eq; exact H1|]. split; [exact H2|].
  destruct (dec_cp (b0 :: r)) as [c'|]; [|discriminate]. apply N.eqb_eq in H3. now subst.
Qed.

