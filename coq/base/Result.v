(* Result type shared by all models.  Errors carry a small class for diagnosis only; the
   correspondence check compares Ok payloads exactly and all errors as one class. *)
From Coq Require Import List.
Inductive err := StructError | BufferTooSmall | Unicode | Value | NotImplemented
               | EOF | Overflow | Key | Type_ | Index | ZeroDiv.
Inductive result (A : Type) := Ok (a : A) | Err (e : err).
Arguments Ok {A}. Arguments Err {A}.
Definition rbind {A B} (r : result A) (f : A -> result B) : result B :=
  match r with Ok a => f a | Err e => Err e end.
Definition rmap {A B} (f : A -> B) (r : result A) : result B :=
  match r with Ok a => Ok (f a) | Err e => Err e end.
Definition is_ok {A} (r : result A) : bool := match r with Ok _ => true | Err _ => false end.
Notation "'do' x <- r ; k" := (rbind r (fun x => k)) (at level 200, x pattern, r at level 100, k at level 200).
(* map with failure over a list, left to right *)
Fixpoint rmapM {A B} (f : A -> result B) (l : list A) : result (list B) :=
  match l with
  | nil => Ok nil
  | x :: r => do y <- f x; do ys <- rmapM f r; Ok (y :: ys)
  end.
Definition err_code (e : err) : nat :=
  match e with StructError => 1 | BufferTooSmall => 2 | Unicode => 3 | Value => 4 | NotImplemented => 5
             | EOF => 6 | Overflow => 7 | Key => 8 | Type_ => 9 | Index => 10 | ZeroDiv => 11 end.
