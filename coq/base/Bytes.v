(* Little-endian integer fields of the .pose format (utils/reader.py ConstStructs) over byte lists. *)
From Coq Require Import ZArith NArith List Bool Lia ZifyBool ZifyN ZifyNat.
Require Import ListN.
Import ListNotations.
Ltac Zify.zify_post_hook ::= Z.div_mod_to_equations.
Open Scope N_scope.
Definition byte := N.
Definition bytes := list N.
Definition is_byte (b : N) : bool := b <? 256.
Definition all_bytes (l : bytes) : bool := forallb is_byte l.

Definition enc_u16 (n : N) : bytes := [n mod 256; (n / 256) mod 256].
Definition dec_u16 (b : bytes) : N := match b with b0 :: b1 :: _ => b0 + 256 * b1 | _ => 0 end.
Definition enc_u32 (n : N) : bytes :=
  [n mod 256; (n / 256) mod 256; (n / 65536) mod 256; (n / 16777216) mod 256].
Definition dec_u32 (b : bytes) : N :=
  match b with b0 :: b1 :: b2 :: b3 :: _ => b0 + 256 * b1 + 65536 * b2 + 16777216 * b3 | _ => 0 end.
(* big-endian variants exist only so that a regenerated struct table with a flipped endianness flag
   yields a model that differs (and theorems that fail) instead of a translator crash *)
Definition enc_u16_be (n : N) : bytes := [(n / 256) mod 256; n mod 256].
Definition dec_u16_be (b : bytes) : N := match b with b0 :: b1 :: _ => 256 * b0 + b1 | _ => 0 end.
Definition enc_u32_be (n : N) : bytes := rev (enc_u32 n).
Definition dec_u32_be (b : bytes) : N := dec_u32 (rev (takeN 4 b)).

Lemma u16_rt n r : n < 65536 -> dec_u16 (enc_u16 n ++ r) = n.
Proof. intros H. unfold enc_u16, dec_u16. cbn [app]. lia. Qed.
Lemma u32_rt n r : n < 4294967296 -> dec_u32 (enc_u32 n ++ r) = n.
Proof. intros H. unfold enc_u32, dec_u32. cbn [app]. lia. Qed.
Lemma enc_u16_len n : lenN (enc_u16 n) = 2. Proof. reflexivity. Qed.
Lemma enc_u32_len n : lenN (enc_u32 n) = 4. Proof. reflexivity. Qed.
Lemma enc_u16_bytes n : all_bytes (enc_u16 n) = true.
Proof. unfold all_bytes, enc_u16, is_byte. cbn [forallb]. rewrite !andb_true_iff. repeat split; lia. Qed.
Lemma enc_u32_bytes n : all_bytes (enc_u32 n) = true.
Proof. unfold all_bytes, enc_u32, is_byte. cbn [forallb]. rewrite !andb_true_iff. repeat split; lia. Qed.
Lemma dec_u16_lt b : all_bytes b = true -> dec_u16 b < 65536.
Proof. unfold dec_u16, all_bytes, is_byte. destruct b as [|b0 [|b1 r]]; cbn [forallb]; lia. Qed.
Lemma dec_enc_u16 b0 b1 : b0 < 256 -> b1 < 256 -> enc_u16 (dec_u16 [b0; b1]) = [b0; b1].
Proof. intros. unfold enc_u16, dec_u16. f_equal; [lia|f_equal; lia]. Qed.
Lemma dec_enc_u32 b0 b1 b2 b3 : b0 < 256 -> b1 < 256 -> b2 < 256 -> b3 < 256 ->
  enc_u32 (dec_u32 [b0; b1; b2; b3]) = [b0; b1; b2; b3].
Proof. intros. unfold enc_u32, dec_u32. f_equal; [lia|]. f_equal; [lia|]. f_equal; [lia|]. f_equal; lia. Qed.

(* signed 16 bit (v0.0 person id) *)
Definition dec_i16 (b : bytes) : Z := let u := Z.of_N (dec_u16 b) in if (u <? 32768)%Z then u else (u - 65536)%Z.
