(* Row-major tensors and generic re-indexing (DESIGN section 4).  Every structural operation of the
   body / masked-tensor models (index, slice, gather, permute, reshape, squeeze, cat, stack ...) is an
   instance of [reindex]; the two generic lemmas [reindex_map] and [reindex_zip] give "values and
   validity move together" for all of them at once. *)
From Coq Require Import List Arith Lia Bool.
Import ListNotations.

Record tensor (X : Type) := mkT { shape : list nat; data : list X }.
Arguments mkT {X}. Arguments shape {X}. Arguments data {X}.
Definition prod (s : list nat) : nat := fold_right Nat.mul 1 s.
Definition wf {X} (t : tensor X) : Prop := length (data t) = prod (shape t).
Definition wfb {X} (t : tensor X) : bool := Nat.eqb (length (data t)) (prod (shape t)).
(* row-major: flat index <-> multi-index *)
Fixpoint unravel (s : list nat) (i : nat) : list nat :=
  match s with [] => [] | d :: s' => (i / prod s') :: unravel s' (i mod prod s') end.
Fixpoint ravel (s : list nat) (ix : list nat) : nat :=
  match s, ix with d :: s', i :: ix' => i * prod s' + ravel s' ix' | _, _ => 0 end.
(* new tensor of shape ns whose cell at multi-index j is the old cell at (f j) *)
Definition reindex {X} (dflt : X) (ns : list nat) (f : list nat -> list nat) (t : tensor X) : tensor X :=
  mkT ns (map (fun k => nth (ravel (shape t) (f (unravel ns k))) (data t) dflt) (seq 0 (prod ns))).
Definition tzip {A B} (a : tensor A) (b : tensor B) : tensor (A * B) := mkT (shape a) (combine (data a) (data b)).
Definition tmap {X Y} (g : X -> Y) (t : tensor X) : tensor Y := mkT (shape t) (map g (data t)).
Definition tget {X} (dflt : X) (t : tensor X) (ix : list nat) : X := nth (ravel (shape t) ix) (data t) dflt.

Lemma reindex_wf {X} (d : X) ns f t : wf (reindex d ns f t).
Proof. unfold wf, reindex; cbn. now rewrite map_length, seq_length. Qed.
Lemma reindex_shape {X} (d : X) ns f t : shape (reindex d ns f t) = ns.
Proof. reflexivity. Qed.
Lemma reindex_map {X Y} (g : X -> Y) d ns f (t : tensor X) :
  tmap g (reindex d ns f t) = reindex (g d) ns f (tmap g t).
Proof. unfold tmap, reindex; cbn. f_equal. rewrite map_map. apply map_ext. intros k. now rewrite map_nth. Qed.
Lemma reindex_zip {A B} (da : A) (db : B) ns f (a : tensor A) (b : tensor B) :
  shape a = shape b -> length (data a) = length (data b) ->
  reindex (da, db) ns f (tzip a b) = tzip (reindex da ns f a) (reindex db ns f b).
Proof. intros Hs Hl. unfold reindex, tzip; cbn. f_equal. rewrite Hs.
  induction (seq 0 (prod ns)) as [|k l IH]; cbn; [reflexivity|]. rewrite IH. f_equal.
  apply combine_nth. exact Hl. Qed.
Lemma tmap_wf {X Y} (g : X -> Y) t : wf t -> wf (tmap g t).
Proof. unfold wf, tmap; cbn. now rewrite map_length. Qed.
(* cell of a re-indexed tensor *)
Lemma reindex_nth {X} (d : X) ns f t k : k < prod ns ->
  nth k (data (reindex d ns f t)) d = nth (ravel (shape t) (f (unravel ns k))) (data t) d.
Proof. intros Hk. unfold reindex; cbn.
  rewrite (nth_indep _ d (nth (ravel (shape t) (f (unravel ns 0))) (data t) d))
    by (rewrite map_length, seq_length; exact Hk).
  rewrite (map_nth (fun k => nth (ravel (shape t) (f (unravel ns k))) (data t) d) (seq 0 (prod ns)) 0 k).
  now rewrite seq_nth. Qed.

(* ravel / unravel are inverse on in-range indices *)
Definition in_range (s ix : list nat) : Prop := Forall2 (fun i d => i < d) ix s.
Lemma ravel_lt s : forall ix, in_range s ix -> ravel s ix < prod s.
Proof. induction s as [|d s IH]; intros ix H; inversion H as [|i d' ix' s' Hi Hr]; subst; cbn [ravel prod fold_right]; [lia|].
  specialize (IH _ Hr). fold (prod s).
  assert (Hm : S i * prod s <= d * prod s) by (apply Nat.mul_le_mono_r; lia).
  rewrite Nat.mul_succ_l in Hm. lia. Qed.
Lemma unravel_ravel s : forall ix, in_range s ix -> unravel s (ravel s ix) = ix.
Proof. induction s as [|d s IH]; intros ix H; inversion H as [|i d' ix' s' Hi Hr]; subst; cbn [ravel unravel]; [reflexivity|].
  pose proof (ravel_lt s _ Hr) as Hlt. f_equal.
  - rewrite Nat.div_add_l by lia. rewrite Nat.div_small by exact Hlt. lia.
  - rewrite Nat.add_comm, Nat.mod_add by lia. rewrite Nat.mod_small by exact Hlt. now apply IH. Qed.
Lemma ravel_unravel s : forall k, k < prod s -> ravel s (unravel s k) = k.
Proof. induction s as [|d s IH]; intros k Hk; cbn [ravel unravel prod fold_right] in *; [lia|]. fold (prod s) in *.
  destruct (Nat.eq_dec (prod s) 0) as [E|NE]; [rewrite E in Hk; lia|].
  rewrite IH by (apply Nat.mod_upper_bound; exact NE).
  rewrite Nat.mul_comm. symmetry. apply Nat.div_mod. exact NE. Qed.
