(* Object graphs, structural edits: an edit of ONE node reached from an owner by following pointer fields - its payload, and its
   pointer fields re-pointed to a sub-list of its old children and / or to freshly allocated trees (attribute assignment
   `obj.field = NewObject(...)`, `list.pop()`, ...).  The owner's tree changes at exactly that node; its footprint loses the
   cells of the children that were dropped and gains only fresh cells; every tree whose footprint does not contain the node is
   untouched (frame).  Generic in the payload; no axioms. *)
From Coq Require Import List Arith Lia Bool.
Require Import Graph.
Import ListNotations.

Section GraphEdit.
Context {P : Type}.
Notation vtree := (vtree P).
Notation heap := (heap P).

(* h' is h with the cell at x replaced and possibly new cells appended *)
Definition agrees_except (h h' : heap) (x : nat) : Prop :=
  forall y, y < length h -> y <> x -> nth_error h' y = nth_error h y.
Definition fresh_or_old (h : heap) (S S' : list nat) : Prop := forall y, In y S' -> In y S \/ length h <= y.

Lemma owns_frame_except h h' x a (t : vtree) S : agrees_except h h' x -> Owns h a t S -> ~ In x S -> Owns h' a t S.
Proof.
  intros Hag HO Hx. apply (proj1 (owns_agree h h') a t S HO). intros y Hy.
  apply Hag; [exact (proj1 (owns_lt h) a t S HO y Hy)|intros ->; contradiction].
Qed.
Lemma ownsL_frame_except h h' x ptrs (kids : list vtree) fps :
  agrees_except h h' x -> OwnsL h ptrs kids fps -> ~ In x (concat fps) -> OwnsL h' ptrs kids fps.
Proof.
  intros Hag HO Hx. apply (proj2 (owns_agree h h') ptrs kids fps HO). intros y Hy.
  apply Hag; [exact (proj2 (owns_lt h) ptrs kids fps HO y Hy)|intros ->; contradiction].
Qed.

(* replacing one footprint of a disjoint family by one made of its own cells and fresh cells keeps the family disjoint *)
Lemma NoDup_concat_upd (h : heap) (Ss : list (list nat)) : NoDup (concat Ss) -> (forall y, In y (concat Ss) -> y < length h) ->
  forall i S S', nth_error Ss i = Some S -> NoDup S' -> fresh_or_old h S S' ->
  NoDup (concat (upd i (fun _ => S') Ss)) /\ fresh_or_old h (concat Ss) (concat (upd i (fun _ => S') Ss)).
Proof.
  induction Ss as [|S0 Ss IH]; intros ND Hlt i S S' Hi ND' Hfo; [destruct i; discriminate|].
  cbn [concat] in ND, Hlt. destruct i as [|i]; cbn in Hi; cbn [upd concat].
  - injection Hi as ->. split.
    + assert (NDr : NoDup (concat Ss)) by (eapply NoDup_app_r; exact ND).
      clear IH. induction S' as [|y S' IHS]; [exact NDr|]. cbn. inversion ND'; subst. constructor.
      * intros Hin. apply in_app_or in Hin. destruct Hin as [Hin|Hin]; [contradiction|].
        destruct (Hfo y (or_introl eq_refl)) as [Hy|Hy].
        -- exact (notin_app_r y S (concat Ss) ND Hy Hin).
        -- assert (y < length h) by (apply Hlt; apply in_or_app; right; exact Hin). lia.
      * apply IHS; [assumption|]. intros z Hz. apply Hfo. right. exact Hz.
    + intros y Hy. apply in_app_or in Hy. destruct Hy as [Hy|Hy].
      * destruct (Hfo y Hy) as [H1|H1]; [left; apply in_or_app; left; exact H1|right; exact H1].
      * left. apply in_or_app. right. exact Hy.
  - assert (NDr : NoDup (concat Ss)) by (eapply NoDup_app_r; exact ND).
    destruct (IH NDr (fun y Hy => Hlt y (in_or_app _ _ _ (or_intror Hy))) i S S' Hi ND' Hfo) as [N1 F1]. split.
    + assert (ND0 : NoDup S0) by (eapply NoDup_app_l; exact ND).
      clear IH Hi. induction S0 as [|y S0 IHS]; [exact N1|]. cbn. inversion ND0; subst. constructor.
      * intros Hin. apply in_app_or in Hin. destruct Hin as [Hin|Hin]; [contradiction|].
        destruct (F1 y Hin) as [Hy|Hy].
        -- cbn in ND. inversion ND; subst. apply H3. apply in_or_app. right. exact Hy.
        -- assert (y < length h) by (apply Hlt; left; reflexivity). lia.
      * apply IHS; [|intros z Hz; apply Hlt; cbn; right; exact Hz|assumption]. cbn in ND. inversion ND; assumption.
    + intros y Hy. apply in_app_or in Hy. destruct Hy as [Hy|Hy].
      * left. apply in_or_app. left. exact Hy.
      * destruct (F1 y Hy) as [H1|H1]; [left; apply in_or_app; right; exact H1|right; exact H1].
Qed.

Lemma concat_disjoint {X} (Ss : list (list X)) : NoDup (concat Ss) ->
  forall i j A B x, nth_error Ss i = Some A -> nth_error Ss j = Some B -> i <> j -> In x A -> ~ In x B.
Proof.
  induction Ss as [|S0 Ss IH]; intros ND i j A B x Hi Hj Hne HA HB; [destruct i; discriminate|].
  cbn [concat] in ND. destruct i as [|i], j as [|j]; cbn in Hi, Hj; try congruence.
  - injection Hi as ->. exact (notin_app_r x A (concat Ss) ND HA (in_concat_nth Ss j B x Hj HB)).
  - injection Hj as ->. exact (notin_app_l x B (concat Ss) ND (in_concat_nth Ss i A x Hi HA) HB).
  - apply NoDup_app_r in ND. eapply (IH ND i j); eauto.
Qed.

Lemma upd_const_eq {X} (f : X -> X) (l : list X) : forall i t, nth_error l i = Some t -> upd i (fun _ => f t) l = upd i f l.
Proof. induction l as [|y l IH]; intros [|i] t H; cbn in H; try discriminate; cbn [upd]; [injection H as ->; reflexivity|]. f_equal. apply IH. exact H. Qed.

Lemma nth_error_ownsL_fp h ptrs (kids : list vtree) fps : OwnsL h ptrs kids fps -> forall i b, nth_error ptrs i = Some b ->
  exists t S, nth_error kids i = Some t /\ nth_error fps i = Some S /\ Owns h b t S.
Proof. intros HL i b Hi. exact (ownsL_nth h ptrs kids fps HL i b Hi). Qed.

Lemma ownsL_upd h ptrs (kids : list vtree) fps : OwnsL h ptrs kids fps -> forall i b, nth_error ptrs i = Some b ->
  forall t' S', Owns h b t' S' -> OwnsL h ptrs (upd i (fun _ => t') kids) (upd i (fun _ => S') fps).
Proof.
  induction 1 as [|a0 t0 S0 ptrs kids fps HO HL IH]; intros i b Hi t' S' HO'; [destruct i; discriminate|].
  destruct i as [|i]; cbn in Hi; cbn [upd].
  - injection Hi as ->. constructor; assumption.
  - constructor; [exact HO|]. eapply IH; eauto.
Qed.

(* one member of a disjoint family of owned trees is replaced by a tree owned, in the new heap, on its own and fresh cells;
   the heaps agree everywhere else below length h except at a cell x of that member: the other members are untouched *)
Lemma ownsL_edit_child h h' x ptrs (kids : list vtree) fps :
  agrees_except h h' x -> OwnsL h ptrs kids fps -> NoDup (concat fps) ->
  forall i b Sc t' Sc', nth_error ptrs i = Some b -> nth_error fps i = Some Sc -> In x Sc ->
  Owns h' b t' Sc' -> NoDup Sc' -> fresh_or_old h Sc Sc' ->
  OwnsL h' ptrs (upd i (fun _ => t') kids) (upd i (fun _ => Sc') fps) /\
  NoDup (concat (upd i (fun _ => Sc') fps)) /\ fresh_or_old h (concat fps) (concat (upd i (fun _ => Sc') fps)).
Proof.
  intros Hag HLs NDf i b Sc t' Sc' Eb HSc Hxc HOc' NDc' Hfoc.
  destruct (NoDup_concat_upd h fps NDf (proj2 (owns_lt h) ptrs kids fps HLs) i Sc Sc' HSc NDc' Hfoc) as [N1 F1].
  split; [|split; assumption].
  assert (Hsib : forall j bj tj Sj, nth_error ptrs j = Some bj -> nth_error kids j = Some tj -> nth_error fps j = Some Sj ->
            Owns h bj tj Sj -> j <> i -> Owns h' bj tj Sj).
  { intros j bj tj Sj Hbj Htj HSj HOj Hji. apply (owns_frame_except h h' x); [exact Hag|exact HOj|].
    intros Hin. exact (concat_disjoint fps NDf j i Sj Sc x HSj HSc Hji Hin Hxc). }
  clear -HLs Eb HSc HOc' Hsib.
  revert i Eb HSc Hsib. induction HLs as [|a0 t0 S0 ptrs0 kids0 fps0 H0 HL0 IHL]; intros i Eb HSc Hsib; [destruct i; discriminate|].
  destruct i as [|i]; cbn in Eb, HSc; cbn [upd].
  - injection Eb as ->. injection HSc as ->. constructor; [exact HOc'|].
    clear IHL. assert (Hs' : forall j bj tj Sj, nth_error ptrs0 j = Some bj -> nth_error kids0 j = Some tj -> nth_error fps0 j = Some Sj ->
                               Owns h bj tj Sj -> Owns h' bj tj Sj).
    { intros j bj tj Sj A B C D. apply (Hsib (S j) bj tj Sj A B C D). discriminate. }
    clear Hsib. induction HL0 as [|a1 t1 S1 ptrs1 kids1 fps1 H1 HL1 IH1]; [constructor|].
    constructor; [apply (Hs' 0 a1 t1 S1); reflexivity || exact H1|].
    apply IH1. intros j bj tj Sj A B C D. apply (Hs' (S j) bj tj Sj A B C D).
  - constructor.
    + apply (Hsib 0 a0 t0 S0); try reflexivity; [exact H0|discriminate].
    + apply (IHL i Eb HSc). intros j bj tj Sj A B C D Hji. apply (Hsib (S j) bj tj Sj A B C D). congruence.
Qed.

(* ---- the edit of one node ---- *)
Section NodeEdit.
Variables (h h' : heap) (x : nat) (p' : P) (F : list vtree -> list vtree).
Hypothesis Hag : agrees_except h h' x.
Hypothesis Hlen : length h <= length h'.
(* what the edit does at the node itself: new payload p', new children; the new children are owned in h' on cells that are
   the old children's or fresh, and form the list F kids *)
Hypothesis Hnode : forall p ptrs kids fps, nth_error h x = Some {| c_pay := p; c_ptrs := ptrs |} -> OwnsL h ptrs kids fps ->
  NoDup (x :: concat fps) ->
  exists ptrs' fps', nth_error h' x = Some {| c_pay := p'; c_ptrs := ptrs' |} /\ OwnsL h' ptrs' (F kids) fps' /\
                     NoDup (concat fps') /\ fresh_or_old h (concat fps) (concat fps').

Definition node_edit (t : vtree) : vtree := match t with VNode _ kids => VNode p' (F kids) end.

Lemma owns_node_edit : forall path a t S, Owns h a t S -> NoDup S -> addr_at h a path = Some x ->
  exists S', Owns h' a (tmap_at path node_edit t) S' /\ NoDup S' /\ fresh_or_old h S S'.
Proof.
  induction path as [|i r IH]; intros a t S HO ND Hp.
  - cbn in Hp. injection Hp as Hax. subst a. inversion HO as [a' p ptrs kids fps Hcell HLs]; subst. cbn [tmap_at node_edit].
    destruct (Hnode p ptrs kids fps Hcell HLs ND) as [ptrs' [fps' [Hc' [HL' [ND' Hfo]]]]].
    exists (x :: concat fps'). split; [apply Owns_node with (ptrs := ptrs'); assumption|]. split.
    + constructor; [|exact ND']. intros Hin. destruct (Hfo x Hin) as [H1|H1].
      * inversion ND; contradiction.
      * assert (x < length h) by (apply nth_error_Some; rewrite Hcell; discriminate). lia.
    + intros y [<-|Hy]; [left; left; reflexivity|]. destruct (Hfo y Hy) as [H1|H1]; [left; right; exact H1|right; exact H1].
  - inversion HO as [a' p ptrs kids fps Hcell HLs]; subst. cbn [addr_at] in Hp. rewrite Hcell in Hp. cbn [c_ptrs] in Hp.
    destruct (nth_error ptrs i) as [b|] eqn:Eb; [|discriminate]. cbn [tmap_at].
    inversion ND as [|? ? Hna NDf]; subst.
    destruct (ownsL_nth h ptrs kids fps HLs i b Eb) as [tc [Sc [Htc [HSc HOc]]]].
    assert (NDc : NoDup Sc).
    { clear -NDf HSc. revert i HSc. induction fps as [|S0 fps IHf]; intros [|i] HS; cbn in HS; try discriminate; cbn [concat] in NDf.
      - injection HS as ->. eapply NoDup_app_l; exact NDf.
      - eapply IHf; [eapply NoDup_app_r; exact NDf|exact HS]. }
    destruct (IH b tc Sc HOc NDc Hp) as [Sc' [HOc' [NDc' Hfoc]]].
    assert (Hxin : In x (concat fps)) by (eapply path_in_concat; eauto).
    assert (Hxa : x <> a) by (intros ->; contradiction).
    assert (Halt : a < length h) by (apply nth_error_Some; rewrite Hcell; discriminate).
    assert (Hxc : In x Sc) by (eapply path_in_footprint; eauto).
    destruct (ownsL_edit_child h h' x ptrs kids fps Hag HLs NDf i b Sc _ Sc' Eb HSc Hxc HOc' NDc' Hfoc) as [HL' [N1 F1]].
    exists (a :: concat (upd i (fun _ => Sc') fps)). split; [|split].
    + apply Owns_node with (ptrs := ptrs); [rewrite (Hag a Halt (not_eq_sym Hxa)); exact Hcell|].
      rewrite <- (upd_const_eq (tmap_at r node_edit) kids i tc Htc). exact HL'.
    + constructor; [|exact N1]. intros Hin. destruct (F1 a Hin) as [H1|H1]; [contradiction|lia].
    + intros y [<-|Hy]; [left; left; reflexivity|]. destruct (F1 y Hy) as [H1|H1]; [left; right; exact H1|right; exact H1].
Qed.
End NodeEdit.

(* ---- two concrete structural edits ---- *)
Definition set_ptrs (x : nat) (g : list nat -> list nat) (h : heap) : heap :=
  upd x (fun c => {| c_pay := c_pay c; c_ptrs := g (c_ptrs c) |}) h.
Lemma length_set_ptrs x g h : length (set_ptrs x g h) = length h.
Proof. apply length_upd. Qed.

Lemma ownsL_upd3 h ptrs (kids : list vtree) fps : OwnsL h ptrs kids fps -> forall i b' t' S', Owns h b' t' S' ->
  OwnsL h (upd i (fun _ => b') ptrs) (upd i (fun _ => t') kids) (upd i (fun _ => S') fps).
Proof.
  induction 1 as [|a0 t0 S0 ptrs kids fps HO HL IH]; intros i b' t' S' HO'; [destruct i; constructor|].
  destruct i as [|i]; cbn [upd]; constructor; auto.
Qed.
Lemma ownsL_removelast h ptrs (kids : list vtree) fps : OwnsL h ptrs kids fps ->
  OwnsL h (removelast ptrs) (removelast kids) (removelast fps).
Proof.
  induction 1 as [|a0 t0 S0 ptrs kids fps HO HL IH]; [constructor|]. cbn [removelast].
  inversion HL; subst; [constructor|]. constructor; assumption.
Qed.
Lemma in_concat_removelast {X} (l : list (list X)) y : In y (concat (removelast l)) -> In y (concat l).
Proof.
  induction l as [|S0 l IH]; [intros []|]. cbn [removelast]. destruct l as [|S1 l]; [intros []|].
  cbn [concat] in *. intros H. apply in_app_or in H. apply in_or_app. destruct H as [H|H]; [left; exact H|right; apply IH; exact H].
Qed.
Lemma NoDup_concat_removelast {X} (l : list (list X)) : NoDup (concat l) -> NoDup (concat (removelast l)).
Proof.
  induction l as [|S0 l IH]; [intros H; exact H|]. cbn [removelast]. destruct l as [|S1 l]; [intros _; constructor|].
  cbn [concat] in *. intros H. pose proof (NoDup_app_l _ _ H) as H0. pose proof (NoDup_app_r _ _ H) as H1.
  specialize (IH H1). clear H1. induction S0 as [|y S0 IHS]; [exact IH|]. cbn in *. inversion H; subst. inversion H0; subst. constructor.
  - intros Hin. apply in_app_or in Hin. destruct Hin as [Hin|Hin]; [contradiction|]. apply H3. apply in_or_app. right.
    apply (in_concat_removelast (S1 :: l)). exact Hin.
  - apply IHS; assumption.
Qed.

(* obj.field_i = <a newly built object>: the i-th pointer field of the cell x is re-pointed to a freshly allocated tree *)
Definition assign_child (x i : nat) (tnew : vtree) (h : heap) : heap :=
  let '(b, h1) := alloc_tree tnew h in set_ptrs x (upd i (fun _ => b)) h1.
Lemma owns_assign_child h x i tnew p0 ptrs0 :
  nth_error h x = Some {| c_pay := p0; c_ptrs := ptrs0 |} ->
  length h <= length (assign_child x i tnew h) /\ agrees_except h (assign_child x i tnew h) x /\
  forall path a t S, Owns h a t S -> NoDup S -> addr_at h a path = Some x ->
  exists S', Owns (assign_child x i tnew h) a (tmap_at path (node_edit p0 (upd i (fun _ => tnew))) t) S' /\ NoDup S' /\ fresh_or_old h S S'.
Proof.
  intros Hx. unfold assign_child. destruct (alloc_tree tnew h) as [b h1] eqn:Hal.
  destruct (alloc_owns tnew h b h1 Hal) as [e [Snew [-> [HOn [NDn FRn]]]]].
  assert (Hxlt : x < length h) by (apply nth_error_Some; rewrite Hx; discriminate).
  assert (Hlen : length h <= length (set_ptrs x (upd i (fun _ => b)) (h ++ e))) by (rewrite length_set_ptrs, app_length; lia).
  assert (Hag : agrees_except h (set_ptrs x (upd i (fun _ => b)) (h ++ e)) x).
  { intros y Hy Hne. unfold set_ptrs. rewrite nth_error_upd_other by (intros E; apply Hne; symmetry; exact E). apply nth_error_app1. exact Hy. }
  split; [exact Hlen|]. split; [exact Hag|].
  apply (owns_node_edit h _ x p0 (upd i (fun _ => tnew)) Hag Hlen).
  intros p ptrs kids fps Hcell HLs ND. rewrite Hx in Hcell. injection Hcell as <- <-.
  inversion ND as [|? ? Hxn NDf]; subst.
  assert (HOn' : Owns (set_ptrs x (upd i (fun _ => b)) (h ++ e)) b tnew Snew).
  { apply (proj1 (owns_agree (h ++ e) _) b tnew Snew HOn). intros y Hy. unfold set_ptrs. apply nth_error_upd_other.
    intros ->. specialize (FRn _ Hy). lia. }
  assert (HLs' : OwnsL (set_ptrs x (upd i (fun _ => b)) (h ++ e)) ptrs0 kids fps).
  { apply (ownsL_frame_except h _ x); assumption. }
  exists (upd i (fun _ => b) ptrs0), (upd i (fun _ => Snew) fps). split; [|split; [|split]].
  - unfold set_ptrs. erewrite nth_error_upd_same by (rewrite nth_error_app1 by exact Hxlt; exact Hx). reflexivity.
  - apply ownsL_upd3; assumption.
  - destruct (nth_error fps i) as [Si|] eqn:Ei.
    + refine (proj1 (NoDup_concat_upd h fps NDf (proj2 (owns_lt h) ptrs0 kids fps HLs) i Si Snew Ei NDn _)).
      intros y Hy. right. exact (proj1 (FRn y Hy)).
    + assert (Hid : upd i (fun _ => Snew) fps = fps).
      { clear -Ei. revert i Ei. induction fps as [|S0 fps IHf]; intros [|i] E; cbn in E; try discriminate; try reflexivity. cbn [upd]. f_equal. apply IHf. exact E. }
      rewrite Hid. exact NDf.
  - destruct (nth_error fps i) as [Si|] eqn:Ei.
    + refine (proj2 (NoDup_concat_upd h fps NDf (proj2 (owns_lt h) ptrs0 kids fps HLs) i Si Snew Ei NDn _)).
      intros y Hy. right. exact (proj1 (FRn y Hy)).
    + assert (Hid : upd i (fun _ => Snew) fps = fps).
      { clear -Ei. revert i Ei. induction fps as [|S0 fps IHf]; intros [|i] E; cbn in E; try discriminate; try reflexivity. cbn [upd]. f_equal. apply IHf. exact E. }
      rewrite Hid. intros y Hy. left. exact Hy.
Qed.

(* list.pop(): the last pointer field of the cell x is dropped *)
Definition pop_child (x : nat) (h : heap) : heap := set_ptrs x (@removelast nat) h.
Lemma owns_pop_child h x p0 ptrs0 :
  nth_error h x = Some {| c_pay := p0; c_ptrs := ptrs0 |} ->
  length h <= length (pop_child x h) /\ agrees_except h (pop_child x h) x /\
  forall path a t S, Owns h a t S -> NoDup S -> addr_at h a path = Some x ->
  exists S', Owns (pop_child x h) a (tmap_at path (node_edit p0 (@removelast vtree)) t) S' /\ NoDup S' /\ fresh_or_old h S S'.
Proof.
  intros Hx. unfold pop_child.
  assert (Hlen : length h <= length (set_ptrs x (@removelast nat) h)) by (rewrite length_set_ptrs; lia).
  assert (Hag : agrees_except h (set_ptrs x (@removelast nat) h) x).
  { intros y Hy Hne. unfold set_ptrs. apply nth_error_upd_other. intros E; apply Hne; symmetry; exact E. }
  split; [exact Hlen|]. split; [exact Hag|].
  apply (owns_node_edit h _ x p0 (@removelast vtree) Hag Hlen).
  intros p ptrs kids fps Hcell HLs ND. rewrite Hx in Hcell. injection Hcell as <- <-.
  inversion ND as [|? ? Hxn NDf]; subst.
  exists (removelast ptrs0), (removelast fps). split; [|split; [|split]].
  - unfold set_ptrs. erewrite nth_error_upd_same by exact Hx. reflexivity.
  - apply ownsL_removelast. apply (ownsL_frame_except h _ x); assumption.
  - apply NoDup_concat_removelast. exact NDf.
  - intros y Hy. left. apply in_concat_removelast. exact Hy.
Qed.
End GraphEdit.
