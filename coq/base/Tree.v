(* Wire format between the Python harness and the extracted model: trees of integers.
   Every per-property [dispatch : tree -> tree] is written in Gallina with these helpers, so the
   OCaml driver contains no property-specific logic. *)
From Coq Require Import ZArith NArith List.
Require Import Result.
Import ListNotations.
Inductive tree := L (z : Z) | Nd (l : list tree).
Definition t_z (t : tree) : Z := match t with L z => z | Nd _ => 0%Z end.
Definition t_n (t : tree) : N := Z.to_N (t_z t).
Definition t_nat (t : tree) : nat := Z.to_nat (t_z t).
Definition t_bool (t : tree) : bool := negb (Z.eqb (t_z t) 0).
Definition t_list (t : tree) : list tree := match t with Nd l => l | L _ => [] end.
Definition t_nth (i : nat) (t : tree) : tree := nth i (t_list t) (L 0).
Definition t_zs (t : tree) : list Z := map t_z (t_list t).
Definition t_ns (t : tree) : list N := map t_n (t_list t).
Definition t_nats (t : tree) : list nat := map t_nat (t_list t).
Definition t_bools (t : tree) : list bool := map t_bool (t_list t).
(* optional value: () = None, (x) = Some x *)
Definition t_opt (t : tree) : option tree := match t with Nd [x] => Some x | _ => None end.
Definition of_z (z : Z) : tree := L z.
Definition of_n (n : N) : tree := L (Z.of_N n).
Definition of_nat (n : nat) : tree := L (Z.of_nat n).
Definition of_bool (b : bool) : tree := L (if b then 1 else 0)%Z.
Definition of_zs (l : list Z) : tree := Nd (map L l).
Definition of_ns (l : list N) : tree := Nd (map of_n l).
Definition of_nats (l : list nat) : tree := Nd (map of_nat l).
Definition of_bools (l : list bool) : tree := Nd (map of_bool l).
Definition of_opt (o : option tree) : tree := match o with Some x => Nd [x] | None => Nd [] end.
Definition of_result {A} (f : A -> tree) (r : result A) : tree :=
  match r with Ok a => Nd [L 1; f a] | Err e => Nd [L 0; of_nat (err_code e)] end.
