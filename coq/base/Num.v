(* Numeric models are written once over a record of operations and instantiated twice: with Coq's
   real numbers for the theorems and with primitive binary64 floats for execution (DESIGN section 4).
   The *same Gallina term* is proved about (R) and run (float). *)
From Coq Require Import Reals List ZArith PrimFloat Uint63.
Import ListNotations.
Record ops := {
  T : Type;
  zero : T; one : T;
  add : T -> T -> T; sub : T -> T -> T; mul : T -> T -> T; div : T -> T -> T; opp : T -> T;
  sqrt : T -> T; abs : T -> T;
  leb : T -> T -> bool; ltb : T -> T -> bool; eqb : T -> T -> bool;
  of_Z : Z -> T
}.
Definition Rleb (x y : R) : bool := if Rle_dec x y then true else false.
Definition Rltb (x y : R) : bool := if Rlt_dec x y then true else false.
Definition Reqb (x y : R) : bool := if Req_EM_T x y then true else false.
Definition R_ops : ops :=
  {| T := R; zero := 0%R; one := 1%R; add := Rplus; sub := Rminus; mul := Rmult; div := Rdiv; opp := Ropp;
     sqrt := R_sqrt.sqrt; abs := Rabs; leb := Rleb; ltb := Rltb; eqb := Reqb; of_Z := IZR |}.
Definition f_of_Z (z : Z) : float :=
  match z with
  | Z0 => 0%float
  | Zpos _ => PrimFloat.of_uint63 (Uint63.of_Z z)
  | Zneg p => PrimFloat.opp (PrimFloat.of_uint63 (Uint63.of_Z (Zpos p)))
  end.
(* named constants: extraction wraps named constants, but not float literals, in Obj.magic *)
Definition f_zero : float := f_of_Z 0.
Definition f_one : float := f_of_Z 1.
Definition F_ops : ops :=
  {| T := float; zero := f_zero; one := f_one; add := PrimFloat.add; sub := PrimFloat.sub; mul := PrimFloat.mul;
     div := PrimFloat.div; opp := PrimFloat.opp; sqrt := PrimFloat.sqrt; abs := PrimFloat.abs;
     leb := PrimFloat.leb; ltb := PrimFloat.ltb; eqb := PrimFloat.eqb; of_Z := f_of_Z |}.
Section Generic.
Variable O : ops.
Definition sum (l : list (T O)) : T O := fold_right (add O) (zero O) l.
Definition of_nat (n : nat) : T O := of_Z O (Z.of_nat n).
Definition mean (l : list (T O)) : T O := div O (sum l) (of_nat (length l)).
End Generic.

(* binary64 words <-> primitive floats, for the wire format (floats cross the boundary as bit patterns) *)
From Coq Require Import SpecFloat FloatOps.
Definition float_of_bits (w : Z) : float :=
  let s := Z.testbit w 63 in
  let e := Z.land (Z.shiftr w 52) 2047 in
  let m := Z.land w 4503599627370495 in
  let sgn (x : float) := if s then PrimFloat.opp x else x in
  if Z.eqb e 0 then sgn (SF2Prim (match m with Zpos p => S754_finite false p (-1074) | _ => S754_zero false end))
  else if Z.eqb e 2047 then (if Z.eqb m 0 then sgn PrimFloat.infinity else PrimFloat.nan)
  else sgn (SF2Prim (match (m + 4503599627370496)%Z with Zpos p => S754_finite false p (e - 1075) | _ => S754_zero false end)).
Definition bits_of_float (f : float) : Z :=
  match Prim2SF f with
  | S754_zero s => if s then 9223372036854775808 else 0
  | S754_infinity s => (if s then 9223372036854775808 else 0) + 9218868437227405312
  | S754_nan => 9221120237041090560
  | S754_finite s m e =>
      let sb := (if s then 9223372036854775808 else 0)%Z in
      if Z.ltb (Zpos m) 4503599627370496 then sb + Zpos m
      else sb + (e + 1075) * 4503599627370496 + (Zpos m - 4503599627370496)
  end%Z.
