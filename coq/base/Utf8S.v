(* UTF-8 strings: encoder / strict decoder over code-point lists, and the round trip lifted from the
   per-code-point lemma of Utf8.v. *)
From Coq Require Import NArith List Bool Lia ZifyBool ZifyN ZifyNat.
Require Import ListN Bytes Utf8.
Import ListNotations.
Open Scope N_scope.

Fixpoint enc_utf8 (s : list N) : option bytes :=
  match s with
  | [] => Some []
  | c :: r => match enc_cp c, enc_utf8 r with Some a, Some b => Some (a ++ b) | _, _ => None end
  end.

Fixpoint dec_fuel (f : nat) (l : bytes) : option (list N) :=
  match f with
  | O => None
  | S f' =>
    match l with
    | [] => Some []
    | b0 :: _ =>
      let k := width b0 in
      if k =? 0 then None else if lenN (takeN k l) <? k then None else
      match dec_cp (takeN k l) with
      | None => None
      | Some c => match dec_fuel f' (dropN k l) with None => None | Some cs => Some (c :: cs) end
      end
    end
  end.
Definition dec_utf8 (l : bytes) : option (list N) := dec_fuel (S (length l)) l.

Lemma dec_fuel_enc s : forall e f, enc_utf8 s = Some e -> (length e < f)%nat -> dec_fuel f e = Some s.
Proof.
  induction s as [|c s IH]; intros e f He Hf.
  - cbn in He. injection He as <-. destruct f; [lia|reflexivity].
  - cbn [enc_utf8] in He. destruct (enc_cp c) as [a|] eqn:Ha; [|discriminate].
    destruct (enc_utf8 s) as [b|] eqn:Hb; [|discriminate]. injection He as <-.
    destruct (enc_cp_facts c a Ha) as [b0 [r [-> [Hw [_ Hd]]]]].
    destruct f as [|f]; [lia|]. cbn [dec_fuel app].
    change (b0 :: r ++ b) with ((b0 :: r) ++ b).
    rewrite Hw.
    assert (Hpos : lenN (b0 :: r) <> 0) by (unfold lenN; cbn [length]; lia).
    destruct (N.eqb_spec (lenN (b0 :: r)) 0) as [E|_]; [contradiction|].
    rewrite takeN_app_le by lia. rewrite takeN_all by lia.
    destruct (N.ltb_spec (lenN (b0 :: r)) (lenN (b0 :: r))) as [Hlt|_]; [lia|].
    rewrite Hd.
    rewrite dropN_app_le by lia. rewrite dropN_all by lia. cbn [app].
    rewrite (IH b f eq_refl); [reflexivity|].
    rewrite app_length in Hf. cbn [length] in Hf. lia.
Qed.
Theorem dec_enc_utf8 s e : enc_utf8 s = Some e -> dec_utf8 e = Some s.
Proof. intros H. unfold dec_utf8. apply dec_fuel_enc; [exact H|lia]. Qed.
Lemma enc_utf8_bytes s : forall e, enc_utf8 s = Some e -> all_bytes e = true.
Proof.
  induction s as [|c s IH]; intros e He.
  - cbn in He. now injection He as <-.
  - cbn [enc_utf8] in He. destruct (enc_cp c) as [a|] eqn:Ha; [|discriminate].
    destruct (enc_utf8 s) as [b|] eqn:Hb; [|discriminate]. injection He as <-.
    destruct (enc_cp_facts c a Ha) as [b0 [r [-> [_ [Hall _]]]]].
    unfold all_bytes in *. rewrite forallb_app, Hall. now rewrite (IH b eq_refl).
Qed.
