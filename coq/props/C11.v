(* C11 - Selecting, removing or hiding points by name affects exactly those points.
   Objects (components, bodies) live in a heap [h]; a pose [p] names them by address; [deref h p] is the pose value.
   Hypothesis forced by "by name" (DESIGN section 7): [names_unique] - component names are pairwise different and point
   names are pairwise different inside a component (a boolean NoDup predicate); [header_wf] adds "limbs name points".
   [tfe = true] models tf.gather as it stands (raises on an empty index list, finding F17), [tfe = false] the repair. *)
From Coq Require Import List Arith Bool NArith ZArith.
Require Import Result Tensor C11_Str C11_Select C11_Helpers C11_Heap C11_Tables Gen_C11.
Require Import C11_SelectProofs C11_RemoveProofs C11_HeapProofs C11_HelperProofs C11_HelperHeapProofs C11_Main C11_GenTie C11_Examples.
Import ListNotations.
Open Scope str_scope.
Open Scope list_scope.

(* ---- the flat index of a named point is its position in the flattened (component, point) list, and the only one *)
Theorem point_index_position : forall cs c p k,
  (point_index cs c p = Ok k -> k < total_points cs /\ nth_error (flat_names cs) k = Some (c, p)) /\
  (names_unique cs = true -> nth_error (flat_names cs) k = Some (c, p) -> point_index cs c p = Ok k).
Proof. exact (fun cs c p k => conj (point_index_spec cs c p k) (point_index_unique cs c p k)). Qed.
Print Assumptions point_index_position.

(* ---- selection: point i of the result carries coordinates, confidence and missing flag of the source point with that
   component and name, for every frame and person; any order of components, any sub-list / permutation of points *)
Theorem select_points : forall tfe h p sel pts h' p' v F P D,
  deref h p = Ok v -> source_ok v F P D -> get_components_h tfe h p sel pts = Ok (h', p') ->
  exists v', deref h' p' = Ok v' /\
    body_shape (v_body v') F P (total_points (v_comps v')) D /\
    b_fps (v_body v') = b_fps (v_body v) /\ b_backend (v_body v') = b_backend (v_body v) /\
    v_version v' = v_version v /\ v_dims v' = v_dims v /\
    forall i c n, nth_error (flat_names (v_comps v')) i = Some (c, n) ->
      exists k, point_index (v_comps v) c n = Ok k /\ nth_error (flat_names (v_comps v)) k = Some (c, n) /\
        forall f q, f < F -> q < P ->
          tget 0%Z (b_conf (v_body v')) [f; q; i] = tget 0%Z (b_conf (v_body v)) [f; q; k] /\
          forall e, e < D -> tget 0%Z (b_data (v_body v')) [f; q; i; e] = tget 0%Z (b_data (v_body v)) [f; q; k; e] /\
                             tget false (b_mask (v_body v')) [f; q; i; e] = tget false (b_mask (v_body v)) [f; q; k; e].
Proof. exact C11_Main.select_points. Qed.
Print Assumptions select_points.

(* ---- the result has the requested components in the requested order, each with the requested points; its limbs connect
   the same named points as before, in the same order and orientation; limbs with a dropped endpoint disappear;
   colours and format are kept *)
Theorem select_limbs : forall tfe h p sel pts h' p' v,
  deref h p = Ok v -> header_wf (v_comps v) = true -> get_components_h tfe h p sel pts = Ok (h', p') ->
  exists v', deref h' p' = Ok v' /\
    Forall2 (fun name c' => exists c, In c (v_comps v) /\ c_name c = name /\ c_name c' = name /\
               c_colors c' = c_colors c /\ c_format c' = c_format c /\
               c_points c' = match pts_lookup pts name with Some np => np | None => c_points c end /\
               limb_names c' = filter (fun ab => mem (fst ab) (c_points c') && mem (snd ab) (c_points c')) (limb_names c))
            sel (v_comps v').
Proof. exact C11_Main.select_limbs. Qed.
Print Assumptions select_limbs.

(* ---- the call only allocates: every object that existed before is unchanged, so is the source pose *)
Theorem select_pure : forall tfe h p sel pts h' p' v,
  get_components_h tfe h p sel pts = Ok (h', p') -> deref h p = Ok v ->
  (exists ext, h' = h ++ ext) /\ deref h' p = Ok v /\ (forall a, a < length h -> nth_error h' a = nth_error h a).
Proof. exact select_pure_h. Qed.
Print Assumptions select_pure.

(* ---- a request naming existing components / points is served (NumPy, Torch; TensorFlow once repaired) *)
Theorem select_defined : forall tfe h p sel pts v F P D,
  deref h p = Ok v -> source_ok v F P D ->
  ((forall s, In s sel -> In s (map c_name (v_comps v))) /\
   (forall c np, In c (v_comps v) -> In (c_name c) sel -> pts_lookup pts (c_name c) = Some np -> forall q, In q np -> In q (c_points c))) ->
  (tfe = false \/ b_backend (v_body v) <> TF) -> exists r, get_components_h tfe h p sel pts = Ok r.
Proof. exact C11_Main.select_defined. Qed.
Print Assumptions select_defined.
(* the gap before the repair: tf.gather(t, []) raises, so an empty selection has no result on the TensorFlow backend *)
Theorem select_defined_tf_empty_refuted : forall b, b_backend b = TF -> get_points true [] b = Err Value.
Proof. exact tf_empty_selection_raises. Qed.
Print Assumptions select_defined_tf_empty_refuted.

(* ---- removal = selection of the complement: exactly the surviving points, in source order, each with its column;
   never fails, absent names are ignored; the source is unchanged *)
Theorem remove_is_complement : forall tfe h p R pts h' p' v F P D,
  deref h p = Ok v -> source_ok v F P D -> remove_components_h tfe h p R pts = Ok (h', p') ->
  exists v', deref h' p' = Ok v' /\
    get_components_v tfe (v_comps v) (v_body v) (map c_name (kept_components R (v_comps v)))
       (Some (map (fun c => (c_name c, remaining_points pts c)) (kept_components R (v_comps v)))) = Ok (v_comps v', v_body v') /\
    flat_names (v_comps v') = filter (survives R pts) (flat_names (v_comps v)) /\
    map c_name (v_comps v') = filter (fun n => negb (mem n R)) (map c_name (v_comps v)) /\
    carries_named_points v v' F P D /\
    (exists ext, h' = h ++ ext) /\ deref h' p = Ok v.
Proof. exact C11_Main.remove_is_complement. Qed.
Print Assumptions remove_is_complement.
Theorem remove_defined : forall tfe h p R pts v F P D,
  deref h p = Ok v -> source_ok v F P D -> (tfe = false \/ b_backend (v_body v) <> TF) ->
  exists r, remove_components_h tfe h p R pts = Ok r.
Proof. exact C11_Main.remove_defined. Qed.
Print Assumptions remove_defined.

(* ---- pose_hide_legs(remove=False): in place; the header and every column it does not name are unchanged, the named
   columns that exist become 0 / confidence 0 / not missing; no other object is touched.  For every name table. *)
Theorem hide_legs_hides_only_named : forall T tfe h p h' p' v F P D,
  hide_legs_h T tfe h p false = Ok (h', p') -> deref h p = Ok v -> body_shape (v_body v) F P (total_points (v_comps v)) D ->
  p' = p /\ exists f tbl b', detect T (map c_name (v_comps v)) = Ok f /\ hide_table T f = Ok tbl /\
    deref h' p = Ok (mkV (v_version v) (v_dims v) (v_bbox v) (v_comps v) b') /\
    hidden_columns (hide_indices (v_comps v) tbl) (v_body v) b' F P (total_points (v_comps v)) D /\
    (forall k, In k (hide_indices (v_comps v) tbl) <->
               exists c ps n, In (c, ps) tbl /\ In n ps /\ point_index (v_comps v) c n = Ok k) /\
    length h' = length h /\ forall a, a <> p_body p -> nth_error h' a = nth_error h a.
Proof. exact C11_Main.hide_legs_hides_only_named. Qed.
Print Assumptions hide_legs_hides_only_named.
(* ---- pose_hide_legs(remove=True): the named points disappear, every other point keeps its column; source unchanged *)
Theorem hide_legs_removes_only_named : forall T tfe h p h' p' v F P D,
  hide_legs_h T tfe h p true = Ok (h', p') -> deref h p = Ok v -> source_ok v F P D ->
  exists f tbl v', detect T (map c_name (v_comps v)) = Ok f /\ hide_table T f = Ok tbl /\ deref h' p' = Ok v' /\
    flat_names (v_comps v') = filter (survives [] (Some tbl)) (flat_names (v_comps v)) /\
    map c_name (v_comps v') = map c_name (v_comps v) /\
    carries_named_points v v' F P D /\ (exists ext, h' = h ++ ext) /\ deref h' p = Ok v.
Proof. exact C11_Main.hide_legs_removes_only_named. Qed.
Print Assumptions hide_legs_removes_only_named.

(* ---- correct_wrist: works on a deep copy (source untouched); only the body-wrist column can change: it takes the
   hand-wrist column where the hand wrist's confidence is non-zero *)
Theorem correct_wrist_changes_only_body_wrist : forall T h p hand h' p' v F P D,
  correct_wrist_h T h p hand = Ok (h', p') -> deref h p = Ok v -> body_shape (v_body v) F P (total_points (v_comps v)) D ->
  (forall a, a < length h -> nth_error h' a = nth_error h a) /\ deref h' p = Ok v /\
  exists b' f hw bw wi bi, deref h' p' = Ok (mkV (v_version v) (v_dims v) (v_bbox v) (v_comps v) b') /\
    detect T (map c_name (v_comps v)) = Ok f /\ wrist_entry T f hand = Ok (hw, bw) /\
    point_index (v_comps v) (fst hw) (snd hw) = Ok wi /\ point_index (v_comps v) (fst bw) (snd bw) = Ok bi /\
    wrist_corrected wi bi (v_body v) b' F P (total_points (v_comps v)) D.
Proof. exact C11_Main.correct_wrist_changes_only_body_wrist. Qed.
Print Assumptions correct_wrist_changes_only_body_wrist.
Theorem correct_wrists_is_left_then_right : forall T h p l r h' p' v F P D,
  correct_wrists_h T h p l r = Ok (h', p') -> deref h p = Ok v -> body_shape (v_body v) F P (total_points (v_comps v)) D ->
  (forall a, a < length h -> nth_error h' a = nth_error h a) /\ deref h' p = Ok v /\
  exists b1 b2 f hw1 bw1 w1 i1 hw2 bw2 w2 i2,
    deref h' p' = Ok (mkV (v_version v) (v_dims v) (v_bbox v) (v_comps v) b2) /\
    detect T (map c_name (v_comps v)) = Ok f /\
    wrist_entry T f l = Ok (hw1, bw1) /\ point_index (v_comps v) (fst hw1) (snd hw1) = Ok w1 /\ point_index (v_comps v) (fst bw1) (snd bw1) = Ok i1 /\
    wrist_entry T f r = Ok (hw2, bw2) /\ point_index (v_comps v) (fst hw2) (snd hw2) = Ok w2 /\ point_index (v_comps v) (fst bw2) (snd bw2) = Ok i2 /\
    wrist_corrected w1 i1 (v_body v) b1 F P (total_points (v_comps v)) D /\
    wrist_corrected w2 i2 b1 b2 F P (total_points (v_comps v)) D.
Proof. exact C11_Main.correct_wrists_is_left_then_right. Qed.
Print Assumptions correct_wrists_is_left_then_right.

(* ---- reduce_holistic: a non-Holistic pose is returned as it is; otherwise it is the selection of all components but the
   world landmarks, the face contour points and the body points whose names contain none of the ignored words *)
Theorem reduce_holistic_selects_named : forall T tfe h p h' p' v F P D,
  reduce_holistic_h T tfe h p = Ok (h', p') -> deref h p = Ok v -> source_ok v F P D ->
  (exists f, detect T (map c_name (v_comps v)) = Ok f /\ f <> Holistic /\ h' = h /\ p' = p) \/
  (detect T (map c_name (v_comps v)) = Ok Holistic /\
   exists bc v', In bc (v_comps v) /\ c_name bc = t_body_comp T /\ deref h' p' = Ok v' /\
     get_components_v tfe (v_comps v) (v_body v)
       (filter (fun n => negb (str_eqb n (t_world_comp T))) (map c_name (v_comps v)))
       (Some [(t_face_comp T, t_face_contours T);
              (t_body_comp T, filter (fun q => forallb (fun i => negb (substrb i q)) (t_ignore_names T)) (c_points bc))])
     = Ok (v_comps v', v_body v') /\
     carries_named_points v v' F P D /\ (exists ext, h' = h ++ ext) /\ deref h' p = Ok v).
Proof. exact C11_Main.reduce_holistic_selects_named. Qed.
Print Assumptions reduce_holistic_selects_named.

(* ---- ties: facts regenerated from /repo on this run = what the model was written from *)
Theorem points_dims_tie : Gen_C11.points_dims = C11_Select.points_dims.
Proof. exact C11_GenTie.points_dims_tie. Qed.
Print Assumptions points_dims_tie.
Theorem get_points_perms_tie :
  Gen_C11.np_perms = [C11_Select.points_dims; C11_Select.points_dims; conf_perm; conf_perm] /\
  Gen_C11.torch_perms = [C11_Select.points_dims; C11_Select.points_dims; conf_perm; conf_perm] /\
  Gen_C11.tf_perms = [C11_Select.points_dims; C11_Select.points_dims; conf_perm; conf_perm].
Proof. exact C11_GenTie.get_points_perms_tie. Qed.
Print Assumptions get_points_perms_tie.
Theorem constructors_tie :
  Gen_C11.component_ctor_params = ["name"; "points"; "limbs"; "colors"; "point_format"] /\
  firstn 5 Gen_C11.component_ctor_fields =
    [("name", "name"); ("points", "points"); ("limbs", "limbs"); ("colors", "colors"); ("format", "point_format")] /\
  Gen_C11.gc_component_args = ["component.name"; "component.points"; "component.limbs"; "component.colors"; "component.format"] /\
  Gen_C11.header_ctor_params = ["version"; "dimensions"; "components"; "is_bbox"] /\
  Gen_C11.header_ctor_defaults = ["False"] /\
  Gen_C11.header_ctor_fields = [("version", "version"); ("dimensions", "dimensions"); ("components", "components"); ("is_bbox", "is_bbox")] /\
  Gen_C11.gc_header_args = ["self.header.version"; "self.header.dimensions"; "new_components_order"] /\
  Gen_C11.gc_pose_args = ["header=new_header"; "body=new_body"].
Proof. exact C11_GenTie.constructors_tie. Qed.
Print Assumptions constructors_tie.
Theorem tables_tie : Gen_C11.tables = C11_Tables.pinned_tables.
Proof. exact C11_GenTie.tables_tie. Qed.
Print Assumptions tables_tie.
Theorem holistic_names_tie : Gen_C11.holistic_component_names = t_mediapipe Gen_C11.tables.
Proof. exact C11_GenTie.holistic_names_tie. Qed.
Print Assumptions holistic_names_tie.
Theorem correct_wrists_hands_tie : Gen_C11.correct_wrists_hands = ["LEFT"; "RIGHT"].
Proof. exact C11_GenTie.correct_wrists_hands_tie. Qed.
Print Assumptions correct_wrists_hands_tie.
Theorem hide_openpose_tie :
  t_hide_openpose Gen_C11.tables =
  [("pose_keypoints_2d", filter (fun q => existsb (fun w => substrb w q) Gen_C11.hide_openpose_words) Gen_C11.openpose_body_points)].
Proof. exact C11_GenTie.hide_openpose_tie. Qed.
Print Assumptions hide_openpose_tie.
Theorem hide_holistic_tie :
  forallb (fun e => forallb (fun q => mem q Gen_C11.flipped_body_points) (snd e)) (t_hide_holistic Gen_C11.tables) = true /\
  map fst (t_hide_holistic Gen_C11.tables) = ["POSE_LANDMARKS"; "POSE_WORLD_LANDMARKS"].
Proof. exact C11_GenTie.hide_holistic_tie. Qed.
Print Assumptions hide_holistic_tie.

(* ---- non-vacuity: the hypotheses are satisfiable and the calls are defined on concrete poses *)
Example ex_source : deref ex_h ex_p = Ok ex_v /\ source_ok ex_v 1 2 2 /\ header_wf (v_comps ex_v) = true /\
  ((forall s, In s ex_sel -> In s (map c_name (v_comps ex_v))) /\
   (forall c np, In c (v_comps ex_v) -> In (c_name c) ex_sel -> pts_lookup ex_pts (c_name c) = Some np -> forall q, In q np -> In q (c_points c))).
Proof. exact C11_Examples.ex_source. Qed.
Print Assumptions ex_source.
Example ex_select : exists h' p' v', get_components_h false ex_h ex_p ex_sel ex_pts = Ok (h', p') /\ deref h' p' = Ok v' /\
  flat_names (v_comps v') = [("B", "b0"); ("B", "b1"); ("A", "a2"); ("A", "a0")] /\
  map limb_names (v_comps v') = [[("b0", "b1")]; [("a2", "a0")]] /\
  data (b_data (v_body v')) = [7; 8; 9; 10; 5; 6; 1; 2; 17; 18; 19; 20; 15; 16; 11; 12]%Z /\ deref h' ex_p = Ok ex_v.
Proof. exact C11_Examples.ex_select. Qed.
Print Assumptions ex_select.
Example ex_remove : exists h' p' v', remove_components_h false ex_h ex_p ["B"; "nope"] (Some [("A", ["a1"; "zz"]); ("nope", ["x"])]) = Ok (h', p') /\
  deref h' p' = Ok v' /\ flat_names (v_comps v') = [("A", "a0"); ("A", "a2")] /\ map limb_names (v_comps v') = [[("a2", "a0")]].
Proof. exact C11_Examples.ex_remove. Qed.
Print Assumptions ex_remove.
Example ex_duplicate_names_ambiguous :
  let cs := [mkC "A" ["x"; "x"] [] [] "XYC"] in
  names_unique cs = false /\ nth_error (flat_names cs) 1 = Some ("A", "x") /\ point_index cs "A" "x" = Ok 0.
Proof. exact C11_Examples.ex_duplicate_names_ambiguous. Qed.
Print Assumptions ex_duplicate_names_ambiguous.
Example op_source : deref op_h op_p = Ok op_v /\ source_ok op_v 1 2 2.
Proof. exact C11_Examples.op_source. Qed.
Print Assumptions op_source.
Example op_hide : exists h' b', hide_legs_h pinned_tables false op_h op_p false = Ok (h', op_p) /\
  deref h' op_p = Ok (mkV 2 [1; 1; 0]%Z false (v_comps op_v) b') /\
  hide_indices (v_comps op_v) (t_hide_openpose pinned_tables) = [2; 1] /\
  data (b_conf b') = [1; 0; 0; 4; 5; 6; 7; 8; 9; 0; 0; 12; 13; 0; 15; 16]%Z.
Proof. exact C11_Examples.op_hide. Qed.
Print Assumptions op_hide.
Example op_hide_remove : exists h' p' v', hide_legs_h pinned_tables false op_h op_p true = Ok (h', p') /\ deref h' p' = Ok v' /\
  map c_points (v_comps v') = [["Nose"; "LWrist"; "RWrist"]; ["BASE"; "T_STT"]; ["BASE"]] /\
  map limb_names (v_comps v') = [[("Nose", "LWrist")]; [("BASE", "T_STT")]; []].
Proof. exact C11_Examples.op_hide_remove. Qed.
Print Assumptions op_hide_remove.
Example op_wrist : exists h' p' b', correct_wrist_h pinned_tables op_h op_p "LEFT" = Ok (h', p') /\
  deref h' p' = Ok (mkV 2 [1; 1; 0]%Z false (v_comps op_v) b') /\ deref h' op_p = Ok op_v /\
  data (b_conf b') = [1; 2; 3; 6; 5; 6; 7; 8; 9; 10; 11; 12; 13; 0; 15; 16]%Z /\
  data (b_data b') = [1; 2; 3; 4; 5; 6; 11; 12; 9; 10; 11; 12; 13; 14; 15; 16; 17; 18; 19; 20; 21; 22; 23; 24; 25; 26; 27; 28; 29; 30; 31; 32]%Z.
Proof. exact C11_Examples.op_wrist. Qed.
Print Assumptions op_wrist.
Example op_wrists : exists r, correct_wrists_h pinned_tables op_h op_p "LEFT" "RIGHT" = Ok r.
Proof. exact C11_Examples.op_wrists. Qed.
Print Assumptions op_wrists.
Example ho_source : deref ho_h ho_p = Ok ho_v /\ source_ok ho_v 1 1 3.
Proof. exact C11_Examples.ho_source. Qed.
Print Assumptions ho_source.
Example ho_reduce : exists h' p' v', reduce_holistic_h pinned_tables false ho_h ho_p = Ok (h', p') /\ deref h' p' = Ok v' /\
  flat_names (v_comps v') = [("POSE_LANDMARKS", "LEFT_SHOULDER"); ("POSE_LANDMARKS", "LEFT_WRIST")] /\
  map limb_names (v_comps v') = [[("LEFT_SHOULDER", "LEFT_WRIST")]] /\ deref h' ho_p = Ok ho_v.
Proof. exact C11_Examples.ho_reduce. Qed.
Print Assumptions ho_reduce.
Example op_reduce_identity : reduce_holistic_h pinned_tables false op_h op_p = Ok (op_h, op_p).
Proof. exact C11_Examples.op_reduce_identity. Qed.
Print Assumptions op_reduce_identity.
Example pinned_leg_points :
  map snd (t_hide_openpose pinned_tables) =
    [["MidHip"; "RHip"; "RKnee"; "RAnkle"; "LHip"; "LKnee"; "LAnkle"; "LBigToe"; "LSmallToe"; "LHeel"; "RBigToe"; "RSmallToe"; "RHeel"]] /\
  map (fun e => length (snd e)) (t_hide_holistic pinned_tables) = [10; 10].
Proof. exact C11_Examples.pinned_leg_points. Qed.
Print Assumptions pinned_leg_points.

(* ---------- class structure of the current source: overrides and attribute hooks (proofs/ClassesTie.v) ---------- *)
Require Import ClassesTie.
Theorem C11_tie_class_numpy_body : over_numpy_body = Some exp_over_numpy_body.
Proof. exact over_numpy_body_tie. Qed.
Print Assumptions C11_tie_class_numpy_body.
Theorem C11_tie_class_torch_body : over_torch_body = Some exp_over_torch_body.
Proof. exact over_torch_body_tie. Qed.
Print Assumptions C11_tie_class_torch_body.
Theorem C11_tie_class_tf_body : over_tf_body = Some exp_over_tf_body.
Proof. exact over_tf_body_tie. Qed.
Print Assumptions C11_tie_class_tf_body.
Theorem C11_tie_class_subclasses : subclasses = exp_subclasses.
Proof. exact subclasses_tie. Qed.
Print Assumptions C11_tie_class_subclasses.
Theorem C11_tie_class_attr_hooks : Gen_Classes.attr_hooks = exp_attr_hooks.
Proof. exact attr_hooks_tie. Qed.
Print Assumptions C11_tie_class_attr_hooks.

