(* C08 - NumPy, PyTorch and TensorFlow bodies hold the same pose.
   Model: model/C08_Body.v (constructors, containers, operations, per backend as in the source),
   model/C08_Read.v (Pose.read into each body class, torch()/tensorflow()), model/C08_Spec.v (the
   backend-independent content [core], its representation [rep b] in each backend, the observation
   [obs_core] and the reference result of every operation).  cfgR mm eo = the constructors / zero_filled as
   repaired for F7, F8, F9 and the NumPy stacking axis, for either shape (mm) of MaskedTensor.matmul's mask and
   (eo) of the int32 cast of TensorFlow index lists - the two places other owners' proposed fixes change; the
   source is tied to one of these configurations by ctor_cfg_tie.

   Every theorem equates what is observed of backend b (shape, values, validity in one polarity, confidence,
   fps) with a term that does not mention b: all backends agree, and the common value is the stated one.

   Partial, and visible as such:
   * TensorFlow clauses assume no subnormal confidence ([ok_for Tf]; tf_subnormal_confidence_refuted).
   * index / step arguments are taken from the frameworks' common domain (non-negative in-range positions,
     non-empty lists, positive steps); outside it the frameworks' own conventions differ
     (tf_negative_index_refuted, tf_empty_index_list_refuted, torch_negative_step_refuted,
     unchecked_index_on_empty_body_refuted).
   * matmul: every non-empty width now that MaskedTensor.matmul rebuilds its mask (matmul_agree_after_F16a, /repo
     ea2a495); square matrices only with the mask kept as before that repair (matmul_agree_partial,
     matmul_nonsquare_refuted, DESIGN F16); a matrix without columns raises on NumPy only; the float32 dot
     product is a parameter [dot] - rounding and summation order of the three kernels are not modelled.
   * flatten: column 0 (frame / fps in the backend's float type) is kept as (frame, fps); its rounding is not modelled. *)
From Coq Require Import ZArith NArith List Bool String.
Require Import Result Tree F32 Codec C08_Body C08_Read C08_Spec C08_Run C08_Ctor C08_Main C08_Edge C08_GenTie Gen_C08.
Import ListNotations.

(* ---------- reading the same bytes into the three body types; torch() / tensorflow() ---------- *)
Theorem read_is_rep : forall mm eo b buffer a, read_body (cfgR mm eo) b buffer a = rmap (rep b) (read_core buffer a).
Proof. exact C08_Main.read_is_rep. Qed.
Print Assumptions read_is_rep.
Theorem read_backends_agree : forall mm eo b buffer a, ok_res b (read_core buffer a) ->
  rmap (observe b) (read_body (cfgR mm eo) b buffer a) = rmap obs_core (read_core buffer a).
Proof. exact C08_Main.read_backends_agree. Qed.
Print Assumptions read_backends_agree.
Theorem convert_agree : forall mm eo b buffer a, ok_res b (read_core buffer a) ->
  rmap (observe b) (read_convert (cfgR mm eo) b buffer a) = rmap obs_core (read_core buffer a).
Proof. exact C08_Main.convert_agree. Qed.
Print Assumptions convert_agree.
Theorem read_dims_positive : forall buffer a k, read_core buffer a = Ok k -> kD k <> 0%nat.
Proof. exact C08_Main.read_dims_positive. Qed.
Print Assumptions read_dims_positive.
Example read_example : read_core file_ex no_args = Ok k_ex.
Proof. exact C08_Edge.read_example. Qed.
Print Assumptions read_example.
Example hyps_example : kD k_ex <> 0%nat /\ (forall b, ok_for b (k_pts k_ex)) /\ rows_ok k_ex /\
  in_range (kF k_ex) [1; 0; 1]%Z /\ in_range (kT k_ex) [1; 1]%Z /\ pos_step (every 2) /\
  out_of (kF k_ex) (-3)%Z /\ (kP k_ex * (kT k_ex * (kD k_ex * 1)) <> 0)%nat.
Proof. exact C08_Edge.hyps_example. Qed.
Print Assumptions hyps_example.

(* ---------- a point is missing in all of its dimensions exactly when its confidence is 0 ---------- *)
Theorem missing_iff_zero_conf : forall mm eo b buffer a x, read_body (cfgR mm eo) b buffer a = Ok x -> ok_res b (read_core buffer a) ->
  exists k, read_core buffer a = Ok k /\ observe b x = obs_core k /\
    forall f p t d, (t < List.length (nth p (nth f (k_pts k) []) []))%nat -> (d < kD k)%nat ->
      nth d (at3 [] (rows (fun w => negb (is_zero32 w)) (kD k) (k_pts k)) f p t) true
      = negb (is_zero32 (at3 0%N (map3 fst (k_pts k)) f p t)).
Proof. exact C08_Main.missing_iff_zero_conf. Qed.
Print Assumptions missing_iff_zero_conf.
Example valid_example :
  o_valid (obs_core k_ex) = Some ([2; 1; 2; 3]%nat, [ [ [ [true; true; true]; [false; false; false] ] ]; [ [ [true; true; true]; [true; true; true] ] ] ]).
Proof. exact C08_Edge.valid_example. Qed.
Print Assumptions valid_example.

(* ---------- shared operations ---------- *)
Theorem get_points_agree : forall mm eo b k, kD k <> 0%nat -> ok_for b (k_pts k) -> forall idx, idx <> [] -> in_range (kT k) idx ->
  rmap (observe b) (get_points (cfgR mm eo) b idx (rep b k)) = Ok (obs_core (ref_points (map Z.to_nat idx) k)).
Proof. exact C08_Main.get_points_agree. Qed.
Print Assumptions get_points_agree.
Theorem get_points_out_of_range : forall mm eo b k idx, (kF k * (kP k * (kD k * 1)) <> 0)%nat -> Exists (out_of (kT k)) idx ->
  get_points (cfgR mm eo) b idx (rep b k) = Err Index.
Proof. exact C08_Edge.get_points_out_of_range. Qed.
Print Assumptions get_points_out_of_range.
Theorem select_frames_agree : forall mm eo b k, kD k <> 0%nat -> ok_for b (k_pts k) -> forall idx, idx <> [] -> in_range (kF k) idx ->
  rmap (observe b) (select_frames (cfgR mm eo) b idx (rep b k)) = Ok (obs_core (ref_frames (k_fps k) (map Z.to_nat idx) k)).
Proof. exact C08_Main.select_frames_agree. Qed.
Print Assumptions select_frames_agree.
Theorem select_frames_out_of_range : forall mm eo b k idx, (kP k * (kT k * (kD k * 1)) <> 0)%nat -> Exists (out_of (kF k)) idx ->
  select_frames (cfgR mm eo) b idx (rep b k) = Err Index.
Proof. exact C08_Edge.select_frames_out_of_range. Qed.
Print Assumptions select_frames_out_of_range.
Theorem getitem_int_agree : forall mm eo b k, kD k <> 0%nat -> ok_for b (k_pts k) -> forall i,
  rmap (observe3 b) (getitem_int (cfgR mm eo) b i (rep b k)) = rmap (fun j => fobs_core (ref_frame j k)) (norm_wrap (kF k) i).
Proof. exact C08_Main.getitem_int_agree. Qed.
Print Assumptions getitem_int_agree.
Theorem getitem_int_out_of_range : forall mm eo b k, kD k <> 0%nat -> forall i, (i < - Z.of_nat (kF k) \/ Z.of_nat (kF k) <= i)%Z ->
  getitem_int (cfgR mm eo) b i (rep b k) = Err Index.
Proof. exact C08_Main.getitem_int_out_of_range. Qed.
Print Assumptions getitem_int_out_of_range.
Theorem getitem_slice_agree : forall mm eo b k, kD k <> 0%nat -> ok_for b (k_pts k) -> forall s, pos_step s ->
  rmap (observe b) (getitem_slice (cfgR mm eo) b s (rep b k)) = rmap (fun ix => obs_core (ref_frames (k_fps k) ix k)) (slice_idx (kF k) s).
Proof. exact C08_Main.getitem_slice_agree. Qed.
Print Assumptions getitem_slice_agree.
Theorem getitem_slice_zero_step : forall mm eo b k, kD k <> 0%nat -> forall s, s_step s = Some 0%Z -> getitem_slice (cfgR mm eo) b s (rep b k) = Err Value.
Proof. exact C08_Main.getitem_slice_zero_step. Qed.
Print Assumptions getitem_slice_zero_step.
Theorem slice_step_agree : forall mm eo b k, kD k <> 0%nat -> ok_for b (k_pts k) -> forall by_, (0 < by_)%Z ->
  rmap (observe b) (slice_step (cfgR mm eo) b by_ (rep b k)) =
  Ok (obs_core (ref_frames (fps_div (k_fps k) by_) (filter (fun i => (Z.of_nat i mod by_ =? 0)%Z) (seq 0 (kF k))) k)).
Proof. exact C08_Main.slice_step_agree. Qed.
Print Assumptions slice_step_agree.
Theorem slice_step_zero : forall mm eo b k, kD k <> 0%nat -> slice_step (cfgR mm eo) b 0 (rep b k) = Err Value.
Proof. exact C08_Main.slice_step_zero. Qed.
Print Assumptions slice_step_zero.
Theorem copy_agree : forall mm eo b k, kD k <> 0%nat -> ok_for b (k_pts k) -> rmap (observe b) (copy (cfgR mm eo) b (rep b k)) = Ok (obs_core k).
Proof. exact C08_Main.copy_agree. Qed.
Print Assumptions copy_agree.
(* Torch / TF leave a bare tensor in .data: shape, values, confidence and fps are compared *)
Theorem zero_filled_agree : forall mm eo b k, kD k <> 0%nat -> ok_for b (k_pts k) ->
  rmap (fun y => forget_valid (observe b y)) (zero_filled (cfgR mm eo) b (rep b k)) = Ok (forget_valid (obs_core (ref_zero k))).
Proof. exact C08_Main.zero_filled_agree. Qed.
Print Assumptions zero_filled_agree.
Theorem matmul_agree_partial : forall (dot : list N -> list N -> N) mm eo b k m,
  kD k <> 0%nat -> ok_for b (k_pts k) -> rows_ok k -> m_rows m = kD k -> m_cols m = kD k ->
  rmap (fun y => visible (observe b y)) (matmul dot (cfgR mm eo) b m (rep b k)) = Ok (visible (obs_core (ref_matmul dot m k))).
Proof. exact C08_Edge.matmul_agree_partial. Qed.
Print Assumptions matmul_agree_partial.
Theorem matmul_agree_after_F16a : forall (dot : list N -> list N -> N) eo b k m,
  kD k <> 0%nat -> ok_for b (k_pts k) -> rows_ok k -> m_rows m = kD k -> m_cols m <> 0%nat ->
  rmap (fun y => visible (observe b y)) (matmul dot (cfgR MmAllExpand eo) b m (rep b k)) = Ok (visible (obs_core (ref_matmul dot m k))).
Proof. exact C08_Edge.matmul_agree_after_F16a. Qed.
Print Assumptions matmul_agree_after_F16a.
Example matmul_example : m_rows m_ex = kD k_ex /\ m_cols m_ex = kD k_ex.
Proof. exact C08_Edge.matmul_example. Qed.
Print Assumptions matmul_example.
Theorem matmul_numpy_any_width : forall (dot : list N -> list N -> N) mm eo k m,
  kD k <> 0%nat -> rows_ok k -> m_rows m = kD k -> m_cols m <> 0%nat ->
  rmap (fun y => visible (observe Np y)) (matmul dot (cfgR mm eo) Np m (rep Np k)) = Ok (visible (obs_core (ref_matmul dot m k))).
Proof. exact C08_Edge.matmul_numpy_any_width. Qed.
Print Assumptions matmul_numpy_any_width.
Theorem matmul_bad_rows : forall (dot : list N -> list N -> N) mm eo b k m, m_rows m <> kD k -> matmul dot (cfgR mm eo) b m (rep b k) = Err Value.
Proof. exact C08_Edge.matmul_bad_rows. Qed.
Print Assumptions matmul_bad_rows.
Theorem matmul_nonsquare_refuted :
  exists k m, kD k <> 0%nat /\ m_rows m = kD k /\
    rmap (fun y => (o_shape (observe Torch y), option_map fst (o_valid (observe Torch y)))) (matmul dot32 (cfgR MmKeep false) Torch m (rep Torch k))
      = Ok ([2; 1; 2; 2]%nat, Some [2; 1; 2; 3]%nat) /\
    rmap (fun y => (o_shape (observe Np y), option_map fst (o_valid (observe Np y)))) (matmul dot32 (cfgR MmKeep false) Np m (rep Np k))
      = Ok ([2; 1; 2; 2]%nat, Some [2; 1; 2; 2]%nat).
Proof. exact C08_Edge.matmul_nonsquare_refuted. Qed.
Print Assumptions matmul_nonsquare_refuted.
Theorem flatten_agree : forall k,
  flatten Np (rep Np k) = flatten Torch (rep Torch k) /\
  flatten Np (rep Np k) =
    (if fps_zero (k_fps k) then Err ZeroDiv else if Nat.eqb (kF k * (kP k * (kT k * 1))) 0 then Err Value else Ok (ref_flatten k)) /\
  flatten Tf (rep Tf k) = Err NotImplemented.
Proof. exact C08_Edge.flatten_agree. Qed.
Print Assumptions flatten_agree.

(* ---------- outside the common argument domain: the frameworks' own conventions ---------- *)
Theorem tf_negative_index_refuted :
  is_ok (select_frames (cfgR MmKeep false) Np [-1]%Z (rep Np k_ex)) = true /\ is_ok (select_frames (cfgR MmKeep false) Torch [-1]%Z (rep Torch k_ex)) = true /\
  select_frames (cfgR MmKeep false) Tf [-1]%Z (rep Tf k_ex) = Err Index.
Proof. exact C08_Edge.tf_negative_index_refuted. Qed.
Print Assumptions tf_negative_index_refuted.
Theorem tf_empty_index_list_refuted :
  is_ok (get_points (cfgR MmKeep false) Np [] (rep Np k_ex)) = true /\ is_ok (get_points (cfgR MmKeep false) Torch [] (rep Torch k_ex)) = true /\
  get_points (cfgR MmKeep false) Tf [] (rep Tf k_ex) = Err Type_.
Proof. exact C08_Edge.tf_empty_index_list_refuted. Qed.
Print Assumptions tf_empty_index_list_refuted.
Theorem torch_negative_step_refuted :
  is_ok (slice_step (cfgR MmKeep false) Np (-1) (rep Np k_ex)) = true /\ is_ok (slice_step (cfgR MmKeep false) Tf (-1) (rep Tf k_ex)) = true /\
  slice_step (cfgR MmKeep false) Torch (-1) (rep Torch k_ex) = Err Value.
Proof. exact C08_Edge.torch_negative_step_refuted. Qed.
Print Assumptions torch_negative_step_refuted.
Theorem tf_subnormal_confidence_refuted :
  exists k, kD k <> 0%nat /\ o_valid (observe Tf (rep Tf k)) = Some ([1; 1; 1; 1]%nat, [[[[false]]]])
                      /\ o_valid (observe Np (rep Np k)) = Some ([1; 1; 1; 1]%nat, [[[[true]]]]).
Proof. exact C08_Edge.tf_subnormal_confidence_refuted. Qed.
Print Assumptions tf_subnormal_confidence_refuted.
Theorem unchecked_index_on_empty_body_refuted :
  exists k, kD k <> 0%nat /\ select_frames (cfgR MmKeep false) Np [5]%Z (rep Np k) = Err Index /\ is_ok (select_frames (cfgR MmKeep false) Torch [5]%Z (rep Torch k)) = true
                      /\ is_ok (select_frames (cfgR MmKeep false) Tf [5]%Z (rep Tf k)) = true.
Proof. exact C08_Edge.unchecked_index_on_empty_body_refuted. Qed.
Print Assumptions unchecked_index_on_empty_body_refuted.

(* ---------- the constructors as pinned before the repairs (DESIGN F7, F8, F9, NumPy axis) ---------- *)
Theorem pinned_tf_mask_shape_refuted :
  exists r, res_shape (body_of_raw cfg_pinned Tf r) = Some ([1; 1; 2; 3]%nat, Some [1; 1; 2; 2]%nat)
         /\ res_shape (body_of_raw cfg_pinned Np r) = Some ([1; 1; 2; 3]%nat, Some [1; 1; 2; 3]%nat).
Proof. exact C08_Edge.pinned_tf_mask_shape_refuted. Qed.
Print Assumptions pinned_tf_mask_shape_refuted.
Theorem pinned_validity_rule_refuted :
  exists r, rmap (fun x => o_valid (observe Torch x)) (body_of_raw cfg_pinned Torch r)
            = Ok (Some ([1; 1; 2; 3]%nat, [[[[false; false; false]; [false; false; false]]]]))
         /\ rmap (fun x => o_valid (observe Np x)) (body_of_raw cfg_pinned Np r)
            = Ok (Some ([1; 1; 2; 3]%nat, [[[[true; true; true]; [true; true; true]]]])).
Proof. exact C08_Edge.pinned_validity_rule_refuted. Qed.
Print Assumptions pinned_validity_rule_refuted.
Theorem pinned_numpy_int_index_refuted :
  exists r x y, body_of_raw cfg_pinned Np r = Ok x /\ body_of_raw cfg_pinned Torch r = Ok y /\
    getitem_int cfg_pinned Np 0 x = Err Index /\ is_ok (getitem_int cfg_pinned Torch 0 y) = true.
Proof. exact C08_Edge.pinned_numpy_int_index_refuted. Qed.
Print Assumptions pinned_numpy_int_index_refuted.
Theorem pinned_zero_filled_refuted :
  exists k, rmap (fun y => o_val (observe Torch y)) (zero_filled cfg_pinned Torch (rep Torch k)) = Ok [[[[wnan]]]]
         /\ rmap (fun y => o_val (observe Np y)) (zero_filled cfg_pinned Np (rep Np k)) = Ok [[[[0%N]]]].
Proof. exact C08_Edge.pinned_zero_filled_refuted. Qed.
Print Assumptions pinned_zero_filled_refuted.

(* ---------- ties to the source as it is now (gen/Gen_C08.v is regenerated on every run) ---------- *)
Theorem ctor_cfg_tie : exists mm eo, t_cfg (Nd (map L Gen_C08.cfg_code)) = cfg_repaired mm eo.
Proof. exact C08_GenTie.ctor_cfg_tie. Qed.
Print Assumptions ctor_cfg_tie.
Theorem points_dims_involution :
  nth 0 Gen_C08.points_dims 9%nat = 2%nat /\ nth 3 Gen_C08.points_dims 9%nat = 3%nat /\
  map (fun i => nth (nth i Gen_C08.points_dims 9%nat) Gen_C08.points_dims 9%nat) [0; 1; 2; 3]%nat = [0; 1; 2; 3]%nat.
Proof. exact C08_GenTie.points_dims_involution. Qed.
Print Assumptions points_dims_involution.
Theorem tf_flatten_tie : Gen_C08.tf_flatten = "absent"%string.
Proof. exact C08_GenTie.tf_flatten_tie. Qed.
Print Assumptions tf_flatten_tie.
Open Scope string_scope.
Theorem ctor_facts_tie : Gen_C08.ctor_facts =
  [ "numpy: mask = confidence == 0; np.stack axis=-1";
    "torch: valid = confidence != 0; torch.stack([mask] * data.shape[-1], dim=3)";
    "tensorflow: valid = confidence != 0; tf.stack([mask] * data.shape[-1], axis=3)" ].
Proof. exact C08_GenTie.ctor_facts_tie. Qed.
Print Assumptions ctor_facts_tie.
Theorem zf_facts_tie : Gen_C08.zf_facts =
  [ "torch: where";
    "tensorflow: where" ].
Proof. exact C08_GenTie.zf_facts_tie. Qed.
Print Assumptions zf_facts_tie.
Theorem points_dims_tie : Gen_C08.points_dims = [2; 1; 0; 3]%nat.
Proof. exact C08_GenTie.points_dims_tie. Qed.
Print Assumptions points_dims_tie.
Theorem read_source_tie : (Gen_C08.tensor_readers, Gen_C08.fn_unpack_torch, Gen_C08.fn_unpack_tensorflow) =
  (
  [ "numpy:unpack_numpy";
    "torch:unpack_torch";
    "tensorflow:unpack_tensorflow" ],
  [ "import torch";
    "arr = self.unpack_numpy(s, shape)";
    "return torch.from_numpy(arr)" ],
  [ "import tensorflow as tf";
    "arr = self.unpack_numpy(s, shape)";
    "return tf.constant(arr)" ]).
Proof. exact C08_GenTie.read_source_tie. Qed.
Print Assumptions read_source_tie.
Theorem convert_source_tie : (Gen_C08.fn_np_torch, Gen_C08.fn_np_tensorflow) =
  (
  [ "try:
    import torch
except ImportError:
    raise ImportError('Please install torch. https://pytorch.org/')";
    "import torch";
    "from ..torch.pose_body import TorchPoseBody";
    "torch_confidence = torch.from_numpy(self.confidence)";
    "torch_data = torch.from_numpy(self.data.data)";
    "return TorchPoseBody(self.fps, torch_data, torch_confidence)" ],
  [ "import tensorflow";
    "from ..tensorflow.pose_body import TensorflowPoseBody";
    "tf_confidence = tensorflow.constant(self.confidence)";
    "tf_data = tensorflow.constant(self.data.data)";
    "return TensorflowPoseBody(self.fps, tf_data, tf_confidence)" ]).
Proof. exact C08_GenTie.convert_source_tie. Qed.
Print Assumptions convert_source_tie.
Theorem frames_source_tie : (Gen_C08.fn_base_getitem, Gen_C08.fn_base_select_frames, Gen_C08.fn_base_slice_step, Gen_C08.fn_tf_select_frames, Gen_C08.fn_mt_torch_getitem, Gen_C08.fn_mt_tf_getitem, Gen_C08.fn_mt_tf_gather) =
  (
  [ "sliced_data = self.data[index]";
    "sliced_confidence = self.confidence[index]";
    "return type(self)(self.fps, sliced_data, sliced_confidence)" ],
  [ "data = self.data[frame_indexes]";
    "confidence = self.confidence[frame_indexes]";
    "return self.__class__(fps=self.fps, data=data, confidence=confidence)" ],
  [ "new_data = self.data[::by]";
    "new_confidence = self.confidence[::by]";
    "new_fps = self.fps / by";
    "return self.__class__(fps=new_fps, data=new_data, confidence=new_confidence)" ],
  [ "data = self.data.gather(frame_indexes)";
    "confidence = tf.gather(self.confidence, frame_indexes)";
    "return self.__class__(fps=self.fps, data=data, confidence=confidence)" ],
  [ "tensor = self.tensor[key]";
    "mask = self.mask[key]";
    "return MaskedTensor(tensor=tensor, mask=mask)" ],
  [ "if isinstance(key, list):
    tensor = tf.gather(self.tensor, key)
    mask = tf.gather(self.mask, key)
else:
    tensor = self.tensor[key]
    mask = self.mask[key]";
    "return MaskedTensor(tensor=tensor, mask=mask)" ],
  [ "tensor = tf.gather(self.tensor, indexes)";
    "mask = tf.gather(self.mask, indexes)";
    "return MaskedTensor(tensor=tensor, mask=mask)" ]).
Proof. exact C08_GenTie.frames_source_tie. Qed.
Print Assumptions frames_source_tie.
Theorem get_points_source_tie : (Gen_C08.fn_np_get_points, Gen_C08.fn_torch_get_points, Gen_C08.fn_torch_points_perspective, Gen_C08.fn_tf_get_points, Gen_C08.fn_mt_torch_permute, Gen_C08.fn_mt_tf_transpose) =
  (
  [ "data = ma.transpose(self.data, axes=POINTS_DIMS)";
    "new_data = ma.transpose(data[indexes], axes=POINTS_DIMS)";
    "confidence_reshape = (2, 1, 0)";
    "confidence = np.transpose(self.confidence, axes=confidence_reshape)";
    "new_confidence = np.transpose(confidence[indexes], axes=confidence_reshape)";
    "return NumPyPoseBody(self.fps, new_data, new_confidence)" ],
  [ "data = self.points_perspective()";
    "new_data = data[indexes].permute(POINTS_DIMS)";
    "confidence_reshape = (2, 1, 0)";
    "confidence = self.confidence.permute(confidence_reshape)";
    "new_confidence = confidence[indexes].permute(confidence_reshape)";
    "return self.__class__(self.fps, new_data, new_confidence)" ],
  [ "return self.data.permute(POINTS_DIMS)" ],
  [ "data = self.data.transpose(perm=POINTS_DIMS)";
    "new_data = data[indexes].transpose(perm=POINTS_DIMS)";
    "confidence_reshape = [2, 1, 0]";
    "confidence = tf.transpose(self.confidence, perm=confidence_reshape)";
    "new_confidence = tf.transpose(tf.gather(confidence, indexes), perm=confidence_reshape)";
    "return TensorflowPoseBody(self.fps, new_data, new_confidence)" ],
  [ "tensor = self.tensor.permute(dims)";
    "mask = self.mask.permute(dims)";
    "return MaskedTensor(tensor=tensor, mask=mask)" ],
  [ "tensor = tf.transpose(self.tensor, perm=perm)";
    "mask = tf.transpose(self.mask, perm=perm)";
    "return MaskedTensor(tensor=tensor, mask=mask)" ]).
Proof. exact C08_GenTie.get_points_source_tie. Qed.
Print Assumptions get_points_source_tie.
Theorem copy_source_tie : (Gen_C08.fn_np_copy, Gen_C08.fn_torch_copy, Gen_C08.fn_tf_copy) =
  (
  [ "return type(self)(fps=self.fps, data=self.data.copy(), confidence=self.confidence.copy())" ],
  [ "data_copy = MaskedTensor(tensor=self.data.tensor.detach().clone().to(self.data.tensor.device), mask=self.data.mask.detach().clone().to(self.data.mask.device))";
    "confidence_copy = self.confidence.detach().clone().to(self.confidence.device)";
    "return self.__class__(fps=self.fps, data=data_copy, confidence=confidence_copy)" ],
  [ "detached_data = tf.convert_to_tensor(self.data.tensor.numpy())";
    "detached_mask = tf.convert_to_tensor(self.data.mask.numpy())";
    "data_copy = MaskedTensor(detached_data, detached_mask)";
    "confidence_copy = tf.convert_to_tensor(self.confidence.numpy())";
    "return self.__class__(fps=self.fps, data=data_copy, confidence=confidence_copy)" ]).
Proof. exact C08_GenTie.copy_source_tie. Qed.
Print Assumptions copy_source_tie.
Theorem zero_filled_source_tie : (Gen_C08.fn_np_zero_filled, Gen_C08.fn_torch_zero_filled, Gen_C08.fn_tf_zero_filled) =
  (
  [ "copy = self.copy()";
    "copy.data = ma.array(copy.data.filled(0), mask=copy.data.mask)";
    "return copy" ],
  [ "copy = self.copy()";
    "copy.data = copy.data.zero_filled()";
    "return copy" ],
  [ "copy = self.copy()";
    "copy.data = self.data.zero_filled()";
    "return copy" ]).
Proof. exact C08_GenTie.zero_filled_source_tie. Qed.
Print Assumptions zero_filled_source_tie.
Theorem matmul_source_tie : (Gen_C08.fn_np_matmul, Gen_C08.fn_torch_matmul, Gen_C08.fn_tf_matmul, Gen_C08.fn_mt_torch_matmul, Gen_C08.fn_mt_tf_matmul) =
  (
  [ "data = ma.dot(self.data, matrix)";
    "return NumPyPoseBody(self.fps, data, self.confidence)" ],
  [ "data = self.data.matmul(torch.from_numpy(matrix))";
    "return self.__class__(fps=self.fps, data=data, confidence=self.confidence)" ],
  [ "matrix = tf.convert_to_tensor(matrix, dtype=self.data.dtype)";
    "data = self.data.matmul(matrix)";
    "return self.__class__(fps=self.fps, data=data, confidence=self.confidence)" ],
  [ "tensor = torch.matmul(self.tensor, matrix.to(self.device))";
    "return MaskedTensor(tensor, self.mask)" ],
  [ "tensor = tf.matmul(self.tensor, matrix)";
    "return MaskedTensor(tensor=tensor, mask=self.mask)" ]).
Proof. exact C08_GenTie.matmul_source_tie. Qed.
Print Assumptions matmul_source_tie.
Theorem flatten_source_tie : (Gen_C08.fn_np_flatten, Gen_C08.fn_torch_flatten, Gen_C08.fn_base_flatten) =
  (
  [ "shape = self.data.shape";
    "data = self.data.data.reshape(-1, shape[-1])";
    "confidence = self.confidence.flatten()";
    "indexes = list(np.ndindex(shape[:-1]))";
    "flat = np.c_[indexes, confidence, data]";
    "flat = flat[confidence != 0]";
    "scalar = np.ones(len(shape) + shape[-1])";
    "scalar[0] = 1 / self.fps";
    "return flat * scalar" ],
  [ "shape = self.data.shape";
    "data = self.data.tensor.reshape(-1, shape[-1])";
    "confidence = self.confidence.flatten()";
    "indexes = torch.tensor(list(np.ndindex(shape[:-1])), dtype=torch.float32, device=data.device)";
    "flat = torch.cat([indexes, torch.unsqueeze(confidence, dim=1), data], dim=1)";
    "flat = flat[confidence != 0.0]";
    "scalar = torch.ones(len(shape) + shape[-1], device=data.device)";
    "scalar[0] = 1 / self.fps";
    "return flat * scalar" ],
  [ "raise NotImplementedError(""'flatten' not implemented on '%s'"" % self.__class__)" ]).
Proof. exact C08_GenTie.flatten_source_tie. Qed.
Print Assumptions flatten_source_tie.

(* ---------- class structure of the current source: overrides and attribute hooks (proofs/ClassesTie.v) ---------- *)
Require Import ClassesTie.
Theorem C08_tie_class_numpy_body : over_numpy_body = Some exp_over_numpy_body.
Proof. exact over_numpy_body_tie. Qed.
Print Assumptions C08_tie_class_numpy_body.
Theorem C08_tie_class_torch_body : over_torch_body = Some exp_over_torch_body.
Proof. exact over_torch_body_tie. Qed.
Print Assumptions C08_tie_class_torch_body.
Theorem C08_tie_class_tf_body : over_tf_body = Some exp_over_tf_body.
Proof. exact over_tf_body_tie. Qed.
Print Assumptions C08_tie_class_tf_body.
Theorem C08_tie_class_subclasses : subclasses = exp_subclasses.
Proof. exact subclasses_tie. Qed.
Print Assumptions C08_tie_class_subclasses.
Theorem C08_tie_class_attr_hooks : Gen_Classes.attr_hooks = exp_attr_hooks.
Proof. exact attr_hooks_tie. Qed.
Print Assumptions C08_tie_class_attr_hooks.

