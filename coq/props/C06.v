(* C06 - a read depends only on bytes and arguments, never on earlier reads or callers; results share no
   mutable state.  Only statements, closed by [exact], each followed by Print Assumptions. *)
From Coq Require Import ZArith NArith List Bool.
Require Import Tree Graph GraphEdit C06_Graph C06_GraphRun C06_GraphProofs.
Require Import ListN Result Bytes Prog Codec PoseRead PoseReadLemmas StreamLemmas StreamRead StreamBack StreamIndep C06_Heap C06_HeapProofs CodecGenTie.
Import ListNotations.
Open Scope N_scope.

(* Value level: for ANY byte string and arguments, under every consistent memo, Pose.read returns what it
   returns with an empty memo; hence along any history of reads (the memo threaded through) every result is the
   stateless one. *)
Theorem C06_memo_never_changes_a_read :
  forall legacy m buffer a, MemoOK m -> fst (read_bytes legacy m buffer a) = fst (read_bytes legacy None buffer a).
Proof. exact read_bytes_memo_independent. Qed.
Print Assumptions C06_memo_never_changes_a_read.
Theorem C06_history_of_reads :
  forall legacy ops m, MemoOK m ->
    run_reads legacy m ops = map (fun ba => fst (read_bytes legacy None (fst ba) (snd ba))) ops.
Proof. exact history_independent_values. Qed.
Print Assumptions C06_history_of_reads.

(* Object level (heap of header objects; callers mutate only what they hold): after ANY sequence of reads,
   in-place edits of earlier results and copies, a read returns - as a value, its header object dereferenced in
   the resulting heap - exactly the fresh-process result. *)
Theorem C06_read_history_independent :
  forall legacy ops buffer a,
    let s := run_h legacy hinit ops in
    pose_of (snd (read_h legacy s buffer a)) (fst (read_h legacy s buffer a)) = fst (read_bytes legacy None buffer a).
Proof. exact read_history_independent. Qed.
Print Assumptions C06_read_history_independent.
(* ... the objects handed to callers are pairwise distinct and never the memo's object; *)
Theorem C06_no_sharing :
  forall legacy ops, let s := run_h legacy hinit ops in
    NoDup (handed s) /\ (forall c, hmem s = Some c -> ~ In (hm_addr c) (handed s)).
Proof. exact no_sharing. Qed.
Print Assumptions C06_no_sharing.
(* ... a read hands out a new object; *)
Theorem C06_read_result_is_fresh :
  forall legacy s buffer a ad b, HInv s -> fst (read_h legacy s buffer a) = Ok (ad, b) ->
    ~ In ad (handed s) /\ In ad (handed (snd (read_h legacy s buffer a))) /\
    (forall c, hmem (snd (read_h legacy s buffer a)) = Some c -> hm_addr c <> ad).
Proof. exact read_h_fresh. Qed.
Print Assumptions C06_read_result_is_fresh.
(* ... an in-place edit changes the edited object only; *)
Theorem C06_mutation_is_local :
  forall legacy s k f ad other, HInv s -> nth_error (handed s) k = Some ad -> other <> ad ->
    deref (fst (step_h legacy s (HMutate k f))) other dummy_header = deref s other dummy_header.
Proof. exact mutate_changes_only_its_object. Qed.
Print Assumptions C06_mutation_is_local.
(* ... and copy() yields a new object with an equal header, leaving every other object as it was. *)
Theorem C06_copy_is_disjoint :
  forall legacy s k ad, HInv s -> nth_error (handed s) k = Some ad ->
    let s' := fst (step_h legacy s (HCopy k)) in
    exists ad', handed s' = handed s ++ [ad'] /\ ~ In ad' (handed s) /\ ad' <> ad /\
                deref s' ad' dummy_header = deref s ad dummy_header /\
                (forall x, In x (handed s) -> deref s' x dummy_header = deref s x dummy_header).
Proof. exact copy_is_a_new_equal_object. Qed.
Print Assumptions C06_copy_is_disjoint.
Theorem C06_invariant_reachable :
  forall legacy ops, HInv (run_h legacy hinit ops).
Proof. exact (fun legacy ops => hinv_run legacy ops hinit hinv_init). Qed.
Print Assumptions C06_invariant_reachable.

(* Object-graph level (model/C06_Graph.v): EVERY mutable object of a pose is a cell of the heap - the Pose, its header, the
   dimensions object, the list of components, each component, its points / limbs / colours lists, the body, and the data, mask
   and confidence buffers.  [cells_of s k] are the cells the k-th pose handed out is made of, [memo_cells s] those of the
   memoised header, [pose_at s k] what a caller reads through the k-th pose.
   After ANY history of reads, in-place edits (of any cell reachable from any pose handed out) and copies:
   a read returns a new Pose object holding exactly the pose a fresh process reads; *)
Theorem C06_graph_history_independent :
  forall legacy ops buffer a,
    let s := run_g legacy ginit ops in
    let r := read_g legacy s buffer a in
    match fst (read_bytes legacy None buffer a) with
    | Ok p => exists ap, fst r = Ok ap /\ pose_at (snd r) (length (ghanded s)) = Some p
    | Err e => fst r = Err e
    end.
Proof. exact history_independent_g. Qed.
Print Assumptions C06_graph_history_independent.
(* no cell belongs to two poses handed out (by reads or by copy()), nor to a pose and the memo; *)
Theorem C06_graph_no_sharing :
  forall legacy ops, let s := run_g legacy ginit ops in
    (forall i j x, i <> j -> In x (cells_of s i) -> ~ In x (cells_of s j)) /\
    (forall j x, In x (memo_cells s) -> ~ In x (cells_of s j)).
Proof. exact reachable_no_sharing. Qed.
Print Assumptions C06_graph_no_sharing.
(* an in-place edit through one pose leaves every other pose handed out - value and cells - and what the memo holds untouched,
   and does not change which cells the edited pose is made of; *)
Theorem C06_graph_edit_is_local :
  forall legacy s k path g, GInv s ->
    let s' := fst (step_g legacy s (GEdit k path g)) in
    (forall j, j <> k -> pose_at s' j = pose_at s j /\ cells_of s' j = cells_of s j) /\
    memo_view_g s' = memo_view_g s /\ memo_cells s' = memo_cells s /\ cells_of s' k = cells_of s k.
Proof. exact edit_is_local. Qed.
Print Assumptions C06_graph_edit_is_local.
(* so do the structural edits - a newly built object (PoseHeaderDimensions(..), a new mask or coordinate array, a new list)
   assigned to an attribute, or the last element popped from a list such as header.components; *)
Theorem C06_graph_structural_edit_is_local :
  forall legacy s o, GInv s ->
    match o with GAssign _ _ _ _ | GPop _ _ => True | _ => False end ->
    let k := match o with GAssign k _ _ _ | GPop k _ => k | _ => 0%nat end in
    let s' := fst (step_g legacy s o) in
    (forall j, j <> k -> pose_at s' j = pose_at s j /\ cells_of s' j = cells_of s j) /\
    memo_view_g s' = memo_view_g s /\ memo_cells s' = memo_cells s.
Proof. exact structural_edit_is_local. Qed.
Print Assumptions C06_graph_structural_edit_is_local.
(* a read leaves every pose handed out before as it was; *)
Theorem C06_graph_read_keeps_others :
  forall legacy s buffer a, GInv s -> forall j, (j < length (ghanded s))%nat ->
    pose_at (snd (read_g legacy s buffer a)) j = pose_at s j /\ cells_of (snd (read_g legacy s buffer a)) j = cells_of s j.
Proof. exact read_g_keeps_others. Qed.
Print Assumptions C06_graph_read_keeps_others.
(* copy() hands out a new Pose object with the source's header, values and confidences and the mask re-derived as the body
   constructor does - equal to the source whenever the source marks its zero-confidence points missing
   (C06_graph_copy_consistent) - its cells disjoint from its source's by C06_graph_no_sharing, and leaves every other pose as it was; *)
Theorem C06_graph_copy_is_equal :
  forall legacy s k root, GInv s -> nth_error (ghanded s) k = Some root ->
    let s' := fst (step_g legacy s (GCopy k)) in
    ghanded s' = ghanded s ++ [length (gheap s') - 1]%nat /\ pose_at s' (length (ghanded s)) = option_map copy_pose (pose_at s k) /\
    (forall j, (j < length (ghanded s))%nat -> pose_at s' j = pose_at s j /\ cells_of s' j = cells_of s j).
Proof. exact copy_is_equal. Qed.
Print Assumptions C06_graph_copy_is_equal.
Theorem C06_graph_copy_consistent :
  forall p, or_maskb (b_mask (p_body p)) (b_conf (p_body p)) = b_mask (p_body p) -> copy_pose p = p.
Proof. exact copy_pose_consistent. Qed.
Print Assumptions C06_graph_copy_consistent.
(* the invariant behind them holds in every reachable state, and the extracted runner threads exactly these states. *)
Theorem C06_graph_invariant_reachable : forall legacy ops, GInv (run_g legacy ginit ops).
Proof. exact (fun legacy ops => ginv_run legacy ops ginit ginv_init). Qed.
Print Assumptions C06_graph_invariant_reachable.
Theorem C06_graph_runner_states : forall legacy ops s, snd (run_flags legacy s ops) = run_g legacy s ops.
Proof. exact run_flags_state. Qed.
Print Assumptions C06_graph_runner_states.
Theorem C06_graph_example :
  let s := run_g no_legacy ginit ex_ghistory in
  length (ghanded s) = 3%nat /\
  option_map (fun p => h_dims (p_header p)) (pose_at s 0) = Some (1, 2, 3) /\
  option_map (fun p => h_dims (p_header p)) (pose_at s 1) = Some (1, 2, 3) /\
  pose_at s 2 = match fst (read_bytes no_legacy None ex_file no_args) with Ok p => Some p | Err _ => None end /\
  pose_at s 2 <> None /\ pose_at s 2 <> pose_at s 0 /\
  (length (cells_of s 0) = length (cells_of s 1) /\ length (cells_of s 1) = length (cells_of s 2) /\ (10 <= length (cells_of s 2))%nat) /\
  NoDup (memo_cells s ++ cells_of s 0 ++ cells_of s 1 ++ cells_of s 2).
Proof. exact ex_ghistory_runs. Qed.
Print Assumptions C06_graph_example.
Theorem C06_graph_example_structural :
  let s := run_g no_legacy ginit ex_ghistory2 in
  length (ghanded s) = 3%nat /\
  option_map (fun p => (h_dims (p_header p), length (h_comps (p_header p)))) (pose_at s 0) = Some ((9, 9, 9), 1%nat) /\
  option_map (fun p => (h_dims (p_header p), length (h_comps (p_header p)))) (pose_at s 1) = Some ((9, 9, 9), 1%nat) /\
  pose_at s 2 = match fst (read_bytes no_legacy None ex_file no_args) with Ok p => Some p | Err _ => None end /\
  option_map (fun p => length (h_comps (p_header p))) (pose_at s 2) = Some 2%nat /\
  NoDup (memo_cells s ++ cells_of s 0 ++ cells_of s 1 ++ cells_of s 2).
Proof. exact ex_ghistory2_runs. Qed.
Print Assumptions C06_graph_example_structural.

(* Streams at the object-graph level.  [GReadS file a] is Pose.read of a seekable stream (BytesIOReader when a window is asked
   for).  After ANY history - byte reads, stream reads, in-place and structural edits, copies - a windowed stream read hands out a
   new Pose object holding the pose the same read returns in a fresh process (or raises where that one raises); earlier results
   keep their values and cells; the invariant (hence no sharing) holds in every reachable state including those reached through
   stream reads (C06_graph_invariant_reachable quantifies over all six kinds of operation). *)
Theorem C06_graph_stream_history_independent :
  forall legacy ops file a, any_arg a = true -> (forall h, v2prog (read_body legacy h a)) ->
    let s := run_g legacy ginit ops in
    let r := read_gs legacy s file a in
    match fst (fst (read_stream legacy None file a)) with
    | Ok p => exists ap, fst r = Ok ap /\ pose_at (snd r) (length (ghanded s)) = Some p
    | Err _ => exists e, fst r = Err e
    end.
Proof. exact history_independent_gs. Qed.
Print Assumptions C06_graph_stream_history_independent.
Theorem C06_graph_stream_read_keeps_others :
  forall legacy s file a, GInv s -> forall j, (j < length (ghanded s))%nat ->
    pose_at (snd (read_gs legacy s file a)) j = pose_at s j /\ cells_of (snd (read_gs legacy s file a)) j = cells_of s j.
Proof. exact read_gs_keeps_others. Qed.
Print Assumptions C06_graph_stream_read_keeps_others.
Theorem C06_graph_example_stream :
  let s := run_g no_legacy ginit ex_ghistory3 in
  length (ghanded s) = 3%nat /\
  option_map (fun p => h_dims (p_header p)) (pose_at s 0) = Some (1, 2, 3) /\
  pose_at s 1 = match fst (fst (read_stream no_legacy None ex_file ex_win)) with Ok p => Some p | Err _ => None end /\
  pose_at s 1 <> None /\ pose_at s 1 <> pose_at s 0 /\
  pose_at s 2 = match fst (read_bytes no_legacy None ex_file no_args) with Ok p => Some p | Err _ => None end /\
  NoDup (memo_cells s ++ cells_of s 0 ++ cells_of s 1 ++ cells_of s 2).
Proof. exact ex_ghistory3_runs. Qed.
Print Assumptions C06_graph_example_stream.

(* Value level, full strength: a windowed stream read of ANY byte string under ANY sound memo returns what it returns in a fresh
   process (same pose, or both raise) - this replaces the partial statement below, which is kept for its exact error-free form *)
Theorem C06_stream_windowed :
  forall legacy m q a, MemoOK m -> any_arg a = true -> (forall h, v2prog (read_body legacy h a)) ->
    same_outcome (fst (fst (read_stream legacy m q a))) (fst (fst (read_stream legacy None q a))).
Proof. exact read_stream_memo_independent. Qed.
Print Assumptions C06_stream_windowed.
Theorem C06_stream_memo_stays_sound :
  forall legacy m q a, MemoOK m -> MemoOK (snd (fst (read_stream legacy m q a))).
Proof. exact read_stream_memo_ok. Qed.
Print Assumptions C06_stream_memo_stays_sound.

(* streams (partial: the windowed clause covers reads whose bytes result is Ok and v0.2 bodies) *)
Theorem C06_stream_windowed_partial :
  forall legacy m q a pose, MemoOK m -> any_arg a = true ->
    (forall h r, run_plain rd_header {| pbuf := q; poff := 0 |} = Ok (h, r) -> v2prog (read_body legacy h a)) ->
    fst (read_bytes legacy None q a) = Ok pose ->
    fst (fst (read_stream legacy m q a)) = Ok pose.
Proof. exact stream_read_memo_independent. Qed.
Print Assumptions C06_stream_windowed_partial.
Theorem C06_stream_full :
  forall legacy m q a, MemoOK m -> any_arg a = false ->
    fst (fst (read_stream legacy m q a)) = fst (read_bytes legacy None q a).
Proof. exact stream_read_noargs_memo_independent. Qed.
Print Assumptions C06_stream_full.

(* non-vacuity: read, rename the result's component, copy it, read again: the second read is not renamed *)
Theorem C06_example_history :
  let s := run_h no_legacy hinit ex_history in
  handed s = [0; 2; 3]%nat /\ length (heap s) = 4%nat /\
  deref s 0%nat dummy_header <> deref s 3%nat dummy_header /\
  exists c, hmem s = Some c /\ hm_addr c = 1%nat.
Proof. exact ex_history_runs. Qed.
Print Assumptions C06_example_history.

(* ties: the deep copies the model relies on are in the source *)
Theorem C06_tie_header_read : Gen_Codec.header_read = exp_header_read.
Proof. exact header_read_tie. Qed.
Print Assumptions C06_tie_header_read.
Theorem C06_tie_set_cache : Gen_Codec.cache_set_cache = exp_cache_set_cache.
Proof. exact cache_set_cache_tie. Qed.
Print Assumptions C06_tie_set_cache.
Theorem C06_tie_check_cache : Gen_Codec.cache_check_cache = exp_cache_check_cache.
Proof. exact cache_check_cache_tie. Qed.
Print Assumptions C06_tie_check_cache.
Theorem C06_tie_calc_hash : Gen_Codec.cache_calc_hash = exp_cache_calc_hash.
Proof. exact cache_calc_hash_tie. Qed.
Print Assumptions C06_tie_calc_hash.
Theorem C06_tie_pose_copy : Gen_Codec.pose_copy = exp_pose_copy.
Proof. exact pose_copy_tie. Qed.
Print Assumptions C06_tie_pose_copy.
Theorem C06_tie_numpy_body_copy : Gen_Codec.numpy_body_copy = exp_numpy_body_copy.
Proof. exact numpy_body_copy_tie. Qed.
Print Assumptions C06_tie_numpy_body_copy.
Theorem C06_tie_pose_read : Gen_Codec.pose_read = exp_pose_read.
Proof. exact pose_read_tie. Qed.
Print Assumptions C06_tie_pose_read.
