Require Import Codec.
Theorem placeholder : True. Proof. exact I. Qed.
Print Assumptions placeholder.
