Require Import C09_Run.
Theorem placeholder : True. Proof. exact I. Qed.
Print Assumptions placeholder.
