Require Import String List Arith Bool ZArith PrimFloat.
Require Import Tensor Num Result C09_Masked C09_Ops C09_TfNorm C09_Facts C09_Src C09_Run C09_Core C09_NI C09_NI2 C09_NI3 C09_GenTie C09_Examples Gen_C09.
Import ListNotations.
(* C09 - missing points never influence results.  Bodies are pairs (values, mask) whose values under the mask are
   arbitrary (nan, +-inf included); [agree_body b b'] says b and b' have the same confidences, the same missing pattern
   and the same values at non-missing points.  Every theorem holds for every numeric instance O (reals, binary64) and
   every choice E of the external numerics (fill values, float32 cast, atan/acos, the scipy interpolant): no law of the
   arithmetic is used, so rounding, overflow and nan propagation are covered. *)

(* two fillings of the missing slots of one pose agree - on every backend *)
Theorem two_fillings_agree : forall (O : ops) (raw raw' conf : tensor (T O)), same_pose O raw raw' conf ->
  agree_body O (np_ctor O (of_plain O raw) conf) (np_ctor O (of_plain O raw') conf) /\
  agree_body O (t_ctor_plain O raw conf) (t_ctor_plain O raw' conf).
Proof. exact (fun O raw raw' conf H => conj (same_pose_np O raw raw' conf H) (same_pose_t O raw raw' conf H)). Qed.
Print Assumptions two_fillings_agree.
Example two_fillings_agree_nonvacuous : same_pose F_ops ex_raw ex_raw' ex_conf /\ bdat ex_np <> bdat ex_np'.
Proof. exact (conj ex_same_pose ex_differ). Qed.
Print Assumptions two_fillings_agree_nonvacuous.
Example agree_nonvacuous : agree_body F_ops ex_np ex_np' /\ agree_body F_ops ex_t ex_t' /\ agree F_ops ex_p ex_p'.
Proof. exact (conj ex_agree_np (conj ex_agree_t ex_agree_p)). Qed.
Print Assumptions agree_nonvacuous.

(* selection: points (get_components -> get_points) and frames, NumPy / Torch / TensorFlow *)
Theorem selection_noninterference : forall (O : ops) (idx : list nat) (b b' : body O), agree_body O b b' ->
  vres O (np_get_points O idx b) = vres O (np_get_points O idx b') /\
  vres O (t_get_points O idx b) = vres O (t_get_points O idx b') /\
  vres O (np_select_frames O idx b) = vres O (np_select_frames O idx b') /\
  vres O (t_select_frames O idx b) = vres O (t_select_frames O idx b') /\
  vres O (tf_select_frames O idx b) = vres O (tf_select_frames O idx b') /\
  (forall int_cast : bool, vres O (tf_get_points O int_cast idx b) = vres O (tf_get_points O int_cast idx b')).
Proof. exact (fun O idx b b' H => conj (np_get_points_ni O idx b b' H) (conj (t_get_points_ni O idx b b' H)
  (conj (np_select_frames_ni O idx b b' H) (conj (t_select_frames_ni O idx b b' H)
  (conj (tf_select_frames_ni O idx b b' H) (fun ic => tf_get_points_ni O ic idx b b' H)))))). Qed.
Print Assumptions selection_noninterference.

(* normalisation: Pose.normalize, normalize_distribution (with the returned mu, std), unnormalize_distribution *)
Theorem normalize_noninterference : forall (O : ops) (E : ext O) (p1 p2 : nat) (scale_factor : T O) (b b' : body O),
  agree_body O b b' -> agree_body O (np_normalize O E p1 p2 scale_factor b) (np_normalize O E p1 p2 scale_factor b').
Proof. exact np_normalize_ni. Qed.
Print Assumptions normalize_noninterference.
Theorem normalize_distribution_noninterference : forall (O : ops) (E : ext O) (lead : nat) (b b' : body O), agree_body O b b' ->
  agree_body O (fst (np_normalize_distribution O E lead b)) (fst (np_normalize_distribution O E lead b')) /\
  snd (np_normalize_distribution O E lead b) = snd (np_normalize_distribution O E lead b').
Proof. exact np_normalize_distribution_ni. Qed.
Print Assumptions normalize_distribution_noninterference.
Theorem unnormalize_distribution_noninterference : forall (O : ops) (mu sd : list (T O)) (b b' : body O), agree_body O b b' ->
  agree_body O (np_unnormalize_distribution O mu sd b) (np_unnormalize_distribution O mu sd b').
Proof. exact np_unnormalize_distribution_ni. Qed.
Print Assumptions unnormalize_distribution_noninterference.
Example normalize_nonvacuous :
  visible_body F_ops (np_normalize F_ops FE 0 0 1%float ex_np) = visible_body F_ops (np_normalize F_ops FE 0 0 1%float ex_np').
Proof. exact ex_normalize_runs. Qed.
Print Assumptions normalize_nonvacuous.

(* normalisation on a TensorFlow body (Pose.normalize / normalize_distribution go through MaskedTensor.mean / variance / std,
   arithmetic between masked tensors and utils.fast_math.distance_batch; Torch bodies do not offer them), and
   unnormalize_distribution on Torch / TensorFlow bodies, with plain and with masked (mu, std) *)
Theorem masked_tensor_statistics_noninterference : forall (O : ops) (l l' : list (cell O)), agree_l O l l' ->
  tfmean O l = tfmean O l' /\ tfvariance O l = tfvariance O l' /\ tfstd O l = tfstd O l'.
Proof. exact (fun O l l' H => conj (VIL_tfmean O l l' H) (conj (VIL_tfvariance O l l' H) (VIL_tfstd O l l' H))). Qed.
Print Assumptions masked_tensor_statistics_noninterference.
Theorem masked_tensor_statistics_missing_iff_no_valid_cell : forall (O : ops) (l : list (cell O)),
  snd (tfmean O l) = Nat.eqb (count O l) 0 /\ snd (tfstd O l) = Nat.eqb (count O l) 0.
Proof. exact (fun O l => conj (tfmean_missing O l) (tfstd_missing O l)). Qed.
Print Assumptions masked_tensor_statistics_missing_iff_no_valid_cell.
Theorem normalize_noninterference_tensorflow : forall (O : ops) (p1 p2 : nat) (scale_factor : T O) (b b' : body O),
  agree_body O b b' -> agree_body O (tf_normalize O p1 p2 scale_factor b) (tf_normalize O p1 p2 scale_factor b').
Proof. exact tf_normalize_ni. Qed.
Print Assumptions normalize_noninterference_tensorflow.
Theorem normalize_distribution_noninterference_tensorflow : forall (O : ops) (lead : nat) (b b' : body O), agree_body O b b' ->
  agree_body O (fst (tf_normalize_distribution O lead b)) (fst (tf_normalize_distribution O lead b')) /\
  snd (tf_normalize_distribution O lead b) = snd (tf_normalize_distribution O lead b').
Proof. exact tf_normalize_distribution_ni. Qed.
Print Assumptions normalize_distribution_noninterference_tensorflow.
Theorem unnormalize_distribution_noninterference_masked_tensor : forall (O : ops) (b b' : body O), agree_body O b b' ->
  (forall mu sd : list (T O), agree_body O (t_unnormalize_distribution O mu sd b) (t_unnormalize_distribution O mu sd b')) /\
  (forall mu mu' sd sd' : list (cell O), agree_l O mu mu' -> agree_l O sd sd' ->
     agree_body O (t_unnormalize_distribution_masked O mu sd b) (t_unnormalize_distribution_masked O mu' sd' b')).
Proof. exact (fun O b b' H => conj (fun mu sd => t_unnormalize_distribution_ni O mu sd b b' H)
  (fun mu mu' sd sd' Hm Hs => t_unnormalize_distribution_masked_ni O mu mu' sd sd' b b' Hm Hs H)). Qed.
Print Assumptions unnormalize_distribution_noninterference_masked_tensor.
Example normalize_tensorflow_nonvacuous :
  bdat ex_t <> bdat ex_t' /\
  visible_body F_ops (tf_normalize F_ops 0 0 1%float ex_t) = visible_body F_ops (tf_normalize F_ops 0 0 1%float ex_t') /\
  visible_body F_ops (fst (tf_normalize_distribution F_ops 2 ex_t)) = visible_body F_ops (fst (tf_normalize_distribution F_ops 2 ex_t')).
Proof. exact ex_tf_normalize_runs. Qed.
Print Assumptions normalize_tensorflow_nonvacuous.

(* linear transforms: flip; matmul with any matrix (augment2d = matmul with the drawn matrix, for every draw) *)
Theorem flip_noninterference : forall (O : ops) (axis : nat) (b b' : body O), agree_body O b b' ->
  agree_body O (np_flip O axis b) (np_flip O axis b').
Proof. exact np_flip_ni. Qed.
Print Assumptions flip_noninterference.
Theorem matmul_noninterference_numpy : forall (O : ops) (E' : nat) (M : list (T O)) (b b' : body O), agree_body O b b' ->
  agree_body O (np_matmul O E' M b) (np_matmul O E' M b').
Proof. exact np_matmul_ni. Qed.
Print Assumptions matmul_noninterference_numpy.
(* Torch / TensorFlow multiply the stored values; a result row is valid only if every coordinate of the point is *)
Theorem matmul_noninterference_masked_tensor : forall (O : ops) (E' : nat) (M : list (T O)) (b b' : body O), agree_body O b b' ->
  agree_body O (t_matmul O E' M b) (t_matmul O E' M b').
Proof. exact t_matmul_ni. Qed.
Print Assumptions matmul_noninterference_masked_tensor.

(* interpolation, for every interpolant (linear / quadratic / cubic are instances of E.interp), every new frame count and
   both defaults of first_step_index *)
Theorem interpolate_noninterference : forall (O : ops) (E : ext O) (dflt_len : bool) (kind NF : nat) (b b' : body O), agree_body O b b' ->
  vres O (np_interpolate O E dflt_len kind NF b) = vres O (np_interpolate O E dflt_len kind NF b').
Proof. exact np_interpolate_ni. Qed.
Print Assumptions interpolate_noninterference.

(* bounding boxes and focus (focus: the body and the new header dimensions) *)
Theorem bbox_noninterference : forall (O : ops) (E : ext O) (comps : list nat) (b b' : body O), agree_body O b b' ->
  vres O (np_bbox O E comps b) = vres O (np_bbox O E comps b').
Proof. exact np_bbox_ni. Qed.
Print Assumptions bbox_noninterference.
Theorem focus_noninterference : forall (O : ops) (E : ext O) (b b' : body O), agree_body O b b' ->
  vfocus O (np_focus O E b) = vfocus O (np_focus O E b').
Proof. exact np_focus_ni. Qed.
Print Assumptions focus_noninterference.

(* zero-filling: non-interference, and exactly 0 at every missing slot on every backend *)
Theorem zero_filled_noninterference : forall (O : ops) (b b' : body O), agree_body O b b' ->
  agree_body O (np_zero_filled O b) (np_zero_filled O b') /\ t_zero_filled O b = t_zero_filled O b'.
Proof. exact (fun O b b' H => conj (np_zero_filled_ni O b b' H) (t_zero_filled_ni O b b' H)). Qed.
Print Assumptions zero_filled_noninterference.
Theorem zero_fill_exact : forall (O : ops) (b : body O) (k : nat), k < length (data (bdat b)) ->
  (snd (rd O (data (bdat b)) k) = true -> rdT O (data (t_zero_filled O b)) k = zero O) /\
  (snd (rd O (data (bdat (np_zero_filled O b))) k) = true -> fst (rd O (data (bdat (np_zero_filled O b))) k) = zero O).
Proof. exact (fun O b k Hk => conj (fun Hm => t_zero_fill_exact O b k Hm Hk) (fun Hm => np_zero_fill_exact O b k Hm Hk)). Qed.
Print Assumptions zero_fill_exact.
(* ... stated on the zero_filled rule regenerated from torch/masked/tensor.py and tensorflow/masked/tensor.py *)
Theorem zero_fill_exact_source_rule : forall (O : ops) (c : cell O), snd c = true ->
  zf_sem O Gen_C09.torch_zero_filled c = zero O /\ zf_sem O Gen_C09.tf_zero_filled c = zero O.
Proof. exact zero_fill_exact_gen. Qed.
Print Assumptions zero_fill_exact_source_rule.
Example zero_fill_nonvacuous : snd (nan, true) = true.
Proof. exact ex_masked_cell. Qed.
Print Assumptions zero_fill_nonvacuous.
(* the rule the source had before the repair of F9 (value * mask) violates exactness: nan * 0 = nan *)
Theorem zero_fill_by_multiplication_refuted : exists c : cell F_ops, snd c = true /\ zf_sem F_ops ZF_mul c <> zero F_ops.
Proof. exact zero_fill_mul_refuted. Qed.
Print Assumptions zero_fill_by_multiplication_refuted.

(* serialisation round trip.  The file keeps the stored values and the confidences, not the mask (byte level: C01), so the
   claim needs the class invariant "masked => confidence 0" (C12; established by the constructor) - partial in that sense *)
Theorem roundtrip_noninterference_partial : forall (O : ops) (E : ext O) (b b' : body O),
  (forall x, is0 O x = true -> is0 O (cast32 E x) = true) ->
  wf_body O b -> mask_le_conf O b -> mask_le_conf O b' -> agree_body O b b' ->
  agree_body O (np_roundtrip O E b) (np_roundtrip O E b').
Proof. exact np_roundtrip_ni. Qed.
Print Assumptions roundtrip_noninterference_partial.
Theorem constructor_establishes_invariant : forall (O : ops) (raw conf : tensor (T O)),
  mask_le_conf O (np_ctor O (of_plain O raw) conf).
Proof. exact np_ctor_plain_inv. Qed.
Print Assumptions constructor_establishes_invariant.
Example roundtrip_nonvacuous :
  (forall x, is0 F_ops x = true -> is0 F_ops (cast32 FE x) = true) /\ wf_body F_ops ex_np /\
  mask_le_conf F_ops ex_np /\ mask_le_conf F_ops ex_np'.
Proof. exact ex_roundtrip_hyps. Qed.
Print Assumptions roundtrip_nonvacuous.

(* feature representations: NumPy distance; Torch distance, angle, inner angle, point-line distance, points *)
Theorem representations_noninterference : forall (O : ops) (E : ext O) (p1 p1' p2 p2' p3 p3' : marr O),
  agree O p1 p1' -> agree O p2 p2' -> agree O p3 p3' ->
  np_rep_distance O E p1 p2 = np_rep_distance O E p1' p2' /\
  t_rep_distance O p1 p2 = t_rep_distance O p1' p2' /\
  t_rep_angle O E p1 p2 = t_rep_angle O E p1' p2' /\
  t_rep_inner_angle O E p1 p2 p3 = t_rep_inner_angle O E p1' p2' p3' /\
  t_rep_point_line O p1 p2 p3 = t_rep_point_line O p1' p2' p3' /\
  t_rep_points O p1 = t_rep_points O p1'.
Proof. exact (fun O E p1 p1' p2 p2' p3 p3' H1 H2 H3 =>
  conj (np_rep_distance_ni O E p1 p1' p2 p2' H1 H2) (conj (t_rep_distance_ni O p1 p1' p2 p2' H1 H2)
  (conj (t_rep_angle_ni O E p1 p1' p2 p2' H1 H2) (conj (t_rep_inner_angle_ni O E p1 p1' p2 p2' p3 p3' H1 H2 H3)
  (conj (t_rep_point_line_ni O p1 p1' p2 p2' p3 p3' H1 H2 H3) (t_rep_points_ni O p1 p1' H1)))))). Qed.
Print Assumptions representations_noninterference.

(* ties: facts regenerated from the source on this run = what the model was written from *)
Theorem tie_axes : Gen_C09.points_dims = POINTS_DIMS /\
  Gen_C09.np_conf_reshape = CONF_RESHAPE /\ Gen_C09.torch_conf_reshape = CONF_RESHAPE /\ Gen_C09.tf_conf_reshape = CONF_RESHAPE.
Proof. exact (conj points_dims_tie conf_reshape_tie). Qed.
Print Assumptions tie_axes.
Theorem tie_constructor_rules : (forall (O : ops) (c : T O),
  missing_sem O Gen_C09.np_mask_rule false c = is0 O c /\
  missing_sem O Gen_C09.torch_mask_rule true c = is0 O c /\ missing_sem O Gen_C09.tf_mask_rule true c = is0 O c) /\
  (Gen_C09.np_stack = StackLastDim /\ Gen_C09.torch_stack = StackLastDim /\ Gen_C09.tf_stack = StackLastDim).
Proof. exact (conj ctor_rule_tie ctor_stack_tie). Qed.
Print Assumptions tie_constructor_rules.
Theorem tie_zero_filled : forall O : ops, zf_sem O Gen_C09.torch_zero_filled = tzero O /\ zf_sem O Gen_C09.tf_zero_filled = tzero O.
Proof. exact zero_filled_tie. Qed.
Print Assumptions tie_zero_filled.
Theorem tie_mask_rules : (Gen_C09.torch_arith_mask = MAnd /\ Gen_C09.tf_arith_mask = MAnd /\
  Gen_C09.torch_sum_mask = MProd /\ Gen_C09.tf_sum_mask = MProd /\
  Gen_C09.torch_matmul_mask = MProd /\ Gen_C09.tf_matmul_mask = MProd) /\
  forallb (fun s => existsb (String.eqb s) Gen_C09.torch_whitelist) ["sqrt"; "square"; "acos"]%string = true /\
  (Gen_C09.np_fill_const = 0%Z /\ Gen_C09.flip_const = (-1)%Z).
Proof. exact (conj mask_rules_tie (conj whitelist_tie constants_tie)). Qed.
Print Assumptions tie_mask_rules.
Theorem tie_representations_end_in_zero_filled : Gen_C09.torch_rep_zero_filled =
  [("distance", true); ("angle", true); ("inner_angle", true); ("point_line_distance", true); ("points", true)]%string.
Proof. exact rep_zero_filled_tie. Qed.
Print Assumptions tie_representations_end_in_zero_filled.
Theorem tie_sources :
  Gen_C09.src_torch_masked_tensor_MaskedTensor = C09_Src.torch_masked_tensor_MaskedTensor /\
  Gen_C09.src_tensorflow_masked_tensor_MaskedTensor = C09_Src.tensorflow_masked_tensor_MaskedTensor /\
  Gen_C09.src_torch_pose_body_TorchPoseBody = C09_Src.torch_pose_body_TorchPoseBody /\
  Gen_C09.src_tensorflow_pose_body_TensorflowPoseBody = C09_Src.tensorflow_pose_body_TensorflowPoseBody /\
  Gen_C09.src_numpy_pose_body_NumPyPoseBody = C09_Src.numpy_pose_body_NumPyPoseBody /\
  Gen_C09.src_numpy_representation_distance_DistanceRepresentation = C09_Src.numpy_representation_distance_DistanceRepresentation /\
  Gen_C09.src_torch_representation_distance_DistanceRepresentation = C09_Src.torch_representation_distance_DistanceRepresentation /\
  Gen_C09.src_torch_representation_angle_AngleRepresentation = C09_Src.torch_representation_angle_AngleRepresentation /\
  Gen_C09.src_torch_representation_inner_angle_InnerAngleRepresentation = C09_Src.torch_representation_inner_angle_InnerAngleRepresentation /\
  Gen_C09.src_torch_representation_point_line_distance_PointLineDistanceRepresentation = C09_Src.torch_representation_point_line_distance_PointLineDistanceRepresentation /\
  Gen_C09.src_torch_representation_points_PointsRepresentation = C09_Src.torch_representation_points_PointsRepresentation /\
  Gen_C09.src_utils_fast_math = C09_Src.utils_fast_math.
Proof. exact sources_tie. Qed.
Print Assumptions tie_sources.
(* the statement lists model/C09_TfNorm.v transcribes, spelled out: MaskedTensor.mean / variance / std / fix_nan of
   tensorflow/masked/tensor.py and utils/fast_math.py distance_batch, as regenerated from the source on this run *)
Theorem tie_tf_statistics :
  src_of "mean" Gen_C09.src_tensorflow_masked_tensor_MaskedTensor =
    ["mt_sum = tf.math.reduce_sum(self.zero_filled(), axis=axis, keepdims=keepdims)"; "mt_count = tf.math.reduce_sum(tf.cast(self.mask, mt_sum.dtype), axis=axis, keepdims=keepdims)"; "tensor = tf.math.divide(mt_sum, mt_count)"; "mask = tf.cast(mt_count, tf.bool)"; "mt = MaskedTensor(tensor=tensor, mask=mask)"; "return mt.fix_nan()"] /\
  src_of "variance" Gen_C09.src_tensorflow_masked_tensor_MaskedTensor =
    ["means = self.mean(axis=axis, keepdims=True)"; "diff = self - means"; "squared_deviations = diff.square()"; "return squared_deviations.mean(axis=axis)"] /\
  src_of "std" Gen_C09.src_tensorflow_masked_tensor_MaskedTensor =
    ["variance = self.variance(axis=axis)"; "return variance.sqrt()"] /\
  src_of "fix_nan" Gen_C09.src_tensorflow_masked_tensor_MaskedTensor =
    ["self.tensor = tf.where(tf.math.is_finite(self.tensor), self.tensor, tf.zeros_like(self.tensor))"; "return self"] /\
  src_of "distance_batch" Gen_C09.src_utils_fast_math =
    ["squared = (p1s - p2s) ** 2"; "summed = squared.sum(axis=-1)"; "return summed ** 0.5"].
Proof. exact tf_statistics_tie. Qed.
Print Assumptions tie_tf_statistics.
