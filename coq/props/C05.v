(* C05 - the JavaScript reader (src/js/pose_format/src/parser.ts) and the Python reader agree on every file.
   Only statements, closed by [exact], each followed by Print Assumptions.

   [parse_pose] is the Gallina model of parsePose running against binary-parser (model/C05_JsParser.v); [full_read_prog] /
   [rd_header] are the Python reader of C01 (model/Codec.v, proofs/CodecRT.v: Pose.read of written bytes returns [canon p]).
   Hypotheses that are the property's own quantifier: the file was written by Pose.write ([write_pose p = Ok bs], arrays
   as large as their shapes, at least one coordinate dimension) or by the reference encoders.
   Hypotheses that RESTRICT the claim (each with a witness below showing the readers really differ outside it):
     - [wcomp_plain]: no component / format / point name starts with U+FEFF (binary-parser decodes strings with
       TextDecoder, which drops a leading byte-order mark - js_bom_refuted), format letters are in the BMP;
     - access by name: the component's name is not reused by a later component, the letter not by a later position of
       the format (an object keeps one value per key - js_duplicate_names_example);
     - the coordinate letter at position d of a format names Python's coordinate number [coord_index format d] (the number
       of coordinate letters before it): after fix F5 the JavaScript counter advances on coordinate letters only, so this
       holds for every letter order (C05_js_format_cxy_example); it must index an existing coordinate
       ([coord_index format d < D], D = max format length - 1, relevant for mixed-length formats only). *)
From Coq Require Import ZArith NArith List String.
Require Import ListN Result Bytes Prog Tensor Codec CodecRT
  C05_JsParser C05_Spec C05_View C05_Header C05_HeaderView C05_Body C05_Index C05_Cells C05_Main C05_V01 C05_V00
  C05_GenTie C05_Examples C01_Examples.
Require Import CodecGenTie.
Import ListNotations.
Open Scope list_scope.
Open Scope nat_scope.

(* ---------- header: version, dimensions, every component's name / format / point names / limbs / colours, header length ---------- *)
(* On the bytes [h] of any header Pose.write produces (whatever follows them), the Python header reader returns [hd] and
   stops at offset |h|; the JavaScript header object read field by field ([header_view]) is that same [hd], and its
   headerLength is |h|. *)
Theorem C05_js_header_eq :
  forall dims comps h r, write_header dims comps = Ok h -> Forall wcomp_no_bom comps ->
  exists hd,
    run_plain rd_header {| pbuf := h ++ r; poff := 0 |} = Ok (hd, {| pbuf := h ++ r; poff := lenN h |}) /\
    exists o, parse header_schema (h ++ r) = Some o /\ header_view o = Some (hd, lenN h).
Proof. exact js_header_eq. Qed.
Print Assumptions C05_js_header_eq.
(* the same for a header carrying any version float (v0.0 / v0.1 files): the complete JavaScript object *)
Theorem C05_js_header_any_version :
  forall v dims comps h r, (v < 4294967296)%N -> write_header dims comps = Ok h ->
  parse header_schema (with_version v h ++ r) = Some (js_header_obj (header_of_v v dims comps) (lenN h)) /\
  lenN (with_version v h) = lenN h.
Proof. exact js_header_obj_eq_v. Qed.
Print Assumptions C05_js_header_any_version.

(* ---------- v0.2 body metadata: fps, frame count, people count ---------- *)
Theorem C05_js_body_info_eq :
  forall p bs, write_pose p = Ok bs -> wf_arrays p -> (1 <= nth 3 (w_shape p) 0)%N -> Forall wcomp_plain (w_comps p) ->
  exists py jp,
    run_plain full_read_prog {| pbuf := bs; poff := 0 |} = Ok (py, {| pbuf := bs; poff := lenN bs |}) /\
    parse_pose bs = Some jp /\
    forall F P T D, b_shape (p_body py) = [F; P; T; D]%N ->
      info_view_v02 (jp_info jp) = Some (b_fps (p_body py), F, P) /\ jp_nframes jp = Z.of_N F.
Proof. exact js_body_info_eq. Qed.
Print Assumptions C05_js_body_info_eq.

(* ---------- v0.2: every frame, person, component, point: coordinates and confidence ---------- *)
(* frames[i].people[j][name of component n][l] : "C" is Python's confidence[i][j][offset n + l]; the coordinate letter at
   position d of the component's format is Python's data[i][j][offset n + l][coord_index format d] (row-major cells of the
   tensors Pose.read returns); for the usual formats ("XYC", "XYZC": no "C" before position d) coord_index format d = d. *)
Theorem C05_js_index_eq :
  forall p bs, write_pose p = Ok bs -> wf_arrays p -> (1 <= nth 3 (w_shape p) 0)%N -> Forall wcomp_plain (w_comps p) ->
  exists py jp,
    run_plain full_read_prog {| pbuf := bs; poff := 0 |} = Ok (py, {| pbuf := bs; poff := lenN bs |}) /\
    parse_pose bs = Some jp /\
    forall F P T D, nat_shape (p_body py) = [F; P; T; D] ->
    forall i j n l c, i < F -> j < P -> nth_error (h_comps (p_header py)) n = Some c -> l < List.length (c_points c) ->
      ~ In (c_name c) (map c_name (skipn (S n) (h_comps (p_header py)))) ->
      let t := point_offset (h_comps (p_header py)) n + l in
      js_cell (jp_frame jp (Z.of_nat i)) j (c_name c) l 67 = Some (VF32 (tget 0%N (py_conf (p_body py)) [i; j; t])) /\
      forall d x, nth_error (c_format c) d = Some x -> x <> 67%N -> coord_index (c_format c) d < D -> ~ In x (skipn (S d) (c_format c)) ->
        js_cell (jp_frame jp (Z.of_nat i)) j (c_name c) l x = Some (VF32 (tget 0%N (py_data (p_body py)) [i; j; t; coord_index (c_format c) d])).
Proof. exact js_index_eq. Qed.
Print Assumptions C05_js_index_eq.
Theorem C05_coord_index_plain_formats :
  forall fmt d, ~ In 67%N (firstn d fmt) -> d <= List.length fmt -> coord_index fmt d = d.
Proof. exact coord_index_no_C. Qed.
Print Assumptions C05_coord_index_plain_formats.
(* the index arithmetic on its own: parser.ts:151-156 is the row-major position *)
Theorem C05_js_stride_is_row_major :
  forall F P T D i j k l d : nat,
  js_data_index (js_place (js_offset (Z.of_nat i) (Z.of_nat P) (Z.of_nat T) (Z.of_nat j)) (Z.of_nat k) (Z.of_nat l)) (Z.of_nat D) (Z.of_nat d)
    = Z.of_nat (ravel [F; P; T; D] [i; j; k + l; d]) /\
  js_place (js_offset (Z.of_nat i) (Z.of_nat P) (Z.of_nat T) (Z.of_nat j)) (Z.of_nat k) (Z.of_nat l)
    = Z.of_nat (ravel [F; P; T] [i; j; k + l]).
Proof. exact (fun F P T D i j k l d => conj (js_data_index_ravel F P T D i j k l d) (js_place_ravel F P T i j k l)). Qed.
Print Assumptions C05_js_stride_is_row_major.

(* ---------- v0.1 (reference encoder of docs/specs/v0.1.md, frame counts that fit the 16-bit field) ---------- *)
(* parsePose reports the header, (fps, frames, people) and every cell of the two tensors the file was encoded from.
   That Pose.read returns the same content for these files is C04 (v01_decodes). *)
Theorem C05_js_v01_eq :
  forall q bs, spec_v01 q = Ok bs -> wf_lpose q -> Forall wcomp_plain (l_comps q) ->
  exists h jp, write_header (l_dims q) (l_comps q) = Ok h /\ parse_pose bs = Some jp /\
    header_view (jp_header jp) = Some (header_of_v v01_word (l_dims q) (l_comps q), lenN h) /\
    info_view_v01 (jp_info jp) = Some (l_fps q, l_F q, l_P q) /\ jp_nframes jp = Z.of_N (l_F q) /\
    let F := N.to_nat (l_F q) in let P := N.to_nat (l_P q) in let T := N.to_nat (l_T q) in let D := N.to_nat (l_D q) in
    forall i j n l c, i < F -> j < P -> nth_error (lcomps q) n = Some c -> l < List.length (c_points c) ->
      ~ In (c_name c) (map c_name (skipn (S n) (lcomps q))) ->
      let t := point_offset (lcomps q) n + l in
      js_cell (jp_frame jp (Z.of_nat i)) j (c_name c) l 67 = Some (VF32 (tget 0%N (mkT [F; P; T] (l_conf q)) [i; j; t])) /\
      forall d x, nth_error (c_format c) d = Some x -> x <> 67%N -> coord_index (c_format c) d < D -> ~ In x (skipn (S d) (c_format c)) ->
        js_cell (jp_frame jp (Z.of_nat i)) j (c_name c) l x = Some (VF32 (tget 0%N (mkT [F; P; T; D] (l_data q)) [i; j; t; coord_index (c_format c) d])).
Proof. exact js_v01_eq. Qed.
Print Assumptions C05_js_v01_eq.

(* ---------- v0.0 (reference encoder of docs/specs/v0.0.md): header, fps, frame count, and every person of every
   frame - in particular the first, which is all Pose.read keeps (C04 v00_decodes) ---------- *)
(* frames[i].people[j][component][l][letter at position d of the format] is the d-th float stored for that point
   (Python reads floats 0 .. len-2 as coordinates and the last one as confidence). *)
Theorem C05_js_v00_eq :
  forall q bs, spec_v00 q = Ok bs -> wf_lpose0 q -> Forall wcomp_plain (z_comps q) ->
  exists h jp, write_header (z_dims q) (z_comps q) = Ok h /\ parse_pose bs = Some jp /\
    header_view (jp_header jp) = Some (header_of_v 0 (z_dims q) (z_comps q), lenN h) /\
    vnum (obj_get (jp_info jp) k_fps) = Some (z_fps q) /\ jp_nframes jp = Z.of_nat (List.length (z_frames q)) /\
    forall i people j p, nth_error (z_frames q) i = Some people -> nth_error people j = Some p ->
      forall n c l d x, nth_error (zcomps q) n = Some c -> ~ In (c_name c) (map c_name (skipn (S n) (zcomps q))) ->
        l < List.length (c_points c) -> nth_error (c_format c) d = Some x -> ~ In x (skipn (S d) (c_format c)) ->
        js_cell (jp_frame jp (Z.of_nat i)) j (c_name c) l x = Some (VF32 (nth d (nth l (nth n (snd p) []) []) 0%N)).
Proof. exact js_v00_eq. Qed.
Print Assumptions C05_js_v00_eq.

(* ---------- version switch: the three version floats that are ever written take the branch Python takes ---------- *)
(* +0.0, -0.0, float32(0.1), float32(0.2).  (Other floats inside the 3-decimal tolerance are sampled by the correspondence
   check, not proved; JavaScript also treats 0 < |v| < 0.0005 as version 0 where Python refuses - no written file has it.) *)
Theorem C05_js_dispatch_eq :
  js_version_class 0 = V00 /\ js_version_class 2147483648 = V00 /\ js_version_class v01_word = V01 /\
  js_version_class version_word = V02 /\
  version_class 0 = V00 /\ version_class 2147483648 = V00 /\ version_class v01_word = V01 /\ version_class version_word = V02.
Proof. exact js_dispatch_words. Qed.
Print Assumptions C05_js_dispatch_eq.

(* ---------- where the readers differ (witnesses computed on the models; each is replayed on node / CPython by the check) ---------- *)
(* format "CXY" written by Pose.write (F5, fixed): Python: point a = (1.0, 2.0), confidence 0.5.  JavaScript: a.X = 1.0,
   a.Y = 2.0, a.C = 0.5 - the hypotheses of C05_js_index_eq are satisfiable by a format whose "C" comes first. *)
Theorem C05_js_format_cxy_example :
  exists p bs py jp c,
  write_pose p = Ok bs /\ wf_arrays p /\ (1 <= nth 3 (w_shape p) 0)%N /\ Forall wcomp_plain (w_comps p) /\
  run_plain full_read_prog {| pbuf := bs; poff := 0 |} = Ok (py, {| pbuf := bs; poff := lenN bs |}) /\
  parse_pose bs = Some jp /\ nth_error (h_comps (p_header py)) 0 = Some c /\
  c_format c = [67; 88; 89]%N /\ coord_index (c_format c) 1 = 0 /\ coord_index (c_format c) 2 = 1 /\
  tget 0%N (py_data (p_body py)) [0; 0; 0; 0] = 1065353216%N /\ tget 0%N (py_data (p_body py)) [0; 0; 0; 1] = 1073741824%N /\
  js_cell (jp_frame jp 0%Z) 0 (c_name c) 0 67 = Some (VF32 1056964608) /\
  js_cell (jp_frame jp 0%Z) 0 (c_name c) 0 88 = Some (VF32 1065353216) /\
  js_cell (jp_frame jp 0%Z) 0 (c_name c) 0 89 = Some (VF32 1073741824) /\
  js_cell (jp_frame jp 0%Z) 0 (c_name c) 1 88 = Some (VF32 (tget 0%N (py_data (p_body py)) [0; 0; 1; 0])) /\
  js_cell (jp_frame jp 0%Z) 0 (c_name c) 1 67 = Some (VF32 1048576000).
Proof. exact js_format_cxy_example. Qed.
Print Assumptions C05_js_format_cxy_example.
(* a component name starting with U+FEFF: Python keeps it, the JavaScript header has the name without it *)
Theorem C05_js_bom_refuted :
  exists p bs py jp hd hl c,
  write_pose p = Ok bs /\ run_plain full_read_prog {| pbuf := bs; poff := 0 |} = Ok (py, {| pbuf := bs; poff := lenN bs |}) /\
  parse_pose bs = Some jp /\ header_view (jp_header jp) = Some (hd, hl) /\
  nth_error (h_comps (p_header py)) 0 = Some c /\ c_name c = [65279; 97]%N /\
  map c_name (h_comps hd) = [[97]]%N.
Proof. exact js_bom_refuted_w. Qed.
Print Assumptions C05_js_bom_refuted.
(* two components named "a": the person object keeps the second one's points under that name *)
Theorem C05_js_duplicate_names_example :
  exists bs jp, write_pose ex_dup = Ok bs /\ parse_pose bs = Some jp /\
  js_cell (jp_frame jp 0%Z) 0 [97]%N 0 88 = Some (VF32 1073741824).
Proof. exact js_duplicate_names_w. Qed.
Print Assumptions C05_js_duplicate_names_example.

(* ---------- non-vacuity ---------- *)
Example C05_example_v02_hypotheses :
  (exists bs, write_pose ex_pose = Ok bs) /\ wf_arrays ex_pose /\ (1 <= nth 3 (w_shape ex_pose) 0)%N /\ Forall wcomp_plain (w_comps ex_pose).
Proof. exact ex_pose_hyps. Qed.
Print Assumptions C05_example_v02_hypotheses.
Example C05_example_v02_cell :
  exists bs jp, write_pose ex_pose = Ok bs /\ parse_pose bs = Some jp /\
  js_cell (jp_frame jp 0%Z) 1 [] 0 88 = Some (VF32 0) /\ js_cell (jp_frame jp 0%Z) 1 [] 0 67 = Some (VF32 1065353216) /\
  jp_nframes jp = 1%Z.
Proof. exact ex_pose_cell. Qed.
Print Assumptions C05_example_v02_cell.
Example C05_example_v01_hypotheses : (exists bs, spec_v01 ex_v01 = Ok bs) /\ wf_lpose ex_v01 /\ Forall wcomp_plain (l_comps ex_v01).
Proof. exact ex_v01_hyps. Qed.
Print Assumptions C05_example_v01_hypotheses.
Example C05_example_v01_cell :
  exists bs jp, spec_v01 ex_v01 = Ok bs /\ parse_pose bs = Some jp /\
  js_cell (jp_frame jp 1%Z) 0 [97; 98]%N 1 89 = Some (VF32 1090519040) /\ js_cell (jp_frame jp 1%Z) 0 [97; 98]%N 1 67 = Some (VF32 1048576000).
Proof. exact ex_v01_cell. Qed.
Print Assumptions C05_example_v01_cell.
Example C05_example_v00_hypotheses : (exists bs, spec_v00 ex_v00 = Ok bs) /\ wf_lpose0 ex_v00 /\ Forall wcomp_plain (z_comps ex_v00).
Proof. exact ex_v00_hyps. Qed.
Print Assumptions C05_example_v00_hypotheses.
Example C05_example_v00_cell :
  exists bs jp, spec_v00 ex_v00 = Ok bs /\ parse_pose bs = Some jp /\
  js_cell (jp_frame jp 0%Z) 0 [97; 98]%N 1 88 = Some (VF32 1077936128) /\ js_cell (jp_frame jp 0%Z) 0 [97; 98]%N 1 67 = Some (VF32 0) /\
  js_cell (jp_frame jp 0%Z) 1 [97; 98]%N 0 89 = Some (VF32 1086324736) /\ jp_nframes jp = 2%Z.
Proof. exact ex_v00_cell. Qed.
Print Assumptions C05_example_v00_cell.

(* ---------- ties to the current parser.ts (coq/gen/Gen_C05.v is regenerated on every run) ---------- *)
Theorem C05_tie_little_endian : Gen_C05.js_little = C05_JsParser.js_little.
Proof. exact js_little_tie. Qed.
Print Assumptions C05_tie_little_endian.
Theorem C05_tie_header_schema :
  Gen_C05.js_limb = limb_schema /\ Gen_C05.js_color = color_schema /\ Gen_C05.js_str = str_schema /\
  Gen_C05.js_component = component_schema /\ Gen_C05.js_header = header_schema.
Proof. exact (conj js_limb_tie (conj js_color_tie (conj js_str_tie (conj js_component_tie js_header_tie)))). Qed.
Print Assumptions C05_tie_header_schema.
Theorem C05_tie_info_schema :
  (forall hl, Gen_C05.js_info_v01 hl = info_v01_schema hl) /\ (forall hl, Gen_C05.js_info_v02 hl = info_v02_schema hl) /\
  Gen_C05.js_info_size_v01 = info_size_v01 /\ Gen_C05.js_info_size_v02 = info_size_v02.
Proof. exact (conj js_info_v01_tie (conj js_info_v02_tie js_info_size_tie)). Qed.
Print Assumptions C05_tie_info_schema.
Theorem C05_tie_index_expressions :
  (forall f p t d, Gen_C05.js_data_len f p t d = C05_JsParser.js_data_len f p t d) /\
  (forall f p t, Gen_C05.js_conf_len f p t = C05_JsParser.js_conf_len f p t) /\
  (forall h s, Gen_C05.js_data_start h s = C05_JsParser.js_data_start h s) /\
  (forall i p t j, Gen_C05.js_offset i p t j = C05_JsParser.js_offset i p t j) /\
  (forall o k l, Gen_C05.js_place o k l = C05_JsParser.js_place o k l) /\
  (forall pl d x, Gen_C05.js_data_index pl d x = C05_JsParser.js_data_index pl d x).
Proof. exact js_index_exprs_tie. Qed.
Print Assumptions C05_tie_index_expressions.
Theorem C05_tie_version_switch :
  Gen_C05.js_round_mul = 1000%Z /\ Gen_C05.js_round_div = 1000%Z /\
  Gen_C05.js_switch = [ ("0", "parseBodyV0_0 ( header , buffer )"); ("0.1", "parseBodyV0_1 ( header , buffer , version )");
                        ("0.2", "parseBodyV0_1 ( header , buffer , version )"); ("default", "throw") ]%string.
Proof. exact js_switch_tie. Qed.
Print Assumptions C05_tie_version_switch.
(* the function bodies the hand-written parts of the model were transcribed from are unchanged (literals in proofs/C05_GenTie.v) *)
Theorem C05_tie_function_texts :
  Gen_C05.src_newParser = C05_GenTie.txt_newParser /\ Gen_C05.src_componentHeaderParser = C05_GenTie.txt_componentHeaderParser /\
  Gen_C05.src_getHeaderParser = C05_GenTie.txt_getHeaderParser /\ Gen_C05.src_getBodyParserV0_0 = C05_GenTie.txt_getBodyParserV0_0 /\
  Gen_C05.src_parseBodyV0_0 = C05_GenTie.txt_parseBodyV0_0 /\ Gen_C05.src_parseBodyV0_1 = C05_GenTie.txt_parseBodyV0_1 /\
  Gen_C05.src_parsePose = C05_GenTie.txt_parsePose.
Proof. exact src_ties. Qed.
Print Assumptions C05_tie_function_texts.
Theorem C05_tie_types : Gen_C05.types_fields =
  [ ("RGBColor", ["R"; "G"; "B"]); ("PoseLimb", ["from"; "to"]);
    ("PoseHeaderComponentModel", ["name"; "format"; "_points"; "_limbs"; "_colors"; "points"; "limbs"; "colors"]);
    ("PoseHeaderModel", ["version"; "width"; "height"; "depth"; "_components"; "components"; "headerLength"]);
    ("PosePointModel", ["X"; "Y"; "Z?"; "C?"]); ("PoseBodyFramePersonModel", ["[]"]);
    ("PoseBodyFrameModel", ["_people"; "people"]); ("PoseBodyModel", ["fps"; "_frames"; "frames"]);
    ("PoseModel", ["header"; "body"]) ]%string.
Proof. exact types_fields_tie. Qed.
Print Assumptions C05_tie_types.

(* ---- the Python side of the comparison: the reader functions whose result parsePose is compared with (tied statement by
   statement, as in C01 / C06 / C07: an edit of the Python reader re-opens this property too) ---- *)
Theorem C05_tie_py_header_read : Gen_Codec.header_read = exp_header_read.
Proof. exact header_read_tie. Qed.
Print Assumptions C05_tie_py_header_read.
Theorem C05_tie_py_component_read : Gen_Codec.component_read = exp_component_read.
Proof. exact component_read_tie. Qed.
Print Assumptions C05_tie_py_component_read.
Theorem C05_tie_py_dimensions_read : Gen_Codec.dimensions_read = exp_dimensions_read.
Proof. exact dimensions_read_tie. Qed.
Print Assumptions C05_tie_py_dimensions_read.
Theorem C05_tie_py_body_read_dispatch : Gen_Codec.body_read_dispatch = exp_body_read_dispatch.
Proof. exact body_read_dispatch_tie. Qed.
Print Assumptions C05_tie_py_body_read_dispatch.
Theorem C05_tie_py_body_read_v0_2 : Gen_Codec.body_read_v0_2 = exp_body_read_v0_2.
Proof. exact body_read_v0_2_tie. Qed.
Print Assumptions C05_tie_py_body_read_v0_2.
Theorem C05_tie_py_body_read_frames : Gen_Codec.body_read_frames = exp_body_read_frames.
Proof. exact body_read_frames_tie. Qed.
Print Assumptions C05_tie_py_body_read_frames.
Theorem C05_tie_py_pose_read : Gen_Codec.pose_read = exp_pose_read.
Proof. exact pose_read_tie. Qed.
Print Assumptions C05_tie_py_pose_read.
Theorem C05_tie_py_reader_unpack_str : Gen_Codec.reader_unpack_str = exp_reader_unpack_str.
Proof. exact reader_unpack_str_tie. Qed.
Print Assumptions C05_tie_py_reader_unpack_str.
Theorem C05_tie_py_reader_unpack_numpy : Gen_Codec.reader_unpack_numpy = exp_reader_unpack_numpy.
Proof. exact reader_unpack_numpy_tie. Qed.
Print Assumptions C05_tie_py_reader_unpack_numpy.
