(* C19 - OpenPose import puts every keypoint where it belongs.
   Model: model/C19_OpenPose.v (load_openpose, directory loaders), model/C19_FrameId.v (frame-id rule),
   vocabulary: model/C19_Spec.v.  Statements only; proofs in proofs/C19_*.v.
   Numbers of the JSON are binary64 words, cells of the pose float32 words; cast32 = base/F32.v f64_to_f32. *)
From Coq Require Import String List Arith NArith ZArith Bool.
Require Import Result F32 C19_Tables C19_Layout C19_FrameId C19_OpenPose C19_Spec
               C19_LoadProofs C19_FrameIdProofs C19_Theorems C19_Examples C19_GenTie Gen_C19.
Import ListNotations.
Local Open Scope nat_scope.

(* Frame f, person p, point k (= point i of component c of the 137-point table) holds the float32 of the x, y and
   confidence that frame f's JSON lists for that person at positions stride*i + 0/1/2 of field c, stride = len(format);
   the point is missing exactly when the stored confidence is +-0. *)
Theorem cell_exact : forall (fs : frames) fps w h d nf ps,
  load_openpose comps137 fs fps w h d nf = Ok ps -> dict_ok fs -> count_ok fs nf -> frames_conform comps137 fs ->
  forall f p k per c i, json_person fs f p = Some per -> locate comps137 k = Some (c, i) ->
  let stride := length (c_format c) in
  exists numbers x y cf, lookup (c_name c) per = Some numbers /\
    nth_error numbers (stride * i + 0) = Some x /\ nth_error numbers (stride * i + 1) = Some y /\
    nth_error numbers (stride * i + 2) = Some cf /\
    data_at ps f p k 0 = Some (cast32 x) /\ data_at ps f p k 1 = Some (cast32 y) /\ conf_at ps f p k = Some (cast32 cf) /\
    mask_at ps f p k 0 = Some (is_zero32 (cast32 cf)) /\ mask_at ps f p k 1 = Some (is_zero32 (cast32 cf)).
Proof. exact cell_exact_137. Qed.
Print Assumptions cell_exact.

(* non-vacuity: a dictionary with ids {2, 0}, 2 and 1 people, requested count 3, fps 29.97 satisfies every hypothesis
   of cell_exact / absent_missing / shape, and the run shows the values listed in C19_Examples.ex_checks *)
Example cell_exact_hypotheses_satisfiable :
  exists ps per c, load_openpose comps137 ex_frames ex_fps 1920 1080 0 (Some 3) = Ok ps /\
    dict_ok ex_frames /\ count_ok ex_frames (Some 3) /\ frames_conform comps137 ex_frames /\
    json_person ex_frames 2 1 = Some per /\ locate comps137 26 = Some (c, 1) /\ c_name c = nth 1 (map c_name comps137) [] /\
    json_person ex_frames 1 0 = None /\ json_person ex_frames 0 1 = None /\ json_person ex_frames 3 0 = None /\
    ex_checks ps = true.
Proof. exact ex_137_hypotheses. Qed.
Print Assumptions cell_exact_hypotheses_satisfiable.

(* every keypoint index below 137 is a point of exactly one component, and conforming non-empty dictionaries never raise *)
Theorem every_point_located : forall k, k < 137 -> exists c i, locate comps137 k = Some (c, i).
Proof. exact (locate_some comps137). Qed.
Print Assumptions every_point_located.
Theorem load_total : forall (fs : frames) fps w h d nf,
  fs <> [] -> dict_ok fs -> count_ok fs nf -> frames_conform comps137 fs ->
  exists ps, load_openpose comps137 fs fps w h d nf = Ok ps.
Proof. exact load_total_137. Qed.
Print Assumptions load_total.

(* frames absent from the input, people absent from a frame, frames beyond the last present one up to the requested
   count: entirely missing (values 0, confidence 0, masked) *)
Theorem absent_missing : forall (fs : frames) fps w h d nf ps,
  load_openpose comps137 fs fps w h d nf = Ok ps -> dict_ok fs -> count_ok fs nf -> frames_conform comps137 fs ->
  forall f p k, f < frame_count fs nf -> p < max_people fs -> k < 137 -> json_person fs f p = None ->
  data_at ps f p k 0 = Some 0%N /\ data_at ps f p k 1 = Some 0%N /\ conf_at ps f p k = Some 0%N /\
  mask_at ps f p k 0 = Some true /\ mask_at ps f p k 1 = Some true.
Proof. exact absent_missing_137. Qed.
Print Assumptions absent_missing.
Theorem absent_cases : forall (fs : frames) f p,
  (~ In f (map fst fs) -> json_person fs f p = None) /\
  (forall fr, find_frame f fs = Some fr -> length fr <= p -> json_person fs f p = None) /\
  (last_id fs < f -> json_person fs f p = None).
Proof. exact (fun fs f p => conj (json_person_absent_frame fs f p) (conj (json_person_absent_person fs f p) (json_person_beyond_last fs f p))). Qed.
Print Assumptions absent_cases.

(* points with confidence 0 are missing - for every result of load_openpose, conforming input or not *)
Theorem conf0_missing : forall cs (fs : frames) fps w h d nf ps, load_openpose cs fs fps w h d nf = Ok ps ->
  forall f p k c, conf_at ps f p k = Some c ->
    mask_at ps f p k 0 = Some (is_zero32 c) /\ mask_at ps f p k 1 = Some (is_zero32 c).
Proof. exact mask_is_conf_zero. Qed.
Print Assumptions conf0_missing.

(* frames = requested count or last id + 1, people = maximum over the frames, 137 points, 2 dimensions; all arrays rectangular *)
Theorem shape : forall (fs : frames) fps w h d nf ps,
  load_openpose comps137 fs fps w h d nf = Ok ps -> dict_ok fs -> count_ok fs nf -> frames_conform comps137 fs ->
  p_shape ps = (frame_count fs nf, max_people fs, 137) /\ pose_shape_ok ps.
Proof. exact shape_137. Qed.
Print Assumptions shape.

(* the requested size and frame rate are recorded in the result (every input; fps as given, e.g. 29.97 stays 29.97) *)
Theorem dims_fps_recorded : forall cs (fs : frames) fps w h d nf ps, load_openpose cs fs fps w h d nf = Ok ps ->
  p_dims ps = (w, h, d) /\ p_fps ps = fps /\ p_comps ps = cs.
Proof. exact recorded. Qed.
Print Assumptions dims_fps_recorded.

(* the general form behind the theorems above: any table with three-letter formats, any input whose people list whole
   triples fitting the table (137 layout, 135 layout, shorter or longer fields) - the running keypoint index *)
Theorem cell_general : forall cs (fs : frames) fps w h d nf,
  formats_xyc cs -> fs <> [] -> dict_ok fs -> count_ok fs nf -> frames_fit cs fs ->
  exists ps, load_openpose cs fs fps w h d nf = Ok ps /\
    p_comps ps = cs /\ p_dims ps = (w, h, d) /\ p_fps ps = fps /\
    p_shape ps = (frame_count fs nf, max_people fs, total_points cs) /\ pose_shape_ok ps /\
    forall f p k, f < frame_count fs nf -> p < max_people fs -> k < total_points cs ->
      cell_at ps f p k = Some (expected_cell cs fs f p k) /\
      forall x y c, expected_cell cs fs f p k = (x, y, c) ->
        mask_at ps f p k 0 = Some (is_zero32 c) /\ mask_at ps f p k 1 = Some (is_zero32 c).
Proof. exact load_general. Qed.
Print Assumptions cell_general.

(* ---- file names ---- *)
(* The frame number is the last digit group before "_keypoints.json": for  pre ++ [sep] ++ digits ++ "_keypoints.json"
   with sep any non-digit other than 'n' - in particular the documented form [ARBITRARY CHARACTERS]_[FRAME_ID]_keypoints.json
   (sep = '_') - whatever pre contains (other digit groups, other "_keypoints.json"), and for names without prefix.
   frame_id_of = the decimal value (int() refuses more than 4300 digits; file names have at most 255 bytes). *)
Theorem frame_id_last_group : forall pre sep ds,
  is_digit sep = false -> sep <> 110%N -> all_digits ds -> ds <> [] ->
  get_frame_id (pre ++ sep :: ds ++ SUFFIX) = frame_id_of ds.
Proof. exact frame_id_after_separator. Qed.
Print Assumptions frame_id_last_group.
Theorem frame_id_documented_format : forall arbitrary ds, all_digits ds -> ds <> [] ->
  get_frame_id (arbitrary ++ 95%N :: ds ++ SUFFIX) = frame_id_of ds.
Proof. exact frame_id_docstring. Qed.
Print Assumptions frame_id_documented_format.
Theorem frame_id_no_prefix : forall ds, all_digits ds -> ds <> [] -> get_frame_id (ds ++ SUFFIX) = frame_id_of ds.
Proof. exact frame_id_bare. Qed.
Print Assumptions frame_id_no_prefix.
Example frame_id_examples :
  get_frame_id name_CAM2_17 = Ok 17%N /\
  (let pre := [97;95;49;95;107;101;121;112;111;105;110;116;115;46;106;115;111;110]%N in
   let ds := [48; 50]%N in
   is_digit 95 = false /\ 95%N <> 110%N /\ all_digits ds /\ ds <> [] /\ frame_id_of ds = Ok 2%N /\
   get_frame_id (pre ++ 95%N :: ds ++ SUFFIX) = Ok 2%N) /\
  get_frame_id [107;101;121;112;111;105;110;116;115;46;106;115;111;110]%N = Err Index.
Proof. exact ex_frame_ids. Qed.
Print Assumptions frame_id_examples.
(* why 'n' is excluded (a name outside the documented format): "1_keypoints.json2_keypoints.json" -> 1 *)
Example frame_id_rule_boundary :
  get_frame_id ([49;95;107;101;121;112;111;105;110;116;115;46;106;115;111;110]%N ++ 50%N :: SUFFIX) = Ok 1%N.
Proof. exact frame_id_boundary. Qed.
Print Assumptions frame_id_rule_boundary.

(* a directory whose files have distinct frame ids is loaded as the dictionary id -> file content *)
Theorem directory_frames : forall entries ids,
  Forall2 (fun e id => get_frame_id (fst e) = Ok (N.of_nat id)) entries ids -> NoDup ids ->
  dir_frames entries [] = Ok (combine ids (map snd entries)).
Proof. exact (fun entries ids H N => dir_frames_distinct entries ids [] H N). Qed.
Print Assumptions directory_frames.

(* ---- the 135-point layout (openpose_135.py): 135 keypoints under the first field, sliced to 135 points ---- *)
Theorem cell_exact_135_layout : forall entries (fs : frames) fps w h d nf ps,
  dir_frames entries [] = Ok fs -> load_openpose_135_directory entries fps w h d nf = Ok ps ->
  count_ok fs nf -> Forall (fun x => Forall person_conforms_135 (snd x)) fs ->
  p_comps ps = comps135 /\ p_dims ps = (w, h, d) /\ p_fps ps = fps /\ p_shape ps = (frame_count fs nf, max_people fs, 135) /\
  forall f p k, k < 135 ->
    (forall per, json_person fs f p = Some per ->
       exists numbers x y cf, lookup (c_name (nth 0 comps137 ([], [], [], []))) per = Some numbers /\
         nth_error numbers (3 * k + 0) = Some x /\ nth_error numbers (3 * k + 1) = Some y /\ nth_error numbers (3 * k + 2) = Some cf /\
         data_at ps f p k 0 = Some (cast32 x) /\ data_at ps f p k 1 = Some (cast32 y) /\ conf_at ps f p k = Some (cast32 cf) /\
         mask_at ps f p k 0 = Some (is_zero32 (cast32 cf)) /\ mask_at ps f p k 1 = Some (is_zero32 (cast32 cf))) /\
    (json_person fs f p = None -> f < frame_count fs nf -> p < max_people fs ->
       data_at ps f p k 0 = Some 0%N /\ data_at ps f p k 1 = Some 0%N /\ conf_at ps f p k = Some 0%N /\
       mask_at ps f p k 0 = Some true /\ mask_at ps f p k 1 = Some true).
Proof. exact cell_exact_135. Qed.
Print Assumptions cell_exact_135_layout.
Example layout_135_hypotheses_satisfiable :
  exists fs ps, dir_frames ex_entries_135 [] = Ok fs /\ load_openpose_135_directory ex_entries_135 ex_fps 640 480 0 None = Ok ps /\
    count_ok fs None /\ Forall (fun x => Forall person_conforms_135 (snd x)) fs /\ map fst fs = [3; 0] /\ ex_checks_135 ps = true.
Proof. exact ex_135_hypotheses. Qed.
Print Assumptions layout_135_hypotheses_satisfiable.

(* ---- the tables ---- *)
Theorem tables_ok :
  forallb comp_ok comps137 = true /\ forallb comp_ok comps135 = true /\ total_points comps137 = 137 /\ total_points comps135 = 135 /\
  formats_xyc comps137 /\ formats_xyc comps135.
Proof. exact tables_wellformed. Qed.
Print Assumptions tables_ok.
Theorem fields_137 : map c_name comps137 =
  [ [112;111;115;101;95;107;101;121;112;111;105;110;116;115;95;50;100];
    [102;97;99;101;95;107;101;121;112;111;105;110;116;115;95;50;100];
    [104;97;110;100;95;108;101;102;116;95;107;101;121;112;111;105;110;116;115;95;50;100];
    [104;97;110;100;95;114;105;103;104;116;95;107;101;121;112;111;105;110;116;115;95;50;100] ]%N
  /\ map (fun c => length (c_points c)) comps137 = [25; 70; 21; 21].
Proof. exact comps137_fields. Qed.
Print Assumptions fields_137.

(* ---- ties to the current source (coq/gen/Gen_C19.v is regenerated from /repo on every run) ---- *)
Theorem gen_pattern_tie : Gen_C19.frame_pattern = C19_Tables.frame_pattern.
Proof. exact pattern_tie. Qed.
Print Assumptions gen_pattern_tie.
Theorem gen_pattern_meaning_tie :
  key_of_string Gen_C19.frame_pattern = ([40; 63; 58; 94; 124; 92; 68; 41; 40; 92; 100; 43; 41; 92]%N ++ SUFFIX)%list.
Proof. exact pattern_meaning_tie. Qed.
Print Assumptions gen_pattern_meaning_tie.
Theorem gen_components_137_tie : Gen_C19.components_137 = C19_Tables.components_137.
Proof. exact components_137_tie. Qed.
Print Assumptions gen_components_137_tie.
Theorem gen_components_135_tie : Gen_C19.components_135 = C19_Tables.components_135.
Proof. exact components_135_tie. Qed.
Print Assumptions gen_components_135_tie.
Theorem gen_layout_tie : comps137 = map enc_comp Gen_C19.components_137 /\ comps135 = map enc_comp Gen_C19.components_135 /\
                         pattern_k = key_of_string Gen_C19.frame_pattern.
Proof. exact layout_tie. Qed.
Print Assumptions gen_layout_tie.
Theorem gen_load_openpose_tie : Gen_C19.src_load_openpose = C19_GenTie.lit_load_openpose.
Proof. exact src_load_openpose_tie. Qed.
Print Assumptions gen_load_openpose_tie.
Theorem gen_get_frame_id_tie : Gen_C19.src_get_frame_id = C19_GenTie.lit_get_frame_id.
Proof. exact src_get_frame_id_tie. Qed.
Print Assumptions gen_get_frame_id_tie.
Theorem gen_load_frames_directory_dict_tie : Gen_C19.src_load_frames_directory_dict = C19_GenTie.lit_load_frames_directory_dict.
Proof. exact src_load_frames_directory_dict_tie. Qed.
Print Assumptions gen_load_frames_directory_dict_tie.
Theorem gen_load_openpose_directory_tie : Gen_C19.src_load_openpose_directory = C19_GenTie.lit_load_openpose_directory.
Proof. exact src_load_openpose_directory_tie. Qed.
Print Assumptions gen_load_openpose_directory_tie.
Theorem gen_limbs_index_tie : Gen_C19.src_limbs_index = C19_GenTie.lit_limbs_index.
Proof. exact src_limbs_index_tie. Qed.
Print Assumptions gen_limbs_index_tie.
Theorem gen_load_openpose_135_directory_tie : Gen_C19.src_load_openpose_135_directory = C19_GenTie.lit_load_openpose_135_directory.
Proof. exact src_load_openpose_135_directory_tie. Qed.
Print Assumptions gen_load_openpose_135_directory_tie.
