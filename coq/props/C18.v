(* C18 - concurrent reads are isolated from each other.
   Model: coq/model/C18_Threads.v - any number of reader threads, atomic step = one access to one of the memo's four
   class attributes (or one lock operation), schedule = any list of thread ids.  [run pf true] is the code with
   `with PoseHeaderCache.lock:` around lookup-and-offset and around set_cache (proposed-fixes/F13-memo-lock.diff),
   [run pf false] the code without it.  [pf] (prefetch length as a function of the end_offset read at pose.py:60) and
   the initial memo [m0] (empty, or whatever earlier reads left: [Good]) are arbitrary.
   result of a thread = (header PoseHeader.read returns, offset at which the body is read);
   [result_alone j] = header of j's own file parsed from offset 0, and the offset after it. *)
From Coq Require Import ZArith NArith List Bool.
Require Import ListN Result Bytes Prog Codec PoseRead C18_Threads C18_Local C18_Inv C18_Refuted C18_StreamBody C18_StructMemo C18_StructMemoP C18_GenTie.
Import ListNotations.

(* every clause of the statement for header and body offset: all thread counts, all schedules, no bound *)
Theorem isolated : forall (pf : option N -> N) (jobs : list job) (m0 : gmemo) (sched : list nat), Good m0 ->
  let st := run pf true jobs sched (init jobs m0) in
  complete st = true ->
  forall t j, nth_error jobs t = Some j -> result_of st t = Some (result_alone j).
Proof. exact isolated_locked. Qed.
Print Assumptions isolated.

(* stronger: a thread that has finished is right even if the others never finish *)
Theorem finished_thread_isolated : forall (pf : option N -> N) jobs m0 sched t j r, Good m0 ->
  nth_error jobs t = Some j ->
  result_of (run pf true jobs sched (init jobs m0)) t = Some r -> r = result_alone j.
Proof. exact finished_isolated. Qed.
Print Assumptions finished_thread_isolated.

(* what the replay scheduler can produce (switches at line events only) is covered *)
Theorem isolated_at_line_level : forall (pf : option N -> N) jobs m0 lsched, Good m0 ->
  let st := lrun pf true jobs lsched (init jobs m0) in
  complete st = true ->
  forall t j, nth_error jobs t = Some j -> result_of st t = Some (result_alone j).
Proof. exact isolated_line_level. Qed.
Print Assumptions isolated_at_line_level.

(* the memo is sound again whenever the lock is free: the hypothesis [Good m0] holds for the next batch of reads *)
Theorem memo_sound_between_reads : forall (pf : option N -> N) jobs m0 sched, Good m0 ->
  let st := run pf true jobs sched (init jobs m0) in
  sh_lock (st_sh st) = None -> Good (sh_memo (st_sh st)).
Proof. exact memo_stays_good. Qed.
Print Assumptions memo_sound_between_reads.

(* [result_alone] is what the thread model itself returns when the read is made alone on an empty memo *)
Theorem alone_is_the_solo_run : forall (pf : option N -> N) j,
  let st := run pf true [j] (repeat 0%nat 13) (init [j] g_empty) in
  complete st = true /\ result_of st 0 = Some (result_alone j).
Proof. exact alone_run. Qed.
Print Assumptions alone_is_the_solo_run.

(* the body: for threads with a plain reader (bytes, or a stream without window) the returned pose is
   Pose.read of the sequential model on an empty memo.  PARTIAL: for BytesIOReader threads (window read of a
   stream) the thread model stops at the proved (header, offset); the body is covered by the next theorem. *)
Theorem isolated_pose_partial : forall (pf : option N -> N) jobs m0 sched, Good m0 ->
  let st := run pf true jobs sched (init jobs m0) in
  complete st = true ->
  forall t j, nth_error jobs t = Some j ->
  exists r, result_of st t = Some r /\
            req (pose_from j r) (fst (read_bytes no_legacy None (j_file j) (j_args j))).
Proof. exact isolated_pose_plain. Qed.
Print Assumptions isolated_pose_partial.

(* BytesIOReader threads: a stream reader holding ANY prefix of the file (whatever prefetch length the thread
   took from the memo at pose.py:60) and positioned at the (header, offset) of [isolated] returns the pose that
   the same file gives when read as bytes, alone, on an empty memo.  PARTIAL: forward direction only (the bytes
   read succeeds; via the reader simulation of C03), and the reader state "some prefix, offset inside it" is
   the modelled shape of a thread's reader, not a component of the thread model's result. *)
Theorem isolated_stream_body_partial : forall j h e L pl pose,
  result_alone j = ROk h e -> (e <= lenN (takeN L (j_file j)))%N ->
  fst (read_bytes no_legacy None (j_file j) (j_args j)) = Ok pose ->
  exists b sr', run_stream (j_file j) (read_body no_legacy h (j_args j))
                  {| buf := takeN L (j_file j); off := e; skipped := 0%N; pulled := pl |} = Ok (b, sr') /\
                pose = {| p_header := h; p_body := b |}.
Proof. exact stream_pose_of_alone. Qed.
Print Assumptions isolated_stream_body_partial.

(* ... and without the hypothesis that the bytes read succeeds: two BytesIOReaders at the same (header, offset), whatever prefix of
   the file each holds (the thread's prefetch length comes from a memo another thread may just have replaced; the solo read's from
   an empty one), decode the same body or both raise.  With [isolated] this is the isolation of the whole pose for window reads of
   streams, for every outcome. *)
Theorem isolated_stream_body : forall file h a e L L' pl pl',
  (e <= lenN (takeN L file))%N -> (e <= lenN (takeN L' file))%N ->
  match run_stream file (read_body no_legacy h a) {| buf := takeN L file; off := e; skipped := 0%N; pulled := pl |},
        run_stream file (read_body no_legacy h a) {| buf := takeN L' file; off := e; skipped := 0%N; pulled := pl' |} with
  | Ok (b, _), Ok (b', _) => b = b'
  | Err _, Err _ => True
  | _, _ => False
  end.
Proof. exact stream_body_prefetch_irrelevant. Qed.
Print Assumptions isolated_stream_body.

(* without the lock (defect F13; also the mutant "remove the lock") the statement is false; the witness switches
   threads only at line boundaries: thread 0 passes the hash comparison, thread 1 stores another file's header,
   thread 0 returns it *)
Theorem isolated_refuted : exists pf jobs m0 lsched, Good m0 /\
  let st := lrun pf false jobs lsched (init jobs m0) in
  complete st = true /\ exists t j, nth_error jobs t = Some j /\ result_of st t <> Some (result_alone j).
Proof. exact isolated_refuted_unlocked. Qed.
Print Assumptions isolated_refuted.

Theorem isolated_refuted_any_granularity : exists pf jobs m0 sched, Good m0 /\
  let st := run pf false jobs sched (init jobs m0) in
  complete st = true /\ exists t j, nth_error jobs t = Some j /\ result_of st t <> Some (result_alone j).
Proof. exact isolated_refuted_fine_grained. Qed.
Print Assumptions isolated_refuted_any_granularity.

(* the two shapes of the defect: a foreign header; the own header with a foreign end offset *)
Example refuted_witness_foreign_header :
  let st := lrun pf0 false [jb fileA; jb fileB] sched_foreign_header (init [jb fileA; jb fileB] (memo_after fileA)) in
  complete st = true /\ result_of st 0 <> Some (result_alone (jb fileA)) /\
  result_of st 0 = Some (result_alone (jb fileB)).
Proof. exact refuted_foreign_header. Qed.
Print Assumptions refuted_witness_foreign_header.

Example refuted_witness_foreign_offset :
  let st := lrun pf0 false [jb fileA; jb fileC] sched_foreign_offset (init [jb fileA; jb fileC] (memo_after fileA)) in
  complete st = true /\ result_of st 0 <> Some (result_alone (jb fileA)) /\
  (exists h, result_of st 0 = Some (ROk h 22) /\ result_alone (jb fileA) = ROk h 12).
Proof. exact refuted_foreign_offset. Qed.
Print Assumptions refuted_witness_foreign_offset.

(* non-vacuity of the hypotheses of [isolated]: a warm sound memo; three threads with pairwise different
   answers and a complete interleaved schedule; the refuting schedules are harmless with the lock *)
Example hypotheses_satisfiable_memo : Good (memo_after fileA) /\ g_hash (memo_after fileA) <> None.
Proof. exact good_nonempty. Qed.
Print Assumptions hypotheses_satisfiable_memo.

Example hypotheses_satisfiable_schedule :
  let jobs := [jb fileA; jb fileC; jb fileB] in
  let sched := concat (repeat [0; 1; 2; 2; 1; 0; 1] 20)%nat in
  complete (run pf0 true jobs sched (init jobs (memo_after fileA))) = true.
Proof. exact isolated_nonvacuous. Qed.
Print Assumptions hypotheses_satisfiable_schedule.

Example results_distinguish_files : result_alone (jb fileA) <> result_alone (jb fileB) /\ result_alone (jb fileA) <> RFail.
Proof. exact alone_distinct. Qed.
Print Assumptions results_distinguish_files.

Example refuting_schedule_harmless_with_lock :
  let st1 := lrun pf0 true [jb fileA; jb fileB] (sched_foreign_header ++ [0; 1; 0; 1; 1; 1; 1; 1; 1; 1; 1; 1; 1; 1; 1; 1]%nat)
               (init [jb fileA; jb fileB] (memo_after fileA)) in
  complete st1 = true /\ result_of st1 0 = Some (result_alone (jb fileA)) /\ result_of st1 1 = Some (result_alone (jb fileB)).
Proof. exact locked_same_schedules. Qed.
Print Assumptions refuting_schedule_harmless_with_lock.

(* tie (a): the access programme regenerated from the source on this run is the modelled one *)
Theorem source_access_programme_tie : modelled_programme.
Proof. exact access_programme_tie. Qed.
Print Assumptions source_access_programme_tie.

(* tie (a'): module/class-level state inventory and every access to it on the read path, regenerated on this run *)
Theorem source_shared_state_tie : modelled_state.
Proof. exact shared_state_tie. Qed.
Print Assumptions source_shared_state_tie.

(* the second piece of process-global state, BufferReader.unpack_f's per-format struct memo on ConstStructs
   (model/C18_StructMemo.v; step = one hasattr / setattr / getattr): any number of threads, any schedule, any
   canonical initial table - every unpack_f call hands `unpack` the struct it would build alone and never meets
   AttributeError.  So the header parse that [isolated] treats as a thread-local computation reads nothing
   schedule-dependent from this memo.  (The two models are composed by this argument, not as one transition system.) *)
Theorem struct_memo_isolated : forall (S : Type) (mk : N -> S) jobs t0 sched i keys r, Canon S mk t0 ->
  nth_error jobs i = Some keys ->
  nth_error (ss_pcs (srun S mk sched (sinit S jobs t0))) i = Some (S_done r) ->
  r = Some (structs_alone S mk keys).
Proof. exact struct_memo_isolated_lemma. Qed.
Print Assumptions struct_memo_isolated.

Example struct_memo_nonvacuous :
  let st := srun N (fun k => k) [0; 1; 1; 0; 1; 0; 0; 1; 0; 1; 0; 1; 0; 1; 1; 0; 0]%nat (sinit N [[5; 7]; [5; 3; 7]]%N []) in
  ss_pcs st = [S_done (Some [5; 7]%N); S_done (Some [5; 3; 7]%N)].
Proof. exact struct_memo_example. Qed.
Print Assumptions struct_memo_nonvacuous.
