(* C15 - spatial transforms obey their algebra and extents are tight (NumPy body).
   Model: model/C15_Spatial.v (generic over Num.ops); theorems over the real-number instance R_ops; vocabulary
   (wf_body, rel3, observes, missing, same_conf_mask, same_observed, is_min, smallest_interval, lin ...) in
   model/C15_Real.v.  Bodies are as the library builds them from arrays or files (wf_body: one mask bit per point,
   confidence 0 => missing); every operation preserves that (the wf_body conjuncts below).  Exact reals: rounding is
   not modelled (DESIGN section 9). *)
From Coq Require Import String Reals ZArith List Bool.
Require Import Result Num C15_Spatial C15_Real C15_Run Gen_C15.
Require Import C15_Flip C15_Matmul C15_Augment C15_Focus C15_Bbox C15_GenTie C15_Examples.
Import ListNotations.
Local Open Scope R_scope.

(* ---- bodies ---- *)
(* NumPyPoseBody.__init__ on a plain array: every point of every body built from arrays or read from a file is
   well-formed (all theorems below assume wf_body and re-establish it for their result) *)
Theorem constructor_establishes_wf : forall (xs : list R) (c : R),
  wf_point (List.length xs) (reinit R_ops (@mkP R_ops (map (fun x => (x, false)) xs) c)).
Proof. exact C15_Flip.constructor_wf. Qed.
Print Assumptions constructor_establishes_wf.

(* ---- flip ---- *)
(* the flipped axis (Python index rules) is negated on every observed point, all other coordinates, the
   confidences and the missing pattern are unchanged *)
Theorem flip_negates_only_axis : forall D axis (b b' : rframes),
  wf_body D b -> flip R_ops D axis b = Ok b' ->
  exists ax, norm_axis D axis = Some ax /\ (ax < D)%nat /\
    rel3 (fun p p' => same_conf_mask p p' /\
                      forall k x, observes p k x -> observes p' k (if Nat.eqb k ax then - x else x)) b b'.
Proof. exact C15_Flip.flip_negates_only_axis. Qed.
Print Assumptions flip_negates_only_axis.

Theorem flip_involutive : forall D axis (b b' : rframes),
  wf_body D b -> flip R_ops D axis b = Ok b' -> flip R_ops D axis b' = Ok b.
Proof. exact C15_Flip.flip_involutive. Qed.
Print Assumptions flip_involutive.

Theorem flip_keeps_conf_mask : forall D axis (b b' : rframes),
  wf_body D b -> flip R_ops D axis b = Ok b' -> rel3 same_conf_mask b b' /\ wf_body D b'.
Proof. exact C15_Flip.flip_keeps_conf_mask. Qed.
Print Assumptions flip_keeps_conf_mask.

Example flip_hypotheses_satisfiable : wf_body 3 ex_body /\ exists b', flip R_ops 3 (-2)%Z ex_body = Ok b'.
Proof. exact ex_flip. Qed.
Print Assumptions flip_hypotheses_satisfiable.

(* ---- matmul ---- *)
(* (a X + b Y) M = a (X M) + b (Y M) for bodies with the same missing pattern, any D x K matrix; equality of whole bodies *)
Theorem matmul_linear : forall D K M a b (X Y : rframes),
  wf_body D X -> wf_body D Y -> rel3 same_conf_mask X Y -> matrix_ok R_ops D K M = true ->
  exists RX RY, matmul R_ops D D K M X = Ok RX /\ matmul R_ops D D K M Y = Ok RY /\
                matmul R_ops D D K M (lin a X b Y) = Ok (lin a RX b RY).
Proof. exact C15_Matmul.matmul_linear. Qed.
Print Assumptions matmul_linear.

Theorem matmul_identity : forall D (b : rframes),
  wf_body D b -> exists b', matmul R_ops D D D (eye R_ops D) b = Ok b' /\ rel3 same_observed b b'.
Proof. exact C15_Matmul.matmul_identity. Qed.
Print Assumptions matmul_identity.

(* any matrix (also non-square, R rows): confidences unchanged, a point is missing afterwards iff it was before *)
Theorem matmul_keeps_conf_mask : forall D R' K M (b b' : rframes),
  wf_body D b -> matmul R_ops D R' K M b = Ok b' ->
  rel3 (fun p p' => pc p' = pc p /\ masks p' = repeat (missing p) K) b b' /\ wf_body K b'.
Proof. exact C15_Matmul.matmul_keeps_conf_mask. Qed.
Print Assumptions matmul_keeps_conf_mask.

Example matmul_hypotheses_satisfiable :
  wf_body 3 ex_body /\ wf_body 3 ex_body2 /\ rel3 same_conf_mask ex_body ex_body2 /\ matrix_ok R_ops 3 2 ex_matrix = true /\
  exists b', matmul R_ops 3 3 2 ex_matrix ex_body = Ok b'.
Proof. exact ex_matmul. Qed.
Print Assumptions matmul_hypotheses_satisfiable.

(* ---- augment2d ---- *)
(* for every choice of deviations and every draw there is ONE 2x2 matrix (a00 a01; a10 a11), independent of the
   pose, such that every observed point has its first two coordinates mapped by it and the others unchanged *)
Theorem augment_common_map : forall (rot shear scale : R) (d : draws R_ops),
  exists a00 a01 a10 a11 : R, forall D (b : rframes), (2 <= D)%nat -> wf_body D b ->
  exists b', augment2d R_ops D rot shear scale d b = Ok b' /\
    rel3 (fun p p' => same_conf_mask p p' /\
                      (missing p = false -> coords p' = aug_coords a00 a01 a10 a11 (coords p))) b b'.
Proof. exact C15_Augment.augment_common_map. Qed.
Print Assumptions augment_common_map.

(* ... and that matrix is shear . rotation . scale when all three deviations are positive *)
Theorem augment_matrix_closed_form : forall rot shear scale g c s g1 : R,
  0 < rot -> 0 < shear -> 0 < scale ->
  aug_matrix R_ops rot shear scale (@mkD R_ops g c s g1) =
  [[c + g * s; (- s + g * c) * (1 + g1)]; [s; c * (1 + g1)]].
Proof. exact C15_Augment.aug_matrix_all_positive. Qed.
Print Assumptions augment_matrix_closed_form.

Theorem augment_zero_std_identity : forall D (rot shear scale : R) d (b : rframes),
  rot <= 0 -> shear <= 0 -> scale <= 0 -> (2 <= D)%nat -> wf_body D b ->
  exists b', augment2d R_ops D rot shear scale d b = Ok b' /\ rel3 same_observed b b'.
Proof. exact C15_Augment.augment_zero_std_identity. Qed.
Print Assumptions augment_zero_std_identity.

Theorem augment_keeps_conf_mask : forall D (rot shear scale : R) d (b b' : rframes),
  wf_body D b -> augment2d R_ops D rot shear scale d b = Ok b' -> rel3 same_conf_mask b b' /\ wf_body D b'.
Proof. exact C15_Augment.augment_keeps_conf_mask. Qed.
Print Assumptions augment_keeps_conf_mask.

Example augment_hypotheses_satisfiable : (2 <= 3)%nat /\ wf_body 3 ex_body /\ (0 <= 0 /\ -1 <= 0) /\
  exists b', augment2d R_ops 3 (1/5) (1/5) (1/5) (@mkD R_ops (1/10) 1 0 (-1/4)) ex_body = Ok b'.
Proof. exact ex_augment. Qed.
Print Assumptions augment_hypotheses_satisfiable.

(* ---- focus ---- *)
(* focus is one translation, by the smallest observed coordinate of each axis; confidences and masks unchanged *)
Theorem focus_is_translation : forall D (b b' : rframes) dims,
  wf_body D b -> focus R_ops R_ceil D b = Ok (b', dims) ->
  exists mins : list R, length mins = D /\
    (forall d m, nth_error mins d = Some m -> is_min m (obs_axis R_ops d (all_points R_ops b))) /\
    rel3 (fun p p' => same_conf_mask p p' /\
                      forall k x, observes p k x -> exists m, nth_error mins k = Some m /\ observes p' k (x - m)) b b' /\
    wf_body D b'.
Proof. exact C15_Focus.focus_is_translation. Qed.
Print Assumptions focus_is_translation.

Theorem focus_min_zero : forall D (b b' : rframes) dims,
  wf_body D b -> focus R_ops R_ceil D b = Ok (b', dims) ->
  forall d, (d < D)%nat -> is_min 0 (obs_axis R_ops d (all_points R_ops b')).
Proof. exact C15_Focus.focus_min_zero. Qed.
Print Assumptions focus_min_zero.

(* width, height (and depth for D >= 3; 0 for D = 2) are ceil(max - min) of the observed coordinates of that axis *)
Theorem focus_dims : forall D (b b' : rframes) dims,
  wf_body D b -> focus R_ops R_ceil D b = Ok (b', dims) ->
  (2 <= D)%nat /\ (D = 2%nat -> snd dims = 0%Z) /\
  forall d, (d < D)%nat -> (d < 3)%nat ->
    exists mn mx, is_min mn (obs_axis R_ops d (all_points R_ops b)) /\ is_max mx (obs_axis R_ops d (all_points R_ops b)) /\
                  is_ceil (dim_of dims d) (mx - mn).
Proof. exact C15_Focus.focus_dims. Qed.
Print Assumptions focus_dims.

(* focus succeeds whenever there is something to measure (width and height exist, some point is observed) and
   fails loudly when no point is observed *)
Theorem focus_defined : forall D (b : rframes),
  (2 <= D)%nat -> wf_body D b -> all_missing (all_points R_ops b) = false -> exists r, focus R_ops R_ceil D b = Ok r.
Proof. exact C15_Focus.focus_defined. Qed.
Print Assumptions focus_defined.

Theorem focus_nothing_observed : forall D (b : rframes),
  wf_body D b -> all_missing (all_points R_ops b) = true -> exists e, focus R_ops R_ceil D b = Err e.
Proof. exact C15_Focus.focus_nothing_observed. Qed.
Print Assumptions focus_nothing_observed.

Example focus_hypotheses_satisfiable : wf_body 3 ex_body /\ exists r, focus R_ops R_ceil 3 ex_body = Ok r.
Proof. exact ex_focus. Qed.
Print Assumptions focus_hypotheses_satisfiable.

(* ---- bbox ---- *)
(* per frame and person the output is one (TOP_LEFT, BOTTOM_RIGHT) pair per component, components being the
   consecutive segments of the point list in header order; when the component has an observed point both box
   points are observed with confidence 1 and on every axis [lo, hi] is the smallest interval containing the observed
   coordinates; when it has none (all its points missing, or no points) both are missing with confidence 0 *)
Theorem bbox_tight : forall D N ns (b b' : rframes),
  wf_body D b -> bbox R_ops D N ns b = Ok b' ->
  Forall2 (Forall2 (fun pts pts' =>
    exists boxes : list (rpoint * rpoint),
      pts' = flat_map (fun tb => [fst tb; snd tb]) boxes /\
      Forall2 (fun cpts tb =>
        let tl := fst tb in let br := snd tb in
        wf_point D tl /\ wf_point D br /\
        (all_missing cpts = true -> missing tl = true /\ missing br = true /\ pc tl = 0 /\ pc br = 0) /\
        (all_missing cpts = false -> pc tl = 1 /\ pc br = 1 /\
           forall d, (d < D)%nat -> exists lo hi, observes tl d lo /\ observes br d hi /\
                                                   smallest_interval lo hi (obs_axis R_ops d cpts)))
        (split_comps R_ops ns pts) boxes)) b b' /\
  wf_body D b'.
Proof. exact C15_Bbox.bbox_tight. Qed.
Print Assumptions bbox_tight.

Theorem bbox_components_are_segments : forall ns (pts : list rpoint),
  length (split_comps R_ops ns pts) = length ns /\
  concat (split_comps R_ops ns pts) = firstn (fold_right Nat.add 0%nat ns) pts /\
  ((fold_right Nat.add 0%nat ns <= length pts)%nat -> Forall2 (fun n c => length c = n) ns (split_comps R_ops ns pts)).
Proof. exact (fun ns pts => conj (split_comps_length ns pts) (conj (split_comps_concat ns pts) (split_comps_sizes ns pts))). Qed.
Print Assumptions bbox_components_are_segments.

Theorem bbox_defined : forall D N ns (b : rframes),
  (1 <= D)%nat -> (fold_right Nat.add 0%nat ns <= N)%nat -> exists b', bbox R_ops D N ns b = Ok b'.
Proof. exact C15_Bbox.bbox_defined. Qed.
Print Assumptions bbox_defined.

(* the bbox header names the same components, each with the two box points and one limb between them: its
   point count is that of the bbox body *)
Theorem bbox_header_shape : forall colors comps,
  map hc_name (bbox_header colors comps) = map hc_name comps /\
  map hc_format (bbox_header colors comps) = map hc_format comps /\
  Forall (fun c => hc_points c = C15_Spatial.box_points /\ length (hc_points c) = 2%nat /\ hc_limbs c = [(0, 1)%Z] /\ hc_colors c = colors)
         (bbox_header colors comps) /\
  fold_right Nat.add 0%nat (map (fun c => length (hc_points c)) (bbox_header colors comps)) = (2 * length comps)%nat.
Proof. exact C15_Bbox.bbox_header_shape. Qed.
Print Assumptions bbox_header_shape.

Example bbox_hypotheses_satisfiable :
  (wf_body 3 ex_body /\ exists b', bbox R_ops 3 3 [2; 1]%nat ex_body = Ok b') /\
  all_missing [ex_p 1 2 3; ex_m 5 6 7] = false /\ all_missing [ex_m (-9) 0 9] = true.
Proof. exact (conj ex_bbox ex_bbox_kinds). Qed.
Print Assumptions bbox_hypotheses_satisfiable.

(* ---- ties to the source text (regenerated on every run: coq/gen/Gen_C15.v) ---- *)
Theorem source_tie_bbox_header :
  map C15_GenTie.cps Gen_C15.box_points = C15_Spatial.box_points /\
  Gen_C15.box_limbs = C15_Spatial.box_limbs /\
  length Gen_C15.box_colors = length Gen_C15.box_limbs /\
  Gen_C15.header_bbox_rest = C15_GenTie.lit_header_bbox_rest /\
  Gen_C15.pose_bbox = C15_GenTie.lit_pose_bbox.
Proof. exact C15_GenTie.header_bbox_tie. Qed.
Print Assumptions source_tie_bbox_header.

Theorem source_tie_numpy_body :
  Gen_C15.numpy_init = C15_GenTie.lit_numpy_init /\
  Gen_C15.numpy_flip = C15_GenTie.lit_numpy_flip /\
  Gen_C15.numpy_matmul = C15_GenTie.lit_numpy_matmul /\
  Gen_C15.numpy_bbox = C15_GenTie.lit_numpy_bbox /\
  Gen_C15.bbox_confidence_mask_kind = "IndexAxis0"%string /\
  Gen_C15.bbox_empty_component_kind = "MissingBox"%string /\
  Gen_C15.points_dims = [2; 1; 0; 3]%Z /\
  C15_GenTie.has "flip" Gen_C15.pass_through_methods = true /\ C15_GenTie.has "augment2d" Gen_C15.pass_through_methods = true /\
  C15_GenTie.has "focus" Gen_C15.pass_through_methods = false /\ C15_GenTie.has "bbox" Gen_C15.pass_through_methods = false.
Proof. exact C15_GenTie.numpy_body_tie. Qed.
Print Assumptions source_tie_numpy_body.

Theorem source_tie_augment2d :
  Gen_C15.augment2d_params = ["self"; "rotation_std"; "shear_std"; "scale_std"]%string /\
  Gen_C15.augment2d_steps = C15_GenTie.lit_augment2d_steps /\
  Gen_C15.augment2d_tail = C15_GenTie.lit_augment2d_tail.
Proof. exact C15_GenTie.augment2d_tie. Qed.
Print Assumptions source_tie_augment2d.

Theorem source_tie_focus :
  Gen_C15.pose_focus = C15_GenTie.lit_pose_focus /\
  Gen_C15.dimensions_init_sig = C15_GenTie.lit_dimensions_init_sig /\
  Gen_C15.dimensions_init = C15_GenTie.lit_dimensions_init.
Proof. exact C15_GenTie.focus_tie. Qed.
Print Assumptions source_tie_focus.

Theorem executed_instance_is_F_ops : F64_ops = F_ops.
Proof. exact C15_GenTie.F64_ops_is_F_ops. Qed.
Print Assumptions executed_instance_is_F_ops.

(* ---------- class structure of the current source: overrides and attribute hooks (proofs/ClassesTie.v) ---------- *)
Require Import ClassesTie.
Theorem C15_tie_class_numpy_body : over_numpy_body = Some exp_over_numpy_body.
Proof. exact over_numpy_body_tie. Qed.
Print Assumptions C15_tie_class_numpy_body.
Theorem C15_tie_class_attr_hooks : Gen_Classes.attr_hooks = exp_attr_hooks.
Proof. exact attr_hooks_tie. Qed.
Print Assumptions C15_tie_class_attr_hooks.

