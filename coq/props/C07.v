(* C07 - a truncated file is never mistaken for a valid pose; trailing bytes are ignored.
   Only statements, closed by [exact], each followed by Print Assumptions. *)
From Coq Require Import ZArith NArith List Bool.
Require Import ListN Result Bytes Prog Codec PoseRead CodecRT PoseReadLemmas WindowLemmas StreamRead C03_Window C07_Trunc CodecGenTie C01_Examples C03_Examples.
Import ListNotations.
Open Scope N_scope.

(* EVERY proper prefix [q] (bs = q ++ s, s non-empty: a write interrupted at any byte) of EVERY written file is
   rejected by a full read, whatever the header memo holds. *)
Theorem C07_truncation_rejected :
  forall legacy m p bs q s,
    MemoOK m -> write_pose p = Ok bs -> wf_arrays p -> 1 <= nth 3 (w_shape p) 0 ->
    bs = q ++ s -> s <> [] ->
    exists e, fst (read_bytes legacy m q no_args) = Err e.
Proof. exact read_bytes_truncated. Qed.
Print Assumptions C07_truncation_rejected.

(* a full read from a stream (no window argument) decodes the whole stream as bytes: same rejection *)
Theorem C07_truncation_rejected_stream_full :
  forall legacy m file a, any_arg a = false -> fst (read_stream legacy m file a) = read_bytes legacy m file a.
Proof. exact read_stream_noargs. Qed.
Print Assumptions C07_truncation_rejected_stream_full.

(* a windowed stream read of ANY prefix (proper or not) either raises or returns exactly the intact file's window *)
Theorem C07_truncated_stream_window :
  forall legacy m p bs q s a ws we,
    MemoOK m -> write_pose p = Ok bs -> wf_arrays p -> 1 <= nth 3 (w_shape p) 0 ->
    bs = q ++ s -> any_arg a = true ->
    conflict (a_sf a) (a_st a) = false -> conflict (a_ef a) (a_et a) = false ->
    resolve_start (fps_word p) (a_sf a) (a_st a) = Ok ws -> resolve_end (fps_word p) (a_ef a) (a_et a) = Ok we ->
    valid_window p ws we ->
    match fst (fst (read_stream legacy m q a)) with
    | Ok pose => pose = window_pose p ws we
    | Err _ => True
    end.
Proof. exact read_stream_prefix. Qed.
Print Assumptions C07_truncated_stream_window.

(* bytes appended after a complete file do not change what is read *)
Theorem C07_trailing_ignored :
  forall legacy m p bs x,
    MemoOK m -> write_pose p = Ok bs -> wf_arrays p -> 1 <= nth 3 (w_shape p) 0 ->
    fst (read_bytes legacy m (bs ++ x) no_args) = Ok (canon p).
Proof. exact read_bytes_written_trailing. Qed.
Print Assumptions C07_trailing_ignored.

(* non-vacuity: the 148-byte example file has 148 proper prefixes; the 3-frame example has windows *)
Theorem C07_example_file : exists bs, write_pose ex_pose = Ok bs /\ lenN bs = 148.
Proof. exact ex_pose_written. Qed.
Print Assumptions C07_example_file.
Theorem C07_example_hypotheses : wf_arrays ex_pose /\ 1 <= nth 3 (w_shape ex_pose) 0.
Proof. exact ex_pose_wf. Qed.
Print Assumptions C07_example_hypotheses.
Theorem C07_example_window :
  any_arg ex3_frames = true /\
  conflict (a_sf ex3_frames) (a_st ex3_frames) = false /\ conflict (a_ef ex3_frames) (a_et ex3_frames) = false /\
  resolve_start (fps_word ex3) (a_sf ex3_frames) (a_st ex3_frames) = Ok (Some 1%Z) /\
  resolve_end (fps_word ex3) (a_ef ex3_frames) (a_et ex3_frames) = Ok (Some 2%Z) /\
  valid_window ex3 (Some 1%Z) (Some 2%Z).
Proof. exact ex3_frames_hyps. Qed.
Print Assumptions C07_example_window.

(* ties to the current source: the bounds are enforced by struct.unpack_from / ndarray-from-buffer only *)
Theorem C07_tie_reader_unpack : Gen_Codec.reader_unpack = exp_reader_unpack.
Proof. exact reader_unpack_tie. Qed.
Print Assumptions C07_tie_reader_unpack.
Theorem C07_tie_reader_unpack_numpy : Gen_Codec.reader_unpack_numpy = exp_reader_unpack_numpy.
Proof. exact reader_unpack_numpy_tie. Qed.
Print Assumptions C07_tie_reader_unpack_numpy.
Theorem C07_tie_reader_unpack_str : Gen_Codec.reader_unpack_str = exp_reader_unpack_str.
Proof. exact reader_unpack_str_tie. Qed.
Print Assumptions C07_tie_reader_unpack_str.
Theorem C07_tie_body_read_v0_2 : Gen_Codec.body_read_v0_2 = exp_body_read_v0_2.
Proof. exact body_read_v0_2_tie. Qed.
Print Assumptions C07_tie_body_read_v0_2.
Theorem C07_tie_body_read_frames : Gen_Codec.body_read_frames = exp_body_read_frames.
Proof. exact body_read_frames_tie. Qed.
Print Assumptions C07_tie_body_read_frames.
Theorem C07_tie_header_read : Gen_Codec.header_read = exp_header_read.
Proof. exact header_read_tie. Qed.
Print Assumptions C07_tie_header_read.
Theorem C07_tie_component_read : Gen_Codec.component_read = exp_component_read.
Proof. exact component_read_tie. Qed.
Print Assumptions C07_tie_component_read.
Theorem C07_tie_stream_reader_read_chunk : Gen_Codec.stream_reader_read_chunk = exp_stream_reader_read_chunk.
Proof. exact stream_reader_read_chunk_tie. Qed.
Print Assumptions C07_tie_stream_reader_read_chunk.
Theorem C07_tie_stream_reader_skip : Gen_Codec.stream_reader_skip = exp_stream_reader_skip.
Proof. exact stream_reader_skip_tie. Qed.
Print Assumptions C07_tie_stream_reader_skip.
Theorem C07_tie_reader_methods : Gen_Codec.reader_methods = exp_reader_methods.
Proof. exact reader_methods_tie. Qed.
Print Assumptions C07_tie_reader_methods.
Theorem C07_tie_stream_reader_methods : Gen_Codec.stream_reader_methods = exp_stream_reader_methods.
Proof. exact stream_reader_methods_tie. Qed.
Print Assumptions C07_tie_stream_reader_methods.
Theorem C07_tie_reader_class_attrs : Gen_Codec.reader_class_attrs = [] /\ Gen_Codec.stream_reader_class_attrs = [].
Proof. exact reader_class_attrs_tie. Qed.
Print Assumptions C07_tie_reader_class_attrs.

From Coq Require Import String.
(* the PyTorch and TensorFlow bodies read their blocks through unpack_torch / unpack_tensorflow: both are the NumPy block read
   (the modelled "buffer is too small" check) followed by a conversion, tied here so that an edit of either re-opens C07 *)
Require Import C08_GenTie.
Theorem C07_tie_tensor_readers : (Gen_C08.tensor_readers, Gen_C08.fn_unpack_torch, Gen_C08.fn_unpack_tensorflow) =
  ([ "numpy:unpack_numpy"; "torch:unpack_torch"; "tensorflow:unpack_tensorflow" ],
   [ "import torch"; "arr = self.unpack_numpy(s, shape)"; "return torch.from_numpy(arr)" ],
   [ "import tensorflow as tf"; "arr = self.unpack_numpy(s, shape)"; "return tf.constant(arr)" ])%string.
Proof. exact C08_GenTie.read_source_tie. Qed.
Print Assumptions C07_tie_tensor_readers.
