(* C20 - Batch collation pads without altering or unmasking anything.
   Statements only, each closed by [exact], each followed by Print Assumptions.  Nothing else.
   Vocabulary (proofs/C20_Spec.v): [good masked tail x] = one example's tensor of the field (kind, trailing shape,
   well-formed values and validity); [good_batch masked tail pv batch] = non-empty batch of such, pad value
   representable in every example's dtype; [Lmax] = longest length; [tget] = cell at a multi-index (base/Tensor.v).
   The model is the REPAIRED collator (proposed-fixes/F15-collator-maxlen1.diff); the pinned shortcut is refuted below. *)
From Coq Require Import String List ZArith Arith Bool.
Require Import Result Tensor C20_Collate C20_Spec C20_Pad C20_Rows C20_Dispatch C20_Repair C20_Examples Gen_C20 C20_GenTie.
From Coq Require Import Permutation.
Require Import C20_DictOrder.
Import ListNotations.

(* ---- one field: tensors (clauses 1-3 of the statement) *)
(* on a well-formed homogeneous batch pad_tensors, with any shortcut that is only taken when nothing needs padding, returns exactly the specified batch *)
Theorem pad_tensors_master :
  forall masked tail pv batch sc,
  sc_sound sc -> good_batch masked tail pv batch ->
  pad_tensors_with sc batch pv = Ok (spec_out masked tail pv batch).
Proof. exact C20_Pad.pad_tensors_master. Qed.
Print Assumptions pad_tensors_master.

(* collation of a well-formed homogeneous batch succeeds (what F15 violated) and keeps the kind *)
Theorem collate_total :
  forall masked tail pv batch,
  good_batch masked tail pv batch -> exists o, pad_tensors batch pv = Ok o /\ out_masked o = masked.
Proof. exact C20_Rows.collate_total. Qed.
Print Assumptions collate_total.

(* first axis = example, second = longest length (attained, and an upper bound), then the trailing shape; values and validity both *)
Theorem batch_axes :
  forall masked tail pv batch o,
  good_batch masked tail pv batch -> pad_tensors batch pv = Ok o ->
  shape (out_t o) = length batch :: Lmax batch :: tail /\ wf (out_t o) /\
  (masked = true -> shape (out_m o) = length batch :: Lmax batch :: tail /\ wf (out_m o)) /\
  (forall x, In x batch -> len_of x <= Lmax batch) /\ (exists x, In x batch /\ len_of x = Lmax batch).
Proof. exact C20_Rows.batch_axes. Qed.
Print Assumptions batch_axes.

(* row i starts with example i's values and validity, cell by cell, unchanged (any default: the cells are in range) *)
Theorem collate_rows :
  forall masked tail pv batch o,
  good_batch masked tail pv batch -> pad_tensors batch pv = Ok o ->
  forall i x j ix (dz dz' : Z) (db db' : bool),
    nth_error batch i = Some x -> j < len_of x -> in_range tail ix ->
    tget dz (out_t o) (i :: j :: ix) = tget dz' (tl_t x) (j :: ix) /\
    (masked = true -> tget db (out_m o) (i :: j :: ix) = tget db' (tl_m x) (j :: ix)).
Proof. exact C20_Rows.collate_rows. Qed.
Print Assumptions collate_rows.

(* every padded position holds the pad value (converted to the example's dtype) and is invalid *)
Theorem padding_invalid_and_pad_value :
  forall masked tail pv batch o,
  good_batch masked tail pv batch -> pad_tensors batch pv = Ok o ->
  forall i x j ix (dz : Z) (db : bool),
    nth_error batch i = Some x -> len_of x <= j -> j < Lmax batch -> in_range tail ix ->
    tget dz (out_t o) (i :: j :: ix) = pad_val (tl_dt x) pv /\
    (masked = true -> tget db (out_m o) (i :: j :: ix) = false).
Proof. exact C20_Rows.padding_invalid_and_pad_value. Qed.
Print Assumptions padding_invalid_and_pad_value.

(* the same two clauses in flat form: each row is the example's cells followed by padding cells only *)
Theorem collate_row_layout :
  forall masked tail pv batch o,
  good_batch masked tail pv batch -> pad_tensors batch pv = Ok o ->
  data (out_t o) = concat (map (fun x => data (tl_t x) ++ repeat (pad_val (tl_dt x) pv) ((Lmax batch - len_of x) * prod tail)) batch) /\
  (masked = true ->
   data (out_m o) = concat (map (fun x => data (tl_m x) ++ repeat false ((Lmax batch - len_of x) * prod tail)) batch)).
Proof. exact C20_Rows.collate_row_layout. Qed.
Print Assumptions collate_row_layout.

(* dtype of the batch: promotion over the examples; the common dtype when they agree *)
Theorem result_dtype :
  forall masked tail pv batch o d,
  good_batch masked tail pv batch -> pad_tensors batch pv = Ok o ->
  out_dt o = dts (map tl_dt batch) /\ (Forall (fun x => tl_dt x = d) batch -> out_dt o = d).
Proof. exact C20_Rows.result_dtype. Qed.
Print Assumptions result_dtype.

(* the default pad value 0 fits every dtype and stays 0 *)
Theorem pad_zero :
  forall dt, pad_fits dt 0 = true /\ pad_val dt 0 = 0%Z.
Proof. exact C20_Rows.pad_zero. Qed.
Print Assumptions pad_zero.

(* ---- type dispatch and recursion (clauses 4-5 and the per-field structure) *)
(* a field of masked / plain tensors is collated by pad_tensors *)
Theorem collate_field_tensors :
  forall d rest pv xs,
  rmapM as_tl (d :: rest) = Ok xs -> collate_t d rest pv = pad_tensors xs pv.
Proof. exact C20_Dispatch.collate_field_tensors. Qed.
Print Assumptions collate_field_tensors.

(* integers become one int64 tensor of the batch size, in order *)
Theorem ints_one_integer_tensor :
  forall z zs pv,
  Forall (fun n => in_i64 n = true) (z :: zs) ->
  collate_t (VInt z) (map VInt zs) pv = Ok (OPlain DI64 (mkT [length (z :: zs)] (z :: zs))).
Proof. exact C20_Dispatch.ints_one_integer_tensor. Qed.
Print Assumptions ints_one_integer_tensor.

(* strings are passed through in order, as a field and as whole examples *)
Theorem strings_passed_through_in_order :
  forall s rest pv,
  collate_t (VStr s) rest pv = Ok (OList (VStr s :: rest)) /\
  zero_pad_collator (VStr s :: rest) = Ok (OList (VStr s :: rest)).
Proof. exact C20_Dispatch.strings_passed_through_in_order. Qed.
Print Assumptions strings_passed_through_in_order.

(* a batch of dictionaries yields a dictionary with the first example's keys in order; field k is the collation of the examples' k entries *)
Theorem dict_fields :
  forall kvs rest pv o,
  collate_t (VDict kvs) rest pv = Ok o ->
  exists os, o = ODict os /\ map fst os = map fst kvs /\
    forall k v, assoc k kvs = Some v ->
      exists vs ok, rmapM (field k) rest = Ok vs /\ collate_t v vs 0%Z = Ok ok /\ assoc k os = Some ok.
Proof. exact C20_Dispatch.dict_fields. Qed.
Print Assumptions dict_fields.

(* ... and the fields are gathered BY KEY: later examples whose dictionaries answer every key lookup alike - in particular the same
   items in another insertion order, keys distinct - give the same batch *)
Theorem dict_batch_by_key :
  forall kvs rest rest' pv, Forall2 same_lookups rest rest' ->
  collate_t (VDict kvs) rest pv = collate_t (VDict kvs) rest' pv.
Proof. exact C20_DictOrder.dict_batch_by_key. Qed.
Print Assumptions dict_batch_by_key.
Theorem dict_items_order_irrelevant :
  forall kvs kvs', NoDup (map fst kvs) -> Permutation kvs kvs' -> same_lookups (VDict kvs) (VDict kvs').
Proof. exact C20_DictOrder.permuted_items_same_lookups. Qed.
Print Assumptions dict_items_order_irrelevant.

(* dictionaries nested in dictionaries, any depth: the entry at a path is the collation of the examples' entries at that path *)
Theorem nested_dicts :
  forall p, forall d rest o leaf leaves,
  p <> [] -> collate_t d rest 0%Z = Ok o ->
  get_path p d = Some leaf -> Forall2 (fun b l => get_path p b = Some l) rest leaves ->
  exists o', out_path p o = Some o' /\ collate_t leaf leaves 0%Z = Ok o'.
Proof. exact C20_Dispatch.nested_dicts. Qed.
Print Assumptions nested_dicts.

(* end to end: a tensor field at any depth of a batch of dictionaries is exactly the specified padded batch (pad value 0) *)
Theorem zpc_nested_tensor_field :
  forall p d rest o leaf leaves xs masked tail,
  p <> [] -> zero_pad_collator (d :: rest) = Ok o ->
  get_path p d = Some leaf -> Forall2 (fun b l => get_path p b = Some l) rest leaves ->
  rmapM as_tl (leaf :: leaves) = Ok xs -> Forall (good masked tail) xs ->
  out_path p o = Some (spec_out masked tail 0%Z xs).
Proof. exact C20_Dispatch.zpc_nested_tensor_field. Qed.
Print Assumptions zpc_nested_tensor_field.

(* a batch of tuples yields a tuple of the first example's size; item i is the collation of the examples' items i *)
Theorem tuple_fields :
  forall ds rest o,
  zero_pad_collator (VTuple ds :: rest) = Ok o ->
  exists os, o = OTuple os /\ length os = length ds /\
    forall i di, nth_error ds i = Some di ->
      exists vs oi, rmapM (tuple_item i) rest = Ok vs /\ collate_t di vs 0%Z = Ok oi /\ nth_error os i = Some oi.
Proof. exact C20_Dispatch.tuple_fields. Qed.
Print Assumptions tuple_fields.

(* a batch of bare masked tensors is collated like a field *)
Theorem zpc_masked :
  forall dt t m rest, zero_pad_collator (VMasked dt t m :: rest) = collate_t (VMasked dt t m) rest 0%Z.
Proof. exact C20_Dispatch.zpc_masked. Qed.
Print Assumptions zpc_masked.

(* ---- defect F15 and its repair *)
(* the repaired shortcut never changes the result *)
Theorem shortcut_is_only_an_optimisation :
  forall masked tail pv batch,
  good_batch masked tail pv batch -> pad_tensors_with sc_repaired batch pv = pad_tensors_with sc_none batch pv.
Proof. exact C20_Rows.shortcut_is_only_an_optimisation. Qed.
Print Assumptions shortcut_is_only_an_optimisation.

(* whenever the pinned code returned a result on a well-formed batch, the repaired code returns the same *)
Theorem repair_conservative :
  forall masked tail pv batch o,
  good_batch masked tail pv batch ->
  pad_tensors_with sc_pinned batch pv = Ok o -> pad_tensors batch pv = Ok o.
Proof. exact C20_Repair.repair_conservative. Qed.
Print Assumptions repair_conservative.

(* the pinned `max_len == 1` shortcut rejects a well-formed batch (lengths 1 and 0): collate_total fails for it *)
Theorem f15_pinned_shortcut_refuted :
  (exists batch, good_batch true [2]%nat 0 batch /\ pad_tensors_with sc_pinned batch 0 = Err Value)%Z.
Proof. exact C20_Examples.f15_pinned_shortcut_refuted. Qed.
Print Assumptions f15_pinned_shortcut_refuted.

(* ---- non-vacuity: the hypotheses above are satisfiable by concrete non-trivial values *)
Example good_batch_f15 :
  (good_batch true [2]%nat 0 [ex_a; ex_b])%Z.
Proof. exact C20_Examples.good_batch_f15. Qed.
Print Assumptions good_batch_f15.

Example good_batch_three :
  (good_batch true [2]%nat 7 [ex_c; ex_b; ex_a])%Z.
Proof. exact C20_Examples.good_batch_three. Qed.
Print Assumptions good_batch_three.

Example good_batch_plain :
  (good_batch false []%nat 7 [ex_p1; ex_p2; ex_p1])%Z.
Proof. exact C20_Examples.good_batch_plain. Qed.
Print Assumptions good_batch_plain.

Example f15_repaired_collates :
  (pad_tensors [ex_a; ex_b] 0 =
  Ok (OMasked DF32 (mkT [2;1;2]%nat [1;2;0;0]) (mkT [2;1;2]%nat [true;false;false;false])))%Z.
Proof. exact C20_Examples.f15_repaired_collates. Qed.
Print Assumptions f15_repaired_collates.

Example f15_plain_repaired_collates :
  (pad_tensors [ex_p1; ex_p2; ex_p1] 7 = Ok (OPlain DI64 (mkT [3;1]%nat [7;5;7])))%Z.
Proof. exact C20_Examples.f15_plain_repaired_collates. Qed.
Print Assumptions f15_plain_repaired_collates.

Example collate_three :
  (pad_tensors [ex_c; ex_b; ex_a] 7 =
  Ok (OMasked DF32 (mkT [3;2;2]%nat [3;4;5;6; 7;7;7;7; 1;2;7;7])
        (mkT [3;2;2]%nat [true;true;false;true; false;false;false;false; true;false;false;false])))%Z.
Proof. exact C20_Examples.collate_three. Qed.
Print Assumptions collate_three.

Example rows_hyps_example :
  (nth_error [ex_c; ex_b; ex_a] 2 = Some ex_a /\ (0 < len_of ex_a)%nat /\ in_range [2]%nat [1]%nat)%Z.
Proof. exact C20_Examples.rows_hyps_example. Qed.
Print Assumptions rows_hyps_example.

Example padding_hyps_example :
  (nth_error [ex_c; ex_b; ex_a] 2 = Some ex_a /\ (len_of ex_a <= 1)%nat /\ (1 < Lmax [ex_c; ex_b; ex_a])%nat /\ in_range [2]%nat [0]%nat)%Z.
Proof. exact C20_Examples.padding_hyps_example. Qed.
Print Assumptions padding_hyps_example.

Example nested_example :
  (zero_pad_collator [ex_d1; ex_d2] =
  Ok (ODict [(k_a, ODict [(k_b, OMasked DF32 (mkT [2;1;2]%nat [1;2;0;0]) (mkT [2;1;2]%nat [true;false;false;false]))]);
             (k_n, OPlain DI64 (mkT [2]%nat [5;6]));
             (k_s, OList [VStr [120]; VStr [121]])]))%Z.
Proof. exact C20_Examples.nested_example. Qed.
Print Assumptions nested_example.

Example nested_hyps_example :
  ([k_a; k_b] <> [] /\ get_path [k_a; k_b] ex_d1 = Some (v_of ex_a) /\
  Forall2 (fun b l => get_path [k_a; k_b] b = Some l) [ex_d2] [v_of ex_b] /\
  rmapM as_tl [v_of ex_a; v_of ex_b] = Ok [ex_a; ex_b] /\ Forall (good true [2]%nat) [ex_a; ex_b])%Z.
Proof. exact C20_Examples.nested_hyps_example. Qed.
Print Assumptions nested_hyps_example.

Example ints_hyps_example :
  (Forall (fun n => in_i64 n = true) [5; -2147483648; 9223372036854775807])%Z.
Proof. exact C20_Examples.ints_hyps_example. Qed.
Print Assumptions ints_hyps_example.

Example tuple_example :
  (zero_pad_collator [VTuple [v_of ex_p1; VInt 1; VStr [120]]; VTuple [v_of ex_p2; VInt 0; VStr []]] =
  Ok (OTuple [OPlain DI64 (mkT [2;1]%nat [0;5]); OPlain DI64 (mkT [2]%nat [1;0]); OList [VStr [120]; VStr []]]))%Z.
Proof. exact C20_Examples.tuple_example. Qed.
Print Assumptions tuple_example.

Example heterogeneous_field_first_masked :
  (pad_tensors [TM DF32 (mkT [2]%nat [1;2]) (mkT [2]%nat [true;false]); TP DF32 (mkT [1]%nat [3])] 0 =
  Ok (OMasked DF32 (mkT [2;2]%nat [1;2;3;0]) (mkT [2;2]%nat [true;false;true;true])))%Z.
Proof. exact C20_Examples.heterogeneous_field_first_masked. Qed.
Print Assumptions heterogeneous_field_first_masked.

(* ---- ties to the source as regenerated on this run (coq/gen/Gen_C20.v) *)
Theorem gen_pad_tensors_src_tie :
  (Gen_C20.pad_tensors_src = 
  [ "batch: List[Union[torch.Tensor, MaskedTensor]], pad_value=0";
    "datum = batch[0]";
    "torch_cls = MaskedTorch if isinstance(datum, MaskedTensor) else torch";
    "max_len = max((len(t) for t in batch))";
    "if all((len(t) == max_len for t in batch)):
    return torch_cls.stack(batch, dim=0)";
    "new_batch = []";
    "for tensor in batch:
    missing = list(tensor.shape)
    missing[0] = max_len - tensor.shape[0]
    if missing[0] > 0:
        padding_tensor = torch.full(missing, fill_value=pad_value, dtype=tensor.dtype, device=tensor.device)
        if isinstance(tensor, MaskedTensor):
            padding_tensor = MaskedTensor(tensor=padding_tensor, mask=torch.zeros_like(padding_tensor, dtype=torch.bool))
        tensor = torch_cls.cat([tensor, padding_tensor], dim=0)
    new_batch.append(tensor)";
    "return torch_cls.stack(new_batch, dim=0)" ])%string.
Proof. exact C20_GenTie.pad_tensors_src_tie. Qed.
Print Assumptions gen_pad_tensors_src_tie.

Theorem gen_collate_tensors_src_tie :
  (Gen_C20.collate_tensors_src = 
  [ "batch: List, pad_value=0";
    "datum = batch[0]";
    "if isinstance(datum, dict):
    return zero_pad_collator(batch)";
    "if isinstance(datum, (int, np.int32)):
    return torch.tensor(batch, dtype=torch.long)";
    "if isinstance(datum, (MaskedTensor, torch.Tensor)):
    return pad_tensors(batch, pad_value=pad_value)";
    "return batch" ])%string.
Proof. exact C20_GenTie.collate_tensors_src_tie. Qed.
Print Assumptions gen_collate_tensors_src_tie.

Theorem gen_zero_pad_collator_src_tie :
  (Gen_C20.zero_pad_collator_src = 
  [ "batch";
    "datum = batch[0]";
    "if isinstance(datum, str):
    return batch";
    "if isinstance(datum, tuple):
    return tuple((collate_tensors([b[i] for b in batch]) for i in range(len(datum))))";
    "if isinstance(datum, MaskedTensor):
    return collate_tensors(batch)";
    "keys = datum.keys()";
    "return {k: collate_tensors([b[k] for b in batch]) for k in keys}" ])%string.
Proof. exact C20_GenTie.zero_pad_collator_src_tie. Qed.
Print Assumptions gen_zero_pad_collator_src_tie.

Theorem gen_masked_cat_src_tie :
  (Gen_C20.masked_cat_src = 
  [ "tensors: List[Union[MaskedTensor, torch.Tensor]], dim: int";
    "tensors: List[MaskedTensor] = [t if isinstance(t, MaskedTensor) else MaskedTensor(tensor=t) for t in tensors]";
    "tensor = torch.cat([t.tensor for t in tensors], dim=dim)";
    "mask = torch.cat([t.mask for t in tensors], dim=dim)";
    "return MaskedTensor(tensor=tensor, mask=mask)" ])%string.
Proof. exact C20_GenTie.masked_cat_src_tie. Qed.
Print Assumptions gen_masked_cat_src_tie.

Theorem gen_masked_stack_src_tie :
  (Gen_C20.masked_stack_src = 
  [ "tensors: List[MaskedTensor], dim: int";
    "tensor = torch.stack([t.tensor for t in tensors], dim=dim)";
    "mask = torch.stack([t.mask for t in tensors], dim=dim)";
    "return MaskedTensor(tensor=tensor, mask=mask)" ])%string.
Proof. exact C20_GenTie.masked_stack_src_tie. Qed.
Print Assumptions gen_masked_stack_src_tie.

Theorem gen_masked_init_src_tie :
  (Gen_C20.masked_init_src = 
  [ "self, tensor: torch.Tensor, mask: torch.Tensor=None";
    "self.tensor = tensor";
    "self.mask = mask if mask is not None else torch.ones(tensor.shape, dtype=torch.bool).to(tensor.device)" ])%string.
Proof. exact C20_GenTie.masked_init_src_tie. Qed.
Print Assumptions gen_masked_init_src_tie.

Theorem gen_masked_len_src_tie :
  (Gen_C20.masked_len_src = 
  [ "self";
    "return self.tensor.shape[0]" ])%string.
Proof. exact C20_GenTie.masked_len_src_tie. Qed.
Print Assumptions gen_masked_len_src_tie.

Theorem gen_pad_default_tie :
  (Gen_C20.pad_default = 0%Z)%string.
Proof. exact C20_GenTie.pad_default_tie. Qed.
Print Assumptions gen_pad_default_tie.

Theorem gen_collate_pad_default_tie :
  (Gen_C20.collate_pad_default = 0%Z)%string.
Proof. exact C20_GenTie.collate_pad_default_tie. Qed.
Print Assumptions gen_collate_pad_default_tie.

Theorem gen_shortcut_kind_tie :
  (Gen_C20.shortcut_kind = "AllLenEqualMax")%string.
Proof. exact C20_GenTie.shortcut_kind_tie. Qed.
Print Assumptions gen_shortcut_kind_tie.

Theorem gen_max_len_src_tie :
  (Gen_C20.max_len_src = "max((len(t) for t in batch))")%string.
Proof. exact C20_GenTie.max_len_src_tie. Qed.
Print Assumptions gen_max_len_src_tie.

Theorem gen_full_fill_src_tie :
  (Gen_C20.full_fill_src = "pad_value")%string.
Proof. exact C20_GenTie.full_fill_src_tie. Qed.
Print Assumptions gen_full_fill_src_tie.

Theorem gen_full_dtype_src_tie :
  (Gen_C20.full_dtype_src = "tensor.dtype")%string.
Proof. exact C20_GenTie.full_dtype_src_tie. Qed.
Print Assumptions gen_full_dtype_src_tie.

Theorem gen_pad_mask_fill_src_tie :
  (Gen_C20.pad_mask_fill_src = C20_Collate.pad_mask_fill)%string.
Proof. exact C20_GenTie.pad_mask_fill_src_tie. Qed.
Print Assumptions gen_pad_mask_fill_src_tie.

Theorem gen_pad_at_end_src_tie :
  (Gen_C20.pad_at_end_src = true)%string.
Proof. exact C20_GenTie.pad_at_end_src_tie. Qed.
Print Assumptions gen_pad_at_end_src_tie.

Theorem gen_cat_dim_src_tie :
  (Gen_C20.cat_dim_src = "0")%string.
Proof. exact C20_GenTie.cat_dim_src_tie. Qed.
Print Assumptions gen_cat_dim_src_tie.

Theorem gen_stack_dims_src_tie :
  (Gen_C20.stack_dims_src = [ "0" ])%string.
Proof. exact C20_GenTie.stack_dims_src_tie. Qed.
Print Assumptions gen_stack_dims_src_tie.

Theorem gen_missing_src_tie :
  (Gen_C20.missing_src = 
  [ "missing = list(tensor.shape)";
    "missing[0] = max_len - tensor.shape[0]" ])%string.
Proof. exact C20_GenTie.missing_src_tie. Qed.
Print Assumptions gen_missing_src_tie.

Theorem gen_pad_guard_src_tie :
  (Gen_C20.pad_guard_src = "missing[0] > 0")%string.
Proof. exact C20_GenTie.pad_guard_src_tie. Qed.
Print Assumptions gen_pad_guard_src_tie.

Theorem gen_collate_dispatch_src_tie :
  (Gen_C20.collate_dispatch_src = 
  [ "dict => zero_pad_collator(batch)";
    "(int, np.int32) => torch.tensor(batch, dtype=torch.long)";
    "(MaskedTensor, torch.Tensor) => pad_tensors(batch, pad_value=pad_value)";
    "_ => batch" ])%string.
Proof. exact C20_GenTie.collate_dispatch_src_tie. Qed.
Print Assumptions gen_collate_dispatch_src_tie.

Theorem gen_zero_pad_dispatch_src_tie :
  (Gen_C20.zero_pad_dispatch_src = 
  [ "let datum = batch[0]";
    "str => batch";
    "tuple => tuple((collate_tensors([b[i] for b in batch]) for i in range(len(datum))))";
    "MaskedTensor => collate_tensors(batch)";
    "let keys = datum.keys()";
    "_ => {k: collate_tensors([b[k] for b in batch]) for k in keys}" ])%string.
Proof. exact C20_GenTie.zero_pad_dispatch_src_tie. Qed.
Print Assumptions gen_zero_pad_dispatch_src_tie.

Theorem gen_default_mask_fill_src_tie :
  (Gen_C20.default_mask_fill_src = C20_Collate.default_mask_fill)%string.
Proof. exact C20_GenTie.default_mask_fill_src_tie. Qed.
Print Assumptions gen_default_mask_fill_src_tie.

(* ---------- class structure of the current source: overrides and attribute hooks (proofs/ClassesTie.v) ---------- *)
Require Import ClassesTie.
Theorem C20_tie_class_attr_hooks : Gen_Classes.attr_hooks = exp_attr_hooks.
Proof. exact attr_hooks_tie. Qed.
Print Assumptions C20_tie_class_attr_hooks.

