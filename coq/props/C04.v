(* C04 - files in the older v0.0 and v0.1 layouts decode to what their spec describes; the decoded pose rewritten as
   v0.2 reads back to the same content; a file declaring any other version is refused.
   Only statements, closed by [exact], each followed by Print Assumptions.

   [spec00] / [spec01] are reference encoders written from docs/specs/v0.0.md and v0.1.md (model/C04_Spec.v);
   [c04_legacy] is the Gallina model of NumPyPoseBody.read_v0_0 and PoseBody.read_v0_1 (model/C04_Legacy.v) plugged
   into the Pose.read model of C01/C03 (model/PoseRead.v); [read_stream4] is Pose.read on a seekable stream whose
   reader answers bytes_remaining() from the stream's length (utils/reader.py BytesIOReader, after fix 045e42a).
   [wf00] / [wf01] say that the content is representable in the layout (16-bit counts, 32-bit words, UTF-8 names that fit
   their length prefix, every person lists every point of every component, at least one component, a format of >= 2
   letters, the same number of letters in every component) - the property's "valid file"; for v0.1 additionally
   people >= 1 and points >= 1 (the frame count is a quotient by people * points * (dims + 1) * 4). *)
From Coq Require Import ZArith NArith List Bool.
Require Import ListN Result Bytes Utf8 Utf8S F32 Prog Codec PoseRead ProgLemmas CodecRT PoseReadLemmas WindowLemmas
  C04_Legacy C04_Spec C04_SpecRT C04_Div C04_FpsSweep C04_Stream C04_Handoff C04_V00 C04_V01 C04_Rewrite C04_Unknown
  C04_GenTie C04_Examples.
Import ListNotations.
Open Scope N_scope.

(* ---------- the window a set of read arguments denotes ----------
   [window_of fps F a] (proofs/C04_V01.v): start_frame / end_frame as given, start_time / end_time (milliseconds) as
   floor / ceil of t / 1000 * fps in binary64 (Codec.time_to_frame, the rule of the v0.2 reader), a start below 0 is 0,
   an end beyond the F frames is F; [Err] when a frame and a time bound are given for the same end.
   [window00 c a] / [window01 c a] instantiate it with the file's frame rate and frame count;
   [valid_window F s0 e0]: s0 = 0 or s0 < F, and s0 <= e0. *)

(* ---------- v0.0: every frame's FIRST person, zeros (all missing) for frames without people ---------- *)
(* a windowed read - frame bounds, time bounds or one of each - returns frames [s0, e0) of that view; from a byte string,
   whatever follows the file ([x]), whatever the header memo holds *)
Theorem C04_v00_decodes_window_bytes :
  forall c m a x s0 e0, wf00 c -> MemoOK m -> window00 c a = Ok (s0, e0) -> valid_window (frames00 c) s0 e0 ->
  fst (read_bytes c04_legacy m (spec00 c ++ x) a) = Ok (v00_window_view c s0 e0).
Proof. exact v00_read_bytes_window. Qed.
Print Assumptions C04_v00_decodes_window_bytes.
(* from a seekable stream (any prefetch relation: the stream reader simulates the byte reader on read/advance programs) *)
Theorem C04_v00_decodes_window_stream :
  forall c m a x s0 e0, wf00 c -> MemoOK m -> window00 c a = Ok (s0, e0) -> valid_window (frames00 c) s0 e0 ->
  fst (fst (read_stream4 c04_legacy m (spec00 c ++ x) a)) = Ok (v00_window_view c s0 e0).
Proof. exact v00_read_stream_window. Qed.
Print Assumptions C04_v00_decodes_window_stream.
(* no window argument: every frame *)
Theorem C04_v00_decodes_bytes :
  forall c m a x, wf00 c -> MemoOK m -> any_arg a = false ->
  fst (read_bytes c04_legacy m (spec00 c ++ x) a) = Ok (first_person_view c).
Proof. exact v00_read_bytes. Qed.
Print Assumptions C04_v00_decodes_bytes.
Theorem C04_v00_decodes_stream :
  forall c m a x, wf00 c -> MemoOK m -> any_arg a = false ->
  fst (fst (read_stream4 c04_legacy m (spec00 c ++ x) a)) = Ok (first_person_view c).
Proof. exact v00_read_stream. Qed.
Print Assumptions C04_v00_decodes_stream.
(* the whole view is its window [0, frames) *)
Theorem C04_v00_window_full : forall c, wf00 c -> v00_window_view c 0 (frames00 c) = first_person_view c.
Proof. exact v00_window_full. Qed.
Print Assumptions C04_v00_window_full.
(* the decoder's body alone, as a round trip of the reference encoder's body *)
Theorem C04_v00_body_roundtrip :
  forall c, wf00 c ->
  RTp (read_v0_0 (k0_header c) None None None None) (spec_body00 c) (p_body (first_person_view c)).
Proof. exact v00_body_rt. Qed.
Print Assumptions C04_v00_body_roundtrip.
(* in particular a file that declares zero frames decodes to the empty pose of shape (0, 1, points, dims) (fix F4v) *)
Theorem C04_v00_zero_frames :
  forall c m a, wf00 c -> k0_frames c = [] -> MemoOK m -> any_arg a = false ->
  fst (read_bytes c04_legacy m (spec00 c) a) = Ok (first_person_view c) /\
  b_shape (p_body (first_person_view c)) = [0; 1; spec_points (k0_header c); spec_dims (k0_header c)] /\
  b_data (p_body (first_person_view c)) = [] /\ b_conf (p_body (first_person_view c)) = [] /\
  b_mask (p_body (first_person_view c)) = [].
Proof. exact v00_zero_frames. Qed.
Print Assumptions C04_v00_zero_frames.
(* a start at or beyond the last frame - given as a frame or as a time - is refused (ValueError), bytes and stream *)
Theorem C04_v00_start_beyond_bytes :
  forall c m a x s0 e0, wf00 c -> MemoOK m -> window00 c a = Ok (s0, e0) -> (0 < s0)%Z -> (frames00 c <= s0)%Z ->
  fst (read_bytes c04_legacy m (spec00 c ++ x) a) = Err Value.
Proof. exact v00_beyond_bytes. Qed.
Print Assumptions C04_v00_start_beyond_bytes.
Theorem C04_v00_start_beyond_stream :
  forall c m a x s0 e0, wf00 c -> MemoOK m -> window00 c a = Ok (s0, e0) -> (0 < s0)%Z -> (frames00 c <= s0)%Z ->
  fst (fst (read_stream4 c04_legacy m (spec00 c ++ x) a)) = Err Value.
Proof. exact v00_beyond_stream. Qed.
Print Assumptions C04_v00_start_beyond_stream.
(* a frame and a time bound for the same end are refused (ValueError), bytes and stream *)
Theorem C04_v00_conflict_bytes :
  forall c m a x, wf00 c -> MemoOK m -> conflict (a_sf a) (a_st a) || conflict (a_ef a) (a_et a) = true ->
  fst (read_bytes c04_legacy m (spec00 c ++ x) a) = Err Value.
Proof. exact v00_conflict_bytes. Qed.
Print Assumptions C04_v00_conflict_bytes.
Theorem C04_v00_conflict_stream :
  forall c m a x, wf00 c -> MemoOK m -> conflict (a_sf a) (a_st a) || conflict (a_ef a) (a_et a) = true ->
  fst (fst (read_stream4 c04_legacy m (spec00 c ++ x) a)) = Err Value.
Proof. exact v00_conflict_stream. Qed.
Print Assumptions C04_v00_conflict_stream.

(* ---------- v0.1: the frame count is (bytes remaining) / (people * points * (dims + 1) * 4), not the 16-bit field ---------- *)
(* any number of frames below 2^53 (in particular more than 65535); a windowed read - frame bounds, time bounds or one of
   each - returns frames [s0, e0) *)
Theorem C04_v01_decodes_bytes :
  forall c m a s0 e0, wf01 c -> MemoOK m -> window01 c a = Ok (s0, e0) -> valid_window (frames01 c) s0 e0 ->
  fst (read_bytes c04_legacy m (spec01 c) a) = Ok (v01_view c (Z.to_N s0) (Z.to_N e0)).
Proof. exact v01_read_bytes. Qed.
Print Assumptions C04_v01_decodes_bytes.
Theorem C04_v01_decodes_stream :
  forall c m a s0 e0, wf01 c -> MemoOK m -> window01 c a = Ok (s0, e0) -> valid_window (frames01 c) s0 e0 ->
  fst (fst (read_stream4 c04_legacy m (spec01 c) a)) = Ok (v01_view c (Z.to_N s0) (Z.to_N e0)).
Proof. exact v01_read_stream. Qed.
Print Assumptions C04_v01_decodes_stream.
(* frame bounds only: frames [start, min(end, frames)) *)
Theorem C04_v01_decodes_frames :
  forall c m a, wf01 c -> MemoOK m -> a_st a = None -> a_et a = None ->
  valid_window (frames01 c) (start0 (a_sf a)) (end0 (a_ef a) (frames01 c)) ->
  fst (read_bytes c04_legacy m (spec01 c) a) = Ok (v01_expected c a) /\
  fst (fst (read_stream4 c04_legacy m (spec01 c) a)) = Ok (v01_expected c a).
Proof. exact v01_read_frames. Qed.
Print Assumptions C04_v01_decodes_frames.
(* no bound: the whole recording *)
Theorem C04_v01_decodes_full :
  forall c m a, wf01 c -> MemoOK m -> any_arg a = false ->
  fst (read_bytes c04_legacy m (spec01 c) a) = Ok (v01_full c) /\
  fst (fst (read_stream4 c04_legacy m (spec01 c) a)) = Ok (v01_full c).
Proof. exact v01_read_full. Qed.
Print Assumptions C04_v01_decodes_full.
(* a start at or beyond the last frame - given as a frame or as a time - is refused (ValueError), bytes and stream *)
Theorem C04_v01_start_beyond_bytes :
  forall c m a s0 e0, wf01 c -> MemoOK m -> window01 c a = Ok (s0, e0) -> (0 < s0)%Z -> (frames01 c <= s0)%Z ->
  fst (read_bytes c04_legacy m (spec01 c) a) = Err Value.
Proof. exact v01_beyond_bytes. Qed.
Print Assumptions C04_v01_start_beyond_bytes.
Theorem C04_v01_start_beyond_stream :
  forall c m a s0 e0, wf01 c -> MemoOK m -> window01 c a = Ok (s0, e0) -> (0 < s0)%Z -> (frames01 c <= s0)%Z ->
  fst (fst (read_stream4 c04_legacy m (spec01 c) a)) = Err Value.
Proof. exact v01_beyond_stream. Qed.
Print Assumptions C04_v01_start_beyond_stream.
(* a frame and a time bound for the same end are refused (ValueError), bytes and stream *)
Theorem C04_v01_conflict_bytes :
  forall c m a, wf01 c -> MemoOK m -> conflict (a_sf a) (a_st a) || conflict (a_ef a) (a_et a) = true ->
  fst (read_bytes c04_legacy m (spec01 c) a) = Err Value.
Proof. exact v01_conflict_bytes. Qed.
Print Assumptions C04_v01_conflict_bytes.
Theorem C04_v01_conflict_stream :
  forall c m a, wf01 c -> MemoOK m -> conflict (a_sf a) (a_st a) || conflict (a_ef a) (a_et a) = true ->
  fst (fst (read_stream4 c04_legacy m (spec01 c) a)) = Err Value.
Proof. exact v01_conflict_stream. Qed.
Print Assumptions C04_v01_conflict_stream.
(* frame bounds alone denote the clipped pair; no argument denotes the whole file *)
Theorem C04_window_of_frames :
  forall fps F a, a_st a = None -> a_et a = None -> window_of fps F a = Ok (start0 (a_sf a), end0 (a_ef a) F).
Proof. exact window_of_frames. Qed.
Print Assumptions C04_window_of_frames.
Theorem C04_window_of_no_args : forall fps F a, any_arg a = false -> window_of fps F a = Ok (0%Z, F).
Proof. exact no_args_window. Qed.
Print Assumptions C04_window_of_no_args.
(* CPython's int(a / b) on exact multiples: the float quotient is exact below 2^53 (binary64 division, SpecFloat) *)
Theorem C04_py_int_truediv_exact :
  forall F b : Z, (0 <= F < 2 ^ 53)%Z -> (0 < b)%Z -> py_int_truediv (F * b) b = Ok F.
Proof. exact py_int_truediv_exact. Qed.
Print Assumptions C04_py_int_truediv_exact.

(* ---------- rewriting the decoded pose as v0.2 ---------- *)
(* Pose.write accepts it and the written file reads back to the same header (version 0.2), fps, values, confidences
   and missing pattern ([rewrite_view]); for every legacy decoder plugged in and every memo state; for the whole decoded
   pose and for every decoded window *)
Theorem C04_legacy_rewrite_v00 :
  forall c, wf00 c ->
  exists bs, write_pose (to_wpose (first_person_view c)) = Ok bs /\
    forall legacy m, MemoOK m -> fst (read_bytes legacy m bs no_args) = Ok (rewrite_view (first_person_view c)).
Proof. exact legacy_rewrite_v00. Qed.
Print Assumptions C04_legacy_rewrite_v00.
Theorem C04_legacy_rewrite_v00_window :
  forall c s0 e0, wf00 c -> (0 <= s0 <= e0)%Z -> (e0 <= frames00 c)%Z ->
  exists bs, write_pose (to_wpose (v00_window_view c s0 e0)) = Ok bs /\
    forall legacy m, MemoOK m -> fst (read_bytes legacy m bs no_args) = Ok (rewrite_view (v00_window_view c s0 e0)).
Proof. exact legacy_rewrite_v00_window. Qed.
Print Assumptions C04_legacy_rewrite_v00_window.
Theorem C04_legacy_rewrite_v01 :
  forall c s0 e0, wf01 c -> (0 <= s0 <= e0)%Z -> (e0 <= frames01 c)%Z -> (e0 - s0 < 4294967296)%Z ->
  exists bs, write_pose (to_wpose (v01_view c (Z.to_N s0) (Z.to_N e0))) = Ok bs /\
    forall legacy m, MemoOK m ->
    fst (read_bytes legacy m bs no_args) = Ok (rewrite_view (v01_view c (Z.to_N s0) (Z.to_N e0))).
Proof. exact legacy_rewrite_v01. Qed.
Print Assumptions C04_legacy_rewrite_v01.
(* a 16-bit fps survives the float32 round trip of the v0.2 writer: all 65536 values, by a sweep (finite domain) *)
Theorem C04_fps_roundtrip :
  forall n, u16 n -> pack_f32 (f32_to_f64 (f32_of_u16 n)) = Some (f32_of_u16 n).
Proof. exact fps_roundtrip. Qed.
Print Assumptions C04_fps_roundtrip.

(* ---------- any other version is refused ---------- *)
(* whatever legacy decoders are plugged in: once the header parses and its version float is none of 0, 0.1, 0.2 (at the
   3-decimal granularity both readers define), Pose.read raises NotImplementedError - bytes and stream *)
Theorem C04_unknown_version_bytes :
  forall legacy m q a h o, MemoOK m ->
  run_plain rd_header {| pbuf := q; poff := 0 |} = Ok (h, {| pbuf := q; poff := o |}) ->
  version_class (h_version h) = VUnknown ->
  fst (read_bytes legacy m q a) = Err NotImplemented.
Proof. exact unknown_version_bytes. Qed.
Print Assumptions C04_unknown_version_bytes.
Theorem C04_unknown_version_stream :
  forall legacy m q a h o, MemoOK m ->
  run_plain rd_header {| pbuf := q; poff := 0 |} = Ok (h, {| pbuf := q; poff := o |}) ->
  version_class (h_version h) = VUnknown ->
  fst (fst (read_stream4 legacy m q a)) = Err NotImplemented.
Proof. exact unknown_version_stream. Qed.
Print Assumptions C04_unknown_version_stream.
(* which floats are which version: the written ones, the 3-decimal boundaries on both sides, and clearly foreign ones *)
Theorem C04_version_classes :
  version_class 0 = V00 /\ version_class 2147483648 = V00 /\ version_class v01w = V01 /\ version_class version_word = V02 /\
  version_class 1036812288 = V01 /\ version_class 1045236941 = V02 /\
  version_class 1050253722 = VUnknown /\ version_class 1065353216 = VUnknown /\
  version_class 3184315597 = VUnknown /\ version_class 1 = VUnknown /\
  version_class 2143289344 = VUnknown /\ version_class 2139095040 = VUnknown /\
  version_class 1036764839 = VUnknown /\ version_class 1036764840 = V01 /\
  version_class 1036899057 = V01 /\ version_class 1036899058 = VUnknown.
Proof. exact version_examples. Qed.
Print Assumptions C04_version_classes.

(* ---------- non-vacuity: concrete files meeting the hypotheses ---------- *)
Theorem C04_example_v00 :
  (wf00 ex00 /\ k0_frames ex00 <> []) /\
  fst (read_bytes c04_legacy None (spec00 ex00) no_args) = Ok (first_person_view ex00) /\
  b_shape (p_body (first_person_view ex00)) = [3; 1; 3; 2] /\
  b_data (p_body (first_person_view ex00)) = [f1; f2; f1; f1; f2; f2; 0; 0; 0; 0; 0; 0; f2; f1; fh; fh; f1; f1] /\
  b_conf (p_body (first_person_view ex00)) = [f1; 0; fm1; 0; 0; 0; fnan; fh; f1] /\
  b_mask (p_body (first_person_view ex00)) = [false; true; false; true; true; true; false; false; false].
Proof. exact (conj ex00_wf ex00_decodes). Qed.
Print Assumptions C04_example_v00.
Theorem C04_example_v00_zero_frames :
  (wf00 ex00_empty /\ k0_frames ex00_empty = []) /\
  fst (read_bytes c04_legacy None (spec00 ex00_empty) no_args) = Ok (first_person_view ex00_empty) /\
  b_shape (p_body (first_person_view ex00_empty)) = [0; 1; 3; 2] /\ b_data (p_body (first_person_view ex00_empty)) = [].
Proof. exact (conj ex00_empty_wf ex00_empty_decodes). Qed.
Print Assumptions C04_example_v00_zero_frames.
Theorem C04_example_v01 :
  wf01 ex01 /\
  window01 ex01 ex_win01 = Ok (1, 2)%Z /\ valid_window (frames01 ex01) 1 2 /\
  window01 ex01 no_args = Ok (0, 3)%Z /\ valid_window (frames01 ex01) 0 3 /\
  b_shape (p_body (v01_view ex01 1 2)) = [1; 1; 3; 2] /\
  b_data (p_body (v01_view ex01 1 2)) = [fh; fh; fh; fh; fh; fh] /\
  b_shape (p_body (v01_view ex01 0 3)) = [3; 1; 3; 2].
Proof. exact (conj ex01_wf ex01_window). Qed.
Print Assumptions C04_example_v01.
(* windows are honoured (the witnesses of the former C04_v00_window_refuted / C04_v01_time_window_refuted, now positive):
   v0.0, three frames with 2, 0 and 1 people at 30 fps - frames [1,2) by frame bounds and by [34 ms, 66 ms), frames [2,3)
   by start_frame = 2 and end_time = 100 ms, from bytes and from a stream *)
Theorem C04_example_v00_window :
  window00 ex00 ex_win = Ok (1, 2)%Z /\ window00 ex00 ex_time00 = Ok (1, 2)%Z /\ window00 ex00 ex_mixed00 = Ok (2, 3)%Z /\
  time_to_frame true 100 (fps_value (k0_fps ex00)) = Ok 3%Z /\
  valid_window (frames00 ex00) 1 2 /\ valid_window (frames00 ex00) 2 3 /\
  fst (read_bytes c04_legacy None (spec00 ex00) ex_win) = Ok (v00_window_view ex00 1 2) /\
  fst (fst (read_stream4 c04_legacy None (spec00 ex00) ex_win)) = Ok (v00_window_view ex00 1 2) /\
  fst (read_bytes c04_legacy None (spec00 ex00) ex_time00) = Ok (v00_window_view ex00 1 2) /\
  fst (fst (read_stream4 c04_legacy None (spec00 ex00) ex_time00)) = Ok (v00_window_view ex00 1 2) /\
  fst (fst (read_stream4 c04_legacy None (spec00 ex00) ex_mixed00)) = Ok (v00_window_view ex00 2 3) /\
  b_shape (p_body (v00_window_view ex00 1 2)) = [1; 1; 3; 2] /\
  b_data (p_body (v00_window_view ex00 1 2)) = [0; 0; 0; 0; 0; 0] /\
  b_mask (p_body (v00_window_view ex00 1 2)) = [true; true; true] /\
  b_data (p_body (v00_window_view ex00 2 3)) = [f2; f1; fh; fh; f1; f1] /\
  b_conf (p_body (v00_window_view ex00 2 3)) = [fnan; fh; f1].
Proof. exact ex00_window. Qed.
Print Assumptions C04_example_v00_window.
(* v0.1, three frames at 25 fps: [40 ms, 80 ms) is frames [1,2) *)
Theorem C04_example_v01_time_window :
  time_to_frame false 40 (fps_value (k1_fps ex01)) = Ok 1%Z /\ time_to_frame true 80 (fps_value (k1_fps ex01)) = Ok 2%Z /\
  window01 ex01 ex_time01 = Ok (1, 2)%Z /\
  fst (read_bytes c04_legacy None (spec01 ex01) ex_time01) = Ok (v01_view ex01 1 2) /\
  fst (fst (read_stream4 c04_legacy None (spec01 ex01) ex_time01)) = Ok (v01_view ex01 1 2) /\
  b_shape (p_body (v01_view ex01 1 2)) = [1; 1; 3; 2] /\
  b_conf (p_body (v01_view ex01 1 2)) = [f1; f1; f1].
Proof. exact ex01_time_window. Qed.
Print Assumptions C04_example_v01_time_window.
(* refused arguments on the same files: a start at the frame count by frame and by time, both bounds for one end *)
Theorem C04_example_v00_rejected :
  window00 ex00 ex_beyond00 = Ok (3, 3)%Z /\ window00 ex00 ex_beyond_time00 = Ok (3, 3)%Z /\ frames00 ex00 = 3%Z /\
  fst (read_bytes c04_legacy None (spec00 ex00) ex_beyond00) = Err Value /\
  fst (fst (read_stream4 c04_legacy None (spec00 ex00) ex_beyond_time00)) = Err Value /\
  conflict (a_sf ex_conflict) (a_st ex_conflict) || conflict (a_ef ex_conflict) (a_et ex_conflict) = true /\
  conflict (a_sf ex_conflict_end) (a_st ex_conflict_end) || conflict (a_ef ex_conflict_end) (a_et ex_conflict_end) = true /\
  fst (read_bytes c04_legacy None (spec00 ex00) ex_conflict) = Err Value /\
  fst (fst (read_stream4 c04_legacy None (spec00 ex00) ex_conflict_end)) = Err Value.
Proof. exact ex00_rejected. Qed.
Print Assumptions C04_example_v00_rejected.
Theorem C04_example_v01_rejected :
  window01 ex01 ex_beyond01 = Ok (3, 3)%Z /\ window01 ex01 ex_beyond_time01 = Ok (3, 3)%Z /\ frames01 ex01 = 3%Z /\
  fst (read_bytes c04_legacy None (spec01 ex01) ex_beyond01) = Err Value /\
  fst (fst (read_stream4 c04_legacy None (spec01 ex01) ex_beyond_time01)) = Err Value /\
  fst (read_bytes c04_legacy None (spec01 ex01) ex_conflict) = Err Value /\
  fst (fst (read_stream4 c04_legacy None (spec01 ex01) ex_conflict_end)) = Err Value.
Proof. exact ex01_rejected. Qed.
Print Assumptions C04_example_v01_rejected.
(* a recording of 70 000 frames (16-bit field = 70000 mod 65536) is a valid v0.1 content *)
Theorem C04_example_v01_long : wf01 ex01_long /\ frames01 ex01_long = 70000%Z /\ (65535 < frames01 ex01_long)%Z.
Proof. exact ex01_long_wf. Qed.
Print Assumptions C04_example_v01_long.
Theorem C04_example_unknown :
  wf_header (hdr 1050253722) /\ version_class (h_version (hdr 1050253722)) = VUnknown /\
  fst (read_bytes c04_legacy None (spec_header (hdr 1050253722) ++ spec_body01 ex01) no_args) = Err NotImplemented.
Proof. exact ex_unknown_refused. Qed.
Print Assumptions C04_example_unknown.
Theorem C04_example_rewrite :
  (exists bs, write_pose (to_wpose (first_person_view ex00)) = Ok bs /\ lenN bs = 184) /\
  b_mask (p_body (rewrite_view (first_person_view ex00))) = b_mask (p_body (first_person_view ex00)) /\
  b_conf (p_body (rewrite_view (first_person_view ex00))) = b_conf (p_body (first_person_view ex00)).
Proof. exact ex_rewrite. Qed.
Print Assumptions C04_example_rewrite.

(* ---------- ties to the current source (regenerated on every run into gen/Gen_C04.v) ---------- *)
Theorem C04_tie_read_v0_1_signature : Gen_C04.read_v0_1_signature = exp_read_v0_1_signature.
Proof. exact read_v0_1_signature_tie. Qed.
Print Assumptions C04_tie_read_v0_1_signature.
Theorem C04_tie_read_v0_1_body : Gen_C04.read_v0_1_body = exp_read_v0_1_body.
Proof. exact read_v0_1_body_tie. Qed.
Print Assumptions C04_tie_read_v0_1_body.
Theorem C04_tie_read_dispatch : Gen_C04.read_dispatch = exp_read_dispatch.
Proof. exact read_dispatch_tie. Qed.
Print Assumptions C04_tie_read_dispatch.
Theorem C04_tie_read_v0_0_signature : Gen_C04.read_v0_0_signature = exp_read_v0_0_signature.
Proof. exact read_v0_0_signature_tie. Qed.
Print Assumptions C04_tie_read_v0_0_signature.
Theorem C04_tie_read_v0_0_body : Gen_C04.read_v0_0_body = exp_read_v0_0_body.
Proof. exact read_v0_0_body_tie. Qed.
Print Assumptions C04_tie_read_v0_0_body.
Theorem C04_tie_reader_bytes_left : Gen_C04.reader_bytes_left = exp_reader_bytes_left.
Proof. exact reader_bytes_left_tie. Qed.
Print Assumptions C04_tie_reader_bytes_left.
Theorem C04_tie_reader_bytes_remaining : Gen_C04.reader_bytes_remaining = exp_reader_bytes_remaining.
Proof. exact reader_bytes_remaining_tie. Qed.
Print Assumptions C04_tie_reader_bytes_remaining.
Theorem C04_tie_stream_reader_bytes_remaining : Gen_C04.stream_reader_bytes_remaining = exp_stream_reader_bytes_remaining.
Proof. exact stream_reader_bytes_remaining_tie. Qed.
Print Assumptions C04_tie_stream_reader_bytes_remaining.
Theorem C04_tie_reader_advance : Gen_C04.reader_advance = exp_reader_advance.
Proof. exact reader_advance_tie. Qed.
Print Assumptions C04_tie_reader_advance.
Theorem C04_tie_stream_reader_methods : Gen_C04.stream_reader_methods = exp_stream_reader_methods.
Proof. exact stream_reader_methods_tie. Qed.
Print Assumptions C04_tie_stream_reader_methods.
