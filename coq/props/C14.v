(* C14 - Interpolation resamples time faithfully and never invents observations.
   Model: model/C14_Count.v, C14_Interp.v (NumPyPoseBody.interpolate with the repaired index default, F17).
   Theorems over exact reals (Num.R_ops) for every body, person, point, rate and kind; the frame count over the
   kernel's binary64 floats.  SciPy's quadratic / cubic interp1d is any function sp with [spline_ok sp]
   (one value per column; interpolates its nodes; reproduces polynomials of degree <= k, k = 2, 3): the claim
   for those kinds is PARTIAL in that sense.  Rounding of the binary64 execution is not modelled. *)
From Coq Require Import Reals List Arith Bool ZArith PrimFloat SpecFloat FloatOps Sorted.
Require Import Num Result C14_Count C14_Interp C14_Index C14_Grid C14_Lerp C14_Eval C14_Obs C14_Track C14_Body C14_CountP
               C14_CountAll C14_Main C14_Witness C14_Examples C14_GenTie Gen_C14.
Import ListNotations.
Set Warnings "-inexact-float".

(* ---------- frame count *)
Theorem frame_count : forall sp (b : bodyR) new_fps k (o : outR), interpolate R_ops sp b new_fps k = Ok o ->
  exists n, new_frame_count (frames_of b) (target b new_fps) (b_fps R_ops b) = Ok n /\
    o_fps R_ops o = target b new_fps /\
    length (o_data R_ops o) = n /\ length (o_conf R_ops o) = n /\ length (o_mask R_ops o) = n /\
    (forall j, j < n -> length (nth j (o_data R_ops o) []) = b_people R_ops b /\ length (nth j (o_conf R_ops o) []) = b_people R_ops b /\
       forall p, p < b_people R_ops b -> length (nth p (nth j (o_data R_ops o) []) []) = b_points R_ops b /\
                                         length (nth p (nth j (o_conf R_ops o) []) []) = b_points R_ops b).
Proof. exact frame_count_body. Qed.
Print Assumptions frame_count.
(* the count is the integer nearest to the binary64 value of frames * new / old, the even one at a tie *)
Theorem frame_count_is_round_half_even : forall F new old n, new_frame_count F new old = Ok n ->
  PrimFloat.eqb old 0 = false /\
  match Prim2SF (count_quotient F new old) with
  | S754_zero _ => n = 0
  | S754_finite s m e => exists z, nearest_even m e z /\ Z.of_nat n = (if s then - z else z)%Z
  | _ => False
  end.
Proof. exact frame_count_rounding. Qed.
Print Assumptions frame_count_is_round_half_even.
Example frame_count_example :
  exists o, interpolate R_ops wit ex_body (Some 15%float) Cubic = Ok o /\ length (o_data R_ops o) = 12.
Proof. exact ex_frame_count. Qed.
Print Assumptions frame_count_example.
Example frame_count_ties_and_non_integer_ratio :
  new_frame_count 5 15%float 10%float = Ok 8 /\ new_frame_count 3 15%float 10%float = Ok 4 /\
  new_frame_count 7 24%float 29.97%float = Ok 6.
Proof. exact ex_half_even. Qed.
Print Assumptions frame_count_ties_and_non_integer_ratio.
(* interpolate returns a result on every well-formed body with frames <> 1, people, points > 0 and a defined count *)
Theorem interpolate_total : forall sp, spline_shape sp -> forall (b : bodyR) new_fps k, wf_body b -> forall n,
  frames_of b <> 1 -> 0 < b_people R_ops b -> 0 < b_points R_ops b ->
  new_frame_count (frames_of b) (target b new_fps) (b_fps R_ops b) = Ok n ->
  exists o, interpolate R_ops sp b new_fps k = Ok o.
Proof. intros sp Hs b new_fps k Hw n. exact (interpolate_defined sp b new_fps k Hw n). Qed.
Print Assumptions interpolate_total.

(* ---------- first and last frames aligned *)
Theorem ends_aligned_times : forall F n, 2 <= F -> 2 <= n ->
  (t_new n 0 = t_old F 0 /\ t_new n (n - 1) = t_old F (F - 1) /\ t_new n 0 = 0 /\ t_new n (n - 1) = 1)%R.
Proof. intros F n HF Hn. unfold t_new, t_old. rewrite !grid_first, !grid_last by (try assumption; apply Nat.le_trans with 2; auto). auto. Qed.
Print Assumptions ends_aligned_times.
Theorem ends_aligned : forall sp, spline_ok sp -> forall b new_fps k o n, interpolated sp b new_fps k o n ->
  forall p t, in_body b p t -> 2 <= frames_of b ->
  (1 <= n -> seen b 0 p t -> out_row o 0 p t = in_row b 0 p t /\ out_mask o 0 p t = false) /\
  (2 <= n -> seen b (frames_of b - 1) p t ->
     out_row o (n - 1) p t = in_row b (frames_of b - 1) p t /\ out_mask o (n - 1) p t = false).
Proof. exact ends_body. Qed.
Print Assumptions ends_aligned.
Example ends_aligned_example : seen ex_body 0 0 0 /\ seen ex_body (frames_of ex_body - 1) 0 1.
Proof. exact ex_ends. Qed.
Print Assumptions ends_aligned_example.

(* ---------- identity at an unchanged rate *)
Theorem identity_rate : forall sp, spline_ok sp -> forall b new_fps k o n, interpolated sp b new_fps k o n ->
  forall p t, in_body b p t -> forall i, n = frames_of b -> seen b i p t ->
  out_row o i p t = in_row b i p t /\ out_mask o i p t = false.
Proof. exact identity_body. Qed.
Print Assumptions identity_rate.
(* identity_rate takes "the count is F" as its hypothesis; at an unchanged rate the count IS F:
   (i) closed proof by computation for F = 2..1024 and 24 usual rates; *)
Theorem identity_rate_count_partial : forall F r, 2 <= F <= 1024 -> In r usual_rates -> new_frame_count F r r = Ok F.
Proof. exact same_rate_count. Qed.
Print Assumptions identity_rate_count_partial.
(* (ii) for EVERY F below 2^50 and every positive finite rate r = m * 2^e, m < 2^53, -553 <= e <= 447 (2^-553 <= r < 2^500;
   [rate_ok] is that boolean test): round(F * r / r) = F in binary64, by a rounding-error analysis over the reals - the kernel's
   primitive floats connected to Flocq's correctly rounded operations (standard library FloatAxioms, real-number axioms, excluded
   middle: see Print Assumptions) *)
Theorem identity_rate_count : forall (F : nat) (r : float),
  1 <= F -> (Z.of_nat F < 2 ^ 50)%Z -> rate_ok r = true -> new_frame_count F r r = Ok F.
Proof. exact same_rate_count_all. Qed.
Print Assumptions identity_rate_count.
Example identity_rate_count_usual_rates : forallb rate_ok usual_rates = true.
Proof. exact usual_rates_ok. Qed.
Print Assumptions identity_rate_count_usual_rates.
Example identity_rate_count_example :
  new_frame_count (Z.to_nat 123456789) 29.97%float 29.97%float = Ok (Z.to_nat 123456789).
Proof. exact same_rate_count_all_example. Qed.
Print Assumptions identity_rate_count_example.
Example identity_rate_example :
  exists o, interpolated wit ex_body None Quadratic o 8 /\ 8 = frames_of ex_body /\ seen ex_body 3 0 0.
Proof. exact ex_identity. Qed.
Print Assumptions identity_rate_example.
(* more generally, a new frame that coincides in time with an observed frame returns it (every kind) *)
Theorem observed_frame_reproduced : forall sp, spline_ok sp -> forall b new_fps k o n, interpolated sp b new_fps k o n ->
  forall p t, in_body b p t -> forall j i, j < n -> seen b i p t -> t_new n j = t_old (frames_of b) i ->
  out_row o j p t = in_row b i p t /\ out_mask o j p t = false.
Proof. exact node_body. Qed.
Print Assumptions observed_frame_reproduced.

(* ---------- affine trajectories are reproduced exactly by every kind *)
Theorem affine_reproduced : forall sp, spline_ok sp -> forall b new_fps k o n, interpolated sp b new_fps k o n ->
  forall p t, in_body b p t -> forall c (a b0 : R) j i1 i2, c < width b -> j < n ->
  (forall i, seen b i p t -> col c (in_row b i p t) = a * t_old (frames_of b) i + b0)%R ->
  seen b i1 p t -> (t_old (frames_of b) i1 <= t_new n j)%R ->
  seen b i2 p t -> (t_new n j <= t_old (frames_of b) i2)%R ->
  (col c (out_row o j p t) = a * t_new n j + b0)%R.
Proof. exact affine_body. Qed.
Print Assumptions affine_reproduced.
Example affine_reproduced_example :
  (forall i, seen ex_body i 0 0 -> col 0 (in_row ex_body i 0 0) = 14 * t_old 8 i + 1)%R /\
  seen ex_body 1 0 0 /\ (t_old 8 1 <= t_new 12 3)%R /\ seen ex_body 3 0 0 /\ (t_new 12 3 <= t_old 8 3)%R.
Proof. exact ex_affine. Qed.
Print Assumptions affine_reproduced_example.

(* ---------- support: nothing before the first / after the last observation, nothing for unobserved points *)
Theorem support : forall sp, spline_ok sp -> forall b new_fps k o n, interpolated sp b new_fps k o n ->
  forall p t, in_body b p t -> forall j, j < n ->
  (forall i, seen b i p t -> t_new n j < t_old (frames_of b) i)%R \/
  (forall i, seen b i p t -> t_old (frames_of b) i < t_new n j)%R ->
  out_row o j p t = zrow (width b) /\ out_conf o j p t = 0%R /\ out_mask o j p t = true.
Proof. exact support_body. Qed.
Print Assumptions support.
Example support_example :
  (forall i, seen ex_body i 0 0 -> t_old 8 i < t_new 12 11)%R /\ seen ex_body 6 0 0 /\
  (forall i, seen ex_body i 0 1 -> t_new 12 0 < t_old 8 i)%R /\ seen ex_body 2 0 1.
Proof. exact ex_support. Qed.
Print Assumptions support_example.
(* the index searches and the zero padding, for arbitrary tests that stay true once true (no real numbers) *)
Theorem support_index_logic : forall (A B : Type) (pf pl : A -> bool) (l : list A) (z : B),
  mono_along pf l -> mono_along pl l -> (forall x, pl x = true -> pf x = true) ->
  forall (g : A -> B) (d : A) (j : nat), j < length l ->
  nth j (padded pf pl l z (map g)) z = (if inside pf pl (nth j l d) then g (nth j l d) else z).
Proof. exact @padded_map_nth. Qed.
Print Assumptions support_index_logic.
Theorem support_index_logic_one_observation : forall (A B : Type) (pf pl : A -> bool) (l : list A) (z : B),
  mono_along pf l -> mono_along pl l -> (forall x, pl x = true -> pf x = true) ->
  (forall i j d, i < length l -> j < length l -> inside pf pl (nth i l d) = true -> inside pf pl (nth j l d) = true -> i = j) ->
  forall (y : B) (d : A) (j : nat), j < length l ->
  nth j (padded pf pl l z (fun _ => [y])) z = (if inside pf pl (nth j l d) then y else z).
Proof. exact @padded_const_nth. Qed.
Print Assumptions support_index_logic_one_observation.
(* interp1d is only evaluated inside [first, last]: its bounds error needs no branch in the model *)
Theorem interp1d_never_out_of_bounds : forall w F n rows, wf_rows w F rows -> 1 <= length (compress R_ops (gridR F) rows) ->
  let obs := compress R_ops (gridR F) rows in
  forall x, In x (slice (first_index R_ops (first_x obs) (gridR n)) (last_index R_ops (last_x obs) (gridR n)) (gridR n)) ->
    (first_x obs <= x <= last_x obs)%R.
Proof. exact no_bounds_error. Qed.
Print Assumptions interp1d_never_out_of_bounds.

(* ---------- linear interpolation stays within the neighbouring observations (coordinates and confidence) *)
Theorem linear_in_range : forall sp, spline_ok sp -> forall b new_fps k o n, interpolated sp b new_fps k o n ->
  forall p t, in_body b p t -> forall c j i1' i2', k = Linear -> c < width b -> j < n ->
  seen b i1' p t -> (t_old (frames_of b) i1' <= t_new n j)%R -> seen b i2' p t -> (t_new n j <= t_old (frames_of b) i2')%R ->
  exists i1 i2, seen b i1 p t /\ seen b i2 p t /\
    (forall i, i1 < i < i2 -> observedR (in_row b i p t) = false) /\
    (t_old (frames_of b) i1 <= t_new n j <= t_old (frames_of b) i2)%R /\
    (Rmin (col c (in_row b i1 p t)) (col c (in_row b i2 p t)) <= col c (out_row o j p t)
       <= Rmax (col c (in_row b i1 p t)) (col c (in_row b i2 p t)))%R.
Proof. exact linear_in_range_body. Qed.
Print Assumptions linear_in_range.
Example linear_in_range_example :
  (exists o, interpolated wit ex_body (Some 15%float) Linear o 12) /\
  seen ex_body 1 0 0 /\ (t_old 8 1 <= t_new 12 3)%R /\ seen ex_body 3 0 0 /\ (t_new 12 3 <= t_old 8 3)%R.
Proof. split; [exact (ex_interpolated Linear)|exact (proj2 ex_affine)]. Qed.
Print Assumptions linear_in_range_example.

(* ---------- the assumptions about SciPy's splines are satisfiable (non-vacuity of every theorem above) *)
Theorem spline_hypotheses_satisfiable : exists sp : spline_t, spline_shape sp /\ spline_nodes sp /\ spline_poly sp.
Proof. exact C14_Witness.spline_hypotheses_satisfiable. Qed.
Print Assumptions spline_hypotheses_satisfiable.

(* ---------- ties to the source regenerated on this run (gen/Gen_C14.v) *)
Theorem frame_count_tie : forall frames new old, new_frame_count frames new old = ccount frame_count_expr frames new old.
Proof. exact C14_GenTie.frame_count_tie. Qed.
Print Assumptions frame_count_tie.
Theorem first_search_tie : forall O a l, first_index O a l = search O first_search a l.
Proof. exact C14_GenTie.first_search_tie. Qed.
Print Assumptions first_search_tie.
Theorem last_search_tie : forall O a l, last_index O a l = search O last_search a l.
Proof. exact C14_GenTie.last_search_tie. Qed.
Print Assumptions last_search_tie.
Theorem kind_rule_tie : forall k c, this_kind k c = kind_by_rule kind_rule k c.
Proof. exact C14_GenTie.kind_rule_tie. Qed.
Print Assumptions kind_rule_tie.
Theorem mask_rule_tie : forall O row, observed O row = negb (cmp_b O (fst confidence_mask_rule) (conf_of O row) (zero O)).
Proof. exact C14_GenTie.observed_tie. Qed.
Print Assumptions mask_rule_tie.
(* literal facts (grid end points 0 and 1, mask rule confidence == 0, full-range test, single-frame guard,
   interp1d arguments, result expression) and the statement list of interpolate / __init__: proofs/C14_GenTie.v *)
Theorem source_facts_tie : C14_GenTie.source_facts.
Proof. exact C14_GenTie.source_facts_hold. Qed.
Print Assumptions source_facts_tie.
Theorem source_statements_tie : C14_GenTie.source_statements.
Proof. exact C14_GenTie.source_statements_hold. Qed.
Print Assumptions source_statements_tie.

(* ---------- class structure of the current source: overrides and attribute hooks (proofs/ClassesTie.v) ---------- *)
Require Import ClassesTie.
Theorem C14_tie_class_numpy_body : over_numpy_body = Some exp_over_numpy_body.
Proof. exact over_numpy_body_tie. Qed.
Print Assumptions C14_tie_class_numpy_body.
Theorem C14_tie_class_attr_hooks : Gen_Classes.attr_hooks = exp_attr_hooks.
Proof. exact attr_hooks_tie. Qed.
Print Assumptions C14_tie_class_attr_hooks.

