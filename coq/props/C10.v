(* C10 - masked tensors keep values and validity aligned under every operation.
   Theorems only; every proof is [exact <lemma>].  [O] is any numeric type (Num.ops), [trig] any interpretation of
   cos/sin/tan/acos/asin/atan.  [repaired] / [pinned] are the two positions of the five source switches (model/C10_Masked.v);
   the tie lemmas at the end say which position the current source is in. *)
From Coq Require Import List ZArith Bool.
Require Import Result Tensor Num C10_Tensor C10_Masked C10_TensorLemmas C10_Aligned C10_RefBase C10_Stats C10_Refines C10_Rules
               C10_Examples C10_GenTie Gen_C10.
Import ListNotations.

(* ---- clause 1: identical shapes after any program (any length, any framework, any inputs whose value and mask shapes agree) *)
Theorem aligned : forall (O : ops) (trig : uname -> T O -> T O) (f : fw) (p : list (instr O)) (env env' : list (mt O)),
  Forall (al O) env -> run O trig repaired f p env = Ok env' -> Forall (al O) env'.
Proof. exact C10_Aligned.aligned. Qed.
Print Assumptions aligned.
(* only three of the switches matter for the shapes *)
Theorem aligned_gen : forall (O : ops) (trig : uname -> T O -> T O) (c : cfg) (f : fw) (p : list (instr O)),
  shape_safe c -> forall env env' : list (mt O), Forall (al O) env -> run O trig c f p env = Ok env' -> Forall (al O) env'.
Proof. exact C10_Aligned.aligned_gen. Qed.
Print Assumptions aligned_gen.
Example aligned_nonvacuous : exists env', run Z_ops z_trig repaired TF demo [m23] = Ok env' /\ length env' = 11.
Proof. exact demo_runs. Qed.
Print Assumptions aligned_nonvacuous.
Example aligned_nonvacuous_torch : exists env', run Z_ops z_trig repaired Torch (firstn 6 demo) [m23] = Ok env' /\ length env' = 8.
Proof. exact demo_torch_prefix_runs. Qed.
Print Assumptions aligned_nonvacuous_torch.

(* ---- clause 2: the result equals what the direct reference (one tensor of (value, valid) pairs) computes *)
Theorem run_refines_reference : forall (O : ops) (trig : uname -> T O -> T O),
  (forall x : T O, add O x (zero O) = x) ->
  (forall l : list (T O), nonzero O (count O l) = false -> l = []) ->
  forall (f : fw) (p : list (instr O)), prog_wf O p -> forall env env' : list (mt O), Forall (ok O) env ->
  run O trig repaired f p env = Ok env' ->
  rrun O trig f p (map (pair_of O) env) = Ok (map (pair_of O) env') /\ Forall (ok O) env'.
Proof. exact C10_Refines.run_refines. Qed.
Print Assumptions run_refines_reference.
Theorem step_refines_reference : forall (O : ops) (trig : uname -> T O -> T O),
  (forall x : T O, add O x (zero O) = x) ->
  (forall l : list (T O), nonzero O (count O l) = false -> l = []) ->
  forall (f : fw) (i : instr O) (env outs : list (mt O)), instr_wf O i -> Forall (ok O) env ->
  exec O trig repaired f i env = Ok outs ->
  rexec O trig f i (map (pair_of O) env) = Ok (map (pair_of O) outs) /\ Forall (ok O) outs.
Proof. exact C10_Refines.exec_refines. Qed.
Print Assumptions step_refines_reference.
Example refines_hypotheses_satisfiable :
  (forall x : T Z_ops, add Z_ops x (zero Z_ops) = x) /\ (forall l : list (T Z_ops), nonzero Z_ops (count Z_ops l) = false -> l = [])
  /\ prog_wf Z_ops demo /\ Forall (ok Z_ops) [m23].
Proof. exact (conj Z_add_0_r (conj Z_count_faithful (conj demo_wf m23_ok))). Qed.
Print Assumptions refines_hypotheses_satisfiable.
Example refines_nonvacuous : exists env', run Z_ops z_trig repaired TF demo [m23] = Ok env'
  /\ nth 8 env' m23 = (zt [3] [2; 4; 8]%Z, bt [3] [true; true; true]).
Proof. exact demo_mean. Qed.
Print Assumptions refines_nonvacuous.

(* ---- rule 1: structural operations move values and validity together (whatever the switches) *)
Theorem structural_moves_together : forall (O : ops) (trig : uname -> T O -> T O) (c : cfg) (f : fw) (i : instr O) (r : nat)
  (p : list nat -> result (list plan)) (env outs : list (mt O)),
  plans_of O f i = Some (r, p) -> Forall (ok O) env -> exec O trig c f i env = Ok outs ->
  rexec O trig f i (map (pair_of O) env) = Ok (map (pair_of O) outs) /\ Forall (ok O) outs.
Proof. exact C10_Rules.structural_moves_together. Qed.
Print Assumptions structural_moves_together.
Example structural_nonvacuous : exists r p outs, plans_of Z_ops TF (ISplit Z_ops 0 (inr [2; 1]) 1%Z) = Some (r, p) /\
  exec Z_ops z_trig pinned TF (ISplit Z_ops 0 (inr [2; 1]) 1%Z) env3 = Ok outs /\ length outs = 2.
Proof. exact ex_structural. Qed.
Print Assumptions structural_nonvacuous.
Theorem cat_stack_move_together : forall (O : ops) (trig : uname -> T O -> T O) (c : cfg) (f : fw) (i : instr O) (env outs : list (mt O)),
  (exists os d, i = ICat O os d /\ Forall (operand_wf O) os) \/ (exists rs d, i = IStack O rs d) ->
  Forall (ok O) env -> exec O trig c f i env = Ok outs ->
  rexec O trig f i (map (pair_of O) env) = Ok (map (pair_of O) outs) /\ Forall (ok O) outs.
Proof. exact C10_Rules.cat_stack_move_together. Qed.
Print Assumptions cat_stack_move_together.
Example cat_nonvacuous : exists outs, exec Z_ops z_trig pinned Torch (ICat Z_ops [OReg Z_ops 0; OPlain Z_ops (zt [1; 3] [7; 8; 9]%Z)] 0%Z) env3 = Ok outs
  /\ length outs = 1.
Proof. exact ex_cat. Qed.
Print Assumptions cat_nonvacuous.

(* ---- rule 2: an elementwise result is valid exactly when all its operands are *)
Theorem elementwise_valid_iff_all : forall (O : ops) (trig : uname -> T O -> T O) (c : cfg) (f : fw) (op : aop) (r r2 : nat)
  (env : list (mt O)) (v : tensor (T O)) (k : tensor bool),
  exec O trig c f (IArith O op r (OReg O r2)) env = Ok [(v, k)] ->
  exists m m2, get env r = Ok m /\ get env r2 = Ok m2 /\
    forall j, j < prod (shape k) ->
      (nth j (data k) false = true <-> bget false (shape k) (snd m) j = true /\ bget false (shape k) (snd m2) j = true).
Proof. exact C10_Rules.elementwise_valid_iff_all. Qed.
Print Assumptions elementwise_valid_iff_all.
Example elementwise_nonvacuous : exec Z_ops z_trig pinned TF (IArith Z_ops Add 1 (OReg Z_ops 2)) env3
  = Ok [(zt [2; 2] [4; 5; 10; 11]%Z, bt [2; 2] [true; false; false; false])].
Proof. exact ex_elementwise. Qed.
Print Assumptions elementwise_nonvacuous.
Theorem elementwise_plain_keeps_validity : forall (O : ops) (trig : uname -> T O -> T O) (f : fw) (op : aop) (r : nat) (t : tensor (T O))
  (env : list (mt O)) (v : tensor (T O)) (k : tensor bool),
  exec O trig repaired f (IArith O op r (OPlain O t)) env = Ok [(v, k)] ->
  exists m, get env r = Ok m /\ shape k = shape v /\ forall j, j < prod (shape k) -> nth j (data k) false = bget false (shape k) (snd m) j.
Proof. exact C10_Rules.elementwise_plain_keeps_validity. Qed.
Print Assumptions elementwise_plain_keeps_validity.
Example plain_nonvacuous : exec Z_ops z_trig repaired Torch (IArith Z_ops Mul 2 (OPlain Z_ops (zt [3] [1; 2; 3]%Z))) env3
  = Ok [(zt [2; 3] [3; 6; 9; 6; 12; 18]%Z, bt [2; 3] [true; true; true; false; false; false])].
Proof. exact ex_plain. Qed.
Print Assumptions plain_nonvacuous.

(* ---- rule 3: a strict sum is valid exactly when every summed element is *)
Theorem strict_sum_valid_iff_all : forall (O : ops) (trig : uname -> T O -> T O) (c : cfg) (f : fw) (r : nat) (d : option Z)
  (env : list (mt O)) (v : tensor (T O)) (k : tensor bool),
  exec O trig c f (ISum O r d) env = Ok [(v, k)] ->
  exists m dd, get env r = Ok m /\ norm_opt d (length (shape (snd m))) = Ok dd /\
    forall j, nth j (data k) false = true <->
              (j < length (data k) /\ forall b, In b (nth j (data (slices_opt false dd (snd m))) []) -> b = true).
Proof. exact C10_Rules.strict_sum_valid_iff_all. Qed.
Print Assumptions strict_sum_valid_iff_all.
Example strict_sum_nonvacuous : exec Z_ops z_trig pinned Torch (ISum Z_ops 1 (Some (-1)%Z)) env3 = Ok [(zt [2] [3; 9]%Z, bt [2] [false; true])].
Proof. exact ex_sum. Qed.
Print Assumptions strict_sum_nonvacuous.

(* ---- rule 4: statistics use only valid elements and are valid where at least one exists
        ([mean_ref] / [var_ref] are what mean / variance compute per slice, by step_refines_reference) *)
Theorem statistics_use_only_valid : forall (O : ops) (l l' : list (T O * bool)), valid_values O l = valid_values O l' ->
  mean_ref O l = mean_ref O l' /\ var_ref O l = var_ref O l'.
Proof. exact C10_Rules.statistics_use_only_valid. Qed.
Print Assumptions statistics_use_only_valid.
Theorem statistics_valid_iff_exists : forall (O : ops),
  (forall l : list (T O), nonzero O (count O l) = false -> l = []) -> eqb O (zero O) (zero O) = true ->
  forall l : list (T O * bool),
  (snd (mean_ref O l) = true <-> exists v, In (v, true) l) /\ (snd (var_ref O l) = true <-> exists v, In (v, true) l).
Proof. exact C10_Rules.statistics_valid_iff_exists. Qed.
Print Assumptions statistics_valid_iff_exists.
Example statistics_nonvacuous :
  valid_values Z_ops [(1, true); (5, false); (3, true)]%Z = valid_values Z_ops [(1, true); (-7, false); (3, true)]%Z
  /\ mean_ref Z_ops [(1, true); (5, false); (3, true)]%Z = (2%Z, true) /\ var_ref Z_ops [(1, true); (5, false); (3, true)]%Z = (1%Z, true)
  /\ mean_ref Z_ops [(5, false)]%Z = (0%Z, false).
Proof. exact ex_statistics. Qed.
Print Assumptions statistics_nonvacuous.
Example statistics_hypotheses_satisfiable :
  (forall l : list (T Z_ops), nonzero Z_ops (count Z_ops l) = false -> l = []) /\ eqb Z_ops (zero Z_ops) (zero Z_ops) = true.
Proof. exact (conj Z_count_faithful Z_eqb_zero). Qed.
Print Assumptions statistics_hypotheses_satisfiable.

(* ---- the pinned position of the switches (DESIGN section 7, F16) violates the statement: four witnesses *)
Theorem aligned_refuted_matmul : exists f p env env' m,
  Forall (ok Z_ops) env /\ run Z_ops z_trig pinned f p env = Ok env' /\ In m env' /\ misaligned m.
Proof. exact C10_Examples.aligned_refuted_matmul. Qed.
Print Assumptions aligned_refuted_matmul.
Theorem aligned_refuted_plain_broadcast : exists f p env env' m,
  Forall (ok Z_ops) env /\ run Z_ops z_trig pinned f p env = Ok env' /\ In m env' /\ misaligned m.
Proof. exact C10_Examples.aligned_refuted_plain_broadcast. Qed.
Print Assumptions aligned_refuted_plain_broadcast.
Theorem aligned_refuted_unsqueeze : exists p env env' m,
  Forall (ok Z_ops) env /\ run Z_ops z_trig pinned Torch p env = Ok env' /\ In m env' /\ misaligned m.
Proof. exact C10_Examples.aligned_refuted_unsqueeze. Qed.
Print Assumptions aligned_refuted_unsqueeze.
Theorem refines_refuted_variance : exists p env env', Forall (ok Z_ops) env /\ run Z_ops z_trig pinned TF p env = Ok env' /\
  rrun Z_ops z_trig TF p (map (pair_of Z_ops) env) <> Ok (map (pair_of Z_ops) env').
Proof. exact C10_Examples.refines_refuted_variance. Qed.
Print Assumptions refines_refuted_variance.

(* ---- ties to the current source (gen/Gen_C10.v is regenerated on every run) *)
Theorem cfg_torch_tie : gen_cfg_torch = repaired.
Proof. exact C10_GenTie.cfg_torch_tie. Qed.
Print Assumptions cfg_torch_tie.
Theorem cfg_tf_tie : gen_cfg_tf = repaired.
Proof. exact C10_GenTie.cfg_tf_tie. Qed.
Print Assumptions cfg_tf_tie.
Theorem torch_whitelist_tie : torch_whitelist = map uname_name all_unames.
Proof. exact C10_GenTie.torch_whitelist_tie. Qed.
Print Assumptions torch_whitelist_tie.
Theorem tf_whitelist_tie : tf_whitelist = map uname_name all_unames.
Proof. exact C10_GenTie.tf_whitelist_tie. Qed.
Print Assumptions tf_whitelist_tie.
Theorem torch_methods_tie : torch_methods = lit_torch_methods.
Proof. exact C10_GenTie.torch_methods_tie. Qed.
Print Assumptions torch_methods_tie.
Theorem torch_static_tie : torch_static = lit_torch_static.
Proof. exact C10_GenTie.torch_static_tie. Qed.
Print Assumptions torch_static_tie.
Theorem tf_methods_tie : tf_methods = lit_tf_methods.
Proof. exact C10_GenTie.tf_methods_tie. Qed.
Print Assumptions tf_methods_tie.
Theorem tf_static_tie : tf_static = lit_tf_static.
Proof. exact C10_GenTie.tf_static_tie. Qed.
Print Assumptions tf_static_tie.

(* ---------- class structure of the current source: overrides and attribute hooks (proofs/ClassesTie.v) ---------- *)
Require Import ClassesTie.
Theorem C10_tie_class_attr_hooks : Gen_Classes.attr_hooks = exp_attr_hooks.
Proof. exact attr_hooks_tie. Qed.
Print Assumptions C10_tie_class_attr_hooks.

