Require Import C13_GenTie.
Theorem mediapipe_components_tie : List.map C13_Lookup.of_string Gen_C13.list_mediapipe_components = C13_Lookup.mediapipe_components.
Proof. exact C13_GenTie.mediapipe_components_tie. Qed.
Print Assumptions mediapipe_components_tie.
