(* C13 - Normalisation removes exactly the variation it is meant to remove.
   Theorems only (statement, [exact], Print Assumptions).  Numeric theorems are about the model instantiated with
   Coq's real numbers ([R_ops]); the same Gallina terms run in binary64 ([F_ops]) in the correspondence check.
   Vocabulary: [nondeg], [wf_body], [sim], [filled] (proofs/C13_NormalizeP.v, model/C13_Normalize.v);
   [observed], [gmean], [gstd], [cfilled] (proofs/C13_DistP.v, model/C13_Normalize.v); [zrot_spec], [row_ok],
   [row_nondegenerate], [coplanar], [sim3], [is_rotation], [rot3] (proofs/C13_Norm3dAlg.v, C13_Norm3dT.v, C13_Norm3dW.v). *)
From Coq Require Import Reals List.
Require Import Result Tensor Num C13_Normalize C13_Norm3d C13_Lookup Gen_C13.
Require Import C13_Axes C13_AxesP.
Require Import C13_RBase C13_NormalizeP C13_DistP C13_Norm3dP C13_Norm3dAlg C13_Norm3dT C13_Norm3dW C13_LookupP C13_Examples C13_GenTie.
Import ListNotations.
Open Scope R_scope.

(* ---------------- Pose.normalize ---------------- *)
(* after normalize() the mean distance between the two reference points is the requested scale (|sf|) and their
   mean midpoint is the origin; hypothesis: some (frame, person) observes both reference points at distinct positions *)
Theorem normalize_post : forall (D i j : nat) (sf : R) (b : list (list (pt R_ops))),
  nondeg D i j b ->
  mean_distance R_ops D i j (normalize R_ops D i j sf b) = Rabs sf /\
  (forall d, (d < D)%nat -> nth d (center R_ops D i j (normalize R_ops D i j sf b)) 0 = 0).
Proof. exact C13_NormalizeP.normalize_post. Qed.
Print Assumptions normalize_post.

(* translating (by any vector t) and uniformly scaling (by any a > 0) the input does not change the output *)
Theorem normalize_invariant : forall (D i j : nat) (a : R) (t : list R) (b : list (list (pt R_ops))),
  0 < a -> wf_body D b -> forall sf : R, nondeg D i j b ->
  filled R_ops D (normalize R_ops D i j sf (sim a t b)) = filled R_ops D (normalize R_ops D i j sf b).
Proof. exact C13_NormalizeP.normalize_invariant. Qed.
Print Assumptions normalize_invariant.

(* missing points stay missing, observed points stay observed *)
Theorem normalize_mask_unchanged : forall (D i j : nat) (sf : R) (b : list (list (pt R_ops))),
  filter (both R_ops i j) b <> [] ->
  map (map pm) (normalize R_ops D i j sf b) = map (map pm) b.
Proof. exact C13_NormalizeP.normalize_mask_unchanged. Qed.
Print Assumptions normalize_mask_unchanged.

Example normalize_hypotheses_satisfiable : nondeg 2 0 1 ex_body /\ wf_body 2 ex_body /\ 0 < 2.
Proof. exact C13_Examples.normalize_hyp_ex. Qed.
Print Assumptions normalize_hypotheses_satisfiable.

(* ---------------- normalize_distribution / unnormalize_distribution ---------------- *)
(* zero mean and unit deviation over the chosen axes: for every group of cells reduced together (any grouping
   [key]; a leading block of axes is key i = i mod G) that has an observed cell and a non-zero deviation *)
Theorem distribution_post : forall (key : nat -> nat) (G : nat), (forall i, (key i < G)%nat) ->
  forall (cs : list (cell R_ops)) (g : nat), observed key cs g -> gstd R_ops key cs g <> 0 ->
  let out := fst (normalize_distribution R_ops key key G cs) in
  gmean R_ops key out g = 0 /\ gstd R_ops key out g = 1.
Proof. exact C13_DistP.distribution_post. Qed.
Print Assumptions distribution_post.

Theorem distribution_mask_unchanged : forall (key : nat -> nat) (G : nat), (forall i, (key i < G)%nat) ->
  forall cs : list (cell R_ops), map cm (fst (normalize_distribution R_ops key key G cs)) = map cm cs.
Proof. exact C13_DistP.distribution_mask_unchanged. Qed.
Print Assumptions distribution_mask_unchanged.

(* unnormalize_distribution with the returned statistics restores the original *)
Theorem unnormalize_inverse : forall (key : nat -> nat) (G : nat), (forall i, (key i < G)%nat) ->
  forall cs : list (cell R_ops), (forall g, observed key cs g -> gstd R_ops key cs g <> 0) ->
  let r := normalize_distribution R_ops key key G cs in
  cfilled R_ops (unnormalize_distribution R_ops key (fst (snd r)) (snd (snd r)) (fst r)) = cfilled R_ops cs.
Proof. exact C13_DistP.unnormalize_inverse. Qed.
Print Assumptions unnormalize_inverse.

(* the same three statements for the actual arguments of normalize_distribution(axis = the first k axes) on a body of
   shape [shape]: grouping ([gkey_of]) and numpy / tf broadcasting ([bkey_of]) computed from shape and axis *)
Theorem leading_block_keys : forall (shape : list nat) (k i : nat), (k <= length shape)%nat -> (i < Tensor.prod shape)%nat ->
  gkey_of shape (seq 0 k) i = Nat.modulo i (Tensor.prod (skipn k shape)) /\
  bkey_of shape (seq 0 k) i = Nat.modulo i (Tensor.prod (skipn k shape)) /\
  groups_of shape (seq 0 k) = Tensor.prod (skipn k shape).
Proof. exact C13_AxesP.leading_block_keys. Qed.
Print Assumptions leading_block_keys.
Theorem distribution_post_leading : forall (shape : list nat) (k : nat) (cs : list (cell R_ops)),
  (k <= length shape)%nat -> length cs = Tensor.prod shape -> forall g : nat,
  observed (gkey_of shape (seq 0 k)) cs g -> gstd R_ops (gkey_of shape (seq 0 k)) cs g <> 0 ->
  let out := fst (normalize_distribution R_ops (gkey_of shape (seq 0 k)) (bkey_of shape (seq 0 k)) (groups_of shape (seq 0 k)) cs) in
  gmean R_ops (gkey_of shape (seq 0 k)) out g = 0 /\ gstd R_ops (gkey_of shape (seq 0 k)) out g = 1.
Proof. exact C13_AxesP.distribution_post_leading. Qed.
Print Assumptions distribution_post_leading.
Theorem distribution_mask_unchanged_leading : forall (shape : list nat) (k : nat) (cs : list (cell R_ops)),
  (k <= length shape)%nat -> length cs = Tensor.prod shape ->
  map cm (fst (normalize_distribution R_ops (gkey_of shape (seq 0 k)) (bkey_of shape (seq 0 k)) (groups_of shape (seq 0 k)) cs)) = map cm cs.
Proof. exact C13_AxesP.distribution_mask_unchanged_leading. Qed.
Print Assumptions distribution_mask_unchanged_leading.
Theorem unnormalize_inverse_leading : forall (shape : list nat) (k : nat) (cs : list (cell R_ops)),
  (k <= length shape)%nat -> length cs = Tensor.prod shape ->
  (forall g, observed (gkey_of shape (seq 0 k)) cs g -> gstd R_ops (gkey_of shape (seq 0 k)) cs g <> 0) ->
  let r := normalize_distribution R_ops (gkey_of shape (seq 0 k)) (bkey_of shape (seq 0 k)) (groups_of shape (seq 0 k)) cs in
  cfilled R_ops (unnormalize_distribution R_ops (bkey_of shape (seq 0 k)) (fst (snd r)) (snd (snd r)) (fst r)) = cfilled R_ops cs.
Proof. exact C13_AxesP.unnormalize_inverse_leading. Qed.
Print Assumptions unnormalize_inverse_leading.

(* REFUTED for axis tuples that are not a leading block of axes: the returned statistics (no keepdims) are broadcast
   right-aligned against the wrong axes.  Shape (2, 2, 1, 1), axis = (1,): every group is observed with non-zero
   deviation, yet the mean of group 0 after normalisation is not 0.  ([nl_g], [nl_b]: grouping / broadcast keys of
   that shape, see distribution_nonleading_keys.)  When the extents do not happen to coincide the call raises. *)
Theorem distribution_nonleading_refuted :
  (forall g, (g < 2)%nat -> observed nl_g nl_cells g /\ gstd R_ops nl_g nl_cells g <> 0) /\
  gmean R_ops nl_g (fst (normalize_distribution R_ops nl_g nl_b 2 nl_cells)) 0 <> 0.
Proof. exact C13_DistP.distribution_nonleading_refuted. Qed.
Print Assumptions distribution_nonleading_refuted.
Theorem distribution_nonleading_keys :
  broadcast_ok [2; 2; 1; 1]%nat [1%nat] = true /\ groups_of [2; 2; 1; 1]%nat [1%nat] = 2%nat /\
  map (gkey_of [2; 2; 1; 1]%nat [1%nat]) (seq 0 4) = map nl_g (seq 0 4) /\
  map (bkey_of [2; 2; 1; 1]%nat [1%nat]) (seq 0 4) = map nl_b (seq 0 4).
Proof. exact C13_AxesP.nonleading_keys. Qed.
Print Assumptions distribution_nonleading_keys.

Example distribution_hypotheses_satisfiable :
  (forall i, (ex_key i < 2)%nat) /\ observed ex_key ex_cells 0 /\ observed ex_key ex_cells 1 /\
  (forall g, observed ex_key ex_cells g -> gstd R_ops ex_key ex_cells g <> 0).
Proof. exact C13_Examples.distribution_hyp_ex. Qed.
Print Assumptions distribution_hypotheses_satisfiable.

(* ---------------- the 3-D plane / line normaliser ---------------- *)
(* independently for every frame and person *)
Theorem norm3d_rowwise : forall (zrot : R -> R -> R * R) (pl1 pl2 pl3 l1 l2 : nat) (size : R) (b : list (list (p3 R_ops))) (k : nat),
  nth k (normalize3d R_ops zrot pl1 pl2 pl3 l1 l2 size b) [] = normalize_row R_ops zrot pl1 pl2 pl3 l1 l2 size (nth k b []).
Proof. exact C13_Norm3dW.norm3d_rowwise. Qed.
Print Assumptions norm3d_rowwise.

(* PARTIAL.  Per frame and person: missing points stay missing, the first line point is at the origin, the line end
   is on the negative y axis (x = 0, y < 0) at distance size, and - when the first line point lies in the reference
   plane, without which "first line point at the origin" and "plane at z = 0" cannot both hold - the plane points are
   at z = 0.  The gap: [row_ok] also demands that the plane normal is not along the x axis ([normal_not_x]), which the
   property's non-degeneracy (observed, non-collinear plane points, distinct line points not perpendicular to the
   plane) does not; see norm3d_post_normal_along_x_refuted. *)
Theorem norm3d_post_partial : forall zrot : R -> R -> R * R, zrot_spec zrot ->
  forall (pl1 pl2 pl3 l1 l2 : nat) (size : R) (b : list (list (p3 R_ops))) (k : nat), 0 < size ->
  let r := nth k b [] in
  let o := nth k (normalize3d R_ops zrot pl1 pl2 pl3 l1 l2 size b) [] in
  row_ok pl1 pl2 pl3 l1 l2 r ->
  map m3 o = map m3 r /\
  c3 (get3 R_ops o l1) = v0 /\
  vx (c3 (get3 R_ops o l2)) = 0 /\ vy (c3 (get3 R_ops o l2)) < 0 /\ norm R_ops (c3 (get3 R_ops o l2)) = size /\
  (coplanar (c3 (get3 R_ops r pl1)) (c3 (get3 R_ops r pl2)) (c3 (get3 R_ops r pl3)) (c3 (get3 R_ops r l1)) ->
   vz (c3 (get3 R_ops o pl1)) = 0 /\ vz (c3 (get3 R_ops o pl2)) = 0 /\ vz (c3 (get3 R_ops o pl3)) = 0).
Proof. exact C13_Norm3dW.norm3d_post_partial. Qed.
Print Assumptions norm3d_post_partial.

(* REFUTED part of the post-condition: a non-degenerate hand whose plane is the y-z plane comes back entirely
   missing and zero (the coded basis [1,0,0] x n vanishes), for every in-plane rotation oracle and every size *)
Theorem norm3d_post_normal_along_x_refuted : forall (zrot : R -> R -> R * R) (size : R),
  exists r : list (p3 R_ops), row_nondegenerate 0 1 2 0 1 r /\ length r = 4%nat /\
    normalize_row R_ops zrot 0 1 2 0 1 size r = map (fun _ => @mkp3 R_ops true v0) r.
Proof. exact C13_Norm3dW.norm3d_post_normal_along_x_refuted. Qed.
Print Assumptions norm3d_post_normal_along_x_refuted.

(* the output is unchanged by translating and uniformly (a > 0) scaling the input *)
Theorem norm3d_translation_scale_invariant : forall zrot : R -> R -> R * R, zrot_spec zrot ->
  forall (pl1 pl2 pl3 l1 l2 : nat) (size a : R) (t : vec3 R_ops) (b : list (list (p3 R_ops))), 0 < a ->
  (forall r, In r b -> row_ok pl1 pl2 pl3 l1 l2 r) ->
  normalize3d R_ops zrot pl1 pl2 pl3 l1 l2 size (map (sim3 a t) b) = normalize3d R_ops zrot pl1 pl2 pl3 l1 l2 size b.
Proof. exact C13_Norm3dW.norm3d_translation_scale_invariant. Qed.
Print Assumptions norm3d_translation_scale_invariant.

(* REFUTED (DESIGN section 7, F12): the output is NOT unchanged by rotating the input - the change-of-basis vectors
   have norm sqrt(1 - n_x^2), so out-of-plane coordinates are stretched by an orientation-dependent factor.
   Witness: a flat hand with one off-plane point and its copy rotated about the y axis; both satisfy every
   hypothesis of norm3d_post_partial. *)
Theorem norm3d_rotation_invariant_refuted : forall zrot : R -> R -> R * R, zrot_spec zrot ->
  exists (M : vec3 R_ops * vec3 R_ops * vec3 R_ops) (r : list (p3 R_ops)),
    is_rotation M /\ row_ok 0 1 2 0 2 r /\ row_ok 0 1 2 0 2 (rot3 M r) /\
    normalize_row R_ops zrot 0 1 2 0 2 1 (rot3 M r) <> normalize_row R_ops zrot 0 1 2 0 2 1 r.
Proof. exact C13_Norm3dW.norm3d_rotation_invariant_refuted. Qed.
Print Assumptions norm3d_rotation_invariant_refuted.

Example norm3d_hypotheses_satisfiable :
  zrot_spec (zrot_closed R_ops) /\ row_ok 0 1 2 0 2 W /\ (forall r, In r [W; W'] -> row_ok 0 1 2 0 2 r) /\
  coplanar (c3 (get3 R_ops W 0)) (c3 (get3 R_ops W 1)) (c3 (get3 R_ops W 2)) (c3 (get3 R_ops W 0)) /\ nth 0 [W; W'] [] = W.
Proof. exact C13_Examples.norm3d_hyp_ex. Qed.
Print Assumptions norm3d_hypotheses_satisfiable.

(* the rotation witness executed by the binary64 instance that the runner extracts: z = 1 for the flat hand,
   1.66 < z < 1.67 for its rotated copy ([f_lo], [f_hi]) *)
Example rotation_witness_float :
  PrimFloat.eqb (zf Wf) PrimFloat.one = true /\ PrimFloat.ltb f_lo (zf Wf') = true /\ PrimFloat.ltb (zf Wf') f_hi = true.
Proof. exact C13_Examples.rotation_witness_float. Qed.
Print Assumptions rotation_witness_float.

(* ---------------- reference lookup by format ---------------- *)
Theorem pose_normalization_info_sound : forall (h : list hcomp) (i j : nat),
  pose_normalization_info h = Ok (i, j) ->
  exists f, detect (map hc_name h) = Ok f /\
    nth_error (flat_points h) i = Some (fst (shoulders f)) /\ nth_error (flat_points h) j = Some (snd (shoulders f)).
Proof. exact C13_LookupP.pose_normalization_info_sound. Qed.
Print Assumptions pose_normalization_info_sound.

Theorem get_point_index_first : forall (h : list hcomp) (c p : name) (idx k : nat),
  get_point_index h c p idx = Ok k ->
  exists pre x post, h = pre ++ x :: post /\ hc_name x = c /\ (forall y, In y pre -> hc_name y <> c) /\
    exists j, index_of p (hc_points x) = Some j /\ k = (idx + length (flat_points pre) + j)%nat.
Proof. exact C13_LookupP.get_point_index_first. Qed.
Print Assumptions get_point_index_first.

Theorem detect_first : forall (names : list name) (f : fmt), detect names = Ok f ->
  exists pre n post, names = pre ++ n :: post /\ classify n = Some f /\ forall m, In m pre -> classify m = None.
Proof. exact C13_LookupP.detect_first. Qed.
Print Assumptions detect_first.

Theorem component_3d_info_sound : forall (h : list hcomp) (cname : name) (plane : name * name * name) (line : name * name) (a b c d e : nat),
  component_3d_info h cname plane line = Ok ((a, b, c), (d, e)) ->
  let sub := flat_points (filter (fun x => name_eqb (hc_name x) cname) h) in
  nth_error sub a = Some (cname, fst (fst plane)) /\ nth_error sub b = Some (cname, snd (fst plane)) /\
  nth_error sub c = Some (cname, snd plane) /\ nth_error sub d = Some (cname, fst line) /\ nth_error sub e = Some (cname, snd line).
Proof. exact C13_LookupP.component_3d_info_sound. Qed.
Print Assumptions component_3d_info_sound.

Example lookup_satisfiable : pose_normalization_info ex_header = Ok (4%nat, 3%nat).
Proof. exact C13_LookupP.pose_normalization_info_ex. Qed.
Print Assumptions lookup_satisfiable.

(* ---------------- ties to the source (regenerated on every run) ---------------- *)
Theorem mediapipe_components_tie : map of_string Gen_C13.list_mediapipe_components = C13_Lookup.mediapipe_components.
Proof. exact C13_GenTie.mediapipe_components_tie. Qed.
Print Assumptions mediapipe_components_tie.
Theorem openpose_components_tie : map of_string Gen_C13.list_openpose_components = C13_Lookup.openpose_components.
Proof. exact C13_GenTie.openpose_components_tie. Qed.
Print Assumptions openpose_components_tie.
Theorem openpose_135_components_tie : map of_string Gen_C13.list_openpose_135_components = C13_Lookup.openpose_135_components.
Proof. exact C13_GenTie.openpose_135_components_tie. Qed.
Print Assumptions openpose_135_components_tie.
Theorem detect_order_tie : Gen_C13.detect_order = map (fun x => (fst x, fmt_name (snd x))) C13_Lookup.detect_order.
Proof. exact C13_GenTie.detect_order_tie. Qed.
Print Assumptions detect_order_tie.
Theorem pose_shoulders_tie :
  Gen_C13.pose_shoulders = map (fun f => (fmt_name f, shoulders_s f)) [Holistic; OpenPose135; OpenPose]
  /\ forall f, shoulders f = (n2 (fst (shoulders_s f)), n2 (snd (shoulders_s f))).
Proof. exact C13_GenTie.pose_shoulders_tie. Qed.
Print Assumptions pose_shoulders_tie.
Theorem hands_components_tie :
  map (fun p => (fst p, Some (snd p))) Gen_C13.hands_components = map (fun f => (fmt_name f, hands_s f)) [Holistic; OpenPose]
  /\ hands_s OpenPose135 = None /\ forall f, hands f = conv_hands (hands_s f).
Proof. exact C13_GenTie.hands_components_tie. Qed.
Print Assumptions hands_components_tie.
(* statement sequences of the modelled functions, as the model was written from them *)
Theorem lookup_code_tie :
  Gen_C13.get_component_names_body = lit_get_component_names_body /\ Gen_C13.pose_normalization_info_body = lit_pose_normalization_info_body
  /\ Gen_C13.normalize_component_3d_body = lit_normalize_component_3d_body /\ Gen_C13.normalize_hands_3d_body = lit_normalize_hands_3d_body
  /\ Gen_C13.get_point_index_body = lit_get_point_index_body /\ Gen_C13.normalization_info_body = lit_normalization_info_body.
Proof. exact C13_GenTie.lookup_code_tie. Qed.
Print Assumptions lookup_code_tie.
Theorem normalize_code_tie :
  Gen_C13.pose_normalize_body = lit_pose_normalize_body /\ Gen_C13.distance_batch_body = lit_distance_batch_body
  /\ Gen_C13.np_points_perspective_body = lit_np_points_perspective_body /\ Gen_C13.tf_points_perspective_body = lit_tf_points_perspective_body
  /\ Gen_C13.points_dims = lit_points_dims.
Proof. exact C13_GenTie.normalize_code_tie. Qed.
Print Assumptions normalize_code_tie.
Theorem distribution_code_tie :
  Gen_C13.pose_normalize_distribution_body = lit_pose_normalize_distribution_body
  /\ Gen_C13.pose_unnormalize_distribution_body = lit_pose_unnormalize_distribution_body
  /\ Gen_C13.tf_mean_body = lit_tf_mean_body /\ Gen_C13.tf_variance_body = lit_tf_variance_body /\ Gen_C13.tf_std_body = lit_tf_std_body.
Proof. exact C13_GenTie.distribution_code_tie. Qed.
Print Assumptions distribution_code_tie.
Theorem norm3d_code_tie :
  Gen_C13.pn_init_body = lit_pn_init_body /\ Gen_C13.pn_rotate_to_normal_body = lit_pn_rotate_to_normal_body
  /\ Gen_C13.pn_get_normal_body = lit_pn_get_normal_body /\ Gen_C13.pn_get_rotation_angle_body = lit_pn_get_rotation_angle_body
  /\ Gen_C13.pn_rotate_body = lit_pn_rotate_body /\ Gen_C13.pn_scale_body = lit_pn_scale_body
  /\ Gen_C13.pn_normalize_pose_body = lit_pn_normalize_pose_body /\ Gen_C13.pn_call_body = lit_pn_call_body.
Proof. exact C13_GenTie.norm3d_code_tie. Qed.
Print Assumptions norm3d_code_tie.

(* ---------- class structure of the current source: overrides and attribute hooks (proofs/ClassesTie.v) ---------- *)
Require Import ClassesTie.
Theorem C13_tie_class_numpy_body : over_numpy_body = Some exp_over_numpy_body.
Proof. exact over_numpy_body_tie. Qed.
Print Assumptions C13_tie_class_numpy_body.
Theorem C13_tie_class_tf_body : over_tf_body = Some exp_over_tf_body.
Proof. exact over_tf_body_tie. Qed.
Print Assumptions C13_tie_class_tf_body.
Theorem C13_tie_class_attr_hooks : Gen_Classes.attr_hooks = exp_attr_hooks.
Proof. exact attr_hooks_tie. Qed.
Print Assumptions C13_tie_class_attr_hooks.

