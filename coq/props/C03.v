(* C03 - a frame or time window read equals the same slice of a full read.
   Only statements, closed by [exact], each followed by Print Assumptions. *)
From Coq Require Import ZArith NArith List String Bool.
Require Import ListN Result Bytes Prog Codec PoseRead CodecRT PoseReadLemmas WindowLemmas StreamLemmas StreamRead StreamBack StreamIndep C03_Window C03_Consume C03_StreamReject CodecGenTie C03_Examples C03_ExamplesConsume.
Import ListNotations.
Open Scope N_scope.

(* Window read from a byte string.  For EVERY written file [bs] (any pose the writer accepts), every consistent
   memo state, every combination of start_frame / start_time / end_frame / end_time without a conflict whose
   bounds resolve (time -> frame by floor / ceil of the binary64 product ms/1000*fps) to a valid window
   (start = 0 or start < frames; start <= min(end, frames)): the result has the file's header and exactly
   frames [start, min(end, frames)) of the full read's fps, data, confidence and mask ([window_pose] is the
   slice of [canon p], the full-read result of C01). *)
Theorem C03_window_bytes :
  forall legacy m p bs a s e,
    MemoOK m -> write_pose p = Ok bs -> wf_arrays p -> 1 <= nth 3 (w_shape p) 0 ->
    conflict (a_sf a) (a_st a) = false -> conflict (a_ef a) (a_et a) = false ->
    resolve_start (fps_word p) (a_sf a) (a_st a) = Ok s -> resolve_end (fps_word p) (a_ef a) (a_et a) = Ok e ->
    valid_window p s e ->
    fst (read_bytes legacy m bs a) = Ok (window_pose p s e).
Proof. exact read_bytes_window. Qed.
Print Assumptions C03_window_bytes.

(* The same from a seekable stream (BytesIOReader: prefetch of any length, skips that drop prefetched bytes,
   refills), for every memo state; the memo left behind is the one a bytes read leaves. *)
Theorem C03_window_stream :
  forall legacy m p bs a s e,
    MemoOK m -> write_pose p = Ok bs -> wf_arrays p -> 1 <= nth 3 (w_shape p) 0 ->
    any_arg a = true ->
    conflict (a_sf a) (a_st a) = false -> conflict (a_ef a) (a_et a) = false ->
    resolve_start (fps_word p) (a_sf a) (a_st a) = Ok s -> resolve_end (fps_word p) (a_ef a) (a_et a) = Ok e ->
    valid_window p s e ->
    fst (fst (read_stream legacy m bs a)) = Ok (window_pose p s e) /\
    snd (fst (read_stream legacy m bs a)) = snd (read_bytes legacy m bs a).
Proof. exact read_stream_window. Qed.
Print Assumptions C03_window_stream.

(* More generally, for ANY byte string (not only written files): whenever the bytes read succeeds and the body
   decoder is a v0.2 one, the stream read returns the same pose and memo. *)
Theorem C03_stream_simulates_bytes :
  forall legacy m q a pose,
    MemoOK m -> any_arg a = true ->
    (forall h r, run_plain rd_header {| pbuf := q; poff := 0 |} = Ok (h, r) -> StreamLemmas.v2prog (read_body legacy h a)) ->
    fst (read_bytes legacy m q a) = Ok pose ->
    fst (fst (read_stream legacy m q a)) = Ok pose /\ snd (fst (read_stream legacy m q a)) = snd (read_bytes legacy m q a).
Proof. exact read_stream_as_bytes. Qed.
Print Assumptions C03_stream_simulates_bytes.

(* "Whatever was read earlier in the process", for ANY byte string (written file or not): what a windowed stream read returns
   under a sound memo is what it returns in a fresh process - the same pose, or both raise (which exception is raised when the
   bytes run out may differ: EOFError if the retained buffer is empty, struct.error otherwise).  The memo only sets the length
   of the first prefetch and may save the header parse; [amount_indep] shows that a v0.2 decoder never observes how much of the
   stream is buffered beyond its read position.  The hypothesis on the body decoder holds for the library's v0.2 / unknown-version
   decoders (second theorem); the v0.1 decoder asks bytes_left() and is covered by C04's own theorems. *)
Theorem C03_stream_result_independent_of_memo :
  forall legacy m q a, MemoOK m -> any_arg a = true -> (forall h, StreamLemmas.v2prog (read_body legacy h a)) ->
    same_outcome (fst (fst (read_stream legacy m q a))) (fst (fst (read_stream legacy None q a))).
Proof. exact read_stream_memo_independent. Qed.
Print Assumptions C03_stream_result_independent_of_memo.
Theorem C03_stream_result_independent_of_memo_v02 :
  forall m q a, MemoOK m -> any_arg a = true ->
    same_outcome (fst (fst (read_stream no_legacy m q a))) (fst (fst (read_stream no_legacy None q a))).
Proof. intros m q a Hm Ha. apply read_stream_memo_independent; [exact Hm|exact Ha|]. intros h. apply v2prog_no_legacy. Qed.
Print Assumptions C03_stream_result_independent_of_memo_v02.
(* Two readers of one stream at the same position return the same values from any v0.2 program, whatever each holds beyond it. *)
Theorem C03_stream_buffered_amount_unobservable :
  forall A q (p : prog A), StreamLemmas.v2prog p -> forall s1 s2, Twin q s1 s2 ->
    twin_result q (run_stream q p s1) (run_stream q p s2).
Proof. exact @amount_indep. Qed.
Print Assumptions C03_stream_buffered_amount_unobservable.
(* The header a stream read parses (memo miss) is the header the plain reader parses from the whole byte string, at the same end
   offset, and the memo entry it stores is sound; hence every stream read leaves a sound memo (the hypothesis [MemoOK] of all
   the theorems above holds again for the next read, whatever mix of byte and stream reads came before). *)
Theorem C03_stream_header_is_the_bytes_header :
  forall (legacy : vclass -> header -> rargs -> prog body) q m r1 h r2,
    expect q (prefetch_len m) {| buf := []; off := 0; skipped := 0; pulled := 0 |} = Ok r1 ->
    run_stream q rd_header r1 = Ok (h, r2) ->
    run_plain rd_header {| pbuf := q; poff := 0 |} = Ok (h, {| pbuf := q; poff := off r2 |}) /\
    py_slice 0 (off r2) (buf r2) = py_slice 0 (off r2) q /\
    MemoOK (Some {| m_start := 0; m_end := off r2; m_slice := py_slice 0 (off r2) (buf r2); m_header := h |}).
Proof. exact stream_header_bwd. Qed.
Print Assumptions C03_stream_header_is_the_bytes_header.
Theorem C03_stream_leaves_sound_memo :
  forall legacy m q a, MemoOK m -> MemoOK (snd (fst (read_stream legacy m q a))).
Proof. exact read_stream_memo_ok. Qed.
Print Assumptions C03_stream_leaves_sound_memo.
(* The converse of C03_stream_simulates_bytes is FALSE for programs with skips, and the model shows where: after a skip past the
   end of the stream BytesIOReader serves a zero-length block (an empty slice of its retained buffer is in range) that
   BufferReader refuses (offset beyond the buffer).  Reachable only with a zero-frame window of a truncated file; C07 covers
   what such a read may return. *)
Theorem C03_stream_converse_refuted :
  let p : prog bytes := Skip 5 (Block 0 (fun b => Ret b)) in
  let sr := {| buf := [1; 2]; off := 0; skipped := 0; pulled := 2 |} in
  fst (match run_stream [1; 2] p sr with Ok x => Ok (fst x) | Err e => Err e end, 0) = Ok [] /\
  run_plain p {| pbuf := [1; 2]; poff := 0 |} = Err StructError.
Proof. exact bwd_counterexample. Qed.
Print Assumptions C03_stream_converse_refuted.

Theorem C03_stream_without_window_args :
  forall legacy m file a, any_arg a = false -> fst (read_stream legacy m file a) = read_bytes legacy m file a.
Proof. exact read_stream_noargs. Qed.
Print Assumptions C03_stream_without_window_args.

(* Consumption clause.  Under the hypotheses of C03_window_stream the stream read pulls from the stream at most
   the header ([header_len p] = byte length of the header Pose.write emits), the 10 bytes of the body's info
   fields (fps, frame count, people count), the prefetch ((memo.end_offset or 10240) + 100) and the window
   itself ([window_bytes p s e] = 4 * people * points * (dims + 1) * (min(end, frames) - start) bytes of the data
   and confidence blocks).  The bound mentions neither the number of frames outside the window nor the length
   of the file: bytes prefetched past a skip point are dropped, never re-read beyond the window. *)
Theorem C03_stream_consumption :
  forall legacy m p bs a s e,
    MemoOK m -> write_pose p = Ok bs -> wf_arrays p -> 1 <= nth 3 (w_shape p) 0 ->
    any_arg a = true ->
    conflict (a_sf a) (a_st a) = false -> conflict (a_ef a) (a_et a) = false ->
    resolve_start (fps_word p) (a_sf a) (a_st a) = Ok s -> resolve_end (fps_word p) (a_ef a) (a_et a) = Ok e ->
    valid_window p s e ->
    snd (read_stream legacy m bs a) <= header_len p + 10 + prefetch_len m + window_bytes p s e.
Proof. exact read_stream_pulled_bound. Qed.
Print Assumptions C03_stream_consumption.
(* the weaker closed form sketched in DESIGN section 6 (prefetch >= 100 absorbs the 10 info bytes) *)
Theorem C03_stream_consumption_design_form :
  forall legacy m p bs a s e,
    MemoOK m -> write_pose p = Ok bs -> wf_arrays p -> 1 <= nth 3 (w_shape p) 0 ->
    any_arg a = true ->
    conflict (a_sf a) (a_st a) = false -> conflict (a_ef a) (a_et a) = false ->
    resolve_start (fps_word p) (a_sf a) (a_st a) = Ok s -> resolve_end (fps_word p) (a_ef a) (a_et a) = Ok e ->
    valid_window p s e ->
    snd (read_stream legacy m bs a) <= header_len p + 2 * prefetch_len m + window_bytes p s e.
Proof. exact read_stream_pulled_bound_2pf. Qed.
Print Assumptions C03_stream_consumption_design_form.

(* argument conflicts and a start at or beyond the last frame are rejected *)
Theorem C03_conflict_rejected :
  forall legacy m p bs a, MemoOK m -> write_pose p = Ok bs ->
    conflict (a_sf a) (a_st a) || conflict (a_ef a) (a_et a) = true ->
    exists e, fst (read_bytes legacy m bs a) = Err e.
Proof. exact conflict_rejected_bytes. Qed.
Print Assumptions C03_conflict_rejected.
Theorem C03_start_beyond_rejected :
  forall legacy m p bs a s, MemoOK m -> write_pose p = Ok bs -> wf_arrays p ->
    conflict (a_sf a) (a_st a) = false -> conflict (a_ef a) (a_et a) = false ->
    resolve_start (fps_word p) (a_sf a) (a_st a) = Ok (Some s) -> (0 < s)%Z -> (frames_of p <= s)%Z ->
    exists e, fst (read_bytes legacy m bs a) = Err e.
Proof. exact start_beyond_rejected_bytes. Qed.
Print Assumptions C03_start_beyond_rejected.

(* the same two rejections from a seekable stream (no [any_arg] hypothesis is needed: a conflict, or a resolved
   start, implies that some window argument is given) *)
Theorem C03_conflict_rejected_stream :
  forall legacy m p bs a, MemoOK m -> write_pose p = Ok bs ->
    conflict (a_sf a) (a_st a) || conflict (a_ef a) (a_et a) = true ->
    exists e, fst (fst (read_stream legacy m bs a)) = Err e.
Proof. exact conflict_rejected_stream. Qed.
Print Assumptions C03_conflict_rejected_stream.
Theorem C03_start_beyond_rejected_stream :
  forall legacy m p bs a s, MemoOK m -> write_pose p = Ok bs -> wf_arrays p ->
    conflict (a_sf a) (a_st a) = false -> conflict (a_ef a) (a_et a) = false ->
    resolve_start (fps_word p) (a_sf a) (a_st a) = Ok (Some s) -> (0 < s)%Z -> (frames_of p <= s)%Z ->
    exists e, fst (fst (read_stream legacy m bs a)) = Err e.
Proof. exact start_beyond_rejected_stream. Qed.
Print Assumptions C03_start_beyond_rejected_stream.

(* non-vacuity: a 3-frame file, the window [1,2) given in frames and in milliseconds *)
Theorem C03_example_file : (exists bs, write_pose ex3 = Ok bs) /\ wf_arrays ex3 /\ 1 <= nth 3 (w_shape ex3) 0.
Proof. exact (conj ex3_written ex3_wf). Qed.
Print Assumptions C03_example_file.
Theorem C03_example_frame_window :
  any_arg ex3_frames = true /\
  conflict (a_sf ex3_frames) (a_st ex3_frames) = false /\ conflict (a_ef ex3_frames) (a_et ex3_frames) = false /\
  resolve_start (fps_word ex3) (a_sf ex3_frames) (a_st ex3_frames) = Ok (Some 1%Z) /\
  resolve_end (fps_word ex3) (a_ef ex3_frames) (a_et ex3_frames) = Ok (Some 2%Z) /\
  valid_window ex3 (Some 1%Z) (Some 2%Z).
Proof. exact ex3_frames_hyps. Qed.
Print Assumptions C03_example_frame_window.
Theorem C03_example_time_window :
  conflict (a_sf ex3_times) (a_st ex3_times) = false /\ conflict (a_ef ex3_times) (a_et ex3_times) = false /\
  resolve_start (fps_word ex3) (a_sf ex3_times) (a_st ex3_times) = Ok (Some 1%Z) /\
  resolve_end (fps_word ex3) (a_ef ex3_times) (a_et ex3_times) = Ok (Some 2%Z).
Proof. exact ex3_times_hyps. Qed.
Print Assumptions C03_example_time_window.
Theorem C03_example_beyond :
  resolve_start (fps_word ex3) (Some 3%Z) None = Ok (Some 3%Z) /\ (0 < 3)%Z /\ (frames_of ex3 <= 3)%Z.
Proof. exact ex3_beyond. Qed.
Print Assumptions C03_example_beyond.

Theorem C03_example_conflict : conflict (Some 1%Z) (Some 10%Z) || conflict None None = true.
Proof. exact ex3_conflict. Qed.
Print Assumptions C03_example_conflict.
(* non-vacuity of the consumption bound: a 600-frame file of 14452 bytes, window [1,2), empty memo: the bound is
   10416 bytes - less than the file - and the model pulls 10364 (the 10340-byte prefetch and the 24-byte window) *)
Theorem C03_example_consumption_file :
  write_pose ex600 = Ok ex600_file /\ (wf_arrays ex600 /\ 1 <= nth 3 (w_shape ex600) 0).
Proof. exact (conj ex600_written ex600_wf). Qed.
Print Assumptions C03_example_consumption_file.
Theorem C03_example_consumption_window :
  any_arg ex3_frames = true /\
  conflict (a_sf ex3_frames) (a_st ex3_frames) = false /\ conflict (a_ef ex3_frames) (a_et ex3_frames) = false /\
  resolve_start (fps_word ex600) (a_sf ex3_frames) (a_st ex3_frames) = Ok (Some 1%Z) /\
  resolve_end (fps_word ex600) (a_ef ex3_frames) (a_et ex3_frames) = Ok (Some 2%Z) /\
  valid_window ex600 (Some 1%Z) (Some 2%Z).
Proof. exact ex600_window_hyps. Qed.
Print Assumptions C03_example_consumption_window.
Theorem C03_example_consumption_bound_below_file :
  header_len ex600 + 10 + prefetch_len None + window_bytes ex600 (Some 1%Z) (Some 2%Z) = 10416 /\
  lenN ex600_file = 14452 /\
  snd (read_stream no_legacy None ex600_file ex3_frames) = 10364.
Proof. exact ex600_bound_below_file. Qed.
Print Assumptions C03_example_consumption_bound_below_file.

(* ties to the current source *)
Theorem C03_tie_body_read_v0_2 : Gen_Codec.body_read_v0_2 = exp_body_read_v0_2.
Proof. exact body_read_v0_2_tie. Qed.
Print Assumptions C03_tie_body_read_v0_2.
Theorem C03_tie_body_read_frames : Gen_Codec.body_read_frames = exp_body_read_frames.
Proof. exact body_read_frames_tie. Qed.
Print Assumptions C03_tie_body_read_frames.
Theorem C03_tie_struct_table : Gen_Codec.struct_table = exp_struct_table.
Proof. exact struct_table_tie. Qed.
Print Assumptions C03_tie_struct_table.
Theorem C03_tie_pose_read : Gen_Codec.pose_read = exp_pose_read.
Proof. exact pose_read_tie. Qed.
Print Assumptions C03_tie_pose_read.
Theorem C03_tie_reader_bytes_left : Gen_Codec.reader_bytes_left = exp_reader_bytes_left.
Proof. exact reader_bytes_left_tie. Qed.
Print Assumptions C03_tie_reader_bytes_left.
Theorem C03_tie_reader_unpack_numpy : Gen_Codec.reader_unpack_numpy = exp_reader_unpack_numpy.
Proof. exact reader_unpack_numpy_tie. Qed.
Print Assumptions C03_tie_reader_unpack_numpy.
Theorem C03_tie_reader_unpack : Gen_Codec.reader_unpack = exp_reader_unpack.
Proof. exact reader_unpack_tie. Qed.
Print Assumptions C03_tie_reader_unpack.
Theorem C03_tie_reader_advance : Gen_Codec.reader_advance = exp_reader_advance.
Proof. exact reader_advance_tie. Qed.
Print Assumptions C03_tie_reader_advance.
Theorem C03_tie_reader_skip : Gen_Codec.reader_skip = exp_reader_skip.
Proof. exact reader_skip_tie. Qed.
Print Assumptions C03_tie_reader_skip.
Theorem C03_tie_stream_reader_init : Gen_Codec.stream_reader_init = exp_stream_reader_init.
Proof. exact stream_reader_init_tie. Qed.
Print Assumptions C03_tie_stream_reader_init.
Theorem C03_tie_stream_reader_skip : Gen_Codec.stream_reader_skip = exp_stream_reader_skip.
Proof. exact stream_reader_skip_tie. Qed.
Print Assumptions C03_tie_stream_reader_skip.
Theorem C03_tie_stream_reader_read_chunk : Gen_Codec.stream_reader_read_chunk = exp_stream_reader_read_chunk.
Proof. exact stream_reader_read_chunk_tie. Qed.
Print Assumptions C03_tie_stream_reader_read_chunk.
Theorem C03_tie_stream_reader_expect_to_read : Gen_Codec.stream_reader_expect_to_read = exp_stream_reader_expect_to_read.
Proof. exact stream_reader_expect_to_read_tie. Qed.
Print Assumptions C03_tie_stream_reader_expect_to_read.
Theorem C03_tie_reader_methods : Gen_Codec.reader_methods = exp_reader_methods.
Proof. exact reader_methods_tie. Qed.
Print Assumptions C03_tie_reader_methods.
Theorem C03_tie_stream_reader_methods : Gen_Codec.stream_reader_methods = exp_stream_reader_methods.
Proof. exact stream_reader_methods_tie. Qed.
Print Assumptions C03_tie_stream_reader_methods.
Theorem C03_tie_reader_class_attrs : Gen_Codec.reader_class_attrs = [] /\ Gen_Codec.stream_reader_class_attrs = [].
Proof. exact reader_class_attrs_tie. Qed.
Print Assumptions C03_tie_reader_class_attrs.
