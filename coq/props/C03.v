(* C03 - a frame or time window read equals the same slice of a full read.
   Only statements, closed by [exact], each followed by Print Assumptions. *)
From Coq Require Import ZArith NArith List String Bool.
Require Import ListN Result Bytes Prog Codec PoseRead CodecRT PoseReadLemmas WindowLemmas StreamRead C03_Window CodecGenTie C03_Examples.
Import ListNotations.
Open Scope N_scope.

(* Window read from a byte string.  For EVERY written file [bs] (any pose the writer accepts), every consistent
   memo state, every combination of start_frame / start_time / end_frame / end_time without a conflict whose
   bounds resolve (time -> frame by floor / ceil of the binary64 product ms/1000*fps) to a valid window
   (start = 0 or start < frames; start <= min(end, frames)): the result has the file's header and exactly
   frames [start, min(end, frames)) of the full read's fps, data, confidence and mask ([window_pose] is the
   slice of [canon p], the full-read result of C01). *)
Theorem C03_window_bytes :
  forall legacy m p bs a s e,
    MemoOK m -> write_pose p = Ok bs -> wf_arrays p -> 1 <= nth 3 (w_shape p) 0 ->
    conflict (a_sf a) (a_st a) = false -> conflict (a_ef a) (a_et a) = false ->
    resolve_start (fps_word p) (a_sf a) (a_st a) = Ok s -> resolve_end (fps_word p) (a_ef a) (a_et a) = Ok e ->
    valid_window p s e ->
    fst (read_bytes legacy m bs a) = Ok (window_pose p s e).
Proof. exact read_bytes_window. Qed.
Print Assumptions C03_window_bytes.

(* The same from a seekable stream (BytesIOReader: prefetch of any length, skips that drop prefetched bytes,
   refills), for every memo state; the memo left behind is the one a bytes read leaves. *)
Theorem C03_window_stream :
  forall legacy m p bs a s e,
    MemoOK m -> write_pose p = Ok bs -> wf_arrays p -> 1 <= nth 3 (w_shape p) 0 ->
    any_arg a = true ->
    conflict (a_sf a) (a_st a) = false -> conflict (a_ef a) (a_et a) = false ->
    resolve_start (fps_word p) (a_sf a) (a_st a) = Ok s -> resolve_end (fps_word p) (a_ef a) (a_et a) = Ok e ->
    valid_window p s e ->
    fst (fst (read_stream legacy m bs a)) = Ok (window_pose p s e) /\
    snd (fst (read_stream legacy m bs a)) = snd (read_bytes legacy m bs a).
Proof. exact read_stream_window. Qed.
Print Assumptions C03_window_stream.

(* More generally, for ANY byte string (not only written files): whenever the bytes read succeeds and the body
   decoder is a v0.2 one, the stream read returns the same pose and memo. *)
Theorem C03_stream_simulates_bytes :
  forall legacy m q a pose,
    MemoOK m -> any_arg a = true ->
    (forall h r, run_plain rd_header {| pbuf := q; poff := 0 |} = Ok (h, r) -> StreamLemmas.v2prog (read_body legacy h a)) ->
    fst (read_bytes legacy m q a) = Ok pose ->
    fst (fst (read_stream legacy m q a)) = Ok pose /\ snd (fst (read_stream legacy m q a)) = snd (read_bytes legacy m q a).
Proof. exact read_stream_as_bytes. Qed.
Print Assumptions C03_stream_simulates_bytes.

Theorem C03_stream_without_window_args :
  forall legacy m file a, any_arg a = false -> fst (read_stream legacy m file a) = read_bytes legacy m file a.
Proof. exact read_stream_noargs. Qed.
Print Assumptions C03_stream_without_window_args.

(* argument conflicts and a start at or beyond the last frame are rejected *)
Theorem C03_conflict_rejected :
  forall legacy m p bs a, MemoOK m -> write_pose p = Ok bs ->
    conflict (a_sf a) (a_st a) || conflict (a_ef a) (a_et a) = true ->
    exists e, fst (read_bytes legacy m bs a) = Err e.
Proof. exact conflict_rejected_bytes. Qed.
Print Assumptions C03_conflict_rejected.
Theorem C03_start_beyond_rejected :
  forall legacy m p bs a s, MemoOK m -> write_pose p = Ok bs -> wf_arrays p ->
    conflict (a_sf a) (a_st a) = false -> conflict (a_ef a) (a_et a) = false ->
    resolve_start (fps_word p) (a_sf a) (a_st a) = Ok (Some s) -> (0 < s)%Z -> (frames_of p <= s)%Z ->
    exists e, fst (read_bytes legacy m bs a) = Err e.
Proof. exact start_beyond_rejected_bytes. Qed.
Print Assumptions C03_start_beyond_rejected.

(* non-vacuity: a 3-frame file, the window [1,2) given in frames and in milliseconds *)
Theorem C03_example_file : (exists bs, write_pose ex3 = Ok bs) /\ wf_arrays ex3 /\ 1 <= nth 3 (w_shape ex3) 0.
Proof. exact (conj ex3_written ex3_wf). Qed.
Print Assumptions C03_example_file.
Theorem C03_example_frame_window :
  any_arg ex3_frames = true /\
  conflict (a_sf ex3_frames) (a_st ex3_frames) = false /\ conflict (a_ef ex3_frames) (a_et ex3_frames) = false /\
  resolve_start (fps_word ex3) (a_sf ex3_frames) (a_st ex3_frames) = Ok (Some 1%Z) /\
  resolve_end (fps_word ex3) (a_ef ex3_frames) (a_et ex3_frames) = Ok (Some 2%Z) /\
  valid_window ex3 (Some 1%Z) (Some 2%Z).
Proof. exact ex3_frames_hyps. Qed.
Print Assumptions C03_example_frame_window.
Theorem C03_example_time_window :
  conflict (a_sf ex3_times) (a_st ex3_times) = false /\ conflict (a_ef ex3_times) (a_et ex3_times) = false /\
  resolve_start (fps_word ex3) (a_sf ex3_times) (a_st ex3_times) = Ok (Some 1%Z) /\
  resolve_end (fps_word ex3) (a_ef ex3_times) (a_et ex3_times) = Ok (Some 2%Z).
Proof. exact ex3_times_hyps. Qed.
Print Assumptions C03_example_time_window.
Theorem C03_example_beyond :
  resolve_start (fps_word ex3) (Some 3%Z) None = Ok (Some 3%Z) /\ (0 < 3)%Z /\ (frames_of ex3 <= 3)%Z.
Proof. exact ex3_beyond. Qed.
Print Assumptions C03_example_beyond.

(* ties to the current source *)
Theorem C03_tie_body_read_v0_2 : Gen_Codec.body_read_v0_2 = exp_body_read_v0_2.
Proof. exact body_read_v0_2_tie. Qed.
Print Assumptions C03_tie_body_read_v0_2.
Theorem C03_tie_body_read_frames : Gen_Codec.body_read_frames = exp_body_read_frames.
Proof. exact body_read_frames_tie. Qed.
Print Assumptions C03_tie_body_read_frames.
Theorem C03_tie_struct_table : Gen_Codec.struct_table = exp_struct_table.
Proof. exact struct_table_tie. Qed.
Print Assumptions C03_tie_struct_table.
Theorem C03_tie_pose_read : Gen_Codec.pose_read = exp_pose_read.
Proof. exact pose_read_tie. Qed.
Print Assumptions C03_tie_pose_read.
Theorem C03_tie_reader_bytes_left : Gen_Codec.reader_bytes_left = exp_reader_bytes_left.
Proof. exact reader_bytes_left_tie. Qed.
Print Assumptions C03_tie_reader_bytes_left.
Theorem C03_tie_reader_unpack_numpy : Gen_Codec.reader_unpack_numpy = exp_reader_unpack_numpy.
Proof. exact reader_unpack_numpy_tie. Qed.
Print Assumptions C03_tie_reader_unpack_numpy.
Theorem C03_tie_reader_unpack : Gen_Codec.reader_unpack = exp_reader_unpack.
Proof. exact reader_unpack_tie. Qed.
Print Assumptions C03_tie_reader_unpack.
Theorem C03_tie_reader_advance : Gen_Codec.reader_advance = exp_reader_advance.
Proof. exact reader_advance_tie. Qed.
Print Assumptions C03_tie_reader_advance.
Theorem C03_tie_reader_skip : Gen_Codec.reader_skip = exp_reader_skip.
Proof. exact reader_skip_tie. Qed.
Print Assumptions C03_tie_reader_skip.
Theorem C03_tie_stream_reader_init : Gen_Codec.stream_reader_init = exp_stream_reader_init.
Proof. exact stream_reader_init_tie. Qed.
Print Assumptions C03_tie_stream_reader_init.
Theorem C03_tie_stream_reader_skip : Gen_Codec.stream_reader_skip = exp_stream_reader_skip.
Proof. exact stream_reader_skip_tie. Qed.
Print Assumptions C03_tie_stream_reader_skip.
Theorem C03_tie_stream_reader_read_chunk : Gen_Codec.stream_reader_read_chunk = exp_stream_reader_read_chunk.
Proof. exact stream_reader_read_chunk_tie. Qed.
Print Assumptions C03_tie_stream_reader_read_chunk.
Theorem C03_tie_stream_reader_expect_to_read : Gen_Codec.stream_reader_expect_to_read = exp_stream_reader_expect_to_read.
Proof. exact stream_reader_expect_to_read_tie. Qed.
Print Assumptions C03_tie_stream_reader_expect_to_read.
Theorem C03_tie_reader_methods : Gen_Codec.reader_methods = exp_reader_methods.
Proof. exact reader_methods_tie. Qed.
Print Assumptions C03_tie_reader_methods.
Theorem C03_tie_stream_reader_methods : Gen_Codec.stream_reader_methods = exp_stream_reader_methods.
Proof. exact stream_reader_methods_tie. Qed.
Print Assumptions C03_tie_stream_reader_methods.
Theorem C03_tie_reader_class_attrs : Gen_Codec.reader_class_attrs = [] /\ Gen_Codec.stream_reader_class_attrs = [].
Proof. exact reader_class_attrs_tie. Qed.
Print Assumptions C03_tie_reader_class_attrs.
