(* C17 - Feature representations equal their geometric definition on every backend.
   Numeric clauses: exact reals (R_ops) for the formulas, IEEE special values over exact reals (X_ops) for the
   totality clauses; rounding / overflow are not modelled (the claim is partial in that sense, DESIGN section 9).
   The Torch models use the repaired zero_filled (F9) and the repaired points flattening (F17).
   Discrete clauses (output size, block layout): no reals, closed under the global context. *)
From Coq Require Import String.
From Coq Require Import Reals List Bool.
Require Import Num C17_Repr C17_Spec C17_XReal C17_Layout C17_Run C17_Source Gen_C17.
Require Import C17_Vec C17_Real C17_Total C17_LayoutProofs C17_GenTie C17_Examples.
Import ListNotations.

(* ================= formulas, exact reals ================= *)
Theorem distance_def : forall a b : vec,
  torch_distance R_ops (rvals a) (rvals b) = euclid a b /\ tf_distance R_ops a b = euclid a b /\
  (a <> [] -> b <> [] -> np_distance R_ops (rvals a) (rvals b) = euclid a b).
Proof. exact (fun a b => conj (distance_def_torch a b) (conj (distance_def_tf a b) (distance_def_np a b))). Qed.
Print Assumptions distance_def.

(* atan / acos are universally quantified function symbols: the standard library's Ratan.atan / Ratan.acos rest on
   Classical_Prop.classic (outside the allowed axioms); the properties of the two functions that a theorem
   uses are its hypotheses (Ratan.atan_bound, tan_atan, atan_0, acos_bound, cos_acos show they are satisfiable) *)
Theorem angle_def : forall (atan : R -> R) (x1 y1 : R) r1 (x2 y2 : R) r2,
  torch_angle R_ops atan (rvals (x1 :: y1 :: r1)) (rvals (x2 :: y2 :: r2)) = xy_angle atan (x1 :: y1 :: r1) (x2 :: y2 :: r2) /\
  (x2 <> x1 -> tf_angle R_ops atan (x1 :: y1 :: r1) (x2 :: y2 :: r2) = xy_angle atan (x1 :: y1 :: r1) (x2 :: y2 :: r2)).
Proof. exact (fun atan x1 y1 r1 x2 y2 r2 => conj (angle_def_torch atan x1 y1 r1 x2 y2 r2) (angle_def_tf atan x1 y1 r1 x2 y2 r2)). Qed.
Print Assumptions angle_def.

(* what the arctangent of the slope means: (cos t, sin t) is parallel to p2 - p1 *)
Theorem angle_direction : forall (atan : R -> R) (x1 y1 : R) r1 (x2 y2 : R) r2,
  (forall x, - PI / 2 < atan x < PI / 2)%R -> (forall x, tan (atan x) = x) -> x2 <> x1 ->
  let t := xy_angle atan (x1 :: y1 :: r1) (x2 :: y2 :: r2) in
  (- PI / 2 < t < PI / 2 /\ (y2 - y1) * cos t = (x2 - x1) * sin t)%R.
Proof. exact xy_angle_direction. Qed.
Print Assumptions angle_direction.

Theorem inner_angle_def : forall (acos : R -> R) (p1 p2 p3 : vec), norm (vsub p1 p2) <> 0%R -> norm (vsub p3 p2) <> 0%R ->
  torch_inner_angle R_ops acos (rvals p1) (rvals p2) (rvals p3) = inner_angle acos p1 p2 p3 /\
  tf_inner_angle R_ops acos p1 p2 p3 = inner_angle acos p1 p2 p3.
Proof. exact (fun acos p1 p2 p3 H1 H2 => conj (inner_angle_def_torch acos p1 p2 p3 H1 H2) (inner_angle_def_tf acos p1 p2 p3 H1 H2)). Qed.
Print Assumptions inner_angle_def.

(* what the arccosine of the normalised dot product means *)
Theorem inner_angle_is_the_angle : forall (acos : R -> R) (p1 p2 p3 : vec),
  (forall x, 0 <= acos x <= PI)%R -> (forall x, (-1 <= x <= 1)%R -> cos (acos x) = x) ->
  length p1 = length p2 -> length p3 = length p2 ->
  norm (vsub p1 p2) <> 0%R -> norm (vsub p3 p2) <> 0%R ->
  let t := inner_angle acos p1 p2 p3 in
  (0 <= t <= PI /\ cos t * (norm (vsub p1 p2) * norm (vsub p3 p2)) = dot (vsub p1 p2) (vsub p3 p2))%R.
Proof. exact inner_angle_cos. Qed.
Print Assumptions inner_angle_is_the_angle.

Theorem heron_is_point_line_distance : forall p1 p2 p3 : vec, length p1 = length p2 -> length p2 = length p3 -> p2 <> p3 ->
  torch_pld R_ops (rvals p1) (rvals p2) (rvals p3) = point_line_distance p1 p2 p3 /\
  tf_pld R_ops p1 p2 p3 = point_line_distance p1 p2 p3.
Proof.
  exact (fun p1 p2 p3 L1 L2 H => conj (heron_is_point_line_distance_torch p1 p2 p3 L1 L2 H)
                                     (heron_is_point_line_distance_tf p1 p2 p3 L1 L2 H)).
Qed.
Print Assumptions heron_is_point_line_distance.

(* point_line_distance is the textbook one: the least distance to a point of the line, at the foot of the perpendicular *)
Theorem point_line_distance_is_least : forall (p1 p2 p3 : vec) (t : R), length p1 = length p2 -> length p2 = length p3 -> p2 <> p3 ->
  (point_line_distance p1 p2 p3 <= dist_to_line_point t p1 p2 p3)%R /\
  dot (vaxpy (foot_param p1 p2 p3) (vsub p1 p2) (vsub p3 p2)) (vsub p3 p2) = 0%R.
Proof. exact (fun p1 p2 p3 t L1 L2 H => conj (pld_is_minimum p1 p2 p3 t L1 L2 H) (pld_perpendicular p1 p2 p3 L1 L2 H)). Qed.
Print Assumptions point_line_distance_is_least.

Theorem cross_backend : forall (acos : R -> R) (p1 p2 p3 : vec),
  torch_distance R_ops (rvals p1) (rvals p2) = tf_distance R_ops p1 p2 /\
  (p1 <> [] -> p2 <> [] -> np_distance R_ops (rvals p1) (rvals p2) = tf_distance R_ops p1 p2) /\
  (norm (vsub p1 p2) <> 0%R -> norm (vsub p3 p2) <> 0%R ->
     torch_inner_angle R_ops acos (rvals p1) (rvals p2) (rvals p3) = tf_inner_angle R_ops acos p1 p2 p3) /\
  (euclid p2 p3 <> 0%R -> torch_pld R_ops (rvals p1) (rvals p2) (rvals p3) = tf_pld R_ops p1 p2 p3).
Proof.
  exact (fun acos p1 p2 p3 => conj (proj1 (cross_distance p1 p2)) (conj (proj2 (cross_distance p1 p2))
           (conj (cross_inner_angle acos p1 p2 p3) (cross_pld p1 p2 p3)))).
Qed.
Print Assumptions cross_backend.

Theorem cross_backend_angle : forall (atan : R -> R) (x1 y1 : R) r1 (x2 y2 : R) r2, x2 <> x1 ->
  torch_angle R_ops atan (rvals (x1 :: y1 :: r1)) (rvals (x2 :: y2 :: r2)) = tf_angle R_ops atan (x1 :: y1 :: r1) (x2 :: y2 :: r2).
Proof. exact cross_angle. Qed.
Print Assumptions cross_backend_angle.

Example nondegenerate_inputs_ex :
  length ex_p1 = length ex_p2 /\ length ex_p2 = length ex_p3 /\ length ex_p3 = length ex_p2 /\
  ex_p1 <> [] /\ ex_p2 <> [] /\ (1%R : R) <> 2%R /\
  norm (vsub ex_p1 ex_p2) <> 0%R /\ norm (vsub ex_p3 ex_p2) <> 0%R /\ ex_p2 <> ex_p3 /\ euclid ex_p2 ex_p3 <> 0%R /\
  euclid ex_p1 ex_p2 = R_sqrt.sqrt 14.
Proof. exact ex_nondegenerate. Qed.
Print Assumptions nondegenerate_inputs_ex.

(* ================= totality, IEEE special values over exact reals ================= *)
(* exactly 0 wherever a point is missing (even in one coordinate; the angle reads X and Y only),
   whatever NaN / infinity lies under the mask *)
Theorem masked_zero : forall (acos : R -> R) (p1 p2 p3 : list (mv X_ops)), length p1 = length p2 -> length p2 = length p3 ->
  (all_valid p1 && all_valid p2 = false -> torch_distance X_ops p1 p2 = Fin 0) /\
  (all_valid p1 && all_valid p2 && all_valid p3 = false ->
     torch_inner_angle X_ops (x_acos acos) p1 p2 p3 = Fin 0 /\ torch_pld X_ops p1 p2 p3 = Fin 0) /\
  (forallb (fun c : mv X_ops => negb (snd c)) p1 = true \/ forallb (fun c : mv X_ops => negb (snd c)) p2 = true ->
     np_distance X_ops p1 p2 = Fin 0).
Proof.
  exact (fun acos p1 p2 p3 L1 L2 => conj (masked_zero_distance p1 p2 L1)
    (conj (fun H => conj (masked_zero_inner_angle acos p1 p2 p3 L1 (eq_sym L2) H) (masked_zero_pld p1 p2 p3 L1 L2 H))
          (masked_zero_numpy p1 p2 L1))).
Qed.
Print Assumptions masked_zero.

Theorem masked_zero_angle : forall (atan : R -> R) (x1 y1 : mv X_ops) r1 (x2 y2 : mv X_ops) r2, atan 0%R = 0%R ->
  snd x1 && snd y1 && snd x2 && snd y2 = false ->
  torch_angle X_ops (x_atan atan) (x1 :: y1 :: r1) (x2 :: y2 :: r2) = Fin 0.
Proof. exact C17_Total.masked_zero_angle. Qed.
Print Assumptions masked_zero_angle.

(* never NaN, never infinite: every valid coordinate finite, anything under the mask, any geometry *)
Theorem never_nan : forall (atan acos : R -> R) (p1 p2 p3 : list (mv X_ops)), length p1 = length p2 -> length p2 = length p3 ->
  valid_fin p1 -> valid_fin p2 -> valid_fin p3 ->
  is_fin (torch_distance X_ops p1 p2) /\ is_fin (torch_angle X_ops (x_atan atan) p1 p2) /\
  is_fin (torch_inner_angle X_ops (x_acos acos) p1 p2 p3) /\ is_fin (torch_pld X_ops p1 p2 p3) /\
  is_fin (np_distance X_ops p1 p2).
Proof.
  exact (fun atan acos p1 p2 p3 L1 L2 V1 V2 V3 => conj (never_nan_distance p1 p2 L1 V1 V2) (conj (never_nan_angle atan p1 p2)
    (conj (never_nan_inner_angle acos p1 p2 p3) (conj (never_nan_pld p1 p2 p3 L1 L2 V1 V2 V3) (never_nan_numpy p1 p2 V1 V2))))).
Qed.
Print Assumptions never_nan.

(* degenerate limbs outside the mask: vertical -> +-pi/2, coincident end points -> 0; and on finite
   valid inputs X_ops computes the real-number formula *)
Theorem degenerate_limbs : forall (atan : R -> R) (x y1 y2 : R) r1 r2, atan 0%R = 0%R ->
  (y1 <> y2 -> torch_angle X_ops (x_atan atan) (fins (x :: y1 :: r1)) (fins (x :: y2 :: r2)) =
                 Fin (if Rlt_dec y1 y2 then PI / 2 else - (PI / 2))%R) /\
  torch_angle X_ops (x_atan atan) (fins (x :: y1 :: r1)) (fins (x :: y1 :: r2)) = Fin 0 /\
  torch_distance X_ops (fins (x :: y1 :: r1)) (fins (x :: y2 :: r2)) = Fin (euclid (x :: y1 :: r1) (x :: y2 :: r2)).
Proof.
  exact (fun atan x y1 y2 r1 r2 H0 => conj (x_angle_vertical atan x y1 y2 r1 r2) (conj (x_angle_coincident atan x y1 r1 r2 H0)
          (x_distance_is_real (x :: y1 :: r1) (x :: y2 :: r2)))).
Qed.
Print Assumptions degenerate_limbs.

Example masked_inputs_ex :
  length ex_m1 = length ex_m2 /\ length ex_m2 = length ex_m3 /\ length ex_m3 = length ex_m2 /\
  valid_fin ex_m1 /\ valid_fin ex_m2 /\ valid_fin ex_m3 /\
  all_valid ex_m1 && all_valid ex_m2 = false /\ all_valid ex_m1 && all_valid ex_m2 && all_valid ex_m3 = false /\
  forallb (fun c : mv X_ops => negb (snd c)) ex_m1 = true /\ (3%R : R) <> 5%R.
Proof. exact ex_masked. Qed.
Print Assumptions masked_inputs_ex.

(* the pinned zero_filled (tensor.mul(mask)) violates both totality clauses - defect F9; the models above
   follow the repair (torch.where), which tie_masked_tensor below demands of the source *)
Theorem zero_filled_by_multiplication_refuted : forall atan : R -> R,
  torch_distance_pinned X_ops [(NaN, false); (Fin 2, false)] [(Fin 1, true); (Fin 3, true)] = NaN /\
  torch_angle_pinned X_ops (x_atan atan) [(Fin 1, false); (Fin 2, false)] [(Fin 1, true); (Fin 3, true)] = NaN.
Proof. exact (fun atan => conj pinned_distance_nan_under_mask (pinned_angle_vertical_limb_under_mask atan)). Qed.
Print Assumptions zero_filled_by_multiplication_refuted.

(* ================= the assembled representation: discrete, no reals ================= *)
(* the constructor succeeds exactly for headers with at least one limb chain *)
Theorem representation_defined_iff : forall h k1 k2 k3,
  (exists r, mk_repr h k1 k2 k3 = Some r) <-> chains (limb_points h) <> [].
Proof. exact mk_repr_some_iff. Qed.
Print Assumptions representation_defined_iff.

Theorem output_size : forall X Y (dy : Y) h r (m1s : list (list X -> list Y)) (m2s : list (list X -> list X -> Y))
    (m3s : list (list X -> list X -> list X -> Y)) D (src : t4 X),
  mk_repr h (length m1s) (length m2s) (length m3s) = Some r -> header_dims h = Some D -> wf_header h ->
  length m1s + length m2s + length m3s > 0 ->
  (exists f, call X Y dy r (input_size h) D m1s m2s m3s src = Some (C17_Layout.output_size r, f)) /\
  C17_Layout.output_size r =
    length m1s * (input_size h * D) + length m2s * total_limbs h + length m3s * length (chains (limb_points h)).
Proof. exact output_size_thm. Qed.
Print Assumptions output_size.

Theorem block_layout : forall X Y (dy : Y) h r (m1s : list (list X -> list Y)) (m2s : list (list X -> list X -> Y))
    (m3s : list (list X -> list X -> list X -> Y)) D (src : t4 X) n f,
  mk_repr h (length m1s) (length m2s) (length m3s) = Some r -> header_dims h = Some D -> wf_header h ->
  length m1s + length m2s + length m3s > 0 ->
  call X Y dy r (input_size h) D m1s m2s m3s src = Some (n, f) ->
  (forall i p d b l dm, i < length m1s -> p < input_size h -> d < D ->
     f b l (i * (input_size h * D) + (p * D + d)) = nth d (nth i m1s dm (src b l p)) dy) /\
  (forall i ci j b l dm dc, i < length m2s -> ci < length h -> j < length (c_limbs (nth ci h dc)) ->
     let ab := nth j (c_limbs (nth ci h dc)) (0, 0) in
     f b l (length m1s * (input_size h * D) + i * total_limbs h + (limbs_before h ci + j)) =
       nth i m2s dm (src b l (fst ab + points_before h ci)) (src b l (snd ab + points_before h ci))) /\
  (forall i q b l dm, i < length m3s -> q < length (chains (limb_points h)) ->
     let x := nth q (chains (limb_points h)) (0, 0, 0) in
     f b l (length m1s * (input_size h * D) + length m2s * total_limbs h + i * length (chains (limb_points h)) + q) =
       nth i m3s dm (src b l (fst (fst x))) (src b l (snd (fst x))) (src b l (snd x))).
Proof. exact block_layout_thm. Qed.
Print Assumptions block_layout.

(* which triples there are, and how many: every pair of limbs (p1,p2), (p2,p3), in limb order *)
Theorem triples_are_limb_chains : forall ls p1 p2 p3,
  (In (p1, p2, p3) (chains ls) <-> In (p1, p2) ls /\ In (p2, p3) ls) /\
  length (chains ls) = sum_nat (map (fun l1 => length (filter (fun l2 => snd l1 =? fst l2)%nat ls)) ls).
Proof. exact (fun ls p1 p2 p3 => conj (chains_spec ls p1 p2 p3) (chains_length ls)). Qed.
Print Assumptions triples_are_limb_chains.

Example header_with_chain_ex :
  wf_header ex_header /\ header_dims ex_header = Some 2 /\
  (exists r, mk_repr ex_header 1 2 2 = Some r /\ C17_Layout.output_size r = 18) /\
  limb_points ex_header = [(0, 1); (1, 2); (3, 4)] /\ chains (limb_points ex_header) = [(0, 1, 2)] /\
  limb_points ex_header_two_chains = [(0, 1); (2, 3); (3, 4); (3, 2)] /\
  chains (limb_points ex_header_two_chains) = [(2, 3, 4); (2, 3, 2); (3, 2, 3)].
Proof. exact ex_header_ok. Qed.
Print Assumptions header_with_chain_ex.

(* ================= ties to the current source (Gen_C17 is regenerated from /repo on every run;
   C17_Source is the text the models were transcribed from, repaired forms for F9 / F17) ================= *)
Theorem tie_torch_representations :
  Gen_C17.torch_distance_distance = C17_Source.torch_distance_distance /\
  Gen_C17.torch_distance_forward = C17_Source.torch_distance_forward /\
  Gen_C17.torch_angle_forward = C17_Source.torch_angle_forward /\
  Gen_C17.torch_inner_vectors_norm = C17_Source.torch_inner_vectors_norm /\
  Gen_C17.torch_inner_forward = C17_Source.torch_inner_forward /\
  Gen_C17.torch_pld_init = C17_Source.torch_pld_init /\
  Gen_C17.torch_pld_forward = C17_Source.torch_pld_forward /\
  Gen_C17.torch_points_forward_prefix = C17_Source.torch_points_forward_prefix /\
  Gen_C17.torch_points_flatten_kind = C17_Source.torch_points_flatten_kind.
Proof. exact C17_GenTie.tie_torch_representations. Qed.
Print Assumptions tie_torch_representations.
Theorem tie_tf_representations :
  Gen_C17.tf_distance_distance = C17_Source.tf_distance_distance /\
  Gen_C17.tf_distance_call = C17_Source.tf_distance_call /\
  Gen_C17.tf_angle_call = C17_Source.tf_angle_call /\
  Gen_C17.tf_inner_vectors_norm = C17_Source.tf_inner_vectors_norm /\
  Gen_C17.tf_inner_call = C17_Source.tf_inner_call /\
  Gen_C17.tf_pld_init = C17_Source.tf_pld_init /\
  Gen_C17.tf_pld_call = C17_Source.tf_pld_call.
Proof. exact C17_GenTie.tie_tf_representations. Qed.
Print Assumptions tie_tf_representations.
Theorem tie_numpy_distance :
  Gen_C17.np_distance_distance = C17_Source.np_distance_distance /\
  Gen_C17.np_distance_call = C17_Source.np_distance_call.
Proof. exact C17_GenTie.tie_numpy_distance. Qed.
Print Assumptions tie_numpy_distance.
Theorem tie_masked_tensor :
  Gen_C17.masked_arithmetic = C17_Source.masked_arithmetic /\
  Gen_C17.masked_add = C17_Source.masked_add /\
  Gen_C17.masked_sub = C17_Source.masked_sub /\
  Gen_C17.masked_mul = C17_Source.masked_mul /\
  Gen_C17.masked_truediv = C17_Source.masked_truediv /\
  Gen_C17.masked_pow = C17_Source.masked_pow /\
  Gen_C17.masked_sum = C17_Source.masked_sum /\
  Gen_C17.masked_fix_nan = C17_Source.masked_fix_nan /\
  Gen_C17.masked_div = C17_Source.masked_div /\
  Gen_C17.masked_getitem = C17_Source.masked_getitem /\
  Gen_C17.masked_permute = C17_Source.masked_permute /\
  Gen_C17.masked_split = C17_Source.masked_split /\
  Gen_C17.masked_squeeze = C17_Source.masked_squeeze /\
  Gen_C17.masked_transpose = C17_Source.masked_transpose /\
  Gen_C17.masked_zero_filled_kind = C17_Source.masked_zero_filled_kind /\
  Gen_C17.torch_fallback_getattr = C17_Source.torch_fallback_getattr /\
  Gen_C17.masked_torch_stack = C17_Source.masked_torch_stack.
Proof. exact C17_GenTie.tie_masked_tensor. Qed.
Print Assumptions tie_masked_tensor.
Theorem tie_pose_representation :
  Gen_C17.repr_init = C17_Source.repr_init /\
  Gen_C17.repr_calc_output_size = C17_Source.repr_calc_output_size /\
  Gen_C17.repr_get_limbs_points = C17_Source.repr_get_limbs_points /\
  Gen_C17.repr_get_triangles_points = C17_Source.repr_get_triangles_points /\
  Gen_C17.repr_get_points = C17_Source.repr_get_points /\
  Gen_C17.repr_call = C17_Source.repr_call /\
  Gen_C17.torch_repr_init = C17_Source.torch_repr_init /\
  Gen_C17.torch_repr_group_embeds = C17_Source.torch_repr_group_embeds /\
  Gen_C17.torch_repr_permute = C17_Source.torch_repr_permute /\
  Gen_C17.tf_repr_group_embeds = C17_Source.tf_repr_group_embeds /\
  Gen_C17.tf_repr_get_points = C17_Source.tf_repr_get_points /\
  Gen_C17.tf_repr_permute = C17_Source.tf_repr_permute.
Proof. exact C17_GenTie.tie_pose_representation. Qed.
Print Assumptions tie_pose_representation.
Theorem tie_mask_whitelist :
  forallb (fun s => existsb (String.eqb s) Gen_C17.doesnt_change_mask) ["sqrt"; "square"; "acos"]%string = true.
Proof. exact tie_doesnt_change_mask. Qed.
Print Assumptions tie_mask_whitelist.
Theorem executed_instance_is_F_ops : F17_ops = F_ops.
Proof. exact F17_ops_is_F_ops. Qed.
Print Assumptions executed_instance_is_F_ops.

(* ---------- class structure of the current source: overrides and attribute hooks (proofs/ClassesTie.v) ---------- *)
Require Import ClassesTie.
Theorem C17_tie_class_torch_repr : over_torch_repr = Some exp_over_torch_repr.
Proof. exact over_torch_repr_tie. Qed.
Print Assumptions C17_tie_class_torch_repr.
Theorem C17_tie_class_tf_repr : over_tf_repr = Some exp_over_tf_repr.
Proof. exact over_tf_repr_tie. Qed.
Print Assumptions C17_tie_class_tf_repr.
Theorem C17_tie_class_subclasses : subclasses = exp_subclasses.
Proof. exact subclasses_tie. Qed.
Print Assumptions C17_tie_class_subclasses.
Theorem C17_tie_class_attr_hooks : Gen_Classes.attr_hooks = exp_attr_hooks.
Proof. exact attr_hooks_tie. Qed.
Print Assumptions C17_tie_class_attr_hooks.

